// C20 harness: 2-D Delaunay triangulation (modeling/triangulation.BowyerWatson).
//
// Inputs are integer grid points g (general position enforced by exact integer tests), handed to
// the implementation as float64((g+off))*2^shift.  The grid extent is bounded so that every float64
// operation of the implementation (bounding box, super triangle, orientation and in-circle
// determinants, including those against super-triangle vertices) is exact — see exactOK — hence
// the implementation must return exactly the triangle set of the rational Coq model, and the
// result must not depend on shift/off (checked here as a metamorphic oracle).
//
// Every observation is written as a Coq term
// `CTri use_model need_spec need_cover pts tris pos` for
// Check/C20.v: corr_ok compares with the model (and checks that the model run meets the hypotheses
// of bw_delaunay_partial), prop_ok runs — when need_spec — the certified checker delaunayb and
// vertex identity and — when need_cover — the coverage oracles (every point used, 2n-2-h triangles,
// areas add up to the hull area) on what the implementation returned.  A case whose only shortfall
// is the known finding (hull triangles dropped by the finite super triangle) is written twice:
// need_spec only (everything else must hold), then need_cover only under the FailKey.
package main

import (
	"encoding/json"
	"fmt"
	"io"
	"log"
	"math"
	"math/big"
	"os"
	"runtime/pprof"
	"slices"
	"sort"
	"strings"

	"verif/harness/hx"

	"github.com/EliCDavis/polyform/modeling"
	"github.com/EliCDavis/polyform/modeling/triangulation"
	"github.com/EliCDavis/vector/vector2"
)

// ---------------------------------------------------------------- replayable input
type desc struct {
	Pts   [][2]int64 `json:"pts"`   // grid coordinates
	Shift int        `json:"shift"` // coordinates are scaled by 2^shift ...
	OffX  int64      `json:"off_x"` // ... after adding this offset (grid units)
	OffY  int64      `json:"off_y"`
	Model bool       `json:"model"` // also compare with the Coq model (small cases)
	Gen   string     `json:"gen"`
	Wide  bool       `json:"wide,omitempty"`  // beyond the exact grid: admitted by the faithful-run filter (wide.go)
	Dup   bool       `json:"dup,omitempty"`   // contains exactly repeated points: coverage / every-point-used not judged
	Spare int        `json:"spare,omitempty"` // the slice handed to BowyerWatson has cap = len + Spare (a window of a larger buffer)
}

type P struct{ x, y int64 }

// orient: exact while the coordinate differences stay below 2^31; beyond that only the sign is returned
// (+-1 / 0, from big integers) — every caller uses the sign only
func orient(a, b, c P) int64 {
	bx, by, cx, cy := b.x-a.x, b.y-a.y, c.x-a.x, c.y-a.y
	const lim = 1 << 31
	if absI(bx) < lim && absI(by) < lim && absI(cx) < lim && absI(cy) < lim {
		return bx*cy - cx*by
	}
	l := new(big.Int).Mul(big.NewInt(bx), big.NewInt(cy))
	r := new(big.Int).Mul(big.NewInt(cx), big.NewInt(by))
	return int64(l.Cmp(r))
}

// in-circle determinant (same expansion as the Go code); exact in int64 for |differences| < 2^13
func incircle(a, b, c, p P) int64 {
	ax, ay := a.x-p.x, a.y-p.y
	bx, by := b.x-p.x, b.y-p.y
	cx, cy := c.x-p.x, c.y-p.y
	return (ax*ax+ay*ay)*(bx*cy-cx*by) - (bx*bx+by*by)*(ax*cy-cx*ay) + (cx*cx+cy*cy)*(ax*by-bx*ay)
}

func bbox(ps []P) (x0, y0, x1, y1 int64) {
	x0, y0, x1, y1 = ps[0].x, ps[0].y, ps[0].x, ps[0].y
	for _, p := range ps {
		if p.x < x0 {
			x0 = p.x
		}
		if p.x > x1 {
			x1 = p.x
		}
		if p.y < y0 {
			y0 = p.y
		}
		if p.y > y1 {
			y1 = p.y
		}
	}
	return
}

// exactOK: every float64 operation of the implementation is exact on this input.
//   - coordinates (g+off) and the bounding-box sum min.X+max.X are integers below 2^52, and the
//     super-triangle coordinates are multiples of 1/2 below 2^52 => representable (the scaling by
//     2^shift only changes exponents; |shift| <= 20 keeps everything far from over/underflow);
//   - let u = 1 if min.X+max.X is even, else 1/2 (xMiddle is then a half integer) and D the largest
//     coordinate difference, in units of u, between a vertex (input or super-triangle) and an input
//     point: D <= (20.5*S)/u with S = max(w,h).  In the 4th-degree determinant
//     |ax^2+ay^2| <= 2D^2, |bx*cy-cx*by| <= 2D^2, products <= 4D^4, partial sums <= 12D^4, all
//     integers (in units of u^k): exact as soon as 12*D^4 < 2^53, i.e. D <= 5233.
//     (S <= 127 always suffices; S <= 255 when min.X+max.X is even.)
//     The bound is stated for the 20x super triangle of /repo HEAD.
func exactOK(d desc) bool {
	ps := gridPts(d)
	x0, y0, x1, y1 := bbox(ps)
	const lim = int64(1) << 50
	for _, v := range []int64{x0 + d.OffX, x1 + d.OffX, y0 + d.OffY, y1 + d.OffY} {
		if v > lim || v < -lim {
			return false
		}
	}
	if d.Shift < -20 || d.Shift > 20 {
		return false
	}
	S := x1 - x0
	if y1-y0 > S {
		S = y1 - y0
	}
	D := (41*S + 1) / 2 // 20.5*S rounded up, unit 1
	if (x0+x1+2*d.OffX)%2 != 0 {
		D = 41 * S // unit 1/2
	}
	return D <= 5233
}

func gridPts(d desc) []P {
	ps := make([]P, len(d.Pts))
	for i, p := range d.Pts {
		ps[i] = P{p[0], p[1]}
	}
	return ps
}

// ---------------------------------------------------------------- general position (exact)
func gcd(a, b int64) int64 {
	if a < 0 {
		a = -a
	}
	if b < 0 {
		b = -b
	}
	for b != 0 {
		a, b = b, a%b
	}
	return a
}

func collinearWithAny(ps []P, p P) bool {
	for i := range ps {
		if ps[i] == p {
			return true
		}
		for j := i + 1; j < len(ps); j++ {
			if orient(ps[i], ps[j], p) == 0 {
				return true
			}
		}
	}
	return false
}

// cocircularOffenders: indices k that lie on a circle through three other points.  For a pair
// (i,j) the points k,l are concyclic with i,j iff the signed cotangents of the angles i-k-j and
// i-l-j agree: dot/cross as a reduced fraction.  O(n^3) map operations.
func cocircularOffenders(ps []P) map[int]bool {
	off := map[int]bool{}
	buf := make([]int64, 0, len(ps))
	for i := range ps {
		for j := i + 1; j < len(ps); j++ {
			buf = buf[:0]
			for k := range ps {
				if k == i || k == j {
					continue
				}
				ux, uy := ps[i].x-ps[k].x, ps[i].y-ps[k].y
				vx, vy := ps[j].x-ps[k].x, ps[j].y-ps[k].y
				dot, cross := ux*vx+uy*vy, ux*vy-uy*vx
				if cross == 0 {
					off[k] = true
					continue
				}
				g := gcd(dot, cross)
				dot, cross = dot/g, cross/g
				if cross < 0 {
					dot, cross = -dot, -cross
				}
				// |dot|, cross < 2^21 (grid extent <= 1000): pack (dot, cross, k) into one word
				buf = append(buf, ((dot+(1<<21))<<22|cross)<<12|int64(k))
			}
			slices.Sort(buf)
			for a := 1; a < len(buf); a++ {
				if buf[a]>>12 == buf[a-1]>>12 {
					off[int(buf[a]&0xfff)] = true
				}
			}
		}
	}
	return off
}

func generalPosition(ps []P) bool {
	for i := range ps {
		if collinearWithAny(ps[:i], ps[i]) {
			return false
		}
	}
	return len(cocircularOffenders(ps)) == 0
}

// ---------------------------------------------------------------- generators
type sampler func(r *hx.Rng) P

// fill draws points from s, rejecting duplicates / collinear triples, then repairs concyclic
// quadruples by replacing offenders; gives up (returns what it has, >= 3 points) after a budget.
func fill(r *hx.Rng, n int, s sampler, init []P) []P {
	ps := append([]P(nil), init...)
	nInit := len(init)
	add := func(target int) {
		tries := 0
		for len(ps) < target && tries < 60*target+200 {
			tries++
			p := s(r)
			if !collinearWithAny(ps, p) {
				ps = append(ps, p)
			}
		}
	}
	add(n)
	for round := 0; round < 12; round++ {
		off := cocircularOffenders(ps)
		if len(off) == 0 {
			break
		}
		var keep []P
		for i, p := range ps {
			if !off[i] || i < nInit { // anchors stay: their partners in a concyclic quadruple go
				keep = append(keep, p)
			}
		}
		ps = keep
		if round < 8 {
			add(n)
		}
	}
	if len(cocircularOffenders(ps)) != 0 || len(ps) < 3 {
		return nil
	}
	return ps
}

func clampI(v, lo, hi int64) int64 {
	if v < lo {
		return lo
	}
	if v > hi {
		return hi
	}
	return v
}

func genGrid(r *hx.Rng, n int, big bool) (string, []P) {
	G := int64(127)
	var init []P
	if big {
		// 254 wide with anchors on both vertical sides: min.X+max.X is even, which is what exactOK
		// needs for extents up to 255; only the generators with many free positions
		G = 254
		init = []P{{0, int64(r.Intn(255))}, {254, int64(r.Intn(255))}}
		for init[0].y == init[1].y {
			init[1].y = int64(r.Intn(255))
		}
	}
	if n <= 8 && r.Chance(1, 3) {
		G = int64(r.Range(3, 12)) // tiny grids: many near-degenerate configurations
	} else if !big && r.Chance(1, 3) {
		G = int64(r.Range(16, 100))
	}
	rnd := func(r *hx.Rng, m int64) int64 { return int64(r.Intn(int(m + 1))) }
	kind := r.Intn(7)
	if big {
		kind = []int{0, 0, 2, 3, 6}[r.Intn(5)]
	}
	var name string
	var s sampler
	switch kind {
	case 0, 1:
		name = "uniform"
		s = func(r *hx.Rng) P { return P{rnd(r, G), rnd(r, G)} }
	case 2:
		name = "clustered"
		k := r.Range(1, 4)
		cs := make([]P, k)
		for i := range cs {
			cs[i] = P{rnd(r, G), rnd(r, G)}
		}
		rad := int64(r.Range(2, 12))
		if big {
			rad = int64(r.Range(12, 40))
		}
		s = func(r *hx.Rng) P {
			if r.Chance(1, 8) {
				return P{rnd(r, G), rnd(r, G)} // outlier
			}
			c := hx.Pick(r, cs)
			return P{clampI(c.x+rnd(r, 2*rad)-rad, 0, G), clampI(c.y+rnd(r, 2*rad)-rad, 0, G)}
		}
	case 3:
		name = "flat-hull" // many points within 0..2 of the bounding-box sides: near-collinear hull
		s = func(r *hx.Rng) P {
			e := rnd(r, 2)
			t := rnd(r, G)
			switch r.Intn(6) {
			case 0:
				return P{t, e}
			case 1:
				return P{t, G - e}
			case 2:
				return P{e, t}
			case 3:
				return P{G - e, t}
			default:
				return P{rnd(r, G), rnd(r, G)}
			}
		}
	case 4:
		name = "near-line" // almost all points close to one oblique line
		a, b := int64(r.Range(-3, 3)), int64(r.Range(1, 4))
		s = func(r *hx.Rng) P {
			x := rnd(r, G)
			y := G/2 + a*(x-G/2)/b + rnd(r, 4) - 2
			if r.Chance(1, 10) {
				y = rnd(r, G)
			}
			return P{x, clampI(y, 0, G)}
		}
	case 5:
		name = "strip" // wide and thin (or tall and thin)
		h := int64(r.Range(2, 8))
		tall := r.Bool()
		s = func(r *hx.Rng) P {
			if tall {
				return P{rnd(r, h), rnd(r, G)}
			}
			return P{rnd(r, G), rnd(r, h)}
		}
	default:
		name = "ring" // close to a circle: stresses the in-circle determinant
		rad := float64(G) / 2
		s = func(r *hx.Rng) P {
			a := r.Float() * 2 * math.Pi
			rr := rad - r.Float()*2
			if r.Chance(1, 6) {
				rr = r.Float() * rad
			}
			return P{clampI(int64(math.Round(rad+rr*math.Cos(a))), 0, G), clampI(int64(math.Round(rad+rr*math.Sin(a))), 0, G)}
		}
	}
	return name, fill(r, n, s, init)
}

func genDesc(r *hx.Rng, n int, model bool) desc {
	for {
		name, ps := genGrid(r, n, n > 60)
		if ps == nil {
			if n > 3 {
				n--
			}
			continue
		}
		d := desc{Model: model, Gen: name}
		// random order of insertion (the algorithm is incremental in input order)
		for _, i := range r.Perm(len(ps)) {
			d.Pts = append(d.Pts, [2]int64{ps[i].x, ps[i].y})
		}
		switch r.Intn(4) {
		case 0: // as is
		case 1: // scale only
			d.Shift = r.Range(-20, 20)
		default: // scale and offset: |offset * 2^shift| up to 2^30
			d.Shift = r.Range(-20, 20)
			mag := uint(r.Range(0, 30-d.Shift))
			if mag > 50 {
				mag = 50
			}
			d.OffX = int64(r.U64()%(1<<mag)) * int64(1-2*r.Intn(2))
			d.OffY = int64(r.U64()%(1<<mag)) * int64(1-2*r.Intn(2))
		}
		if exactOK(d) {
			return d
		}
		d.OffX &^= 1 // make min.X+max.X parity depend on the grid only, retry once without offset parity
		if exactOK(d) {
			return d
		}
	}
}

// ---------------------------------------------------------------- running the implementation
type outcome struct {
	tris         [][3]int
	pos          [][3]float64
	sup          [][2]float64 // triangulation.SuperTriangle of the same input
	alens        []int        // length of every vertex attribute of the returned mesh (sorted by kind, name)
	after        [][2]float64 // the caller's slice pts[0:len] as it is AFTER the call
	spareTouched bool         // the callee wrote into pts[len:cap] (recorded, not judged: plain Go append semantics)
	crash        string
}

func runImpl(d desc) (o outcome) {
	// the caller's slice: a window buf[:n] of a buffer with d.Spare further elements (sentinels), so that
	// cap(pts) = len(pts) + d.Spare.  Everything the oracles compare with comes from d.Pts, never from
	// this slice; the slice itself is inspected after the call.
	n := len(d.Pts)
	buf := make([]vector2.Float64, n+d.Spare)
	for i, p := range d.Pts {
		buf[i] = vector2.New(math.Ldexp(float64(p[0]+d.OffX), d.Shift), math.Ldexp(float64(p[1]+d.OffY), d.Shift))
	}
	sentinel := func(i int) vector2.Float64 { return vector2.New(-7.25e77-float64(i), 3.5e-77*float64(i+1)) }
	for i := n; i < len(buf); i++ {
		buf[i] = sentinel(i)
	}
	pts := buf[:n]
	defer func() {
		if e := recover(); e != nil {
			o.crash = fmt.Sprint(e)
		}
		for i := 0; i < n; i++ {
			o.after = append(o.after, [2]float64{buf[i].X(), buf[i].Y()})
		}
		for i := n; i < len(buf); i++ {
			if buf[i] != sentinel(i) {
				o.spareTouched = true
			}
		}
	}()
	for _, v := range triangulation.SuperTriangle(append([]vector2.Float64(nil), pts...)) {
		o.sup = append(o.sup, [2]float64{v.X(), v.Y()})
	}
	m := triangulation.BowyerWatson(pts)
	// the result of the PREVIOUS call, read again now: it must still be what it was
	if retained.ok {
		if why := retained.changed(); why != "" {
			o.crash = "the mesh returned by the previous call changed after this call: " + why
			retained.ok = false
			return
		}
	}
	defer func() { retained.keep(m) }()
	idx := m.Indices()
	if idx.Len()%3 != 0 {
		o.crash = fmt.Sprintf("index count %d not a multiple of 3", idx.Len())
		return
	}
	for i := 0; i+2 < idx.Len(); i += 3 {
		o.tris = append(o.tris, [3]int{idx.At(i), idx.At(i + 1), idx.At(i + 2)})
	}
	for _, a := range m.Float4Attributes() {
		o.alens = append(o.alens, m.Float4Attribute(a).Len())
	}
	for _, a := range m.Float3Attributes() {
		o.alens = append(o.alens, m.Float3Attribute(a).Len())
	}
	for _, a := range m.Float2Attributes() {
		o.alens = append(o.alens, m.Float2Attribute(a).Len())
	}
	for _, a := range m.Float1Attributes() {
		o.alens = append(o.alens, m.Float1Attribute(a).Len())
	}
	if !m.HasFloat3Attribute(modeling.PositionAttribute) {
		o.crash = "no Position attribute"
		return
	}
	pa := m.Float3Attribute(modeling.PositionAttribute)
	for i := 0; i < pa.Len(); i++ {
		v := pa.At(i)
		o.pos = append(o.pos, [3]float64{v.X(), v.Y(), v.Z()})
	}
	return
}

// retained result of the previous call (re-read after the next one)
type retainedMesh struct {
	ok  bool
	m   modeling.Mesh
	idx []int
	pos [][3]float64
}

var retained retainedMesh

func snapshot(m modeling.Mesh) (idx []int, pos [][3]float64) {
	it := m.Indices()
	for i := 0; i < it.Len(); i++ {
		idx = append(idx, it.At(i))
	}
	if m.HasFloat3Attribute(modeling.PositionAttribute) {
		pa := m.Float3Attribute(modeling.PositionAttribute)
		for i := 0; i < pa.Len(); i++ {
			v := pa.At(i)
			pos = append(pos, [3]float64{v.X(), v.Y(), v.Z()})
		}
	}
	return
}
func (r *retainedMesh) keep(m modeling.Mesh) {
	defer func() { recover() }()
	r.m = m
	r.idx, r.pos = snapshot(m)
	r.ok = true
}
func (r *retainedMesh) changed() (why string) {
	defer func() {
		if e := recover(); e != nil {
			why = fmt.Sprint(e)
		}
	}()
	idx, pos := snapshot(r.m)
	if !slices.Equal(idx, r.idx) {
		return fmt.Sprintf("indices %v became %v", r.idx, idx)
	}
	if !slices.Equal(pos, r.pos) {
		return "Position attribute differs"
	}
	return ""
}

func canon(t [3]int) [3]int { // rotation with the smallest index first (keeps orientation)
	for t[0] > t[1] || t[0] > t[2] {
		t = [3]int{t[1], t[2], t[0]}
	}
	return t
}
func sortedSet(ts [][3]int) []string {
	out := make([]string, len(ts))
	for i, t := range ts {
		c := canon(t)
		out[i] = fmt.Sprintf("%d,%d,%d", c[0], c[1], c[2])
	}
	sort.Strings(out)
	return out
}
func vset(t [3]int) [3]int { // unordered vertex set
	s := []int{t[0], t[1], t[2]}
	sort.Ints(s)
	return [3]int{s[0], s[1], s[2]}
}

// ---------------------------------------------------------------- known-finding criterion
// key is set iff the output is duplicate free, consistently wound, a subset of the true Delaunay
// triangulation (exact brute force: triples whose circumcircle contains no other input point), at
// least one true triangle is missing, and EVERY missing triangle has a vertex of the super triangle
// inside or on its circumcircle (the super triangle is the documented construction of /repo HEAD:
// bounding box, S = max(w,h), base at min.Y-S, half width and height 20*S; exact integers in
// doubled coordinates).  Any other triangle of the true triangulation has a strictly empty
// circumdisk with respect to input and super vertices and therefore belongs to every Delaunay
// triangulation of the extended point set: an exact Bowyer-Watson run cannot lose it.
const gpClaimMax = 24 // gp_strongb is O(n^4): about 1 s of vm_compute at 24 points

const failKeyDrop = "triangulation:finite-super-triangle-drops-hull-triangles"

func trueDelaunay(ps []P) map[[3]int]bool {
	dt := map[[3]int]bool{}
	n := len(ps)
	for i := 0; i < n; i++ {
		for j := i + 1; j < n; j++ {
			for k := j + 1; k < n; k++ {
				o := orient(ps[i], ps[j], ps[k])
				if o == 0 {
					continue
				}
				ok := true
				for l := 0; l < n && ok; l++ {
					if l == i || l == j || l == k {
						continue
					}
					det := incircleSign(ps[i], ps[j], ps[k], ps[l])
					if (o > 0 && det > 0) || (o < 0 && det < 0) {
						ok = false
					}
				}
				if ok {
					dt[[3]int{i, j, k}] = true
				}
			}
		}
	}
	return dt
}

// superVerts2: the three super-triangle vertices in doubled grid coordinates
func superVerts2(ps []P) [3]P {
	x0, y0, x1, y1 := bbox(ps)
	S := x1 - x0
	if y1-y0 > S {
		S = y1 - y0
	}
	xm2, yb2 := x0+x1, 2*(y0-S)
	return [3]P{{xm2 - 40*S, yb2}, {xm2, yb2 + 40*S}, {xm2 + 40*S, yb2}}
}

// insideOrOn: q (doubled coordinates) lies inside or on the circumcircle of the grid triangle a,b,c
func insideOrOn(a, b, c, q P) bool {
	bi := func(v int64) *big.Int { return big.NewInt(v) }
	mul := func(x, y *big.Int) *big.Int { return new(big.Int).Mul(x, y) }
	sub := func(x, y *big.Int) *big.Int { return new(big.Int).Sub(x, y) }
	add := func(x, y *big.Int) *big.Int { return new(big.Int).Add(x, y) }
	ax, ay := bi(2*a.x-q.x), bi(2*a.y-q.y)
	bx, by := bi(2*b.x-q.x), bi(2*b.y-q.y)
	cx, cy := bi(2*c.x-q.x), bi(2*c.y-q.y)
	det := add(sub(mul(add(mul(ax, ax), mul(ay, ay)), sub(mul(bx, cy), mul(cx, by))),
		mul(add(mul(bx, bx), mul(by, by)), sub(mul(ax, cy), mul(cx, ay)))),
		mul(add(mul(cx, cx), mul(cy, cy)), sub(mul(ax, by), mul(bx, ay))))
	o := orient(a, b, c)
	return det.Sign()*sign64(o) >= 0
}

func sign64(v int64) int {
	switch {
	case v > 0:
		return 1
	case v < 0:
		return -1
	}
	return 0
}

// classify returns (complete, failKey, number of missing triangles)
func classify(ps []P, tris [][3]int) (bool, string, int) {
	n := len(ps)
	dt := trueDelaunay(ps)
	seen := map[[3]int]bool{}
	sign := int64(0)
	sound := true
	for _, t := range tris {
		for _, v := range t {
			if v < 0 || v >= n {
				return false, "", 0
			}
		}
		s := vset(t)
		if seen[s] || !dt[s] {
			sound = false
		}
		seen[s] = true
		o := orient(ps[t[0]], ps[t[1]], ps[t[2]])
		if o == 0 || (sign != 0 && (o > 0) != (sign > 0)) {
			sound = false
		}
		sign = o
	}
	missing := 0
	allReach := true
	sv := superVerts2(ps)
	for t := range dt {
		if !seen[t] {
			missing++
			a, b, c := ps[t[0]], ps[t[1]], ps[t[2]]
			if !insideOrOn(a, b, c, sv[0]) && !insideOrOn(a, b, c, sv[1]) && !insideOrOn(a, b, c, sv[2]) {
				allReach = false
			}
		}
	}
	if sound && missing == 0 {
		return true, "", 0
	}
	if sound && missing > 0 && allReach {
		return false, failKeyDrop, missing
	}
	return false, "", missing
}

// ---------------------------------------------------------------- one case
func coqCase(d desc, o outcome, posInt [][3]int64, supHalf [][2]int64, afterInt [][2]int64, needSpec, needCover, gp bool) string {
	var b strings.Builder
	fmt.Fprintf(&b, "CTri %s %s %s %s [", hx.CoqBool(d.Model), hx.CoqBool(needSpec), hx.CoqBool(needCover), hx.CoqBool(gp && d.Model))
	for i, p := range d.Pts {
		if i > 0 {
			b.WriteByte(';')
		}
		fmt.Fprintf(&b, "(%d,%d)", p[0]+d.OffX, p[1]+d.OffY)
	}
	b.WriteString("]%Z [")
	for i, t := range o.tris {
		if i > 0 {
			b.WriteByte(';')
		}
		fmt.Fprintf(&b, "(%d,%d,%d)", t[0], t[1], t[2])
	}
	b.WriteString("]%nat [")
	for i, p := range posInt {
		if i > 0 {
			b.WriteByte(';')
		}
		fmt.Fprintf(&b, "(%d,%d,%d)", p[0], p[1], p[2])
	}
	b.WriteString("]%Z [")
	for i, p := range supHalf {
		if i > 0 {
			b.WriteByte(';')
		}
		fmt.Fprintf(&b, "(%d,%d)", p[0], p[1])
	}
	b.WriteString("]%Z ")
	b.WriteString(hx.CoqListNat(o.alens))
	b.WriteString(" [")
	for i, p := range afterInt {
		if i > 0 {
			b.WriteByte(';')
		}
		fmt.Fprintf(&b, "(%d,%d)", p[0], p[1])
	}
	b.WriteString("]%Z")
	return b.String()
}

func ldexp(v float64, e int) float64 { return math.Ldexp(v, e) }

func toUnit(v float64, shift int) (int64, bool) {
	u := math.Ldexp(v, -shift)
	if u != math.Trunc(u) || math.Abs(u) > (1<<53) {
		return 0, false
	}
	return int64(u), true
}

func runCase(run *hx.Run, d desc, kind string) {
	ps := gridPts(d)
	uniq := ps
	if d.Dup {
		uniq = dedupe(ps)
	}
	gp := len(uniq) >= 3
	if gp && extent(uniq) <= 1000 {
		gp = generalPosition(uniq)
	} else if gp {
		gp = len(uniq) <= 140 && generalPositionWide(uniq)
	}
	if !gp || !(exactOK(d) || (d.Wide && !d.Dup && (wideOK(d) || wideOKBig(d)))) {
		run.Count("skipped:not-general-position-or-not-exact")
		return
	}
	o := runImpl(d)
	c := hx.Case{Kind: kind, Desc: d, Nontriv: len(ps) >= 4}
	kb, _ := json.Marshal(struct {
		P [][2]int64
		S int
		X int64
		Y int64
		C int
	}{d.Pts, d.Shift, d.OffX, d.OffY, d.Spare})
	c.Key = string(kb)
	if o.crash != "" {
		c.GoFail = "Crash: " + o.crash
		c.Coq = coqCase(desc{Pts: d.Pts}, outcome{}, nil, nil, nil, true, true, false)
		run.Add(c)
		return
	}
	posInt := make([][3]int64, 0, len(o.pos))
	for _, p := range o.pos {
		var q [3]int64
		for k := 0; k < 3; k++ {
			v, ok := toUnit(p[k], d.Shift)
			if !ok {
				c.GoFail = fmt.Sprintf("Position component %v is not an input coordinate", p[k])
			}
			q[k] = v
		}
		posInt = append(posInt, q)
	}
	for _, t := range o.tris {
		for _, v := range t {
			if v < 0 {
				c.GoFail = "negative index"
			}
		}
	}
	// the caller's slice after the call, in grid units (a value that is not a grid value is an
	// overwritten input: reported directly)
	var afterInt [][2]int64
	for i, p := range o.after {
		x, okx := toUnit(p[0], d.Shift)
		y, oky := toUnit(p[1], d.Shift)
		if !okx || !oky {
			c.GoFail = fmt.Sprintf("the caller's point %d was overwritten with (%v,%v) (spare capacity %d)", i, p[0], p[1], d.Spare)
		}
		afterInt = append(afterInt, [2]int64{x, y})
	}
	run.Count(fmt.Sprintf("spare-capacity:%d", d.Spare))
	if o.spareTouched {
		run.Count("callee-wrote-into-spare-capacity(not judged)")
	}
	// the super triangle in half grid units; anything else (not a half-unit value) is left out and
	// then differs from the model's (correspondence only: the statement does not mention it)
	var supHalf [][2]int64
	for _, p := range o.sup {
		x, okx := toUnit(2*p[0], d.Shift)
		y, oky := toUnit(2*p[1], d.Shift)
		if okx && oky {
			supHalf = append(supHalf, [2]int64{x, y})
		}
	}
	// metamorphic oracle: exact dyadic scaling / translation must not change the triangle set
	if d.Shift != 0 || d.OffX != 0 || d.OffY != 0 {
		o0 := runImpl(desc{Pts: d.Pts})
		if o0.crash != "" || strings.Join(sortedSet(o0.tris), " ") != strings.Join(sortedSet(o.tris), " ") {
			c.GoFail = fmt.Sprintf("triangle set changes under exact scaling 2^%d / offset (%d,%d): %d vs %d triangles",
				d.Shift, d.OffX, d.OffY, len(o.tris), len(o0.tris))
		}
		run.Count("transformed")
	}
	if c.GoFail == "" && d.Dup {
		run.Count("repeated-points(coverage not judged)")
	}
	noCover := false
	if c.GoFail == "" && !d.Dup {
		_, orphan, maxCav := faithful(ps)
		if orphan {
			run.Count("some-input-point-in-no-triangle")
		}
		switch {
		case maxCav <= 8:
			run.Count("max-cavity:1-8")
		case maxCav <= 16:
			run.Count("max-cavity:9-16")
		case maxCav <= 32:
			run.Count("max-cavity:17-32")
		case maxCav <= 64:
			run.Count("max-cavity:33-64")
		default:
			run.Count("max-cavity:65+")
		}
		complete, key, missing := true, "", 0
		if len(ps) <= 150 {
			complete, key, missing = classify(ps, o.tris)
		} else {
			noCover = true // the brute-force Delaunay triangulation is O(n^4): the four conjuncts only
		}
		c.FailKey = key
		switch {
		case noCover:
			run.Count("coverage-not-judged(more than 150 points)")
		case complete:
			run.Count("complete")
		case key != "":
			run.Count("known:hull-triangles-dropped")
			if missing >= 2 {
				run.Count("known:two-or-more-triangles-dropped")
			}
		default:
			run.Count(fmt.Sprintf("incomplete-or-unsound(missing=%d)", missing))
		}
	}
	// strong general position of input ++ super triangle (the hypothesis of the Coq theorem bw_delaunay):
	// decided here exactly and, for inputs small enough, handed to Check/C20.v as a claim that gp_strongb
	// re-decides — on those inputs the model's output is proved to meet the statement
	gpClaim := false
	if c.GoFail == "" && d.Model && !d.Dup {
		switch {
		case len(ps) > gpClaimMax:
			run.Count("gp-strong:not-evaluated(too large)")
		case strongGP(ps):
			gpClaim = true
			run.Count("gp-strong:holds(re-decided in Coq)")
		default:
			run.Count("gp-strong:fails(super-triangle vertex collinear/concyclic with input points)")
		}
	}
	if c.GoFail == "" && !d.Dup && len(ps) <= 64 {
		switch fr := farReach(ps); {
		case fr > 64:
			run.Count("far-bad-triangle:>64-perimeters")
		case fr > 16:
			run.Count("far-bad-triangle:16-64-perimeters")
		case fr > 4:
			run.Count("far-bad-triangle:4-16-perimeters")
		case fr > 2:
			run.Count("far-bad-triangle:2-4-perimeters")
		}
	}
	known := c.FailKey != ""
	if c.GoFail != "" {
		c.Coq = coqCase(desc{Pts: d.Pts}, outcome{}, nil, nil, nil, true, true, false)
	} else {
		c.Coq = coqCase(d, o, posInt, supHalf, afterInt, true, !known && !d.Dup && !noCover, gpClaim)
	}
	run.Count("gen:" + d.Gen)
	switch n := len(ps); {
	case n <= 4:
		run.Count("n:3-4")
	case n <= 10:
		run.Count("n:5-10")
	case n <= 40:
		run.Count("n:11-40")
	case n <= 100:
		run.Count("n:41-100")
	case n <= 256:
		run.Count("n:101-256")
	default:
		run.Count("n:257+")
	}
	if d.Model {
		run.Count("model-compared")
	}
	if !known {
		run.Add(c)
		return
	}
	// known finding: first everything but coverage (must hold, no FailKey) ...
	c.FailKey = ""
	run.Add(c)
	// ... then coverage on its own under the finding's key (the model is not run again)
	d2 := d
	d2.Model = false
	c2 := hx.Case{Kind: kind + "-cover", Desc: d, Nontriv: false, Key: c.Key, FailKey: failKeyDrop}
	c2.Coq = coqCase(d2, o, posInt, supHalf, afterInt, false, true, false)
	run.Add(c2)
}

func main() {
	if pf := os.Getenv("C20_PROF"); pf != "" {
		f, _ := os.Create(pf)
		pprof.StartCPUProfile(f)
		defer pprof.StopCPUProfile()
	}
	log.SetOutput(io.Discard) // fillHole logs on every winding flip
	run := hx.ParseFlags("C20", "Check.C20")
	for _, in := range run.Inputs() {
		if in.Kind == "pred" {
			var pd predDesc
			if err := json.Unmarshal(in.Raw, &pd); err == nil {
				runPred(run, pd)
			}
			continue
		}
		if in.Kind == "rung" {
			var rd rungDesc
			if err := json.Unmarshal(in.Raw, &rd); err == nil {
				runRung(run, rd)
			}
			continue
		}
		var d desc
		if err := json.Unmarshal(in.Raw, &d); err != nil {
			continue
		}
		runCase(run, d, "pts")
	}
	if run.Replay != "" {
		run.Finish()
		return
	}
	// fixed corner cases: the input of the repaired defect (a near-unit square at scale 2^-7 and
	// 2^-20: the pinned super triangle lay below it -> 0 triangles), the known-finding example, single
	// triangles in both input orders, a point inside a triangle, a thin strip, a far offset, a sparse sliver
	fixedNo := 0
	for _, d := range []desc{
		{Pts: [][2]int64{{0, 0}, {1, 0}, {1, 1}, {0, 2}}, Shift: -7, Model: true, Gen: "fixed"},
		{Pts: [][2]int64{{0, 0}, {1, 0}, {1, 1}, {0, 2}}, Shift: -20, Model: true, Gen: "fixed"},
		{Pts: [][2]int64{{0, 0}, {100, 0}, {100, 1}, {0, 2}, {50, 3}}, Shift: -10, Model: true, Gen: "fixed"},
		{Pts: [][2]int64{{88, 21}, {11, 80}, {43, 55}, {41, 53}, {31, 17}, {31, 18}}, Model: true, Gen: "fixed"},
		{Pts: [][2]int64{{0, 0}, {4, 1}, {1, 5}}, Model: true, Gen: "fixed"},
		{Pts: [][2]int64{{0, 0}, {1, 5}, {4, 1}}, Model: true, Gen: "fixed"},
		{Pts: [][2]int64{{0, 0}, {9, 1}, {2, 8}, {4, 3}}, Model: true, Gen: "fixed"},
		{Pts: [][2]int64{{4, 3}, {0, 0}, {9, 1}, {2, 8}}, Shift: 20, OffX: 1 << 10, OffY: -(1 << 10), Model: true, Gen: "fixed"},
		{Pts: [][2]int64{{0, 0}, {127, 1}, {3, 2}, {60, 0}, {90, 2}, {30, 1}}, OffX: 1 << 30, OffY: 1 << 30, Model: true, Gen: "fixed"},
		// 8 points along the diagonal, sideways spread below 1/100 of the length (scaled by 2^-10, and offset):
		// the finite super triangle leaves 3 triangles and several points without any triangle — vertex
		// identity (one vertex per input point, in input order) must survive
		{Pts: [][2]int64{{782, 788}, {888, 890}, {597, 601}, {113, 125}, {0, 0}, {582, 586}, {1173, 1171}, {253, 251}}, Shift: -10, Model: true, Wide: true, Gen: "fixed"},
		{Pts: [][2]int64{{782, 788}, {888, 890}, {597, 601}, {113, 125}, {0, 0}, {582, 586}, {1173, 1171}, {253, 251}}, OffX: 1 << 20, OffY: -(1 << 18), Model: true, Wide: true, Gen: "fixed"},
		// a flat triangle (angle about 178 degrees, circumradius 12.5 x its base) built first, then a point inside
		// its circumcircle ten base lengths away; and the same with the far point first
		{Pts: [][2]int64{{0, 1000}, {100, 1002}, {51, 1002}, {53, 0}}, Model: true, Wide: true, Gen: "fixed-far"},
		{Pts: [][2]int64{{53, 0}, {0, 1000}, {100, 1002}, {51, 1002}}, Shift: -12, Model: true, Wide: true, Gen: "fixed-far"},
		// two points 2 units apart in a set of extent 2^32: the later one is within 1e-9 |edge| of the line through
		// every long edge at the earlier one; then a point that re-triangulates across the thin triangles
		{Pts: [][2]int64{{0, 0}, {1 << 32, 5}, {7 << 29, 1 << 32}, {1<<31 + 3, 1<<31 + 11}, {3, 1<<32 - 9}, {1<<31 + 5, 1<<31 + 12}, {1 << 30, 3<<30 + 1}, {3 << 30, 1<<30 + 7}}, Model: true, Wide: true, Gen: "fixed-close-pair"},
		// two points just inside the bottom hull edge: both flat hull triangles are dropped (one pocket, two vertices)
		{Pts: [][2]int64{{0, 0}, {4000, 3}, {1200, 2}, {2600, 4}, {900, 3000}, {3100, 2800}, {2000, 1500}}, Model: true, Wide: true, Gen: "fixed-pocket"},
	} {
		d.Spare = []int{0, 3, 1, 4, 16, 2}[fixedNo%6]
		fixedNo++
		runCase(run, d, "pts")
	}
	for _, spokes := range []int{24, 80} { // fixed wheels: 24 / 80 rim points on a slightly perturbed circle, the hub last (cavity of about 22 / 78
		// triangles).  Mirror images about the middle of the bounding box are concyclic with the two base
		// vertices of the super triangle, so the first perturbation the faithful-run filter admits is used.
		for seed := uint64(20); ; seed++ {
			fr := hx.NewRng(seed)
			var rim []P
			for len(rim) < spokes {
				th := 2 * math.Pi * (float64(len(rim)) + 0.2*fr.Float()) / float64(spokes)
				p := P{1000 + int64(math.Round(1000*math.Cos(th))) + int64(fr.Intn(9)) - 4, 1000 + int64(math.Round(1000*math.Sin(th))) + int64(fr.Intn(9)) - 4}
				if okToAdd(rim, p) {
					rim = append(rim, p)
				}
			}
			hub := P{1013, 991}
			for !okToAdd(rim, hub) {
				hub.x++
			}
			x0, y0, _, _ := bbox(rim)
			d := desc{Model: spokes <= 40, Wide: true, Gen: "fixed-wheel"}
			for _, p := range append(rim, hub) {
				d.Pts = append(d.Pts, [2]int64{p.x - x0, p.y - y0})
			}
			if wideOK(d) {
				runCase(run, d, "pts")
				break
			}
		}
	}
	{ // the exported predicates on their own (own PRNG stream: the point-set streams below are unchanged)
		pr := hx.NewRng(run.Seed ^ 0x5eed20)
		for i := 0; i < 24+run.N/4; i++ {
			runPred(run, genPred(pr))
		}
	}
	{ // the size ladder (own PRNG stream; judged by the Go oracle, see ladder.go)
		lr := hx.NewRng(run.Seed ^ 0x1adde5)
		flip := run.Seed%2 == 1
		rungs := []struct {
			n       int
			lattice bool
		}{{1100, !flip}, {2100, flip}, {4200, !flip}}
		if run.Tier == "thorough" {
			rungs = append(rungs, []struct {
				n       int
				lattice bool
			}{{1100, flip}, {1500, false}, {2100, !flip}, {3000, true}, {4200, flip}}...)
		}
		for _, g := range rungs {
			runRung(run, genRung(lr, g.n+lr.Intn(40), g.lattice))
		}
	}
	if run.Tier == "thorough" { // one input of 258-272 points judged by the certified checker in Coq
		d := genHuge(hx.NewRng(run.Seed ^ 0x4875))
		d.Spare = 3
		runCase(run, d, "pts")
	}
	r := hx.NewRng(run.Seed)
	maxBig := 200
	if run.Tier == "thorough" {
		maxBig = 250
	}
	for i := 0; i < run.N; i++ {
		var d desc
		switch {
		case i%8 == 3: // sparse thin near-collinear sets far beyond the exact grid
			d = genSliver(r)
		case i%8 == 5: // wheels: a rim in convex position and hub points of very high degree
			d = genWheel(r, 64)
		case i%16 == 9: // exactly repeated points (9 is not taken by the i%8 streams above)
			d = genDup(r)
		case i%16 == 10: // a point 1-3 units off the line through an edge of length 2^20..2^44, then points across it
			d = genNearLine(r)
		case i%16 == 14: // very flat triangles built before distant points inside their huge circumcircles
			d = genOutlier(r)
		case i%16 == 15: // two or more points just inside one hull edge (multi-vertex pocket of the known finding)
			d = genPocket(r)
		case i%16 == 7: // checker only, larger
			d = genDesc(r, r.Range(41, maxBig), false)
		case i%4 == 0:
			d = genDesc(r, r.Range(3, 6), true)
		case i%4 == 1:
			d = genDesc(r, r.Range(5, 14), true)
		default:
			d = genDesc(r, r.Range(10, 40), true)
		}
		d.Spare = hx.Pick(r, []int{0, 0, 1, 2, 3, 4, 16})
		runCase(run, d, "pts")
	}
	run.Finish()
}
