// C20 harness, round 4 streams and oracles:
//
//   - genOutlier: a short run of nearly collinear points (very flat triangles, circumradius L^2/8h for a
//     run of length L and sideways spread h) built BEFORE one to three distant points that lie inside
//     those huge circumcircles but many triangle perimeters away from the triangles themselves — the
//     regime in which any locality heuristic of the bad-triangle search (distance / bounding-box /
//     spatial-hash pre-filter) is unsound.  The counter far-bad-triangle:* records, per case, the
//     largest distance (in perimeters of the triangle) between a removed triangle and the inserted point.
//   - genPocket: a long hull edge with two to five points just inside it.  The finite super triangle
//     drops the flat hull triangles over them TOGETHER (known finding), leaving one pocket with several
//     outline vertices: whatever a post-processing of the outline adds there is judged by the
//     certified checker without the finding's FailKey (the spec-only half of the case).
//   - strongGP: exact decision of "input ++ super triangle in strong general position" (the hypothesis
//     of the Coq theorem bw_delaunay), passed to Check/C20.v as a claim that gp_strongb re-decides.
//   - retained results: the mesh returned by the previous call is read again after the next call.
package main

import (
	"math"

	"verif/harness/hx"
)

// strongGP: no 3 of the n+3 points (input, super-triangle vertices) collinear, no 4 concyclic.
// Doubled coordinates make the super-triangle vertices integral.
func strongGP(ps []P) bool {
	n := len(ps)
	sv := superVerts2(ps)
	Q := make([]P, n+3)
	for i, p := range ps {
		Q[i] = P{2 * p.x, 2 * p.y}
	}
	for k := 0; k < 3; k++ {
		Q[n+k] = sv[k]
	}
	m := n + 3
	for i := 0; i < m; i++ {
		for j := i + 1; j < m; j++ {
			for k := j + 1; k < m; k++ {
				if orientSign(Q[i], Q[j], Q[k]) == 0 {
					return false
				}
				for l := k + 1; l < m; l++ {
					if incircleSign(Q[i], Q[j], Q[k], Q[l]) == 0 {
						return false
					}
				}
			}
		}
	}
	return true
}

// farReach: exact replay of the run (set semantics, exact signs); for every removed triangle without a
// super-triangle vertex the distance from its centroid to the inserted point, in units of its perimeter.
func farReach(ps []P) float64 {
	n := len(ps)
	sv := superVerts2(ps)
	Q := make([]P, n+3)
	for i, p := range ps {
		Q[i] = P{2 * p.x, 2 * p.y}
	}
	for k := 0; k < 3; k++ {
		Q[n+k] = sv[k]
	}
	type tri = [3]int
	cur := []tri{{n, n + 1, n + 2}}
	worst := 0.0
	dist := func(a, b P) float64 { return math.Hypot(float64(a.x-b.x), float64(a.y-b.y)) }
	for i := 0; i < n; i++ {
		var bad, keep []tri
		for _, t := range cur {
			if incircleSign(Q[t[0]], Q[t[1]], Q[t[2]], Q[i]) < 0 {
				bad = append(bad, t)
				if t[0] < n && t[1] < n && t[2] < n {
					a, b, c := Q[t[0]], Q[t[1]], Q[t[2]]
					per := dist(a, b) + dist(b, c) + dist(c, a)
					cx, cy := float64(a.x+b.x+c.x)/3, float64(a.y+b.y+c.y)/3
					d := math.Hypot(float64(Q[i].x)-cx, float64(Q[i].y)-cy)
					if per > 0 && d/per > worst {
						worst = d / per
					}
				}
			} else {
				keep = append(keep, t)
			}
		}
		cur = keep
		for ti, t := range bad {
			for _, e := range [3][2]int{{t[0], t[1]}, {t[1], t[2]}, {t[2], t[0]}} {
				shared := false
				for oi, o := range bad {
					if oi == ti {
						continue
					}
					for _, f := range [3][2]int{{o[0], o[1]}, {o[1], o[2]}, {o[2], o[0]}} {
						if (e[0] == f[0] && e[1] == f[1]) || (e[0] == f[1] && e[1] == f[0]) {
							shared = true
						}
					}
				}
				if shared || e[0] == i || e[1] == i {
					continue
				}
				nt := tri{e[0], e[1], i}
				if orientSign(Q[e[0]], Q[e[1]], Q[i]) > 0 {
					nt = tri{e[0], i, e[1]}
				}
				cur = append(cur, nt)
			}
		}
	}
	return worst
}

func finishWide(r *hx.Rng, ps []P, name string, maxOff uint) (desc, bool) {
	x0, y0, _, _ := bbox(ps)
	d := desc{Model: len(ps) <= 44, Wide: true, Gen: name}
	for _, p := range ps {
		d.Pts = append(d.Pts, [2]int64{p.x - x0, p.y - y0})
	}
	if r.Chance(2, 3) {
		d.Shift = r.Range(-20, 20)
		if r.Bool() {
			mag := uint(r.Range(0, int(maxOff)))
			d.OffX = int64(r.U64()%(1<<mag)) * int64(1-2*r.Intn(2))
			d.OffY = int64(r.U64()%(1<<mag)) * int64(1-2*r.Intn(2))
		}
	}
	return d, len(ps) >= 4 && wideOK(d)
}

func genOutlier(r *hx.Rng) desc {
	// the case must really remove a triangle that is `target` of its own perimeters away from the
	// inserted point (measured by the exact replay farReach); the target is relaxed when hard to meet
	target := float64(int(2) << uint(r.Range(1, 5))) // 4, 8, 16, 32, 64
	for tries := 1; ; tries++ {
		if tries%40 == 0 && target > 4 {
			target /= 2
		}
		dir := hx.Pick(r, sliverDirs)
		L := int64(1) << uint(r.Range(6, 9)) // run length 64..512 steps of dir
		h := int64(1)
		if L >= 256 && r.Bool() {
			h = int64(r.Range(1, 3))
		}
		mk := func(t, s int64) P { return P{t*dir[0] - s*dir[1], t*dir[1] + s*dir[0]} }
		var all []P
		try := func(p P) bool {
			if okToAdd(all, p) {
				all = append(all, p)
				return true
			}
			return false
		}
		// the run: both ends and 1-4 points between, sideways spread <= h
		k := r.Range(3, 6)
		try(mk(0, 0))
		try(mk(L, int64(r.Intn(int(2*h+1)))-h))
		for tries := 0; len(all) < k && tries < 200; tries++ {
			try(mk(1+int64(r.Intn(int(L-1))), int64(r.Intn(int(2*h+1)))-h))
		}
		if len(all) < 3 {
			continue
		}
		nRun := len(all)
		// the outliers: perpendicular distance log-uniform between 4 run lengths and the reach of the
		// flattest circumcircle (about L^2/4h), on either side, anywhere along (and a little beyond) the run
		lo, hi := float64(4*L), float64(L*L)/float64(4*h)
		m := r.Range(1, 3)
		for tries := 0; len(all) < nRun+m && tries < 200; tries++ {
			D := int64(lo * math.Pow(hi/lo, r.Float()))
			if r.Bool() {
				D = -D
			}
			try(mk(int64(r.Range(int(-L/4), int(L+L/4))), D))
		}
		if len(all) == nRun {
			continue
		}
		runPts, out := append([]P(nil), all[:nRun]...), append([]P(nil), all[nRun:]...)
		perm := func(ps []P) []P {
			q := make([]P, len(ps))
			for i, j := range r.Perm(len(ps)) {
				q[i] = ps[j]
			}
			return q
		}
		var ps []P
		name := "outlier-after-run"
		switch r.Intn(4) {
		case 0:
			name = "outlier-random-order"
			ps = perm(all)
		case 1:
			name = "outlier-after-3"
			rp := perm(runPts)
			ps = append(append(append(ps, rp[:3]...), out...), rp[3:]...)
		default:
			ps = append(append(ps, perm(runPts)...), perm(out)...)
		}
		if farReach(ps) < target {
			continue
		}
		if d, ok := finishWide(r, ps, name, 36); ok {
			return d
		}
	}
}

func genPocket(r *hx.Rng) desc {
	for {
		dir := hx.Pick(r, sliverDirs)
		L := int64(1) << uint(r.Range(8, 12))
		mk := func(x, y int64) P { return P{x*dir[0] - y*dir[1], x*dir[1] + y*dir[0]} }
		var all []P
		try := func(p P) bool {
			if okToAdd(all, p) {
				all = append(all, p)
				return true
			}
			return false
		}
		try(mk(0, 0))
		try(mk(L, int64(r.Intn(3))))
		// the body: 2-5 points well above the edge
		nb := r.Range(2, 5)
		for tries := 0; len(all) < 2+nb && tries < 200; tries++ {
			try(mk(int64(r.Range(0, int(L))), int64(r.Range(int(L/4), int(L)))))
		}
		// the pocket: 2-5 points just inside the edge
		depth := int64(r.Range(1, 4))
		if r.Chance(1, 3) {
			depth = 1 + L/int64(r.Range(200, 1000))
		}
		np := r.Range(2, 5)
		base := len(all)
		for tries := 0; len(all) < base+np && tries < 200; tries++ {
			try(mk(int64(r.Range(int(L/10), int(9*L/10))), int64(r.Range(1, int(depth)+1))))
		}
		if len(all) < base+2 {
			continue
		}
		ps := make([]P, len(all))
		for i, j := range r.Perm(len(all)) {
			ps[i] = all[j]
		}
		if d, ok := finishWide(r, ps, "hull-pocket", 36); ok {
			return d
		}
	}
}

// genHuge: 258-272 points on a 1000 x 1000 grid — more than 256 vertices, so that any 8-bit packing of a
// vertex index, a 256-entry table or a uint8 counter in the implementation is exercised.  Admitted by the
// faithful-run filter; judged by the certified checker only (no model run, no brute-force Delaunay, hence
// no coverage verdict: classify is O(n^4)).
func genHuge(r *hx.Rng) desc {
	for {
		n := r.Range(258, 272)
		ps := fill(r, n, func(r *hx.Rng) P { return P{int64(r.Intn(1001)), int64(r.Intn(1001))} }, nil)
		if len(ps) < 257 {
			continue
		}
		q := make([]P, len(ps))
		for i, j := range r.Perm(len(ps)) {
			q[i] = ps[j]
		}
		x0, y0, _, _ := bbox(q)
		d := desc{Wide: true, Gen: "huge"}
		for _, p := range q {
			d.Pts = append(d.Pts, [2]int64{p.x - x0, p.y - y0})
		}
		if r.Bool() {
			d.Shift = r.Range(-20, 20)
		}
		if wideOK(d) {
			return d
		}
	}
}
