package main

import (
	"encoding/json"
	"fmt"
	"math"
	"os"
	"path/filepath"
	"strconv"
	"strings"

	"verif/harness/hx"

	"github.com/EliCDavis/polyform/formats/obj"
)

var groupNames = []string{"a", "b", "body", "wheel 1", "left arm x", "g", "f", "v", "usemtl", "1", "-", "#x", "1/2/3", "Default", "a"}
var matNames = []string{"red", "green", "my mat", "Default", "DefaultDiffuse", "Default Diffuse", "a b c", "m1", "m2", "usemtl", "g"}

func genVal(r *hx.Rng) float64 {
	switch r.Intn(8) {
	case 0, 1, 2:
		return float64(r.Range(-2, 2)) // few distinct values: equal vertices with different indices
	case 3:
		return float64(r.Range(-1000, 1000)) / 10
	case 4:
		return (r.Float() - 0.5) * 1e6
	case 5:
		return (r.Float() - 0.5) * 1e-6
	case 6:
		return math.Copysign(0, -1)
	default:
		return r.Float()
	}
}

func sp(s string) *string { return &s }

func genMats(r *hx.Rng, nt int) []matDesc {
	k := r.Range(1, 4)
	cuts := make([]int, k)
	left := nt
	for i := 0; i < k-1; i++ {
		switch r.Intn(4) {
		case 0:
			cuts[i] = 0 // empty range
		default:
			cuts[i] = r.Range(0, left)
		}
		left -= cuts[i]
	}
	cuts[k-1] = left
	if r.Chance(1, 5) && k > 1 { // empty range at the end
		cuts[k-2] += cuts[k-1]
		cuts[k-1] = 0
	}
	pool := []string{hx.Pick(r, matNames), hx.Pick(r, matNames), hx.Pick(r, matNames)}
	out := make([]matDesc, k)
	for i := range out {
		out[i].Count = cuts[i]
		if !r.Chance(1, 8) {
			out[i].Name = sp(hx.Pick(r, pool)) // repeats likely
		}
	}
	return out
}

func genMesh(r *hx.Rng, mustHaveTri bool) meshDesc {
	var d meshDesc
	nt := r.Range(0, 5)
	if mustHaveTri && nt == 0 {
		nt = 1
	}
	welded := r.Chance(3, 5)
	nv := 3 * nt
	if welded {
		nv = r.Range(1, 7)
	}
	if nt == 0 && r.Bool() {
		nv = 0
	}
	d.Idx = make([]int, 3*nt)
	for i := range d.Idx {
		if welded {
			d.Idx[i] = r.Intn(nv)
		} else {
			d.Idx[i] = i
		}
	}
	d.Pos = make([][3]float64, nv)
	for i := range d.Pos {
		d.Pos[i] = [3]float64{genVal(r), genVal(r), genVal(r)}
	}
	if r.Bool() && nv > 0 {
		d.UV = make([][2]float64, nv)
		for i := range d.UV {
			d.UV[i] = [2]float64{genVal(r), genVal(r)}
		}
	}
	if r.Bool() && nv > 0 {
		d.Nrm = make([][3]float64, nv)
		for i := range d.Nrm {
			d.Nrm[i] = [3]float64{genVal(r), genVal(r), genVal(r)}
		}
	}
	if r.Chance(3, 5) {
		d.Mats = genMats(r, nt)
	}
	d.Extra = r.Chance(1, 6)
	return d
}

func genWrite(r *hx.Rng, run *hx.Run) writeDesc {
	var d writeDesc
	n := 1
	if r.Chance(3, 4) {
		n = r.Range(2, 5)
	}
	for k := 0; k < n; k++ {
		md := genMesh(r, k < n-1 && !r.Chance(1, 15))
		md.Name = hx.Pick(r, groupNames)
		if (n == 1 && r.Chance(1, 3)) || r.Chance(1, 12) {
			md.Name = ""
		}
		if len(md.Idx) >= 9 && r.Chance(1, 5) {
			md.Mats = genMatsABA(r, len(md.Idx)/3) // one material around another one: red:2 green:1 red:3
			run.Count("write:material-reused-around-another")
		}
		d.Meshes = append(d.Meshes, md)
	}
	switch r.Intn(6) {
	case 0:
		d.Mtl = "mesh.mtl"
	case 1:
		d.Mtl = "a.mtl b.mtl"
	}
	// the mixture the pinned writer got wrong: attribute absent on an earlier mesh, present on a later one
	for k := 1; k < n; k++ {
		if (d.Meshes[k].Nrm != nil && d.Meshes[k-1].Nrm == nil && len(d.Meshes[k-1].Pos) > 0) ||
			(d.Meshes[k].UV != nil && d.Meshes[k-1].UV == nil && len(d.Meshes[k-1].Pos) > 0) {
			run.Count("write:attribute-appears-later")
			break
		}
	}
	// small ill-formed stream: nothing is demanded by the property, model and code must still agree
	if r.Chance(1, 14) {
		m := &d.Meshes[r.Intn(n)]
		switch r.Intn(4) {
		case 0:
			if len(m.Mats) > 0 {
				m.Mats[r.Intn(len(m.Mats))].Count++ // ranges exceed the triangles
				run.Count("write:illformed-count-over")
			}
		case 1:
			if len(m.Mats) > 0 && m.Mats[len(m.Mats)-1].Count > 0 {
				m.Mats[len(m.Mats)-1].Count-- // ranges do not cover the triangles
				run.Count("write:illformed-count-under")
			}
		case 2:
			if len(m.Pos) > 0 {
				m.Idx = append(m.Idx, 0) // trailing partial triangle
				run.Count("write:illformed-partial-triangle")
			}
		case 3:
			if len(m.Mats) > 0 {
				m.Mats[0].Name = sp("") // unnamed material
				run.Count("write:illformed-unnamed-material")
			}
		}
	}
	run.Count(fmt.Sprintf("write:meshes=%d", n))
	return d
}

// ---------- stream 2: OBJ text from the grammar ----------
func fmtNum(r *hx.Rng) string {
	switch r.Intn(6) {
	case 0:
		return strconv.Itoa(r.Range(-3, 3))
	case 1:
		return strconv.FormatFloat(float64(r.Range(-50, 50))/10, 'f', -1, 64)
	case 2:
		return strconv.FormatFloat(r.Float(), 'f', 6, 64)
	case 3:
		return strconv.FormatFloat((r.Float()-0.5)*1e4, 'e', -1, 64)
	case 4:
		return "-0"
	default:
		return strconv.FormatFloat(r.Float()*2-1, 'f', -1, 64)
	}
}

// genStrip: vertex data declared step by step BETWEEN the faces of one group (a growing strip: declare a few
// v / vt / vn, use them together with old ones, declare more, ...), several such groups sharing the tables.
// Small indices, every table entry distinct, so a corner that resolves to another corner's vertex (any
// de-duplication key that depends on how much has been declared so far) changes the observation.
func genStrip(r *hx.Rng, run *hx.Run) string {
	var b strings.Builder
	nv, nt, nn := 0, 0, 0
	decl := func(kv, kt, kn int) {
		// the three kinds in a random order
		for _, k := range r.Perm(3) {
			switch k {
			case 0:
				for i := 0; i < kv; i++ {
					nv++
					fmt.Fprintf(&b, "v %d %d %d\n", nv, 3*nv, -nv)
				}
			case 1:
				for i := 0; i < kt; i++ {
					nt++
					fmt.Fprintf(&b, "vt %d %d.5\n", nt, nt)
				}
			case 2:
				for i := 0; i < kn; i++ {
					nn++
					fmt.Fprintf(&b, "vn 0 %d 1\n", nn)
				}
			}
		}
	}
	pickForm := func() int {
		forms := []int{0}
		if nt > 0 {
			forms = append(forms, 1, 1)
		}
		if nn > 0 {
			forms = append(forms, 2, 2)
		}
		if nt > 0 && nn > 0 {
			forms = append(forms, 3, 3, 3)
		}
		return hx.Pick(r, forms)
	}
	idx := func(n int) int { // old and new entries alike, the newest a little more often
		if r.Chance(1, 4) {
			return n
		}
		return r.Range(1, n)
	}
	corner := func(form int) string {
		v, t, n := idx(nv), 1, 1
		if nt > 0 {
			t = idx(nt)
		}
		if nn > 0 {
			n = idx(nn)
		}
		switch form {
		case 0:
			return strconv.Itoa(v)
		case 1:
			return fmt.Sprintf("%d/%d", v, t)
		case 2:
			return fmt.Sprintf("%d//%d", v, n)
		}
		return fmt.Sprintf("%d/%d/%d", v, t, n)
	}
	decl(3, r.Intn(2), r.Intn(2))
	groups := r.Range(1, 3)
	for g := 0; g < groups; g++ {
		if g > 0 || r.Bool() {
			b.WriteString("g " + hx.Pick(r, groupNames) + "\n")
		}
		uniform := r.Bool()
		rounds := r.Range(2, 7)
		for k := 0; k < rounds; k++ {
			if k > 0 || r.Bool() {
				decl(r.Intn(3), r.Intn(3), r.Intn(3))
			}
			if r.Chance(1, 6) {
				b.WriteString("usemtl " + hx.Pick(r, []string{"m1", "m2"}) + "\n")
			}
			form := pickForm()
			for f := r.Range(1, 3); f > 0; f-- {
				if !uniform {
					form = pickForm()
				}
				b.WriteString("f " + corner(form) + " " + corner(form) + " " + corner(form) + "\n")
			}
		}
	}
	run.Count("file:strip-declarations-between-faces")
	return b.String()
}

func genFile(r *hx.Rng, run *hx.Run) string {
	if r.Chance(1, 4) {
		return genStrip(r, run)
	}
	if r.Chance(1, 16) {
		return genCollide(r, run)
	}
	var b strings.Builder
	// ---- text layer: separators, line terminators, blanks and comments anywhere ----
	sep := func() string {
		switch r.Intn(12) {
		case 0:
			return "  "
		case 1:
			return "\t"
		case 2:
			return " \t "
		}
		return " "
	}
	eolMode := r.Intn(10) // 0: CRLF throughout, 1: LF and CRLF mixed line by line, otherwise LF
	switch eolMode {
	case 0:
		run.Count("file:eol-crlf")
	case 1:
		run.Count("file:eol-mixed")
	}
	eolf := func() string {
		if eolMode == 0 || (eolMode == 1 && r.Bool()) {
			return "\r\n"
		}
		return "\n"
	}
	inFill := false
	var fill func()
	end := func() {
		switch r.Intn(16) {
		case 0:
			b.WriteString(" ")
		case 1:
			b.WriteString("\t")
		case 2:
			b.WriteString(" \t  ")
		}
		b.WriteString(eolf())
		if !inFill && r.Chance(1, 9) {
			fill()
		}
	}
	lead := func() { // leading blanks before the keyword
		if r.Chance(1, 14) {
			b.WriteString(hx.Pick(r, []string{" ", "\t", "   "}))
		}
	}
	fill = func() { // lines without meaning, anywhere between two statements
		inFill = true
		defer func() { inFill = false }()
		switch r.Intn(5) {
		case 0:
			b.WriteString("#")
		case 1:
			b.WriteString("# v 1 2 3 f 1 2 3")
		case 2:
			b.WriteString(hx.Pick(r, []string{"", " ", "\t", "  \t"})) // blank line
			b.WriteString(eolf())
			return
		case 3:
			b.WriteString("#comment without space")
		case 4:
			if longLines && r.Chance(1, 2) {
				// a legal line that does not fit bufio.Scanner's default 64 KiB token
				b.WriteString("# " + strings.Repeat("x", 65534+r.Range(0, 4000)))
				run.Count("file:line-over-64KiB")
			} else {
				// 65535 bytes before the LF: the longest line the default scanner takes (no trailing blanks, no CR)
				b.WriteString("# " + strings.Repeat("y", 65533) + "\n")
				run.Count("file:line-of-65535-bytes")
				return
			}
		}
		end()
	}
	nv, nt, nn := 0, 0, 0
	emitV := func(k int) {
		for i := 0; i < k; i++ {
			lead()
			b.WriteString("v" + sep() + fmtNum(r) + sep() + fmtNum(r) + sep() + fmtNum(r))
			if r.Chance(1, 10) {
				b.WriteString(sep() + "1.0") // w coordinate: ignored
			}
			end()
			nv++
		}
	}
	emitT := func(k int) {
		for i := 0; i < k; i++ {
			lead()
			b.WriteString("vt" + sep() + fmtNum(r) + sep() + fmtNum(r))
			if r.Chance(1, 6) {
				b.WriteString(sep() + "0") // third texture coordinate: ignored
			}
			end()
			nt++
		}
	}
	emitN := func(k int) {
		for i := 0; i < k; i++ {
			lead()
			b.WriteString("vn" + sep() + fmtNum(r) + sep() + fmtNum(r) + sep() + fmtNum(r))
			end()
			nn++
		}
	}
	misc := func() {
		switch r.Intn(12) {
		case 0:
			b.WriteString("# a comment")
			end()
		case 1:
			b.WriteString("o thing")
			end()
		case 2:
			b.WriteString("s off")
			end()
		case 3:
			b.WriteString(eolf())
		case 4:
			b.WriteString("mtllib" + sep() + hx.Pick(r, []string{"a.mtl", "b.mtl c.mtl"}))
			end()
		}
	}
	usemtl := func() {
		lead()
		b.WriteString("usemtl" + sep() + hx.Pick(r, matNames))
		end()
		run.Count("file:usemtl")
	}
	if r.Chance(1, 16) {
		// a byte-order mark is not OBJ; it glues to the first keyword, which both the reader and the tokenizer then
		// see as an unknown statement (harmless before a comment, drops the first vertex before a v line)
		b.WriteString("\ufeff")
		run.Count("file:utf8-bom")
	}
	if r.Chance(1, 4) {
		b.WriteString("# Created by a generator")
		end()
	}
	emitV(r.Range(3, 7))
	if r.Chance(2, 3) {
		emitT(r.Range(1, 4))
	}
	if r.Chance(2, 3) {
		emitN(r.Range(1, 4))
	}
	mixed := r.Chance(1, 5)
	if mixed {
		run.Count("file:mixed-corner-forms")
	}
	invalid := r.Chance(1, 14)
	badAt := r.Intn(12)
	respell := r.Chance(1, 8)
	if respell {
		run.Count("file:respelled-corner-tokens")
	}
	polygons := r.Chance(1, 12) // not triangulated: outside the property, model and code must still agree
	if polygons {
		run.Count("file:polygon-or-short-face")
	}
	ncorner := 0
	pickForm := func() int {
		forms := []int{0}
		if nt > 0 {
			forms = append(forms, 1)
		}
		if nn > 0 {
			forms = append(forms, 2)
		}
		if nt > 0 && nn > 0 {
			forms = append(forms, 3, 3)
		}
		return hx.Pick(r, forms)
	}
	cornerTok := func(form int) string {
		v := r.Range(1, nv)
		t := 1
		n := 1
		if nt > 0 {
			t = r.Range(1, nt)
		}
		if nn > 0 {
			n = r.Range(1, nn)
		}
		if r.Chance(1, 3) { // aligned triples as a typical exporter writes them: tokens repeat
			t, n = 1+(v-1)%maxi(nt, 1), 1+(v-1)%maxi(nn, 1)
		}
		if invalid && ncorner == badAt {
			switch r.Intn(4) {
			case 0:
				v = 0
			case 1:
				v = nv + r.Range(1, 3) // forward reference / out of range
			case 2:
				v = -r.Range(1, nv) // relative index: not supported by the reader
			case 3:
				if form == 2 || form == 3 {
					n = nn + 1
				} else {
					v = nv + 1
				}
			}
			run.Count("file:invalid-index")
		}
		ncorner++
		num := strconv.Itoa
		if respell && r.Chance(1, 3) && v > 0 { // same numbers, different token text: the reader keys on the text
			switch r.Intn(3) {
			case 0:
				num = func(x int) string { return "0" + strconv.Itoa(x) }
			case 1:
				num = func(x int) string { return "+" + strconv.Itoa(x) }
			case 2:
				if form == 0 {
					return strconv.Itoa(v) + "//"
				}
			}
		}
		switch form {
		case 0:
			return num(v)
		case 1:
			return num(v) + "/" + strconv.Itoa(t)
		case 2:
			return num(v) + "//" + num(n)
		}
		return num(v) + "/" + num(t) + "/" + strconv.Itoa(n)
	}
	sections := r.Range(1, 5)
	firstG := r.Chance(2, 3)
	if !firstG && sections > 1 {
		run.Count("file:faces-before-first-g")
	}
	for s := 0; s < sections; s++ {
		if r.Chance(1, 6) {
			usemtl() // before the g line: carried into the next group when the current one has no face yet
		}
		if s > 0 || firstG {
			if r.Chance(1, 12) {
				b.WriteString("g")
				run.Count("file:bare-g")
			} else {
				b.WriteString("g" + sep() + hx.Pick(r, groupNames))
			}
			end()
		}
		if r.Chance(1, 5) {
			emitV(r.Range(1, 3))
			if r.Bool() {
				emitT(r.Range(1, 2))
			}
			if r.Bool() {
				emitN(r.Range(1, 2))
			}
			run.Count("file:late-vertex-data")
		}
		form := pickForm()
		nf := r.Range(0, 4)
		if nf == 0 {
			run.Count("file:group-without-faces")
		}
		for f := 0; f < nf; f++ {
			if r.Chance(1, 4) {
				usemtl()
			}
			if mixed {
				form = pickForm()
			}
			lead()
			b.WriteString("f" + sep() + cornerTok(form) + sep() + cornerTok(form) + sep() + cornerTok(form))
			if longLines && r.Chance(1, 40) {
				b.WriteString(strings.Repeat(" ", 66000)) // trailing blanks push the line over 64 KiB
				run.Count("file:line-over-64KiB")
			}
			if polygons && r.Chance(1, 2) {
				for k := r.Range(1, 2); k > 0; k-- {
					b.WriteString(sep() + cornerTok(form))
				}
			}
			end()
			if polygons && r.Chance(1, 8) {
				b.WriteString("f" + sep() + cornerTok(form) + sep() + cornerTok(form))
				end()
			}
			misc()
		}
		if r.Chance(1, 6) {
			usemtl() // immediately followed by g or end of input
			run.Count("file:usemtl-then-g-or-eof")
		}
	}
	if invalid && r.Chance(1, 4) {
		b.WriteString(hx.Pick(r, []string{"vt 0.5", "v 1 2", "vn 0 1", "v"})) // too few numbers: index panic
		end()
		run.Count("file:invalid-short-line")
	}
	if invalid && r.Chance(1, 3) {
		b.WriteString("usemtl") // declared error
		end()
		run.Count("file:invalid-bare-usemtl")
	}
	// ---- the last statement: every kind, then its terminator: LF / CRLF / a lone CR / none at all ----
	inFill = true // nothing after the last statement
	last := r.Intn(9)
	switch last {
	case 0:
		emitV(1)
	case 1:
		if r.Bool() {
			emitT(1)
		} else {
			emitN(1)
		}
	case 2:
		usemtl()
	case 3:
		b.WriteString("g" + sep() + hx.Pick(r, groupNames))
		end()
	case 4:
		b.WriteString("# the end")
		end()
	case 5, 6:
		if nv >= 1 {
			form := pickForm()
			invalid = false
			b.WriteString("f" + sep() + cornerTok(form) + sep() + cornerTok(form) + sep() + cornerTok(form))
			end()
		}
	} // 7, 8: whatever the last section ended with (mostly an f line)
	text := b.String()
	switch r.Intn(4) {
	case 0: // no terminator after the last statement
		if strings.HasSuffix(text, "\r\n") {
			text = strings.TrimSuffix(text, "\r\n")
		} else {
			text = strings.TrimSuffix(text, "\n")
		}
		run.Count("file:last-line-unterminated")
	case 1:
		if strings.HasSuffix(text, "\r\n") {
			text = strings.TrimSuffix(text, "\n") // CR only
			run.Count("file:last-line-cr-only")
		}
	}
	run.Count(fmt.Sprintf("file:sections=%d", sections))
	return text
}

func maxi(a, b int) int {
	if a > b {
		return a
	}
	return b
}

// ---------- fixed cases (the inputs of the four landed OBJ repairs and boundary shapes) ----------
func tri(nv int) [][3]float64 {
	p := make([][3]float64, nv)
	for i := range p {
		p[i] = [3]float64{float64(i), float64(i % 2), 0.5}
	}
	return p
}
func fixedWrites() []writeDesc {
	n3 := [][3]float64{{0, 0, 1}, {0, 1, 0}, {1, 0, 0}}
	u3 := [][2]float64{{0, 0}, {1, 0}, {0, 1}}
	return []writeDesc{
		{Meshes: []meshDesc{{Name: "", Idx: []int{0, 1, 2}, Pos: tri(3)}}},
		// 74c7928: no normals, then normals; no uvs, then uvs
		{Meshes: []meshDesc{{Name: "a", Idx: []int{0, 1, 2}, Pos: tri(3)}, {Name: "b", Idx: []int{2, 1, 0}, Pos: tri(3), Nrm: n3}}},
		{Meshes: []meshDesc{{Name: "a", Idx: []int{0, 1, 2}, Pos: tri(3), Nrm: n3}, {Name: "b", Idx: []int{2, 1, 0}, Pos: tri(3), UV: u3}, {Name: "c", Idx: []int{0, 2, 1}, Pos: tri(3), UV: u3, Nrm: n3}}},
		// unnamed mesh among several (331d6c1), empty last mesh, zero meshes
		{Meshes: []meshDesc{{Name: "", Idx: []int{0, 1, 2}, Pos: tri(3)}, {Name: "b", Idx: []int{0, 1, 2}, Pos: tri(3)}}},
		{Meshes: []meshDesc{{Name: "a", Idx: []int{0, 1, 2}, Pos: tri(3)}, {Name: "empty", Idx: []int{}, Pos: nil}}},
		// unnamed mesh after a named one (must still start its own group), empty mesh in the middle (dropped by the reader)
		{Meshes: []meshDesc{{Name: "a", Idx: []int{0, 1, 2}, Pos: tri(3)}, {Name: "", Idx: []int{2, 1, 0}, Pos: tri(3), Nrm: n3}, {Name: "c", Idx: []int{0, 2, 1}, Pos: tri(3), UV: u3}}},
		{Meshes: []meshDesc{{Name: "a", Idx: []int{0, 1, 2}, Pos: tri(3)}, {Name: "e", Idx: []int{}, Pos: nil}, {Name: "c", Idx: []int{0, 2, 1}, Pos: tri(3)}}},
		{Meshes: []meshDesc{}},
		// material ranges: several, empty, repeated, nil material
		{Mtl: "m.mtl", Meshes: []meshDesc{{Name: "a", Idx: []int{0, 1, 2, 2, 1, 3, 0, 3, 1}, Pos: tri(4),
			Mats: []matDesc{{1, sp("red")}, {0, sp("green")}, {1, sp("red")}, {1, nil}}}}},
		// a material (same pointer) used by two ranges around another one: the face order must stay the mesh's
		{Meshes: []meshDesc{{Name: "a", Idx: []int{0, 1, 2, 2, 1, 3, 0, 3, 1, 3, 2, 0, 1, 0, 3, 2, 3, 1}, Pos: tri(4),
			Mats: []matDesc{{2, sp("red")}, {1, sp("green")}, {3, sp("red")}}}}},
		{Mtl: "m.mtl", Meshes: []meshDesc{{Name: "a", Idx: []int{0, 1, 2, 2, 1, 3, 0, 3, 1, 3, 2, 0}, Pos: tri(4), Nrm: [][3]float64{{0, 0, 1}, {0, 1, 0}, {1, 0, 0}, {0, 0, -1}},
			Mats: []matDesc{{1, nil}, {1, sp("red")}, {2, nil}}},
			{Name: "b", Idx: []int{0, 1, 2, 2, 1, 3, 0, 3, 1}, Pos: tri(4), Mats: []matDesc{{1, sp("red")}, {1, sp("green")}, {1, sp("red")}}}}},
	}
}
// every kind of last statement with every way of ending the text
func fixedTails() []string {
	base := "v 0 0 0\nv 1 0 0\nv 0 1 0\nv 1 1 0\nvn 0 0 1\nvt 0 0\ng a\nusemtl m\nf 1 2 3\nf 1//1 2//1 4//1\n"
	var out []string
	for _, last := range []string{"f 2 3 4", "f 2/1/1 3/1/1 4/1/1", "usemtl n\nf 2 3 4", "g b\nf 2 3 4", "v 2 2 2", "vt 1 1", "vn 0 1 0",
		"usemtl n", "g b", "# end", "o x", "mtllib a.mtl", "f 2 3 4 ", "f 2 3 4\t"} {
		for _, term := range []string{"", "\n", "\r\n", "\r"} {
			out = append(out, base+last+term)
			out = append(out, strings.ReplaceAll(base, "\n", "\r\n")+strings.ReplaceAll(last, "\n", "\r\n")+term)
		}
	}
	return append(out, "", "\n", "\r\n", "f", base+"f 2 3 4\n\n", base+"f 2 3 4 \n \n\t", base+"f 2 3 4\r\n\r\n", "v 0 0 0\nv 1 0 0\nv 0 1 0\nf 1 2 3")
}

func fixedFiles() []string {
	v := "v 0 0 0\nv 1 0 0\nv 0 1 0\nv 1 1 0\nvn 0 0 1\nvn 0 1 0\nvt 0 0\nvt 1 1\n"
	return []string{
		v + "g a\nusemtl m1\nf 1 2 3\ng b\nusemtl m2\nf 2 3 4\n",                    // f82d47b
		v + "f 1 2 3\ng a\nf 2 3 4\n",                                                // 331d6c1
		v + "g a\nf 1//1 2//1 3//1\nf 2 3 4\n",                                       // ca6f159
		v + "g a\nf 2 3 4\nf 1/1/1 2/2/1 3/1/1\n",                                    // ca6f159, other order
		v + "g a\nf 1 2 3\nusemtl m\ng b\nf 2 3 4\n",                                 // usemtl immediately followed by g
		v + "usemtl m\ng b\nf 2 3 4\n",                                               // usemtl before the first g
		v + "g a\ng b\nf 2 3 4\ng c\n",                                               // groups without faces
		v + "g a\nf 1 2 3\ng a\nf 2 3 4\n",                                           // repeated names
		v + "f 1 2 3\nusemtl a\nf 2 3 4\nusemtl a\nf 1 2 4\n",                        // faces before the first usemtl
		// vertex data declared between the faces of one group (the corner table must not depend on how much is declared)
		"v 0 0 0\nv 1 0 0\nv 0 1 0\nv 1 1 0\nvn 0 0 1\nf 1//1 2//1 3//1\nvn 0 1 0\nf 2//2 3//2 4//2\n",
		"v 0 0 0\nv 1 0 0\nv 0 1 0\nv 1 1 0\nvt 0 0\nf 1/1 2/1 3/1\nvt 1 1\nf 2/2 3/2 4/2\nvt 0 1\nvn 0 0 1\nf 1/3/1 2/2/1 4/1/1\n",
		"v 0 0 0\nv 1 0 0\nv 0 1 0\nf 1 2 3\nv 1 1 0\nvn 0 0 1\nf 2//1 3//1 4//1\ng b\nvn 0 1 0\nvt 0 0\nf 1/1/2 2/1/1 3/1/2\nvt 1 1\nf 1/2/1 2/1/2 4/2/2\n",
		v,                                                                            // no face at all
		v + "g a\nf 1 2 4 3\nf 1 2 3\n",                                             // quad: only its first triangle is read
		v + "g a\nf 1 2\n",                                                          // too few corners: panic
		v + "g a\nf -1 -2 -3\n",                                                     // relative indices: panic
		v + "g a\nf 1 2 3\nf 01 3 4\nf +1 4//  2\nf 1/1 2/2 3/1\nf 1/01 2/2 4/2\n", // same corner, different spellings
		v + "vt 0.5\n",                                                              // 1-D texture coordinate: panic
		v + "g a\nf 1/0/1 2/0/1 3/0/1\n",                                            // index 0 for vt: treated as absent
		v + "g a\nf 1/1/1 2/2/2 3/1/1\nf 1/1/1 3/1/1 4/2/2\nf 1/2/1 2/2/2 4/2/2\n", // shared and unshared tokens
		// tokens that differ only in where the slashes are (twelve vertices, two vt, two vn)
		"v 1 0 0\nv 2 0 0\nv 3 0 0\nv 4 0 0\nv 5 0 0\nv 6 0 0\nv 7 0 0\nv 8 0 0\nv 9 0 0\nv 10 0 0\nv 11 0 0\nv 12 0 0\n" +
			"vt 0 0\nvt 1 1\nvn 0 0 1\nvn 0 1 0\ng a\nf 1/1 11 2/1\nf 1/2 12 1//2\nf 1/1/2 11/2 3/1\n",
	}
}

// ---------- stream 3: obj.Save / obj.Load (fs.go, mat_reader.go) ----------
func genSave(r *hx.Rng) writeDesc {
	md := genMesh(r, true)
	md.Name = ""
	for i := range md.Mats {
		if md.Mats[i].Name != nil && *md.Mats[i].Name == "" {
			md.Mats[i].Name = sp("x")
		}
	}
	return writeDesc{Meshes: []meshDesc{md}}
}

func saveCase(d writeDesc) hx.Case {
	c := hx.Case{Kind: "save", Desc: d}
	ms := buildMeshes(d)
	dir, _ := os.MkdirTemp("", "c05-save-")
	defer os.RemoveAll(dir)
	p := filepath.Join(dir, "mesh.obj")
	woc := outcome{Class: "ok"}
	func() {
		defer func() {
			if rec := recover(); rec != nil {
				woc = classify(rec)
			}
		}()
		if err := obj.Save(p, ms[0].Mesh); err != nil {
			woc = outcome{"declared", err.Error()}
		}
	}()
	raw, _ := os.ReadFile(p)
	il, fail := linesCoq(string(raw), woc)
	ir := "Crash"
	if woc.Class == "ok" {
		roc := outcome{Class: "ok"}
		var gs []obj.ObjMesh
		func() {
			defer func() {
				if rec := recover(); rec != nil {
					roc = classify(rec)
				}
			}()
			var err error
			gs, err = obj.Load(p)
			if err != nil {
				roc = outcome{"declared", err.Error()}
			}
		}()
		// Load does not return the mtllib names: take them from the text (that component is not under test here)
		var libs []string
		if ls, err := tokenise(string(raw)); err == nil {
			for _, l := range ls {
				if l.Kind == "mtllib" {
					libs = append(libs, l.Name...)
				}
			}
		}
		var f2 string
		ir, f2 = readCoq(gs, libs, roc)
		if fail == "" {
			fail = f2
		}
	}
	if fail != "" {
		c.GoFail, c.FailKey = fail, "obj:text-level"
	}
	mtl := "None"
	if len(d.Meshes[0].Mats) > 0 {
		mtl = "(Some " + coqName([]string{"mesh.mtl"}) + ")"
	}
	c.Coq = fmt.Sprintf("CWrite %s\n   %s\n   %s\n   %s", mtl, coqMeshes([]cmesh{descCmesh(d.Meshes[0])}), il, ir)
	c.Nontriv = len(d.Meshes[0].Idx) >= 3
	kb, _ := json.Marshal(d)
	c.Key = "s|" + string(kb)
	return c
}
