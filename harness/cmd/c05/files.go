package main

// Round 4: the file level of formats/obj (fs.go, mat_reader.go, WriteMaterials) and inputs larger than one
// bufio.Scanner buffer.
//   stream 4 ("load"):    OBJ text + hand-written .mtl files in a directory -> obj.Load -> obj.Save / obj.SaveAll into a
//                         second directory -> obj.Load                                        (Check.C05 CLoad)
//   stream 3b ("saveall"): named meshes -> obj.SaveAll -> obj.Load                             (Check.C05 CWrite)
//   big cases: WriteMeshes output / OBJ text of more than 64 KiB with g / usemtl lines before every buffer refill.

import (
	"encoding/json"
	"fmt"
	"os"
	"path/filepath"
	"sort"
	"strconv"
	"strings"

	"verif/harness/hx"

	"github.com/EliCDavis/polyform/formats/obj"
	"github.com/EliCDavis/polyform/modeling"
)

type mtlFile struct {
	Name string `json:"name"`
	Text string `json:"text"`
}
type loadDesc struct {
	Text  string    `json:"text"`
	Files []mtlFile `json:"files"`
}

// mtlNames: the newmtl statements of a .mtl text, found independently of formats/obj (lines, fields, first field).
func mtlNames(text string) [][]string {
	out := [][]string{}
	for _, raw := range strings.Split(text, "\n") {
		fs := strings.Fields(raw)
		if len(fs) > 0 && fs[0] == "newmtl" {
			out = append(out, fs[1:])
		}
	}
	return out
}

func coqFsys(files []mtlFile) string {
	items := make([]string, len(files))
	for i, f := range files {
		ns := mtlNames(f.Text)
		ni := make([]string, len(ns))
		for k, n := range ns {
			ni[k] = coqName(n)
		}
		items[i] = fmt.Sprintf("(\"%s\"%%string, [%s])", strings.ReplaceAll(f.Name, "\"", "\"\""), strings.Join(ni, ";"))
	}
	return "[" + strings.Join(items, ";") + "]"
}

func runLoad(p string) (gs []obj.ObjMesh, oc outcome) {
	oc = outcome{Class: "ok"}
	defer func() {
		if rec := recover(); rec != nil {
			oc = classify(rec)
		}
	}()
	g, err := obj.Load(p)
	if err != nil {
		return nil, outcome{"declared", err.Error()}
	}
	return g, oc
}

func loadedCoq(gs []obj.ObjMesh, oc outcome) (string, string) {
	if oc.Class != "ok" {
		return resCoq(oc, ""), ""
	}
	fail := ""
	cms := make([]cmesh, len(gs))
	for i, g := range gs {
		var f string
		cms[i], f = toCmesh(g)
		if f != "" {
			fail = f
		}
		// a resolved material must be the material of that name (Load replaces the pointer)
		for _, mt := range g.Mesh.Materials() {
			if mt.Material != nil && strings.TrimSpace(mt.Material.Name) == "" && fail == "" {
				fail = "Load returned a material without a name"
			}
		}
	}
	return "(Ok " + coqMeshes(cms) + ")", fail
}

func loadCase(d loadDesc) (hx.Case, bool) {
	c := hx.Case{Kind: "load", Desc: d}
	ls, err := tokenise(d.Text)
	if err != nil {
		return c, false
	}
	dir, _ := os.MkdirTemp("", "c05-load-")
	defer os.RemoveAll(dir)
	in := filepath.Join(dir, "in", "model.obj")
	os.MkdirAll(filepath.Dir(in), 0o755)
	os.WriteFile(in, []byte(d.Text), 0o644)
	for _, f := range d.Files {
		os.WriteFile(filepath.Join(dir, "in", f.Name), []byte(f.Text), 0o644)
	}
	gs1, oc1 := runLoad(in)
	r1, fail := loadedCoq(gs1, oc1)
	keep, r2 := "false", "None"
	if oc1.Class == "ok" {
		distinct := true
		seen := map[string]bool{}
		for _, g := range gs1 {
			// SaveAll writes its map in an arbitrary order: names must be distinct, and a group without faces (only the
			// last group of a file can be one) could land in front of another group, where the OBJ format cannot
			// represent it (notes: interpretation 2) - no second stage then
			if seen[g.Name] || g.Mesh.Indices().Len() == 0 {
				distinct = false
			}
			seen[g.Name] = true
		}
		out := filepath.Join(dir, "out", "sub", "saved.obj") // Save creates the directories
		soc := outcome{Class: "ok"}
		stage2 := true
		func() {
			defer func() {
				if rec := recover(); rec != nil {
					soc = classify(rec)
				}
			}()
			switch {
			case len(gs1) == 1:
				if err := obj.Save(out, gs1[0].Mesh); err != nil {
					soc = outcome{"declared", err.Error()}
				}
			case distinct:
				keep = "true"
				m := map[string]modeling.Mesh{}
				for _, g := range gs1 {
					m[g.Name] = g.Mesh
				}
				if err := obj.SaveAll(out, m); err != nil {
					soc = outcome{"declared", err.Error()}
				}
			default:
				stage2 = false
			}
		}()
		if stage2 {
			if soc.Class != "ok" {
				r2 = "(Some " + resCoq(soc, "") + ")"
			} else {
				gs2, oc2 := runLoad(out)
				if oc2.Class == "ok" && keep == "true" {
					gs2 = orderLike(gs2, gs1)
				}
				t, f2 := loadedCoq(gs2, oc2)
				if fail == "" {
					fail = f2
				}
				r2 = "(Some " + t + ")"
			}
		}
	}
	if fail != "" {
		c.GoFail, c.FailKey = fail, "obj:text-level"
	}
	nf := 0
	for _, l := range ls {
		if l.Kind == "f" {
			nf++
		}
	}
	c.Coq = fmt.Sprintf("CLoad %s\n   %s\n   %s %s\n   %s", coqLines(ls), coqFsys(d.Files), r1, keep, r2)
	c.Nontriv = nf >= 1 && oc1.Class == "ok"
	kb, _ := json.Marshal(d)
	c.Key = "l|" + string(kb)
	return c, true
}

// orderLike: SaveAll iterates a map, so the groups come back in an arbitrary order; they are matched by name
// (names are distinct) to the order of ref.  Anything that does not match is left where it is.
func orderLike(gs []obj.ObjMesh, ref []obj.ObjMesh) []obj.ObjMesh {
	if len(gs) != len(ref) {
		return gs
	}
	byName := map[string]int{}
	for i, g := range gs {
		if _, dup := byName[g.Name]; dup {
			return gs
		}
		byName[g.Name] = i
	}
	out := make([]obj.ObjMesh, len(ref))
	for i, r := range ref {
		k, ok := byName[r.Name]
		if !ok {
			return gs
		}
		out[i] = gs[k]
	}
	return out
}

// ---------- stream 3b: SaveAll -> Load ----------
func saveAllCase(d writeDesc) hx.Case {
	c := hx.Case{Kind: "saveall", Desc: d}
	ms := buildMeshes(d)
	dir, _ := os.MkdirTemp("", "c05-saveall-")
	defer os.RemoveAll(dir)
	p := filepath.Join(dir, "scene", "all.obj")
	m := map[string]modeling.Mesh{}
	for _, g := range ms {
		m[g.Name] = g.Mesh
	}
	woc := outcome{Class: "ok"}
	func() {
		defer func() {
			if rec := recover(); rec != nil {
				woc = classify(rec)
			}
		}()
		if err := obj.SaveAll(p, m); err != nil {
			woc = outcome{"declared", err.Error()}
		}
	}()
	raw, _ := os.ReadFile(p)
	il, fail := linesCoq(string(raw), woc)
	// the order SaveAll wrote the meshes in: the g lines of the text (names are distinct)
	order := make([]int, 0, len(d.Meshes))
	hasMats := false
	var libs []string
	if ls, err := tokenise(string(raw)); err == nil {
		byName := map[string]int{}
		for i, md := range d.Meshes {
			byName[strings.Join(spaceFields(md.Name), " ")] = i
			if len(md.Mats) > 0 {
				hasMats = true
			}
		}
		used := map[int]bool{}
		for _, l := range ls {
			if l.Kind == "mtllib" {
				libs = append(libs, l.Name...)
			}
			if l.Kind == "g" {
				if k, ok := byName[strings.Join(l.Name, " ")]; ok && !used[k] {
					order = append(order, k)
					used[k] = true
				}
			}
		}
	}
	if len(order) != len(d.Meshes) {
		order = order[:0]
		for i := range d.Meshes {
			order = append(order, i)
		}
	}
	ir := "Crash"
	if woc.Class == "ok" {
		gs, roc := runLoad(p)
		var f2 string
		ir, f2 = readCoq(gs, libs, roc)
		if fail == "" {
			fail = f2
		}
	}
	if fail != "" {
		c.GoFail, c.FailKey = fail, "obj:text-level"
	}
	cms := make([]cmesh, len(order))
	ntri := 0
	for i, k := range order {
		cms[i] = descCmesh(d.Meshes[k])
		ntri += len(d.Meshes[k].Idx) / 3
	}
	mtl := "None"
	if hasMats {
		mtl = "(Some " + coqName([]string{"all.mtl"}) + ")"
	}
	c.Coq = fmt.Sprintf("CWrite %s\n   %s\n   %s\n   %s", mtl, coqMeshes(cms), il, ir)
	c.Nontriv = ntri >= 1 && woc.Class == "ok"
	kb, _ := json.Marshal(d)
	c.Key = "sa|" + string(kb)
	return c
}

func genSaveAll(r *hx.Rng, run *hx.Run) writeDesc {
	var d writeDesc
	n := r.Range(1, 4)
	names := []string{"body", "wheel 1", "left arm x", "a", "b", "g", "usemtl", "1/2/3", "Default", "-"}
	perm := r.Perm(len(names))
	for k := 0; k < n; k++ {
		md := genMesh(r, true)
		md.Name = names[perm[k]]
		for i := range md.Mats {
			if md.Mats[i].Name != nil && *md.Mats[i].Name == "" {
				md.Mats[i].Name = sp("x")
			}
		}
		if r.Chance(1, 3) {
			md.Mats = genMatsABA(r, len(md.Idx)/3)
		}
		d.Meshes = append(d.Meshes, md)
	}
	run.Count(fmt.Sprintf("saveall:meshes=%d", n))
	return d
}

// genMatsABA: a material used by two ranges that are separated by a range with another material (nil included),
// every range non-empty when the triangles allow it: red:2 green:1 red:3, nil:1 red:1 nil:2, a b a b ...
func genMatsABA(r *hx.Rng, nt int) []matDesc {
	a, b := hx.Pick(r, matNames), hx.Pick(r, matNames)
	for b == a {
		b = hx.Pick(r, matNames)
	}
	pa, pb := sp(a), sp(b)
	if r.Chance(1, 5) {
		pa = nil
	} else if r.Chance(1, 5) {
		pb = nil
	}
	k := r.Range(3, 5)
	out := make([]matDesc, k)
	left := nt
	for i := 0; i < k; i++ {
		cnt := 0
		if i == k-1 {
			cnt = left
		} else if left > 0 {
			cnt = r.Range(1, maxi(1, left-(k-1-i)))
			if cnt > left {
				cnt = left
			}
		}
		left -= cnt
		out[i].Count = cnt
		if i%2 == 0 {
			out[i].Name = pa
		} else {
			out[i].Name = pb
		}
	}
	return out
}

// ---------- stream 4 generator ----------
func genMtl(r *hx.Rng, defs []string) string {
	eol := "\n"
	if r.Chance(1, 6) {
		eol = "\r\n"
	}
	var b strings.Builder
	if r.Chance(2, 3) {
		b.WriteString("# Created by hand" + eol)
	}
	if r.Chance(1, 5) {
		b.WriteString(eol)
	}
	blank := func() string { return hx.Pick(r, []string{" ", " ", " ", "\t", "  ", " \t"}) }
	for i, n := range defs {
		// white space of the statement itself: any run of blanks separates the keyword and the pieces of the name,
		// blanks may lead and trail (strings.Fields on both sides of the round trip)
		if r.Chance(1, 8) {
			b.WriteString(hx.Pick(r, []string{" ", "\t", "   "}))
		}
		b.WriteString("newmtl" + blank() + strings.Join(strings.Fields(n), blank()))
		if r.Chance(1, 8) {
			b.WriteString(hx.Pick(r, []string{" ", "\t", " \t "}))
		}
		b.WriteString(eol)
		for _, st := range []string{"Kd 0.8 0.1 0.1", "Ka 0 0 0", "Ks 0.5 0.5 0.5", "Ns 96.078431", "Ni 1", "d 1", "illum 2",
			"map_Kd tex " + strconv.Itoa(i) + ".png", "#newmtl hidden", "# newmtl hidden2", "\tKd 0 1 0"} {
			if r.Chance(1, 3) {
				b.WriteString(st + eol)
			}
		}
		if r.Chance(1, 2) {
			b.WriteString(eol)
		}
	}
	text := b.String()
	if r.Chance(1, 3) { // the last statement without a line terminator
		text = strings.TrimSuffix(text, eol)
	}
	return text
}

func genLoad(r *hx.Rng, run *hx.Run) loadDesc {
	var d loadDesc
	text := genFile(r, run)
	switch r.Intn(8) {
	case 0: // no library at all (unless the grammar put one in): every material loads as nil
	case 1, 2:
		text = "mtllib a.mtl b.mtl\n" + text
	case 3:
		text = "mtllib a.mtl\n" + text + "\nmtllib c.mtl\n"
	default:
		text = "mtllib a.mtl\n" + text
	}
	d.Text = text
	libs := []string{}
	seen := map[string]bool{}
	used := []string{}
	if ls, err := tokenise(text); err == nil {
		for _, l := range ls {
			if l.Kind == "mtllib" {
				for _, n := range l.Name {
					if !seen[n] {
						seen[n] = true
						libs = append(libs, n)
					}
				}
			}
			if l.Kind == "usemtl" && len(l.Name) > 0 {
				used = append(used, strings.Join(l.Name, " "))
			}
		}
	}
	sort.Strings(libs)
	pool := append(append([]string{}, matNames...), "Default", "mymat", "my  mat")
	for _, lib := range libs {
		if r.Chance(1, 12) {
			run.Count("load:library-missing")
			continue
		}
		defs := []string{}
		for _, u := range used { // most used names are defined somewhere, in the order of use or not
			if r.Chance(2, 3) {
				defs = append(defs, u)
			}
		}
		for k := r.Intn(4); k > 0; k-- {
			defs = append(defs, hx.Pick(r, pool))
		}
		if r.Bool() {
			p := r.Perm(len(defs))
			sh := make([]string, len(defs))
			for i, k := range p {
				sh[i] = defs[k]
			}
			defs = sh
		}
		d.Files = append(d.Files, mtlFile{Name: lib, Text: genMtl(r, defs)})
	}
	run.Count(fmt.Sprintf("load:libraries=%d", len(d.Files)))
	return d
}

func fixedLoads() []loadDesc {
	v := "v 0 0 0\nv 1 0 0\nv 0 1 0\nv 1 1 0\nvn 0 0 1\nvt 0 0\n"
	two := "newmtl red\nKd 1 0 0\n\nnewmtl green\nKd 0 1 0"
	return []loadDesc{
		// both defined; the last material of the file has no line terminator
		{Text: "mtllib m.mtl\n" + v + "usemtl red\nf 1 2 3\nusemtl green\nf 2 3 4\n", Files: []mtlFile{{"m.mtl", two}}},
		// second one undefined -> nil; faces before the first usemtl -> "Default" (undefined -> nil)
		{Text: "mtllib m.mtl\n" + v + "f 1 2 3\nusemtl blue\nf 2 3 4\nusemtl red\nf 1 2 4\n", Files: []mtlFile{{"m.mtl", two}}},
		// two libraries on one line, one per material; several groups (SaveAll), a name with a space
		{Text: "mtllib a.mtl b.mtl\n" + v + "g left\nusemtl red\nf 1 2 3\ng right\nusemtl my mat\nf 2 3 4\nusemtl red\nf 1 2 4\n",
			Files: []mtlFile{{"a.mtl", "newmtl red\n"}, {"b.mtl", "# c\nnewmtl my mat\nNs 10\n"}}},
		// libraries on two lines, the second after the faces
		{Text: "mtllib a.mtl\n" + v + "g left\nusemtl red\nf 1 2 3\ng right\nusemtl green\nf 2 3 4\nmtllib b.mtl\n",
			Files: []mtlFile{{"a.mtl", "newmtl red\n"}, {"b.mtl", "newmtl green\n"}}},
		// library missing
		{Text: "mtllib nowhere.mtl\n" + v + "usemtl red\nf 1 2 3\n"},
		// no library
		{Text: v + "usemtl red\nf 1 2 3\nf 2 3 4\n"},
		// groups with equal names (no second stage), material defined twice
		{Text: "mtllib m.mtl\n" + v + "g a\nusemtl red\nf 1 2 3\ng a\nusemtl red\nf 2 3 4\n", Files: []mtlFile{{"m.mtl", "newmtl red\nnewmtl red\n"}}},
		// red:2 green:1 red:3 in one group
		{Text: "mtllib m.mtl\n" + v + "usemtl red\nf 1 2 3\nf 2 3 4\nusemtl green\nf 1 2 4\nusemtl red\nf 1 3 4\nf 4 3 2\nf 3 2 1\n", Files: []mtlFile{{"m.mtl", two}}},
	}
}

// ---------- big cases: more than one scanner buffer ----------
// genBigWrite: meshes whose WriteMeshes text exceeds 64 KiB (about 75-90 KiB, ~1500 faces: the Coq side pays per
// face), with material ranges (so that g and usemtl lines lie before a buffer refill), 3-digit indices and a
// material reused around another one.
func genBigWrite(r *hx.Rng, run *hx.Run) writeDesc {
	var d writeDesc
	n := 3
	for k := 0; k < n; k++ {
		var md meshDesc
		nt := r.Range(450, 600)
		nv := r.Range(90, 140)
		md.Name = hx.Pick(r, []string{"tower", "wall north", "roof", "body", "b"}) + strconv.Itoa(k)
		md.Idx = make([]int, 3*nt)
		for i := range md.Idx {
			md.Idx[i] = r.Intn(nv)
		}
		md.Pos = make([][3]float64, nv)
		for i := range md.Pos {
			md.Pos[i] = [3]float64{genVal(r), genVal(r), genVal(r)}
		}
		if !r.Chance(1, 4) {
			md.UV = make([][2]float64, nv)
			for i := range md.UV {
				md.UV[i] = [2]float64{genVal(r), genVal(r)}
			}
		}
		if !r.Chance(1, 4) {
			md.Nrm = make([][3]float64, nv)
			for i := range md.Nrm {
				md.Nrm[i] = [3]float64{genVal(r), genVal(r), genVal(r)}
			}
		}
		if r.Chance(1, 2) {
			md.Mats = genMatsABA(r, nt)
		} else {
			md.Mats = genMats(r, nt)
			for i := range md.Mats {
				if md.Mats[i].Name != nil && *md.Mats[i].Name == "" {
					md.Mats[i].Name = sp("brick")
				}
			}
		}
		d.Meshes = append(d.Meshes, md)
	}
	if r.Bool() {
		d.Mtl = "scene.mtl"
	}
	run.Count("write:big-over-64KiB")
	return d
}

// genBigFile: an OBJ text of 140-220 KiB in which g / usemtl / mtllib lines are followed by more than a buffer of
// further statements: many short lines (v, f) and comment lines of moderate length, never one huge line.
func genBigFile(r *hx.Rng, run *hx.Run) string {
	var b strings.Builder
	nv := 0
	addV := func(k int) {
		for i := 0; i < k; i++ {
			nv++
			fmt.Fprintf(&b, "v %d %d.25 -%d\n", nv, nv%17, nv%5)
		}
	}
	b.WriteString("mtllib big.mtl\n")
	addV(r.Range(3, 8))
	b.WriteString("vn 0 0 1\nvn 0 1 0\nvt 0 0\nvt 1 0.5\n")
	target := r.Range(140000, 220000) // two full buffers and more: every name of the first 64 KiB gets overwritten
	groups := r.Range(2, 6)
	per := target / groups
	for g := 0; g < groups; g++ {
		if g > 0 || r.Bool() {
			b.WriteString("g " + hx.Pick(r, groupNames) + strconv.Itoa(g) + "\n")
		}
		start := b.Len()
		form := r.Intn(4)
		for b.Len()-start < per {
			switch r.Intn(12) {
			case 0:
				b.WriteString("usemtl " + hx.Pick(r, matNames) + "\n")
			case 1:
				addV(r.Range(1, 3))
			case 2, 3, 4, 5, 6: // padding is cheap on the Coq side (one constructor per line), faces are not
				b.WriteString("# " + strings.Repeat("pad ", r.Range(100, 900)) + "\n")
			default:
				c := func() string {
					v := strconv.Itoa(r.Range(1, nv))
					switch form {
					case 1:
						return v + "/" + strconv.Itoa(r.Range(1, 2))
					case 2:
						return v + "//" + strconv.Itoa(r.Range(1, 2))
					case 3:
						return v + "/" + strconv.Itoa(r.Range(1, 2)) + "/" + strconv.Itoa(r.Range(1, 2))
					}
					return v
				}
				b.WriteString("f " + c() + " " + c() + " " + c() + "\n")
			}
		}
	}
	run.Count("file:big-over-64KiB")
	return b.String()
}

// genCollide: corner tokens of one group whose digit strings coincide once the slashes are taken out or the
// numbers are glued together ("112", "1/12", "11/2", "1//12", "11//2", "1/1/2"): large tables (130 v, 30 vt, 30 vn,
// all entries distinct), so every such token is valid and names a different vertex; a de-duplication key that is
// not injective on the token text merges them.
func genCollide(r *hx.Rng, run *hx.Run) string {
	var b strings.Builder
	for i := 1; i <= 130; i++ {
		fmt.Fprintf(&b, "v %d %d 0.5\n", i, -i)
	}
	for i := 1; i <= 30; i++ {
		fmt.Fprintf(&b, "vt %d 0.25\n", i)
	}
	for i := 1; i <= 30; i++ {
		fmt.Fprintf(&b, "vn 0 %d 1\n", i)
	}
	family := func() []string {
		x, y := r.Range(1, 2), r.Range(1, 9) // the digit string 1xy = 111..129
		xs, ys := strconv.Itoa(x), strconv.Itoa(y)
		return []string{"1" + xs + ys, "1/" + xs + ys, "1" + xs + "/" + ys, "1//" + xs + ys, "1" + xs + "//" + ys, "1/" + xs + "/" + ys}
	}
	groups := r.Range(1, 2)
	for g := 0; g < groups; g++ {
		if g > 0 || r.Bool() {
			b.WriteString("g " + hx.Pick(r, groupNames) + "\n")
		}
		fam := family()
		sameForm := r.Chance(1, 3) // only the two v/vt tokens (or the two v//vn ones): the attribute stays attached
		for f := r.Range(2, 6); f > 0; f-- {
			tok := func() string {
				if sameForm {
					return hx.Pick(r, []string{fam[1], fam[2]})
				}
				if r.Chance(1, 5) {
					return strconv.Itoa(r.Range(1, 130))
				}
				return hx.Pick(r, fam)
			}
			b.WriteString("f " + tok() + " " + tok() + " " + tok() + "\n")
		}
	}
	run.Count("file:colliding-corner-digits")
	return b.String()
}
