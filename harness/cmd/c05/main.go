// C05 harness: Wavefront OBJ.  Stream 1: mesh lists -> obj.WriteMeshes -> (independent tokenizer) -> obj.ReadMesh.
// Stream 2: OBJ text from the grammar -> ReadMesh -> WriteMeshes -> ReadMesh.  Stream 3: obj.Save / obj.Load
// through the file system (material file resolution).  Observations become Check.C05 cases.
package main

import (
	"bytes"
	"encoding/json"
	"flag"
	"fmt"
	"runtime"
	"strings"

	"verif/harness/hx"

	"github.com/EliCDavis/polyform/formats/obj"
	"github.com/EliCDavis/polyform/modeling"
	"github.com/EliCDavis/vector/vector2"
	"github.com/EliCDavis/vector/vector3"
)

// -longlines: also generate legal OBJ lines that do not fit bufio.Scanner's default 64 KiB token.  Off until
// known_findings.json lists key obj:line-over-64KiB (as known, or as fixed once fixes/C05-obj-long-lines.patch
// landed): the plugin passes the flag then (or when C05_LONGLINES=1).
var longLines bool

const longLineKey = "obj:line-over-64KiB"

// texts up to this many bytes are also given to Coq as bytes (CText / CTok cases)
const textLimit = 2500

// ---------- replayable descriptions ----------
type matDesc struct {
	Count int     `json:"count"`
	Name  *string `json:"name"` // nil: nil *Material
}
type meshDesc struct {
	Name  string       `json:"name"`
	Idx   []int        `json:"idx"`
	Pos   [][3]float64 `json:"pos"`
	UV    [][2]float64 `json:"uv"`  // nil: no TexCoord
	Nrm   [][3]float64 `json:"nrm"` // nil: no Normal
	Mats  []matDesc    `json:"mats"`
	Extra bool         `json:"extra"` // an unrelated Float3 attribute of the same length
}
type writeDesc struct {
	Mtl    string     `json:"mtl"`
	Meshes []meshDesc `json:"meshes"`
}
type fileDesc struct {
	Text string `json:"text"`
}

// ---------- running the implementation ----------
type outcome struct {
	Class string // ok | declared | crash
	Msg   string
}

func classify(rec interface{}) outcome {
	if _, ok := rec.(runtime.Error); ok {
		return outcome{"crash", fmt.Sprint(rec)}
	}
	if e, ok := rec.(error); ok {
		return outcome{"declared", e.Error()}
	}
	return outcome{"crash", fmt.Sprint(rec)}
}

func runWrite(ms []obj.ObjMesh, mtl string) (text string, oc outcome) {
	oc = outcome{Class: "ok"}
	var buf bytes.Buffer
	defer func() {
		if rec := recover(); rec != nil {
			oc = classify(rec)
		}
	}()
	if err := obj.WriteMeshes(ms, mtl, &buf); err != nil {
		return "", outcome{"declared", err.Error()}
	}
	return buf.String(), oc
}

func runRead(text string) (gs []obj.ObjMesh, libs []string, oc outcome) {
	oc = outcome{Class: "ok"}
	defer func() {
		if rec := recover(); rec != nil {
			oc = classify(rec)
		}
	}()
	g, l, err := obj.ReadMesh(strings.NewReader(text))
	if err != nil {
		return nil, nil, outcome{"declared", err.Error()}
	}
	return g, l, oc
}

func splitName(s string) []string {
	if s == "" {
		return []string{}
	}
	return strings.Split(s, " ")
}
func spaceFields(s string) []string {
	out := []string{}
	for _, p := range strings.Split(s, " ") {
		if p != "" {
			out = append(out, p)
		}
	}
	return out
}

// toCmesh projects a modeling.Mesh returned by the implementation; fail reports a value that is not a float32.
func toCmesh(g obj.ObjMesh) (cmesh, string) {
	fail := ""
	m := g.Mesh
	c := cmesh{Name: splitName(g.Name)}
	ix := m.Indices()
	for i := 0; i < ix.Len(); i++ {
		c.Idx = append(c.Idx, ix.At(i))
	}
	chk := func(x float64) uint32 {
		if float64(float32(x)) != x && x == x {
			fail = fmt.Sprintf("value %v read from OBJ is not a float32", x)
		}
		return f32w(x)
	}
	if m.HasFloat3Attribute(modeling.PositionAttribute) {
		a := m.Float3Attribute(modeling.PositionAttribute)
		for i := 0; i < a.Len(); i++ {
			v := a.At(i)
			c.Pos = append(c.Pos, [3]uint32{chk(v.X()), chk(v.Y()), chk(v.Z())})
		}
	}
	if m.HasFloat2Attribute(modeling.TexCoordAttribute) {
		a := m.Float2Attribute(modeling.TexCoordAttribute)
		for i := 0; i < a.Len(); i++ {
			v := a.At(i)
			c.UV = append(c.UV, [2]uint32{chk(v.X()), chk(v.Y())})
		}
	}
	if m.HasFloat3Attribute(modeling.NormalAttribute) {
		a := m.Float3Attribute(modeling.NormalAttribute)
		for i := 0; i < a.Len(); i++ {
			v := a.At(i)
			c.Nrm = append(c.Nrm, [3]uint32{chk(v.X()), chk(v.Y()), chk(v.Z())})
		}
	}
	for _, mt := range m.Materials() {
		if mt.Material == nil {
			c.Mats = append(c.Mats, cmat{Count: mt.PrimitiveCount, Nil: true})
		} else {
			c.Mats = append(c.Mats, cmat{Count: mt.PrimitiveCount, Name: splitName(mt.Material.Name)})
		}
	}
	return c, fail
}

func resCoq(oc outcome, okTerm string) string {
	switch oc.Class {
	case "ok":
		return "(Ok " + okTerm + ")"
	case "declared":
		return "Declared"
	}
	return "Crash"
}

func readCoq(gs []obj.ObjMesh, libs []string, oc outcome) (string, string) {
	if oc.Class != "ok" {
		return resCoq(oc, ""), ""
	}
	fail := ""
	cms := make([]cmesh, len(gs))
	for i, g := range gs {
		var f string
		cms[i], f = toCmesh(g)
		if f != "" {
			fail = f
		}
	}
	return "(Ok (" + coqMeshes(cms) + ", " + coqName(libs) + "))", fail
}

func linesCoq(text string, oc outcome) (string, string) {
	if oc.Class != "ok" {
		return resCoq(oc, ""), ""
	}
	ls, err := tokenise(text)
	if err != nil {
		return "Crash", "WriteMeshes output does not tokenise: " + err.Error()
	}
	return "(Ok " + coqLines(ls) + ")", ""
}

// ---------- stream 1 ----------
func buildMeshes(d writeDesc) []obj.ObjMesh {
	mats := map[string]*modeling.Material{}
	out := make([]obj.ObjMesh, len(d.Meshes))
	for k, md := range d.Meshes {
		m := modeling.NewTriangleMesh(append([]int{}, md.Idx...))
		if len(md.Pos) > 0 {
			p := make([]vector3.Float64, len(md.Pos))
			for i, v := range md.Pos {
				p[i] = vector3.New(v[0], v[1], v[2])
			}
			m = m.SetFloat3Attribute(modeling.PositionAttribute, p)
			if md.Extra {
				m = m.SetFloat3Attribute(modeling.ColorAttribute, append([]vector3.Float64{}, p...))
			}
		}
		if md.UV != nil {
			p := make([]vector2.Float64, len(md.UV))
			for i, v := range md.UV {
				p[i] = vector2.New(v[0], v[1])
			}
			m = m.SetFloat2Attribute(modeling.TexCoordAttribute, p)
		}
		if md.Nrm != nil {
			p := make([]vector3.Float64, len(md.Nrm))
			for i, v := range md.Nrm {
				p[i] = vector3.New(v[0], v[1], v[2])
			}
			m = m.SetFloat3Attribute(modeling.NormalAttribute, p)
		}
		if md.Mats != nil {
			mm := make([]modeling.MeshMaterial, len(md.Mats))
			for i, mt := range md.Mats {
				mm[i].PrimitiveCount = mt.Count
				if mt.Name != nil {
					if mats[*mt.Name] == nil {
						mats[*mt.Name] = &modeling.Material{Name: *mt.Name}
					}
					mm[i].Material = mats[*mt.Name]
				}
			}
			m = m.SetMaterials(mm)
		}
		out[k] = obj.ObjMesh{Name: md.Name, Mesh: m}
	}
	return out
}

func descCmesh(md meshDesc) cmesh {
	c := cmesh{Name: spaceFields(md.Name), Idx: md.Idx}
	for _, v := range md.Pos {
		c.Pos = append(c.Pos, [3]uint32{f32w(v[0]), f32w(v[1]), f32w(v[2])})
	}
	for _, v := range md.UV {
		c.UV = append(c.UV, [2]uint32{f32w(v[0]), f32w(v[1])})
	}
	for _, v := range md.Nrm {
		c.Nrm = append(c.Nrm, [3]uint32{f32w(v[0]), f32w(v[1]), f32w(v[2])})
	}
	for _, mt := range md.Mats {
		if mt.Name == nil {
			c.Mats = append(c.Mats, cmat{Count: mt.Count, Nil: true})
		} else {
			c.Mats = append(c.Mats, cmat{Count: mt.Count, Name: spaceFields(*mt.Name)})
		}
	}
	return c
}

func writeCase(d writeDesc) hx.Case {
	c := hx.Case{Kind: "write", Desc: d}
	ms := buildMeshes(d)
	text, woc := runWrite(ms, d.Mtl)
	il, fail := linesCoq(text, woc)
	ir := "Crash"
	var gs []obj.ObjMesh
	var roc outcome
	if woc.Class == "ok" {
		var libs []string
		gs, libs, roc = runRead(text)
		var f2 string
		ir, f2 = readCoq(gs, libs, roc)
		if fail == "" {
			fail = f2
		}
	}
	cms := make([]cmesh, len(d.Meshes))
	ntri := 0
	for i, md := range d.Meshes {
		cms[i] = descCmesh(md)
		ntri += len(md.Idx) / 3
	}
	// names are token lists in the model: for single-spaced names the text itself must come back
	if roc.Class == "ok" && len(gs) == len(d.Meshes) {
		for i, md := range d.Meshes {
			if md.Name == strings.Join(spaceFields(md.Name), " ") && gs[i].Name != md.Name && fail == "" {
				fail = fmt.Sprintf("group %d: name %q read back as %q", i, md.Name, gs[i].Name)
			}
		}
	}
	if fail != "" {
		c.GoFail, c.FailKey = fail, "obj:text-level"
	}
	mtl := "None"
	if d.Mtl != "" {
		mtl = "(Some " + coqName(strings.Fields(d.Mtl)) + ")"
	}
	c.Coq = fmt.Sprintf("CWrite %s\n   %s\n   %s\n   %s", mtl, coqMeshes(cms), il, ir)
	if woc.Class == "ok" && len(text) <= textLimit {
		if ls, err := tokenise(text); err == nil {
			// the text WriteMeshes printed, as bytes: Coq's text layer must find the statements the tokenizer found
			c.Coq = fmt.Sprintf("CTok %s\n   %s\n   %s\n   (%s)", coqBytes(text), coqFloatTab(), coqLines(ls), c.Coq)
		}
	}
	c.Nontriv = ntri >= 1 && woc.Class == "ok"
	kb, _ := json.Marshal(d)
	c.Key = "w|" + string(kb)
	return c
}

// ---------- stream 2 ----------
func fileCase(d fileDesc) (hx.Case, bool) {
	c := hx.Case{Kind: "file", Desc: d}
	ls, err := tokenise(d.Text)
	if err != nil {
		return c, false // outside the line-record model (not produced by the generator)
	}
	tabOfInput := coqFloatTab()
	gs1, libs1, oc1 := runRead(d.Text)
	r1, fail := readCoq(gs1, libs1, oc1)
	il, r2 := "Crash", "Crash"
	if oc1.Class == "ok" {
		text, woc := runWrite(gs1, "")
		var f2 string
		il, f2 = linesCoq(text, woc)
		if fail == "" {
			fail = f2
		}
		if woc.Class == "ok" {
			gs2, libs2, oc2 := runRead(text)
			r2, f2 = readCoq(gs2, libs2, oc2)
			if fail == "" {
				fail = f2
			}
		}
	}
	if fail != "" {
		c.GoFail, c.FailKey = fail, "obj:text-level"
	}
	for _, raw := range strings.Split(d.Text, "\n") {
		if len(raw) >= 65536 { // structural: the one thing the default bufio.Scanner cannot take
			c.FailKey = longLineKey
		}
	}
	nf := 0
	for _, l := range ls {
		if l.Kind == "f" {
			nf++
		}
	}
	c.Coq = fmt.Sprintf("CFile %s\n   %s\n   %s\n   %s", coqLines(ls), r1, il, r2)
	if len(d.Text) <= textLimit {
		// the raw bytes go to Coq: Formats/ObjText.v must find the same statements as the tokenizer above, and the
		// property is judged on the statements Coq found
		c.Coq = fmt.Sprintf("CText %s\n   %s\n   (%s)", coqBytes(d.Text), tabOfInput, c.Coq)
	}
	c.Nontriv = nf >= 1 && oc1.Class == "ok"
	c.Key = "f|" + d.Text
	return c, true
}

func main() {
	flag.BoolVar(&longLines, "longlines", false, "generate lines longer than 64 KiB")
	run := hx.ParseFlags("C05", "Check.C05")
	for _, in := range run.Inputs() {
		switch in.Kind {
		case "write":
			var d writeDesc
			json.Unmarshal(in.Raw, &d)
			run.Add(writeCase(d))
		case "file":
			var d fileDesc
			json.Unmarshal(in.Raw, &d)
			if c, ok := fileCase(d); ok {
				run.Add(c)
			}
		case "save":
			var d writeDesc
			json.Unmarshal(in.Raw, &d)
			run.Add(saveCase(d))
		case "saveall":
			var d writeDesc
			json.Unmarshal(in.Raw, &d)
			run.Add(saveAllCase(d))
		case "ladder":
			var d ladderDesc
			json.Unmarshal(in.Raw, &d)
			run.Add(ladderCase(d))
		case "load":
			var d loadDesc
			json.Unmarshal(in.Raw, &d)
			if c, ok := loadCase(d); ok {
				run.Add(c)
			}
		}
	}
	if run.Replay != "" {
		run.Finish()
		return
	}
	for _, d := range fixedWrites() {
		run.Add(writeCase(d))
	}
	ff := append(fixedFiles(), fixedTails()...)
	if longLines {
		v := "v 0 0 0\nv 1 0 0\nv 0 1 0\n"
		ff = append(ff, v+"# "+strings.Repeat("x", 70000)+"\nf 1 2 3\n", v+"f 1 2 3"+strings.Repeat(" ", 65536)+"\n",
			// far beyond one buffer: 200 000 bytes, and a line of more than 1 MiB (OBJ has no limit at all)
			v+"g a\nusemtl m\nf 1 2 3\n# "+strings.Repeat("long ", 40000)+"\nf 3 2 1\n",
			v+"g a\nf 1 2 3\n# "+strings.Repeat("0123456789abcdef", 70000)+"\nusemtl m\nf 3 2 1\n")
	}
	for _, t := range ff {
		if c, ok := fileCase(fileDesc{Text: t}); ok {
			run.Add(c)
		}
	}
	for _, d := range fixedLoads() {
		if c, ok := loadCase(d); ok {
			run.Add(c)
		}
	}
	r := hx.NewRng(run.Seed)
	// inputs larger than one scanner buffer (64 KiB): one written scene and one text per 256 cases
	// (the written scene goes first, the text last: they are the two most expensive cases and so land in different shards)
	rb := r.Fork()
	// size ladder: one written scene and one read text per rung, judged harness-side (ladder.go); the bottom rung also
	// goes through Coq as an ordinary write / file case (it replaces the former 1500-face scene)
	for k, faces := range ladderRungs(run.N >= 2000) {
		for w, what := range []string{"write", "text"} {
			run.Add(ladderCase(ladderDesc{What: what, Faces: faces, Sub: run.Seed*1000003 + uint64(2*k+w)}))
			run.Count(fmt.Sprintf("ladder:%s:%d-faces", what, faces))
		}
	}
	run.Add(writeCase(genLadderScene(hx.NewRng(run.Seed*1000003), 1<<10+1)))
	run.Count("write:big-over-64KiB")
	// the file level: Load of hand-written OBJ + MTL files (N/8), SaveAll -> Load (N/16)
	for i := 0; i < run.N/8; i++ {
		if c, ok := loadCase(genLoad(r, run)); ok {
			run.Add(c)
		} else {
			run.Count("load:not-tokenisable")
		}
		if i%2 == 0 {
			run.Add(saveAllCase(genSaveAll(r, run)))
		}
	}
	for i := 0; i < run.N; i++ {
		switch {
		case i%16 == 15:
			d := genSave(r)
			run.Add(saveCase(d))
		case i%2 == 0:
			d := genWrite(r, run)
			run.Add(writeCase(d))
		default:
			t := genFile(r, run)
			if c, ok := fileCase(fileDesc{Text: t}); ok {
				run.Add(c)
			} else {
				run.Count("file:not-tokenisable")
			}
		}
	}
	for i := 0; i < 1+run.N/1024; i++ {
		if c, ok := fileCase(fileDesc{Text: genBigFile(rb, run)}); ok {
			run.Add(c)
		}
	}
	if c, ok := fileCase(fileDesc{Text: genLadderText(hx.NewRng(run.Seed*1000003+1), 1<<8+1)}); ok {
		run.Add(c)
	}
	run.Finish()
}
