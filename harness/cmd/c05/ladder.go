package main

// Size ladder (round 4 follow-up): one written scene and one read text per rung of 2^10+1, 2^12+1, 2^13+1, 2^14+1,
// 2^15+1 faces (2^16+1 in the thorough tier) - internal thresholds (parallel paths, batches, chunked buffers) are
// typically powers of two.  Several meshes / groups per rung with different attribute sets and material ranges; face
// counts, vertex counts and range boundaries sit on and just past powers of two.
//
// Evaluating 3 x 32769 faces in Coq costs minutes, so the ladder is judged HARNESS-SIDE, exactly: the Go functions below
// re-implement the direct semantics of Formats/Obj.v (file_groups / obs / obs_written: tables, corner contents in face
// order, one material tag per face, no de-duplication) on the statements of the independent tokenizer, and what the
// implementation wrote / read must equal that, corner by corner.  The verdict travels as GoFail; the Coq term of a
// ladder case (CLadder faces groups) carries no obligation.  The bottom rung is ALSO run through the ordinary Coq cases
// (writeCase / fileCase), which ties this reference to the Gallina definitions on the same kind of input.

import (
	"fmt"
	"strconv"
	"strings"

	"verif/harness/hx"

	"github.com/EliCDavis/polyform/formats/obj"
	"github.com/EliCDavis/polyform/modeling"
)

type ladderDesc struct {
	What  string `json:"what"` // "write": scene -> WriteMeshes -> ReadMesh; "text": text -> ReadMesh -> WriteMeshes -> ReadMesh
	Faces int    `json:"faces"`
	Sub   uint64 `json:"sub_seed"` // hx.NewRng(sub_seed) regenerates the input
}

// ---------- reference semantics ----------
type gcontent struct {
	P       [3]uint32
	U       [2]uint32
	N       [3]uint32
	HasP    bool
	HasU    bool
	HasN    bool
}
type ggroup struct {
	Name    string // pieces joined by one blank
	Corners []gcontent
	Tags    []string // "" = none
}

func (c gcontent) String() string {
	s := "p-"
	if c.HasP {
		s = fmt.Sprintf("p%d,%d,%d", c.P[0], c.P[1], c.P[2])
	}
	if c.HasU {
		s += fmt.Sprintf(" u%d,%d", c.U[0], c.U[1])
	}
	if c.HasN {
		s += fmt.Sprintf(" n%d,%d,%d", c.N[0], c.N[1], c.N[2])
	}
	return s
}

// refGroups = Obj.file_groups on tokenised lines (triangulated text: kinds v vt vn g usemtl f mtllib o other)
func refGroups(ls []line) (groups []ggroup, libs []string, valid bool) {
	valid = true
	var v, vn [][3]uint32
	var vt [][2]uint32
	var nm string
	var cs []gcontent
	var tg []*string
	var cur *string
	closeG := func() ggroup {
		au, an := true, true
		for _, c := range cs {
			au = au && c.HasU
			an = an && c.HasN
		}
		g := ggroup{Name: nm}
		for _, c := range cs {
			c.HasU = c.HasU && au
			c.HasN = c.HasN && an
			g.Corners = append(g.Corners, c)
		}
		if cur != nil {
			for _, t := range tg {
				if t == nil {
					g.Tags = append(g.Tags, "Default")
				} else {
					g.Tags = append(g.Tags, *t)
				}
			}
		}
		return g
	}
	content := func(c corner) gcontent {
		var out gcontent
		if c.V >= 1 && int(c.V) <= len(v) {
			out.P, out.HasP = v[c.V-1], true
		} else {
			valid = false
		}
		if c.HasT {
			if c.VT >= 1 && int(c.VT) <= len(vt) {
				out.U, out.HasU = vt[c.VT-1], true
			} else {
				valid = false
			}
		}
		if c.HasN {
			if c.VN >= 1 && int(c.VN) <= len(vn) {
				out.N, out.HasN = vn[c.VN-1], true
			} else {
				valid = false
			}
		}
		return out
	}
	for _, l := range ls {
		switch l.Kind {
		case "v":
			v = append(v, [3]uint32{l.W[0], l.W[1], l.W[2]})
		case "vn":
			vn = append(vn, [3]uint32{l.W[0], l.W[1], l.W[2]})
		case "vt":
			vt = append(vt, [2]uint32{l.W[0], l.W[1]})
		case "g":
			if len(cs) > 0 {
				groups = append(groups, closeG())
				cs, tg, cur = nil, nil, nil
			}
			nm = strings.Join(l.Name, " ")
		case "usemtl":
			if len(l.Name) == 0 {
				valid = false
			}
			s := strings.Join(l.Name, " ")
			cur = &s
		case "mtllib":
			if len(l.Name) == 0 {
				valid = false
			}
			libs = append(libs, l.Name...)
		case "f":
			cs = append(cs, content(l.C[0]), content(l.C[1]), content(l.C[2]))
			tg = append(tg, cur)
		case "fn", "short":
			valid = false
		}
	}
	groups = append(groups, closeG())
	return groups, libs, valid
}

// implGroups = map Obj.obs on what ReadMesh returned ("" tag = nil material)
func implGroups(gs []obj.ObjMesh) []ggroup {
	out := make([]ggroup, len(gs))
	for k, g := range gs {
		m := g.Mesh
		og := ggroup{Name: g.Name}
		var pos, nrm [][3]uint32
		var uv [][2]uint32
		if m.HasFloat3Attribute(modeling.PositionAttribute) {
			a := m.Float3Attribute(modeling.PositionAttribute)
			for i := 0; i < a.Len(); i++ {
				p := a.At(i)
				pos = append(pos, [3]uint32{f32w(p.X()), f32w(p.Y()), f32w(p.Z())})
			}
		}
		if m.HasFloat2Attribute(modeling.TexCoordAttribute) {
			a := m.Float2Attribute(modeling.TexCoordAttribute)
			for i := 0; i < a.Len(); i++ {
				p := a.At(i)
				uv = append(uv, [2]uint32{f32w(p.X()), f32w(p.Y())})
			}
		}
		if m.HasFloat3Attribute(modeling.NormalAttribute) {
			a := m.Float3Attribute(modeling.NormalAttribute)
			for i := 0; i < a.Len(); i++ {
				p := a.At(i)
				nrm = append(nrm, [3]uint32{f32w(p.X()), f32w(p.Y()), f32w(p.Z())})
			}
		}
		ix := m.Indices()
		for i := 0; i < ix.Len(); i++ {
			j := ix.At(i)
			var c gcontent
			if j >= 0 && j < len(pos) {
				c.P, c.HasP = pos[j], true
			}
			if j >= 0 && j < len(uv) {
				c.U, c.HasU = uv[j], true
			}
			if j >= 0 && j < len(nrm) {
				c.N, c.HasN = nrm[j], true
			}
			og.Corners = append(og.Corners, c)
		}
		for _, mt := range m.Materials() {
			t := ""
			if mt.Material != nil {
				t = mt.Material.Name
			}
			for i := 0; i < mt.PrimitiveCount; i++ {
				og.Tags = append(og.Tags, t)
			}
		}
		out[k] = og
	}
	return out
}

// descGroups = map Obj.obs_written on the meshes handed to the writer
func descGroups(d writeDesc) []ggroup {
	out := make([]ggroup, len(d.Meshes))
	for k, md := range d.Meshes {
		g := ggroup{Name: strings.Join(spaceFields(md.Name), " ")}
		for _, j := range md.Idx {
			var c gcontent
			if j < len(md.Pos) {
				c.P, c.HasP = [3]uint32{f32w(md.Pos[j][0]), f32w(md.Pos[j][1]), f32w(md.Pos[j][2])}, true
			}
			if md.UV != nil && j < len(md.UV) {
				c.U, c.HasU = [2]uint32{f32w(md.UV[j][0]), f32w(md.UV[j][1])}, true
			}
			if md.Nrm != nil && j < len(md.Nrm) {
				c.N, c.HasN = [3]uint32{f32w(md.Nrm[j][0]), f32w(md.Nrm[j][1]), f32w(md.Nrm[j][2])}, true
			}
			g.Corners = append(g.Corners, c)
		}
		for _, mt := range md.Mats {
			t := "DefaultDiffuse"
			if mt.Name != nil {
				t = strings.ReplaceAll(*mt.Name, " ", "")
			}
			for i := 0; i < mt.Count; i++ {
				g.Tags = append(g.Tags, t)
			}
		}
		out[k] = g
	}
	return out
}

// writtenGroups = map gobs_written
func writtenGroups(gs []ggroup) []ggroup {
	out := make([]ggroup, len(gs))
	for k, g := range gs {
		w := ggroup{Name: g.Name, Corners: g.Corners}
		for _, t := range g.Tags {
			if t == "" {
				w.Tags = append(w.Tags, "DefaultDiffuse")
			} else {
				w.Tags = append(w.Tags, strings.ReplaceAll(t, " ", ""))
			}
		}
		out[k] = w
	}
	return out
}

func cmpGroups(what string, got, want []ggroup) string {
	if len(got) != len(want) {
		return fmt.Sprintf("%s: %d groups, expected %d", what, len(got), len(want))
	}
	for k := range want {
		g, w := got[k], want[k]
		if g.Name != w.Name {
			return fmt.Sprintf("%s: group %d is named %q, expected %q", what, k, g.Name, w.Name)
		}
		if len(g.Corners) != len(w.Corners) {
			return fmt.Sprintf("%s: group %d (%s) has %d faces, expected %d", what, k, w.Name, len(g.Corners)/3, len(w.Corners)/3)
		}
		for i := range w.Corners {
			if g.Corners[i] != w.Corners[i] {
				return fmt.Sprintf("%s: group %d (%s) face %d corner %d is [%v], expected [%v]", what, k, w.Name, i/3, i%3, g.Corners[i], w.Corners[i])
			}
		}
		if len(g.Tags) != len(w.Tags) {
			return fmt.Sprintf("%s: group %d (%s) has a material on %d faces, expected %d", what, k, w.Name, len(g.Tags), len(w.Tags))
		}
		for i := range w.Tags {
			if g.Tags[i] != w.Tags[i] {
				return fmt.Sprintf("%s: group %d (%s) face %d has material %q, expected %q", what, k, w.Name, i, g.Tags[i], w.Tags[i])
			}
		}
	}
	return ""
}

// ---------- generators ----------
func pow2Below(n int) int {
	p := 1
	for p*2 <= n {
		p *= 2
	}
	return p
}

// genLadderScene: four meshes with F/2, F/4, F-F/2-F/4-1 and 1 faces in a random order, the four attribute sets in a
// random order; welded meshes have 2^k+1 vertices, unwelded ones 3 per face; ranges cut at a power of two.
func genLadderScene(r *hx.Rng, faces int) writeDesc {
	var d writeDesc
	nts := []int{faces / 2, faces / 4, faces - faces/2 - faces/4 - 1, 1}
	order := r.Perm(4)
	attrs := r.Perm(4)
	for k := 0; k < 4; k++ {
		nt := nts[order[k]]
		var md meshDesc
		md.Name = hx.Pick(r, []string{"tower", "wall north", "roof", "b"}) + strconv.Itoa(k)
		welded := k%2 == 0 && nt >= 4
		nv := 3 * nt
		if welded {
			nv = pow2Below(nt) + 1
		}
		md.Idx = make([]int, 3*nt)
		for i := range md.Idx {
			if welded {
				md.Idx[i] = r.Intn(nv)
			} else {
				md.Idx[i] = i
			}
		}
		if welded {
			md.Idx[r.Intn(len(md.Idx))] = nv - 1 // the vertex just past the power of two is used
		}
		md.Pos = make([][3]float64, nv)
		for i := range md.Pos {
			md.Pos[i] = [3]float64{float64(i), genVal(r), float64(-(i % 97))}
		}
		if attrs[k]&1 == 1 {
			md.UV = make([][2]float64, nv)
			for i := range md.UV {
				md.UV[i] = [2]float64{float64(i), 0.5}
			}
		}
		if attrs[k]&2 == 2 {
			md.Nrm = make([][3]float64, nv)
			for i := range md.Nrm {
				md.Nrm[i] = [3]float64{0, float64(i % 1021), 1}
			}
		}
		switch r.Intn(3) {
		case 0:
			if nt >= 4 { // a b a, the first range ends exactly on a power of two
				p := pow2Below(nt - 2)
				md.Mats = []matDesc{{p, sp("brick")}, {1, sp("glass pane")}, {nt - p - 1, sp("brick")}}
				if r.Bool() {
					md.Mats[0].Name, md.Mats[2].Name = nil, nil
				}
			}
		case 1:
			md.Mats = genMats(r, nt)
			for i := range md.Mats {
				if md.Mats[i].Name != nil && *md.Mats[i].Name == "" {
					md.Mats[i].Name = sp("x")
				}
			}
		}
		d.Meshes = append(d.Meshes, md)
	}
	if r.Bool() {
		d.Mtl = "ladder.mtl"
	}
	return d
}

// genLadderText: a valid triangulated OBJ with exactly `faces` f lines in four groups (same split as the scene), one
// corner form per group, v lines declared between the faces (about faces/2 + 1 vertices in the end), 1025 vt, 3 vn,
// usemtl at the faces whose running number is a power of two (+1) and at random places.
func genLadderText(r *hx.Rng, faces int) string {
	var b strings.Builder
	b.WriteString("mtllib ladder.mtl\n")
	nv := 0
	addV := func() {
		nv++
		fmt.Fprintf(&b, "v %d %d.5 -%d\n", nv, nv%13, nv%7)
	}
	addV()
	addV()
	addV()
	const nt, nn = 1025, 3
	for i := 1; i <= nt; i++ {
		fmt.Fprintf(&b, "vt %d 0.25\n", i)
	}
	b.WriteString("vn 0 0 1\nvn 0 1 0\nvn 1 0 0\n")
	nts := []int{faces / 2, faces / 4, faces - faces/2 - faces/4 - 1, 1}
	order := r.Perm(4)
	forms := r.Perm(4)
	total := 0
	idx := func() int {
		if r.Chance(1, 4) {
			return nv
		}
		return r.Range(1, nv)
	}
	for k := 0; k < 4; k++ {
		if k > 0 || r.Bool() {
			b.WriteString("g " + hx.Pick(r, groupNames) + strconv.Itoa(k) + "\n")
		}
		for f := 0; f < nts[order[k]]; f++ {
			total++
			if total%2 == 0 {
				addV()
			}
			if total&(total-1) == 0 || (total-1)&(total-2) == 0 || r.Chance(1, 400) {
				b.WriteString("usemtl " + hx.Pick(r, matNames) + "\n")
			}
			b.WriteString("f")
			for c := 0; c < 3; c++ {
				v := strconv.Itoa(idx())
				switch forms[k] {
				case 1:
					v += "/" + strconv.Itoa(r.Range(1, nt))
				case 2:
					v += "//" + strconv.Itoa(r.Range(1, nn))
				case 3:
					v += "/" + strconv.Itoa(r.Range(1, nt)) + "/" + strconv.Itoa(r.Range(1, nn))
				}
				b.WriteString(" " + v)
			}
			b.WriteString("\n")
		}
	}
	return b.String()
}

// ---------- the cases ----------
func ladderCase(d ladderDesc) hx.Case {
	c := hx.Case{Kind: "ladder", Desc: d, Nontriv: true}
	c.Key = fmt.Sprintf("ladder|%s|%d|%d", d.What, d.Faces, d.Sub)
	r := hx.NewRng(d.Sub)
	fail, ngroups := "", 0
	check := func(f string) {
		if fail == "" {
			fail = f
		}
	}
	read := func(what, text string) []ggroup {
		gs, _, oc := runRead(text)
		if oc.Class != "ok" {
			check(fmt.Sprintf("%s: ReadMesh failed (%s): %s", what, oc.Class, oc.Msg))
			return nil
		}
		return implGroups(gs)
	}
	switch d.What {
	case "write":
		wd := genLadderScene(r, d.Faces)
		want := descGroups(wd)
		ngroups = len(want)
		text, woc := runWrite(buildMeshes(wd), wd.Mtl)
		if woc.Class != "ok" {
			check(fmt.Sprintf("WriteMeshes failed (%s): %s", woc.Class, woc.Msg))
			break
		}
		ls, err := tokenise(text)
		if err != nil {
			check("written text does not tokenise: " + err.Error())
			break
		}
		got, libs, valid := refGroups(ls)
		if !valid {
			check("written text is not a valid triangulated OBJ")
		}
		check(cmpGroups("text written by WriteMeshes", got, want))
		if strings.Join(libs, " ") != strings.Join(strings.Fields(wd.Mtl), " ") {
			check(fmt.Sprintf("mtllib names %v, expected %q", libs, wd.Mtl))
		}
		if g := read("reading the written text", text); g != nil {
			check(cmpGroups("ReadMesh of the written text", g, want))
		}
	case "text":
		text := genLadderText(r, d.Faces)
		ls, err := tokenise(text)
		if err != nil {
			check("generator: " + err.Error())
			break
		}
		want, _, valid := refGroups(ls)
		ngroups = len(want)
		if !valid {
			check("generator: text is not valid")
			break
		}
		gs1, _, oc := runRead(text)
		if oc.Class != "ok" {
			check(fmt.Sprintf("ReadMesh failed (%s): %s", oc.Class, oc.Msg))
			break
		}
		check(cmpGroups("ReadMesh of the text", implGroups(gs1), want))
		text2, woc := runWrite(gs1, "")
		if woc.Class != "ok" {
			check(fmt.Sprintf("WriteMeshes of the loaded groups failed (%s): %s", woc.Class, woc.Msg))
			break
		}
		wantW := writtenGroups(want)
		if ls2, err := tokenise(text2); err != nil {
			check("saved text does not tokenise: " + err.Error())
		} else {
			got2, _, valid2 := refGroups(ls2)
			if !valid2 {
				check("saved text is not a valid triangulated OBJ")
			}
			check(cmpGroups("text saved after loading", got2, wantW))
		}
		if g := read("loading the saved text", text2); g != nil {
			check(cmpGroups("ReadMesh of the saved text", g, wantW))
		}
	}
	if fail != "" {
		c.GoFail, c.FailKey = fail, "obj:ladder"
	}
	c.Coq = fmt.Sprintf("CLadder %d%%N %d%%N", d.Faces, ngroups)
	return c
}

func ladderRungs(thorough bool) []int {
	rungs := []int{1<<10 + 1, 1<<12 + 1, 1<<13 + 1, 1<<14 + 1, 1<<15 + 1}
	if thorough {
		rungs = append(rungs, 1<<16+1)
	}
	return rungs
}
