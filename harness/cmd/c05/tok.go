package main

// Independent tokenizer for OBJ text and renderers of Check.C05 terms.  Number text is converted with
// Go's strconv (float32 words / integers); everything structural is decided here, not by formats/obj.

import (
	"fmt"
	"math"
	"strconv"
	"strings"
)

type corner struct {
	V          int64
	VT, VN     int64
	HasT, HasN bool
}

type line struct {
	Kind string // v vt vn g usemtl f mtllib o other
	W    []uint32
	Name []string
	C    [3]corner
}

func f32w(x float64) uint32 { return math.Float32bits(float32(x)) }

func parseCorner(tok string) (corner, error) {
	var c corner
	parts := strings.Split(tok, "/")
	if len(parts) > 3 {
		return c, fmt.Errorf("corner %q", tok)
	}
	v, err := strconv.ParseInt(parts[0], 10, 64)
	if err != nil {
		return c, err
	}
	c.V = v
	if len(parts) >= 2 && parts[1] != "" {
		t, err := strconv.ParseInt(parts[1], 10, 64)
		if err != nil {
			return c, err
		}
		c.VT, c.HasT = t, true
	}
	if len(parts) == 2 && parts[1] == "" {
		return c, fmt.Errorf("corner %q", tok)
	}
	if len(parts) == 3 {
		n, err := strconv.ParseInt(parts[2], 10, 64)
		if err != nil {
			return c, err
		}
		c.VN, c.HasN = n, true
	}
	return c, nil
}

func floats(toks []string, n int) ([]uint32, error) {
	if len(toks) < n {
		return nil, fmt.Errorf("want %d numbers, have %d", n, len(toks))
	}
	out := make([]uint32, n)
	for i := 0; i < n; i++ {
		f, err := strconv.ParseFloat(toks[i], 32)
		if err != nil {
			return nil, err
		}
		out[i] = math.Float32bits(float32(f))
	}
	return out, nil
}

// tokenise splits OBJ text into line records; blank lines carry no record (both readers skip them).
func tokenise(text string) ([]line, error) {
	var out []line
	for _, raw := range strings.Split(text, "\n") {
		raw = strings.TrimSuffix(raw, "\r")
		fs := strings.Fields(raw)
		if len(fs) == 0 {
			continue
		}
		var l line
		var err error
		switch fs[0] {
		case "v", "vn":
			l.Kind = fs[0]
			l.W, err = floats(fs[1:], 3)
		case "vt":
			l.Kind = "vt"
			l.W, err = floats(fs[1:], 2)
		case "g", "usemtl", "mtllib", "o":
			l.Kind = fs[0]
			l.Name = fs[1:]
		case "f":
			l.Kind = "f"
			if len(fs) != 4 {
				return nil, fmt.Errorf("face with %d corners: %q", len(fs)-1, raw)
			}
			for k := 0; k < 3; k++ {
				l.C[k], err = parseCorner(fs[1+k])
				if err != nil {
					break
				}
			}
		default:
			l.Kind = "other"
		}
		if err != nil {
			return nil, fmt.Errorf("line %q: %w", raw, err)
		}
		out = append(out, l)
	}
	return out, nil
}

// ---- Coq rendering ----
func coqName(toks []string) string {
	items := make([]string, len(toks))
	for i, t := range toks {
		items[i] = "\"" + strings.ReplaceAll(t, "\"", "\"\"") + "\"%string"
	}
	return "[" + strings.Join(items, ";") + "]"
}
func coqZ(x int64) string {
	if x < 0 {
		return fmt.Sprintf("(%d)%%Z", x)
	}
	return fmt.Sprintf("%d%%Z", x)
}
func coqCorner(c corner) string {
	t, n := "None", "None"
	if c.HasT {
		t = "Some " + coqZ(c.VT)
	}
	if c.HasN {
		n = "Some " + coqZ(c.VN)
	}
	return fmt.Sprintf("(%s,%s,%s)", coqZ(c.V), t, n)
}
func coqLine(l line) string {
	switch l.Kind {
	case "v":
		return fmt.Sprintf("V (%d,%d,%d)", l.W[0], l.W[1], l.W[2])
	case "vn":
		return fmt.Sprintf("VN (%d,%d,%d)", l.W[0], l.W[1], l.W[2])
	case "vt":
		return fmt.Sprintf("VT (%d,%d)", l.W[0], l.W[1])
	case "g":
		return "G " + coqName(l.Name)
	case "usemtl":
		return "UseMtl " + coqName(l.Name)
	case "mtllib":
		return "MtlLib " + coqName(l.Name)
	case "o":
		return "O " + coqName(l.Name)
	case "f":
		return fmt.Sprintf("F %s %s %s", coqCorner(l.C[0]), coqCorner(l.C[1]), coqCorner(l.C[2]))
	}
	return "Other"
}
func coqLines(ls []line) string {
	items := make([]string, len(ls))
	for i, l := range ls {
		items[i] = coqLine(l)
	}
	return "[" + strings.Join(items, ";") + "]"
}

// model-side mesh: words and name pieces
type cmat struct {
	Count int
	Nil   bool
	Name  []string
}
type cmesh struct {
	Name []string
	Idx  []int
	Pos  [][3]uint32
	UV   [][2]uint32
	Nrm  [][3]uint32
	Mats []cmat
}

func coqVec3s(vs [][3]uint32) string {
	items := make([]string, len(vs))
	for i, v := range vs {
		items[i] = fmt.Sprintf("(%d,%d,%d)", v[0], v[1], v[2])
	}
	return "[" + strings.Join(items, ";") + "]"
}
func coqVec2s(vs [][2]uint32) string {
	items := make([]string, len(vs))
	for i, v := range vs {
		items[i] = fmt.Sprintf("(%d,%d)", v[0], v[1])
	}
	return "[" + strings.Join(items, ";") + "]"
}
func coqNats(xs []int) string {
	items := make([]string, len(xs))
	for i, x := range xs {
		items[i] = strconv.Itoa(x)
	}
	return "[" + strings.Join(items, ";") + "]%nat"
}
func coqMesh(m cmesh) string {
	mats := make([]string, len(m.Mats))
	for i, mt := range m.Mats {
		nm := "None"
		if !mt.Nil {
			nm = "Some " + coqName(mt.Name)
		}
		mats[i] = fmt.Sprintf("(%d%%nat,%s)", mt.Count, nm)
	}
	return fmt.Sprintf("{| m_name := %s; m_idx := %s; m_pos := %s; m_uv := %s; m_nrm := %s; m_mats := [%s] |}",
		coqName(m.Name), coqNats(m.Idx), coqVec3s(m.Pos), coqVec2s(m.UV), coqVec3s(m.Nrm), strings.Join(mats, ";"))
}
func coqMeshes(ms []cmesh) string {
	items := make([]string, len(ms))
	for i, m := range ms {
		items[i] = coqMesh(m)
	}
	return "[" + strings.Join(items, ";\n    ") + "]"
}
