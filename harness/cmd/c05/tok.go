package main

// Independent tokenizer for OBJ text and renderers of Check.C05 terms.  Number text is converted with
// Go's strconv (float32 words / integers); everything structural is decided here, not by formats/obj.

import (
	"fmt"
	"math"
	"math/big"
	"sort"
	"strconv"
	"strings"
)

type corner struct {
	V          int64
	VT, VN     int64
	HasT, HasN bool
	Spell      string // "0": canonical decimal spelling; otherwise ObjText.enc of the token text (injective)
}

type line struct {
	Kind string // v vt vn g usemtl f fn short mtllib o other
	W    []uint32
	Name []string
	C    [3]corner
	Cs   []corner // fn: an f line with a corner count other than 3
}

func f32w(x float64) uint32 { return math.Float32bits(float32(x)) }

func atoi(s string) (int64, error) { return strconv.ParseInt(s, 10, 64) } // what strconv.Atoi accepts on 64 bit

// parseCorner follows the three branches of the reader's token grammar (no "/", "//", "/"), but is written
// independently; tokens whose treatment by the reader is a quirk rather than OBJ ("1//2//3", "1/2/3/4") are
// rejected, i.e. the whole input is left out of the line-record model.
func parseCorner(tok string) (corner, error) {
	var c corner
	var err error
	switch {
	case !strings.Contains(tok, "/"):
		c.V, err = atoi(tok)
		return c, err
	case strings.Contains(tok, "//"):
		parts := strings.Split(tok, "//")
		if len(parts) != 2 {
			return c, fmt.Errorf("corner %q", tok)
		}
		if c.V, err = atoi(parts[0]); err != nil {
			return c, err
		}
		if parts[1] != "" {
			c.VN, err = atoi(parts[1])
			c.HasN = true
		}
		return c, err
	}
	parts := strings.Split(tok, "/")
	if len(parts) > 3 {
		return c, fmt.Errorf("corner %q", tok)
	}
	if c.V, err = atoi(parts[0]); err != nil {
		return c, err
	}
	if c.VT, err = atoi(parts[1]); err != nil {
		return c, err
	}
	c.HasT = true
	if len(parts) == 3 {
		c.VN, err = atoi(parts[2])
		c.HasN = true
	}
	return c, err
}

func canonical(c corner) string {
	switch {
	case c.HasT && c.HasN:
		return fmt.Sprintf("%d/%d/%d", c.V, c.VT, c.VN)
	case c.HasT:
		return fmt.Sprintf("%d/%d", c.V, c.VT)
	case c.HasN:
		return fmt.Sprintf("%d//%d", c.V, c.VN)
	}
	return strconv.FormatInt(c.V, 10)
}

// number tokens of the text tokenised last, with the float32 word Go's ParseFloat(.,32) gave them (the Coq text
// layer takes number text from this table)
var floatTab = map[string]uint32{}

func coqBytes(s string) string {
	var b strings.Builder
	b.WriteString("[")
	for i := 0; i < len(s); i++ {
		if i > 0 {
			b.WriteString(";")
		}
		b.WriteString(strconv.Itoa(int(s[i])))
	}
	b.WriteString("]")
	return b.String()
}
func coqFloatTab() string {
	keys := make([]string, 0, len(floatTab))
	for k := range floatTab {
		keys = append(keys, k)
	}
	sort.Strings(keys)
	items := make([]string, len(keys))
	for i, k := range keys {
		items[i] = fmt.Sprintf("(%s,%d)", coqBytes(k), floatTab[k])
	}
	return "[" + strings.Join(items, ";") + "]"
}

func floats(toks []string, n int) ([]uint32, error) {
	if len(toks) < n {
		return nil, fmt.Errorf("want %d numbers, have %d", n, len(toks))
	}
	out := make([]uint32, n)
	for i := 0; i < n; i++ {
		f, err := strconv.ParseFloat(toks[i], 32)
		if err != nil {
			return nil, err
		}
		out[i] = math.Float32bits(float32(f))
		floatTab[toks[i]] = out[i]
	}
	return out, nil
}

// tokenise splits OBJ text into line records; blank lines carry no record (both readers skip them).
func tokenise(text string) ([]line, error) {
	var out []line
	floatTab = map[string]uint32{}
	corn := func(tok string) (corner, error) {
		c, err := parseCorner(tok)
		c.Spell = "0"
		if err == nil && canonical(c) != tok {
			e := big.NewInt(1) // Formats/ObjText.v enc: fold_left (a*256+b) tok 1
			for i := 0; i < len(tok); i++ {
				e.Mul(e, big.NewInt(256))
				e.Add(e, big.NewInt(int64(tok[i])))
			}
			c.Spell = e.String()
		}
		return c, err
	}
	short := func(toks []string, n int) bool { // too few numbers, all of them well formed: the reader panics
		if len(toks) >= n {
			return false
		}
		for _, t := range toks {
			f, err := strconv.ParseFloat(t, 32)
			if err != nil {
				return false
			}
			floatTab[t] = math.Float32bits(float32(f))
		}
		return true
	}
	for _, raw := range strings.Split(text, "\n") {
		raw = strings.TrimSuffix(raw, "\r")
		fs := strings.Fields(raw)
		if len(fs) == 0 {
			continue
		}
		var l line
		var err error
		switch fs[0] {
		case "v", "vn":
			l.Kind = fs[0]
			if short(fs[1:], 3) {
				l.Kind = "short"
			} else {
				l.W, err = floats(fs[1:], 3)
			}
		case "vt":
			l.Kind = "vt"
			if short(fs[1:], 2) {
				l.Kind = "short"
			} else {
				l.W, err = floats(fs[1:], 2)
			}
		case "g", "usemtl", "mtllib", "o":
			l.Kind = fs[0]
			l.Name = fs[1:]
		case "f":
			l.Kind = "f"
			if len(fs) != 4 {
				l.Kind = "fn"
				for _, t := range fs[1:] {
					var c corner
					if c, err = corn(t); err != nil {
						break
					}
					l.Cs = append(l.Cs, c)
				}
				break
			}
			for k := 0; k < 3; k++ {
				l.C[k], err = corn(fs[1+k])
				if err != nil {
					break
				}
			}
		default:
			l.Kind = "other"
		}
		if err != nil {
			return nil, fmt.Errorf("line %q: %w", raw, err)
		}
		out = append(out, l)
	}
	return out, nil
}

// ---- Coq rendering ----
func coqName(toks []string) string {
	items := make([]string, len(toks))
	for i, t := range toks {
		items[i] = "\"" + strings.ReplaceAll(t, "\"", "\"\"") + "\"%string"
	}
	return "[" + strings.Join(items, ";") + "]"
}
func coqZ(x int64) string {
	if x < 0 {
		return fmt.Sprintf("(%d)%%Z", x)
	}
	return fmt.Sprintf("%d%%Z", x)
}
func coqCorner(c corner) string {
	t, n := "None", "None"
	if c.HasT {
		t = "Some " + coqZ(c.VT)
	}
	if c.HasN {
		n = "Some " + coqZ(c.VN)
	}
	sp := c.Spell
	if sp == "" {
		sp = "0"
	}
	return fmt.Sprintf("(%s,%s,%s,%s%%N)", coqZ(c.V), t, n, sp)
}
func coqLine(l line) string {
	switch l.Kind {
	case "v":
		return fmt.Sprintf("V (%d,%d,%d)", l.W[0], l.W[1], l.W[2])
	case "vn":
		return fmt.Sprintf("VN (%d,%d,%d)", l.W[0], l.W[1], l.W[2])
	case "vt":
		return fmt.Sprintf("VT (%d,%d)", l.W[0], l.W[1])
	case "g":
		return "G " + coqName(l.Name)
	case "usemtl":
		return "UseMtl " + coqName(l.Name)
	case "mtllib":
		return "MtlLib " + coqName(l.Name)
	case "o":
		return "O " + coqName(l.Name)
	case "f":
		return fmt.Sprintf("F %s %s %s", coqCorner(l.C[0]), coqCorner(l.C[1]), coqCorner(l.C[2]))
	case "fn":
		items := make([]string, len(l.Cs))
		for i, c := range l.Cs {
			items[i] = coqCorner(c)
		}
		return "Fn [" + strings.Join(items, ";") + "]"
	case "short":
		return "Short"
	}
	return "Other"
}
func coqLines(ls []line) string {
	items := make([]string, len(ls))
	for i, l := range ls {
		items[i] = coqLine(l)
	}
	return "[" + strings.Join(items, ";") + "]"
}

// model-side mesh: words and name pieces
type cmat struct {
	Count int
	Nil   bool
	Name  []string
}
type cmesh struct {
	Name []string
	Idx  []int
	Pos  [][3]uint32
	UV   [][2]uint32
	Nrm  [][3]uint32
	Mats []cmat
}

func coqVec3s(vs [][3]uint32) string {
	items := make([]string, len(vs))
	for i, v := range vs {
		items[i] = fmt.Sprintf("(%d,%d,%d)", v[0], v[1], v[2])
	}
	return "[" + strings.Join(items, ";") + "]"
}
func coqVec2s(vs [][2]uint32) string {
	items := make([]string, len(vs))
	for i, v := range vs {
		items[i] = fmt.Sprintf("(%d,%d)", v[0], v[1])
	}
	return "[" + strings.Join(items, ";") + "]"
}
func coqNats(xs []int) string {
	items := make([]string, len(xs))
	for i, x := range xs {
		items[i] = strconv.Itoa(x)
	}
	return "[" + strings.Join(items, ";") + "]%nat"
}
func coqMesh(m cmesh) string {
	mats := make([]string, len(m.Mats))
	for i, mt := range m.Mats {
		nm := "None"
		if !mt.Nil {
			nm = "Some " + coqName(mt.Name)
		}
		mats[i] = fmt.Sprintf("(%d%%nat,%s)", mt.Count, nm)
	}
	return fmt.Sprintf("{| m_name := %s; m_idx := %s; m_pos := %s; m_uv := %s; m_nrm := %s; m_mats := [%s] |}",
		coqName(m.Name), coqNats(m.Idx), coqVec3s(m.Pos), coqVec2s(m.UV), coqVec3s(m.Nrm), strings.Join(mats, ";"))
}
func coqMeshes(ms []cmesh) string {
	items := make([]string, len(ms))
	for i, m := range ms {
		items[i] = coqMesh(m)
	}
	return "[" + strings.Join(items, ";\n    ") + "]"
}
