package main

import (
	"fmt"
	"math"
	"strings"

	"verif/harness/hx"

	"github.com/EliCDavis/polyform/math/sample"
	"github.com/EliCDavis/polyform/math/sdf"
)

// Constructor side effects / aliasing.  The operator constructors receive a caller-owned slice
// (`sdf.Union(ops...)` passes the slice itself, not a copy).  A sequence case builds ops := []Field{3..6 shapes},
// calls the constructors in the given ORDER on that one shared slice (steps: U = Union(ops...), I = Intersect(ops...),
// S = Subtract(ops[0], ops[1]), T = Translate(ops[0], off); a step may occur twice), and only then evaluates every
// constructed field AND every ops[k] at the point.  The reference values come from fields built separately from the
// same shape descriptions that never went through an operator constructor: u = min_k f_k(p), i = max_k f_k(p),
// s = max(f_0(p), -f_1(p)), t = f_0(p - off), ops[k](p) = f_k(p) — compared bit for bit (min/max of the same floats).
type seqDesc struct {
	Shapes []Shape  `json:"shapes"`
	Order  []string `json:"order"`
	Off    V3       `json:"off"`
	P      V3       `json:"p"`
}

func (h *H) addSeq(d seqDesc, toCoq bool) {
	c := hx.Case{Kind: "seq", Desc: d, Key: key(d), Nontriv: true, Coq: "CGo"}
	fail := func(format string, a ...interface{}) {
		if c.GoFail == "" {
			c.GoFail = fmt.Sprintf(format, a...)
		}
	}
	func() {
		defer func() {
			if r := recover(); r != nil {
				fail("panic: %v", r)
			}
		}()
		if len(d.Shapes) < 2 {
			fail("sequence needs at least two shapes")
			return
		}
		orig := make([]sample.Vec3ToFloat, len(d.Shapes)) // never handed to an operator constructor
		ops := make([]sample.Vec3ToFloat, len(d.Shapes))  // the shared, caller-owned slice
		for k, s := range d.Shapes {
			orig[k] = build(s)
			ops[k] = build(s)
		}
		type built struct {
			step string
			f    sample.Vec3ToFloat
		}
		var fs []built
		for _, st := range d.Order {
			switch st {
			case "U":
				fs = append(fs, built{st, sdf.Union(ops...)})
			case "I":
				fs = append(fs, built{st, sdf.Intersect(ops...)})
			case "S":
				fs = append(fs, built{st, sdf.Subtract(ops[0], ops[1])})
			case "T":
				fs = append(fs, built{st, sdf.Translate(ops[0], d.Off.vec())})
			default:
				fail("unknown step %q", st)
				return
			}
		}
		// all constructors have run: now evaluate
		p := d.P.vec()
		vals := make([]float64, len(orig))
		mn, mx := math.Inf(1), math.Inf(-1)
		for k, f := range orig {
			vals[k] = f(p)
			mn, mx = math.Min(mn, vals[k]), math.Max(mx, vals[k])
		}
		same := func(a, b float64) bool { return a == b || (math.IsNaN(a) && math.IsNaN(b)) }
		for n, b := range fs {
			got := b.f(p)
			var want float64
			switch b.step {
			case "U":
				want = mn
			case "I":
				want = mx
			case "S":
				want = math.Max(vals[0], -vals[1])
			case "T":
				want = orig[0](d.P.sub(d.Off).vec())
			}
			if !same(got, want) {
				fail("after the constructor sequence %s: field #%d (%s) = %v at p, but the original shapes give %v",
					strings.Join(d.Order, ","), n, b.step, got, want)
			}
		}
		for k, f := range ops {
			if got := f(p); !same(got, vals[k]) {
				fail("after the constructor sequence %s: the caller's operand ops[%d] = %v at p, but the shape it was built from gives %v (operand slice overwritten)",
					strings.Join(d.Order, ","), k, got, vals[k])
			}
		}
		// Coq side: the union value through the generated model and the closed-form membership
		for _, b := range fs {
			if b.step == "U" && toCoq {
				out := b.f(p)
				if !math.IsNaN(out) && !math.IsInf(out, 0) {
					u := Shape{T: "union", Sub: d.Shapes}
					c.Coq = fmt.Sprintf("(CEval false %s %s %s %s)", coqShape(u), vq(d.P), fq(out), fq(1e-9*scaleOf(u, d.P)))
				}
				break
			}
		}
	}()
	h.run.Add(c)
}

func genSeq(r *hx.Rng) (shapes []Shape, order []string, off V3) {
	n := r.Range(3, 6)
	if r.Chance(1, 8) {
		n = 2
	}
	for i := 0; i < n; i++ {
		shapes = append(shapes, genPrimitive(r, hx.Pick(r, primitives)))
	}
	steps := []string{"U", "I", "S", "T"}
	if r.Bool() {
		steps = append(steps, "U") // constructors called twice
	}
	if r.Bool() {
		steps = append(steps, "I")
	}
	for _, i := range r.Perm(len(steps)) {
		order = append(order, steps[i])
	}
	return shapes, order, genPos(r)
}

// every order of the four steps on one fixed operand set (24 sequences), at lattice points
func fixedSeqs() []seqDesc {
	shapes := []Shape{
		{T: "sphere", A: V3{0, 0, 0}, R: []float64{1}},
		{T: "box", A: V3{0.5, 0, 0}, B: V3{1, 2, 2}},
		{T: "sphere", A: V3{0, 1, 0}, R: []float64{0.75}},
		{T: "plane", A: V3{0, 0, 0}, B: V3{0, 0, 1}, R: []float64{0.25}},
	}
	pts := []V3{{0.25, 0.5, -0.5}, {-0.75, 0, 0}, {0.75, 0.75, 0.5}, {0, 1.5, -1}}
	var out []seqDesc
	var perm func(cur, rest []string)
	k := 0
	perm = func(cur, rest []string) {
		if len(rest) == 0 {
			out = append(out, seqDesc{shapes, append([]string{}, cur...), V3{0.5, -0.25, 0.125}, pts[k%len(pts)]})
			k++
			return
		}
		for i := range rest {
			nr := append(append([]string{}, rest[:i]...), rest[i+1:]...)
			perm(append(cur, rest[i]), nr)
		}
	}
	perm(nil, []string{"U", "I", "S", "T"})
	return out
}
