// C19 harness: signed distance functions.  Runs the real math/sdf constructors on generated shapes and points
// and writes the observations as Coq cases for Check/C19.v:
//
//	eval   one value f(p): (a) translator validation — the generated definitions over Q must reproduce it
//	       (exactly on the exact stream, within 1e-9 on arbitrary floats); (b) sign against closed-form
//	       membership (Coq, prop_ok); (c) harness oracle: an independently written float reference of the
//	       shape (by cases / brute-force over the cone's swept spheres), operators against the pointwise
//	       min / max / max(a,-b) of their operands' values, Translate against f(p - t)
//	lip    a pair p, q: |f p - f q| <= |p - q| (1 + 1e-9)   (Coq and harness)
//	exact  |f p| against a brute-force nearest-point search on the surface (sphere, box, capsule, plane)
//	scaled the same at scale 2^k, k in -40..20 (all lengths and the point multiplied exactly): homogeneity against the
//	       value at scale 1, closed-form reference and Coq model at the scaled parameters, all RELATIVE to the scale
//	seq    constructor side effects: Union / Intersect / Subtract / Translate called in every order on ONE shared
//	       operand slice, then every constructed field and every operand re-evaluated against the original shapes
//	degenerate-*  Line(a,a,r) and RoundedCone with one end sphere inside the other: separate counted streams
//	       with their own FailKey (they are inside the property's quantifier, see notes/C19.md)
package main

import (
	"encoding/json"
	"fmt"
	"math"
	"os"
	"strings"

	"verif/harness/hx"

	"github.com/EliCDavis/polyform/math/sample"
	"github.com/EliCDavis/polyform/math/sdf"
	"github.com/EliCDavis/vector/vector3"
)

type V3 [3]float64

func (a V3) sub(b V3) V3          { return V3{a[0] - b[0], a[1] - b[1], a[2] - b[2]} }
func (a V3) add(b V3) V3          { return V3{a[0] + b[0], a[1] + b[1], a[2] + b[2]} }
func (a V3) mul(t float64) V3     { return V3{a[0] * t, a[1] * t, a[2] * t} }
func (a V3) dot(b V3) float64     { return a[0]*b[0] + a[1]*b[1] + a[2]*b[2] }
func (a V3) norm() float64        { return math.Sqrt(a.dot(a)) }
func (a V3) vec() vector3.Float64 { return vector3.New(a[0], a[1], a[2]) }
func (a V3) cross(b V3) V3 {
	return V3{a[1]*b[2] - a[2]*b[1], a[2]*b[0] - a[0]*b[2], a[0]*b[1] - a[1]*b[0]}
}
func (a V3) finite() bool {
	for _, x := range a {
		if math.IsNaN(x) || math.IsInf(x, 0) {
			return false
		}
	}
	return true
}

// Shape is the replayable description of a field.
type Shape struct {
	T   string    `json:"t"` // sphere box rbox line plane rcyl rcone union intersect subtract translate
	A   V3        `json:"a"`
	B   V3        `json:"b"`
	R   []float64 `json:"r,omitempty"`
	Sub []Shape   `json:"sub,omitempty"`
	Pts []LP      `json:"pts,omitempty"` // vline: sdf.VarryingThicknessLine(points with radii)
}

// LP is one sdf.LinePoint.
type LP struct {
	P V3      `json:"p"`
	R float64 `json:"r"`
}

type evalDesc struct {
	Shape Shape `json:"shape"`
	P     V3    `json:"p"`
	Exact bool  `json:"exact"`
}
type pairDesc struct {
	Shape Shape `json:"shape"`
	P     V3    `json:"p"`
	Q     V3    `json:"q"`
}

// build calls the real constructors.
func build(s Shape) sample.Vec3ToFloat {
	switch s.T {
	case "sphere":
		return sdf.Sphere(s.A.vec(), s.R[0])
	case "box":
		return sdf.Box(s.A.vec(), s.B.vec())
	case "rbox":
		return sdf.RoundedBox(s.A.vec(), s.B.vec(), s.R[0])
	case "line":
		return sdf.Line(s.A.vec(), s.B.vec(), s.R[0])
	case "plane":
		return sdf.Plane(s.A.vec(), s.B.vec(), s.R[0])
	case "rcyl":
		return sdf.RoundedCylinder(s.A.vec(), s.R[0], s.R[1], s.R[2])
	case "rcone":
		return sdf.RoundedCone(s.A.vec(), s.B.vec(), s.R[0], s.R[1])
	case "union", "intersect":
		fs := make([]sample.Vec3ToFloat, len(s.Sub))
		for i, c := range s.Sub {
			fs[i] = build(c)
		}
		if s.T == "union" {
			return sdf.Union(fs...)
		}
		return sdf.Intersect(fs...)
	case "subtract":
		return sdf.Subtract(build(s.Sub[0]), build(s.Sub[1]))
	case "translate":
		return sdf.Translate(build(s.Sub[0]), s.A.vec())
	case "vline":
		lps := make([]sdf.LinePoint, len(s.Pts))
		for i, lp := range s.Pts {
			lps[i] = sdf.LinePoint{Point: lp.P.vec(), Radius: lp.R}
		}
		return sdf.VarryingThicknessLine(lps)
	}
	panic("unknown shape " + s.T)
}

// ---- Coq rendering: every float64 is m * 2^e exactly
func fq(x float64) string {
	if x == 0 {
		return "(fq 0 0)"
	}
	fr, ex := math.Frexp(x)
	m := int64(fr * (1 << 53))
	e := ex - 53
	for m%2 == 0 {
		m /= 2
		e++
	}
	ms, es := fmt.Sprint(m), fmt.Sprint(e)
	if m < 0 {
		ms = "(" + ms + ")"
	}
	if e < 0 {
		es = "(" + es + ")"
	}
	return "(fq " + ms + " " + es + ")"
}
func vq(v V3) string { return "(V " + fq(v[0]) + " " + fq(v[1]) + " " + fq(v[2]) + ")" }

func coqShape(s Shape) string {
	subs := func() string {
		it := make([]string, len(s.Sub))
		for i, c := range s.Sub {
			it[i] = coqShape(c)
		}
		return "[" + strings.Join(it, "; ") + "]"
	}
	switch s.T {
	case "sphere":
		return "(SSphere " + vq(s.A) + " " + fq(s.R[0]) + ")"
	case "box":
		return "(SBox " + vq(s.A) + " " + vq(s.B) + ")"
	case "rbox":
		return "(SRBox " + vq(s.A) + " " + vq(s.B) + " " + fq(s.R[0]) + ")"
	case "line":
		return "(SLine " + vq(s.A) + " " + vq(s.B) + " " + fq(s.R[0]) + ")"
	case "plane":
		return "(SPlane " + vq(s.A) + " " + vq(s.B) + " " + fq(s.R[0]) + ")"
	case "rcyl":
		return "(SRCyl " + vq(s.A) + " " + fq(s.R[0]) + " " + fq(s.R[1]) + " " + fq(s.R[2]) + ")"
	case "rcone":
		return "(SRCone " + vq(s.A) + " " + vq(s.B) + " " + fq(s.R[0]) + " " + fq(s.R[1]) + ")"
	case "union":
		return "(SUnion " + subs() + ")"
	case "intersect":
		return "(SIntersect " + subs() + ")"
	case "subtract":
		return "(SSubtract " + coqShape(s.Sub[0]) + " " + coqShape(s.Sub[1]) + ")"
	case "translate":
		return "(STranslate " + coqShape(s.Sub[0]) + " " + vq(s.A) + ")"
	case "vline":
		it := make([]string, len(s.Pts))
		for i, lp := range s.Pts {
			it[i] = "(" + vq(lp.P) + ", " + fq(lp.R) + ")"
		}
		return "(SVLine [" + strings.Join(it, "; ") + "])"
	}
	panic("unknown shape " + s.T)
}

// vlineInCoq: Check/C19.v has the constructor SVLine (the generated VarryingThicknessLine)
const vlineInCoq = true

// coqable: the shape can be rendered as a Check.C19 shape
func coqable(s Shape) bool {
	if s.T == "vline" && !vlineInCoq {
		return false
	}
	for _, c := range s.Sub {
		if !coqable(c) {
			return false
		}
	}
	return true
}

// ---- independent float references (written by cases, not with the Quilez one-liners)
func segClosest(a, b, p V3) V3 {
	d := b.sub(a)
	l2 := d.dot(d)
	if l2 == 0 {
		return a
	}
	t := p.sub(a).dot(d) / l2
	t = math.Max(0, math.Min(1, t))
	return a.add(d.mul(t))
}

func refBox(c, b, p V3) float64 {
	inside := true
	var out2 float64
	minFace := math.Inf(1)
	for i := 0; i < 3; i++ {
		e := math.Abs(p[i]-c[i]) - b[i]/2
		if e > 0 {
			inside = false
			out2 += e * e
		} else if -e < minFace {
			minFace = -e
		}
	}
	if inside {
		return -minFace
	}
	return math.Sqrt(out2)
}

func coneBrute(a, b V3, r1, r2 float64, p V3) float64 {
	g := func(s float64) float64 { return p.sub(a.add(b.sub(a).mul(s))).norm() - (r1 + s*(r2-r1)) }
	// convex in s: golden-section search
	lo, hi := 0.0, 1.0
	const phi = 0.6180339887498949
	x1, x2 := hi-phi*(hi-lo), lo+phi*(hi-lo)
	f1, f2 := g(x1), g(x2)
	for i := 0; i < 90; i++ {
		if f1 < f2 {
			hi, x2, f2 = x2, x1, f1
			x1 = hi - phi*(hi-lo)
			f1 = g(x1)
		} else {
			lo, x1, f1 = x1, x2, f2
			x2 = lo + phi*(hi-lo)
			f2 = g(x2)
		}
	}
	return math.Min(math.Min(g(0), g(1)), g((lo+hi)/2))
}

// ref returns the reference value and a tolerance; ok=false when there is no independent reference.
func ref(s Shape, p V3) (float64, bool) {
	switch s.T {
	case "sphere":
		return p.sub(s.A).norm() - s.R[0], true
	case "box":
		return refBox(s.A, s.B, p), true
	case "rbox":
		return refBox(s.A, s.B, p) - s.R[0], true
	case "line":
		return p.sub(segClosest(s.A, s.B, p)).norm() - s.R[0], true
	case "plane":
		return p.sub(s.A).dot(s.B) + s.R[0], true
	case "rcyl":
		d := p.sub(s.A)
		dx := math.Hypot(d[0], d[2]) - (2*s.R[0] - s.R[1])
		dy := math.Abs(d[1]) - s.R[2]
		if dx <= 0 && dy <= 0 {
			return math.Max(dx, dy) - s.R[1], true
		}
		return math.Hypot(math.Max(dx, 0), math.Max(dy, 0)) - s.R[1], true
	case "rcone":
		return coneBrute(s.A, s.B, s.R[0], s.R[1], p), true
	case "vline": // the union of the rounded cones between consecutive points
		if len(s.Pts) < 2 {
			return 0, false
		}
		m := math.Inf(1)
		for i := 1; i < len(s.Pts); i++ {
			m = math.Min(m, coneBrute(s.Pts[i-1].P, s.Pts[i].P, s.Pts[i-1].R, s.Pts[i].R, p))
		}
		return m, true
	// operators, recursively from the references of the leaves (never through the implementation)
	case "union", "intersect":
		var m float64
		for i, c := range s.Sub {
			v, ok := ref(c, p)
			if !ok {
				return 0, false
			}
			if i == 0 || (s.T == "union" && v < m) || (s.T == "intersect" && v > m) {
				m = v
			}
		}
		return m, len(s.Sub) > 0
	case "subtract":
		a, ok1 := ref(s.Sub[0], p)
		b, ok2 := ref(s.Sub[1], p)
		return math.Max(a, -b), ok1 && ok2
	case "translate":
		return ref(s.Sub[0], p.sub(s.A))
	}
	return 0, false
}

// refTol: relative tolerance of the reference (the cone's is a golden-section search)
func refTol(s Shape) float64 {
	t := 1e-9
	if s.T == "rcone" || s.T == "vline" {
		t = 1e-7
	}
	for _, c := range s.Sub {
		t = math.Max(t, refTol(c))
	}
	return t
}

// operator / translate oracle: the value must be EXACTLY the pointwise combination of the operands' values
func combine(s Shape, p V3) (float64, bool) {
	switch s.T {
	case "union":
		m := build(s.Sub[0])(p.vec())
		for _, c := range s.Sub[1:] {
			m = math.Min(m, build(c)(p.vec()))
		}
		return m, true
	case "intersect":
		m := build(s.Sub[0])(p.vec())
		for _, c := range s.Sub[1:] {
			m = math.Max(m, build(c)(p.vec()))
		}
		return m, true
	case "subtract":
		return math.Max(build(s.Sub[0])(p.vec()), -build(s.Sub[1])(p.vec())), true
	case "translate":
		return build(s.Sub[0])(p.sub(s.A).vec()), true
	}
	return 0, false
}

func scaleOf(s Shape, p V3) float64 {
	m := 1.0
	for _, x := range p {
		m = math.Max(m, math.Abs(x))
	}
	var walk func(Shape)
	walk = func(s Shape) {
		for _, x := range s.A {
			m = math.Max(m, math.Abs(x))
		}
		for _, x := range s.B {
			m = math.Max(m, math.Abs(x))
		}
		for _, x := range s.R {
			m = math.Max(m, math.Abs(x))
		}
		for _, lp := range s.Pts {
			m = math.Max(m, math.Abs(lp.R))
			for _, x := range lp.P {
				m = math.Max(m, math.Abs(x))
			}
		}
		for _, c := range s.Sub {
			walk(c)
		}
	}
	walk(s)
	return m
}

// degenerate parameter regions (reported separately)
func degenerate(s Shape) string {
	switch s.T {
	case "line":
		if s.A == s.B {
			return "line-zero-length"
		}
	case "rcone":
		d := s.B.sub(s.A)
		rr := s.R[0] - s.R[1]
		if d.dot(d) <= rr*rr {
			return "rcone-nested-spheres"
		}
	}
	for _, c := range s.Sub {
		if k := degenerate(c); k != "" {
			return k
		}
	}
	return ""
}

func key(v interface{}) string { b, _ := json.Marshal(v); return string(b) }

type H struct {
	run          *hx.Run
	maxEnclosure float64 // widest exactness enclosure of the run (reported in meta.extra)
}

// call the field under recover
func callField(s Shape, p V3) (v float64, perr string) {
	defer func() {
		if r := recover(); r != nil {
			perr = fmt.Sprint(r)
		}
	}()
	return build(s)(p.vec()), ""
}

func (h *H) addEval(d evalDesc, kind string) { h.addEvalOpt(d, kind, true) }

// addEvalOpt: toCoq=false keeps the case on the harness side (references only)
func (h *H) addEvalOpt(d evalDesc, kind string, toCoq bool) {
	out, perr := callField(d.Shape, d.P)
	deg := degenerate(d.Shape)
	c := hx.Case{Kind: kind, Desc: d, Key: key(d), Nontriv: true, FailKey: deg}
	stale := h.reEvaluate(d, out, perr)
	scale := scaleOf(d.Shape, d.P)
	tol := 1e-9 * scale
	switch {
	case perr != "":
		c.Coq = "CGo"
		c.GoFail = "panic: " + perr
	case math.IsNaN(out) || math.IsInf(out, 0):
		c.Coq = "CGo"
		c.GoFail = fmt.Sprintf("value is %v", out)
	default:
		c.Coq = "CGo"
		if toCoq && coqable(d.Shape) {
			c.Coq = fmt.Sprintf("(CEval %s %s %s %s %s)", hx.CoqBool(d.Exact), coqShape(d.Shape), vq(d.P), fq(out), fq(tol))
		}
		if want, ok := combine(d.Shape, d.P); ok && want != out && !(math.IsNaN(want) && math.IsNaN(out)) {
			c.GoFail = fmt.Sprintf("%s value %v differs from the pointwise combination %v of its operands' values", d.Shape.T, out, want)
		} else if want, ok := ref(d.Shape, d.P); ok {
			// independent reference of the whole tree (operators recursively from the leaves' references)
			if math.Abs(want-out) > refTol(d.Shape)*scale {
				c.GoFail = fmt.Sprintf("%s value %v differs from the reference distance %v", d.Shape.T, out, want)
			}
		}
		if c.GoFail == "" {
			c.GoFail = stale
		}
	}
	if deg != "" {
		h.run.Count("degenerate:" + deg)
		if c.GoFail != "" {
			h.run.Count("degenerate-failing:" + deg)
		}
	}
	h.run.Add(c)
}

// reEvaluate: a field is a pure function of the point — the same closure asked again after it has been asked at
// neighbouring points (one coordinate changed at a time), and a second closure built from the same description, must
// give the very same bits (state carried between calls, sample caches keyed on part of the point, shared scratch data).
func (h *H) reEvaluate(d evalDesc, first float64, perr string) (fail string) {
	if perr != "" || math.IsNaN(first) {
		return ""
	}
	defer func() {
		if r := recover(); r != nil {
			fail = fmt.Sprint("panic on re-evaluation: ", r)
		}
	}()
	f, g := build(d.Shape), build(d.Shape)
	if v := f(d.P.vec()); v != first {
		return fmt.Sprintf("a second field built from the same parameters gives %v at p, the first gave %v", v, first)
	}
	for i := 0; i < 3; i++ {
		q := d.P
		q[i] += 0.375
		vq1 := f(q.vec())
		if v := f(d.P.vec()); v != first {
			return fmt.Sprintf("the field gives %v at p after it was evaluated at %v, and gave %v before (state carried between calls)", v, q, first)
		}
		if v := g(q.vec()); v != vq1 {
			return fmt.Sprintf("the field gives %v at %v right after it was evaluated at p, a fresh field gives %v (state carried between calls)", vq1, q, v)
		}
	}
	return ""
}

func (h *H) addPair(d pairDesc, kind string) {
	fp, e1 := callField(d.Shape, d.P)
	fqv, e2 := callField(d.Shape, d.Q)
	deg := degenerate(d.Shape)
	c := hx.Case{Kind: kind, Desc: d, Key: key(d), Nontriv: d.P != d.Q, FailKey: deg}
	dist := d.P.sub(d.Q).norm()
	switch {
	case e1 != "" || e2 != "":
		c.Coq = "CGo"
		c.GoFail = "panic: " + e1 + e2
	case math.IsNaN(fp) || math.IsNaN(fqv) || math.IsInf(fp, 0) || math.IsInf(fqv, 0):
		c.Coq = "CGo"
		c.GoFail = fmt.Sprintf("values %v, %v", fp, fqv)
	default:
		c.Coq = "CGo"
		if coqable(d.Shape) {
			c.Coq = fmt.Sprintf("(CPair %s %s %s %s %s)", coqShape(d.Shape), vq(d.P), vq(d.Q), fq(fp), fq(fqv))
		}
		if math.Abs(fp-fqv) > dist*(1+1e-9)+1e-12 {
			c.GoFail = fmt.Sprintf("|f p - f q| = %v > |p - q| = %v (ratio %v)", math.Abs(fp-fqv), dist, math.Abs(fp-fqv)/dist)
		}
	}
	if deg != "" {
		h.run.Count("degenerate:" + deg)
		if c.GoFail != "" {
			h.run.Count("degenerate-failing:" + deg)
		}
	}
	h.run.Add(c)
}

// lipBatch samples many pairs harness-side; only offending pairs (at most 2 per batch) become cases.
func (h *H) lipBatch(r *hx.Rng, s Shape, n int) {
	f := build(s)
	worst := 0.0
	reported := 0
	for i := 0; i < n; i++ {
		p := genPointNear(r, s)
		q := genNeighbour(r, s, p)
		fp, fqv := f(p.vec()), f(q.vec())
		dist := p.sub(q).norm()
		if dist == 0 {
			continue
		}
		ratio := math.Abs(fp-fqv) / dist
		bad := math.IsNaN(fp) || math.IsNaN(fqv) || math.Abs(fp-fqv) > dist*(1+1e-9)+1e-12
		if !bad && ratio > worst {
			worst = ratio
		}
		if bad && reported < 2 {
			reported++
			h.addPair(pairDesc{s, p, q}, "lip")
		}
	}
	h.run.Count("lip-pairs-sampled:" + s.T)
	k := "max_lipschitz_ratio:" + s.T
	if old, ok := h.run.Extra[k].(float64); !ok || worst > old {
		h.run.Extra[k] = worst
	}
	if n0, ok := h.run.Extra["lip_pairs"].(int); ok {
		h.run.Extra["lip_pairs"] = n0 + n
	} else {
		h.run.Extra["lip_pairs"] = n
	}
}

func mixSeed(z uint64) uint64 {
	z = (z ^ (z >> 30)) * 0xBF58476D1CE4E5B9
	z = (z ^ (z >> 27)) * 0x94D049BB133111EB
	z ^= z >> 31
	z = (z + 0x632BE59BD9B4E019) * 0xD6E8FEB86659FD93
	return z ^ (z >> 32)
}

// panicDesc: Union / Intersect of N fields, VarryingThicknessLine of N points — does the constructor panic?
type panicDesc struct {
	Op string `json:"op"` // union intersect vline
	N  int    `json:"n"`
}

func (h *H) addPanics(d panicDesc) {
	c := hx.Case{Kind: "panics", Desc: d, Key: key(d), Nontriv: true}
	panicked, msg := false, ""
	func() {
		defer func() {
			if r := recover(); r != nil {
				panicked, msg = true, fmt.Sprint(r)
			}
		}()
		var f sample.Vec3ToFloat
		switch d.Op {
		case "union", "intersect":
			fs := make([]sample.Vec3ToFloat, d.N)
			for i := range fs {
				fs[i] = sdf.Sphere(vector3.New(float64(i), 0, 0), 1)
			}
			if d.Op == "union" {
				f = sdf.Union(fs...)
			} else {
				f = sdf.Intersect(fs...)
			}
		default:
			lps := make([]sdf.LinePoint, d.N)
			for i := range lps {
				lps[i] = sdf.LinePoint{Point: vector3.New(float64(i), 0, 0), Radius: 1}
			}
			f = sdf.VarryingThicknessLine(lps)
		}
		// a constructor that returned must give a usable field
		if v := f(vector3.New(0.25, 0, 0)); math.IsNaN(v) {
			msg = "field evaluates to NaN"
		}
	}()
	op := map[string]int{"union": 0, "intersect": 1, "vline": 2}[d.Op]
	c.Coq = fmt.Sprintf("(CPanics %d %d %s)", op, d.N, hx.CoqBool(panicked))
	if !panicked && msg != "" {
		c.GoFail = msg
	}
	if panicked && strings.Contains(msg, "runtime error") {
		c.GoFail = "crash instead of the declared panic: " + msg
	}
	h.run.Count(fmt.Sprintf("panics:%s:n=%d:%v", d.Op, d.N, panicked))
	h.run.Add(c)
}

// wideRotations: see the call site
func (h *H) wideRotations(r *hx.Rng, n int, op string) {
	sub := make([]Shape, n)
	for i := range sub {
		sub[i] = genPrimitive(r, hx.Pick(r, primitives))
	}
	p := genPointNear(r, Shape{T: op, Sub: []Shape{sub[r.Intn(n)]}})
	dec := 0
	best, _ := ref(sub[0], p)
	for i := 1; i < n; i++ {
		v, _ := ref(sub[i], p)
		if (op == "union" && v < best) || (op == "intersect" && v > best) {
			best, dec = v, i
		}
	}
	for pos := 0; pos < n; pos++ {
		rot := make([]Shape, n)
		for i := range rot {
			rot[(i+pos-dec+n)%n] = sub[i]
		}
		h.run.Count(fmt.Sprintf("wide:%s:n=%d", op, n))
		h.addEvalOpt(evalDesc{Shape{T: op, Sub: rot}, p, false}, "eval", n <= 14 && (pos == 0 || pos == n-1))
	}
}

func main() {
	run := hx.ParseFlags("C19", "Check.C19")
	h := &H{run: run}
	for _, in := range run.Inputs() {
		switch in.Kind {
		case "eval", "eval-exact", "degenerate-eval":
			var d evalDesc
			if json.Unmarshal(in.Raw, &d) == nil {
				h.addEval(d, in.Kind)
			}
		case "lip", "degenerate-lip":
			var d pairDesc
			if json.Unmarshal(in.Raw, &d) == nil {
				h.addPair(d, in.Kind)
			}
		case "exact":
			var d evalDesc
			if json.Unmarshal(in.Raw, &d) == nil {
				h.addExact(d)
			}
		case "scaled":
			var d scaledDesc
			if json.Unmarshal(in.Raw, &d) == nil {
				h.addScaled(d)
			}
		case "panics":
			var d panicDesc
			if json.Unmarshal(in.Raw, &d) == nil {
				h.addPanics(d)
			}
		case "lip-scaled":
			var d scaledPairDesc
			if json.Unmarshal(in.Raw, &d) == nil {
				h.addScaledPair(d)
			}
		case "seq":
			var d seqDesc
			if json.Unmarshal(in.Raw, &d) == nil {
				h.addSeq(d, true)
			}
		default:
			fmt.Fprintln(os.Stderr, "unknown case kind", in.Kind)
		}
	}
	if run.Replay != "" {
		run.Finish()
		return
	}
	// hx.NewRng(seed) starts the one SplitMix orbit at position seed: the streams of nearby seeds are shifted copies of
	// each other and merge as soon as they align at a case boundary.  Scatter the seeds over the orbit first.
	r := hx.NewRng(mixSeed(run.Seed))
	// fixed corner cases + the exact stream
	for _, d := range exactStream() {
		h.addEval(d, "eval-exact")
	}
	for _, d := range cornerEvals() {
		h.addEval(d, "eval")
	}
	n := run.N
	// float stream: primitives and composites
	for i := 0; i < n; i++ {
		s := genShape(r, 2)
		p := genPointNear(r, s)
		h.addEval(evalDesc{s, p, false}, "eval")
	}
	// Lipschitz: explicit pairs (Coq + harness) and dense harness-side batches
	for i := 0; i < n/2; i++ {
		s := genShape(r, 1)
		p := genPointNear(r, s)
		q := genNeighbour(r, s, p)
		h.addPair(pairDesc{s, p, q}, "lip")
	}
	batch := 4000
	if run.Tier == "thorough" {
		batch = 40000
	}
	for _, t := range primitives {
		for k := 0; k < 6; k++ {
			h.lipBatch(r, genPrimitive(r, t), batch)
		}
	}
	for k := 0; k < 6; k++ {
		h.lipBatch(r, genShape(r, 2), batch/4)
	}
	// exactness against brute-force nearest surface point
	for i := 0; i < n/6+8; i++ {
		t := hx.Pick(r, []string{"sphere", "box", "line", "plane"})
		s := genPrimitive(r, t)
		h.addExact(evalDesc{s, genPointNear(r, s), false})
	}
	// region coverage: every Voronoi region of every primitive, pairs straddling every region boundary (region.go)
	reps := 1
	if run.Tier == "thorough" {
		reps = 8
	}
	h.regionStream(r, reps)
	// long operator chains (3..10 steps), pure translate chains of many tiny steps (up to 60), wide n-ary operators
	for i := 0; i < n/10+6; i++ {
		var s Shape
		switch i % 3 {
		case 0:
			s = genChain(r, r.Range(3, 10), false)
		case 1:
			s = genChain(r, hx.Pick(r, []int{2, 5, 20, 60}), true)
		default:
			s = genWide(r)
		}
		h.run.Count("chain:" + []string{"mixed", "translate", "wide"}[i%3])
		p := genPointNear(r, s)
		h.addEval(evalDesc{s, p, false}, "eval")
		sc := hx.Pick(r, regionScales)
		h.addScaled(scaledDesc{Shape: s, K: sc.K, S: sc.S, P: p})
		if i%2 == 0 {
			h.addPair(pairDesc{s, p, genNeighbour(r, s, p)}, "lip")
		}
	}
	// wide n-ary operators, every operand position decisive in turn: the operand that decides min / max at p (by the
	// references) is rotated through every index 0..n-1 of the operand list (n up to 33: past any arity special
	// case or chunk size); two rotations per shape also go through the Coq model
	wides := []int{r.Range(9, 14), 17}
	if run.Tier == "thorough" {
		wides = []int{6, 8, 9, 10, 12, 14, 16, 17, 24, 32, 33, 40}
	} else if r.Bool() {
		wides = append(wides, 33)
	} else {
		wides = append(wides, r.Range(4, 8))
	}
	for _, nOps := range wides {
		for _, op := range []string{"union", "intersect"} {
			h.wideRotations(r, nOps, op)
		}
	}
	// constructors on too few operands: the declared panics, and nothing else panics
	for _, op := range []string{"union", "intersect", "vline"} {
		for n := 0; n <= 3; n++ {
			h.addPanics(panicDesc{op, n})
		}
	}
	// sdf.VarryingThicknessLine: the union of the rounded cones between consecutive points
	for _, d := range fixedVLines() {
		h.addEval(d, "eval")
	}
	for i := 0; i < n/8+6; i++ {
		s := genVLine(r)
		p := genPointNear(r, s)
		h.run.Count(fmt.Sprintf("vline:points=%d", len(s.Pts)))
		h.addEval(evalDesc{s, p, false}, "eval")
		if i%3 == 0 {
			h.addPair(pairDesc{s, p, genNeighbour(r, s, p)}, "lip")
		}
		if i%3 == 1 {
			sc := hx.Pick(r, regionScales)
			h.addScaled(scaledDesc{Shape: s, K: sc.K, S: sc.S, P: genPointNear(r, s)})
		}
	}
	// scale dimension: every shape stream again with all lengths and the point multiplied by 2^k, k in -40..20
	for _, d := range fixedScaled(r) {
		h.addScaled(d)
	}
	for i := 0; i < n/3; i++ {
		s := genShape(r, 1)
		h.addScaled(scaledDesc{Shape: s, K: r.Range(-40, 20), P: genPointNear(r, s)})
	}
	// constructor side effects / aliasing: operator constructors on one shared caller-owned slice, in every order
	for i, d := range fixedSeqs() {
		h.addSeq(d, i%4 == 0)
	}
	for i := 0; i < n/10+4; i++ {
		shapes, order, off := genSeq(r)
		u := Shape{T: "union", Sub: shapes}
		for k := 0; k < 5; k++ {
			var p V3
			if k < 2 { // lattice around the first operand
				c := shapes[0].A
				p = c.add(V3{float64(r.Range(-4, 4)) / 4, float64(r.Range(-4, 4)) / 4, float64(r.Range(-4, 4)) / 4})
			} else {
				p = genPointNear(r, Shape{T: hx.Pick(r, []string{"union", "intersect"}), Sub: u.Sub})
			}
			h.addSeq(seqDesc{shapes, order, off, p}, k == 2)
		}
	}
	// degenerate parameter regions: separate streams
	for i := 0; i < 6; i++ {
		a := genPos(r)
		s := Shape{T: "line", A: a, B: a, R: []float64{genSize(r)}}
		h.addEval(evalDesc{s, genPointNear(r, s), false}, "degenerate-eval")
	}
	for i := 0; i < 48; i++ {
		s := genNestedCone(r)
		p := genPointNear(r, s)
		if i%2 == 0 {
			h.addEval(evalDesc{s, p, false}, "degenerate-eval")
		} else {
			h.addPair(pairDesc{s, p, genNeighbour(r, s, p)}, "degenerate-lip")
		}
	}
	run.Finish()
}
