package main

import (
	"fmt"
	"math"

	"verif/harness/hx"
)

// Scale dimension.  A signed distance function is positively homogeneous: scaling every length parameter of the
// shape and the sample point by s > 0 scales the value by s (f_{sS}(s p) = s f_S(p); theorems *_homogeneous).  A
// scaled case keeps the UNSCALED shape and point plus the exponent k; the harness multiplies by s = 2^k (exact in
// float64: every operation of the implementations is homogeneous, so on a correct implementation even the rounding
// is identical) and judges the value RELATIVE to s:
//
//	(a) against s * f_S(p) of the same implementation at scale 1 (metamorphic, 1e-12 relative),
//	(b) against the independent closed-form reference evaluated at the scaled parameters (1e-9 relative),
//	(c) in Coq: generated model over Q and closed-form membership at the scaled parameters (k >= -24).
type scaledDesc struct {
	Shape Shape   `json:"shape"`       // at scale 1
	K     int     `json:"k"`           // scale = 2^k ...
	S     float64 `json:"s,omitempty"` // ... unless S != 0: scale = S (decimal micro scales 1e-9 ...: the scaling is
	//                                    then not exact, homogeneity is judged at 1e-9 instead of 1e-12)
	P V3 `json:"p"` // at scale 1
}

// scaledPairDesc: a Lipschitz pair at a micro / macro scale (judged by the harness, slack relative to the scale)
type scaledPairDesc struct {
	Shape Shape   `json:"shape"`
	K     int     `json:"k"`
	S     float64 `json:"s,omitempty"`
	P     V3      `json:"p"`
	Q     V3      `json:"q"`
}

func scaleFactor(k int, s float64) (sc float64, homTol float64, label string) {
	if s != 0 {
		return s, 1e-9, fmt.Sprintf("scaled:decimal:1e%d", int(math.Round(math.Log10(s))))
	}
	return math.Ldexp(1, k), 1e-12, fmt.Sprintf("scaled:2^[%d..%d]", (k+40)/10*10-40, (k+40)/10*10-31)
}

// scaleShape multiplies every length of the shape by f (directions — the plane normal — are not lengths).
func scaleShape(s Shape, f float64) Shape {
	out := Shape{T: s.T, A: s.A.mul(f), B: s.B.mul(f)}
	if s.T == "plane" {
		out.B = s.B
	}
	for _, r := range s.R {
		out.R = append(out.R, r*f)
	}
	for _, c := range s.Sub {
		out.Sub = append(out.Sub, scaleShape(c, f))
	}
	for _, lp := range s.Pts {
		out.Pts = append(out.Pts, LP{lp.P.mul(f), lp.R * f})
	}
	return out
}

func (h *H) addScaled(d scaledDesc) {
	sc, homTol, label := scaleFactor(d.K, d.S)
	ss, sp := scaleShape(d.Shape, sc), d.P.mul(sc)
	c := hx.Case{Kind: "scaled", Desc: d, Key: key(d), Nontriv: sc != 1, Coq: "CGo", FailKey: degenerate(d.Shape)}
	base, e0 := callField(d.Shape, d.P)
	got, e1 := callField(ss, sp)
	scale0 := scaleOf(d.Shape, d.P)
	switch {
	case e0 != "" || e1 != "":
		c.GoFail = "panic: " + e0 + e1
	case math.IsNaN(got) || math.IsInf(got, 0) || math.IsNaN(base):
		c.GoFail = fmt.Sprintf("value %v at scale %v (%v at scale 1)", got, sc, base)
	default:
		if math.Abs(got-sc*base) > homTol*sc*scale0 {
			c.GoFail = fmt.Sprintf("%s not homogeneous: at scale %v the value is %v = scale * %v, but the value at scale 1 is %v",
				d.Shape.T, sc, got, got/sc, base)
		} else if want, ok := combine(ss, sp); ok && want != got {
			c.GoFail = fmt.Sprintf("%s value %v at scale %v differs from the pointwise combination %v of its operands' values", d.Shape.T, got, sc, want)
		} else if want, ok := ref(ss, sp); ok {
			rt := refTol(d.Shape) * sc * scale0
			if math.Abs(want-got) > rt {
				c.GoFail = fmt.Sprintf("%s value %v at scale %v differs from the reference distance %v (relative to the scale: %v vs %v)",
					d.Shape.T, got, sc, want, got/sc, want/sc)
			}
		}
		if sc >= 5e-8 && coqable(d.Shape) {
			c.Coq = fmt.Sprintf("(CEval false %s %s %s %s)", coqShape(ss), vq(sp), fq(got), fq(1e-9*sc*scale0))
		}
	}
	h.run.Count(label)
	h.run.Add(c)
}

// addScaledPair: |f p - f q| <= |p - q| at the scale, slack relative to the scale
func (h *H) addScaledPair(d scaledPairDesc) {
	sc, _, label := scaleFactor(d.K, d.S)
	ss, sp, sq := scaleShape(d.Shape, sc), d.P.mul(sc), d.Q.mul(sc)
	c := hx.Case{Kind: "lip-scaled", Desc: d, Key: key(d), Nontriv: d.P != d.Q, Coq: "CGo", FailKey: degenerate(d.Shape)}
	fp, e1 := callField(ss, sp)
	fqv, e2 := callField(ss, sq)
	dist := sp.sub(sq).norm()
	scale := sc * scaleOf(d.Shape, d.P)
	switch {
	case e1 != "" || e2 != "":
		c.GoFail = "panic: " + e1 + e2
	case math.IsNaN(fp) || math.IsNaN(fqv) || math.IsInf(fp, 0) || math.IsInf(fqv, 0):
		c.GoFail = fmt.Sprintf("values %v, %v at scale %v", fp, fqv, sc)
	case math.Abs(fp-fqv) > dist*(1+1e-9)+1e-12*scale:
		c.GoFail = fmt.Sprintf("at scale %v: |f p - f q| = %v > |p - q| = %v (ratio %v)", sc, math.Abs(fp-fqv), dist, math.Abs(fp-fqv)/dist)
	}
	h.run.Count("lip-" + label)
	h.run.Add(c)
}

// every primitive and one operator tree at fixed extreme and intermediate scales
func fixedScaled(r *hx.Rng) []scaledDesc {
	var out []scaledDesc
	for _, t := range primitives {
		s := genPrimitive(r, t)
		for _, k := range []int{-40, -30, -20, -12, -10, -8, 10, 20} {
			out = append(out, scaledDesc{Shape: s, K: k, P: genPointNear(r, s)})
		}
	}
	// every operator as the root (Translate with an ordinary offset: at the micro scales it becomes a tiny one)
	for _, t := range []string{"union", "intersect", "subtract", "translate"} {
		a, b := genPrimitive(r, hx.Pick(r, primitives)), genPrimitive(r, hx.Pick(r, primitives))
		s := Shape{T: t, Sub: []Shape{a, b}}
		if t == "translate" {
			s = Shape{T: t, A: genPos(r), Sub: []Shape{a}}
		}
		for _, sc := range regionScales {
			out = append(out, scaledDesc{Shape: s, K: sc.K, S: sc.S, P: genPointNear(r, s)})
		}
	}
	return out
}
