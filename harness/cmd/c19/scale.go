package main

import (
	"fmt"
	"math"

	"verif/harness/hx"
)

// Scale dimension.  A signed distance function is positively homogeneous: scaling every length parameter of the
// shape and the sample point by s > 0 scales the value by s (f_{sS}(s p) = s f_S(p); theorems *_homogeneous).  A
// scaled case keeps the UNSCALED shape and point plus the exponent k; the harness multiplies by s = 2^k (exact in
// float64: every operation of the implementations is homogeneous, so on a correct implementation even the rounding
// is identical) and judges the value RELATIVE to s:
//
//	(a) against s * f_S(p) of the same implementation at scale 1 (metamorphic, 1e-12 relative),
//	(b) against the independent closed-form reference evaluated at the scaled parameters (1e-9 relative),
//	(c) in Coq: generated model over Q and closed-form membership at the scaled parameters (k >= -24).
type scaledDesc struct {
	Shape Shape `json:"shape"` // at scale 1
	K     int   `json:"k"`     // scale = 2^k
	P     V3    `json:"p"`     // at scale 1
}

// scaleShape multiplies every length of the shape by f (directions — the plane normal — are not lengths).
func scaleShape(s Shape, f float64) Shape {
	out := Shape{T: s.T, A: s.A.mul(f), B: s.B.mul(f)}
	if s.T == "plane" {
		out.B = s.B
	}
	for _, r := range s.R {
		out.R = append(out.R, r*f)
	}
	for _, c := range s.Sub {
		out.Sub = append(out.Sub, scaleShape(c, f))
	}
	return out
}

func (h *H) addScaled(d scaledDesc) {
	sc := math.Ldexp(1, d.K)
	ss, sp := scaleShape(d.Shape, sc), d.P.mul(sc)
	c := hx.Case{Kind: "scaled", Desc: d, Key: key(d), Nontriv: d.K != 0, Coq: "CGo", FailKey: degenerate(d.Shape)}
	base, e0 := callField(d.Shape, d.P)
	got, e1 := callField(ss, sp)
	scale0 := scaleOf(d.Shape, d.P)
	switch {
	case e0 != "" || e1 != "":
		c.GoFail = "panic: " + e0 + e1
	case math.IsNaN(got) || math.IsInf(got, 0) || math.IsNaN(base):
		c.GoFail = fmt.Sprintf("value %v at scale 2^%d (%v at scale 1)", got, d.K, base)
	default:
		if math.Abs(got-sc*base) > 1e-12*sc*scale0 {
			c.GoFail = fmt.Sprintf("%s not homogeneous: at scale 2^%d the value is %v = 2^%d * %v, but the value at scale 1 is %v",
				d.Shape.T, d.K, got, d.K, got/sc, base)
		} else if want, ok := combine(ss, sp); ok {
			if want != got {
				c.GoFail = fmt.Sprintf("%s value %v at scale 2^%d differs from the pointwise combination %v of its operands' values", d.Shape.T, got, d.K, want)
			}
		} else if want, ok := ref(ss, sp); ok {
			rt := 1e-9 * sc * scale0
			if d.Shape.T == "rcone" {
				rt = 1e-7 * sc * scale0
			}
			if math.Abs(want-got) > rt {
				c.GoFail = fmt.Sprintf("%s value %v at scale 2^%d differs from the reference distance %v (relative to the scale: %v vs %v)",
					d.Shape.T, got, d.K, want, got/sc, want/sc)
			}
		}
		if d.K >= -24 {
			c.Coq = fmt.Sprintf("(CEval false %s %s %s %s)", coqShape(ss), vq(sp), fq(got), fq(1e-9*sc*scale0))
		}
	}
	h.run.Count(fmt.Sprintf("scaled:2^[%d..%d]", (d.K+40)/10*10-40, (d.K+40)/10*10-31))
	h.run.Add(c)
}

// every primitive and one operator tree at fixed extreme and intermediate scales
func fixedScaled(r *hx.Rng) []scaledDesc {
	var out []scaledDesc
	for _, t := range primitives {
		s := genPrimitive(r, t)
		for _, k := range []int{-40, -30, -20, -12, -10, -8, 10, 20} {
			out = append(out, scaledDesc{s, k, genPointNear(r, s)})
		}
	}
	return out
}
