package main

import (
	"math"

	"verif/harness/hx"
)

// Region coverage.  Every primitive's formula is a case split over the Voronoi regions of its surface features
// (box: 3 interior cells by nearest face pair, 3 face regions, 3 edge-direction regions, the corner region; cylinder:
// interior by nearest side/cap, side, cap, rim, axis; capsule and rounded cone: beyond cap a, lateral, beyond cap b;
// sphere: inside/outside/centre; plane: below/above/on).  A wrong fast path for ONE of these regions is invisible to
// every point of the others, so this stream constructs, for every primitive type and every region, points that lie in
// the region BY CONSTRUCTION (local coordinates = signed distances to the region boundaries, magnitudes log-uniform
// from 1e-9 to a few sizes), and for every region boundary a pair of points that straddles it (2*eps apart,
// eps = 1e-9 .. 1e-3 sizes) for the Lipschitz clause.  Each point / pair is checked at scale 1 (Coq + references) and at
// a micro or macro scale (stream `scaled` / `lip-scaled`, everything relative to the scale).

// logU: log-uniform in [lo, hi]
func logU(r *hx.Rng, lo, hi float64) float64 {
	return lo * math.Pow(hi/lo, r.Float())
}

func rsign(r *hx.Rng) float64 { return float64(1 - 2*r.Intn(2)) }

// outDist: how far outside a feature (relative to size sz): mostly moderate, sometimes tiny
func outDist(r *hx.Rng, sz float64) float64 {
	switch r.Intn(4) {
	case 0:
		return sz * logU(r, 1e-9, 1e-3)
	case 1:
		return sz * logU(r, 1e-3, 0.3)
	default:
		return sz * (0.05 + r.Float()*2)
	}
}

// inDepth: depth below a feature, in (0, max)
func inDepth(r *hx.Rng, max float64) float64 {
	if r.Chance(1, 3) {
		return max * logU(r, 1e-9, 1e-2)
	}
	return max * (0.02 + 0.96*r.Float())
}

var axisName = []string{"x", "y", "z"}

// regions lists the region labels of a primitive type.
func regions(t string) []string {
	switch t {
	case "sphere":
		return []string{"in", "out", "centre"}
	case "plane":
		return []string{"below", "above", "on"}
	case "box", "rbox":
		return []string{"in:x", "in:y", "in:z", "face:x", "face:y", "face:z", "edge:xy", "edge:xz", "edge:yz", "corner", "centre"}
	case "rcyl":
		return []string{"in:side", "in:cap", "side", "cap", "rim", "axis:in", "axis:out"}
	case "line":
		return []string{"capA:in", "capA:out", "side:in", "side:out", "capB:in", "capB:out", "axis", "beyond-axis", "side:near-end", "side:near-end"}
	case "rcone":
		return []string{"capA:in", "capA:out", "lateral:in", "lateral:out", "capB:in", "capB:out", "axis", "beyond-axis", "lateral:near-end", "lateral:near-end"}
	}
	return nil
}

// boxPoint: local signed face distances q (q_i = |p_i - c_i| - hb_i) -> point
func boxPoint(r *hx.Rng, s Shape, q V3) V3 {
	var p V3
	for i := 0; i < 3; i++ {
		p[i] = s.A[i] + rsign(r)*(s.B[i]/2+q[i])
	}
	return p
}

// axial frame of a line / cone: point at axial coordinate t (from a, along b-a) and radial distance rho
func axialPoint(r *hx.Rng, s Shape, t, rho float64) V3 {
	d := s.B.sub(s.A)
	l := d.norm()
	e := d.mul(1 / l)
	u, w := frame(e)
	phi := r.Float() * 2 * math.Pi
	rad := u.mul(math.Cos(phi)).add(w.mul(math.Sin(phi)))
	return s.A.add(e.mul(t)).add(rad.mul(rho))
}

// coneShift: the lateral region of the rounded cone is 0 <= t - rho*k <= l with k = rr / sqrt(l^2 - rr^2)
func coneShift(s Shape) float64 {
	if s.T != "rcone" {
		return 0
	}
	d := s.B.sub(s.A)
	l2 := d.dot(d)
	rr := s.R[0] - s.R[1]
	if a2 := l2 - rr*rr; a2 > 0 {
		return rr / math.Sqrt(a2)
	}
	return 0
}

// radius of the capsule / cone surface at axial fraction s in [0,1] (only to place points inside / outside)
func axialRadius(s Shape, frac float64) float64 {
	if s.T == "rcone" {
		return s.R[0] + frac*(s.R[1]-s.R[0])
	}
	return s.R[0]
}

// genInRegion constructs a point of the named region of primitive s.
func genInRegion(r *hx.Rng, s Shape, label string) V3 {
	switch s.T {
	case "sphere":
		switch label {
		case "centre":
			return s.A
		case "in":
			return s.A.add(genUnit(r).mul(s.R[0] - inDepth(r, s.R[0])))
		}
		return s.A.add(genUnit(r).mul(s.R[0] + outDist(r, s.R[0])))
	case "plane":
		n := s.B
		u, w := frame(n)
		base := s.A.sub(n.mul(s.R[0])).add(u.mul(r.Float()*4 - 2)).add(w.mul(r.Float()*4 - 2))
		switch label {
		case "on":
			return base
		case "below":
			return base.sub(n.mul(outDist(r, 1)))
		}
		return base.add(n.mul(outDist(r, 1)))
	case "box", "rbox":
		hb := s.B.mul(0.5)
		minHb := math.Min(hb[0], math.Min(hb[1], hb[2]))
		var q V3
		switch label[:2] {
		case "ce":
			return s.A
		case "in": // nearest face pair = the named axis: its depth is the smallest
			ax := int(label[3] - 'x')
			d0 := inDepth(r, minHb)
			for i := 0; i < 3; i++ {
				if i == ax {
					q[i] = -d0
				} else {
					q[i] = -(d0 + (hb[i]-d0)*r.Float())
				}
			}
		default: // the named axes are outside, the others inside
			out := map[byte]bool{}
			switch label[:2] {
			case "fa", "ed":
				for _, ch := range []byte(label[5:]) {
					out[ch] = true
				}
			case "co":
				out['x'], out['y'], out['z'] = true, true, true
			}
			for i := 0; i < 3; i++ {
				if out[byte('x'+i)] {
					q[i] = outDist(r, hb[i])
				} else {
					q[i] = -inDepth(r, hb[i])
				}
			}
		}
		return boxPoint(r, s, q)
	case "rcyl":
		core := 2*s.R[0] - s.R[1]
		bh := s.R[2]
		var dx, dy float64
		switch label {
		case "in:side": // inside the core, nearer to the lateral surface
			dx = -inDepth(r, math.Min(core, bh))
			dy = dx - (bh+dx)*r.Float()
		case "in:cap":
			dy = -inDepth(r, math.Min(core, bh))
			dx = dy - (core+dy)*r.Float()
		case "side":
			dx, dy = outDist(r, core+s.R[1]), -inDepth(r, bh)
		case "cap":
			dx, dy = -inDepth(r, core), outDist(r, bh+s.R[1])
		case "rim":
			dx, dy = outDist(r, core+s.R[1]), outDist(r, bh+s.R[1])
		case "axis:in":
			dx, dy = -core, -inDepth(r, bh)
		case "axis:out":
			dx, dy = -core, outDist(r, bh+s.R[1])
		}
		phi := r.Float() * 2 * math.Pi
		rho := math.Max(core+dx, 0)
		return s.A.add(V3{rho * math.Cos(phi), rsign(r) * (bh + dy), rho * math.Sin(phi)})
	case "line", "rcone":
		l := s.B.sub(s.A).norm()
		k := coneShift(s)
		var sl, rho float64 // sl = t - rho*k: < 0 beyond cap a, in [0,l] lateral, > l beyond cap b
		in := len(label) > 3 && label[len(label)-3:] == ":in"
		switch {
		case label == "axis":
			return axialPoint(r, s, r.Float()*l, 0)
		case label == "beyond-axis":
			if r.Bool() {
				return axialPoint(r, s, -outDist(r, l), 0)
			}
			return axialPoint(r, s, l+outDist(r, l), 0)
		case label[:4] == "capA":
			ra := axialRadius(s, 0)
			dist := ra + outDist(r, ra)
			if in {
				dist = ra - inDepth(r, ra)
			}
			// a point at distance `dist` from a, in the cone of directions with sl < 0
			for try := 0; try < 200; try++ {
				th := math.Pi/2 + r.Float()*math.Pi/2 // angle from the axis
				if r.Chance(1, 4) {
					th = math.Pi - logU(r, 1e-9, 1e-2)
				}
				t, rh := dist*math.Cos(th), dist*math.Sin(th)
				if t-rh*k < 0 {
					return axialPoint(r, s, t, rh)
				}
			}
			return axialPoint(r, s, -dist, 0)
		case label[:4] == "capB":
			rb := axialRadius(s, 1)
			dist := rb + outDist(r, rb)
			if in {
				dist = rb - inDepth(r, rb)
			}
			for try := 0; try < 200; try++ {
				th := r.Float() * math.Pi / 2
				if r.Chance(1, 4) {
					th = logU(r, 1e-9, 1e-2)
				}
				t, rh := l+dist*math.Cos(th), dist*math.Sin(th)
				if t-rh*k > l {
					return axialPoint(r, s, t, rh)
				}
			}
			return axialPoint(r, s, l+dist, 0)
		default: // side / lateral
			sl = l * r.Float()
			nearEnd := len(label) > 8 && label[len(label)-8:] == "near-end"
			if nearEnd || r.Chance(1, 4) {
				sl = hx.Pick(r, []float64{0, l}) + rsign(r)*l*logU(r, 1e-9, 1e-2)
				sl = math.Min(math.Max(sl, 0), l)
			}
			// the surface point seen from c(sl/l) under the lateral angle is at distance r(s) from the axis point
			rs := axialRadius(s, sl/l)
			d := rs + outDist(r, rs)
			if in {
				d = rs - inDepth(r, rs)
			}
			if nearEnd { // just inside the lateral region next to a cap, from almost on the axis to outside
				d = hx.Pick(r, []float64{rs * logU(r, 1e-9, 1e-3), rs * logU(r, 1e-3, 0.5), rs * (0.5 + r.Float())})
			}
			// direction from c(s): (cos phi) e + (sin phi) radial with cos phi = rr / l
			cosp := 0.0
			if s.T == "rcone" {
				cosp = (s.R[0] - s.R[1]) / l
			}
			sinp := math.Sqrt(math.Max(1-cosp*cosp, 0))
			rho = d * sinp
			return axialPoint(r, s, sl+d*cosp, rho)
		}
	}
	return s.A
}

// straddle returns a pair of points 2*eps apart on either side of one region boundary of primitive s, and the name of
// the boundary.  ok=false when the type has no internal boundary (sphere, plane).
func straddle(r *hx.Rng, s Shape) (p, q V3, name string, ok bool) {
	switch s.T {
	case "box", "rbox":
		hb := s.B.mul(0.5)
		minHb := math.Min(hb[0], math.Min(hb[1], hb[2]))
		eps := minHb * hx.Pick(r, []float64{1e-9, 1e-7, 1e-5, 1e-3})
		ax := r.Intn(3)
		var q1, q2 V3
		if r.Chance(1, 3) {
			// interior bisector: the depths of two axes cross
			bx := (ax + 1 + r.Intn(2)) % 3
			d0 := inDepth(r, minHb*0.9) + eps
			for i := 0; i < 3; i++ {
				v := -(d0 + eps + (hb[i]-d0-eps)*r.Float())
				q1[i], q2[i] = v, v
			}
			q1[ax], q1[bx] = -d0+eps, -d0
			q2[ax], q2[bx] = -d0-eps, -d0
			name = "box:in:" + axisName[ax] + "|" + axisName[bx]
		} else {
			// the face plane of axis ax, extended: the other two axes are inside or outside at random
			nOut := 0
			for i := 0; i < 3; i++ {
				if i == ax {
					continue
				}
				v := -inDepth(r, hb[i])
				if r.Bool() {
					v = outDist(r, hb[i])
					nOut++
				}
				q1[i], q2[i] = v, v
			}
			q1[ax], q2[ax] = eps, -eps
			name = []string{"box:in|face", "box:face|edge", "box:edge|corner"}[nOut]
		}
		// the same signs for both points
		var sg V3
		for i := range sg {
			sg[i] = rsign(r)
		}
		for i := 0; i < 3; i++ {
			p[i] = s.A[i] + sg[i]*(hb[i]+q1[i])
			q[i] = s.A[i] + sg[i]*(hb[i]+q2[i])
		}
		return p, q, name, true
	case "rcyl":
		core := 2*s.R[0] - s.R[1]
		bh := s.R[2]
		eps := math.Min(core, bh) * hx.Pick(r, []float64{1e-9, 1e-7, 1e-5, 1e-3})
		var dx1, dy1, dx2, dy2 float64
		switch r.Intn(3) {
		case 0: // radial boundary rho = core; axial inside or outside
			dy1 = -inDepth(r, bh)
			name = "rcyl:in|side"
			if r.Bool() {
				dy1 = outDist(r, bh)
				name = "rcyl:cap|rim"
			}
			dy2 = dy1
			dx1, dx2 = eps, -eps
		case 1: // axial boundary |y| = bh
			dx1 = -inDepth(r, core)
			name = "rcyl:in|cap"
			if r.Bool() {
				dx1 = outDist(r, core)
				name = "rcyl:side|rim"
			}
			dx2 = dx1
			dy1, dy2 = eps, -eps
		default: // interior bisector dx = dy
			d0 := inDepth(r, math.Min(core, bh)*0.9) + eps
			dx1, dy1 = -d0+eps, -d0
			dx2, dy2 = -d0-eps, -d0
			name = "rcyl:in:side|cap"
		}
		phi := r.Float() * 2 * math.Pi
		sg := rsign(r)
		mk := func(dx, dy float64) V3 {
			rho := math.Max(core+dx, 0)
			return s.A.add(V3{rho * math.Cos(phi), sg * (bh + dy), rho * math.Sin(phi)})
		}
		return mk(dx1, dy1), mk(dx2, dy2), name, true
	case "line", "rcone":
		d := s.B.sub(s.A)
		l := d.norm()
		if l == 0 {
			return p, q, "", false
		}
		k := coneShift(s)
		eps := l * hx.Pick(r, []float64{1e-9, 1e-7, 1e-5, 1e-3})
		base := 0.0
		name = s.T + ":capA|side"
		if r.Bool() {
			base = l
			name = s.T + ":side|capB"
		}
		rho := hx.Pick(r, []float64{0, 1e-9, 1e-3, 0.1, 0.5, 1, 2}) * (0.5 + r.Float()) * math.Max(s.R[0], s.R[len(s.R)-1])
		e := d.mul(1 / l)
		u, w := frame(e)
		phi := r.Float() * 2 * math.Pi
		rad := u.mul(math.Cos(phi)).add(w.mul(math.Sin(phi)))
		mk := func(t float64) V3 { return s.A.add(e.mul(t)).add(rad.mul(rho)) }
		return mk(base + rho*k + eps), mk(base + rho*k - eps), name, true
	}
	return p, q, "", false
}

// scales of the micro / macro dimension: exact powers of two and decimal micro scales (not exact: looser homogeneity)
type scaleChoice struct {
	K int
	S float64
}

var regionScales = []scaleChoice{{K: -40}, {K: -30}, {K: -27}, {K: -20}, {K: -10}, {K: 12}, {S: 1e-9}, {S: 1e-8}, {S: 3e-7}, {S: 1e-5}, {S: 1e-3}, {S: 1e4}}

// regionStream: every primitive type x every region (reps points each), and straddling pairs.
func (h *H) regionStream(r *hx.Rng, reps int) {
	for _, t := range primitives {
		for rep := 0; rep < reps; rep++ {
			for _, lab := range regions(t) {
				s := genPrimitive(r, t)
				p := genInRegion(r, s, lab)
				if !p.finite() {
					continue
				}
				h.run.Count("region:" + t + ":" + lab)
				h.addEval(evalDesc{s, p, false}, "eval")
				sc := hx.Pick(r, regionScales)
				h.addScaled(scaledDesc{Shape: s, K: sc.K, S: sc.S, P: p})
			}
			for n := 0; n < 4; n++ {
				s := genPrimitive(r, t)
				p, q, name, ok := straddle(r, s)
				if !ok || !p.finite() || !q.finite() {
					continue
				}
				h.run.Count("straddle:" + name)
				h.addPair(pairDesc{s, p, q}, "lip")
				sc := hx.Pick(r, regionScales)
				h.addScaledPair(scaledPairDesc{Shape: s, K: sc.K, S: sc.S, P: p, Q: q})
			}
		}
	}
}
