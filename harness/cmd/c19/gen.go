package main

import (
	"math"

	"verif/harness/hx"
)

var primitives = []string{"sphere", "box", "rbox", "line", "plane", "rcyl", "rcone"}

func genPos(r *hx.Rng) V3 {
	if r.Chance(1, 4) { // dyadic grid
		return V3{float64(r.Range(-16, 16)) / 8, float64(r.Range(-16, 16)) / 8, float64(r.Range(-16, 16)) / 8}
	}
	return V3{r.Float()*4 - 2, r.Float()*4 - 2, r.Float()*4 - 2}
}
func genSize(r *hx.Rng) float64 {
	switch r.Intn(4) {
	case 0:
		return float64(r.Range(1, 16)) / 8
	case 1:
		return 0.05 + r.Float()*0.2
	default:
		return 0.1 + r.Float()*1.9
	}
}
func genUnit(r *hx.Rng) V3 {
	if r.Chance(1, 4) {
		axes := []V3{{1, 0, 0}, {0, 1, 0}, {0, 0, 1}, {-1, 0, 0}, {0, -1, 0}, {0, 0, -1}}
		return hx.Pick(r, axes)
	}
	for {
		v := V3{r.Float()*2 - 1, r.Float()*2 - 1, r.Float()*2 - 1}
		n := v.norm()
		if n > 0.1 && n <= 1 {
			return v.mul(1 / n)
		}
	}
}

func genPrimitive(r *hx.Rng, t string) Shape {
	switch t {
	case "sphere":
		return Shape{T: t, A: genPos(r), R: []float64{genSize(r)}}
	case "box":
		return Shape{T: t, A: genPos(r), B: V3{genSize(r), genSize(r), genSize(r)}}
	case "rbox":
		return Shape{T: t, A: genPos(r), B: V3{genSize(r), genSize(r), genSize(r)}, R: []float64{genSize(r) / 4}}
	case "line":
		a := genPos(r)
		b := a.add(genUnit(r).mul(genSize(r) * 1.5))
		return Shape{T: t, A: a, B: b, R: []float64{genSize(r) / 2}}
	case "plane":
		return Shape{T: t, A: genPos(r), B: genUnit(r), R: []float64{r.Float()*2 - 1}}
	case "rcyl":
		// core radius 2*rad - th must be >= 0
		th := genSize(r) / 4
		rad := th/2 + genSize(r)/2
		return Shape{T: t, A: genPos(r), R: []float64{rad, th, genSize(r)}}
	case "rcone":
		// |b-a| > |r1-r2| with some margin (the nested-sphere region is a separate stream)
		a := genPos(r)
		l := 0.2 + genSize(r)*1.5
		b := a.add(genUnit(r).mul(l))
		base := genSize(r) / 2
		var rr float64
		switch r.Intn(5) {
		case 0:
			rr = 0
		case 1:
			rr = 0.97 * l
		case 2:
			rr = -0.97 * l
		default:
			rr = (r.Float()*2 - 1) * 0.9 * l
		}
		// recompute the actual length (float) and keep the margin
		la := b.sub(a).norm()
		if math.Abs(rr) > 0.98*la {
			rr = math.Copysign(0.9*la, rr)
		}
		return Shape{T: t, A: a, B: b, R: []float64{base + math.Max(rr, 0), base + math.Max(-rr, 0)}}
	}
	panic(t)
}

func genNestedCone(r *hx.Rng) Shape {
	a := genPos(r)
	small := genSize(r) / 4
	l := 0.05 + r.Float()*0.5
	big := small + l*(1.05+r.Float()*2)
	b := a.add(genUnit(r).mul(l))
	if r.Bool() {
		return Shape{T: "rcone", A: a, B: b, R: []float64{big, small}}
	}
	return Shape{T: "rcone", A: a, B: b, R: []float64{small, big}}
}

func genShape(r *hx.Rng, depth int) Shape {
	if depth == 0 || r.Chance(1, 2) {
		return genPrimitive(r, hx.Pick(r, primitives))
	}
	switch r.Intn(4) {
	case 0, 1:
		n := hx.Pick(r, []int{1, 2, 2, 3, 3, 4, 5})
		sub := make([]Shape, n)
		for i := range sub {
			sub[i] = genShape(r, depth-1)
		}
		if r.Bool() {
			return Shape{T: "union", Sub: sub}
		}
		return Shape{T: "intersect", Sub: sub}
	case 2:
		return Shape{T: "subtract", Sub: []Shape{genShape(r, depth-1), genShape(r, depth-1)}}
	default:
		return Shape{T: "translate", A: genOffset(r), Sub: []Shape{genShape(r, depth-1)}}
	}
}

// genOffset: translation offsets — ordinary ones, and the small-but-not-zero ones an absolute tolerance would swallow
// (all components below 1e-8 / 1e-6 but not all zero; one tiny component among ordinary ones; some exactly zero).
func genOffset(r *hx.Rng) V3 {
	tiny := func() float64 {
		return hx.Pick(r, []float64{0, 1e-12, 1e-10, 1e-9, 3e-9, 9e-9, 5e-8, 1e-7, 9e-7}) * rsign(r) * (0.5 + r.Float()/2)
	}
	switch r.Intn(6) {
	case 0, 1:
		for {
			v := V3{tiny(), tiny(), tiny()}
			if v != (V3{}) {
				return v
			}
		}
	case 2:
		v := genPos(r)
		v[r.Intn(3)] = tiny()
		return v
	case 3:
		v := genPos(r)
		v[r.Intn(3)] = 0
		if r.Bool() {
			v[r.Intn(3)] = 0
		}
		return v
	}
	return genPos(r)
}

// genChain: a long operator chain over primitives: n steps, each wrapping the running field with
// Translate (ordinary or tiny offset) / Union / Intersect / Subtract with a fresh primitive (on either side).
func genChain(r *hx.Rng, n int, onlyTranslate bool) Shape {
	s := genPrimitive(r, hx.Pick(r, primitives))
	for i := 0; i < n; i++ {
		k := r.Intn(6)
		if onlyTranslate {
			k = 0
		}
		switch k {
		case 0, 1:
			s = Shape{T: "translate", A: genOffset(r), Sub: []Shape{s}}
		case 2:
			s = Shape{T: "union", Sub: []Shape{s, genPrimitive(r, hx.Pick(r, primitives))}}
		case 3:
			s = Shape{T: "intersect", Sub: []Shape{genPrimitive(r, hx.Pick(r, primitives)), s}}
		case 4:
			s = Shape{T: "subtract", Sub: []Shape{s, genPrimitive(r, hx.Pick(r, primitives))}}
		default:
			s = Shape{T: "subtract", Sub: []Shape{genPrimitive(r, hx.Pick(r, primitives)), s}}
		}
	}
	return s
}

// genWide: Union / Intersect of many operands (6..14): beyond any small-arity special case or chunk size
func genWide(r *hx.Rng) Shape {
	n := r.Range(6, 14)
	sub := make([]Shape, n)
	for i := range sub {
		sub[i] = genPrimitive(r, hx.Pick(r, primitives))
	}
	return Shape{T: hx.Pick(r, []string{"union", "intersect"}), Sub: sub}
}

// genVLine: sdf.VarryingThicknessLine of 2..7 points: smooth polylines, sharp turns, equal and very different radii,
// now and then a segment whose end spheres are nested or a repeated point.
func genVLine(r *hx.Rng) Shape {
	n := hx.Pick(r, []int{2, 2, 3, 3, 4, 5, 7})
	pts := make([]LP, n)
	p := genPos(r)
	rad := genSize(r) / 3
	for i := range pts {
		pts[i] = LP{p, rad}
		step := 0.3 + genSize(r)
		switch r.Intn(8) {
		case 0:
			step = rad * 0.3 // next sphere (probably) nested in this one or vice versa
		case 1:
			if i > 0 {
				step = 0 // repeated point
			}
		}
		p = p.add(genUnit(r).mul(step))
		switch r.Intn(4) {
		case 0: // same radius
		case 1:
			rad = genSize(r) / 3
		default:
			rad = math.Max(0.02, rad*(0.5+r.Float()))
		}
	}
	return Shape{T: "vline", Pts: pts}
}

// frame: an orthonormal pair orthogonal to e
func frame(e V3) (V3, V3) {
	h := V3{1, 0, 0}
	if math.Abs(e[0]) > 0.7 {
		h = V3{0, 1, 0}
	}
	u := e.cross(h)
	u = u.mul(1 / u.norm())
	return u, e.cross(u)
}

func firstPrimitive(s Shape) (Shape, V3) {
	off := V3{}
	for len(s.Sub) > 0 {
		if s.T == "translate" {
			off = off.add(s.A)
		}
		s = s.Sub[0]
	}
	if s.T == "vline" && len(s.Pts) > 0 { // around one of its points
		s.A = s.Pts[len(s.Pts)/2].P
	}
	return s, off
}

func pickOffset(r *hx.Rng) float64 {
	return hx.Pick(r, []float64{0, 1e-12, 1e-9, 3e-8, 1e-7, 1e-6, 1e-5, 1e-3, 0.03, 0.3}) * float64(1-2*r.Intn(2))
}

// genPointNear: points in and around the shape; a good share close to the surface, on axes, beyond caps and on
// the branch boundaries of the rounded cone.
func genPointNear(r *hx.Rng, s Shape) V3 {
	prim, off := firstPrimitive(s)
	if prim.T == "vline" && len(prim.Pts) >= 2 { // around one of its segments (a rounded cone)
		i := 1 + r.Intn(len(prim.Pts)-1)
		prim = Shape{T: "rcone", A: prim.Pts[i-1].P, B: prim.Pts[i].P, R: []float64{prim.Pts[i-1].R, prim.Pts[i].R}}
	}
	c := prim.A.add(off)
	switch r.Intn(6) {
	case 0: // anywhere around
		return c.add(V3{r.Float()*6 - 3, r.Float()*6 - 3, r.Float()*6 - 3})
	case 1, 2: // project a random point onto the zero set of the whole field (two Newton steps along the numeric gradient)
		p := c.add(V3{r.Float()*4 - 2, r.Float()*4 - 2, r.Float()*4 - 2})
		f := build(s)
		for it := 0; it < 3; it++ {
			v := f(p.vec())
			const hh = 1e-6
			g := V3{
				(f(p.add(V3{hh, 0, 0}).vec()) - f(p.sub(V3{hh, 0, 0}).vec())) / (2 * hh),
				(f(p.add(V3{0, hh, 0}).vec()) - f(p.sub(V3{0, hh, 0}).vec())) / (2 * hh),
				(f(p.add(V3{0, 0, hh}).vec()) - f(p.sub(V3{0, 0, hh}).vec())) / (2 * hh),
			}
			gn := g.norm()
			if !(gn > 1e-3) || math.IsNaN(v) || math.IsNaN(gn) {
				break
			}
			p = p.sub(g.mul(v / (gn * gn)))
			if it == 2 {
				p = p.add(g.mul(pickOffset(r) / gn))
			}
		}
		if !p.finite() {
			return c
		}
		return p
	}
	// shape-specific adversarial coordinates
	switch prim.T {
	case "line", "rcone":
		d := prim.B.sub(prim.A)
		l := d.norm()
		if l == 0 {
			return c.add(genUnit(r).mul(r.Float() * 2))
		}
		e := d.mul(1 / l)
		u, w := frame(e)
		phi := r.Float() * 2 * math.Pi
		rad := u.mul(math.Cos(phi)).add(w.mul(math.Sin(phi)))
		rho := hx.Pick(r, []float64{0, 1e-12, 1e-6, 0.01, 0.1, 0.5, 1, 2}) * (0.5 + r.Float())
		var t float64
		switch r.Intn(5) {
		case 0:
			t = -r.Float() * 1.5 * l // beyond cap a
		case 1:
			t = l + r.Float()*1.5*l // beyond cap b
		case 2:
			t = hx.Pick(r, []float64{0, l}) + pickOffset(r)
		case 3:
			t = r.Float() * l
		default:
			// on a branch boundary of the cone: t - rho*tan(theta) in {0, L}
			t = hx.Pick(r, []float64{0, l}) + pickOffset(r)
			if prim.T == "rcone" {
				rr := prim.R[0] - prim.R[1]
				if a2 := l*l - rr*rr; a2 > 0 {
					t += rho * rr / math.Sqrt(a2)
				}
			}
		}
		return c.add(e.mul(t)).add(rad.mul(rho))
	case "rcyl":
		phi := r.Float() * 2 * math.Pi
		core := 2*prim.R[0] - prim.R[1]
		rho := hx.Pick(r, []float64{0, 1e-12, core, core + prim.R[1], core / 2, core * 2})
		if r.Bool() {
			rho += pickOffset(r)
		}
		y := hx.Pick(r, []float64{0, prim.R[2], -prim.R[2], prim.R[2] + prim.R[1], -(prim.R[2] + prim.R[1]), 2 * prim.R[2]})
		if r.Bool() {
			y += pickOffset(r)
		}
		return c.add(V3{math.Abs(rho) * math.Cos(phi), y, math.Abs(rho) * math.Sin(phi)})
	case "box", "rbox":
		var p V3
		for i := 0; i < 3; i++ {
			hb := prim.B[i] / 2
			p[i] = hx.Pick(r, []float64{0, hb, -hb, hb / 2, 2 * hb, -2 * hb, (r.Float()*2 - 1) * hb})
			if r.Chance(1, 3) {
				p[i] += pickOffset(r)
			}
		}
		return c.add(p)
	}
	return c.add(genUnit(r).mul(r.Float() * 3))
}

func genNeighbour(r *hx.Rng, s Shape, p V3) V3 {
	step := math.Pow(10, -4*r.Float()) // 1e-4 .. 1
	switch r.Intn(6) {
	case 0:
		step = 2 + r.Float()*3
	case 1:
		step = math.Pow(10, -4-5*r.Float()) // 1e-9 .. 1e-4: a jump between two branches shows as a huge ratio
	}
	return p.add(genUnit(r).mul(step))
}

// ---- exact stream: dyadic inputs on which every Go operation is exact (square roots of perfect squares only)
func exactStream() []evalDesc {
	var out []evalDesc
	add := func(s Shape, ps ...V3) {
		for _, p := range ps {
			out = append(out, evalDesc{s, p, true})
		}
	}
	sph := Shape{T: "sphere", A: V3{1, -2, 0.5}, R: []float64{1.5}}
	add(sph, V3{1, -2, 0.5}, V3{1.25, -1.5, 1}, V3{1.5, -1, 1.5}, V3{1, -1.625, 1}, V3{1.25, -1.625, 1.25}, V3{4, -2, 0.5}, V3{1, -2, 2})
	box := Shape{T: "box", A: V3{0.5, 0, -1}, B: V3{2, 1, 4}}
	boxPts := []V3{{0.5, 0, -1}, {0.75, 0.25, -2}, {1.375, 0.125, 0.5}, {1.5, 0.5, 1}, {2.25, 0.25, -1}, {1.875, 1, -1},
		{1.75, 1, 1.5}, {-1.25, -1.5, -1}, {0.5, -0.375, -2.875}, {1.5, 0, 0}, {0.5, 0.5, -3}}
	add(box, boxPts...)
	add(Shape{T: "rbox", A: V3{0.5, 0, -1}, B: V3{2, 1, 4}, R: []float64{0.25}}, boxPts...)
	pl := Shape{T: "plane", A: V3{1, 2, 3}, B: V3{0.5, -0.25, 2}, R: []float64{0.75}}
	add(pl, V3{0, 0, 0}, V3{1, 2, 3}, V3{-1.5, 0.25, 2.125}, V3{3, 3, 3}, V3{1, 5, 3})
	add(Shape{T: "plane", A: V3{0, 0, 0}, B: V3{0, 1, 0}, R: []float64{0}}, V3{3, 0, 1}, V3{1, -2.5, 1}, V3{0, 0.125, 0})
	ln := Shape{T: "line", A: V3{0, 1, 0}, B: V3{4, 1, 0}, R: []float64{0.5}}
	add(ln, V3{-0.75, 2, 0}, V3{2, 1.75, 1}, V3{4.75, 1, 1}, V3{1, 1, 0}, V3{0, 1, 0.25}, V3{4, 1.5, 0}, V3{3, 1, 2})
	cyl := Shape{T: "rcyl", A: V3{0, 0, 0}, R: []float64{1, 0.25, 0.5}}
	add(cyl, V3{1.5, 0.25, 2}, V3{0.75, 0.125, 1}, V3{1.5, 1.5, 2}, V3{0, 0, 0}, V3{0, 2, 0}, V3{0, -0.25, 1.75})
	cone := Shape{T: "rcone", A: V3{0, 0, 0}, B: V3{2, 0, 0}, R: []float64{0.5, 0.25}}
	add(cone, V3{2.75, 1, 0}, V3{-0.75, 1, 0}, V3{-0.75, 0, -1}, V3{2.75, 0, 1})
	add(Shape{T: "rcone", A: V3{0, 0, 0}, B: V3{2, 0, 0}, R: []float64{0.5, 0.5}}, V3{1, 0.75, 1}, V3{0.5, 0, 0}, V3{1, 0, 2}, V3{2.75, 1, 0})
	// operators: operands and points chosen so that every operand is exact
	s0 := Shape{T: "sphere", A: V3{0, 0, 0}, R: []float64{1}}
	b0 := Shape{T: "box", A: V3{0.5, 0, 0}, B: V3{1, 2, 2}}
	p0 := Shape{T: "plane", A: V3{0, 0, 0}, B: V3{0, 0, 1}, R: []float64{0.25}}
	l0 := Shape{T: "line", A: V3{0, 0, 0}, B: V3{2, 0, 0}, R: []float64{0.25}}
	opPts := []V3{{3, 0, 0}, {0.5, 0, 0}, {-2, 0, 0}, {0, 0.75, 1}, {0.25, 0, 0}, {1, 0, 0}, {0, 0, 0}, {1.5, 0, 0}}
	add(Shape{T: "union", Sub: []Shape{s0, b0}}, opPts...)
	add(Shape{T: "union", Sub: []Shape{b0}}, opPts[:3]...)
	add(Shape{T: "union", Sub: []Shape{s0, b0, p0}}, opPts...)
	add(Shape{T: "union", Sub: []Shape{p0, s0, b0, l0}}, opPts...)
	add(Shape{T: "union", Sub: []Shape{l0, p0, s0, b0, l0}}, opPts[:4]...)
	add(Shape{T: "intersect", Sub: []Shape{s0, b0}}, opPts...)
	add(Shape{T: "intersect", Sub: []Shape{s0}}, opPts[:3]...)
	add(Shape{T: "intersect", Sub: []Shape{b0, p0, s0}}, opPts...)
	add(Shape{T: "intersect", Sub: []Shape{b0, l0, p0, s0}}, opPts[:4]...)
	add(Shape{T: "subtract", Sub: []Shape{b0, s0}}, opPts...)
	add(Shape{T: "subtract", Sub: []Shape{s0, l0}}, opPts...)
	add(Shape{T: "translate", A: V3{0.5, -1, 2}, Sub: []Shape{box}}, V3{1, -1, 1}, V3{1.25, -0.75, 0}, V3{2.75, -0.75, 1})
	add(Shape{T: "translate", A: V3{-1, 0, 0.25}, Sub: []Shape{Shape{T: "subtract", Sub: []Shape{box, pl}}}}, V3{0, 0, 0}, V3{-0.5, 0, -0.75})
	return out
}

// points exactly on surfaces, centres, axes, edges
func cornerEvals() []evalDesc {
	var out []evalDesc
	add := func(s Shape, ps ...V3) {
		for _, p := range ps {
			out = append(out, evalDesc{s, p, false})
		}
	}
	add(Shape{T: "sphere", A: V3{0.1, 0.2, 0.3}, R: []float64{0.7}}, V3{0.1, 0.2, 0.3}, V3{0.8, 0.2, 0.3}, V3{0.1, 0.2, -0.4})
	add(Shape{T: "box", A: V3{0.1, 0.2, 0.3}, B: V3{1, 2, 3}}, V3{0.6, 1.2, 1.8}, V3{0.6, 0.2, 0.3}, V3{0.1, 0.2, 0.3}, V3{0.6, 1.2, 0.3}, V3{5, 5, 5})
	add(Shape{T: "rbox", A: V3{0.1, 0.2, 0.3}, B: V3{1, 2, 3}, R: []float64{0.1}}, V3{0.7, 0.2, 0.3}, V3{0.6, 1.2, 1.8}, V3{0.1, 0.2, 0.3})
	add(Shape{T: "line", A: V3{0.1, 0.2, 0.3}, B: V3{1.1, 0.7, -0.3}, R: []float64{0.2}}, V3{0.1, 0.2, 0.3}, V3{1.1, 0.7, -0.3}, V3{0.6, 0.45, 0}, V3{-0.9, -0.3, 0.9}, V3{2.1, 1.2, -0.9})
	add(Shape{T: "rcyl", A: V3{0.1, 0.2, 0.3}, R: []float64{0.6, 0.1, 0.4}}, V3{0.1, 0.2, 0.3}, V3{0.1, 0.7, 0.3}, V3{1.3, 0.2, 0.3}, V3{1.2, 0.6, 0.3}, V3{0.1, 5, 0.3})
	for _, rr := range [][]float64{{0.5, 0.2}, {0.2, 0.5}, {0.3, 0.3}} {
		add(Shape{T: "rcone", A: V3{0.1, 0.2, 0.3}, B: V3{1.1, 0.7, -0.3}, R: rr}, V3{0.1, 0.2, 0.3}, V3{1.1, 0.7, -0.3}, V3{0.6, 0.45, 0},
			V3{-0.9, -0.3, 0.9}, V3{2.1, 1.2, -0.9}, V3{0.6, 1.45, 0.5})
	}
	return out
}

// fixed VarryingThicknessLine cases: points inside / outside each of three segments, near the joints, beyond both ends
func fixedVLines() []evalDesc {
	var out []evalDesc
	vl := Shape{T: "vline", Pts: []LP{{V3{0, 0, 0}, 0.5}, {V3{2, 0, 0}, 0.25}, {V3{2, 2, 0}, 0.25}, {V3{2, 2, 3}, 0.75}}}
	for _, p := range []V3{{-1, 0, 0}, {0, 0, 0}, {1, 0.3, 0}, {1, 0.5, 0}, {2, 0, 0}, {2.2, -0.2, 0}, {2, 1, 0.2}, {2.5, 1, 0}, {2, 2, 0},
		{2, 2, 1.5}, {2.4, 2, 1.5}, {2, 2, 3}, {2, 2, 4}, {0, 2, 0}, {1, 1, 1}, {2, 2.3, 2.9}, {2, 3, 3}} {
		out = append(out, evalDesc{vl, p, false})
	}
	two := Shape{T: "vline", Pts: []LP{{V3{0.5, -1, 0.25}, 0.3}, {V3{-0.5, 1, 0.75}, 0.6}}}
	for _, p := range []V3{{0.5, -1, 0.25}, {-0.5, 1, 0.75}, {0, 0, 0.5}, {1, -1.5, 0}, {-1, 2, 1}, {0.6, 0.2, 0.5}} {
		out = append(out, evalDesc{two, p, false})
	}
	return out
}
