package main

import (
	"fmt"
	"math"

	"verif/harness/hx"
)

// brute-force distance from p to a surface given as patches [0,1]^2 -> R^3: grid, then shrinking-window refinement
func patchDist(patch func(u, v float64) V3, p V3) float64 {
	const n = 40
	best, bu, bv := math.Inf(1), 0.0, 0.0
	for i := 0; i <= n; i++ {
		for j := 0; j <= n; j++ {
			u, v := float64(i)/n, float64(j)/n
			if d := patch(u, v).sub(p).norm(); d < best {
				best, bu, bv = d, u, v
			}
		}
	}
	w := 1.5 / n
	for round := 0; round < 34; round++ {
		cu, cv := bu, bv
		for i := -3; i <= 3; i++ {
			for j := -3; j <= 3; j++ {
				u := math.Min(1, math.Max(0, cu+w*float64(i)/3))
				v := math.Min(1, math.Max(0, cv+w*float64(j)/3))
				if d := patch(u, v).sub(p).norm(); d < best {
					best, bu, bv = d, u, v
				}
			}
		}
		w *= 0.6
	}
	return best
}

func surfacePatches(s Shape, p V3) []func(u, v float64) V3 {
	switch s.T {
	case "sphere":
		return []func(u, v float64) V3{func(u, v float64) V3 {
			th, ph := math.Pi*u, 2*math.Pi*v
			return s.A.add(V3{math.Sin(th) * math.Cos(ph), math.Sin(th) * math.Sin(ph), math.Cos(th)}.mul(s.R[0]))
		}}
	case "box":
		var out []func(u, v float64) V3
		for ax := 0; ax < 3; ax++ {
			for _, sg := range []float64{-1, 1} {
				ax, sg := ax, sg
				out = append(out, func(u, v float64) V3 {
					q := s.A
					a1, a2 := (ax+1)%3, (ax+2)%3
					q[ax] += sg * s.B[ax] / 2
					q[a1] += (u - 0.5) * s.B[a1]
					q[a2] += (v - 0.5) * s.B[a2]
					return q
				})
			}
		}
		return out
	case "line":
		d := s.B.sub(s.A)
		l := d.norm()
		e := d.mul(1 / l)
		f1, f2 := frame(e)
		r := s.R[0]
		side := func(u, v float64) V3 {
			ph := 2 * math.Pi * v
			return s.A.add(d.mul(u)).add(f1.mul(r * math.Cos(ph))).add(f2.mul(r * math.Sin(ph)))
		}
		cap := func(c V3, dir V3) func(u, v float64) V3 {
			return func(u, v float64) V3 {
				th, ph := math.Pi / 2 * u, 2*math.Pi*v
				return c.add(dir.mul(r * math.Cos(th))).add(f1.mul(r * math.Sin(th) * math.Cos(ph))).add(f2.mul(r * math.Sin(th) * math.Sin(ph)))
			}
		}
		return []func(u, v float64) V3{side, cap(s.A, e.mul(-1)), cap(s.B, e)}
	case "plane":
		n := s.B
		nn := n.dot(n)
		base := p.sub(n.mul((p.sub(s.A).dot(n) + s.R[0]) / nn)) // a point of the true plane { (x-pos).n + h = 0 }
		f1, f2 := frame(n.mul(1 / math.Sqrt(nn)))
		return []func(u, v float64) V3{func(u, v float64) V3 {
			return base.add(f1.mul((u - 0.5) * 8)).add(f2.mul((v - 0.5) * 8))
		}}
	}
	return nil
}

// addExact: |f p| must be the Euclidean distance from p to the surface (sphere, box, capsule, plane)
func (h *H) addExact(d evalDesc) {
	out, perr := callField(d.Shape, d.P)
	c := hx.Case{Kind: "exact", Desc: d, Key: key(d), Nontriv: true, Coq: "CGo", FailKey: degenerate(d.Shape)}
	if perr != "" || math.IsNaN(out) {
		c.GoFail = fmt.Sprintf("value %v %s", out, perr)
		h.run.Add(c)
		return
	}
	best := math.Inf(1)
	for _, patch := range surfacePatches(d.Shape, d.P) {
		best = math.Min(best, patchDist(patch, d.P))
	}
	tol := 2e-6 * scaleOf(d.Shape, d.P)
	if math.Abs(math.Abs(out)-best) > tol {
		c.GoFail = fmt.Sprintf("|f p| = %v but the brute-force distance to the surface is %v", math.Abs(out), best)
	}
	h.run.Add(c)
}
