package main

import (
	"fmt"
	"math"

	"verif/harness/hx"
)

// Exactness oracle: |f p| against the distance from p to the surface, computed by a RIGOROUS branch-and-bound
// over a parametrisation of the surface.  It returns an enclosure [lo, hi] of the true distance:
//
//	hi  = distance to an actual surface point (the best sample): always an upper bound;
//	lo  = sqrt of the smallest second-order lower bound of g(u,v) = |S(u,v) - p|^2 over the cells that are
//	      still alive:  g >= g(c) - |g_u| hu - |g_v| hv - M/2 (hu^2 + hv^2)  on a cell with centre c and
//	      half-sizes hu, hv, where M bounds the Hessian of g:  M = 2 (J2 + Dmax K),  J2 >= |S_u|^2 + |S_v|^2,
//	      K >= the second derivatives of S, Dmax >= |S - p| on the cell.
//
// A cell whose lower bound exceeds the best sample cannot contain the nearest point and is dropped; the others are
// split in four.  Near the minimiser the gradient vanishes, so O(1) cells survive per level and the enclosure
// shrinks geometrically.  Whatever the budget, [lo, hi] is a valid enclosure: the oracle only flags when |f p| is
// outside it (plus rounding slack) — an unconverged search widens the enclosure, it never produces an alarm.
type patch struct {
	s      func(u, v float64) V3 // surface point
	su, sv func(u, v float64) V3 // partial derivatives
	u0, u1 float64
	v0, v1 float64
	j2     float64 // >= |S_u|^2 + |S_v|^2 everywhere
	k      float64 // >= operator norm of the second derivative of S everywhere (0 for planar patches)
}

type cell struct{ cu, cv, hu, hv float64 }

// enclose returns (lo, hi) with lo <= dist(p, patch) <= hi.
func (pt *patch) enclose(p V3, bestIn float64) (float64, float64) {
	best2 := bestIn * bestIn // squared distance of the best surface sample so far (may be +Inf)
	cells := []cell{{(pt.u0 + pt.u1) / 2, (pt.v0 + pt.v1) / 2, (pt.u1 - pt.u0) / 2, (pt.v1 - pt.v0) / 2}}
	// start from a modest grid so that the first bounds are meaningful
	for i := 0; i < 3; i++ {
		cells = splitAll(cells)
	}
	minLB := 0.0
	for level := 0; level < 60; level++ {
		type lbc struct {
			c  cell
			lb float64
		}
		alive := make([]lbc, 0, len(cells))
		for _, c := range cells {
			d := pt.s(c.cu, c.cv).sub(p)
			g := d.dot(d)
			if g < best2 {
				best2 = g
			}
			gu := 2 * d.dot(pt.su(c.cu, c.cv))
			gv := 2 * d.dot(pt.sv(c.cu, c.cv))
			dmax := math.Sqrt(g) + math.Sqrt(pt.j2)*(c.hu+c.hv)
			m := 2 * (pt.j2 + dmax*pt.k)
			lb := g - math.Abs(gu)*c.hu - math.Abs(gv)*c.hv - m/2*(c.hu*c.hu+c.hv*c.hv)
			alive = append(alive, lbc{c, lb})
		}
		cells = cells[:0]
		minLB = math.Inf(1)
		for _, a := range alive {
			if a.lb <= best2 {
				cells = append(cells, a.c)
				if a.lb < minLB {
					minLB = a.lb
				}
			}
		}
		if len(cells) == 0 { // cannot happen (the cell of the best sample survives); be safe
			minLB = best2
			break
		}
		hi := math.Sqrt(best2)
		lo := math.Sqrt(math.Max(minLB, 0))
		if hi-lo < 1e-11*(1+hi) || len(cells) > 20000 {
			break
		}
		cells = splitAll(cells)
	}
	return math.Sqrt(math.Max(math.Min(minLB, best2), 0)), math.Sqrt(best2)
}

func splitAll(cells []cell) []cell {
	out := make([]cell, 0, 4*len(cells))
	for _, c := range cells {
		hu, hv := c.hu/2, c.hv/2
		out = append(out, cell{c.cu - hu, c.cv - hv, hu, hv}, cell{c.cu + hu, c.cv - hv, hu, hv},
			cell{c.cu - hu, c.cv + hv, hu, hv}, cell{c.cu + hu, c.cv + hv, hu, hv})
	}
	return out
}

// part of a sphere of radius r around c with polar axis e (theta from e, in [t0,t1]), frame f1,f2
func spherePatch(c, e, f1, f2 V3, r, t0, t1 float64) *patch {
	dir := func(th, ph float64) V3 {
		return e.mul(math.Cos(th)).add(f1.mul(math.Sin(th) * math.Cos(ph))).add(f2.mul(math.Sin(th) * math.Sin(ph)))
	}
	return &patch{
		s: func(th, ph float64) V3 { return c.add(dir(th, ph).mul(r)) },
		su: func(th, ph float64) V3 {
			return e.mul(-math.Sin(th)).add(f1.mul(math.Cos(th) * math.Cos(ph))).add(f2.mul(math.Cos(th) * math.Sin(ph))).mul(r)
		},
		sv: func(th, ph float64) V3 {
			return f1.mul(-math.Sin(th) * math.Sin(ph)).add(f2.mul(math.Sin(th) * math.Cos(ph))).mul(r)
		},
		u0: t0, u1: t1, v0: 0, v1: 2 * math.Pi,
		j2: 2 * r * r, // |S_th| = r, |S_ph| = r sin th <= r
		k:  3 * r,     // |S_thth| = r, |S_thph| <= r, |S_phph| <= r  (operator norm <= Frobenius-type bound 3r)
	}
}

// planar rectangle o + u e1 + v e2, u in [-a,a], v in [-b,b] (e1, e2 orthonormal)
func planePatch(o, e1, e2 V3, a, b float64) *patch {
	return &patch{
		s:  func(u, v float64) V3 { return o.add(e1.mul(u)).add(e2.mul(v)) },
		su: func(u, v float64) V3 { return e1 },
		sv: func(u, v float64) V3 { return e2 },
		u0: -a, u1: a, v0: -b, v1: b, j2: 2, k: 0,
	}
}

// lateral surface of a cylinder: a + t e + r (cos ph f1 + sin ph f2), t in [0,l]
func cylinderPatch(a, e, f1, f2 V3, r, l float64) *patch {
	return &patch{
		s: func(t, ph float64) V3 {
			return a.add(e.mul(t)).add(f1.mul(r * math.Cos(ph))).add(f2.mul(r * math.Sin(ph)))
		},
		su: func(t, ph float64) V3 { return e },
		sv: func(t, ph float64) V3 { return f1.mul(-r * math.Sin(ph)).add(f2.mul(r * math.Cos(ph))) },
		u0: 0, u1: l, v0: 0, v1: 2 * math.Pi, j2: 1 + r*r, k: r,
	}
}

func unit(i int) V3 { var v V3; v[i] = 1; return v }

// surfacePatches: the surface of the shape as a union of patches (nil: no brute-force reference).
func surfacePatches(s Shape, p V3) []*patch {
	switch s.T {
	case "sphere":
		return []*patch{spherePatch(s.A, unit(2), unit(0), unit(1), s.R[0], 0, math.Pi)}
	case "box":
		var out []*patch
		for ax := 0; ax < 3; ax++ {
			a1, a2 := (ax+1)%3, (ax+2)%3
			for _, sg := range []float64{-1, 1} {
				o := s.A.add(unit(ax).mul(sg * s.B[ax] / 2))
				out = append(out, planePatch(o, unit(a1), unit(a2), s.B[a1]/2, s.B[a2]/2))
			}
		}
		return out
	case "line":
		d := s.B.sub(s.A)
		l := d.norm()
		if l == 0 {
			return []*patch{spherePatch(s.A, unit(2), unit(0), unit(1), s.R[0], 0, math.Pi)}
		}
		e := d.mul(1 / l)
		f1, f2 := frame(e)
		r := s.R[0]
		return []*patch{
			cylinderPatch(s.A, e, f1, f2, r, l),
			spherePatch(s.A, e.mul(-1), f1, f2, r, 0, math.Pi/2),
			spherePatch(s.B, e, f1, f2, r, 0, math.Pi/2),
		}
	case "plane":
		n := s.B
		nn := n.dot(n)
		if nn == 0 {
			return nil
		}
		// base: a point of the true plane { (x - pos).n + h = 0 } (the projection of p); points of the plane further
		// than w from base are further than w - |p - base| > |p - base| >= dist from p, so the square suffices
		base := p.sub(n.mul((p.sub(s.A).dot(n) + s.R[0]) / nn))
		w := 4*p.sub(base).norm() + 4
		f1, f2 := frame(n.mul(1 / math.Sqrt(nn)))
		return []*patch{planePatch(base, f1, f2, w, w)}
	}
	return nil
}

// addExact: |f p| must lie in the enclosure of the Euclidean distance from p to the surface (sphere, box, capsule, plane)
func (h *H) addExact(d evalDesc) {
	out, perr := callField(d.Shape, d.P)
	c := hx.Case{Kind: "exact", Desc: d, Key: key(d), Nontriv: true, Coq: "CGo", FailKey: degenerate(d.Shape)}
	if perr != "" || math.IsNaN(out) {
		c.GoFail = fmt.Sprintf("value %v %s", out, perr)
		h.run.Add(c)
		return
	}
	lo, hi := math.Inf(1), math.Inf(1)
	for _, pt := range surfacePatches(d.Shape, d.P) {
		l, u := pt.enclose(d.P, hi)
		lo, hi = math.Min(lo, l), math.Min(hi, u)
	}
	if math.IsInf(hi, 1) {
		h.run.Add(c)
		return
	}
	if hi-lo > h.maxEnclosure {
		h.maxEnclosure = hi - lo
		h.run.Extra["max_exactness_enclosure_width"] = h.maxEnclosure
	}
	if hi-lo < 1e-9 {
		h.run.Count("exact-enclosure:tight(<1e-9)")
	} else {
		h.run.Count("exact-enclosure:wide(symmetric position, budget reached)")
	}
	slack := 1e-9 * scaleOf(d.Shape, d.P)
	if a := math.Abs(out); a < lo-slack || a > hi+slack {
		c.GoFail = fmt.Sprintf("|f p| = %v but the distance from p to the surface lies in [%v, %v] (rigorous branch-and-bound enclosure)", a, lo, hi)
	}
	h.run.Add(c)
}
