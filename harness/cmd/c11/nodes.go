// Harness-defined node types built with the repository's nodes.Struct machinery.  Every processor is
// an order- and shape-sensitive polynomial hash of its inputs (mirrors Check/C11.v hproc) and counts
// its executions.
package main

import (
	"errors"

	"github.com/EliCDavis/polyform/nodes"
)

// error returned by a processor that is allowed to fail
var errFail = errors.New("harness processor: rejected input")

// value a processor that is allowed to panic panics with (not a runtime.Error: the read is a declared failure)
var errPanic = errors.New("harness processor: panic on this input")

const hmod = 1000003

type out = nodes.NodeOutput[int]

type meta struct {
	salt   int
	fail   bool // the processor returns an error when its hash is divisible by 3
	panics bool // the processor panics when its hash is divisible by 5
	execs  int  // number of calls of Process() that returned (with or without an error)
	fails  int  // number of executions that returned an error
	blown  int  // number of calls of Process() that panicked
}

// failing processors return (hmod + hash, err): a value no successful run can produce, so that the
// error/value distinction is part of what consumers and the from-scratch evaluation see
func (m *meta) run(ports [][]out) (int, error) {
	acc := m.salt
	for _, p := range ports {
		acc = (acc*37 + 11 + len(p)) % hmod
		for _, o := range p {
			acc = (acc*31 + nodes.TryGetOutputValue(o, -1)) % hmod // the repository's accessor for optional inputs
		}
	}
	if m.panics && acc%5 == 0 {
		m.blown++
		panic(errPanic)
	}
	m.execs++
	if m.fail && acc%3 == 0 {
		m.fails++
		return hmod + acc, errFail
	}
	return acc, nil
}

// input fields declared with looser interface types than nodes.NodeOutput[int] that HOLD node outputs
type valuer interface{ Value() int }
type embValuer interface{ valuer }

func lo(x any) []out {
	if x == nil {
		return nil
	}
	return []out{x.(out)}
}

type LooseData struct {
	m   *meta
	One valuer    // one-method interface
	N   out       // a normal input next to them
	Any any       // empty interface
	Emb embValuer // interface embedding the one-method interface
}

func (d LooseData) Process() (int, error) {
	return d.m.run([][]out{lo(d.One), sc(d.N), lo(d.Any), lo(d.Emb)})
}

func sc(o out) []out {
	if o == nil {
		return nil
	}
	return []out{o}
}

// field = (name, isArray) in declaration order; must match the struct declarations below
type field struct {
	Name  string
	Array bool
}

type ChainData struct {
	m  *meta
	In out
}

func (d ChainData) Process() (int, error) { return d.m.run([][]out{sc(d.In)}) }

type BinData struct {
	m *meta
	B out
	A out
}

func (d BinData) Process() (int, error) { return d.m.run([][]out{sc(d.B), sc(d.A)}) }

type QuadData struct {
	m *meta
	D out
	A out
	C out
	B out
}

func (d QuadData) Process() (int, error) {
	return d.m.run([][]out{sc(d.D), sc(d.A), sc(d.C), sc(d.B)})
}

type ArrData struct {
	m      *meta
	Values []out
}

func (d ArrData) Process() (int, error) { return d.m.run([][]out{d.Values}) }

type MixData struct {
	m  *meta
	V2 out
	V  []out
	A  out
}

func (d MixData) Process() (int, error) { return d.m.run([][]out{sc(d.V2), d.V, sc(d.A)}) }

type TwoData struct {
	m *meta
	X []out
	W []out
	S out
}

func (d TwoData) Process() (int, error) { return d.m.run([][]out{d.X, d.W, sc(d.S)}) }

type WideData struct {
	m *meta
	F out
	E out
	D out
	C out
	B out
	A out
}

func (d WideData) Process() (int, error) {
	return d.m.run([][]out{sc(d.F), sc(d.E), sc(d.D), sc(d.C), sc(d.B), sc(d.A)})
}

// two array ports and plain ports before / between / after them (dependency names Alpha < Inputs.k <
// Offset < Scales.k < Zeta)
type MultiData struct {
	m      *meta
	Scales []out
	Offset out
	Inputs []out
	Zeta   out
	Alpha  out
}

func (d MultiData) Process() (int, error) {
	return d.m.run([][]out{d.Scales, sc(d.Offset), d.Inputs, sc(d.Zeta), sc(d.Alpha)})
}

// prefix-sharing names: I < In.k < In2 < Ina < Inb.k
type PrefData struct {
	m   *meta
	In2 out
	Inb []out
	In  []out
	Ina out
	I   out
}

func (d PrefData) Process() (int, error) {
	return d.m.run([][]out{sc(d.In2), d.Inb, d.In, sc(d.Ina), sc(d.I)})
}

var kinds = []struct {
	Name   string
	Fields []field
}{
	{"chain", []field{{"In", false}}},
	{"bin", []field{{"B", false}, {"A", false}}},
	{"quad", []field{{"D", false}, {"A", false}, {"C", false}, {"B", false}}},
	{"arr", []field{{"Values", true}}},
	{"mix", []field{{"V2", false}, {"V", true}, {"A", false}}},
	{"two", []field{{"X", true}, {"W", true}, {"S", false}}},
	{"wide", []field{{"F", false}, {"E", false}, {"D", false}, {"C", false}, {"B", false}, {"A", false}}},
	{"multi", []field{{"Scales", true}, {"Offset", false}, {"Inputs", true}, {"Zeta", false}, {"Alpha", false}}},
	{"pref", []field{{"In2", false}, {"Inb", true}, {"In", true}, {"Ina", false}, {"I", false}}},
	{"loose", []field{{"One", false}, {"N", false}, {"Any", false}, {"Emb", false}}},
}

func kindIndex(name string) int {
	for i, k := range kinds {
		if k.Name == name {
			return i
		}
	}
	return -1
}

// live node of the implementation
type live struct {
	node     nodes.Node
	refs     []nodes.NodeOutputReference // ways to wire this node into an input: Out(), the node itself, a renamed output
	value    func() int
	set      func(v int) error // parameters only
	bad      func(v int) error // parameters fed by messages: an update that is rejected after a valid prefix
	m        *meta             // struct nodes only
	outdated func() bool       // struct nodes only
	alerts   []*alertCounter
}

// literal = how most node types of the repository are declared (&nodes.Struct[T, G]{Data: ...}); useNew = through
// the constructor nodes.NewStruct
func mkStruct[G nodes.StructProcesor[int]](data G, m *meta, useNew bool) *live {
	var n *nodes.Struct[int, G]
	if useNew {
		n = nodes.NewStruct[G, int](data)
	} else {
		n = &nodes.Struct[int, G]{Data: data}
	}
	return &live{node: n, value: n.Value, m: m, outdated: func() bool { return n.Outdated() }, // (value receiver: a method value would bind a copy)
		refs: []nodes.NodeOutputReference{n.Out(), n, nodes.StructOutput[int, G]{Struct: n, Name: "Alt"}}}
}

func newStruct(kind string, salt int, fail, panics, useNew bool) *live {
	m := &meta{salt: salt, fail: fail, panics: panics}
	switch kind {
	case "chain":
		return mkStruct(ChainData{m: m}, m, useNew)
	case "bin":
		return mkStruct(BinData{m: m}, m, useNew)
	case "quad":
		return mkStruct(QuadData{m: m}, m, useNew)
	case "arr":
		return mkStruct(ArrData{m: m}, m, useNew)
	case "mix":
		return mkStruct(MixData{m: m}, m, useNew)
	case "two":
		return mkStruct(TwoData{m: m}, m, useNew)
	case "wide":
		return mkStruct(WideData{m: m}, m, useNew)
	case "multi":
		return mkStruct(MultiData{m: m}, m, useNew)
	case "pref":
		return mkStruct(PrefData{m: m}, m, useNew)
	case "loose":
		return mkStruct(LooseData{m: m}, m, useNew)
	}
	panic("unknown kind " + kind)
}
