package main

import (
	"fmt"

	"verif/harness/hx"
)

// ---- history generator: structured graph shapes, then random interleavings of the four operations ----
type gen struct {
	r   *hx.Rng
	d   histDesc
	m   *mirror
	max int // bound on the summed path count (cost of State() on every node after every operation)
}

func (g *gen) emit(o opDesc) bool {
	if o.Op == "connect" {
		if o.Src == o.N || g.m.reaches(o.Src, o.N) {
			return false
		}
		// tentative: keep State() affordable
		save := g.m.ports[o.N]
		cp := make([][]int, len(save))
		for i := range save {
			cp[i] = append([]int{}, save[i]...)
		}
		if !g.m.apply(o) {
			g.d.Ops = append(g.d.Ops, o) // invalid port: rejected by the implementation, mirror unchanged
			return true
		}
		if g.m.pathLoad() > g.max {
			g.m.ports[o.N] = cp
			return false
		}
		g.d.Ops = append(g.d.Ops, o)
		return true
	}
	g.m.apply(o) // invalid operations leave the mirror unchanged
	g.d.Ops = append(g.d.Ops, o)
	return true
}

func (g *gen) params() []int {
	var out []int
	for i, n := range g.d.Nodes {
		if isParam(n.Kind) {
			out = append(out, i)
		}
	}
	return out
}
func (g *gen) structs() []int {
	var out []int
	for i, n := range g.d.Nodes {
		if !isParam(n.Kind) {
			out = append(out, i)
		}
	}
	return out
}

func (g *gen) set(p int) {
	v := g.r.Intn(1000)
	if g.r.Chance(1, 8) {
		v = 0 // the zero value of the parameter's type is a value like any other
	}
	g.emit(opDesc{Op: "set", N: p, V: v})
}
func (g *gen) read(n int) { g.emit(opDesc{Op: "read", N: n}) }

// connect src to a random (or the given) field of n
func (g *gen) connect(n, src int, fi int) bool {
	fs := g.m.fields(n)
	if fi < 0 {
		fi = g.r.Intn(len(fs))
	}
	port := fs[fi].Name
	if fs[fi].Array {
		// the suffix of an appending SetInput is ignored by the code: use the next index mostly
		switch g.r.Intn(6) {
		case 0:
			port += ".0"
		case 1:
			port += fmt.Sprintf(".%d", g.r.Intn(30))
		default:
			port += fmt.Sprintf(".%d", len(g.m.ports[n][fi]))
		}
	}
	// which reference of the source is wired: its Out(), the node itself (nodes implement NodeOutput), a renamed output
	ref := 0
	if g.r.Chance(1, 3) {
		ref = 1 + g.r.Intn(2)
	}
	return g.emit(opDesc{Op: "connect", N: n, Port: port, Src: src, Ref: ref})
}

func (g *gen) disconnect(n int) {
	fs := g.m.fields(n)
	// prefer a connected field
	fi := g.r.Intn(len(fs))
	for try := 0; try < 4 && len(g.m.ports[n][fi]) == 0; try++ {
		fi = g.r.Intn(len(fs))
	}
	port := fs[fi].Name
	if fs[fi].Array && !(g.r.Chance(1, 12)) { // 1/12: "Values" with nil clears the whole array
		k := 0
		if l := len(g.m.ports[n][fi]); l > 0 {
			k = g.r.Intn(l)
		} else {
			return
		}
		switch g.r.Intn(10) {
		case 0:
			port += fmt.Sprintf(".+%d", k) // strconv.Atoi accepts a sign
		case 1:
			port += fmt.Sprintf(".0%d", k)
		default:
			port += fmt.Sprintf(".%d", k)
		}
	}
	g.emit(opDesc{Op: "disconnect", N: n, Port: port})
}

func (g *gen) invalid() {
	ss := g.structs()
	ps := g.params()
	n := hx.Pick(g.r, ss)
	fs := g.m.fields(n)
	f := hx.Pick(g.r, fs)
	src := hx.Pick(g.r, ps)
	switch g.r.Intn(14) {
	case 12, 13:
		// an output of another value type (string) offered to an int port: reflect refuses it ("Any" would take it)
		if f.Name != "Any" {
			port := f.Name
			if f.Array {
				port += ".0"
			}
			g.emit(opDesc{Op: "badconnect", N: n, Port: port})
		}
	case 0:
		g.emit(opDesc{Op: "connect", N: n, Port: "Nope", Src: src})
	case 1:
		g.emit(opDesc{Op: "connect", N: n, Port: "m", Src: src}) // unexported field
	case 2:
		g.emit(opDesc{Op: "disconnect", N: n, Port: "Nope.0"})
	case 3:
		if f.Array {
			g.emit(opDesc{Op: "connect", N: n, Port: f.Name, Src: src}) // array field without index
		} else {
			g.emit(opDesc{Op: "connect", N: n, Port: f.Name + ".0", Src: src}) // scalar field with index
		}
	case 4:
		if f.Array {
			g.emit(opDesc{Op: "disconnect", N: n, Port: f.Name + ".x"})
		} else {
			g.emit(opDesc{Op: "disconnect", N: n, Port: f.Name + ".0"})
		}
	case 5:
		if f.Array {
			l := 0
			for i, ff := range fs {
				if ff.Name == f.Name {
					l = len(g.m.ports[n][i])
				}
			}
			g.emit(opDesc{Op: "disconnect", N: n, Port: fmt.Sprintf("%s.%d", f.Name, l+g.r.Intn(3))}) // index = len, len+1, ..
		} else {
			g.emit(opDesc{Op: "disconnect", N: n, Port: "." + f.Name})
		}
	case 6:
		g.emit(opDesc{Op: "disconnect", N: n, Port: f.Name + ".-1"})
	case 7:
		g.emit(opDesc{Op: "disconnect", N: n, Port: f.Name + "."})
	case 8:
		g.emit(opDesc{Op: "disconnect", N: n, Port: f.Name + ".1.2"})
	case 9:
		g.emit(opDesc{Op: "connect", N: src, Port: "In", Src: n}) // parameters have no inputs
	case 10:
		g.emit(opDesc{Op: "disconnect", N: src, Port: "In"})
	default:
		g.emit(opDesc{Op: "disconnect", N: n, Port: f.Name + ".99999999999999999999"})
	}
}

func (g *gen) addNode(kind string) int {
	n := nodeDesc{Kind: kind}
	if isParam(kind) {
		n.Init = g.r.Intn(1000)
		if g.r.Chance(1, 3) {
			n.Subs = 1 + g.r.Intn(2)
		}
	} else {
		n.Salt = 1 + g.r.Intn(5000)
		n.Fail = g.r.Chance(1, 3)
		n.Pan = g.r.Chance(1, 4)
		n.New = g.r.Chance(1, 3)
	}
	g.d.Nodes = append(g.d.Nodes, n)
	return len(g.d.Nodes) - 1
}
func (g *gen) addParam() int {
	switch x := g.r.Intn(16); {
	case x < 3:
		return g.addNode("pval")
	case x < 6:
		return g.addNode("vnode")
	default:
		return g.addNode([]string{"pcli", "pslice", "pmap", "pstruct", "pstr", "pf64", "pbool", "pvec3", "pvarr", "pfile"}[x-6])
	}
}
func (g *gen) anyKind() string { return kinds[g.r.Intn(len(kinds))].Name }

func genHist(r *hx.Rng, thorough bool) histDesc {
	g := &gen{r: r, max: 1500}
	limit := 12
	nops := r.Range(30, 90)
	if thorough {
		limit = 40
		nops = r.Range(40, 220)
		g.max = 4000
	}
	shapes := []string{"chain", "diamond", "fanin-array", "fanin-scalar", "shared", "random"}
	g.d.Shape = hx.Pick(r, shapes)
	total := r.Range(4, limit)
	var wire []func() // wiring steps of the shape, executed (as Connect operations) after the nodes exist
	switch g.d.Shape {
	case "chain":
		p := g.addParam()
		prev := p
		for len(g.d.Nodes) < total {
			n := g.addNode(hx.Pick(r, []string{"chain", "chain", "bin", "mix", "arr", "loose"}))
			src := prev
			wire = append(wire, func() { g.connect(n, src, -1) })
			prev = n
		}
	case "diamond":
		for len(g.d.Nodes)+4 <= total {
			p := g.addParam()
			a := g.addNode(g.anyKind())
			b := g.addNode(g.anyKind())
			j := g.addNode(hx.Pick(r, []string{"bin", "quad", "two", "mix"}))
			wire = append(wire, func() {
				g.connect(a, p, -1)
				g.connect(b, p, -1)
				g.connect(j, a, 0)
				g.connect(j, b, 1)
			})
		}
	case "fanin-array":
		k := r.Range(2, 5)
		for i := 0; i < k; i++ {
			g.addParam()
		}
		for len(g.d.Nodes) < total {
			g.addNode(hx.Pick(r, []string{"arr", "mix", "two", "multi", "pref", "chain"}))
		}
		wire = append(wire, func() {
			ps, ss := g.params(), g.structs()
			n := ss[len(ss)-1]
			for _, s := range ss {
				if k := g.d.Nodes[s].Kind; k == "arr" || k == "mix" || k == "two" || k == "multi" || k == "pref" {
					n = s
				}
			}
			fi := 0
			for i, f := range g.m.fields(n) {
				if f.Array {
					fi = i
					break
				}
			}
			cnt := r.Range(9, 15) // >= 11 most of the time: "F.10" sorts before "F.2"
			for i := 0; i < cnt; i++ {
				src := hx.Pick(r, ps)
				if r.Chance(1, 4) {
					src = hx.Pick(r, ss)
				}
				g.connect(n, src, fi)
			}
		})
	case "fanin-scalar":
		k := r.Range(3, 6)
		for i := 0; i < k; i++ {
			g.addParam()
		}
		for len(g.d.Nodes) < total {
			g.addNode(hx.Pick(r, []string{"quad", "wide", "bin", "mix", "multi", "pref", "loose"}))
		}
		wire = append(wire, func() {
			ps := g.params()
			for _, n := range g.structs() {
				for fi := range g.m.fields(n) {
					if r.Chance(4, 5) {
						g.connect(n, hx.Pick(r, ps), fi)
					}
				}
			}
		})
	case "shared":
		p1, p2 := g.addParam(), g.addParam()
		sh := g.addNode("bin")
		wire = append(wire, func() { g.connect(sh, p1, 0); g.connect(sh, p2, 1) })
		for len(g.d.Nodes) < total {
			n := g.addNode(g.anyKind())
			wire = append(wire, func() {
				g.connect(n, sh, -1)
				if r.Bool() {
					g.connect(n, hx.Pick(r, g.structs()), -1)
				}
			})
		}
	default:
		np := r.Range(1, 1+total/3)
		for i := 0; i < np; i++ {
			g.addParam()
		}
		for len(g.d.Nodes) < total {
			g.addNode(g.anyKind())
		}
	}
	if len(g.structs()) == 0 {
		g.addNode(g.anyKind())
	}
	if len(g.params()) == 0 {
		g.addParam()
	}
	g.m = newMirror(g.d.Nodes)
	ps, ss := g.params(), g.structs()
	// give the parameters different versions
	for _, p := range ps {
		for k := r.Intn(4); k > 0; k-- {
			g.set(p)
		}
	}
	for _, w := range wire {
		w()
	}
	all := len(g.d.Nodes)
	for len(g.d.Ops) < nops {
		switch x := r.Intn(100); {
		case x < 30:
			g.read(hx.Pick(r, ss))
		case x < 34:
			g.read(r.Intn(all))
		case x < 52:
			p := hx.Pick(r, ps)
			if r.Chance(1, 6) {
				g.emit(opDesc{Op: "set", N: p, V: g.m.raw[p]}) // same value: still an update
			} else {
				g.set(p)
			}
		case x < 56:
			// an update message that is rejected after a valid prefix: nothing may change
			p := hx.Pick(r, ps)
			if !noBadMessage(g.d.Nodes[p].Kind) {
				g.emit(opDesc{Op: "badset", N: p, V: r.Intn(1000)})
			}
		case x < 72:
			n := hx.Pick(r, ss)
			src := r.Intn(all)
			if r.Chance(1, 2) {
				src = hx.Pick(r, ps)
			}
			g.connect(n, src, -1)
		case x < 82:
			g.disconnect(hx.Pick(r, ss))
		case x < 90:
			// idle reads: nothing changed in between
			n := hx.Pick(r, ss)
			for k := r.Range(3, 10); k > 0; k-- {
				if r.Chance(1, 4) {
					g.read(hx.Pick(r, ss))
				} else {
					g.read(n)
				}
			}
		case x < 95:
			g.invalid()
		default:
			// read everything
			for _, n := range ss {
				g.read(n)
			}
		}
	}
	return g.d
}

// fixed corner cases
func fixedCases() []histDesc {
	var out []histDesc
	// 4 scalar inputs with distinct versions, many idle reads (the pinned tree re-executes spuriously)
	{
		d := histDesc{Shape: "fixed-quad-idle", Nodes: []nodeDesc{{Kind: "pval", Init: 1}, {Kind: "vnode", Init: 2}, {Kind: "pval", Init: 3}, {Kind: "vnode", Init: 4}, {Kind: "quad", Salt: 7}, {Kind: "chain", Salt: 9}}}
		for p := 0; p < 4; p++ {
			for k := 0; k < p; k++ {
				d.Ops = append(d.Ops, opDesc{Op: "set", N: p, V: 10*p + k})
			}
		}
		for i, f := range []string{"D", "A", "C", "B"} {
			d.Ops = append(d.Ops, opDesc{Op: "connect", N: 4, Port: f, Src: i})
		}
		d.Ops = append(d.Ops, opDesc{Op: "connect", N: 5, Port: "In", Src: 4})
		// 240 idle reads: on the pinned tree each one re-executes the quad node unless two map
		// iterations happen to agree (probability 1/24 per pair), so a miss is out of the question
		for k := 0; k < 240; k++ {
			d.Ops = append(d.Ops, opDesc{Op: "read", N: 5 - k%2})
		}
		out = append(out, d)
	}
	// 12 array connections with distinct versions, delete in the middle, append again
	{
		d := histDesc{Shape: "fixed-array-12"}
		for p := 0; p < 12; p++ {
			d.Nodes = append(d.Nodes, nodeDesc{Kind: []string{"pval", "vnode"}[p%2], Init: 100 + p})
		}
		d.Nodes = append(d.Nodes, nodeDesc{Kind: "mix", Salt: 5}, nodeDesc{Kind: "arr", Salt: 6})
		for p := 0; p < 12; p++ {
			for k := 0; k < p%5; k++ {
				d.Ops = append(d.Ops, opDesc{Op: "set", N: p, V: p + k})
			}
		}
		for p := 0; p < 12; p++ {
			d.Ops = append(d.Ops, opDesc{Op: "connect", N: 12, Port: fmt.Sprintf("V.%d", p), Src: p})
			d.Ops = append(d.Ops, opDesc{Op: "read", N: 12})
		}
		d.Ops = append(d.Ops, opDesc{Op: "connect", N: 12, Port: "V2", Src: 3}, opDesc{Op: "connect", N: 12, Port: "A", Src: 7},
			opDesc{Op: "connect", N: 13, Port: "Values.0", Src: 12}, opDesc{Op: "connect", N: 13, Port: "Values.0", Src: 12})
		for k := 0; k < 8; k++ {
			d.Ops = append(d.Ops, opDesc{Op: "read", N: 13})
		}
		d.Ops = append(d.Ops, opDesc{Op: "disconnect", N: 12, Port: "V.2"}, opDesc{Op: "read", N: 13}, opDesc{Op: "read", N: 13},
			opDesc{Op: "set", N: 10, V: 77}, opDesc{Op: "read", N: 12}, opDesc{Op: "read", N: 13}, opDesc{Op: "read", N: 13},
			opDesc{Op: "connect", N: 12, Port: "V.5", Src: 2}, opDesc{Op: "disconnect", N: 12, Port: "V.11"},
			opDesc{Op: "read", N: 13}, opDesc{Op: "disconnect", N: 12, Port: "V"}, opDesc{Op: "read", N: 13}, opDesc{Op: "read", N: 13})
		out = append(out, d)
	}
	// upstream re-wiring: the wiring of a node in the cone changes, not the node's own
	{
		d := histDesc{Shape: "fixed-upstream-rewire", Nodes: []nodeDesc{{Kind: "pval", Init: 5}, {Kind: "pval", Init: 6}, {Kind: "chain", Salt: 1}, {Kind: "chain", Salt: 2}, {Kind: "chain", Salt: 3}}}
		d.Ops = []opDesc{{Op: "connect", N: 2, Port: "In", Src: 0}, {Op: "connect", N: 3, Port: "In", Src: 2}, {Op: "connect", N: 4, Port: "In", Src: 3},
			{Op: "read", N: 4}, {Op: "read", N: 4}, {Op: "connect", N: 2, Port: "In", Src: 1}, {Op: "read", N: 4}, {Op: "read", N: 4},
			{Op: "disconnect", N: 2, Port: "In"}, {Op: "read", N: 3}, {Op: "read", N: 4}, {Op: "set", N: 0, V: 9}, {Op: "read", N: 4},
			{Op: "connect", N: 2, Port: "In", Src: 0}, {Op: "read", N: 2}, {Op: "read", N: 4}, {Op: "read", N: 4}}
		out = append(out, d)
	}
	// nodes without any input: executed once, then clean for ever
	{
		d := histDesc{Shape: "fixed-zero-input", Nodes: []nodeDesc{{Kind: "chain", Salt: 11}, {Kind: "arr", Salt: 12}, {Kind: "mix", Salt: 13}, {Kind: "pval", Init: 8}}}
		for k := 0; k < 3; k++ {
			d.Ops = append(d.Ops, opDesc{Op: "read", N: 0}, opDesc{Op: "read", N: 1}, opDesc{Op: "read", N: 2})
		}
		d.Ops = append(d.Ops, opDesc{Op: "connect", N: 1, Port: "Values.0", Src: 3}, opDesc{Op: "read", N: 1}, opDesc{Op: "disconnect", N: 1, Port: "Values.0"},
			opDesc{Op: "read", N: 1}, opDesc{Op: "read", N: 1}, opDesc{Op: "set", N: 3, V: 1}, opDesc{Op: "read", N: 1})
		out = append(out, d)
	}
	// chain read repeatedly: every node executes once per change of the parameter
	{
		d := histDesc{Shape: "fixed-chain-twice", Nodes: []nodeDesc{{Kind: "vnode", Init: 5}, {Kind: "chain", Salt: 1}, {Kind: "bin", Salt: 2}, {Kind: "chain", Salt: 3}}}
		d.Ops = []opDesc{{Op: "connect", N: 1, Port: "In", Src: 0}, {Op: "connect", N: 2, Port: "A", Src: 1}, {Op: "connect", N: 2, Port: "B", Src: 0},
			{Op: "connect", N: 3, Port: "In", Src: 2}, {Op: "read", N: 3}, {Op: "read", N: 3}, {Op: "read", N: 3}, {Op: "set", N: 0, V: 6},
			{Op: "read", N: 3}, {Op: "read", N: 3}, {Op: "read", N: 2}, {Op: "set", N: 0, V: 7}, {Op: "read", N: 1}, {Op: "read", N: 3}, {Op: "read", N: 3}}
		out = append(out, d)
	}
	// only the LAST dependency (in name order) changes; then a delete in the middle and again the last one
	{
		d := histDesc{Shape: "fixed-last-input", Nodes: []nodeDesc{{Kind: "pval", Init: 1}, {Kind: "pval", Init: 2}, {Kind: "vnode", Init: 3}, {Kind: "two", Salt: 4}, {Kind: "chain", Salt: 5}}}
		d.Ops = []opDesc{{Op: "connect", N: 3, Port: "S", Src: 0}, {Op: "connect", N: 3, Port: "X.0", Src: 0}, {Op: "connect", N: 3, Port: "X.1", Src: 1}, {Op: "connect", N: 3, Port: "X.2", Src: 2},
			{Op: "connect", N: 3, Port: "W.0", Src: 1}, {Op: "connect", N: 4, Port: "In", Src: 3},
			{Op: "read", N: 4}, {Op: "set", N: 2, V: 30}, {Op: "read", N: 4}, {Op: "read", N: 4},
			{Op: "disconnect", N: 3, Port: "X.1"}, {Op: "read", N: 4}, {Op: "set", N: 2, V: 31}, {Op: "read", N: 4}, {Op: "read", N: 4},
			{Op: "disconnect", N: 3, Port: "S"}, {Op: "read", N: 4}, {Op: "set", N: 2, V: 32}, {Op: "read", N: 4},
			{Op: "disconnect", N: 3, Port: "X.1"}, {Op: "read", N: 3}, {Op: "set", N: 2, V: 33}, {Op: "read", N: 4}, {Op: "set", N: 1, V: 20}, {Op: "read", N: 4}, {Op: "read", N: 4}}
		out = append(out, d)
	}
	// a processor that FAILS in a non-terminal position: parameter -> B (may fail) -> C, and D = bin(B, Q).
	// The parameter toggles between values B rejects and values B accepts; the consumers are read without
	// reading B directly.  Value() of a failed node serves what Process() returned next to the error.
	{
		const saltB = 17
		hashB := func(v int) int { return (((saltB*37+11+1)%hmod)*31 + v) % hmod }
		var bad, good []int
		for v := 1; len(bad) < 3 || len(good) < 3; v++ {
			if hashB(v)%3 == 0 {
				bad = append(bad, v)
			} else {
				good = append(good, v)
			}
		}
		d := histDesc{Shape: "fixed-failing-upstream", Nodes: []nodeDesc{{Kind: "pval", Init: good[0]}, {Kind: "vnode", Init: 50},
			{Kind: "chain", Salt: saltB, Fail: true}, {Kind: "chain", Salt: 23}, {Kind: "bin", Salt: 29}}}
		d.Ops = []opDesc{{Op: "connect", N: 2, Port: "In", Src: 0}, {Op: "connect", N: 3, Port: "In", Src: 2},
			{Op: "connect", N: 4, Port: "B", Src: 2}, {Op: "connect", N: 4, Port: "A", Src: 1},
			{Op: "set", N: 0, V: bad[0]}, {Op: "read", N: 3}, {Op: "read", N: 3},
			{Op: "set", N: 0, V: good[1]}, {Op: "read", N: 3}, {Op: "read", N: 3}, {Op: "read", N: 4}, // B succeeded: D caches the good B
			{Op: "set", N: 0, V: bad[1]}, {Op: "set", N: 1, V: 51}, {Op: "read", N: 4}, {Op: "read", N: 4}, {Op: "read", N: 3},
			{Op: "set", N: 0, V: bad[2]}, {Op: "read", N: 2}, {Op: "read", N: 3}, {Op: "read", N: 4},
			{Op: "set", N: 0, V: good[2]}, {Op: "set", N: 1, V: 52}, {Op: "read", N: 4}, {Op: "read", N: 3}, {Op: "read", N: 2}, {Op: "read", N: 2}}
		out = append(out, d)
	}
	// two array ports and plain ports before / between / after them, all dependencies at pairwise different
	// versions, then 240 idle reads: an inconsistent (or map-order dependent) enumeration shows up as executions
	{
		d := histDesc{Shape: "fixed-multi-idle"}
		for p := 0; p < 7; p++ {
			d.Nodes = append(d.Nodes, nodeDesc{Kind: []string{"pval", "vnode"}[p%2], Init: 10 + p})
		}
		d.Nodes = append(d.Nodes, nodeDesc{Kind: "multi", Salt: 31}, nodeDesc{Kind: "chain", Salt: 37})
		for p := 0; p < 7; p++ {
			for k := 0; k < p; k++ {
				d.Ops = append(d.Ops, opDesc{Op: "set", N: p, V: 100*p + k})
			}
		}
		d.Ops = append(d.Ops, opDesc{Op: "connect", N: 7, Port: "Inputs.0", Src: 0}, opDesc{Op: "connect", N: 7, Port: "Inputs.1", Src: 1},
			opDesc{Op: "connect", N: 7, Port: "Offset", Src: 2}, opDesc{Op: "connect", N: 7, Port: "Scales.0", Src: 3},
			opDesc{Op: "connect", N: 7, Port: "Scales.1", Src: 6}, opDesc{Op: "connect", N: 7, Port: "Zeta", Src: 4},
			opDesc{Op: "connect", N: 7, Port: "Alpha", Src: 5}, opDesc{Op: "connect", N: 8, Port: "In", Src: 7})
		for k := 0; k < 240; k++ {
			d.Ops = append(d.Ops, opDesc{Op: "read", N: 8 - k%2})
		}
		out = append(out, d)
	}
	// prefix-sharing names (I, In.k, In2, Ina, Inb.k), different versions, 200 idle reads
	{
		d := histDesc{Shape: "fixed-prefix-idle"}
		for p := 0; p < 7; p++ {
			d.Nodes = append(d.Nodes, nodeDesc{Kind: []string{"vnode", "pval"}[p%2], Init: 20 + p})
		}
		d.Nodes = append(d.Nodes, nodeDesc{Kind: "pref", Salt: 41})
		for p := 0; p < 7; p++ {
			for k := 0; k < (p*3)%7; k++ {
				d.Ops = append(d.Ops, opDesc{Op: "set", N: p, V: 100*p + k})
			}
		}
		d.Ops = append(d.Ops, opDesc{Op: "connect", N: 7, Port: "In.0", Src: 0}, opDesc{Op: "connect", N: 7, Port: "In.1", Src: 1},
			opDesc{Op: "connect", N: 7, Port: "In2", Src: 2}, opDesc{Op: "connect", N: 7, Port: "Ina", Src: 3},
			opDesc{Op: "connect", N: 7, Port: "Inb.0", Src: 4}, opDesc{Op: "connect", N: 7, Port: "I", Src: 5}, opDesc{Op: "connect", N: 7, Port: "Inb.1", Src: 6})
		for k := 0; k < 200; k++ {
			d.Ops = append(d.Ops, opDesc{Op: "read", N: 7})
		}
		out = append(out, d)
	}
	// a processor that PANICS in a non-terminal position, shared by several consumers.  nodes: 0 P, 1 Q,
	// 2 B = chain(P) panics for some P, 3 C = chain(B), 4 D = bin(B, Q), 5 E = chain(B), 6 Y = chain(Q),
	// 7 F = bin(B: Y, A: B) — F reads Y (completes, is committed) before B panics.
	{
		const saltB = 17
		hashB := func(v int) int { return (((saltB*37+11+1)%hmod)*31 + v) % hmod }
		var bad, good []int
		for v := 1; len(bad) < 3 || len(good) < 4; v++ {
			if hashB(v)%5 == 0 {
				bad = append(bad, v)
			} else {
				good = append(good, v)
			}
		}
		d := histDesc{Shape: "fixed-panicking-upstream", Nodes: []nodeDesc{{Kind: "pval", Init: good[0]}, {Kind: "vnode", Init: 50},
			{Kind: "chain", Salt: saltB, Pan: true}, {Kind: "chain", Salt: 23}, {Kind: "bin", Salt: 29}, {Kind: "chain", Salt: 31},
			{Kind: "chain", Salt: 37}, {Kind: "bin", Salt: 41}}}
		d.Ops = []opDesc{{Op: "connect", N: 2, Port: "In", Src: 0}, {Op: "connect", N: 3, Port: "In", Src: 2},
			{Op: "connect", N: 4, Port: "B", Src: 2}, {Op: "connect", N: 4, Port: "A", Src: 1}, {Op: "connect", N: 5, Port: "In", Src: 2},
			{Op: "connect", N: 6, Port: "In", Src: 1}, {Op: "connect", N: 7, Port: "B", Src: 6}, {Op: "connect", N: 7, Port: "A", Src: 2},
			{Op: "read", N: 3}, {Op: "read", N: 4}, {Op: "read", N: 5}, {Op: "read", N: 7},
			{Op: "set", N: 0, V: bad[0]}, {Op: "read", N: 3}, {Op: "read", N: 3}, {Op: "read", N: 5}, // panics, panics again, other consumer panics
			{Op: "set", N: 1, V: 51}, {Op: "read", N: 4}, {Op: "read", N: 7}, {Op: "read", N: 7}, {Op: "read", N: 6}, {Op: "read", N: 2},
			{Op: "set", N: 0, V: good[1]}, {Op: "read", N: 3}, {Op: "read", N: 4}, {Op: "read", N: 5}, {Op: "read", N: 7}, {Op: "read", N: 7},
			{Op: "set", N: 0, V: bad[1]}, {Op: "set", N: 1, V: 52}, {Op: "read", N: 7}, {Op: "read", N: 4}, {Op: "read", N: 6},
			{Op: "set", N: 0, V: good[2]}, {Op: "read", N: 7}, {Op: "read", N: 4}, {Op: "read", N: 3}, {Op: "read", N: 5},
			{Op: "set", N: 0, V: bad[2]}, {Op: "read", N: 2}, {Op: "set", N: 0, V: good[3]}, {Op: "read", N: 5}, {Op: "read", N: 5}}
		out = append(out, d)
	}
	// input fields declared with looser interface types (one-method interface, any, embedding interface)
	// holding node outputs next to a normally declared one: every one of them is a dependency
	{
		d := histDesc{Shape: "fixed-loose-fields", Nodes: []nodeDesc{{Kind: "vnode", Init: 1}, {Kind: "pval", Init: 2}, {Kind: "vnode", Init: 3}, {Kind: "pval", Init: 4},
			{Kind: "loose", Salt: 43}, {Kind: "chain", Salt: 47}, {Kind: "chain", Salt: 53}}}
		d.Ops = []opDesc{{Op: "connect", N: 4, Port: "One", Src: 0}, {Op: "connect", N: 4, Port: "N", Src: 1}, {Op: "connect", N: 4, Port: "Any", Src: 2},
			{Op: "connect", N: 4, Port: "Emb", Src: 3}, {Op: "connect", N: 5, Port: "In", Src: 4}, {Op: "connect", N: 6, Port: "In", Src: 1},
			{Op: "read", N: 5}, {Op: "read", N: 5},
			{Op: "set", N: 0, V: 11}, {Op: "read", N: 5}, {Op: "read", N: 5}, {Op: "set", N: 2, V: 13}, {Op: "read", N: 5}, {Op: "read", N: 4},
			{Op: "set", N: 3, V: 14}, {Op: "read", N: 4}, {Op: "read", N: 5}, {Op: "set", N: 1, V: 12}, {Op: "read", N: 5},
			{Op: "disconnect", N: 4, Port: "Any"}, {Op: "read", N: 5}, {Op: "set", N: 2, V: 23}, {Op: "read", N: 5},
			{Op: "connect", N: 4, Port: "Any", Src: 6}, {Op: "read", N: 5}, {Op: "set", N: 1, V: 22}, {Op: "read", N: 5}, {Op: "read", N: 5},
			{Op: "disconnect", N: 4, Port: "One"}, {Op: "connect", N: 4, Port: "One", Src: 6}, {Op: "set", N: 0, V: 21}, {Op: "read", N: 5},
			{Op: "set", N: 1, V: 32}, {Op: "read", N: 4}, {Op: "read", N: 5}, {Op: "read", N: 5}}
		out = append(out, d)
	}
	// compound parameters (slice / map / struct decoded element-wise by encoding/json): consumers execute,
	// then an update that is REJECTED after a valid prefix; the consumers must still serve (and, after a
	// forced re-execution through another input, recompute from) the OLD parameter value
	{
		d := histDesc{Shape: "fixed-rejected-update", Nodes: []nodeDesc{{Kind: "pslice", Init: 3}, {Kind: "pmap", Init: 4}, {Kind: "pstruct", Init: 5}, {Kind: "pval", Init: 6},
			{Kind: "quad", Salt: 59}, {Kind: "chain", Salt: 61}}}
		d.Ops = []opDesc{{Op: "connect", N: 4, Port: "D", Src: 0}, {Op: "connect", N: 4, Port: "A", Src: 1}, {Op: "connect", N: 4, Port: "C", Src: 2},
			{Op: "connect", N: 4, Port: "B", Src: 3}, {Op: "connect", N: 5, Port: "In", Src: 4}, {Op: "read", N: 5},
			{Op: "set", N: 0, V: 10}, {Op: "set", N: 1, V: 20}, {Op: "set", N: 2, V: 30}, {Op: "read", N: 5}, {Op: "read", N: 5},
			{Op: "badset", N: 0, V: 100}, {Op: "read", N: 0}, {Op: "read", N: 5}, {Op: "set", N: 3, V: 7}, {Op: "read", N: 5},
			{Op: "badset", N: 1, V: 200}, {Op: "read", N: 1}, {Op: "read", N: 5}, {Op: "set", N: 3, V: 8}, {Op: "read", N: 5},
			{Op: "badset", N: 2, V: 300}, {Op: "read", N: 2}, {Op: "read", N: 5}, {Op: "set", N: 3, V: 9}, {Op: "read", N: 5},
			{Op: "badset", N: 3, V: 1}, {Op: "read", N: 5}, {Op: "set", N: 0, V: 11}, {Op: "read", N: 5}, {Op: "badset", N: 0, V: 400}, {Op: "read", N: 4}, {Op: "read", N: 5}}
		out = append(out, d)
	}
	// an array input is edited AFTER its consumers were read, and the consumer furthest downstream is read next,
	// before anything else happens (append, delete at index, clear, append again; one and two levels below)
	{
		d := histDesc{Shape: "fixed-array-downstream", Nodes: []nodeDesc{{Kind: "pval", Init: 1}, {Kind: "vnode", Init: 2}, {Kind: "pval", Init: 3},
			{Kind: "arr", Salt: 67}, {Kind: "chain", Salt: 71}, {Kind: "chain", Salt: 73}, {Kind: "multi", Salt: 79, New: true}, {Kind: "bin", Salt: 83}}}
		d.Ops = []opDesc{{Op: "set", N: 0, V: 11}, {Op: "set", N: 1, V: 12}, {Op: "set", N: 1, V: 13},
			{Op: "connect", N: 3, Port: "Values.0", Src: 0}, {Op: "connect", N: 3, Port: "Values.1", Src: 1}, {Op: "connect", N: 4, Port: "In", Src: 3},
			{Op: "connect", N: 5, Port: "In", Src: 4}, {Op: "connect", N: 6, Port: "Inputs.0", Src: 0}, {Op: "connect", N: 6, Port: "Scales.0", Src: 1},
			{Op: "connect", N: 6, Port: "Offset", Src: 2}, {Op: "connect", N: 7, Port: "A", Src: 6}, {Op: "connect", N: 7, Port: "B", Src: 3},
			{Op: "read", N: 5}, {Op: "read", N: 7},
			{Op: "connect", N: 3, Port: "Values.2", Src: 2}, {Op: "read", N: 5}, {Op: "read", N: 5},
			{Op: "disconnect", N: 3, Port: "Values.0"}, {Op: "read", N: 5}, {Op: "read", N: 4},
			{Op: "connect", N: 6, Port: "Scales.1", Src: 2}, {Op: "read", N: 7}, {Op: "disconnect", N: 6, Port: "Inputs.0"}, {Op: "read", N: 7}, {Op: "read", N: 7},
			{Op: "disconnect", N: 3, Port: "Values"}, {Op: "read", N: 5}, {Op: "read", N: 7},
			{Op: "connect", N: 3, Port: "Values.0", Src: 1}, {Op: "read", N: 7}, {Op: "read", N: 5},
			{Op: "connect", N: 6, Port: "Inputs.0", Src: 3}, {Op: "read", N: 7}, {Op: "disconnect", N: 3, Port: "Values.0"}, {Op: "read", N: 7},
			{Op: "connect", N: 3, Port: "Values.7", Src: 0, Ref: 1}, {Op: "read", N: 7}, {Op: "read", N: 5}, {Op: "read", N: 3}}
		out = append(out, d)
	}
	// failing processors read directly, twice and three times with nothing changed, then through consumers
	{
		const saltB = 17
		hashB := func(v int) int { return (((saltB*37+11+1)%hmod)*31 + v) % hmod }
		var bad, good []int
		for v := 1; len(bad) < 2 || len(good) < 2; v++ {
			if hashB(v)%3 == 0 {
				bad = append(bad, v)
			} else {
				good = append(good, v)
			}
		}
		d := histDesc{Shape: "fixed-failing-twice", Nodes: []nodeDesc{{Kind: "pval", Init: good[0]}, {Kind: "chain", Salt: saltB, Fail: true},
			{Kind: "chain", Salt: 19, Fail: true}, {Kind: "bin", Salt: 113}, {Kind: "arr", Salt: 3, Fail: true}}}
		d.Ops = []opDesc{{Op: "connect", N: 1, Port: "In", Src: 0}, {Op: "connect", N: 2, Port: "In", Src: 1}, {Op: "connect", N: 3, Port: "A", Src: 1},
			{Op: "connect", N: 3, Port: "B", Src: 2}, {Op: "read", N: 4}, {Op: "read", N: 4}, {Op: "read", N: 4},
			{Op: "set", N: 0, V: bad[0]}, {Op: "read", N: 1}, {Op: "read", N: 1}, {Op: "read", N: 1}, {Op: "read", N: 3}, {Op: "read", N: 3},
			{Op: "read", N: 2}, {Op: "read", N: 2}, {Op: "read", N: 1},
			{Op: "set", N: 0, V: good[1]}, {Op: "read", N: 1}, {Op: "read", N: 1}, {Op: "read", N: 2}, {Op: "read", N: 2},
			{Op: "set", N: 0, V: bad[1]}, {Op: "read", N: 3}, {Op: "read", N: 3}, {Op: "read", N: 1}, {Op: "read", N: 1}, {Op: "read", N: 2}, {Op: "read", N: 2}}
		out = append(out, d)
	}
	// one parameter of every kind (flag-initialised, slice, map, struct, string, float, bool, vector, vector array,
	// file, int, value node; 0-2 subscribers each) feeding one array port: updates, rejected updates, zero values
	{
		ks := []string{"pcli", "pslice", "pmap", "pstruct", "pstr", "pf64", "pbool", "pvec3", "pvarr", "pfile", "pval", "vnode"}
		d := histDesc{Shape: "fixed-param-kinds"}
		for i, k := range ks {
			d.Nodes = append(d.Nodes, nodeDesc{Kind: k, Init: 40 + i, Subs: i % 3})
		}
		np := len(ks)
		d.Nodes = append(d.Nodes, nodeDesc{Kind: "arr", Salt: 89}, nodeDesc{Kind: "chain", Salt: 91, New: true})
		for i := range ks {
			d.Ops = append(d.Ops, opDesc{Op: "read", N: i}, opDesc{Op: "connect", N: np, Port: fmt.Sprintf("Values.%d", i), Src: i})
		}
		d.Ops = append(d.Ops, opDesc{Op: "connect", N: np + 1, Port: "In", Src: np}, opDesc{Op: "read", N: np + 1})
		for i := range ks {
			d.Ops = append(d.Ops, opDesc{Op: "set", N: i, V: 10 + i}, opDesc{Op: "read", N: np + 1})
		}
		for i, k := range ks {
			if !noBadMessage(k) {
				d.Ops = append(d.Ops, opDesc{Op: "badset", N: i, V: 500 + i}, opDesc{Op: "read", N: i}, opDesc{Op: "read", N: np + 1})
			}
		}
		for i := range ks {
			d.Ops = append(d.Ops, opDesc{Op: "set", N: i, V: 0})
		}
		d.Ops = append(d.Ops, opDesc{Op: "read", N: np + 1})
		for i := range ks {
			d.Ops = append(d.Ops, opDesc{Op: "read", N: i}, opDesc{Op: "set", N: i, V: 0}, opDesc{Op: "read", N: np + 1}, opDesc{Op: "read", N: np + 1})
		}
		d.Ops = append(d.Ops, opDesc{Op: "set", N: 0, V: 5}, opDesc{Op: "read", N: 0}, opDesc{Op: "read", N: np + 1})
		out = append(out, d)
	}
	// nodes built by nodes.NewStruct (zero-input ones are read before anything else), one source wired through its
	// three references (Out(), the node itself, a renamed output), a string output offered to int ports
	{
		d := histDesc{Shape: "fixed-refs", Nodes: []nodeDesc{{Kind: "pval", Init: 1}, {Kind: "vnode", Init: 2}, {Kind: "chain", Salt: 97, New: true},
			{Kind: "quad", Salt: 101, New: true}, {Kind: "arr", Salt: 103, New: true}, {Kind: "wide", Salt: 107, New: true}, {Kind: "chain", Salt: 109}}}
		d.Ops = []opDesc{{Op: "read", N: 4}, {Op: "read", N: 4}, {Op: "read", N: 5}, {Op: "read", N: 5}, {Op: "read", N: 2}, {Op: "read", N: 2},
			{Op: "connect", N: 2, Port: "In", Src: 0}, {Op: "connect", N: 3, Port: "D", Src: 2}, {Op: "connect", N: 3, Port: "A", Src: 2, Ref: 1},
			{Op: "connect", N: 3, Port: "C", Src: 2, Ref: 2}, {Op: "connect", N: 3, Port: "B", Src: 1, Ref: 1}, {Op: "connect", N: 6, Port: "In", Src: 3, Ref: 2},
			{Op: "read", N: 6}, {Op: "read", N: 6}, {Op: "badconnect", N: 6, Port: "In"}, {Op: "read", N: 6}, {Op: "badconnect", N: 4, Port: "Values.0"},
			{Op: "read", N: 4}, {Op: "badconnect", N: 4, Port: "Values"}, {Op: "read", N: 4},
			{Op: "set", N: 0, V: 7}, {Op: "read", N: 6}, {Op: "set", N: 1, V: 8}, {Op: "read", N: 3}, {Op: "read", N: 6},
			{Op: "connect", N: 2, Port: "In", Src: 0, Ref: 1}, {Op: "read", N: 6}, {Op: "read", N: 6},
			{Op: "connect", N: 4, Port: "Values.0", Src: 3, Ref: 1}, {Op: "connect", N: 4, Port: "Values.1", Src: 3, Ref: 2}, {Op: "read", N: 4},
			{Op: "set", N: 0, V: 9}, {Op: "read", N: 4}, {Op: "read", N: 4}, {Op: "disconnect", N: 3, Port: "A"}, {Op: "read", N: 4}, {Op: "read", N: 6}}
		out = append(out, d)
	}
	// versions far apart: a parameter updated 256 times between two reads, a node executed 256 times between two
	// reads of its consumer (a version remembered or compared in fewer bits would look unchanged)
	{
		d := histDesc{Shape: "fixed-many-updates", Nodes: []nodeDesc{{Kind: "pval", Init: 1}, {Kind: "vnode", Init: 2}, {Kind: "bin", Salt: 127}, {Kind: "chain", Salt: 131}}}
		d.Ops = []opDesc{{Op: "connect", N: 2, Port: "A", Src: 0}, {Op: "connect", N: 2, Port: "B", Src: 1}, {Op: "connect", N: 3, Port: "In", Src: 2}, {Op: "read", N: 3}}
		for k := 0; k < 256; k++ {
			d.Ops = append(d.Ops, opDesc{Op: "set", N: 0, V: 3 + k%5})
		}
		d.Ops = append(d.Ops, opDesc{Op: "read", N: 3}, opDesc{Op: "read", N: 3})
		for k := 0; k < 256; k++ {
			d.Ops = append(d.Ops, opDesc{Op: "set", N: 1, V: 9 + k%3})
		}
		d.Ops = append(d.Ops, opDesc{Op: "read", N: 3}, opDesc{Op: "read", N: 3})
		for k := 0; k < 256; k++ {
			d.Ops = append(d.Ops, opDesc{Op: "set", N: 1, V: 20 + k%7}, opDesc{Op: "read", N: 2})
		}
		d.Ops = append(d.Ops, opDesc{Op: "read", N: 3}, opDesc{Op: "read", N: 3})
		out = append(out, d)
	}
	return out
}
