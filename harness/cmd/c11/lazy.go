// Processors that do NOT read every input on every run (the model of Graph/Nodes.v assumes they do): a harness
// type that reads one of two inputs depending on a selector, and the repository's repeat.LineNodeData, which
// returns before reading Start / End when Times <= 0.  These histories are judged on the Go side only (the Coq
// term of the case is the empty history): freshness against a from-scratch evaluation with the same reading
// discipline, executions only after a change in the cone, version = executions, the node read reports Processed.
//
// On a tree without /repo commit 6677351 (fixes/C11-unread-stale-input.patch) the rule "executes only if something
// changed" fails: an input that is Stale and was not read keeps Outdated() true for ever, so the node (and
// everything downstream) re-executes on every read.  Those failures carry FailKey lazyKey.
package main

import (
	"encoding/json"
	"fmt"

	"verif/harness/hx"

	"github.com/EliCDavis/polyform/generator/parameter"
	"github.com/EliCDavis/polyform/math/trs"
	"github.com/EliCDavis/polyform/modeling/repeat"
	"github.com/EliCDavis/polyform/nodes"
	"github.com/EliCDavis/vector/vector3"
)

const lazyKey = "nodes:unread-stale-input-reexecutes"

type LazyData struct {
	m   *meta
	Sel out
	A   out
	B   out
}

func (d LazyData) Process() (int, error) {
	d.m.execs++
	s := nodes.TryGetOutputValue(d.Sel, 0)
	if s%2 == 0 {
		return (d.m.salt*31 + s*7 + nodes.TryGetOutputValue(d.A, -1)) % hmod, nil
	}
	return (d.m.salt*37 + s*11 + nodes.TryGetOutputValue(d.B, -2)) % hmod, nil
}

type VecData struct {
	m *meta
	X out
}

func (d VecData) Process() (vector3.Float64, error) {
	d.m.execs++
	return vector3.New(float64(nodes.TryGetOutputValue(d.X, 1)), 0, 0), nil
}

type CountData struct {
	m  *meta
	In nodes.NodeOutput[[]trs.TRS]
}

func (d CountData) Process() (int, error) {
	d.m.execs++
	ts := d.In.Value()
	acc := d.m.salt + len(ts)
	for _, t := range ts {
		acc = (acc*31 + int(t.Position().X()*8)) % hmod
	}
	return acc, nil
}

// nodes: 0 sel, 1 pa, 2 pb (parameters); 3 U = chain(pa), 4 W = chain(pb), 5 L = lazy(sel, U, W), 6 T = chain(L);
// 7 times, 8 px, 9 py (parameters); 10 S = vec(px), 11 E = vec(py), 12 line(S, E, times), 13 C = count(line)
type lazyDesc struct {
	Init []int    `json:"init"` // starting values of parameters 0,1,2,7,8,9
	Ops  []opDesc `json:"ops"`  // set (n = parameter) / read (n = struct node)
}

var lazyParams = []int{0, 1, 2, 7, 8, 9}
var lazyDeps = map[int][]int{3: {1}, 4: {2}, 5: {0, 3, 4}, 6: {5}, 10: {8}, 11: {9}, 12: {7, 10, 11}, 13: {12}}

func lazyReaches(n, p int) bool {
	if n == p {
		return true
	}
	for _, d := range lazyDeps[n] {
		if lazyReaches(d, p) {
			return true
		}
	}
	return false
}

func runLazy(run *hx.Run, d lazyDesc) {
	val := map[int]int{}
	for i, p := range lazyParams {
		val[p] = d.Init[i]
	}
	ps := map[int]*parameter.Value[int]{}
	for _, p := range lazyParams {
		ps[p] = &parameter.Value[int]{Name: fmt.Sprintf("p%d", p), DefaultValue: val[p]}
	}
	ms := map[int]*meta{}
	for _, n := range []int{3, 4, 5, 6, 10, 11, 12, 13} {
		ms[n] = &meta{salt: 100 + n}
	}
	u := &nodes.Struct[int, ChainData]{Data: ChainData{m: ms[3], In: ps[1].Out()}}
	w := &nodes.Struct[int, ChainData]{Data: ChainData{m: ms[4], In: ps[2].Out()}}
	l := &nodes.Struct[int, LazyData]{Data: LazyData{m: ms[5], Sel: ps[0].Out(), A: u.Out(), B: w.Out()}}
	t := &nodes.Struct[int, ChainData]{Data: ChainData{m: ms[6], In: l.Out()}}
	s := &nodes.Struct[vector3.Float64, VecData]{Data: VecData{m: ms[10], X: ps[8].Out()}}
	e := &nodes.Struct[vector3.Float64, VecData]{Data: VecData{m: ms[11], X: ps[9].Out()}}
	line := &nodes.Struct[[]trs.TRS, repeat.LineNodeData]{Data: repeat.LineNodeData{Start: s.Out(), End: e.Out(), Times: ps[7].Out()}}
	c := &nodes.Struct[int, CountData]{Data: CountData{m: ms[13], In: line.Out()}}
	all := map[int]nodes.Node{3: u, 4: w, 5: l, 6: t, 10: s, 11: e, 12: line, 13: c}
	intValue := map[int]func() int{3: u.Value, 4: w.Value, 5: l.Value, 6: t.Value, 13: c.Value}
	// the line node has no execution counter of its own: its Version() stands in (checked against the consumers)
	chain := func(salt, x int) int { return (((salt*37+11+1)%hmod)*31 + x) % hmod }
	var scratch func(n int) int
	scratch = func(n int) int {
		switch n {
		case 3:
			return chain(ms[3].salt, val[1])
		case 4:
			return chain(ms[4].salt, val[2])
		case 5:
			if val[0]%2 == 0 {
				return (ms[5].salt*31 + val[0]*7 + scratch(3)) % hmod
			}
			return (ms[5].salt*37 + val[0]*11 + scratch(4)) % hmod
		case 6:
			return chain(ms[6].salt, scratch(5))
		case 13:
			var ts []trs.TRS
			if val[7] > 0 {
				ts, _ = repeat.LineNodeData{Start: nodes.Value(vector3.New(float64(val[8]), 0, 0)).Out(),
					End: nodes.Value(vector3.New(float64(val[9]), 0, 0)).Out(), Times: nodes.Value(val[7]).Out()}.Process()
			}
			acc := ms[13].salt + len(ts)
			for _, x := range ts {
				acc = (acc*31 + int(x.Position().X()*8)) % hmod
			}
			return acc
		}
		return 0
	}
	touched := map[int]bool{}
	for n := range all {
		touched[n] = true
	}
	execs := func(n int) int {
		if n == 12 {
			return line.Version()
		}
		return ms[n].execs
	}
	fail, failKey := "", ""
	report := func(msg string, unread bool) {
		if fail == "" {
			fail = msg
			if unread {
				failKey = lazyKey
			}
		}
	}
	// does n have a wired input node that is Stale right now (one its last run did not read)?
	hasStaleInput := func(n int) bool {
		for _, dd := range lazyDeps[n] {
			if sn, ok := all[dd]; ok && sn.State() != nodes.Processed {
				return true
			}
		}
		return false
	}
	spurious := 0
	for i, o := range d.Ops {
		before, bver := map[int]int{}, map[int]int{}
		for n, nd := range all {
			before[n], bver[n] = execs(n), nd.Version()
		}
		switch o.Op {
		case "set":
			if _, err := ps[o.N].ApplyMessage([]byte(fmt.Sprint(o.V))); err != nil {
				report(fmt.Sprintf("op %d: update rejected: %v", i, err), false)
			}
			val[o.N] = o.V
			for n := range all {
				if lazyReaches(n, o.N) {
					touched[n] = true
				}
			}
		case "read":
			var got, want int
			cl, msg := guard(func() {
				if o.N == 12 {
					got, want = len(line.Value()), 0
					if val[7] > 0 {
						ts, _ := repeat.LineNodeData{Start: nodes.Value(vector3.New(float64(val[8]), 0, 0)).Out(),
							End: nodes.Value(vector3.New(float64(val[9]), 0, 0)).Out(), Times: nodes.Value(val[7]).Out()}.Process()
						want = len(ts)
					}
				} else if o.N == 10 || o.N == 11 {
					if o.N == 10 {
						got, want = int(s.Value().X()), val[8]
					} else {
						got, want = int(e.Value().X()), val[9]
					}
				} else {
					got, want = intValue[o.N](), scratch(o.N)
				}
			})
			if cl != "" {
				report(fmt.Sprintf("op %d: read of node %d panicked: %s", i, o.N, msg), false)
			}
			if got != want {
				report(fmt.Sprintf("op %d: node %d returned %d, from-scratch evaluation gives %d", i, o.N, got, want), false)
			}
			if all[o.N].State() != nodes.Processed {
				report(fmt.Sprintf("op %d: node %d reports Stale right after being read", i, o.N), hasStaleInput(o.N))
			}
		}
		for n, nd := range all {
			de, dv := execs(n)-before[n], nd.Version()-bver[n]
			if de != dv {
				report(fmt.Sprintf("op %d: node %d: version moved by %d, executions by %d", i, n, dv, de), false)
			}
			if de > 1 || (de > 0 && o.Op != "read") {
				report(fmt.Sprintf("op %d (%s): node %d executed %d times", i, o.Op, n, de), false)
			}
			if de > 0 && !touched[n] {
				spurious++
				report(fmt.Sprintf("op %d: node %d executed again although nothing in its cone changed since its last execution", i, n), hasStaleInput(n))
			}
			if de > 0 {
				touched[n] = false
			}
		}
	}
	key, _ := json.Marshal(d)
	run.Count("shape:lazy-processors")
	if spurious > 0 {
		run.Count("lazy:spurious-executions")
	}
	run.Add(hx.Case{Kind: "lazy", Desc: d, Coq: "CHist [] [] [] []", Nontriv: len(d.Ops) > 4, Key: string(key), GoFail: fail, FailKey: failKey})
}

func fixedLazy() []lazyDesc {
	rd := func(n int) opDesc { return opDesc{Op: "read", N: n} }
	st := func(n, v int) opDesc { return opDesc{Op: "set", N: n, V: v} }
	return []lazyDesc{
		// selector even: A is read, B never; B's parameter changes; idle reads of L and T
		{Init: []int{2, 5, 6, 0, 3, 9}, Ops: []opDesc{rd(6), rd(6), rd(5), st(2, 7), rd(6), rd(6), rd(5), rd(5), st(0, 3), rd(6), rd(6), st(1, 8), rd(6), rd(6), rd(4), rd(3), rd(6),
			st(0, 4), rd(5), rd(5), rd(6)}},
		// repeat.LineNodeData with Times = 0: Start / End are never evaluated; idle reads of the line and its consumer
		{Init: []int{1, 1, 1, 0, 3, 9}, Ops: []opDesc{rd(13), rd(13), rd(12), rd(12), st(8, 4), rd(13), rd(13), st(7, 4), rd(13), rd(13), rd(12), st(9, 11), rd(13), rd(13),
			st(7, 0), rd(13), rd(13), st(8, 5), rd(13), rd(13), rd(10), rd(13)}},
	}
}

func genLazy(r *hx.Rng) lazyDesc {
	d := lazyDesc{Init: []int{r.Intn(4), r.Intn(50), r.Intn(50), hx.Pick(r, []int{0, 0, 3, 4}), r.Intn(20), 20 + r.Intn(20)}}
	structs := []int{3, 4, 5, 6, 6, 5, 10, 11, 12, 13, 13}
	for k := r.Range(20, 50); k > 0; k-- {
		switch x := r.Intn(10); {
		case x < 3:
			p := hx.Pick(r, lazyParams)
			v := r.Intn(50)
			if p == 0 {
				v = r.Intn(5)
			}
			if p == 7 {
				v = hx.Pick(r, []int{0, 0, 3, 4, 5}) // (Times = 1 makes repeat.Line panic: makeslice with a negative length)
			}
			d.Ops = append(d.Ops, opDesc{Op: "set", N: p, V: v})
		case x < 5:
			n := hx.Pick(r, structs)
			for j := r.Range(2, 4); j > 0; j-- {
				d.Ops = append(d.Ops, opDesc{Op: "read", N: n})
			}
		default:
			d.Ops = append(d.Ops, opDesc{Op: "read", N: hx.Pick(r, structs)})
		}
	}
	return d
}
