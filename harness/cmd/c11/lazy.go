// Processors that do NOT read every input on every run: a harness type with a gate discipline (ports Gate, A, B read
// in this order; stop after Gate when its value is 0 mod 3, after A when it is 1 mod 3) and the repository's
// repeat.LineNodeData (reads Times; returns before reading Start / End when Times <= 0).  The histories are rendered
// as CLazy cases: Check/C11.v runs lrun / lvalue / lstale of Graph/NodesLazy.v on the same operations and compares
// Version(), State() and the execution counter of ALL nodes after EVERY operation (corr_ok), and judges freshness and
// "executes only after a change in its cone" on the observations (prop_ok).  The same rules are also evaluated here
// (GoFail), so that the finding below carries its structural key.
//
// On a tree without /repo commit 6677351 an input that is Stale and was not read keeps Outdated() true for ever: the
// node (and everything downstream) re-executes on every read.  Those failures carry FailKey lazyKey.
package main

import (
	"encoding/json"
	"fmt"
	"strings"

	"verif/harness/hx"

	"github.com/EliCDavis/polyform/generator/parameter"
	"github.com/EliCDavis/polyform/math/trs"
	"github.com/EliCDavis/polyform/modeling/repeat"
	"github.com/EliCDavis/polyform/nodes"
	"github.com/EliCDavis/vector/vector3"
)

const lazyKey = "nodes:unread-stale-input-reexecutes"

type GateData struct {
	m    *meta
	Gate out
	A    out
	B    out
}

func (d GateData) Process() (int, error) {
	g := nodes.TryGetOutputValue(d.Gate, 0)
	ports := [][]out{sc(d.Gate)}
	if g%3 != 0 {
		ports = append(ports, sc(d.A))
		if g%3 != 1 {
			ports = append(ports, sc(d.B))
		}
	}
	return d.m.run(ports)
}

type VecData struct {
	m *meta
	X out
}

func (d VecData) Process() (vector3.Float64, error) {
	d.m.execs++
	return vector3.New(float64(nodes.TryGetOutputValue(d.X, 1)), 0, 0), nil
}

// int abstraction of what repeat.Line returns: Line(s, e, t-2) = t-2 points in between, then s, then e
func encLine(ts []trs.TRS) int {
	if len(ts) < 2 {
		return 0
	}
	return (len(ts)*10007 + int(ts[len(ts)-2].Position().X())*101 + int(ts[len(ts)-1].Position().X())) % hmod
}

type CountData struct {
	m  *meta
	In nodes.NodeOutput[[]trs.TRS]
}

func (d CountData) Process() (int, error) {
	d.m.execs++
	if d.In == nil {
		return hashPorts(d.m.salt, [][]int{{}}), nil
	}
	return hashPorts(d.m.salt, [][]int{{encLine(d.In.Value())}}), nil
}

func hashPorts(salt int, ports [][]int) int {
	acc := salt
	for _, p := range ports {
		acc = (acc*37 + 11 + len(p)) % hmod
		for _, x := range p {
			acc = (acc*31 + x) % hmod
		}
	}
	return acc
}

// nodes: 0 gate, 1 pa, 2 pb (parameters); 3 U = chain(pa), 4 W = chain(pb), 5 G = gate(Gate: 0, A: U, B: W), 6 T = chain(G);
// 7 times, 8 px, 9 py (parameters); 10 S = vec(px), 11 E = vec(py), 12 line(Times: 7, Start: S, End: E), 13 C = count(line)
type lazyDesc struct {
	Init []int    `json:"init"` // starting values of parameters 0,1,2,7,8,9
	Ops  []opDesc `json:"ops"`  // connect (the wiring, first) / set (n = parameter) / read
}

const lazyN = 14

var lazyParams = []int{0, 1, 2, 7, 8, 9}
var lazySalt = map[int]int{3: 103, 4: 104, 5: 105, 6: 106, 13: 113}

func lazySetup() []opDesc {
	c := func(n int, port string, src int) opDesc { return opDesc{Op: "connect", N: n, Port: port, Src: src} }
	return []opDesc{c(3, "In", 1), c(4, "In", 2), c(5, "Gate", 0), c(5, "A", 3), c(5, "B", 4), c(6, "In", 5),
		c(10, "X", 8), c(11, "X", 9), c(12, "Times", 7), c(12, "Start", 10), c(12, "End", 11), c(13, "In", 12)}
}

func runLazy(run sink, d lazyDesc) {
	val := map[int]int{}
	ps := map[int]*parameter.Value[int]{}
	for i, p := range lazyParams {
		val[p] = d.Init[i]
		ps[p] = &parameter.Value[int]{Name: fmt.Sprintf("p%d", p), DefaultValue: d.Init[i]}
	}
	ms := map[int]*meta{}
	for _, n := range []int{3, 4, 5, 6, 10, 11, 13} {
		ms[n] = &meta{salt: lazySalt[n]}
	}
	u := &nodes.Struct[int, ChainData]{Data: ChainData{m: ms[3]}}
	w := &nodes.Struct[int, ChainData]{Data: ChainData{m: ms[4]}}
	g := &nodes.Struct[int, GateData]{Data: GateData{m: ms[5]}}
	t := &nodes.Struct[int, ChainData]{Data: ChainData{m: ms[6]}}
	s := &nodes.Struct[vector3.Float64, VecData]{Data: VecData{m: ms[10]}}
	e := &nodes.Struct[vector3.Float64, VecData]{Data: VecData{m: ms[11]}}
	line := &nodes.Struct[[]trs.TRS, repeat.LineNodeData]{}
	c := &nodes.Struct[int, CountData]{Data: CountData{m: ms[13]}}
	all := map[int]nodes.Node{3: u, 4: w, 5: g, 6: t, 10: s, 11: e, 12: line, 13: c}
	ref := map[int]nodes.NodeOutputReference{3: u.Out(), 4: w.Out(), 5: g.Out(), 6: t.Out(), 10: s.Out(), 11: e.Out(), 12: line.Out(), 13: c.Out()}
	for _, p := range lazyParams {
		all[p], ref[p] = ps[p], ps[p].Out()
	}
	value := map[int]func() int{3: u.Value, 4: w.Value, 5: g.Value, 6: t.Value, 13: c.Value,
		10: func() int { return int(s.Value().X()) }, 11: func() int { return int(e.Value().X()) }, 12: func() int { return encLine(line.Value()) }}
	for _, p := range lazyParams {
		p := p
		value[p] = func() int { return ps[p].Value() }
	}
	// wiring as applied so far (for the from-scratch evaluation and the cone)
	wired := map[int]map[string]int{}
	in := func(n int, port string) (int, bool) { x, ok := wired[n][port]; return x, ok }
	var scratch func(n int) int
	chainOf := func(n int) int {
		if src, ok := in(n, "In"); ok {
			return hashPorts(lazySalt[n], [][]int{{scratch(src)}})
		}
		return hashPorts(lazySalt[n], [][]int{{}})
	}
	opt := func(n int, port string) []int {
		if src, ok := in(n, port); ok {
			return []int{scratch(src)}
		}
		return []int{}
	}
	scratch = func(n int) int {
		switch n {
		case 3, 4, 6:
			return chainOf(n)
		case 5:
			gp := opt(5, "Gate")
			gv := 0
			if len(gp) > 0 {
				gv = gp[0]
			}
			ports := [][]int{gp}
			if gv%3 != 0 {
				ports = append(ports, opt(5, "A"))
				if gv%3 != 1 {
					ports = append(ports, opt(5, "B"))
				}
			}
			return hashPorts(lazySalt[5], ports)
		case 10, 11:
			if src, ok := in(n, "X"); ok {
				return scratch(src)
			}
			return 1
		case 12:
			ts, okT := in(12, "Times")
			ss, okS := in(12, "Start")
			es, okE := in(12, "End")
			if !okT || !okS || !okE || scratch(ts) <= 0 {
				return 0
			}
			return (scratch(ts)*10007 + scratch(ss)*101 + scratch(es)) % hmod
		case 13:
			if src, ok := in(13, "In"); ok {
				return hashPorts(lazySalt[13], [][]int{{scratch(src)}})
			}
			return hashPorts(lazySalt[13], [][]int{{}})
		}
		return val[n]
	}
	var reaches func(n, p int) bool
	reaches = func(n, p int) bool {
		if n == p {
			return true
		}
		for _, src := range wired[n] {
			if reaches(src, p) {
				return true
			}
		}
		return false
	}
	isParam := func(n int) bool { _, ok := ps[n]; return ok }
	execs := func(n int) int {
		switch {
		case isParam(n):
			return 0
		case n == 12:
			return line.Version() // the repository's processor has no counter: one version step = one completed run
		}
		return ms[n].execs
	}
	table := func() []rowT {
		t := make([]rowT, lazyN)
		for n := 0; n < lazyN; n++ {
			t[n] = rowT{ver: all[n].Version(), stale: all[n].State() != nodes.Processed, execs: execs(n)}
		}
		return t
	}
	touched := map[int]bool{}
	for n := 0; n < lazyN; n++ {
		touched[n] = true
	}
	fail, failKey := "", ""
	report := func(msg string, unread bool) {
		if fail == "" {
			fail = msg
			if unread {
				failKey = lazyKey
			}
		}
	}
	hasStaleInput := func(n int) bool {
		for _, src := range wired[n] {
			if all[src].State() != nodes.Processed {
				return true
			}
		}
		return false
	}

	var b strings.Builder
	b.WriteString("CLazy [")
	kinds := make([]string, lazyN)
	for n := 0; n < lazyN; n++ {
		if n > 0 {
			b.WriteString(";")
		}
		kinds[n] = "0"
		switch {
		case isParam(n):
			fmt.Fprintf(&b, "dP %d", val[n])
		case n == 5:
			fmt.Fprintf(&b, "dG [(\"Gate\"%%string,false);(\"A\"%%string,false);(\"B\"%%string,false)] %d", lazySalt[5])
			kinds[n] = "1"
		case n == 10 || n == 11:
			b.WriteString("dV")
		case n == 12:
			b.WriteString("dL")
			kinds[n] = "2"
		default:
			fmt.Fprintf(&b, "dS [(\"In\"%%string,false)] %d", lazySalt[n])
		}
	}
	fmt.Fprintf(&b, "]\n  [%s]\n  [", strings.Join(kinds, ";"))
	prev := table()
	for i, r := range prev {
		if i > 0 {
			b.WriteString(";")
		}
		b.WriteString(coqRow(r))
	}
	b.WriteString("]\n  [")
	spurious, execReads := 0, 0
	for i, o := range d.Ops {
		if i > 0 {
			b.WriteString(";\n   ")
		}
		var got int
		cl, msg := guard(func() {
			switch o.Op {
			case "set":
				p, ok := ps[o.N]
				if !ok {
					panic(fmt.Errorf("harness: node %d is not a parameter", o.N))
				}
				if _, err := p.ApplyMessage([]byte(fmt.Sprint(o.V))); err != nil {
					panic(err)
				}
			case "connect":
				all[o.N].SetInput(o.Port, nodes.Output{NodeOutput: ref[o.Src]})
			default:
				got = value[o.N]()
			}
		})
		if cl == "crash" {
			report(fmt.Sprintf("op %d %+v: runtime panic: %s", i, o, msg), false)
		}
		acc := cl == ""
		if acc {
			switch o.Op {
			case "set":
				val[o.N] = o.V
				for n := 0; n < lazyN; n++ {
					if reaches(n, o.N) {
						touched[n] = true
					}
				}
			case "connect":
				if wired[o.N] == nil {
					wired[o.N] = map[string]int{}
				}
				wired[o.N][o.Port] = o.Src
				for n := 0; n < lazyN; n++ {
					if reaches(n, o.N) {
						touched[n] = true
					}
				}
			}
		}
		cur := table()
		vs, ss := "None", "None"
		if acc && o.Op == "read" {
			want := scratch(o.N)
			vs, ss = fmt.Sprintf("(Some %d%%Z)", got), fmt.Sprintf("(Some %d%%Z)", want)
			if got != want {
				report(fmt.Sprintf("op %d: node %d returned %d, from-scratch evaluation gives %d", i, o.N, got, want), false)
			}
			if cur[o.N].stale {
				report(fmt.Sprintf("op %d: node %d reports Stale right after being read", i, o.N), hasStaleInput(o.N))
			}
		}
		chg := []string{}
		for n := 0; n < lazyN; n++ {
			if cur[n] != prev[n] {
				chg = append(chg, fmt.Sprintf("chg %d %d %s %d", n, cur[n].ver, hx.CoqBool(cur[n].stale), cur[n].execs))
			}
			if isParam(n) {
				continue
			}
			de, dv := cur[n].execs-prev[n].execs, cur[n].ver-prev[n].ver
			if de != dv {
				report(fmt.Sprintf("op %d: node %d: version moved by %d, executions by %d", i, n, dv, de), false)
			}
			if de > 1 || (de > 0 && o.Op != "read") {
				report(fmt.Sprintf("op %d (%s): node %d executed %d times", i, o.Op, n, de), false)
			}
			if de > 0 && !touched[n] {
				spurious++
				report(fmt.Sprintf("op %d: node %d executed again although nothing in its cone changed since its last execution", i, n), hasStaleInput(n))
			}
			if de > 0 {
				touched[n] = false
				if o.Op == "read" {
					execReads++
				}
			}
		}
		prev = cur
		od := o
		od.Ref = 0
		fmt.Fprintf(&b, "(%s, Obs %s false %s %s [%s])", coqOp(od, "pval"), hx.CoqBool(!acc), vs, ss, strings.Join(chg, ";"))
	}
	b.WriteString("]")
	key, _ := json.Marshal(d)
	run.Count("shape:lazy-processors")
	if spurious > 0 {
		run.Count("lazy:spurious-executions")
	}
	run.Add(hx.Case{Kind: "lazy", Desc: d, Coq: b.String(), Nontriv: execReads > 0, Key: string(key), GoFail: fail, FailKey: failKey})
}

func fixedLazy() []lazyDesc {
	rd := func(n int) opDesc { return opDesc{Op: "read", N: n} }
	st := func(n, v int) opDesc { return opDesc{Op: "set", N: n, V: v} }
	return []lazyDesc{
		// gate 0: neither A nor B is read; their parameters change; idle reads; then gate 1 (A only), gate 2 (both)
		{Init: []int{0, 5, 6, 0, 3, 9}, Ops: append(lazySetup(), rd(6), rd(6), rd(5), st(2, 7), rd(6), rd(6), rd(5), rd(5), st(0, 1), rd(6), rd(6), st(2, 8), rd(6), rd(6),
			st(1, 9), rd(6), rd(6), rd(4), rd(6), st(0, 2), rd(5), rd(5), st(2, 10), rd(6), rd(6), st(0, 3), rd(6), st(1, 11), rd(6), rd(6), rd(3), rd(6))},
		// repeat.LineNodeData with Times = 0: Start / End are never evaluated; idle reads of the line and of its consumer
		{Init: []int{1, 1, 1, 0, 3, 9}, Ops: append(lazySetup(), rd(13), rd(13), rd(12), rd(12), st(8, 4), rd(13), rd(13), st(7, 4), rd(13), rd(13), rd(12), st(9, 11), rd(13), rd(13),
			st(7, 0), rd(13), rd(13), st(8, 5), rd(13), rd(13), rd(10), rd(13), st(7, 2), rd(13), rd(13))},
		// reads while the wiring is still incomplete (gate and vector helpers with unconnected inputs)
		{Init: []int{2, 4, 5, 3, 1, 2}, Ops: append([]opDesc{rd(5), rd(5), rd(10), rd(6), rd(6)}, append(lazySetup(), rd(6), rd(13), rd(13), rd(6))...)},
	}
}

func genLazy(r *hx.Rng) lazyDesc {
	d := lazyDesc{Init: []int{r.Intn(6), r.Intn(50), r.Intn(50), hx.Pick(r, []int{0, 0, 3, 4}), r.Intn(20), 20 + r.Intn(20)}}
	d.Ops = lazySetup()
	structs := []int{3, 4, 5, 6, 6, 5, 10, 11, 12, 13, 13}
	for k := r.Range(20, 50); k > 0; k-- {
		switch x := r.Intn(10); {
		case x < 3:
			p := hx.Pick(r, lazyParams)
			v := r.Intn(50)
			if p == 0 {
				v = r.Intn(6)
			}
			if p == 7 {
				v = hx.Pick(r, []int{0, 0, 2, 3, 4, 5}) // (Times = 1 makes repeat.Line panic: makeslice with a negative length)
			}
			d.Ops = append(d.Ops, opDesc{Op: "set", N: p, V: v})
		case x < 5:
			n := hx.Pick(r, structs)
			for j := r.Range(2, 4); j > 0; j-- {
				d.Ops = append(d.Ops, opDesc{Op: "read", N: n})
			}
		default:
			d.Ops = append(d.Ops, opDesc{Op: "read", N: hx.Pick(r, structs)})
		}
	}
	return d
}
