// C11 harness: node graph freshness / recomputation.  Builds graphs out of harness-defined
// nodes.Struct node types and repository parameter nodes, applies histories of parameter updates,
// re-wiring and reads to the real code, and after EVERY operation records Version(), State() and the
// execution counter of ALL nodes (as deltas) for Check/C11.v (model comparison + direct oracle).
package main

import (
	"bytes"
	"context"
	"encoding/json"
	"flag"
	"fmt"
	"os"
	"os/exec"
	"path/filepath"
	"runtime"
	"strconv"
	"strings"
	"time"

	"verif/harness/hx"

	"github.com/EliCDavis/polyform/generator/parameter"
	"github.com/EliCDavis/polyform/nodes"
	"github.com/EliCDavis/vector/vector3"
)

type nodeDesc struct {
	Kind string `json:"kind"` // "pval" (parameter.Value[int]), "vnode" (nodes.ValueNode[int]) or a struct kind
	Salt int    `json:"salt,omitempty"`
	Init int    `json:"init,omitempty"`
	Fail bool   `json:"fail,omitempty"` // struct kinds: Process() returns an error when its hash is divisible by 3
	Pan  bool   `json:"pan,omitempty"`  // struct kinds: Process() panics when its hash is divisible by 5
	New  bool   `json:"new,omitempty"`  // struct kinds: built with nodes.NewStruct instead of a struct literal
	Subs int    `json:"subs,omitempty"` // number of subscribers registered with AddSubscription (where the node has it)
}
type opDesc struct {
	Op   string `json:"op"` // set | badset | connect | badconnect | disconnect | read
	N    int    `json:"n"`
	Port string `json:"port,omitempty"`
	Src  int    `json:"src,omitempty"`
	V    int    `json:"v,omitempty"`
	Ref  int    `json:"ref,omitempty"` // connect: which reference of the source is wired (0 = Out(), 1 = the node itself, 2 = a StructOutput under another name)
}
type histDesc struct {
	Shape string     `json:"shape"`
	Nodes []nodeDesc `json:"nodes"`
	Ops   []opDesc   `json:"ops"`
}

func isParam(k string) bool { return k == "pval" || k == "vnode" || k == "pcli" || isCompound(k) }

// parameters whose value is not an int: parameter.Value[T] for T = []int, map[string]int, struct{A, B int}, string,
// float64, bool, vector3.Float64, []vector3.Float64, and parameter.File ([]byte); consumers see them through an
// int-valued adapter
func isCompound(k string) bool {
	switch k {
	case "pslice", "pmap", "pstruct", "pstr", "pf64", "pbool", "pvec3", "pvarr", "pfile":
		return true
	}
	return false
}

// kinds without a rejectable update message (ValueNode.Set takes a Go value, parameter.File accepts every message)
func noBadMessage(k string) bool { return k == "vnode" || k == "pfile" }

// what a consumer sees of a parameter that was given v: the int itself, or an order-sensitive hash of the
// elements of the compound value built from v
func paramVal(kind string, v int) int {
	switch kind {
	case "pslice":
		return encInts([]int{v, v + 1, v % 7})
	case "pmap", "pstruct":
		return encInts([]int{v, v + 1})
	case "pstr":
		return encBytes([]byte(fmt.Sprintf("s%d", v)))
	case "pfile":
		return encBytes([]byte(fmt.Sprintf("f%d", v)))
	case "pf64":
		return 2*v + 1 // the float is v + 0.5
	case "pbool":
		return v % 2
	case "pvec3":
		return encInts([]int{v, v + 1, v + 2})
	case "pvarr":
		return encInts([]int{v, v + 1, v + 2, v + 3, 0, 0})
	}
	return v
}
func encBytes(b []byte) int {
	xs := make([]int, len(b))
	for i, c := range b {
		xs[i] = int(c)
	}
	return encInts(xs)
}
func encInts(xs []int) int {
	acc := 7
	for _, x := range xs {
		acc = (acc*131 + x) % hmod
	}
	return acc
}

// ---------------- harness mirror of wiring and parameter values (independent of polyform) ----------
type mirror struct {
	desc  []nodeDesc
	ports [][][]int // per node, per field (declaration order): connected node ids
	val   []int     // what consumers see (paramVal)
	raw   []int     // the v last given to a parameter
}

func newMirror(ns []nodeDesc) *mirror {
	m := &mirror{desc: ns, ports: make([][][]int, len(ns)), val: make([]int, len(ns)), raw: make([]int, len(ns))}
	for i, n := range ns {
		if isParam(n.Kind) {
			m.val[i] = paramVal(n.Kind, n.Init)
			m.raw[i] = n.Init
		} else {
			m.ports[i] = make([][]int, len(kinds[kindIndex(n.Kind)].Fields))
		}
	}
	return m
}
func (m *mirror) fields(n int) []field { return kinds[kindIndex(m.desc[n].Kind)].Fields }
func (m *mirror) deps(n int) []int {
	var out []int
	for _, p := range m.ports[n] {
		out = append(out, p...)
	}
	return out
}
func (m *mirror) reaches(from, to int) bool {
	if from == to {
		return true
	}
	for _, d := range m.deps(from) {
		if m.reaches(d, to) {
			return true
		}
	}
	return false
}

// number of paths starting at n (cost of one State() call), summed over all nodes by pathLoad
func (m *mirror) paths(n int, memo map[int]int) int {
	if v, ok := memo[n]; ok {
		return v
	}
	c := 1
	for _, d := range m.deps(n) {
		c += m.paths(d, memo)
		if c > 1<<30 {
			c = 1 << 30
		}
	}
	memo[n] = c
	return c
}
func (m *mirror) pathLoad() int {
	memo := map[int]int{}
	t := 0
	for i := range m.desc {
		t += m.paths(i, memo)
	}
	return t
}

// from-scratch evaluation; ok = false: the evaluation panics (inputs in declaration order, first panic aborts)
func (m *mirror) scratch(n int) (v int, ok bool) {
	if isParam(m.desc[n].Kind) {
		return m.val[n], true
	}
	acc := m.desc[n].Salt
	for _, p := range m.ports[n] {
		acc = (acc*37 + 11 + len(p)) % hmod
		for _, d := range p {
			x, ok := m.scratch(d)
			if !ok {
				return 0, false
			}
			acc = (acc*31 + x) % hmod
		}
	}
	if m.desc[n].Pan && acc%5 == 0 {
		return 0, false
	}
	if m.desc[n].Fail && acc%3 == 0 {
		return hmod + acc, true
	}
	return acc, true
}

// the documented meaning of SetInput on the mirror: "F" sets/clears a field, "F.k" appends / deletes at k
func (m *mirror) apply(o opDesc) bool {
	n := o.N
	if n < 0 || n >= len(m.desc) {
		return false
	}
	switch o.Op {
	case "read":
		return true
	case "set":
		if !isParam(m.desc[n].Kind) {
			return false
		}
		m.val[n] = paramVal(m.desc[n].Kind, o.V)
		m.raw[n] = o.V
		return true
	case "badset", "badconnect":
		return false // a rejected update / a connection of the wrong type changes nothing
	}
	if isParam(m.desc[n].Kind) {
		return false
	}
	name, suffix, dotted := strings.Cut(o.Port, ".")
	fi := -1
	for i, f := range m.fields(n) {
		if f.Name == name {
			fi = i
			break
		}
	}
	if fi < 0 {
		return false
	}
	arr := m.fields(n)[fi].Array
	switch {
	case o.Op == "connect" && dotted && arr:
		m.ports[n][fi] = append(append([]int{}, m.ports[n][fi]...), o.Src)
	case o.Op == "connect" && !dotted && !arr:
		m.ports[n][fi] = []int{o.Src}
	case o.Op == "disconnect" && !dotted:
		m.ports[n][fi] = nil
	case o.Op == "disconnect" && dotted && arr:
		k, err := strconv.Atoi(suffix)
		if err != nil || k < 0 || k >= len(m.ports[n][fi]) {
			return false
		}
		p := append([]int{}, m.ports[n][fi][:k]...)
		m.ports[n][fi] = append(p, m.ports[n][fi][k+1:]...)
	default:
		return false
	}
	return true
}

// struct-valued parameter
type pairAB struct{ A, B int }

// int view of a compound parameter for the harness processors: Node() is the repository's parameter node
// (its Version()/State() drive Outdated()), Value() hashes the current compound value
type adapter struct {
	node nodes.Node
	val  func() int
}

func (a adapter) Value() int       { return a.val() }
func (a adapter) Node() nodes.Node { return a.node }
func (a adapter) Port() string     { return "Out" }

// ---------------- running one history on the implementation ----------------
type rowT struct {
	ver   int
	stale bool
	execs int
}

// mkParam builds a parameter.Value[T] seen by the harness processors through the int adapter.  Update messages
// are handed over in a buffer that is overwritten right after ApplyMessage returns (a transport reusing its
// read buffer): the parameter must have decoded what it keeps.
func mkParam[T any](i int, def T, enc func(T) int, msg, badmsg func(v int) string) *live {
	p := &parameter.Value[T]{Name: fmt.Sprintf("p%d", i), DefaultValue: def}
	val := func() int { return enc(p.Value()) }
	send := func(s string) error {
		buf := []byte(s)
		_, err := p.ApplyMessage(buf)
		for k := range buf {
			buf[k] = '#'
		}
		return err
	}
	return &live{node: p, refs: []nodes.NodeOutputReference{adapter{node: p, val: val}}, value: val,
		set: func(v int) error { return send(msg(v)) }, bad: func(v int) error { return send(badmsg(v)) }}
}

func vec(a, b, c int) vector3.Float64 { return vector3.New(float64(a), float64(b), float64(c)) }
func encVecs(vs []vector3.Float64) int {
	var xs []int
	for _, v := range vs {
		xs = append(xs, int(v.X()), int(v.Y()), int(v.Z()))
	}
	return encInts(xs)
}

// counts the alerts a parameter sends to its subscribers (the subscriber list is part of the update path)
type alertCounter struct{ alerts, lastVersion int }

func (a *alertCounter) Alert(version int, state nodes.NodeState) { a.alerts++; a.lastVersion = version }

func buildLive(ns []nodeDesc) []*live {
	ls := make([]*live, len(ns))
	for i, n := range ns {
		init := n.Init
		switch n.Kind {
		case "pval":
			p := &parameter.Value[int]{Name: fmt.Sprintf("p%d", i), DefaultValue: n.Init}
			send := func(s string) error {
				buf := []byte(s)
				_, err := p.ApplyMessage(buf)
				for k := range buf {
					buf[k] = '#'
				}
				return err
			}
			ls[i] = &live{node: p, refs: []nodes.NodeOutputReference{p.Out(), p}, value: p.Value,
				set: func(v int) error { return send(strconv.Itoa(v)) }, bad: func(v int) error { return send(`"oops"`) }}
		case "pcli":
			// the starting value comes from a parsed command line flag (Value(): applied message, else flag, else
			// default); the default differs so that the order of the three sources is observable
			p := &parameter.Value[int]{Name: fmt.Sprintf("p%d", i), DefaultValue: n.Init + 1000,
				CLI: &parameter.CliConfig[int]{FlagName: fmt.Sprintf("p%d", i), Usage: "harness"}}
			fs := flag.NewFlagSet("c11", flag.ContinueOnError)
			p.InitializeForCLI(fs)
			if err := fs.Parse([]string{fmt.Sprintf("-p%d=%d", i, n.Init)}); err != nil {
				panic(err)
			}
			ls[i] = &live{node: p, refs: []nodes.NodeOutputReference{p.Out(), p}, value: p.Value,
				set: func(v int) error { _, err := p.ApplyMessage([]byte(strconv.Itoa(v))); return err },
				bad: func(v int) error { _, err := p.ApplyMessage([]byte(`{"v":1}`)); return err }}
		case "pslice":
			ls[i] = mkParam(i, []int{init, init + 1, init % 7}, encInts,
				func(v int) string { return fmt.Sprintf("[%d,%d,%d]", v, v+1, v%7) },
				func(v int) string { return fmt.Sprintf("[%d,%d,\"oops\"]", v+5, v+6) })
		case "pmap":
			ls[i] = mkParam(i, map[string]int{"a": init, "b": init + 1}, func(m map[string]int) int { return encInts([]int{m["a"], m["b"]}) },
				func(v int) string { return fmt.Sprintf(`{"a":%d,"b":%d}`, v, v+1) },
				func(v int) string { return fmt.Sprintf(`{"a":%d,"b":"oops"}`, v+5) })
		case "pstruct":
			ls[i] = mkParam(i, pairAB{A: init, B: init + 1}, func(x pairAB) int { return encInts([]int{x.A, x.B}) },
				func(v int) string { return fmt.Sprintf(`{"A":%d,"B":%d}`, v, v+1) },
				func(v int) string { return fmt.Sprintf(`{"A":%d,"B":"oops"}`, v+5) })
		case "pstr":
			ls[i] = mkParam(i, fmt.Sprintf("s%d", init), func(x string) int { return encBytes([]byte(x)) },
				func(v int) string { return fmt.Sprintf(`"s%d"`, v) },
				func(v int) string { return fmt.Sprintf(`"s%d`, v+5) })
		case "pf64":
			ls[i] = mkParam(i, float64(init)+0.5, func(x float64) int { return int(x * 2) },
				func(v int) string { return fmt.Sprintf("%d.5", v) },
				func(v int) string { return fmt.Sprintf(`"%d.5"`, v+5) })
		case "pbool":
			ls[i] = mkParam(i, init%2 == 1, func(x bool) int {
				if x {
					return 1
				}
				return 0
			},
				func(v int) string { return strconv.FormatBool(v%2 == 1) },
				func(v int) string { return strconv.Itoa(1 - v%2) })
		case "pvec3":
			ls[i] = mkParam(i, vec(init, init+1, init+2), func(x vector3.Float64) int { return encVecs([]vector3.Float64{x}) },
				func(v int) string { return fmt.Sprintf(`{"x":%d,"y":%d,"z":%d}`, v, v+1, v+2) },
				func(v int) string { return fmt.Sprintf(`{"x":%d,"y":"oops"}`, v+5) })
		case "pvarr":
			ls[i] = mkParam(i, []vector3.Float64{vec(init, init+1, init+2), vec(init+3, 0, 0)}, encVecs,
				func(v int) string {
					return fmt.Sprintf(`[{"x":%d,"y":%d,"z":%d},{"x":%d,"y":0,"z":0}]`, v, v+1, v+2, v+3)
				},
				func(v int) string { return fmt.Sprintf(`[{"x":%d,"y":%d,"z":%d},{"x":"oops"}]`, v+5, v+6, v+7) })
		case "pfile":
			// parameter.File keeps the message slice it is given, so every message is a fresh slice
			p := &parameter.File{Name: fmt.Sprintf("p%d", i), DefaultValue: []byte(fmt.Sprintf("f%d", init))}
			val := func() int { return encBytes(p.Value()) }
			ls[i] = &live{node: p, refs: []nodes.NodeOutputReference{adapter{node: p, val: val}}, value: val,
				set: func(v int) error { _, err := p.ApplyMessage([]byte(fmt.Sprintf("f%d", v))); return err }}
		case "vnode":
			p := nodes.Value(n.Init)
			ls[i] = &live{node: p, refs: []nodes.NodeOutputReference{p.Out(), p}, value: func() int { return p.Value() }, set: func(v int) error { p.Set(v); return nil }}
		default:
			ls[i] = newStruct(n.Kind, n.Salt, n.Fail, n.Pan, n.New)
		}
		if sub, ok := ls[i].node.(nodes.Subscribable); ok {
			for k := 0; k < n.Subs; k++ {
				ls[i].alerts = append(ls[i].alerts, &alertCounter{})
				sub.AddSubscription(ls[i].alerts[k])
			}
		}
	}
	return ls
}

// guard runs f; returns ("", nil) | ("declared", msg) | ("crash", msg)
func guard(f func()) (class string, msg string) {
	defer func() {
		if r := recover(); r != nil {
			if _, ok := r.(runtime.Error); ok {
				class, msg = "crash", fmt.Sprint(r)
			} else {
				class, msg = "declared", fmt.Sprint(r)
			}
		}
	}()
	f()
	return "", ""
}

func table(ls []*live) ([]rowT, string) {
	t := make([]rowT, len(ls))
	fail := ""
	for i, l := range ls {
		cl, msg := guard(func() {
			t[i].ver = l.node.Version()
			t[i].stale = l.node.State() != nodes.Processed
			// State() is defined through Outdated() (which is what Value() asks): they must agree
			if l.outdated != nil && l.outdated() != t[i].stale && fail == "" {
				fail = fmt.Sprintf("node %d: Outdated() = %v but State() == Stale is %v", i, !t[i].stale, t[i].stale) // (they differ)
			}
		})
		if cl != "" && fail == "" {
			fail = fmt.Sprintf("Version()/State() of node %d panicked: %s", i, msg)
		}
		if l.m != nil {
			t[i].execs = l.m.execs
		}
	}
	return t, fail
}

func coqOp(o opDesc, kind string) string {
	switch o.Op {
	case "set":
		return fmt.Sprintf("opS %d %d", o.N, paramVal(kind, o.V))
	case "badset", "badconnect":
		return fmt.Sprintf("opX %d", o.N)
	case "connect":
		return fmt.Sprintf("opC %d %s%%string %d", o.N, hx.CoqString(o.Port), o.Src)
	case "disconnect":
		return fmt.Sprintf("opD %d %s%%string", o.N, hx.CoqString(o.Port))
	}
	return fmt.Sprintf("opR %d", o.N)
}
func coqRow(r rowT) string { return fmt.Sprintf("mkrow %d %s %d", r.ver, hx.CoqBool(r.stale), r.execs) }

func runHist(run sink, d histDesc) {
	// drop operations the harness must not execute: a cycle makes the Go code recurse forever
	mir := newMirror(d.Nodes)
	ls := buildLive(d.Nodes)
	var b strings.Builder
	b.WriteString("CHist [")
	for i, n := range d.Nodes {
		if i > 0 {
			b.WriteString(";")
		}
		if isParam(n.Kind) {
			fmt.Fprintf(&b, "dP %d", paramVal(n.Kind, n.Init))
		} else {
			fs := []string{}
			for _, f := range kinds[kindIndex(n.Kind)].Fields {
				fs = append(fs, fmt.Sprintf("(%s%%string,%s)", hx.CoqString(f.Name), hx.CoqBool(f.Array)))
			}
			c := "dS"
			if n.Fail {
				c = "dSF"
			}
			fmt.Fprintf(&b, "%s [%s] %d", c, strings.Join(fs, ";"), n.Salt)
		}
	}
	b.WriteString("]\n  [")
	for i, n := range d.Nodes {
		if i > 0 {
			b.WriteString(";")
		}
		if !isParam(n.Kind) && n.Pan {
			fmt.Fprintf(&b, "Some %d", n.Salt)
		} else {
			b.WriteString("None")
		}
	}
	b.WriteString("]\n  [")
	prev, fail := table(ls)
	for i, r := range prev {
		if i > 0 {
			b.WriteString(";")
		}
		b.WriteString(coqRow(r))
	}
	b.WriteString("]\n  [")
	kept := []opDesc{}
	execReads, edits, rejected, panickedReads := 0, 0, 0, 0
	for _, o := range d.Ops {
		if o.N < 0 || o.N >= len(d.Nodes) {
			continue
		}
		if o.Op == "connect" {
			if o.Src < 0 || o.Src >= len(d.Nodes) || (!isParam(d.Nodes[o.N].Kind) && mir.reaches(o.Src, o.N)) {
				continue // would create a cycle (or dangling id): outside the property's histories
			}
		}
		if len(kept) > 0 {
			b.WriteString(";\n   ")
		}
		kept = append(kept, o)
		var val int
		cl, msg := guard(func() {
			l := ls[o.N]
			switch o.Op {
			case "set":
				if l.set == nil {
					panic(fmt.Errorf("harness: node %d is not a parameter", o.N))
				}
				if err := l.set(o.V); err != nil {
					panic(err)
				}
			case "badset":
				if l.bad == nil {
					panic(fmt.Errorf("harness: node %d takes no update messages", o.N))
				}
				err := l.bad(o.V)
				if err == nil {
					panic(fmt.Errorf("harness: malformed update of node %d was accepted", o.N))
				}
				panic(err)
			case "connect":
				refs := ls[o.Src].refs
				l.node.SetInput(o.Port, nodes.Output{NodeOutput: refs[o.Ref%len(refs)]})
			case "badconnect":
				// an output of another value type: reflect refuses the assignment, nothing may change
				l.node.SetInput(o.Port, nodes.Output{NodeOutput: nodes.Value("text").Out()})
				panic(fmt.Errorf("harness: a string output was accepted by int port %q of node %d", o.Port, o.N))
			case "disconnect":
				l.node.SetInput(o.Port, nodes.Output{})
			default:
				val = l.value()
			}
		})
		if cl == "crash" && fail == "" {
			fail = fmt.Sprintf("op %d %+v: runtime panic: %s", len(kept)-1, o, msg)
		}
		panicked := o.Op == "read" && cl == "declared" && msg == errPanic.Error()
		if panicked {
			cl = "" // not a rejection: the read failed because a processor panicked; what completed before stays
			panickedReads++
		}
		acc := cl == ""
		if acc {
			mir.apply(o)
			if o.Op != "read" {
				edits++
			}
		} else {
			rejected++
		}
		cur, f2 := table(ls)
		if f2 != "" && fail == "" {
			fail = f2
		}
		chg := []string{}
		grew := false
		for i := range cur {
			if cur[i] != prev[i] {
				chg = append(chg, fmt.Sprintf("chg %d %d %s %d", i, cur[i].ver, hx.CoqBool(cur[i].stale), cur[i].execs))
				if cur[i].execs > prev[i].execs {
					grew = true
				}
			}
		}
		if grew && o.Op == "read" {
			execReads++
		}
		prev = cur
		vs, ss := "None", "None"
		if acc && o.Op == "read" {
			if !panicked {
				vs = fmt.Sprintf("(Some %d%%Z)", val)
			}
			if sv, ok := mir.scratch(o.N); ok {
				ss = fmt.Sprintf("(Some %d%%Z)", sv)
			}
		}
		fmt.Fprintf(&b, "(%s, Obs %s %s %s %s [%s])", coqOp(o, d.Nodes[o.N].Kind), hx.CoqBool(!acc), hx.CoqBool(panicked), vs, ss, strings.Join(chg, ";"))
	}
	b.WriteString("]")
	d.Ops = kept
	key, _ := json.Marshal(d)
	run.Count("shape:" + d.Shape)
	run.Count(fmt.Sprintf("nodes:%02d-%02d", len(d.Nodes)/5*5, len(d.Nodes)/5*5+4))
	if rejected > 0 {
		run.Count("with-rejected-op")
	}
	seen := map[string]bool{}
	for _, n := range d.Nodes {
		if isParam(n.Kind) {
			seen["param:"+n.Kind] = true
			if n.Subs > 0 {
				seen["with-subscribers"] = true
			}
		} else if n.New {
			seen["with-NewStruct"] = true
		}
	}
	for _, o := range kept {
		if o.Op == "connect" && o.Ref > 0 {
			seen[fmt.Sprintf("with-ref-%d", o.Ref)] = true
		}
		if o.Op == "badconnect" {
			seen["with-wrong-type-connect"] = true
		}
		if o.Op == "set" && o.V == 0 {
			seen["with-zero-value-set"] = true
		}
	}
	for k := range seen {
		run.Count(k)
	}
	failedRuns := 0
	for _, l := range ls {
		if l.m != nil {
			failedRuns += l.m.fails
		}
	}
	if failedRuns > 0 {
		run.Count("with-failed-Process")
	}
	if panickedReads > 0 {
		run.Count("with-panicked-read")
	}
	maxArr := 0
	for n := range mir.ports {
		for _, p := range mir.ports[n] {
			if len(p) > maxArr {
				maxArr = len(p)
			}
		}
	}
	if maxArr >= 11 {
		run.Count("final-array>=11")
	}
	run.Add(hx.Case{Kind: "hist", Desc: d, Coq: b.String(), Nontriv: execReads >= 1 && edits >= 1, Key: string(key), GoFail: fail})
}

// where a history's case and its distribution counters go: the run itself, or the collector of a child process
type sink interface {
	Add(c hx.Case)
	Count(key string)
}

type job struct {
	Kind string          `json:"kind"` // "hist" | "lazy"
	Raw  json.RawMessage `json:"raw"`
}

func runJob(out sink, j job) {
	if j.Kind == "lazy" {
		var d lazyDesc
		if err := json.Unmarshal(j.Raw, &d); err == nil && len(d.Init) == len(lazyParams) {
			runLazy(out, d)
		}
		return
	}
	var d histDesc
	if err := json.Unmarshal(j.Raw, &d); err == nil {
		runHist(out, d)
	}
}

// ---- child processes: the implementation runs in a child (one per batch, with a deadline), so that a history on
// which the real code brings the process down (unbounded recursion: a fatal stack overflow cannot be recovered) or
// hangs becomes a failing case with a concrete replay instead of a dead harness ----
type xcase struct {
	Kind    string          `json:"kind"`
	Desc    json.RawMessage `json:"desc"`
	Coq     string          `json:"coq"`
	Nontriv bool            `json:"nontriv"`
	Key     string          `json:"key"`
	GoFail  string          `json:"gofail"`
	FailKey string          `json:"failkey"`
}
type jobResult struct {
	Cases  []xcase  `json:"cases"`
	Counts []string `json:"counts"`
}
type collector struct{ res jobResult }

func (c *collector) Add(k hx.Case) {
	desc, _ := json.Marshal(k.Desc)
	c.res.Cases = append(c.res.Cases, xcase{k.Kind, desc, k.Coq, k.Nontriv, k.Key, k.GoFail, k.FailKey})
}
func (c *collector) Count(key string) { c.res.Counts = append(c.res.Counts, key) }

// child: -c11child <jobs.json> <results.jsonl>; one line per completed job, flushed before the next one starts
func childMain(jobsFile, outFile string) {
	raw, err := os.ReadFile(jobsFile)
	if err != nil {
		os.Exit(3)
	}
	var jobs []job
	if json.Unmarshal(raw, &jobs) != nil {
		os.Exit(3)
	}
	f, err := os.Create(outFile)
	if err != nil {
		os.Exit(3)
	}
	defer f.Close()
	for _, j := range jobs {
		c := &collector{}
		runJob(c, j)
		line, _ := json.Marshal(c.res)
		f.Write(append(line, '\n'))
		f.Sync()
	}
}

const batchSize = 40

func batchDeadline() time.Duration {
	if s := os.Getenv("VERIF_C11_BATCH_SECONDS"); s != "" {
		if n, err := strconv.Atoi(s); err == nil && n > 0 {
			return time.Duration(n) * time.Second
		}
	}
	return 300 * time.Second
}

func runJobs(run *hx.Run, jobs []job) {
	exe, err := os.Executable()
	if err != nil {
		for _, j := range jobs { // no way to start a child: run in this process
			runJob(run, j)
		}
		return
	}
	dir, _ := os.MkdirTemp("", "c11-batch-")
	defer os.RemoveAll(dir)
	for start := 0; start < len(jobs); {
		end := start + batchSize
		if end > len(jobs) {
			end = len(jobs)
		}
		batch := jobs[start:end]
		jf, of := filepath.Join(dir, "jobs.json"), filepath.Join(dir, "out.jsonl")
		raw, _ := json.Marshal(batch)
		os.WriteFile(jf, raw, 0o644)
		os.Remove(of)
		ctx, cancel := context.WithTimeout(context.Background(), batchDeadline())
		cmd := exec.CommandContext(ctx, exe, "-c11child", jf, of)
		var stderr bytes.Buffer
		cmd.Stderr = &stderr
		runErr := cmd.Run()
		timedOut := ctx.Err() != nil
		cancel()
		done := 0
		if data, err := os.ReadFile(of); err == nil {
			for _, line := range bytes.Split(data, []byte("\n")) {
				var r jobResult
				if len(line) == 0 || json.Unmarshal(line, &r) != nil {
					continue // (a torn last line belongs to the job that did not finish)
				}
				for _, c := range r.Cases {
					run.Add(hx.Case{Kind: c.Kind, Desc: c.Desc, Coq: c.Coq, Nontriv: c.Nontriv, Key: c.Key, GoFail: c.GoFail, FailKey: c.FailKey})
				}
				for _, k := range r.Counts {
					run.Count(k)
				}
				done++
			}
		}
		start += done
		if done < len(batch) {
			// the job after the last completed one took the child down (or ran into the deadline)
			j := batch[done]
			why := "fatal runtime error"
			if timedOut {
				why = "no answer within the deadline"
			}
			msg := stderr.String()
			if i := strings.Index(msg, "\n\n"); i > 0 {
				msg = msg[:i] // first paragraph of the Go runtime's report
			}
			if len(msg) > 600 {
				msg = msg[:600]
			}
			run.Count("harness-child-down")
			run.Add(hx.Case{Kind: j.Kind, Desc: j.Raw, Coq: "CHist [] [] [] []", Nontriv: true, Key: string(j.Raw),
				GoFail: fmt.Sprintf("the implementation brought the harness process down on this history (%s; %v): %s", why, runErr, strings.TrimSpace(msg))})
			start++
		}
	}
}

func main() {
	if len(os.Args) == 4 && os.Args[1] == "-c11child" {
		childMain(os.Args[2], os.Args[3])
		return
	}
	run := hx.ParseFlags("C11", "Check.C11")
	var jobs []job
	for _, in := range run.Inputs() {
		k := "hist"
		if in.Kind == "lazy" {
			k = "lazy"
		}
		jobs = append(jobs, job{Kind: k, Raw: in.Raw})
	}
	if run.Replay == "" {
		add := func(kind string, d interface{}) {
			raw, _ := json.Marshal(d)
			jobs = append(jobs, job{Kind: kind, Raw: raw})
		}
		for _, d := range fixedCases() {
			add("hist", d)
		}
		r := hx.NewRng(run.Seed)
		for i := 0; i < run.N; i++ {
			add("hist", genHist(r, run.Tier == "thorough"))
		}
		// processors that skip inputs (see lazy.go)
		for _, d := range fixedLazy() {
			add("lazy", d)
		}
		for i := 0; i < run.N/5; i++ {
			add("lazy", genLazy(r))
		}
	}
	runJobs(run, jobs)
	run.Finish()
}
