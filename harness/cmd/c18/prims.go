// C18 harness, part 1: running the primitive constructors and the float-side geometric oracles.
package main

import (
	"fmt"
	"math"
	"runtime"
	"sort"

	"github.com/EliCDavis/polyform/modeling"
	"github.com/EliCDavis/polyform/modeling/primitives"
	"github.com/EliCDavis/vector/vector2"
	"github.com/EliCDavis/vector/vector3"
)

// desc is the explicit, replayable input of one case.
type desc struct {
	Fam    string  `json:"fam"` // sphere | sphereU | hemi | cyl | cubeW | cubeQ
	Rows   int     `json:"rows,omitempty"`
	Cols   int     `json:"cols,omitempty"`
	Sides  int     `json:"sides,omitempty"`
	Radius float64 `json:"radius,omitempty"`
	Height float64 `json:"height,omitempty"`
	Width  float64 `json:"width,omitempty"`
	Depth  float64 `json:"depth,omitempty"`
	UV     int     `json:"uv,omitempty"`     // cyl: bit0 side, bit1 top, bit2 bottom; cube: 1 = DefaultCubeUVs, 2 = random full set
	Capped bool    `json:"capped,omitempty"` // hemisphere flag (ignored by the implementation)
	UVSeed uint64  `json:"uvseed,omitempty"`
	// round 4: the same solids reached through other entry points
	Via   string `json:"via,omitempty"`   // "" = constructor | "node" = the generator node wrapping it (Process through nodes.Struct) | "unit" = primitives.UnitCube
	NilIn bool   `json:"nilin,omitempty"` // node: every input left unconnected (the node's own defaults; judged without the parameters)
}

func (d desc) key() string {
	return fmt.Sprintf("%s/%d/%d/%d/%g/%g/%g/%g/%d/%v/%d/%s/%v", d.Fam, d.Rows, d.Cols, d.Sides, d.Radius, d.Height, d.Width, d.Depth, d.UV, d.Capped, d.UVSeed, d.Via, d.NilIn)
}

type prim struct {
	Idx []int
	Pos []vector3.Float64
	Nrm []vector3.Float64 // nil when the constructor supplies no normals
	UV  bool              // a TexCoord attribute is present
}

// outcome classes of a constructor call
const (
	clsOK       = "ok"
	clsDeclared = "declared" // panic(error) / non-runtime panic: the constructor rejects the parameters
	clsCrash    = "crash"    // runtime.Error panic
)

func stripUV(seed uint64, k int) *primitives.StripUVs {
	// deterministic, non-degenerate strip (start != end, width > 0)
	f := func(i uint64) float64 { return float64((seed*2654435761+i*40503+uint64(k)*977)%1000)/1000.0 + 0.001 }
	return &primitives.StripUVs{Start: vector2.New(f(1), f(2)), End: vector2.New(f(3)+1.5, f(4)), Width: f(5)}
}

func build(d desc) (p prim, class string, msg string) {
	class = clsOK
	defer func() {
		if r := recover(); r != nil {
			if _, ok := r.(runtime.Error); ok {
				class = clsCrash
			} else {
				class = clsDeclared
			}
			msg = fmt.Sprint(r)
		}
	}()
	var m modeling.Mesh
	switch d.Via {
	case "node":
		m = buildNode(d)
	case "unit":
		m = primitives.UnitCube()
	default:
		m = buildDirect(d)
	}
	return extract(m)
}

func buildDirect(d desc) (m modeling.Mesh) {
	switch d.Fam {
	case "sphere":
		m = primitives.UVSphere(d.Radius, d.Rows, d.Cols)
	case "sphereU":
		m = primitives.UVSphereUnwelded(d.Radius, d.Rows, d.Cols)
	case "hemi":
		m = primitives.Hemisphere{Radius: d.Radius, Capped: d.Capped}.UV(d.Rows, d.Cols)
	case "cyl":
		c := primitives.Cylinder{Sides: d.Sides, Height: d.Height, Radius: d.Radius}
		if d.UV != 0 {
			c.UVs = &primitives.CylinderUVs{}
			if d.UV&1 != 0 {
				c.UVs.Side = stripUV(d.UVSeed, 0)
			}
			if d.UV&2 != 0 {
				c.UVs.Top = &primitives.CircleUVs{Center: vector2.New(0.25, 0.25), Radius: 0.25}
			}
			if d.UV&4 != 0 {
				c.UVs.Bottom = &primitives.CircleUVs{Center: vector2.New(0.75, 0.25), Radius: 0.25}
			}
		}
		m = c.ToMesh()
	case "cone":
		m = primitives.Cone{Height: d.Height, Radius: d.Radius, Sides: d.Sides}.ToMesh()
	case "cubeW", "cubeQ":
		c := primitives.Cube{Width: d.Width, Height: d.Height, Depth: d.Depth}
		switch d.UV {
		case 1:
			c.UVs = primitives.DefaultCubeUVs()
		case 2:
			c.UVs = &primitives.CubeUVs{Top: stripUV(d.UVSeed, 1), Bottom: stripUV(d.UVSeed, 2), Left: stripUV(d.UVSeed, 3),
				Right: stripUV(d.UVSeed, 4), Front: stripUV(d.UVSeed, 5), Back: stripUV(d.UVSeed, 6)}
		case 3:
			// a partial set: only the faces selected by the bits of UVSeed%63+1 carry UVs (Mesh.Append then has to pad
			// the other quads' TexCoord data; positions and indices must not notice)
			c.UVs = &primitives.CubeUVs{}
			for k, f := range []**primitives.StripUVs{&c.UVs.Top, &c.UVs.Bottom, &c.UVs.Left, &c.UVs.Right, &c.UVs.Front, &c.UVs.Back} {
				if (d.UVSeed%63+1)>>uint(k)&1 == 1 { // a non-empty subset of the six faces
					*f = stripUV(d.UVSeed, k+1)
				}
			}
		}
		if d.Fam == "cubeW" {
			m = c.Welded()
		} else {
			m = c.UnweldedQuads()
		}
	default:
		panic(fmt.Errorf("unknown family %q", d.Fam))
	}
	return m
}

func extract(m modeling.Mesh) (p prim, class string, msg string) {
	class = clsOK
	if m.Topology() != modeling.TriangleTopology {
		panic(fmt.Errorf("not a triangle mesh"))
	}
	ind := m.Indices()
	p.Idx = make([]int, ind.Len())
	for i := range p.Idx {
		p.Idx[i] = ind.At(i)
	}
	pa := m.Float3Attribute(modeling.PositionAttribute)
	p.Pos = make([]vector3.Float64, pa.Len())
	for i := range p.Pos {
		p.Pos[i] = pa.At(i)
	}
	if m.HasFloat3Attribute(modeling.NormalAttribute) {
		na := m.Float3Attribute(modeling.NormalAttribute)
		p.Nrm = make([]vector3.Float64, na.Len())
		for i := range p.Nrm {
			p.Nrm[i] = na.At(i)
		}
	}
	p.UV = m.HasFloat2Attribute(modeling.TexCoordAttribute)
	return
}

// ---- coincidence classes computed from the positions ----

// classes returns rep[i] = smallest vertex id whose position coincides with vertex i.
// tol all zero: equal coordinates (−0 == 0); otherwise within tol[k] along axis k (absolute, transitive closure).
func classes(pos []vector3.Float64, tol [3]float64) []int {
	n := len(pos)
	parent := make([]int, n)
	for i := range parent {
		parent[i] = i
	}
	var find func(int) int
	find = func(i int) int {
		for parent[i] != i {
			parent[i] = parent[parent[i]]
			i = parent[i]
		}
		return i
	}
	union := func(a, b int) {
		a, b = find(a), find(b)
		if a == b {
			return
		}
		if a < b {
			parent[b] = a
		} else {
			parent[a] = b
		}
	}
	// exactly equal positions first, in linear time: a broken generator can leave tens of thousands of vertices at
	// one point, which the pairwise sweep below must never see (it is quadratic in the size of a cluster)
	first := make(map[[3]float64]int, n)
	order := make([]int, 0, n)
	for i, q := range pos {
		k := [3]float64{q.X() + 0, q.Y() + 0, q.Z() + 0} // +0: -0 and 0 are the same coordinate
		if j, ok := first[k]; ok {
			parent[i] = j
		} else {
			first[k] = i
			order = append(order, i)
		}
	}
	if tol[0] > 0 || tol[1] > 0 || tol[2] > 0 {
		sort.Slice(order, func(a, b int) bool { return pos[order[a]].X() < pos[order[b]].X() })
		for a := 0; a < len(order); a++ {
			pa := pos[order[a]]
			for b := a + 1; b < len(order); b++ {
				pb := pos[order[b]]
				if pb.X()-pa.X() > tol[0] {
					break
				}
				if math.Abs(pa.Y()-pb.Y()) <= tol[1] && math.Abs(pa.Z()-pb.Z()) <= tol[2] {
					union(order[a], order[b])
				}
			}
		}
	}
	rep := make([]int, n)
	for i := range rep {
		rep[i] = find(i)
	}
	return rep
}

func maxAbs(pos []vector3.Float64) float64 {
	m := 0.0
	for _, p := range pos {
		m = math.Max(m, math.Max(math.Abs(p.X()), math.Max(math.Abs(p.Y()), math.Abs(p.Z()))))
	}
	return m
}

// ---- Go-side closedness (used for the large, parameter-only cases) ----
func closedGo(widx []int) string {
	type e struct{ a, b int }
	seen := make(map[e]bool, len(widx))
	if len(widx)%3 != 0 {
		return "index count not a multiple of 3"
	}
	for t := 0; t+2 < len(widx); t += 3 {
		a, b, c := widx[t], widx[t+1], widx[t+2]
		if a == b || b == c || c == a {
			return fmt.Sprintf("degenerate triangle %d (%d,%d,%d)", t/3, a, b, c)
		}
		for _, x := range []e{{a, b}, {b, c}, {c, a}} {
			if seen[x] {
				return fmt.Sprintf("directed edge %d->%d occurs twice", x.a, x.b)
			}
			seen[x] = true
		}
	}
	for x := range seen {
		if !seen[e{x.b, x.a}] {
			return fmt.Sprintf("directed edge %d->%d has no reverse", x.a, x.b)
		}
	}
	return ""
}

// ---- volumes ----
func signedVolume(p prim) float64 {
	// Kahan-compensated sum of det(a,b,c)/6
	var s, comp float64
	for t := 0; t+2 < len(p.Idx); t += 3 {
		a, b, c := p.Pos[p.Idx[t]], p.Pos[p.Idx[t+1]], p.Pos[p.Idx[t+2]]
		y := a.Dot(b.Cross(c))/6 - comp
		tt := s + y
		comp = (tt - s) - y
		s = tt
	}
	return s
}

// stackVolume: volume of the convex polyhedron whose cross-sections are aligned regular n-gons with
// circumradius rho[k] at height y[k] (consecutive rings joined by planar trapezoids, rho may be 0 at a pole):
// every slab is a frustum of an n-gon pyramid: h/3·(A1 + A2 + sqrt(A1·A2)), A = ½·n·rho²·sin(2π/n).
func stackVolume(n int, y, rho []float64) float64 {
	k := 0.5 * float64(n) * math.Sin(2*math.Pi/float64(n))
	v := 0.0
	for i := 0; i+1 < len(y); i++ {
		h := math.Abs(y[i] - y[i+1])
		v += h / 3 * k * (rho[i]*rho[i] + rho[i+1]*rho[i+1] + rho[i]*rho[i+1])
	}
	return v
}

// inscribedVolume / analyticVolume computed from the parameters only (independent of the mesh).
func inscribedVolume(d desc) float64 {
	switch d.Fam {
	case "sphere", "sphereU":
		y := make([]float64, d.Rows+1)
		rho := make([]float64, d.Rows+1)
		for k := 0; k <= d.Rows; k++ {
			phi := math.Pi * float64(k) / float64(d.Rows)
			y[k], rho[k] = d.Radius*math.Cos(phi), d.Radius*math.Sin(phi)
		}
		rho[0], rho[d.Rows] = 0, 0
		return stackVolume(d.Cols, y, rho)
	case "hemi":
		// rings at polar angle π/2 − π·i/(2·rows), i = 0 … rows−2, then the apex (0,R,0); base disc at y = 0
		var y, rho []float64
		for i := 0; i <= d.Rows-2; i++ {
			a := math.Pi/2 - math.Pi*float64(i)/(2*float64(d.Rows))
			y = append(y, d.Radius*math.Cos(a))
			rho = append(rho, d.Radius*math.Sin(a))
		}
		y[0] = 0
		y = append(y, d.Radius)
		rho = append(rho, 0)
		return stackVolume(d.Cols, y, rho)
	case "cyl":
		return 0.5 * float64(d.Sides) * d.Radius * d.Radius * math.Sin(2*math.Pi/float64(d.Sides)) * d.Height
	case "cubeW", "cubeQ":
		return d.Width * d.Height * d.Depth
	}
	return math.NaN()
}

func analyticVolume(d desc) float64 {
	switch d.Fam {
	case "sphere", "sphereU":
		return 4.0 / 3.0 * math.Pi * d.Radius * d.Radius * d.Radius
	case "hemi":
		return 2.0 / 3.0 * math.Pi * d.Radius * d.Radius * d.Radius
	case "cyl":
		return math.Pi * d.Radius * d.Radius * d.Height
	case "cubeW", "cubeQ":
		return d.Width * d.Height * d.Depth
	}
	return math.NaN()
}

// interiorPoint: a point strictly inside the (convex) inscribed polyhedron.
func interiorPoint(d desc) vector3.Float64 {
	if d.Fam == "hemi" {
		return vector3.New(0, d.Radius/4, 0)
	}
	return vector3.Zero[float64]()
}

func minSize(d desc) float64 {
	m := math.Inf(1)
	for _, x := range []float64{d.Radius, d.Height, d.Width, d.Depth} {
		if x > 0 && x < m {
			m = x
		}
	}
	return m
}

func sizeScale(d desc) float64 {
	return math.Max(math.Max(d.Radius, d.Height), math.Max(d.Width, d.Depth))
}

// geomOracle: the float part of the property evaluated on what the constructor returned.
func geomOracle(d desc, p prim) string {
	for i, v := range p.Pos {
		if math.IsNaN(v.X()+v.Y()+v.Z()) || math.IsInf(v.X()+v.Y()+v.Z(), 0) {
			return fmt.Sprintf("position %d is not finite", i)
		}
	}
	want := inscribedVolume(d)
	got := signedVolume(p)
	if !(got > 0) {
		return fmt.Sprintf("signed volume %g is not positive", got)
	}
	if math.Abs(got-want) > 1e-9*want {
		return fmt.Sprintf("signed volume %.17g differs from the inscribed polyhedron's volume %.17g", got, want)
	}
	// (boxes: inscribed = analytic, already compared above at 1e-9; the 1e-12 margin is for the round solids, whose
	// inscribed polyhedron stays O(1/n^2) below the analytic volume)
	if an := analyticVolume(d); d.Fam != "cubeW" && d.Fam != "cubeQ" && got > an*(1+1e-12) {
		return fmt.Sprintf("volume %.17g exceeds the analytic volume %.17g", got, an)
	}
	return facesOracle(d, p, interiorPoint(d), sizeScale(d))
}
