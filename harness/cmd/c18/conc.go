// C18 harness, part 4: the constructors called from several goroutines at once (a node graph / HTTP handler evaluates
// primitives in parallel).  Each goroutine builds ITS OWN parameterisation over and over for a few hundred milliseconds
// behind a start barrier; every result must be bit-identical (indices, positions, normals) to the result of the same
// parameterisation built sequentially beforehand — whose closedness / orientation / volume verdict it then shares — and
// any differing result is judged by the same oracles so that the report says what broke.
package main

import (
	"flag"
	"fmt"
	"math"
	"sync"
	"time"

	"verif/harness/hx"
)

var concOnly = flag.Bool("conc-only", false, "run only the concurrency stream (used with the -race build)")

type concDesc struct {
	Mode   string `json:"mode"` // always "concurrent": one goroutine per entry of Descs, all started together
	Descs  []desc `json:"descs"`
	Millis int    `json:"millis"`
}

func samePrim(a, b prim) string {
	if len(a.Idx) != len(b.Idx) || len(a.Pos) != len(b.Pos) || len(a.Nrm) != len(b.Nrm) {
		return fmt.Sprintf("sizes differ (%d/%d indices, %d/%d positions)", len(a.Idx), len(b.Idx), len(a.Pos), len(b.Pos))
	}
	for i := range a.Idx {
		if a.Idx[i] != b.Idx[i] {
			return fmt.Sprintf("index %d is %d, sequentially %d", i, a.Idx[i], b.Idx[i])
		}
	}
	bits := math.Float64bits
	for i := range a.Pos {
		p, q := a.Pos[i], b.Pos[i]
		if bits(p.X()) != bits(q.X()) || bits(p.Y()) != bits(q.Y()) || bits(p.Z()) != bits(q.Z()) {
			return fmt.Sprintf("position %d is (%g,%g,%g), sequentially (%g,%g,%g)", i, p.X(), p.Y(), p.Z(), q.X(), q.Y(), q.Z())
		}
	}
	for i := range a.Nrm {
		p, q := a.Nrm[i], b.Nrm[i]
		// NaN normals (hemisphere base centre) compare by bits as well
		if bits(p.X()) != bits(q.X()) || bits(p.Y()) != bits(q.Y()) || bits(p.Z()) != bits(q.Z()) {
			return fmt.Sprintf("normal %d differs from the sequential build", i)
		}
	}
	return ""
}

// judge: the property's oracles on one result (closed + oriented after merging, then volume / outward / normals)
func judge(d desc, p prim) string {
	if !admissible(d) || d.NilIn {
		return genericOracle(d, p)
	}
	rep := classes(p.Pos, axisTol(p.Pos, 1e-9))
	w := make([]int, len(p.Idx))
	for i, x := range p.Idx {
		if x < 0 || x >= len(rep) {
			return fmt.Sprintf("index %d out of range", x)
		}
		w[i] = rep[x]
	}
	if bad := closedGo(w); bad != "" {
		return "not closed after merging coincident positions: " + bad
	}
	return geomOracle(d, p)
}

func conc(cd concDesc) {
	n := len(cd.Descs)
	ref := make([]prim, n)
	fail := ""
	for i, d := range cd.Descs {
		p, class, msg := build(d)
		if class != clsOK {
			fail = fmt.Sprintf("sequential build of goroutine %d's parameters failed (%s): %s", i, class, msg)
			break
		}
		if m := judge(d, p); m != "" {
			fail = fmt.Sprintf("sequential build of goroutine %d's parameters: %s", i, m)
			break
		}
		ref[i] = p
	}
	builds := make([]int, n)
	if fail == "" {
		fails := make([]string, n)
		start := make(chan struct{})
		var wg sync.WaitGroup
		deadline := time.Duration(cd.Millis) * time.Millisecond
		for g := 0; g < n; g++ {
			wg.Add(1)
			go func(g int) {
				defer wg.Done()
				d := cd.Descs[g]
				<-start
				t0 := time.Now()
				for k := 0; k < 3 || time.Since(t0) < deadline; k++ {
					p, class, msg := build(d)
					builds[g]++
					if class != clsOK {
						fails[g] = fmt.Sprintf("goroutine %d (%s), build %d, while %d others were building: constructor failed (%s): %s", g, d.key(), k, n-1, class, msg)
						return
					}
					if diff := samePrim(p, ref[g]); diff != "" {
						verdict := judge(d, p)
						if verdict == "" {
							verdict = "(the differing result still passes the oracles)"
						}
						fails[g] = fmt.Sprintf("goroutine %d (%s), build %d, while %d others were building: result differs from the sequential build of the same parameters: %s; %s", g, d.key(), k, n-1, diff, verdict)
						return
					}
				}
			}(g)
		}
		close(start)
		wg.Wait()
		for _, f := range fails {
			if f != "" {
				fail = f
				break
			}
		}
	}
	total := 0
	for _, b := range builds {
		total += b
	}
	run.Count("conc:windows")
	run.Dist["conc:builds"] += total
	key := "conc"
	for _, d := range cd.Descs {
		key += "|" + d.key()
	}
	add(hx.Case{Kind: "conc", Desc: cd, Coq: "CGoOnly", Key: key, Nontriv: n >= 2, GoFail: fail}, 1)
}

// concCases: 4..8 goroutines, every one a DIFFERENT parameterisation; cylinders with mixed side counts (small ones build
// fast and often, large ones stay inside the constructor long enough to be preempted there), spheres, hemispheres, boxes,
// direct and through the nodes.
func concCases(r *hx.Rng, millis int) {
	cyl := func(s int) desc {
		rad := randSize(r)
		return desc{Fam: "cyl", Sides: s, Radius: rad, Height: relSize(r, rad), UV: r.Intn(8), UVSeed: r.U64() % 1000}
	}
	// (a) every family at once
	a := []desc{cyl(r.Range(3, 12)), cyl(r.Range(13, 40)), cyl(r.Range(200, 1500)),
		{Fam: "sphere", Rows: r.Range(2, 12), Cols: r.Range(3, 12), Radius: randSize(r)},
		{Fam: "sphereU", Rows: r.Range(2, 12), Cols: r.Range(13, 24), Radius: randSize(r)},
		{Fam: "hemi", Rows: r.Range(2, 12), Cols: r.Range(3, 24), Radius: randSize(r), Capped: r.Bool()},
		{Fam: "cubeQ", Width: randSize(r), Height: randSize(r), Depth: randSize(r), UV: r.Intn(4), UVSeed: r.U64() % 1000},
		{Fam: "cubeW", Width: 2, Height: 4, Depth: 6, UV: r.Intn(3)}}
	conc(concDesc{Mode: "concurrent", Descs: a, Millis: millis})
	// (b) cylinders only, four pairwise different side counts 3..40 plus four long ones
	seen := map[int]bool{}
	var b []desc
	for len(b) < 4 {
		s := r.Range(3, 40)
		if !seen[s] {
			seen[s] = true
			b = append(b, cyl(s))
		}
	}
	// long builds of different lengths: whoever is preempted inside one of them has its table rebuilt by the others
	b = append(b, cyl(r.Range(300, 600)), cyl(r.Range(601, 1200)), cyl(r.Range(1201, 2000)), cyl(r.Range(2001, 3000)))
	conc(concDesc{Mode: "concurrent", Descs: b, Millis: millis})
	// (c) through the nodes, 4 goroutines
	c := []desc{
		{Fam: "cyl", Via: "node", Sides: r.Range(3, 40), Radius: randSize(r), Height: randSize(r)},
		{Fam: "cyl", Via: "node", Sides: r.Range(41, 400), Radius: randSize(r), Height: randSize(r), UVSeed: 1},
		{Fam: "sphere", Via: "node", Rows: r.Range(2, 12), Cols: r.Range(3, 12), Radius: randSize(r)},
		{Fam: "cubeQ", Via: "node", Width: randSize(r), Height: randSize(r), Depth: randSize(r)}}
	conc(concDesc{Mode: "concurrent", Descs: c, Millis: millis})
}
