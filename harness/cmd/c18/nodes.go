// C18 harness, part 3 (round 4): the same solids reached through the generator nodes that wrap the constructors
// (primitives.UvSphereNode, HemisphereNode, CylinderNode, CubeNode — nodes.Struct around the *NodeData.Process
// methods), flat building blocks (Circle, Quad) and pipes (Cylinder without caps), which are observed only.
package main

import (
	"fmt"
	"math"

	"github.com/EliCDavis/polyform/modeling"
	"github.com/EliCDavis/polyform/modeling/primitives"
	"github.com/EliCDavis/polyform/nodes"
	"github.com/EliCDavis/vector/vector3"

	"verif/harness/hx"
)

func fOut(x float64) nodes.NodeOutput[float64] { return nodes.Value(x).Out() }
func iOut(x int) nodes.NodeOutput[int]         { return nodes.Value(x).Out() }
func bOut(x bool) nodes.NodeOutput[bool]       { return nodes.Value(x).Out() }

// buildNode evaluates the node (through nodes.Struct, as the generator does) with constant inputs.
func buildNode(d desc) modeling.Mesh {
	switch d.Fam {
	case "sphere", "sphereU":
		nd := primitives.UvSphereNodeData{}
		if !d.NilIn {
			nd.Radius, nd.Rows, nd.Columns = fOut(d.Radius), iOut(d.Rows), iOut(d.Cols)
		}
		if !d.NilIn || d.Fam == "sphereU" {
			nd.Weld = bOut(d.Fam == "sphere")
		}
		return (&primitives.UvSphereNode{Data: nd}).Out().Value()
	case "hemi":
		nd := primitives.HemisphereNodeData{}
		if !d.NilIn {
			nd.Radius, nd.Rows, nd.Columns, nd.Capped = fOut(d.Radius), iOut(d.Rows), iOut(d.Cols), bOut(d.Capped)
		}
		return (&primitives.HemisphereNode{Data: nd}).Out().Value()
	case "cyl":
		nd := primitives.CylinderNodeData{}
		if !d.NilIn {
			nd.Radius, nd.Height, nd.Sides = fOut(d.Radius), fOut(d.Height), iOut(d.Sides)
			if d.UVSeed&1 == 1 { // explicitly connected flags (true) instead of unconnected ones
				nd.Top, nd.Bottom = bOut(true), bOut(true)
			}
		}
		return (&primitives.CylinderNode{Data: nd}).Out().Value()
	case "cubeQ":
		nd := primitives.CubeNodeData{}
		if !d.NilIn {
			nd.Width, nd.Height, nd.Depth = fOut(d.Width), fOut(d.Height), fOut(d.Depth)
		}
		return (&primitives.CubeNode{Data: nd}).Out().Value()
	}
	panic(fmt.Errorf("no node for family %q", d.Fam))
}

// genericOracle: the property judged without knowing the parameters (node defaults, clamped counts): finite
// positions, closed + consistently oriented after merging coincident positions, positive signed volume, every face
// away from the centre of the bounding box (all solids here are convex and contain it), supplied vertex normals on
// the outer side of every incident face (hemisphere excepted: not in the property's normal clause).
func genericOracle(d desc, p prim) string {
	if len(p.Idx) == 0 || len(p.Pos) == 0 {
		return "empty mesh"
	}
	lo, hi := p.Pos[0], p.Pos[0]
	for i, v := range p.Pos {
		if math.IsNaN(v.X()+v.Y()+v.Z()) || math.IsInf(v.X()+v.Y()+v.Z(), 0) {
			return fmt.Sprintf("position %d is not finite", i)
		}
		lo = vector3.New(math.Min(lo.X(), v.X()), math.Min(lo.Y(), v.Y()), math.Min(lo.Z(), v.Z()))
		hi = vector3.New(math.Max(hi.X(), v.X()), math.Max(hi.Y(), v.Y()), math.Max(hi.Z(), v.Z()))
	}
	rep := classes(p.Pos, axisTol(p.Pos, 1e-9))
	w := make([]int, len(p.Idx))
	for i, x := range p.Idx {
		if x < 0 || x >= len(rep) {
			return fmt.Sprintf("index %d out of range", x)
		}
		w[i] = rep[x]
	}
	if bad := closedGo(w); bad != "" {
		return "not closed after merging coincident positions: " + bad
	}
	if v := signedVolume(p); !(v > 0) {
		return fmt.Sprintf("signed volume %g is not positive", v)
	}
	c := lo.Add(hi).Scale(0.5)
	L := hi.Sub(lo).Length()
	return facesOracle(d, p, c, L)
}

// facesOracle: every face has positive area and faces away from the interior point c; supplied normals outward.
func facesOracle(d desc, p prim, c vector3.Float64, L float64) string {
	for t := 0; t+2 < len(p.Idx); t += 3 {
		a, b, cc := p.Pos[p.Idx[t]], p.Pos[p.Idx[t+1]], p.Pos[p.Idx[t+2]]
		n := b.Sub(a).Cross(cc.Sub(a))
		nl := n.Length()
		if !(nl > 0) {
			return fmt.Sprintf("face %d has zero area", t/3)
		}
		cen := a.Add(b).Add(cc).Scale(1.0 / 3.0)
		// distance of the interior point below the face plane, relative to the size: strictly positive
		if h := n.Dot(cen.Sub(c)) / nl; !(h > 1e-12*L) {
			return fmt.Sprintf("face %d (%d,%d,%d) does not face away from the interior point (height %g)", t/3, p.Idx[t], p.Idx[t+1], p.Idx[t+2], h)
		}
		if p.Nrm != nil && d.Fam != "hemi" {
			for k := 0; k < 3; k++ {
				vn := p.Nrm[p.Idx[t+k]]
				if dot := vn.Dot(n) / nl; !(dot > 1e-9) {
					return fmt.Sprintf("vertex normal %d (%g,%g,%g) is not on the outer side of incident face %d (dot %g)", p.Idx[t+k], vn.X(), vn.Y(), vn.Z(), t/3, dot)
				}
			}
		}
	}
	return ""
}

// axisTol: merge tolerance per coordinate axis = rel × the extent of the positions along that axis (a flat or thin
// solid must not have its small dimension swallowed by a tolerance derived from its large one).
func axisTol(pos []vector3.Float64, rel float64) [3]float64 {
	var m [3]float64
	for _, p := range pos {
		m[0] = math.Max(m[0], math.Abs(p.X()))
		m[1] = math.Max(m[1], math.Abs(p.Y()))
		m[2] = math.Max(m[2], math.Abs(p.Z()))
	}
	return [3]float64{rel * m[0], rel * m[1], rel * m[2]}
}

// ---- observed, not judged: flat building blocks and pipes (not solids) ----

// boundaryState classifies a triangle list by its unmatched directed edges.
func boundaryState(p prim) (open, dup int, ok bool) {
	rep := classes(p.Pos, axisTol(p.Pos, 1e-9))
	type e struct{ a, b int }
	seen := map[e]int{}
	if len(p.Idx)%3 != 0 {
		return 0, 0, false
	}
	for t := 0; t+2 < len(p.Idx); t += 3 {
		for k := 0; k < 3; k++ {
			if p.Idx[t+k] < 0 || p.Idx[t+k] >= len(rep) {
				return 0, 0, false
			}
		}
		a, b, c := rep[p.Idx[t]], rep[p.Idx[t+1]], rep[p.Idx[t+2]]
		seen[e{a, b}]++
		seen[e{b, c}]++
		seen[e{c, a}]++
	}
	for x, k := range seen {
		if k > 1 {
			dup++
		}
		if seen[e{x.b, x.a}] == 0 {
			open++
		}
	}
	return open, dup, true
}

// pipeObserve: Cylinder with NoTop and/or NoBottom is a pipe / cup, not one of the solids; recorded: its unmatched
// directed edges are exactly one ring of `sides` edges per missing cap and no directed edge occurs twice.
func pipeObserve(sides int, noTop, noBottom bool) {
	state := "ok"
	func() {
		defer func() {
			if r := recover(); r != nil {
				state = "panic"
			}
		}()
		m := primitives.Cylinder{Sides: sides, Height: 2, Radius: 1, NoTop: noTop, NoBottom: noBottom}.ToMesh()
		p, _, _ := extract(m)
		open, dup, ok := boundaryState(p)
		want := 0
		if noTop {
			want += sides
		}
		if noBottom {
			want += sides
		}
		switch {
		case !ok || dup > 0:
			state = "inconsistent"
		case open == want:
			state = "open-at-missing-caps-only"
		default:
			state = fmt.Sprintf("open-%d-expected-%d", open, want)
		}
	}()
	run.Count(fmt.Sprintf("pipe(top=%v,bottom=%v):%s", !noTop, !noBottom, state))
}

// flatObserve: Circle and Quad on their own are flat patches in the XZ plane; recorded: whether every triangle faces
// +Y like the supplied vertex normals, and whether the boundary is one ring.
func flatObserve(name string, m func() modeling.Mesh) {
	state := "ok"
	func() {
		defer func() {
			if r := recover(); r != nil {
				state = "panic"
			}
		}()
		p, _, _ := extract(m())
		up := true
		for t := 0; t+2 < len(p.Idx); t += 3 {
			a, b, c := p.Pos[p.Idx[t]], p.Pos[p.Idx[t+1]], p.Pos[p.Idx[t+2]]
			n := b.Sub(a).Cross(c.Sub(a))
			if !(n.Y() > 0) {
				up = false
			}
			for k := 0; k < 3 && p.Nrm != nil; k++ {
				if !(p.Nrm[p.Idx[t+k]].Dot(n) > 0) {
					up = false
				}
			}
		}
		_, dup, ok := boundaryState(p)
		switch {
		case !ok || dup > 0:
			state = "inconsistent"
		case up:
			state = "faces-and-normals-up"
		default:
			state = "not-all-up"
		}
	}()
	run.Count(name + ":" + state)
}

// ---- round 4 streams: the coverage grid primitive × parameter corner × entry point ----

var allFams = []string{"sphere", "sphereU", "hemi", "cyl", "cubeW", "cubeQ"}

// withSizes fills the size parameters of family fam: base size s, second / third dimension s*a, s*b.
func withSizes(d desc, s, a, b float64) desc {
	switch d.Fam {
	case "sphere", "sphereU", "hemi":
		d.Radius = s
	case "cyl":
		d.Radius, d.Height = s, s*a
	default:
		d.Width, d.Height, d.Depth = s, s*a, s*b
	}
	return d
}

func smallCounts(r *hx.Rng, fam string) desc {
	d := desc{Fam: fam}
	switch fam {
	case "sphere", "sphereU", "hemi":
		d.Rows, d.Cols = r.Range(2, 12), r.Range(3, 12)
	case "cyl":
		d.Sides = r.Range(3, 40)
		d.UV, d.UVSeed = r.Intn(8), r.U64()%1000
	default:
		d.UV, d.UVSeed = r.Intn(4), r.U64()%1000
	}
	return d
}

// plank: box extents with an edge more than 8 times another one and ceil(L/(8a)) != ceil(L/(8b)) — a face-local
// subdivision rule (per quad aspect ratio) would cut the shared edge differently on the two faces
func plank(r *hx.Rng) (w, h, dd float64) {
	for {
		a := float64(r.Range(1, 6))
		b := float64(r.Range(1, 6))
		L := float64(r.Range(9, 400))
		if L > 8*a && math.Ceil(L/(8*a)) != math.Ceil(L/(8*b)) {
			v := []float64{L, a, b}
			pm := r.Perm(3)
			return v[pm[0]], v[pm[1]], v[pm[2]]
		}
	}
}

func round4Cases(r *hx.Rng, thorough bool) {
	// --- sizes at scales 2^±40 (all dimensions scaled together) and extreme aspect ratios (up to 2^12 between any two dimensions) ---
	exps := []int{40, -40}
	if thorough {
		exps = []int{40, -40, 20, -20, 80, -80, 12, -12}
	}
	for _, fam := range allFams {
		for _, e := range exps {
			d := smallCounts(r, fam)
			one(withSizes(d, math.Ldexp(1+float64(r.Intn(8))/8, e), 1+r.Float(), 0.5+r.Float()), "full")
			run.Count(fmt.Sprintf("scale:2^%d", e))
		}
	}
	// absolute sizes between the two regimes (an absolute epsilon hidden in a constructor sits somewhere on this ladder)
	for _, fam := range allFams {
		for _, e := range []float64{-9, -6, -4, 4, 6, 9} {
			one(withSizes(smallCounts(r, fam), math.Pow(10, e)*(1+r.Float()), 0.5+r.Float(), 0.5+r.Float()), "full")
			run.Count("scale:decades")
		}
	}
	for _, fam := range []string{"cyl", "cubeW", "cubeQ"} {
		for _, ab := range [][2]int{{12, 0}, {-12, 0}, {0, 12}, {12, 12}, {-6, 6}, {6, -6}} {
			d := smallCounts(r, fam)
			one(withSizes(d, randSize(r), math.Ldexp(1, ab[0]), math.Ldexp(1, ab[1])), "full")
			run.Count("aspect:2^12")
			if fam == "cyl" && ab[1] != 0 {
				break // a cylinder has one ratio only
			}
		}
	}
	// --- planks and plates: exact (even integers) and fractional, every axis as the long one ---
	for _, fam := range []string{"cubeW", "cubeQ"} {
		for _, whd := range [][3]float64{{10, 1, 2}, {1, 10, 2}, {2, 1, 10}, {0.05, 0.5, 0.5}, {25, 3, 0.5}, {20, 2, 4}, {2, 40, 6}, {6, 2, 100}, {10, 1, 1}, {2, 2, 34}} {
			one(desc{Fam: fam, Width: whd[0], Height: whd[1], Depth: whd[2], UV: r.Intn(4), UVSeed: r.U64() % 1000}, "auto")
			run.Count("box:plank")
		}
		n := 4
		if thorough {
			n = 40
		}
		for i := 0; i < n; i++ {
			w, h, dd := plank(r)
			if r.Bool() {
				w, h, dd = 2*w, 2*h, 2*dd // even integers: the exact (CCube) path
			}
			one(desc{Fam: fam, Width: w, Height: h, Depth: dd, UV: r.Intn(4), UVSeed: r.U64() % 1000}, "auto")
			run.Count("box:plank")
		}
		// partial UV sets (some faces with, some without UVs), every single face and its complement
		for k := 0; k < 6; k++ {
			one(desc{Fam: fam, Width: 2, Height: 4, Depth: 6, UV: 3, UVSeed: 1<<uint(k) - 1}, "auto")
			one(desc{Fam: fam, Width: 3, Height: 1, Depth: 2, UV: 3, UVSeed: 63&^(1<<uint(k)) - 1}, "auto")
		}
	}
	one(desc{Fam: "cubeW", Width: 1, Height: 1, Depth: 1, Via: "unit"}, "auto")
	// --- the generator nodes: explicit inputs (minimal, typical, the nodes' documented defaults' neighbourhood),
	//     all inputs unconnected, counts below the minimum (sphere node clamps, hemisphere node rejects) ---
	for _, fam := range []string{"sphere", "sphereU", "hemi", "cyl", "cubeQ"} {
		one(desc{Fam: fam, Via: "node", NilIn: true}, "auto")
		for k := 0; k < 3; k++ {
			d := smallCounts(r, fam)
			d.Via, d.UV = "node", 0
			if k == 0 {
				d.Rows, d.Cols, d.Sides = 2, 3, 3
				if fam == "cyl" || fam == "cubeQ" {
					d.Rows, d.Cols = 0, 0
				}
				if fam != "cyl" {
					d.Sides = 0
				}
			}
			if fam == "cyl" {
				d.UVSeed = uint64(k) // k odd: Top / Bottom flags connected
			} else {
				d.UVSeed = 0
			}
			if fam == "hemi" {
				d.Capped = k%2 == 0
			}
			one(withSizes(d, randSize(r), 0.5+r.Float(), 0.5+r.Float()), "full")
		}
	}
	for _, rc := range [][2]int{{1, 3}, {0, 0}, {2, 2}, {-3, 7}, {5, 1}} {
		for _, fam := range []string{"sphere", "sphereU", "hemi"} {
			one(desc{Fam: fam, Via: "node", Rows: rc[0], Cols: rc[1], Radius: 1}, "auto")
		}
	}
	// --- observed only: pipes / cups and the flat building blocks ---
	for _, s := range []int{3, 4, 5, 16} {
		pipeObserve(s, true, false)
		pipeObserve(s, false, true)
		pipeObserve(s, true, true)
	}
	for _, s := range []int{1, 2, 3, 4, 5, 6, 12} {
		s := s
		flatObserve(fmt.Sprintf("circle-%d", s), func() modeling.Mesh { return primitives.Circle{Sides: s, Radius: 1}.ToMesh() })
	}
	flatObserve("circle-uv", func() modeling.Mesh {
		return primitives.Circle{Sides: 7, Radius: 2, UVs: &primitives.CircleUVs{Radius: 0.5}}.ToMesh()
	})
	flatObserve("circle-node", func() modeling.Mesh { return (&primitives.CircleNode{}).Out().Value() })
	flatObserve("quad", func() modeling.Mesh { return primitives.Quad{Width: 1, Depth: 2}.ToMesh() })
	flatObserve("quad-long", func() modeling.Mesh { return primitives.Quad{Width: 100, Depth: 3}.ToMesh() })
	flatObserve("quad-uv", func() modeling.Mesh { return primitives.Quad{Width: 3, Depth: 1, UVs: stripUV(5, 1)}.ToMesh() })
	flatObserve("quad-node", func() modeling.Mesh { return (&primitives.QuadNode{}).Out().Value() })
}

// sampleScaled: one random family at a random power-of-two scale in 2^-40 … 2^40 with random aspect ratios up to 2^12
func sampleScaled(r *hx.Rng) {
	d := smallCounts(r, hx.Pick(r, allFams))
	a := math.Ldexp(1, r.Range(-6, 6)) // any two dimensions within 2^12 of each other
	b := math.Ldexp(1, r.Range(-6, 6))
	if r.Bool() {
		a, b = 1+r.Float(), 1/(1+r.Float())
	}
	one(withSizes(d, math.Ldexp(1+r.Float(), r.Range(-40, 40)), a, b), "full")
	run.Count("scale:sampled")
}

// sampleNode: one random node-wrapped solid, medium counts
func sampleNode(r *hx.Rng) {
	d := smallCounts(r, hx.Pick(r, []string{"sphere", "sphereU", "hemi", "cyl", "cubeQ"}))
	d.Via, d.UV = "node", 0
	d.UVSeed = uint64(r.Intn(2))
	if d.Fam != "cyl" {
		d.UVSeed = 0
	}
	if d.Fam == "cubeQ" && r.Bool() {
		w, h, dd := plank(r)
		d.Width, d.Height, d.Depth = w, h, dd
		one(d, "full")
		return
	}
	one(withSizes(d, randSize(r), 0.25+r.Float()*4, 0.25+r.Float()*4), "full")
}
