// C18 harness: solid primitives (UV sphere welded/unwelded, box welded / six quads, capped cylinder,
// hemisphere).  Runs the real constructors, derives the coincidence classes of the returned positions,
// renders indices + classes as Coq cases for Check/C18.v (model comparison + closedness oracle) and
// evaluates the float part of the property here (volume, outwardness, vertex normals, convergence).
package main

import (
	"encoding/json"
	"fmt"
	"math"
	"math/bits"
	"sort"
	"strings"

	"verif/harness/hx"
)

const fullLimitQuick = 12    // quick: full index lists for rows, cols <= 12 (larger: hashes)
const fullLimitThorough = 24 // thorough: full index lists for all rows, cols <= 24
const bigIdxCount = 90000    // outputs with at least this many indices are compared by fingerprint only (CBig)

// number of distinct positions the parameters ask for (the quantity a size-dependent code path would look at)
func weldedCount(d desc) int {
	if d.Fam == "cyl" {
		return 2*d.Sides + 2
	}
	return (d.Rows-1)*d.Cols + 2
}

// bigShape: rows, cols with (rows-1)*cols+2 >= target; shape 0 = square, 1 = many rows / few columns, 2 = few rows / many columns
func bigShape(r *hx.Rng, target, shape int) (rows, cols int) {
	switch shape {
	case 1:
		cols = r.Range(3, 24)
		rows = (target-2+cols-1)/cols + 1
	case 2:
		rows = r.Range(2, 12)
		cols = (target - 2 + rows - 2) / (rows - 1)
	default:
		cols = int(math.Ceil(math.Sqrt(float64(target)))) + r.Intn(5)
		rows = (target-2+cols-1)/cols + 1
	}
	if cols < 3 {
		cols = 3
	}
	for (rows-1)*cols+2 < target {
		rows++
	}
	return
}

// bigCases: genuinely large parameterisations, at and just above 2^14, 2^15, 2^16 vertices (size-dependent code paths
// — parallel fills, chunked buffers, 16-bit indices — start at such counts), both aspect ratios; judged by the
// harness oracles (closedness after merging, volume, orientation, normals) and tied to the model by fingerprints.
func bigCases(r *hx.Rng, thorough bool) {
	fams := []string{"sphere", "sphereU", "hemi"}
	for e := 14; e <= 16; e++ {
		for fi, fam := range fams {
			shapes := []int{(e + fi + int(run.Seed%3)) % 3}
			if thorough {
				shapes = []int{0, 1, 2}
			}
			for _, sh := range shapes {
				rows, cols := bigShape(r, 1<<e, sh)
				one(desc{Fam: fam, Rows: rows, Cols: cols, Radius: randSize(r), Capped: r.Bool()}, "big")
				if thorough || e == 14 {
					// the last parameterisation below the power of two
					rows2, cols2 := rows, cols
					for (rows2-1)*cols2+2 >= 1<<e && rows2 > 2 {
						rows2--
					}
					if (rows2-1)*cols2+2 < 1<<e {
						one(desc{Fam: fam, Rows: rows2, Cols: cols2, Radius: randSize(r)}, "big")
					}
				}
			}
		}
	}
	var sides []int
	for e := 12; e <= 16; e++ {
		if thorough || e <= 14 || e == 15+int(run.Seed%2) {
			sides = append(sides, 1<<e+r.Intn(3))
		}
	}
	if thorough {
		sides = append(sides, 1<<13-1, 1<<14-1, 1<<15-1, 1<<16-1)
	}
	for _, n := range sides {
		rad := randSize(r)
		one(desc{Fam: "cyl", Sides: n, Radius: rad, Height: relSize(r, rad), UV: r.Intn(8), UVSeed: r.U64() % 1000}, "big")
	}
}

type convDesc struct {
	Fam  string  `json:"fam"`
	Size float64 `json:"size"`
	Res  []int   `json:"res"` // resolutions n (rows = cols = n, or sides = n)
}

type rejectDesc struct {
	Fam  string `json:"fam"`
	Rows int    `json:"rows"`
	Cols int    `json:"cols"`
}

func famCoq(d desc) string {
	switch d.Fam {
	case "sphere":
		return fmt.Sprintf("(FSphere %d %d)", d.Rows, d.Cols)
	case "sphereU":
		return fmt.Sprintf("(FSphereU %d %d)", d.Rows, d.Cols)
	case "hemi":
		return fmt.Sprintf("(FHemi %d %d)", d.Rows, d.Cols)
	case "cyl":
		return fmt.Sprintf("(FCyl %d)", d.Sides)
	case "cubeW":
		return "FCubeW"
	}
	return "FCubeQ"
}

// polynomial fingerprint modulo 2^63 (Check/C18.v hash1 computes the same with Coq's machine integers)
func hash1(m uint64, l []int) uint64 {
	h := uint64(0)
	for _, x := range l {
		h = (h*m + uint64(x) + 1) & (1<<63 - 1)
	}
	return h
}
func hash2Coq(l []int) string {
	return fmt.Sprintf("(%d,%d)%%Z", hash1(1000003, l), hash1(998244353, l))
}

func isEvenInt(x float64) bool { return x == math.Trunc(x) && math.Mod(x, 2) == 0 && x > 0 && x < 1e6 }

var run *hx.Run

// estimated evaluation cost (µs) of every case, aligned with run.Cases: used to spread the expensive cases over
// the shards (hx cuts run.Cases into consecutive blocks, one coqc each)
var weights []int

func add(c hx.Case, w int) {
	run.Add(c)
	weights = append(weights, w)
}

// balance reorders run.Cases (and renumbers them) so that every consecutive block of the size hx.Finish uses
// carries about the same estimated cost: longest-processing-time first into the least loaded block with room.
func balance() {
	n := len(run.Cases)
	if n == 0 {
		return
	}
	per := (n + 15) / 16
	if per > run.ShardMax {
		per = run.ShardMax
	}
	if per < 4 {
		per = 4
	}
	nb := (n + per - 1) / per
	order := make([]int, n)
	for i := range order {
		order[i] = i
	}
	sort.SliceStable(order, func(a, b int) bool { return weights[order[a]] > weights[order[b]] })
	bins := make([][]int, nb)
	load := make([]int, nb)
	for _, i := range order {
		best := -1
		for b := 0; b < nb; b++ {
			room := per
			if b == nb-1 {
				room = n - (nb-1)*per
			}
			if len(bins[b]) < room && (best < 0 || load[b] < load[best]) {
				best = b
			}
		}
		bins[best] = append(bins[best], i)
		load[best] += weights[i]
	}
	out := make([]hx.Case, 0, n)
	for _, b := range bins {
		sort.Ints(b)
		for _, i := range b {
			c := run.Cases[i]
			c.ID = len(out)
			out = append(out, c)
		}
	}
	run.Cases = out
	mx := 0
	for _, l := range load {
		if l > mx {
			mx = l
		}
	}
	run.Extra["estimated_max_shard_cost_s"] = float64(mx) / 1e6
}

// one: run one parameterisation; mode "full" | "hash" | "big" | "auto" (by size and tier)
func one(d desc, mode string) {
	p, class, msg := build(d)
	run.Count("class:" + class)
	if class == clsDeclared && !admissible(d) {
		run.Count("inadmissible:rejected")
		return
	}
	if class != clsOK {
		// an admissible parameter choice must be accepted
		add(hx.Case{Kind: "prim", Desc: d, Coq: "CGoOnly", Key: d.key(), Nontriv: false,
			GoFail: fmt.Sprintf("constructor failed on admissible parameters (%s): %s", class, msg)}, 1)
		return
	}
	if d.Via != "" {
		run.Count("via:" + d.Via)
	}
	if d.NilIn || !admissible(d) {
		// node defaults / counts the node clamps: the parameters in effect are the node's business; the result is
		// judged by the property alone (closed, oriented, outward, normals), not compared with the model
		run.Count("judged:without-parameters")
		add(hx.Case{Kind: "prim", Desc: d, Coq: "CGoOnly", Key: d.key(), Nontriv: len(p.Idx) >= 3, GoFail: genericOracle(d, p)}, 1)
		return
	}
	scale := maxAbs(p.Pos)
	// merge tolerance: relative to the extent of the result along each axis
	exact := classes(p.Pos, [3]float64{})
	rep := classes(p.Pos, axisTol(p.Pos, 1e-9))
	same := true
	for i := range rep {
		if rep[i] != exact[i] {
			same = false
			break
		}
	}
	if same {
		run.Count("classes:exact-equality")
	} else {
		run.Count("classes:merged-within-1e-9-relative")
	}
	// a second, much coarser tolerance must give the same classes: the merge is not sensitive to the tolerance
	gofail := ""
	coarse := classes(p.Pos, axisTol(p.Pos, 1e-7))
	for i := range rep {
		if rep[i] != coarse[i] {
			// only meaningful when the resolution is far from the tolerance
			gofail = fmt.Sprintf("coincidence classes depend on the tolerance (vertex %d: %d vs %d)", i, rep[i], coarse[i])
			break
		}
	}
	if gofail == "" {
		gofail = geomOracle(d, p)
	}
	// UV option must not change indices/positions and must produce a TexCoord attribute
	if gofail == "" && d.UV != 0 && !p.UV {
		gofail = "UV option given but no TexCoord attribute on the result"
	}
	if gofail == "" && d.UV == 0 && p.UV && d.Fam != "sphere" {
		gofail = "TexCoord attribute without UV option"
	}
	if d.UV != 0 {
		run.Count("uv:with")
	} else {
		run.Count("uv:without")
	}
	lim := fullLimitQuick
	if run.Tier == "thorough" {
		lim = fullLimitThorough
	}
	small := d.Rows <= lim && d.Cols <= lim && d.Sides <= 64
	if mode == "full" {
		small = true
	} else if mode == "hash" || mode == "big" {
		small = false
	}
	// very large outputs (also when replayed): fingerprints only, closedness of the model's list is not re-evaluated in Coq
	big := mode == "big" || len(p.Idx) >= bigIdxCount
	if big {
		small = false // whatever the parameters say: an output of this size is never written out in full
	}
	c := hx.Case{Kind: "prim", Desc: d, Key: d.key(), Nontriv: len(p.Idx) >= 3, GoFail: gofail}
	// closedness of the implementation's own output after merging, on every case (the Coq evaluator re-decides it with
	// the verified checker wherever the lists are written out in full)
	{
		w := make([]int, len(p.Idx))
		bad := ""
		for i, x := range p.Idx {
			if x < 0 || x >= len(rep) {
				bad = fmt.Sprintf("index %d out of range", x)
				break
			}
			w[i] = rep[x]
		}
		if bad == "" {
			bad = closedGo(w)
		}
		if bad != "" && c.GoFail == "" {
			c.GoFail = "not closed after merging coincident positions: " + bad
		}
	}
	cube := d.Fam == "cubeW" || d.Fam == "cubeQ"
	switch {
	case cube && !big && isEvenInt(d.Width) && isEvenInt(d.Height) && isEvenInt(d.Depth) && len(p.Pos) == map[string]int{"cubeW": 8, "cubeQ": 24}[d.Fam]:
		// (a box with another vertex count is compared as index + class lists only: its closedness is the property,
		// the integer corner table is the model's business)
		// exact integer positions (six-quad box: float rotation error < 1e-9 relative, checked here)
		var items []string
		for i, v := range p.Pos {
			x, y, z := math.Round(v.X()), math.Round(v.Y()), math.Round(v.Z())
			if math.Abs(x-v.X())+math.Abs(y-v.Y())+math.Abs(z-v.Z()) > 1e-9*scale && c.GoFail == "" {
				c.GoFail = fmt.Sprintf("box corner %d is not at an integer position: (%g,%g,%g)", i, v.X(), v.Y(), v.Z())
			}
			items = append(items, fmt.Sprintf("(%s,%s,%s)", zlit(int64(x)), zlit(int64(y)), zlit(int64(z))))
		}
		c.Coq = fmt.Sprintf("CCube %s %s %s %s %d %s %s [%s]%%Z", hx.CoqBool(d.Fam == "cubeW"),
			hx.CoqZ(int64(d.Width/2)), hx.CoqZ(int64(d.Height/2)), hx.CoqZ(int64(d.Depth/2)),
			len(p.Pos), hx.CoqListN(p.Idx), hx.CoqListN(rep), strings.Join(items, ";"))
		run.Count("shape:cube-exact")
	case small:
		c.Coq = fmt.Sprintf("CFull %s %d %s %s", famCoq(d), len(p.Pos), hx.CoqListN(p.Idx), hx.CoqListN(rep))
		run.Count("shape:full")
	default:
		ctor := "CHash"
		if big {
			ctor = "CBig"
			run.Count("shape:big")
			run.Count(fmt.Sprintf("big:%s:2^%d-vertices", d.Fam, bits.Len(uint(weldedCount(d)))-1))
		} else {
			run.Count("shape:hash")
		}
		c.Coq = fmt.Sprintf("%s %s %d %d %s %s", ctor, famCoq(d), len(p.Pos), len(p.Idx), hash2Coq(p.Idx), hash2Coq(rep))
	}
	w := 60 * (len(p.Idx) + len(rep))
	if !small && !cube && big {
		// measured: index list + fingerprints ≈ 3 µs per index; class list ≈ 3 µs per vertex for identity classes,
		// ≈ 30 µs where the class map divides (unwelded sphere, cylinder)
		w = 3*len(p.Idx) + 3*len(rep)
		if d.Fam == "sphereU" || d.Fam == "cyl" {
			w = 3*len(p.Idx) + 30*len(rep)
		}
	}
	add(c, w)
}

// admissible: the parameter ranges the property quantifies over (counts the constructors accept, sizes > 0)
func admissible(d desc) bool {
	switch d.Fam {
	case "sphere", "sphereU", "hemi":
		return d.Rows >= 2 && d.Cols >= 3 && d.Radius > 0
	case "cyl":
		return d.Sides >= 3 && d.Radius > 0 && d.Height > 0
	case "cubeW", "cubeQ":
		return d.Width > 0 && d.Height > 0 && d.Depth > 0
	}
	return false
}

func zlit(x int64) string {
	if x < 0 {
		return fmt.Sprintf("(%d)", x)
	}
	return fmt.Sprintf("%d", x)
}

// conv: the volume of the inscribed polyhedron approaches the analytic volume from below, monotonically,
// with a quadratically shrinking error, as the resolution doubles.
func conv(cd convDesc) {
	fail := ""
	prevV, prevErr := 0.0, math.Inf(1)
	for k, n := range cd.Res {
		d := desc{Fam: cd.Fam, Rows: n, Cols: n, Sides: n, Radius: cd.Size, Height: cd.Size * 1.5}
		if cd.Fam == "cyl" {
			d.Rows, d.Cols = 0, 0
		} else {
			d.Sides, d.Height = 0, 0
		}
		p, class, msg := build(d)
		if class != clsOK {
			fail = fmt.Sprintf("constructor failed at resolution %d: %s", n, msg)
			break
		}
		v := signedVolume(p)
		an := analyticVolume(d)
		e := an - v
		if !(v > prevV) || !(e > 0) || !(e < prevErr) {
			fail = fmt.Sprintf("volume not monotone towards the analytic value at resolution %d: V=%.15g previous=%.15g analytic=%.15g", n, v, prevV, an)
			break
		}
		if k > 0 && cd.Res[k] >= 2*cd.Res[k-1] && !(e < prevErr/3) {
			fail = fmt.Sprintf("error does not shrink quadratically at resolution %d: %g after %g", n, e, prevErr)
			break
		}
		// a priori bound: relative error below 20/n^2 for these families (≈ π²·{1, 2/3, ..}/n²)
		if e/an > 20.0/float64(n*n) {
			fail = fmt.Sprintf("relative error %g at resolution %d exceeds 20/n^2", e/an, n)
			break
		}
		prevV, prevErr = v, e
	}
	run.Count("conv:" + cd.Fam)
	add(hx.Case{Kind: "conv", Desc: cd, Coq: "CGoOnly", Key: fmt.Sprintf("conv/%s/%g/%v", cd.Fam, cd.Size, cd.Res), Nontriv: true, GoFail: fail}, 1)
}

func reject(rd rejectDesc) {
	d := desc{Fam: rd.Fam, Rows: rd.Rows, Cols: rd.Cols, Radius: 1}
	p, class, _ := build(d)
	kind := map[string]int{"sphere": 0, "sphereU": 1, "hemi": 2}[rd.Fam]
	fail := ""
	if class == clsCrash {
		fail = "constructor crashed with a runtime error instead of rejecting the parameters"
	}
	if class == clsOK {
		// the property quantifies over every count the constructor accepts: whatever it accepts must be a solid
		if msg := genericOracle(d, p); msg != "" {
			fail = fmt.Sprintf("constructor accepts rows=%d columns=%d but the result is not a closed outward solid: %s", rd.Rows, rd.Cols, msg)
		}
	}
	run.Count("reject:" + class)
	add(hx.Case{Kind: "reject", Desc: rd, Key: fmt.Sprintf("reject/%s/%d/%d", rd.Fam, rd.Rows, rd.Cols), Nontriv: false, GoFail: fail,
		Coq: fmt.Sprintf("CReject %d %s %s %s", kind, hx.CoqZ(int64(rd.Rows)), hx.CoqZ(int64(rd.Cols)), hx.CoqBool(class != clsOK))}, 1)
}

// degenerate cylinder side counts: the constructor does not validate; recorded, not judged (sides >= 3 is
// what "admissible" means for a cylinder — see notes/C18.md).
func cylDegenerate(sides int) {
	d := desc{Fam: "cyl", Sides: sides, Radius: 1, Height: 2}
	p, class, _ := build(d)
	state := class
	if class == clsOK {
		rep := classes(p.Pos, axisTol(p.Pos, 1e-9))
		w := make([]int, len(p.Idx))
		ok := true
		for i, x := range p.Idx {
			if x < 0 || x >= len(rep) {
				ok = false
				break
			}
			w[i] = rep[x]
		}
		if ok && closedGo(w) == "" {
			state = "accepted-closed"
		} else {
			state = "accepted-not-closed"
		}
	}
	run.Count(fmt.Sprintf("cyl-sides-%d:%s", sides, state))
}

// primitives.Cone is a lateral surface only (no base disc): it is not one of the solids the property names.
// Recorded, not judged: its only unmatched directed edges must be the base ring (see notes/C18.md).
func coneObserve(sides int) {
	d := desc{Fam: "cone", Sides: sides, Radius: 1, Height: 2}
	p, class, _ := build(d)
	state := class
	if class == clsOK {
		rep := classes(p.Pos, axisTol(p.Pos, 1e-9))
		type e struct{ a, b int }
		seen := map[e]int{}
		ok := len(p.Idx)%3 == 0
		for t := 0; ok && t+2 < len(p.Idx); t += 3 {
			a, b, c := rep[p.Idx[t]], rep[p.Idx[t+1]], rep[p.Idx[t+2]]
			seen[e{a, b}]++
			seen[e{b, c}]++
			seen[e{c, a}]++
		}
		open, dup := 0, 0
		for x, k := range seen {
			if k > 1 {
				dup++
			}
			if seen[e{x.b, x.a}] == 0 {
				open++
				if x.a >= sides || x.b >= sides {
					ok = false // an unmatched edge that is not on the base ring
				}
			}
		}
		switch {
		case !ok || dup > 0:
			state = "accepted-inconsistent"
		case open == sides:
			state = "accepted-open-at-base-only"
		case open == 0:
			state = "accepted-closed"
		default:
			state = "accepted-other"
		}
	}
	run.Count("cone:" + state)
}

// a second dimension within a factor 20 of the first (keeps float rounding far below the merge tolerance)
func relSize(r *hx.Rng, base float64) float64 {
	if r.Chance(1, 4) {
		return base
	}
	return base * math.Exp((r.Float()*2-1)*math.Log(20))
}

func randSize(r *hx.Rng) float64 {
	switch r.Intn(4) {
	case 0:
		return float64(r.Range(1, 9))
	case 1:
		return math.Exp((r.Float()*2 - 1) * math.Log(1000)) // log-uniform in [1e-3, 1e3]
	case 2:
		return 0.5
	default:
		return r.Float()*10 + 0.01
	}
}

func main() {
	run = hx.ParseFlags("C18", "Check.C18")
	for _, in := range run.Inputs() {
		switch in.Kind {
		case "prim":
			var d desc
			if json.Unmarshal(in.Raw, &d) == nil {
				one(d, "auto")
			}
		case "conv":
			var d convDesc
			if json.Unmarshal(in.Raw, &d) == nil {
				conv(d)
			}
		case "reject":
			var d rejectDesc
			if json.Unmarshal(in.Raw, &d) == nil {
				reject(d)
			}
		case "conc":
			var d concDesc
			if json.Unmarshal(in.Raw, &d) == nil {
				// not deterministic: the window is repeated a few times (the interleaving has to happen again)
				for k := 0; k < 5; k++ {
					conc(d)
				}
			}
		}
	}
	if run.Replay != "" {
		balance()
		run.Finish()
		return
	}
	r := hx.NewRng(run.Seed)
	if *concOnly {
		concCases(r.Fork(), 250)
		balance()
		run.Finish()
		return
	}
	concCases(r.Fork(), 350)

	// --- (rows, cols) <= 24 x 24, random positive radius.  thorough: every pair, full lists.
	//     quick: every pair <= 12 x 12 with full lists; of the larger pairs one residue class of rows+cols mod 4
	//     (chosen by the seed) plus the corners, as hashes ---
	thorough := run.Tier == "thorough"
	big := 128 // rows/cols of the sampled large spheres (memory of one coqc shard grows with the largest case)
	if !thorough {
		big = 80
	}
	for rows := 2; rows <= 24; rows++ {
		for cols := 3; cols <= 24; cols++ {
			if !thorough && (rows > fullLimitQuick || cols > fullLimitQuick) {
				corner := (rows == 2 || rows == 24) && (cols == 3 || cols == 24)
				if !corner && (rows+cols+int(run.Seed%4))%4 != 0 {
					continue
				}
			}
			one(desc{Fam: "sphere", Rows: rows, Cols: cols, Radius: randSize(r)}, "auto")
			one(desc{Fam: "sphereU", Rows: rows, Cols: cols, Radius: randSize(r)}, "auto")
			one(desc{Fam: "hemi", Rows: rows, Cols: cols, Radius: randSize(r), Capped: r.Bool()}, "auto")
		}
	}
	// --- every side count 3..64, random sizes, UV options cycling through all 8 combinations ---
	for sides := 3; sides <= 64; sides++ {
		rad := randSize(r)
		one(desc{Fam: "cyl", Sides: sides, Radius: rad, Height: relSize(r, rad), UV: (sides + int(run.Seed)) % 8, UVSeed: r.U64() % 1000}, "auto")
	}
	for uv := 0; uv < 8; uv++ {
		one(desc{Fam: "cyl", Sides: 3 + uv, Radius: 1, Height: 1, UV: uv, UVSeed: 7}, "auto")
	}
	// --- boxes: exact (even integer extents) and random positive sizes, with and without UVs ---
	for _, fam := range []string{"cubeW", "cubeQ"} {
		for uv := 0; uv <= 2; uv++ {
			one(desc{Fam: fam, Width: 2, Height: 2, Depth: 2, UV: uv, UVSeed: 3}, "auto")
			one(desc{Fam: fam, Width: 2, Height: 4, Depth: 6, UV: uv, UVSeed: 4}, "auto")
			one(desc{Fam: fam, Width: float64(2 * r.Range(1, 500)), Height: float64(2 * r.Range(1, 500)), Depth: float64(2 * r.Range(1, 500)), UV: uv, UVSeed: r.U64() % 1000}, "auto")
			w := randSize(r)
			one(desc{Fam: fam, Width: w, Height: relSize(r, w), Depth: relSize(r, w), UV: uv, UVSeed: r.U64() % 1000}, "auto")
			one(desc{Fam: fam, Width: 1, Height: 1, Depth: 1, UV: uv}, "auto")
		}
	}
	round4Cases(r, thorough)
	// --- parameters the constructors must reject (and the boundary they must accept) ---
	for _, fam := range []string{"sphere", "sphereU", "hemi"} {
		for _, rc := range [][2]int{{1, 3}, {2, 2}, {0, 0}, {1, 8}, {8, 2}, {-1, 5}, {5, -1}, {2, 3}, {0, 3}, {2, 0}} {
			reject(rejectDesc{Fam: fam, Rows: rc[0], Cols: rc[1]})
		}
	}
	for _, s := range []int{0, 1, 2} {
		cylDegenerate(s)
	}
	for _, s := range []int{2, 3, 4, 5, 8, 17, 64} {
		coneObserve(s)
	}
	// --- convergence towards the analytic volume ---
	for _, fam := range []string{"sphere", "sphereU", "hemi", "cyl"} {
		conv(convDesc{Fam: fam, Size: 1, Res: []int{4, 8, 16, 32, 64, 128}})
		conv(convDesc{Fam: fam, Size: randSize(r), Res: []int{3, 4, 5, 6, 7, 8, 9, 10, 12, 14, 17, 20, 25}})
		if run.Tier == "thorough" {
			conv(convDesc{Fam: fam, Size: randSize(r), Res: []int{5, 10, 20, 40, 80, 160, 320}})
		}
	}
	// --- genuinely large counts around 2^14 … 2^16 vertices ---
	bigCases(r, thorough)
	// --- sampled: large counts (hash) and random small/medium counts with random sizes ---
	for i := 0; i < run.N; i++ {
		switch r.Intn(10) {
		case 8:
			sampleScaled(r)
			continue
		case 9:
			sampleNode(r)
			continue
		}
		switch r.Intn(8) {
		case 0:
			one(desc{Fam: "sphere", Rows: r.Range(25, big), Cols: r.Range(25, big), Radius: randSize(r)}, "hash")
		case 1:
			one(desc{Fam: "sphereU", Rows: r.Range(25, big*5/8), Cols: r.Range(25, big*5/8), Radius: randSize(r)}, "hash")
		case 2:
			one(desc{Fam: "hemi", Rows: r.Range(25, big), Cols: r.Range(25, big), Radius: randSize(r), Capped: r.Bool()}, "hash")
		case 3:
			rad := randSize(r)
			one(desc{Fam: "cyl", Sides: r.Range(65, big*20), Radius: rad, Height: relSize(r, rad), UV: r.Intn(8), UVSeed: r.U64() % 1000}, "hash")
		case 4:
			// extreme aspect ratios: very flat / very thin, few and many columns
			rows, cols := r.Range(2, 4), r.Range(25, big*2)
			if r.Bool() {
				rows, cols = r.Range(25, big*2), r.Range(3, 5)
			}
			one(desc{Fam: hx.Pick(r, []string{"sphere", "sphereU", "hemi"}), Rows: rows, Cols: cols, Radius: randSize(r)}, "hash")
		case 5:
			rad := randSize(r)
			one(desc{Fam: "cyl", Sides: r.Range(3, 64), Radius: rad, Height: relSize(r, rad), UV: r.Intn(8), UVSeed: r.U64() % 1000}, "full")
		case 6:
			fam := hx.Pick(r, []string{"cubeW", "cubeQ"})
			w := randSize(r)
			one(desc{Fam: fam, Width: w, Height: relSize(r, w), Depth: relSize(r, w), UV: r.Intn(3), UVSeed: r.U64() % 1000}, "auto")
		default:
			one(desc{Fam: hx.Pick(r, []string{"sphere", "sphereU", "hemi"}), Rows: r.Range(2, 12), Cols: r.Range(3, 12), Radius: randSize(r)}, "full")
		}
	}
	run.Extra["full_limit"] = map[string]int{"quick": fullLimitQuick, "thorough": fullLimitThorough}
	run.Extra["merge_tolerance"] = "1e-9 relative to the largest coordinate (exact equality suffices for spheres, hemispheres and the welded box; the cylinder seam/bottom cap and the six-quad box coincide only within rounding)"
	balance()
	run.Finish()
}
