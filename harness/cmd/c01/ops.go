package main

// One history step: run the real polyform operation on pool members and render the step as a Check.C01 [op].
// Everything handed to the implementation (index slices, attribute slices, maps, materials) is freshly allocated
// per step and never touched again by the harness: the property is about what mesh operations do to each other,
// not about a caller scribbling over a slice it gave away (see notes/C01.md).

import (
	"bytes"
	"fmt"
	"image"
	"image/color"
	"math"
	"runtime"
	"sort"
	"strings"

	"github.com/EliCDavis/polyform/formats/gltf"
	"github.com/EliCDavis/polyform/formats/obj"
	"github.com/EliCDavis/polyform/formats/ply"
	"github.com/EliCDavis/polyform/formats/stl"
	"github.com/EliCDavis/polyform/math/geometry"
	"github.com/EliCDavis/polyform/math/quaternion"
	"github.com/EliCDavis/polyform/math/trs"
	"github.com/EliCDavis/iter"
	"github.com/EliCDavis/polyform/modeling"
	"github.com/EliCDavis/polyform/modeling/marching"
	"github.com/EliCDavis/polyform/modeling/meshops"
	"github.com/EliCDavis/polyform/modeling/meshops/gausops"
	"github.com/EliCDavis/polyform/modeling/pipeline"
	"github.com/EliCDavis/polyform/modeling/primitives"
	"github.com/EliCDavis/polyform/modeling/repeat"
	"github.com/EliCDavis/polyform/modeling/simplify"
	"github.com/EliCDavis/polyform/modeling/voxelize"
	"github.com/EliCDavis/vector/vector2"
	"github.com/EliCDavis/vector/vector3"
	"github.com/EliCDavis/vector/vector4"
)

type Op struct {
	Op    string                 `json:"op"`
	I     int                    `json:"i"`
	J     int                    `json:"j,omitempty"`
	K     int                    `json:"k,omitempty"`    // attribute kind 1..4
	Name  string                 `json:"name,omitempty"` // attribute name
	Topo  int                    `json:"topo,omitempty"`
	Idx   []int                  `json:"idx,omitempty"`
	Data  [][]float64            `json:"data,omitempty"`
	Spare int                    `json:"spare,omitempty"` // extra capacity of the slice handed to the implementation
	Fn    string                 `json:"fn,omitempty"`
	Vec   []float64              `json:"vec,omitempty"`
	Mat   int                    `json:"mat,omitempty"`
	Mats  [][2]int               `json:"mats,omitempty"` // (PrimitiveCount, material id; id<0: nil material)
	Fmt   string                 `json:"fmt,omitempty"`
	N     int                    `json:"n,omitempty"`   // weld decimals / smoothing iterations / worker pool size
	TRS   [][]float64            `json:"trs,omitempty"` // repeat: tx,ty,tz,sx,sy,sz per transform
	Maps  map[string][][]float64 `json:"maps,omitempty"`
	All   []map[string][][]float64 `json:"all,omitempty"` // build: attribute maps of the kinds 1..4 (index kind-1)
	Via   bool                   `json:"via,omitempty"` // through Mesh.Transform(<the meshops transformer>)
	Nil   bool                   `json:"nil,omitempty"` // an empty Idx / Data / Mats is handed over as a nil slice
}

// ---- slices handed to the implementation ----------------------------------------------------------------------

func mkInts(xs []int, spare int) []int {
	s := make([]int, len(xs), len(xs)+spare)
	copy(s, xs)
	return s
}
func at(r []float64, i int) float64 {
	if i < len(r) {
		return r[i]
	}
	return 0
}
func mkV1(rows [][]float64, spare int) []float64 {
	s := make([]float64, len(rows), len(rows)+spare)
	for i, r := range rows {
		s[i] = at(r, 0)
	}
	return s
}
func mkV2(rows [][]float64, spare int) []vector2.Float64 {
	s := make([]vector2.Float64, len(rows), len(rows)+spare)
	for i, r := range rows {
		s[i] = vector2.New(at(r, 0), at(r, 1))
	}
	return s
}
func mkV3(rows [][]float64, spare int) []vector3.Float64 {
	s := make([]vector3.Float64, len(rows), len(rows)+spare)
	for i, r := range rows {
		s[i] = vector3.New(at(r, 0), at(r, 1), at(r, 2))
	}
	return s
}
func mkV4(rows [][]float64, spare int) []vector4.Float64 {
	s := make([]vector4.Float64, len(rows), len(rows)+spare)
	for i, r := range rows {
		s[i] = vector4.New(at(r, 0), at(r, 1), at(r, 2), at(r, 3))
	}
	return s
}
func v3of(v []float64) vector3.Float64 { return vector3.New(at(v, 0), at(v, 1), at(v, 2)) }
func v2of(v []float64) vector2.Float64 { return vector2.New(at(v, 0), at(v, 1)) }

// the material with identity id.  Its content is deliberately "unnormalised" (a name with a space, colours and
// texture present for some ids only): an operation that tidies a material up THROUGH THE POINTER a mesh holds changes
// what every mesh holding that pointer reports (see matID)
func material(id int) *modeling.Material {
	if id < 0 {
		return nil
	}
	m := &modeling.Material{Name: fmt.Sprintf("mat %d", id), SpecularHighlight: float64(id)}
	if id%2 == 0 {
		m.DiffuseColor = color.RGBA{uint8(20 * id), 10, 200, 255}
	}
	if id%3 == 0 {
		uri := fmt.Sprintf("tex %d.png", id)
		m.ColorTextureURI = &uri
	}
	return m
}

// padded row for the model: exactly k integers
func rowsK(rows [][]float64, k int) [][]float64 {
	out := make([][]float64, len(rows))
	for i, r := range rows {
		o := make([]float64, k)
		for j := range o {
			o[j] = at(r, j)
		}
		out[i] = o
	}
	return out
}

// ---- running under recover ------------------------------------------------------------------------------------

func classify(rec interface{}) string {
	if _, ok := rec.(runtime.Error); ok {
		return "Crash"
	}
	return "Declared"
}

func protect(f func() []modeling.Mesh) (ms []modeling.Mesh, status string) {
	status = "Ok"
	defer func() {
		if rec := recover(); rec != nil {
			status = classify(rec)
			ms = nil
		}
	}()
	ms = f()
	return
}

func one(m modeling.Mesh) []modeling.Mesh { return []modeling.Mesh{m} }

// worker-pool size of a Scan...ParallelWithPoolSize step: the one the history names, else the default
func poolOr(n, dflt int) int {
	if n > 0 {
		return n
	}
	return dflt
}

// values of attribute (k, name) of m as model cells
func attrCells(m modeling.Mesh, k int, name string) []cell {
	o := observe(m)
	for _, a := range o.v[k] {
		if a.name == name {
			return a.vals
		}
	}
	return nil
}

func attrRows3(m modeling.Mesh, name string) [][3]float64 {
	if !m.HasFloat3Attribute(name) {
		return nil
	}
	it := m.Float3Attribute(name)
	out := make([][3]float64, it.Len())
	for i := range out {
		v := it.At(i)
		out[i] = [3]float64{v.X(), v.Y(), v.Z()}
	}
	return out
}

func indicesOf(m modeling.Mesh) []int {
	it := m.Indices()
	out := make([]int, it.Len())
	for i := range out {
		out[i] = it.At(i)
	}
	return out
}

func zvec(v []float64, k int) string {
	c := make(cell, k)
	for i := range c {
		c[i] = enc(at(v, i))
	}
	return cellCoq(c) + "%Z"
}

var exportFmts = []string{"ply-ascii", "ply-binary", "obj", "stl", "gltf", "obj-mtl", "obj-named", "gltf-text",
	// read-only queries of the modeling API (round 4): they hand back no mesh, the pool is re-read afterwards
	"bbox", "octree", "neighbors", "prims", "queries", "voxelize", "iterators", "march-field", "scanpar", "gltf-two"}

func fmtNo(f string) int {
	for i, s := range exportFmts {
		if s == f {
			return i
		}
	}
	return 0
}

// stats filled by apply for the distribution report
var exportErrors int

// apply runs one step. ms: the meshes the step adds to the pool; status: Ok / Declared / Crash as the
// implementation showed it; coq: the step as a Check.C01 op (what the model is asked to execute).
func apply(op Op, pool []modeling.Mesh) (ms []modeling.Mesh, status string, coq string) {
	bad := func(i int) bool { return i < 0 || i >= len(pool) }
	needI := op.Op != "new" && op.Op != "empty" && op.Op != "cube" && op.Op != "build"
	if (needI && bad(op.I)) || ((op.Op == "append" || op.Op == "copyattr" || op.Op == "sharemats") && bad(op.J)) {
		// not generated; a hand-written replay may do it: the model answers Declared for a missing member
		return nil, "Declared", fmt.Sprintf("OExport 0%%nat %s", nat(len(pool)+1000))
	}
	var m modeling.Mesh
	if needI {
		m = pool[op.I]
	}
	I := nat(op.I)
	switch op.Op {
	case "new":
		coq = fmt.Sprintf("ONew %s %s %s", topoCoq[op.Topo], cellsCoq(intCells(op.Idx)), nat(op.Spare))
		ms, status = protect(func() []modeling.Mesh {
			ix := mkInts(op.Idx, op.Spare)
			if op.Nil && len(op.Idx) == 0 {
				ix = nil
			}
			if op.Fn == "tri" && op.Topo == 0 {
				return one(modeling.NewTriangleMesh(ix))
			}
			return one(modeling.NewMesh(modeling.Topology(op.Topo), ix))
		})
	case "empty":
		coq = fmt.Sprintf("OEmpty %s", topoCoq[op.Topo])
		ms, status = protect(func() []modeling.Mesh { return one(modeling.EmptyMesh(modeling.Topology(op.Topo))) })
	case "cube":
		ms, status = protect(func() []modeling.Mesh {
			return one(primitives.Cube{Width: at(op.Vec, 0), Height: at(op.Vec, 1), Depth: at(op.Vec, 2)}.Welded())
		})
		var pos, nrm []cell
		if status == "Ok" {
			pos = attrCells(ms[0], 3, modeling.PositionAttribute)
			nrm = attrCells(ms[0], 3, modeling.NormalAttribute)
		}
		coq = fmt.Sprintf("OCube %d%%N %d%%N %s %s", attrID("Position"), attrID("Normal"), cellsCoq(pos), cellsCoq(nrm))
	case "append":
		coq = fmt.Sprintf("OAppend %s %s", I, nat(op.J))
		o := pool[op.J]
		ms, status = protect(func() []modeling.Mesh { return one(m.Append(o)) })
	case "setattr":
		coq = fmt.Sprintf("OSetAttr %s %s %d%%N %s %s", kindCoq[op.K], I, attrID(op.Name), cellsCoq(rowCells(rowsK(op.Data, op.K))), nat(op.Spare))
		ms, status = protect(func() []modeling.Mesh {
			switch op.K {
			case 1:
				return one(m.SetFloat1Attribute(op.Name, mkV1(op.Data, op.Spare)))
			case 2:
				return one(m.SetFloat2Attribute(op.Name, mkV2(op.Data, op.Spare)))
			case 3:
				return one(m.SetFloat3Attribute(op.Name, mkV3(op.Data, op.Spare)))
			}
			return one(m.SetFloat4Attribute(op.Name, mkV4(op.Data, op.Spare)))
		})
	case "setdata":
		names := make([]string, 0, len(op.Maps))
		for n := range op.Maps {
			names = append(names, n)
		}
		sort.Strings(names)
		items := make([]string, len(names))
		for i, n := range names {
			items[i] = fmt.Sprintf("(%d%%N,%s)", attrID(n), cellsCoq(rowCells(rowsK(op.Maps[n], op.K))))
		}
		coq = fmt.Sprintf("OSetData %s %s [%s]", kindCoq[op.K], I, strings.Join(items, ";"))
		ms, status = protect(func() []modeling.Mesh {
			if op.Nil && len(names) == 0 { // a nil map
				switch op.K {
				case 1:
					return one(m.SetFloat1Data(nil))
				case 2:
					return one(m.SetFloat2Data(nil))
				case 3:
					return one(m.SetFloat3Data(nil))
				}
				return one(m.SetFloat4Data(nil))
			}
			switch op.K {
			case 1:
				d := map[string][]float64{}
				for _, n := range names {
					d[n] = mkV1(op.Maps[n], 0)
				}
				return one(m.SetFloat1Data(d))
			case 2:
				d := map[string][]vector2.Float64{}
				for _, n := range names {
					d[n] = mkV2(op.Maps[n], 0)
				}
				return one(m.SetFloat2Data(d))
			case 3:
				d := map[string][]vector3.Float64{}
				for _, n := range names {
					d[n] = mkV3(op.Maps[n], 0)
				}
				return one(m.SetFloat3Data(d))
			}
			d := map[string][]vector4.Float64{}
			for _, n := range names {
				d[n] = mkV4(op.Maps[n], 0)
			}
			return one(m.SetFloat4Data(d))
		})
	case "copyattr":
		coq = fmt.Sprintf("OCopyAttr %s %s %s %d%%N", kindCoq[op.K], I, nat(op.J), attrID(op.Name))
		src := pool[op.J]
		ms, status = protect(func() []modeling.Mesh {
			switch op.K {
			case 1:
				return one(m.CopyFloat1Attribute(src, op.Name))
			case 2:
				return one(m.CopyFloat2Attribute(src, op.Name))
			case 3:
				return one(m.CopyFloat3Attribute(src, op.Name))
			}
			return one(m.CopyFloat4Attribute(src, op.Name))
		})
	case "setindices":
		coq = fmt.Sprintf("OSetIndices %s %s %s", I, cellsCoq(intCells(op.Idx)), nat(op.Spare))
		ms, status = protect(func() []modeling.Mesh {
			if op.Nil && len(op.Idx) == 0 {
				return one(m.SetIndices(nil))
			}
			return one(m.SetIndices(mkInts(op.Idx, op.Spare)))
		})
	case "setmaterial":
		coq = fmt.Sprintf("OSetMaterial %s (%d)%%Z", I, op.Mat)
		ms, status = protect(func() []modeling.Mesh { return one(m.SetMaterial(*material(op.Mat))) })
	case "setmaterials":
		cs := make([]cell, len(op.Mats))
		for i, e := range op.Mats {
			id := e[1]
			if id < 0 {
				id = -1
			}
			cs[i] = cell{fmt.Sprintf("%d", e[0]), fmt.Sprintf("%d", id)}
		}
		coq = fmt.Sprintf("OSetMaterials %s %s %s", I, cellsCoq(cs), nat(op.Spare))
		ms, status = protect(func() []modeling.Mesh {
			if op.Nil && len(op.Mats) == 0 {
				return one(m.SetMaterials(nil))
			}
			byID := map[int]*modeling.Material{} // equal ids share one *Material (SplitOnUniqueMaterials keys on the pointer)
			s := make([]modeling.MeshMaterial, len(op.Mats), len(op.Mats)+op.Spare)
			for i, e := range op.Mats {
				if _, ok := byID[e[1]]; !ok {
					byID[e[1]] = material(e[1])
				}
				s[i] = modeling.MeshMaterial{PrimitiveCount: e[0], Material: byID[e[1]]}
			}
			return one(m.SetMaterials(s))
		})
	case "sharemats":
		// the slice Materials() hands out is the mesh's own: the result shares pool[J]'s material array
		coq = fmt.Sprintf("OShareMats %s %s", I, nat(op.J))
		src := pool[op.J]
		ms, status = protect(func() []modeling.Mesh { return one(m.SetMaterials(src.Materials())) })
	case "build":
		return applyBuild(op)
	case "clear":
		coq = fmt.Sprintf("OClearAttrs %s", I)
		ms, status = protect(func() []modeling.Mesh { return one(m.ClearAttributeData()) })
	case "map":
		return applyMap(op, m)
	case "topoints":
		coq = fmt.Sprintf("OToPoints %s", I)
		ms, status = protect(func() []modeling.Mesh { return one(m.ToPointCloud()) })
	case "flip":
		coq = fmt.Sprintf("OFlip %s", I)
		ms, status = protect(func() []modeling.Mesh {
			if op.Via {
				return one(m.Transform(meshops.FlipTriangleWindingTransformer{}))
			}
			return one(meshops.FlipTriangleWinding(m))
		})
	case "unweld":
		coq = fmt.Sprintf("OUnweld %s", I)
		ms, status = protect(func() []modeling.Mesh {
			if op.Via {
				return one(m.Transform(meshops.UnweldTransformer{}))
			}
			return one(meshops.Unweld(m))
		})
	case "removeunref":
		coq = fmt.Sprintf("ORemoveUnref %s", I)
		ms, status = protect(func() []modeling.Mesh {
			if op.Via {
				return one(m.Transform(meshops.RemovedUnreferencedVerticesTransformer{}))
			}
			return one(meshops.RemovedUnreferencedVertices(m))
		})
	case "weld":
		newidx, keep := weldExpect(attrRows3(m, op.Name), indicesOf(m), op.N)
		coq = fmt.Sprintf("OWeld %s %d%%N %s %s", I, attrID(op.Name), cellsCoq(intCells(newidx)), natsCoq(keep))
		ms, status = protect(func() []modeling.Mesh { return one(m.WeldByFloat3Attribute(op.Name, op.N)) })
	case "repeat":
		pos := attrRows3(m, modeling.PositionAttribute)
		items := make([]string, len(op.TRS))
		ts := make([]trs.TRS, len(op.TRS))
		for i, t := range op.TRS {
			rows := make([][]float64, len(pos))
			for j, p := range pos {
				rows[j] = []float64{p[0]*at(t, 3) + at(t, 0), p[1]*at(t, 4) + at(t, 1), p[2]*at(t, 5) + at(t, 2)}
			}
			items[i] = cellsCoq(rowCells(rows))
			ts[i] = trs.New(vector3.New(at(t, 0), at(t, 1), at(t, 2)), quaternion.Identity(), vector3.New(at(t, 3), at(t, 4), at(t, 5)))
		}
		coq = fmt.Sprintf("ORepeat %s %d%%N [%s]", I, attrID("Position"), strings.Join(items, ";"))
		ms, status = protect(func() []modeling.Mesh { return one(repeat.Mesh(m, ts)) })
	case "export":
		coq = fmt.Sprintf("OExport %s %s", nat(fmtNo(op.Fmt)), I)
		_, st := protect(func() []modeling.Mesh {
			var buf bytes.Buffer
			var err error
			switch op.Fmt {
			case "ply-ascii":
				err = ply.Write(&buf, m, ply.ASCII)
			case "ply-binary":
				err = ply.Write(&buf, m, ply.BinaryLittleEndian)
			case "obj":
				err = obj.WriteMesh(m, "", &buf)
			case "stl":
				err = stl.WriteMesh(&buf, m)
			case "obj-mtl":
				err = obj.WriteMaterialsFromMesh(m, &buf)
			case "obj-named":
				err = obj.WriteMeshes([]obj.ObjMesh{{Name: "a", Mesh: m}, {Name: "b", Mesh: m}}, "m.mtl", &buf)
			case "gltf-text":
				// consumers that take the mesh BY POINTER get the address of the pool member itself (not of a copy):
				// a writer that stores through the pointer changes what the caller's variable reports
				err = gltf.WriteText(gltf.PolyformScene{Models: []gltf.PolyformModel{{Name: "m", Mesh: &pool[op.I]}}}, &buf)
			case "gltf-two":
				// the same member twice (the writer tracks meshes by pointer) and its neighbour in the pool
				models := []gltf.PolyformModel{{Name: "a", Mesh: &pool[op.I]}, {Name: "b", Mesh: &pool[op.I]}}
				if op.I+1 < len(pool) {
					models = append(models, gltf.PolyformModel{Name: "c", Mesh: &pool[op.I+1]})
				}
				err = gltf.WriteBinary(gltf.PolyformScene{Models: models}, &buf)
			case "bbox", "octree", "neighbors", "prims", "queries", "voxelize", "iterators", "march-field", "scanpar":
				readOnly(op.Fmt, m)
			default:
				err = gltf.WriteBinary(gltf.PolyformScene{Models: []gltf.PolyformModel{{Name: "m", Mesh: &pool[op.I]}}}, &buf)
			}
			if err != nil {
				exportErrors++
			}
			return nil
		})
		if st != "Ok" {
			exportErrors++
		}
		// a writer that rejects (or chokes on) a mesh is not C01's business: the step reads only, the pool is
		// re-read afterwards like after every other step
		ms, status = nil, "Ok"
	case "ident":
		coq = fmt.Sprintf("OIdent %s", I)
		ms, status = protect(func() []modeling.Mesh {
			switch op.Fn {
			case "scan1":
				return one(m.ScanFloat1Attribute(op.Name, func(int, float64) {}))
			case "scan2":
				return one(m.ScanFloat2AttributeParallelWithPoolSize(op.Name, poolOr(op.N, 2), func(int, vector2.Float64) {}))
			case "scan3":
				return one(m.ScanFloat3Attribute(op.Name, func(int, vector3.Float64) {}))
			case "scan3par":
				return one(m.ScanFloat3AttributeParallelWithPoolSize(op.Name, poolOr(op.N, 3), func(int, vector3.Float64) {}))
			case "scan4":
				return one(m.ScanFloat4Attribute(op.Name, func(int, vector4.Float64) {}))
			case "scanprims":
				return one(m.ScanPrimitives(func(int, modeling.Primitive) {}))
			case "colorspace-skip":
				return one(m.Transform(meshops.VertexColorSpaceTransformer{Attribute: op.Name, SkipOnMissingAttribute: true}))
			case "scan1par":
				return one(m.ScanFloat1AttributeParallelWithPoolSize(op.Name, poolOr(op.N, 2), func(int, float64) {}))
			case "scanprimspar":
				return one(m.ScanPrimitivesParallelWithPoolSize(poolOr(op.N, 3), func(int, modeling.Primitive) {}))
			case "pipeline0":
				return one(pipeline.Pipeline{}.Run(m))
			case "decimate":
				return one(simplify.QuadricDecimation(m))
			case "custom":
				return one(m.Transform(meshops.CustomTransformer{Func: func(x modeling.Mesh) (modeling.Mesh, error) { return x, nil }}))
			}
			return one(m.Transform())
		})
	case "filter":
		return applyFilter(op, m)
	case "crop":
		pos := attrRows3(m, op.Name)
		keep := []int{}
		for _, i := range indicesOf(m) { // (since fix b57892d: one point per index, not per vertex)
			if i < 0 || i >= len(pos) {
				continue
			}
			p := pos[i]
			in := true
			for c := 0; c < 3; c++ {
				if p[c] < at(op.Vec, c)-at(op.Vec, 3+c)/2 || p[c] > at(op.Vec, c)+at(op.Vec, 3+c)/2 {
					in = false
				}
			}
			if in {
				keep = append(keep, i)
			}
		}
		coq = fmt.Sprintf("OCrop %s %d%%N %s", I, attrID(op.Name), natsCoq(keep))
		box := geometry.NewAABB(v3of(op.Vec), vector3.New(at(op.Vec, 3), at(op.Vec, 4), at(op.Vec, 5)))
		ms, status = protect(func() []modeling.Mesh {
			if op.Via {
				return one(m.Transform(meshops.CropAttribute3DTransformer{Attribute: op.Name, BoundingBox: box}))
			}
			return one(meshops.CropFloat3Attribute(m, op.Name, box))
		})
	case "slice":
		// plane x = c: normal (1,0,0), origin (c,0,0); a corner is clipped when x < c
		c := at(op.Vec, 0)
		pos := attrRows3(m, op.Name)
		idx := indicesOf(m)
		var above, below []int
		for t := 0; t+2 < len(idx); t += 3 {
			n := 0
			for q := 0; q < 3; q++ {
				if idx[t+q] >= 0 && idx[t+q] < len(pos) && pos[idx[t+q]][0] < c {
					n++
				}
			}
			if n == 0 {
				below = append(below, idx[t], idx[t+1], idx[t+2])
			} else if n == 3 {
				above = append(above, idx[t], idx[t+1], idx[t+2])
			}
		}
		coq = fmt.Sprintf("OMulti %s (Some %d%%N) [Triangle] [(%s,None);(%s,None)]", I, attrID(op.Name), cellsCoq(intCells(above)), cellsCoq(intCells(below)))
		plane := geometry.NewPlaneFromPoints(vector3.New(c, 0, 0), vector3.New(c, 1, 0), vector3.New(c, 0, 1))
		if op.Via {
			// SliceByPlaneTransformer builds both halves and hands back one of them
			side, kept := meshops.AbovePlane, above
			if op.N == 1 {
				side, kept = meshops.BelowPlane, below
			}
			coq = fmt.Sprintf("OMulti %s (Some %d%%N) [Triangle] [(%s,None)]", I, attrID(op.Name), cellsCoq(intCells(kept)))
			ms, status = protect(func() []modeling.Mesh {
				return one(m.Transform(meshops.SliceByPlaneTransformer{Attribute: op.Name, SliceToKeep: side, Plane: plane}))
			})
			break
		}
		ms, status = protect(func() []modeling.Mesh {
			a, b := meshops.SliceByPlaneWithAttribute(m, plane, op.Name)
			return []modeling.Mesh{a, b}
		})
	case "split":
		// expected grouping, computed from the inputs: walk the triangles, advance the material cursor as the code does
		mats := m.Materials()
		idx := indicesOf(m)
		order := []*modeling.Material{}
		groups := map[*modeling.Material][]int{}
		cur, other := 0, 0
		ok := len(mats) >= 2
		if ok {
			order = append(order, mats[0].Material)
			groups[mats[0].Material] = []int{}
			for t := 0; t+2 < len(idx) && ok; t += 3 {
				if mats[cur].PrimitiveCount+other <= t/3 {
					for ok && mats[cur].PrimitiveCount+other <= t/3 { // (since fix f7cbdfa: steps over empty ranges)
						other += mats[cur].PrimitiveCount
						cur++
						if cur >= len(mats) {
							ok = false // the implementation declares the error: ranges cover too few primitives
						}
					}
					if !ok {
						break
					}
					if _, seen := groups[mats[cur].Material]; !seen {
						groups[mats[cur].Material] = []int{}
						order = append(order, mats[cur].Material)
					}
				}
				groups[mats[cur].Material] = append(groups[mats[cur].Material], idx[t], idx[t+1], idx[t+2])
			}
		}
		items := make([]string, len(order))
		for i, p := range order {
			items[i] = fmt.Sprintf("(%s,Some (%d)%%Z)", cellsCoq(intCells(groups[p])), matID(p))
		}
		coq = fmt.Sprintf("OMulti %s None [Triangle] [%s]", I, strings.Join(items, ";"))
		if len(mats) < 2 {
			coq = fmt.Sprintf("OIdent %s", I) // nothing to split on: the argument itself is returned
		} else if !ok && int(m.Topology()) == 0 {
			// declared error after the topology check (not generated): ask the model for a Declared answer
			coq = fmt.Sprintf("OMulti %s None [Point] []", I)
		}
		ms, status = protect(func() []modeling.Mesh { return meshops.SplitOnUniqueMaterials(m) })
	default:
		panic("unknown op " + op.Op)
	}
	return
}

// ---- the attribute transformers: one fresh array, stored under dst ------------------------------------------------

func applyMap(op Op, m modeling.Mesh) (ms []modeling.Mesh, status string, coq string) {
	k, src, dst := 3, op.Name, op.Name
	req := []int{}
	tris := false
	fn := "" // FAdd / FMul literal; empty: FConst of what the implementation produced
	var run func() modeling.Mesh
	pos := modeling.PositionAttribute
	switch op.Fn {
	case "translate":
		src, dst, fn = pos, pos, "FAdd "+zvec(op.Vec, 3)
		run = func() modeling.Mesh { return m.Translate(v3of(op.Vec)) }
	case "scale":
		src, dst, fn = pos, pos, "FMul "+zvec(op.Vec, 3)
		run = func() modeling.Mesh { return m.Scale(v3of(op.Vec)) }
	case "rotate":
		src, dst = pos, pos
		run = func() modeling.Mesh { return m.Rotate(quaternion.FromTheta(math.Pi/2, vector3.Up[float64]())) }
	case "trs":
		src, dst = pos, pos
		run = func() modeling.Mesh {
			return m.ApplyTRS(trs.New(v3of(op.Vec), quaternion.Identity(), vector3.New(at(op.Vec, 3), at(op.Vec, 4), at(op.Vec, 5))))
		}
	case "modify.add", "modify.mul":
		k = op.K
		mul := op.Fn == "modify.mul"
		if mul {
			fn = "FMul " + zvec(op.Vec, k)
		} else {
			fn = "FAdd " + zvec(op.Vec, k)
		}
		f := func(x float64, c int) float64 {
			if mul {
				return x * at(op.Vec, c)
			}
			return x + at(op.Vec, c)
		}
		run = func() modeling.Mesh {
			switch k {
			case 1:
				g := func(i int, v float64) float64 { return f(v, 0) }
				if op.N > 0 {
					return m.ModifyFloat1AttributeParallelWithPoolSize(op.Name, op.N, g)
				}
				return m.ModifyFloat1Attribute(op.Name, g)
			case 2:
				g := func(i int, v vector2.Float64) vector2.Float64 { return vector2.New(f(v.X(), 0), f(v.Y(), 1)) }
				if op.N > 0 {
					return m.ModifyFloat2AttributeParallelWithPoolSize(op.Name, op.N, g)
				}
				return m.ModifyFloat2Attribute(op.Name, g)
			}
			g := func(i int, v vector3.Float64) vector3.Float64 {
				return vector3.New(f(v.X(), 0), f(v.Y(), 1), f(v.Z(), 2))
			}
			if op.N > 0 {
				return m.ModifyFloat3AttributeParallelWithPoolSize(op.Name, op.N, g)
			}
			return m.ModifyFloat3Attribute(op.Name, g)
		}
	case "mo.translate":
		fn = "FAdd " + zvec(op.Vec, 3)
		run = func() modeling.Mesh {
			if op.Via {
				return m.Transform(meshops.TranslateAttribute3DTransformer{Attribute: op.Name, Amount: v3of(op.Vec)})
			}
			return meshops.TranslateAttribute3D(m, op.Name, v3of(op.Vec))
		}
	case "mo.scale3":
		fn = "FMul " + zvec(op.Vec, 3)
		run = func() modeling.Mesh {
			if op.Via {
				return m.Transform(meshops.ScaleAttribute3DTransformer{Attribute: op.Name, Amount: v3of(op.Vec)})
			}
			return meshops.ScaleAttribute3D(m, op.Name, vector3.Zero[float64](), v3of(op.Vec))
		}
	case "mo.scale2":
		k, fn = 2, "FMul "+zvec(op.Vec, 2)
		run = func() modeling.Mesh {
			if op.Via {
				return m.Transform(meshops.ScaleAttribute2DTransformer{Attribute: op.Name, Amount: v2of(op.Vec)})
			}
			return meshops.ScaleAttribute2D(m, op.Name, vector2.Zero[float64](), v2of(op.Vec))
		}
	case "mo.rotate":
		run = func() modeling.Mesh {
			q := quaternion.FromTheta(math.Pi/2, vector3.Right[float64]())
			if op.Via {
				return m.Transform(meshops.RotateAttribute3DTransformer{Attribute: op.Name, Amount: q})
			}
			return meshops.RotateAttribute3D(m, op.Name, q)
		}
	case "mo.center":
		run = func() modeling.Mesh {
			if op.Via {
				return m.Transform(meshops.CenterAttribute3DTransformer{Attribute: op.Name})
			}
			return meshops.CenterFloat3Attribute(m, op.Name)
		}
	case "mo.normalize3":
		run = func() modeling.Mesh {
			if op.Via {
				return m.Transform(meshops.NormalizeAttribute3DTransformer{Attribute: op.Name})
			}
			return meshops.NormalizeAttribute3D(m, op.Name)
		}
	case "mo.normalize2":
		k = 2
		run = func() modeling.Mesh {
			if op.Via {
				return m.Transform(meshops.NormalizeAttribute2DTransformer{Attribute: op.Name})
			}
			return meshops.NormalizeAttribute2D(m, op.Name)
		}
	case "mo.colorspace":
		run = func() modeling.Mesh {
			if op.Via {
				return m.Transform(meshops.VertexColorSpaceTransformer{Attribute: op.Name, Transformation: meshops.VertexColorSpaceSRGBToLinear})
			}
			return meshops.VertexColorSpace(m, op.Name, meshops.VertexColorSpaceSRGBToLinear)
		}
	case "mo.alongnormal":
		run = func() modeling.Mesh {
			if op.Via {
				return m.Transform(meshops.ScaleAttributeAlongNormalTransformer{AttributeToScale: op.Name, NormalAttribute: modeling.NormalAttribute, Amount: at(op.Vec, 0)})
			}
			return meshops.ScaleAttributeAlongNormal(m, op.Name, modeling.NormalAttribute, at(op.Vec, 0))
		}
	case "mo.flatnormals":
		src, dst, req, tris = pos, modeling.NormalAttribute, []int{0}, true
		run = func() modeling.Mesh {
			if op.Via {
				return m.Transform(meshops.FlatNormalsTransformer{})
			}
			return meshops.FlatNormals(m)
		}
	case "mo.smoothnormals":
		src, dst, req, tris = pos, modeling.NormalAttribute, []int{0}, true
		run = func() modeling.Mesh {
			if op.Via {
				return m.Transform(meshops.SmoothNormalsTransformer{})
			}
			return meshops.SmoothNormals(m)
		}
	case "mo.laplacian":
		// generated only for triangle meshes with valid indices (Crash otherwise) and for point/quad meshes
		// (VertexNeighborTable declares them unsupported)
		req, tris = []int{0}, true
		run = func() modeling.Mesh {
			if op.Via {
				return m.Transform(meshops.LaplacianSmoothTransformer{Attribute: op.Name, Iterations: op.N, SmoothingFactor: 0.5})
			}
			return meshops.LaplacianSmooth(m, op.Name, op.N, 0.5)
		}
	case "mo.laplacian-axis":
		req, tris = []int{0}, true
		run = func() modeling.Mesh { return meshops.LaplacianSmoothAlongAxis(m, op.Name, op.N, 0.5, vector3.Up[float64]()) }
	case "mo.smoothnormals-weld":
		src, dst, req, tris = pos, modeling.NormalAttribute, []int{0}, true
		run = func() modeling.Mesh {
			if op.Via {
				return m.Transform(meshops.SmoothNormalsImplicitWeldTransformer{Distance: at(op.Vec, 0)})
			}
			return meshops.SmoothNormalsImplicitWeld(m, at(op.Vec, 0))
		}
	case "mo.colorlut":
		run = func() modeling.Mesh {
			if op.Via {
				return m.Transform(meshops.ColorGradingLutTransformer{Attribute: op.Name, LUT: testLUT()})
			}
			return meshops.ColorGradingLut(m, testLUT(), op.Name)
		}
	case "gaus.colorlut":
		run = func() modeling.Mesh { return gausops.ColorGradingLut(m, testLUT(), op.Name) }
	case "gaus.scale":
		// (reads and writes modeling.ScaleAttribute whatever attribute it is given)
		src, dst = modeling.ScaleAttribute, modeling.ScaleAttribute
		run = func() modeling.Mesh { return gausops.Scale(m, modeling.ScaleAttribute, v3of(op.Vec)) }
	case "gaus.rotate":
		k = 4
		run = func() modeling.Mesh {
			return gausops.RotateAttribute(m, op.Name, quaternion.FromTheta(math.Pi/2, vector3.Up[float64]()))
		}
	case "modify.par":
		// the variants that size their worker pool by runtime.NumCPU()
		k = op.K
		run = func() modeling.Mesh {
			switch k {
			case 1:
				return m.ModifyFloat1AttributeParallel(op.Name, func(i int, v float64) float64 { return v + at(op.Vec, 0) })
			case 2:
				return m.ModifyFloat2AttributeParallel(op.Name, func(i int, v vector2.Float64) vector2.Float64 { return v.Add(v2of(op.Vec)) })
			}
			return m.ModifyFloat3AttributeParallel(op.Name, func(i int, v vector3.Float64) vector3.Float64 { return v.Add(v3of(op.Vec)) })
		}
		fn = "FAdd " + zvec(op.Vec, k)
	default:
		panic("unknown map fn " + op.Fn)
	}
	if fn != "" && !allInts(m, k, src) {
		fn = "" // the exact integer model of + and * only applies to integer-valued inputs (e.g. not to cube normals)
	}
	ms, status = protect(func() []modeling.Mesh { return one(run()) })
	if fn == "" {
		var vals []cell
		if status == "Ok" {
			vals = attrCells(ms[0], k, dst)
		}
		fn = "FConst " + cellsCoq(vals)
	}
	coq = fmt.Sprintf("OMap %s %s %d%%N %d%%N %s %v (%s)", kindCoq[k], nat(op.I), attrID(src), attrID(dst), toposCoq(req), tris, fn)
	return
}

func allInts(m modeling.Mesh, k int, name string) bool {
	for _, c := range attrCells(m, k, name) {
		for _, s := range c {
			if len(s) > 8 { // integer-valued inputs of the generator stay far below 10^7; encoded bit patterns are ~19 digits
				return false
			}
		}
	}
	return true
}

// ---- filters: RemovedUnreferencedVertices(m.SetIndices(kept indices)) -------------------------------------------

func applyFilter(op Op, m modeling.Mesh) (ms []modeling.Mesh, status string, coq string) {
	idx := indicesOf(m)
	keep := []int{}
	req := []int{}
	k := op.K
	thr := at(op.Vec, 0)
	var run func() modeling.Mesh
	if op.Fn == "nullfaces" {
		k, req = 3, []int{0}
		pos := attrRows3(m, op.Name)
		for t := 0; t+2 < len(idx); t += 3 {
			a, b, c := idx[t], idx[t+1], idx[t+2]
			if a < len(pos) && b < len(pos) && c < len(pos) && a >= 0 && b >= 0 && c >= 0 {
				u := [3]float64{pos[b][0] - pos[a][0], pos[b][1] - pos[a][1], pos[b][2] - pos[a][2]}
				v := [3]float64{pos[c][0] - pos[a][0], pos[c][1] - pos[a][1], pos[c][2] - pos[a][2]}
				cr := [3]float64{u[1]*v[2] - u[2]*v[1], u[2]*v[0] - u[0]*v[2], u[0]*v[1] - u[1]*v[0]}
				if cr[0] != 0 || cr[1] != 0 || cr[2] != 0 {
					keep = append(keep, a, b, c)
				}
			}
		}
		run = func() modeling.Mesh {
			if op.Via {
				return m.Transform(meshops.RemoveNullFaces3DTransformer{Attribute: op.Name, MinArea: 0})
			}
			return meshops.RemoveNullFaces3D(m, op.Name, 0)
		}
	} else {
		// keep a vertex when the first component of its attribute value is >= thr
		// (since fix 0cb1906: triangles and quads survive or go as a whole, other topologies index by index)
		first := observeRaw(m, k, op.Name)
		size := 1
		if t := int(m.Topology()); t == 0 {
			size = 3
		} else if t == 2 {
			size = 4
		}
		for st := 0; st+size <= len(idx); st += size {
			all := true
			for _, i := range idx[st : st+size] {
				if !(i >= 0 && i < len(first) && first[i] >= thr) {
					all = false
				}
			}
			if all {
				keep = append(keep, idx[st:st+size]...)
			}
		}
		run = func() modeling.Mesh {
			switch k {
			case 1:
				return meshops.FilterFloat1(m, op.Name, func(v float64) bool { return v >= thr })
			case 2:
				return meshops.FilterFloat2(m, op.Name, func(v vector2.Float64) bool { return v.X() >= thr })
			case 3:
				if op.Via {
					return m.Transform(meshops.FilterFloat3Transformer{Attribute: op.Name, Filter: func(v vector3.Float64) bool { return v.X() >= thr }})
				}
				return meshops.FilterFloat3(m, op.Name, func(v vector3.Float64) bool { return v.X() >= thr })
			}
			return meshops.FilterFloat4(m, op.Name, func(v vector4.Float64) bool { return v.X() >= thr })
		}
	}
	coq = fmt.Sprintf("OFilter %s %s %d%%N %s %s", kindCoq[k], nat(op.I), attrID(op.Name), toposCoq(req), cellsCoq(intCells(keep)))
	if op.Fn == "nullfaces" && int(m.Topology()) == 0 && m.HasFloat3Attribute(op.Name) && len(keep) == len(idx) {
		coq = fmt.Sprintf("OIdent %s", nat(op.I)) // nothing to remove: RemoveNullFaces3D hands back its argument
	}
	ms, status = protect(func() []modeling.Mesh { return one(run()) })
	return
}

// first component of every value of attribute (k, name)
func observeRaw(m modeling.Mesh, k int, name string) []float64 {
	var out []float64
	func() {
		defer func() { recover() }()
		switch k {
		case 1:
			it := m.Float1Attribute(name)
			for i := 0; i < it.Len(); i++ {
				out = append(out, it.At(i))
			}
		case 2:
			it := m.Float2Attribute(name)
			for i := 0; i < it.Len(); i++ {
				out = append(out, it.At(i).X())
			}
		case 3:
			it := m.Float3Attribute(name)
			for i := 0; i < it.Len(); i++ {
				out = append(out, it.At(i).X())
			}
		case 4:
			it := m.Float4Attribute(name)
			for i := 0; i < it.Len(); i++ {
				out = append(out, it.At(i).X())
			}
		}
	}()
	return out
}

// ---- expected result of WeldByFloat3Attribute, computed from the inputs ------------------------------------------

func weldExpect(pos [][3]float64, idx []int, dec int) (newidx []int, keep []int) {
	type key [3]int
	p := math.Pow10(dec)
	keyOf := func(v [3]float64) key {
		return key{int(math.Round(v[0] * p)), int(math.Round(v[1] * p)), int(math.Round(v[2] * p))}
	}
	ids := map[key]int{}
	orig := []int{}
	for vi, v := range pos {
		kk := keyOf(v)
		if _, ok := ids[kk]; !ok {
			ids[kk] = len(orig)
			orig = append(orig, vi)
		}
	}
	used := make([]bool, len(orig))
	newidx = []int{}
	keep = []int{}
	for t := 0; t+2 < len(idx); t += 3 {
		if idx[t] < 0 || idx[t] >= len(pos) || idx[t+1] < 0 || idx[t+1] >= len(pos) || idx[t+2] < 0 || idx[t+2] >= len(pos) {
			return // the implementation panics; the model answers Crash before looking at these
		}
		a, b, c := keyOf(pos[idx[t]]), keyOf(pos[idx[t+1]]), keyOf(pos[idx[t+2]])
		if a == b || a == c || b == c {
			continue
		}
		used[ids[a]], used[ids[b]], used[ids[c]] = true, true, true
		newidx = append(newidx, ids[a], ids[b], ids[c])
	}
	shift := make([]int, len(orig))
	cur := 0
	for id := range orig {
		if used[id] {
			keep = append(keep, orig[id])
		} else {
			cur++
		}
		shift[id] = cur
	}
	for i := range newidx {
		newidx[i] -= shift[newidx[i]]
	}
	return
}

// ---- round 4: constructors that assemble a mesh from caller / generator data (OBuild) ------------------------------

var lutImage image.Image

// a 256x16 colour grading table (16 cells of 16x16): any image will do, the transformer only reads it
func testLUT() image.Image {
	if lutImage == nil {
		img := image.NewRGBA(image.Rect(0, 0, 256, 16))
		for x := 0; x < 256; x++ {
			for y := 0; y < 16; y++ {
				img.Set(x, y, color.RGBA{uint8(x), uint8(16 * y), uint8(255 - x), 255})
			}
		}
		lutImage = img
	}
	return lutImage
}

func sortedNames(m map[string][][]float64) []string {
	names := make([]string, 0, len(m))
	for n := range m {
		names = append(names, n)
	}
	sort.Strings(names)
	return names
}

func buildCoq(topo int, idx []cell, mats []cell, v [5][]attrObs) string {
	var b strings.Builder
	fmt.Fprintf(&b, "OBuild %s %s %s", topoCoq[topo], cellsCoq(idx), cellsCoq(mats))
	for k := 1; k <= 4; k++ {
		b.WriteString(" [")
		for i, a := range v[k] {
			if i > 0 {
				b.WriteByte(';')
			}
			fmt.Fprintf(&b, "(%d%%N,%s)", a.id, cellsCoq(a.vals))
		}
		b.WriteString("]")
	}
	return b.String()
}

func matsOf(op Op) ([]modeling.MeshMaterial, []cell) {
	if op.Nil && len(op.Mats) == 0 {
		return nil, nil
	}
	byID := map[int]*modeling.Material{}
	s := make([]modeling.MeshMaterial, len(op.Mats), len(op.Mats)+op.Spare)
	cs := make([]cell, len(op.Mats))
	for i, e := range op.Mats {
		if _, ok := byID[e[1]]; !ok {
			byID[e[1]] = material(e[1])
		}
		s[i] = modeling.MeshMaterial{PrimitiveCount: e[0], Material: byID[e[1]]}
		id := e[1]
		if id < 0 {
			id = -1
		}
		cs[i] = cell{fmt.Sprintf("%d", e[0]), fmt.Sprintf("%d", id)}
	}
	return s, cs
}

func applyBuild(op Op) (ms []modeling.Mesh, status string, coq string) {
	all := func(k int) map[string][][]float64 {
		if k-1 < len(op.All) && op.All[k-1] != nil {
			return op.All[k-1]
		}
		return map[string][][]float64{}
	}
	switch op.Fn {
	case "pointcloud", "linestrip":
		// expected result, computed from the inputs: arrays without elements are dropped, the indices are 0..n-1 for the
		// common length n (the generator keeps the lengths uniform), the caller's material slice is stored
		topo := 1
		if op.Fn == "linestrip" {
			topo = 4
		}
		var v [5][]attrObs
		n := 0
		for k := 1; k <= 4; k++ {
			if op.Fn == "linestrip" && k == 4 {
				continue
			}
			for _, nm := range sortedNames(all(k)) {
				rows := rowsK(all(k)[nm], k)
				if len(rows) == 0 {
					continue
				}
				n = len(rows)
				v[k] = append(v[k], attrObs{id: attrID(nm), name: nm, vals: rowCells(rows)})
			}
		}
		idx := make([]int, n)
		for i := range idx {
			idx[i] = i
		}
		mats, matCells := matsOf(op)
		coq = buildCoq(topo, intCells(idx), matCells, v)
		if op.Fn == "linestrip" && n == 1 {
			coq = fmt.Sprintf("OExport 0%%nat %s", nat(100000)) // declared: "invalid attribute count for line strip mesh"
		}
		ms, status = protect(func() []modeling.Mesh {
			d1 := map[string][]float64{}
			for nm, rows := range all(1) {
				d1[nm] = mkV1(rows, op.Spare)
			}
			d2 := map[string][]vector2.Float64{}
			for nm, rows := range all(2) {
				d2[nm] = mkV2(rows, op.Spare)
			}
			d3 := map[string][]vector3.Float64{}
			for nm, rows := range all(3) {
				d3[nm] = mkV3(rows, op.Spare)
			}
			d4 := map[string][]vector4.Float64{}
			for nm, rows := range all(4) {
				d4[nm] = mkV4(rows, op.Spare)
			}
			if op.Fn == "linestrip" {
				return one(modeling.NewLineStripMesh(d3, d2, d1, mats))
			}
			return one(modeling.NewPointCloud(d4, d3, d2, d1, mats))
		})
		return
	}
	// generator functions: the content of the new arrays is taken from the implementation (C01 is about sharing)
	a, b, c := at(op.Vec, 0), at(op.Vec, 1), at(op.Vec, 2)
	var strip *primitives.StripUVs
	var circ *primitives.CircleUVs
	if op.Via { // with UVs
		strip = &primitives.StripUVs{Start: vector2.New(0., 0.5), End: vector2.New(1., 0.5), Width: 1}
		circ = &primitives.CircleUVs{Center: vector2.New(0.5, 0.5), Radius: 0.5}
	}
	ms, status = protect(func() []modeling.Mesh {
		switch op.Fn {
		case "quad":
			return one(primitives.Quad{Width: a, Depth: b, UVs: strip}.ToMesh())
		case "circle":
			return one(primitives.Circle{Sides: op.N, Radius: a, UVs: circ}.ToMesh())
		case "cone":
			return one(primitives.Cone{Height: a, Radius: b, Sides: op.N}.ToMesh())
		case "cylinder":
			var uvs *primitives.CylinderUVs
			if op.Via {
				uvs = &primitives.CylinderUVs{Top: circ, Bottom: circ, Side: strip}
			}
			return one(primitives.Cylinder{Sides: op.N, Height: a, Radius: b, NoTop: c > 0, NoBottom: c > 1, UVs: uvs}.ToMesh())
		case "sphere":
			return one(primitives.UVSphere(a, 2, op.N))
		case "sphere-unwelded":
			return one(primitives.UVSphereUnwelded(a, 2, op.N))
		case "hemisphere":
			return one(primitives.Hemisphere{Radius: a, Capped: b > 0}.UV(2, op.N))
		case "cubequads":
			var uvs *primitives.CubeUVs
			if op.Via {
				uvs = primitives.DefaultCubeUVs()
			}
			return one(primitives.Cube{Width: a, Height: b, Depth: c, UVs: uvs}.UnweldedQuads())
		}
		panic(fmt.Errorf("unknown build fn %s", op.Fn))
	})
	if status != "Ok" {
		coq = fmt.Sprintf("OExport 0%%nat %s", nat(100000)) // a rejected parameter: no mesh, the model answers Declared
		if status == "Crash" {
			coq = "OFlip 100000%nat" // (not generated)
		}
		return
	}
	o := observe(ms[0])
	coq = buildCoq(o.topo, o.idx, o.mats, o.v)
	return
}

// ---- round 4: queries of the modeling API that hand back no mesh ----------------------------------------------------

func readOnly(what string, m modeling.Mesh) {
	names3 := m.Float3Attributes()
	try := func(f func()) {
		defer func() { recover() }() // a query that rejects the mesh (topology, missing attribute) is not C01's business
		f()
	}
	switch what {
	case "bbox":
		for _, n := range names3 {
			n := n
			try(func() { m.BoundingBox(n) })
		}
	case "octree":
		try(func() { m.OctTree() })
		for _, n := range names3 {
			n := n
			try(func() { m.OctTreeWithAttributeAndDepth(n, 2).ClosestPoint(vector3.New(1., 2., 3.)) })
		}
		try(func() { m.OctTreeDepth(1) })
	case "neighbors":
		try(func() {
			t := m.VertexNeighborTable()
			for v := 0; v < m.AttributeLength(); v++ {
				_ = t.Count(v)
				for range t.Lookup(v) {
				}
			}
			// the table is the caller's: editing it must not reach the mesh
			if m.Indices().Len() > 1 {
				t.RemoveVertex(m.Indices().At(0))
			}
		})
	case "prims":
		pt := vector3.New(1., 2., 3.)
		for _, n := range names3 {
			n := n
			try(func() {
				m.ScanPrimitives(func(i int, p modeling.Primitive) {
					p.BoundingBox(n)
					p.ClosestPoint(n, pt)
					sc := p.Scope(n)
					sc.BoundingBox()
					sc.ClosestPoint(pt)
				})
			})
		}
		// (on the other topologies the worker goroutines panic, which nobody can recover from: not called)
		if t := m.Topology(); t == modeling.TriangleTopology || t == modeling.PointTopology || t == modeling.LineStripTopology {
			try(func() { m.ScanPrimitivesParallel(func(i int, p modeling.Primitive) {}) })
		}
		if m.Topology() == modeling.TriangleTopology {
			for i := 0; i < m.Indices().Len()/3; i++ {
				i := i
				try(func() {
					t := m.Tri(i)
					_, _, _ = t.P1(), t.P2(), t.P3()
					t.UniqueVertices()
					for _, n := range names3 {
						t.P1Vec3Attr(n)
						t.P2Vec3Attr(n)
						t.P3Vec3Attr(n)
						t.L1(n)
						t.L2(n)
						t.L3(n)
						t.Plane(n)
						t.Average(n)
						t.Area3D(n)
						t.BoundingBox(n)
						t.ClosestPoint(n, pt)
					}
					for _, n := range m.Float2Attributes() {
						t.P1Vec2Attr(n)
						t.P2Vec2Attr(n)
						t.P3Vec2Attr(n)
					}
					for _, n := range m.Float1Attributes() {
						t.P1Vec1Attr(n)
						t.P2Vec1Attr(n)
						t.P3Vec1Attr(n)
					}
					t.Bounds()
					t.PointInSide(pt)
					t.RayIntersects(geometry.NewRay(pt, vector3.Down[float64]()))
					t.LineIntersects(geometry.NewLine3D(pt, vector3.New(-1., -2., -3.)))
				})
			}
		}
		if m.Topology() == modeling.LineStripTopology {
			for i := 0; i+1 < m.Indices().Len(); i++ {
				i := i
				try(func() { l := m.LineStrip(i); _, _ = l.P1(), l.P2() })
			}
		}
	case "queries":
		try(func() { m.PrimitiveCount() })
		m.AttributeLength()
		for _, n := range attrNames {
			m.HasVertexAttribute(n)
			m.HasFloat1Attribute(n)
			m.HasFloat2Attribute(n)
			m.HasFloat3Attribute(n)
			m.HasFloat4Attribute(n)
		}
		for _, mm := range m.Materials() {
			_ = mm.PrimitiveCount
		}
		m.Topology().IndexSize()
	case "voxelize":
		for _, n := range names3 {
			n := n
			if ext, ok := extent(m, n); ok {
				size := math.Max(1, ext/6)
				try(func() { voxelize.Vertices(m, n, size) })
				// voxelize.Surface is NOT called: it does not terminate when a triangle crosses a voxel corner along the
				// cube diagonal (it subdivides while the rounded corner distance exceeds 1.7, and the distance between
				// the voxels (0,0,0) and (1,1,1) is sqrt(3) = 1.732 however small the triangle gets) — found by this
				// harness with seed 2, not a C01 matter (see notes/C01.md)
			}
		}
	case "iterators":
		ix := m.Indices()
		for {
			if _, err := ix.Next(); err != nil {
				break
			}
		}
		ix.Reset()
		if ix.Len() > 0 {
			ix.Current()
		}
		iter.ReadFull[int](ix)
		for _, n := range names3 {
			iter.ReadFull[vector3.Float64](m.Float3Attribute(n))
		}
		for _, n := range m.Float1Attributes() {
			it := m.Float1Attribute(n)
			iter.Sum[float64](it)
			it.Reset()
			if it.Len() > 0 {
				iter.Max[float64](it)
			}
		}
	case "march-field":
		try(func() {
			f := marching.Mesh(m, 1, 1)
			fn := f.Float1Functions[modeling.PositionAttribute]
			fn(vector3.New(0., 0., 0.))
			fn(vector3.New(1., 2., 3.))
		})
	case "scanpar":
		for _, n := range names3 {
			n := n
			try(func() { m.ScanFloat3AttributeParallel(n, func(int, vector3.Float64) {}) })
		}
		for _, n := range m.Float2Attributes() {
			n := n
			try(func() { m.ScanFloat2AttributeParallel(n, func(int, vector2.Float64) {}) })
		}
		for _, n := range m.Float1Attributes() {
			n := n
			try(func() { m.ScanFloat1AttributeParallel(n, func(int, float64) {}) })
		}
	}
}

// extent of the values of a float3 attribute, when all of them are finite and moderate
func extent(m modeling.Mesh, name string) (float64, bool) {
	rows := attrRows3(m, name)
	if len(rows) == 0 {
		return 0, false
	}
	lo, hi := math.Inf(1), math.Inf(-1)
	for _, r := range rows {
		for _, x := range r {
			if math.IsNaN(x) || math.Abs(x) > 1e6 {
				return 0, false
			}
			lo, hi = math.Min(lo, x), math.Max(hi, x)
		}
	}
	return hi - lo, true
}
