// C01 harness: mesh values are immutable.  Generates branching derivation histories over real modeling.Mesh
// values, runs them on the implementation, RE-READS EVERY LIVE POOL MEMBER AFTER EVERY STEP through the public
// API, and writes each history as a Coq case for Check/C01.v:
//
//	prop_ok = immutableb on the implementation's own snapshot sequences (direct oracle, no model),
//	corr_ok = the heap model (Mesh/Heap.v, repaired Append) run on the same history reports the same error class
//	          at every step and the same observation of every member after every step.
package main

import (
	"encoding/json"
	"fmt"

	"verif/harness/hx"

	"github.com/EliCDavis/polyform/modeling"
)

type histDesc struct {
	Ops []Op `json:"ops"`
}

type segment struct {
	t   int
	coq string
}

type histStats struct {
	steps, rereads, spareSteps, maxPool int
	declared, crash                     int
	changed                             []string // "member k changed at step t" (diagnostics for the replay)
}

// runHistory executes the history and renders the case.
func runHistory(d histDesc) (hx.Case, histStats) {
	var st histStats
	pool := []modeling.Mesh{}
	segs := [][]segment{}
	stats := make([]string, 0, len(d.Ops))
	coqOps := make([]string, 0, len(d.Ops))
	for t, op := range d.Ops {
		ms, status, coq := apply(op, pool)
		stats = append(stats, status)
		coqOps = append(coqOps, coq)
		switch status {
		case "Ok":
			pool = append(pool, ms...)
		case "Declared":
			st.declared++
		default:
			st.crash++
		}
		for len(segs) < len(pool) {
			segs = append(segs, nil)
		}
		// re-read every live member
		for k, m := range pool {
			s := observe(m).coq()
			st.rereads++
			if n := len(segs[k]); n == 0 || segs[k][n-1].coq != s {
				if n > 0 {
					st.changed = append(st.changed, fmt.Sprintf("member %d (reported since step %d) reports something else after step %d (%s)", k, segs[k][0].t, t, op.Op))
				}
				segs[k] = append(segs[k], segment{t, s})
			}
		}
		if spareShared(pool) > 0 {
			st.spareSteps++
		}
		if len(pool) > st.maxPool {
			st.maxPool = len(pool)
		}
		st.steps++
	}
	segItems := make([]string, len(segs))
	for k, sg := range segs {
		items := make([]string, len(sg))
		for i, s := range sg {
			items[i] = fmt.Sprintf("(%s,%s)", nat(s.t), s.coq)
		}
		segItems[k] = "[" + join(items, ";") + "]"
	}
	c := hx.Case{Kind: "history", Desc: d}
	c.Coq = fmt.Sprintf("CHist\n  [%s]\n  [%s]\n  [%s]", join(coqOps, ";\n   "), join(stats, ";"), join(segItems, ";\n   "))
	kb, _ := json.Marshal(d.Ops)
	c.Key = string(kb)
	// non-trivial: at least one Append and at least one member that is an operand of two different steps
	uses := map[int]int{}
	appends := 0
	for _, op := range d.Ops {
		if op.Op == "new" || op.Op == "empty" || op.Op == "cube" {
			continue
		}
		uses[op.I]++
		if op.Op == "append" {
			appends++
			if op.J != op.I {
				uses[op.J]++
			}
		}
	}
	branch := false
	for _, n := range uses {
		if n >= 2 {
			branch = true
		}
	}
	c.Nontriv = branch && appends >= 1
	return c, st
}

func join(items []string, sep string) string {
	n := 0
	for _, s := range items {
		n += len(s) + len(sep)
	}
	b := make([]byte, 0, n)
	for i, s := range items {
		if i > 0 {
			b = append(b, sep...)
		}
		b = append(b, s...)
	}
	return string(b)
}

func addHistory(run *hx.Run, d histDesc, label string) {
	c, st := runHistory(d)
	run.Add(c)
	run.Count("hist:" + label)
	if c.Nontriv {
		run.Count("hist:branching+append")
	}
	if st.spareSteps > 0 {
		run.Count("hist:some-step-with-spare-capacity-on-a-shared-array")
	}
	if len(st.changed) > 0 {
		run.Count("hist:member-changed(implementation)")
		ids, _ := run.Extra["histories_with_a_changed_member"].([]int)
		if len(ids) < 50 {
			run.Extra["histories_with_a_changed_member"] = append(ids, len(run.Cases)-1)
		}
		if _, ok := run.Extra["first_change"]; !ok {
			run.Extra["first_change"] = st.changed[0]
		}
	}
	for _, op := range d.Ops {
		n := "op:" + op.Op
		if op.Op == "map" || op.Op == "ident" {
			n += ":" + op.Fn
		}
		if op.Op == "export" {
			n += ":" + op.Fmt
		}
		if op.Op == "filter" && op.Fn == "nullfaces" {
			n += ":nullfaces"
		}
		run.Dist[n]++
	}
	run.Dist["status:Declared"] += st.declared
	run.Dist["status:Crash"] += st.crash
	add := func(k string, v int) {
		cur, _ := run.Extra[k].(int)
		run.Extra[k] = cur + v
	}
	add("steps", st.steps)
	add("rereads", st.rereads)
	add("steps_with_spare_capacity_on_shared_array", st.spareSteps)
	if mp, _ := run.Extra["max_pool"].(int); st.maxPool > mp {
		run.Extra["max_pool"] = st.maxPool
	}
	run.Count(fmt.Sprintf("hist:len=%d-%d", len(d.Ops)/8*8, len(d.Ops)/8*8+7))
}

// the witness of DESIGN.md / append_inplace_refuted: base := (t+t)+t; x := base+u; y := base+w
func witness() histDesc {
	tri := func(x float64) [][]float64 { return [][]float64{{x, 0, 0}, {x + 1, 0, 0}, {x + 2, 0, 0}} }
	return histDesc{Ops: []Op{
		{Op: "new", Topo: 0, Idx: []int{0, 1, 2}}, {Op: "setattr", I: 0, K: 3, Name: "Position", Data: tri(0)},
		{Op: "append", I: 1, J: 1}, {Op: "append", I: 2, J: 1},
		{Op: "new", Topo: 0, Idx: []int{0, 1, 2}}, {Op: "setattr", I: 4, K: 3, Name: "Position", Data: tri(10)},
		{Op: "new", Topo: 0, Idx: []int{0, 1, 2}}, {Op: "setattr", I: 6, K: 3, Name: "Position", Data: tri(20)},
		{Op: "append", I: 3, J: 5}, {Op: "append", I: 3, J: 7},
	}}
}

// caller-supplied spare capacity: SetIndices / SetFloat3Attribute / SetMaterials store the caller's slices, so a
// later append() on them would write into arrays two siblings share
func witnessCallerSpare() histDesc {
	return histDesc{Ops: []Op{
		{Op: "new", Topo: 0, Idx: []int{0, 1, 2}, Spare: 6},
		{Op: "setattr", I: 0, K: 3, Name: "Position", Data: [][]float64{{0, 0, 0}, {1, 0, 0}, {0, 1, 0}}, Spare: 6},
		{Op: "setmaterials", I: 1, Mats: [][2]int{{1, 7}}, Spare: 3},
		{Op: "setattr", I: 2, K: 2, Name: "TexCoord", Data: [][]float64{{0, 0}, {1, 0}, {0, 1}}, Spare: 6},
		{Op: "append", I: 3, J: 3}, {Op: "append", I: 3, J: 2}, {Op: "append", I: 3, J: 1},
		{Op: "map", Fn: "translate", I: 3, Vec: []float64{5, 5, 5}},
		{Op: "unweld", I: 4}, {Op: "export", I: 5, Fmt: "obj"},
	}}
}

// two welded cubes share the package-level index array primitives.cubeVertIndices
func witnessCubes() histDesc {
	return histDesc{Ops: []Op{
		{Op: "cube", Vec: []float64{2, 2, 2}}, {Op: "cube", Vec: []float64{4, 2, 6}},
		{Op: "flip", I: 0}, {Op: "append", I: 0, J: 1}, {Op: "append", I: 1, J: 0},
		{Op: "weld", I: 3, Name: "Position", N: 2}, {Op: "removeunref", I: 0},
		{Op: "map", Fn: "mo.smoothnormals", I: 1}, {Op: "split", I: 3}, {Op: "export", I: 4, Fmt: "gltf"},
	}}
}

func main() {
	run := hx.ParseFlags("C01", "Check.C01")
	for _, in := range run.Inputs() {
		if in.Kind == "history" {
			var d histDesc
			if err := json.Unmarshal(in.Raw, &d); err == nil {
				addHistory(run, d, "given")
			}
		}
	}
	if run.Replay != "" {
		run.Finish()
		return
	}
	addHistory(run, witness(), "fixed")
	addHistory(run, witnessCallerSpare(), "fixed")
	addHistory(run, witnessCubes(), "fixed")
	// hx.NewRng(seed) and hx.NewRng(seed+1) are the same stream one step apart: hash the seed first
	r := hx.NewRng(hx.NewRng(run.Seed).U64())
	for i := 0; i < run.N; i++ {
		maxLen := r.Range(9, 16)
		if run.Tier == "thorough" && r.Chance(1, 3) {
			maxLen = r.Range(16, 36)
		}
		d := genHistory(r.Fork(), maxLen)
		addHistory(run, d, "generated")
	}
	run.Extra["export_errors_ignored"] = exportErrors
	run.Finish()
}
