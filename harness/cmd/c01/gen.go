package main

// History generator.  It executes the operations it emits (on the real implementation) so that the next choice can
// depend on what the pool actually contains; the emitted history is explicit and is re-executed from scratch by
// runHistory, so a replay never needs the generator.
//
// Bias (DESIGN.md §4 C01): several siblings derived from one base that is itself the result of two or more Appends
// (that is where append() leaves spare capacity on arrays that several meshes see), derivations in both directions
// (from a mesh, and from what it was derived from), caller-supplied slices with spare capacity.

import (
	"verif/harness/hx"

	"github.com/EliCDavis/polyform/modeling"
)

type gen struct {
	r     *hx.Rng
	pool  []modeling.Mesh
	infos []info
	depth []int // number of Appends on the derivation path
	ops   []Op
	focus int
	max   int
}

func (g *gen) full() bool { return len(g.ops) >= g.max }

// push runs the op, records it, returns the index of the first new member (or -1)
func (g *gen) push(op Op) int {
	ms, st, _ := apply(op, g.pool)
	g.ops = append(g.ops, op)
	if st != "Ok" || len(ms) == 0 {
		return -1
	}
	first := len(g.pool)
	d := 0
	if op.Op != "new" && op.Op != "empty" && op.Op != "cube" && op.Op != "build" && op.I < len(g.depth) {
		d = g.depth[op.I]
	}
	if op.Op == "append" {
		d++
	}
	for _, m := range ms {
		g.pool = append(g.pool, m)
		g.infos = append(g.infos, inspect(m))
		g.depth = append(g.depth, d)
	}
	return first
}

func (g *gen) val() float64 { return float64(g.r.Range(-9, 20)) }
func (g *gen) rows(n, k int) [][]float64 {
	out := make([][]float64, n)
	for i := range out {
		row := make([]float64, k)
		for j := range row {
			row[j] = g.val()
		}
		out[i] = row
	}
	return out
}
func (g *gen) vec(k int, lo, hi int) []float64 {
	v := make([]float64, k)
	for i := range v {
		v[i] = float64(g.r.Range(lo, hi))
	}
	return v
}
func (g *gen) spare() int {
	if g.r.Chance(1, 2) {
		return 0
	}
	return g.r.Range(1, 8)
}
func (g *gen) indices(n, nverts int) []int {
	ix := make([]int, n)
	for i := range ix {
		if nverts > 0 {
			ix[i] = g.r.Intn(nverts)
		}
	}
	return ix
}

var kindNames = [5][]string{nil, {"Intensity", "Class"}, {"TexCoord", "Custom"}, {"Position", "Normal", "Color", "Custom"}, {"Color", "Weight"}}

// ---- seeds -------------------------------------------------------------------------------------------------------

func (g *gen) seedTri() int {
	nv := g.r.Range(3, 6)
	nt := g.r.Range(1, 3)
	k := g.push(Op{Op: "new", Topo: 0, Idx: g.indices(3*nt, nv), Spare: g.spare(), Fn: hx.Pick(g.r, []string{"", "tri"})})
	return g.dress(k, nv)
}

// a mesh with vertices but no primitives (an accumulator that is given its vertices first), or with primitives but
// no vertex data at all
func (g *gen) seedHollow() int {
	topo := hx.Pick(g.r, []int{0, 0, 0, 1, 4})
	if g.r.Chance(2, 3) {
		op := Op{Op: "new", Topo: topo, Idx: []int{}, Spare: g.spare(), Fn: hx.Pick(g.r, []string{"", "tri"})}
		if g.r.Bool() {
			op.Nil, op.Spare = true, 0
		}
		return g.dress(g.push(op), g.r.Range(1, 5))
	}
	n := g.r.Range(1, 3)
	if topo == 0 {
		n *= 3
	}
	return g.push(Op{Op: "new", Topo: topo, Idx: g.indices(n, g.r.Range(1, 5)), Spare: g.spare()})
}

// dress gives member k (no attributes yet) one to four attributes of length nv; returns the last member created
func (g *gen) dress(k, nv int) int {
	if k < 0 {
		return k
	}
	if g.r.Chance(2, 3) {
		maps := map[string][][]float64{"Position": g.rows(nv, 3)}
		for _, nm := range []string{"Normal", "Color", "Custom"} {
			if g.r.Chance(1, 3) {
				maps[nm] = g.rows(nv, 3)
			}
		}
		k = g.push(Op{Op: "setdata", I: k, K: 3, Maps: maps})
	} else {
		k = g.push(Op{Op: "setattr", I: k, K: 3, Name: "Position", Data: g.rows(nv, 3), Spare: g.spare()})
	}
	for n := g.r.Intn(3); n > 0 && k >= 0 && !g.full(); n-- {
		kd := hx.Pick(g.r, []int{1, 2, 2, 4})
		k = g.push(Op{Op: "setattr", I: k, K: kd, Name: hx.Pick(g.r, kindNames[kd]), Data: g.rows(nv, kd), Spare: g.spare()})
	}
	if k >= 0 && g.r.Chance(2, 5) && !g.full() {
		// materials too: Append concatenates them, so they are one more slice several meshes can end up sharing
		if g.r.Bool() {
			k = g.push(Op{Op: "setmaterial", I: k, Mat: g.r.Range(1, 5)})
		} else {
			k = g.push(Op{Op: "setmaterials", I: k, Mats: g.matsFor(k), Spare: g.spare()})
		}
	}
	return k
}

// a material list over the primitives of member i: the primitives are thrown into 1-5 ranges at random, so a range
// may be EMPTY in any position; half of the time further empty ranges are inserted (front, middle, back, in a row)
func (g *gen) matsFor(i int) [][2]int {
	in := g.infos[i]
	prims := in.nidx
	if in.topo == 0 {
		prims = in.nidx / 3
	} else if in.topo == 2 {
		prims = in.nidx / 4
	}
	// the ranges cover exactly the primitives (3/5), FEWER (1/5: some primitives belong to no range) or MORE (1/5: the
	// ranges reach past the last primitive) — Append with a material-less mesh, SetIndices and the filters produce both
	covered := prims
	switch g.r.Intn(5) {
	case 0:
		covered = g.r.Intn(prims + 1)
	case 1:
		covered = prims + g.r.Range(1, 3)
	}
	counts := make([]int, g.r.Range(1, 5))
	for p := 0; p < covered; p++ {
		counts[g.r.Intn(len(counts))]++
	}
	if g.r.Bool() {
		for z := g.r.Range(1, 2); z > 0; z-- {
			pos := g.r.Intn(len(counts) + 1)
			n := 1 + g.r.Intn(4)/3 // sometimes two in a row
			for ; n > 0; n-- {
				counts = append(counts[:pos], append([]int{0}, counts[pos:]...)...)
			}
		}
	}
	mats := make([][2]int, len(counts))
	for k, c := range counts {
		id := g.r.Range(1, 4)
		if g.r.Chance(1, 12) {
			id = -1 // no material
		}
		mats[k] = [2]int{c, id}
	}
	return mats
}

// hollow: a derivation of member k in which ONE component is empty — no primitives but vertices, no vertices but
// primitives, an attribute removed, attribute arrays present but empty, no materials.  Binary operations (Append,
// CopyFloatNAttribute) take shortcuts exactly on such operands.
func (g *gen) hollow(k int) int {
	if k < 0 {
		return -1
	}
	in := g.infos[k]
	switch g.r.Intn(9) {
	case 7, 8:
		// a whole dimension emptied: SetFloatNData with an EMPTY or nil map, for a dimension the member has attributes in
		if kd, _, ok := g.someAttr(k, 0); ok {
			return g.push(Op{Op: "setdata", I: k, K: kd, Maps: map[string][][]float64{}, Nil: g.r.Bool()})
		}
		return g.push(Op{Op: "setdata", I: k, K: g.r.Range(1, 4), Maps: map[string][][]float64{}, Nil: g.r.Bool()})
	case 0, 1, 2:
		if g.r.Bool() {
			return g.push(Op{Op: "setindices", I: k, Nil: true})
		}
		return g.push(Op{Op: "setindices", I: k, Idx: []int{}, Spare: g.spare()})
	case 3:
		return g.push(Op{Op: "clear", I: k})
	case 4:
		if kd, nm, ok := g.someAttr(k, 0); ok {
			return g.push(Op{Op: "setattr", I: k, K: kd, Name: nm, Data: [][]float64{}, Spare: g.spare()})
		}
		return g.push(Op{Op: "setindices", I: k, Nil: true})
	case 5:
		kd := 3
		if len(in.attrs[3]) == 0 {
			kd = g.r.Range(1, 4)
		}
		maps := map[string][][]float64{}
		for _, nm := range in.attrs[kd] {
			maps[nm] = [][]float64{}
		}
		if len(maps) == 0 {
			maps[kindNames[kd][0]] = [][]float64{}
		}
		return g.push(Op{Op: "setdata", I: k, K: kd, Maps: maps})
	}
	if g.r.Bool() {
		return g.push(Op{Op: "setmaterials", I: k, Nil: true})
	}
	return g.push(Op{Op: "setmaterials", I: k, Mats: [][2]int{}, Spare: g.spare()})
}

// a mesh assembled by a constructor that takes whole attribute maps (NewPointCloud / NewLineStripMesh: empty arrays
// are dropped, the indices are implied) or by one of the generator functions of modeling/primitives
func (g *gen) seedBuild() int {
	r := g.r
	switch r.Intn(10) {
	case 0, 1, 2, 3:
		fn := "pointcloud"
		if r.Chance(1, 3) {
			fn = "linestrip"
		}
		n := r.Range(1, 6)
		if r.Chance(1, 10) {
			n = 0
		}
		all := make([]map[string][][]float64, 4)
		for k := 1; k <= 4; k++ {
			all[k-1] = map[string][][]float64{}
			for _, nm := range kindNames[k] {
				if (k == 3 && nm == "Position") || r.Chance(1, 4) {
					all[k-1][nm] = g.rows(n, k)
				} else if r.Chance(1, 10) {
					all[k-1][nm] = [][]float64{} // present but empty: dropped by the constructor
				}
			}
		}
		op := Op{Op: "build", Fn: fn, All: all, Spare: g.spare()}
		if r.Chance(1, 2) {
			cnt := make([][2]int, r.Range(1, 3))
			for i := range cnt {
				cnt[i] = [2]int{r.Range(0, n), r.Range(1, 4)}
			}
			op.Mats = cnt
		} else {
			op.Nil = r.Bool()
		}
		return g.push(op)
	case 4, 5:
		return g.push(Op{Op: "build", Fn: "quad", Vec: []float64{float64(2 * r.Range(1, 4)), float64(2 * r.Range(1, 4))}, Via: r.Bool()})
	case 6:
		return g.push(Op{Op: "build", Fn: hx.Pick(r, []string{"circle", "cone"}), N: r.Range(2, 5), Vec: []float64{float64(r.Range(1, 4)), float64(r.Range(1, 4))}, Via: r.Bool()})
	case 7:
		return g.push(Op{Op: "build", Fn: "cylinder", N: r.Range(3, 4), Vec: []float64{float64(r.Range(1, 4)), float64(r.Range(1, 4)), float64(r.Intn(3))}, Via: r.Bool()})
	case 8:
		return g.push(Op{Op: "build", Fn: hx.Pick(r, []string{"sphere", "hemisphere", "sphere-unwelded"}), N: r.Range(2, 4), Vec: []float64{float64(r.Range(1, 4)), float64(r.Intn(2))}})
	}
	return g.push(Op{Op: "build", Fn: "cubequads", Vec: []float64{float64(2 * r.Range(1, 3)), float64(2 * r.Range(1, 3)), float64(2 * r.Range(1, 3))}, Via: r.Chance(1, 3)})
}

func (g *gen) seed() int {
	switch g.r.Intn(13) {
	case 11, 12:
		return g.seedBuild()
	case 10:
		return g.seedHollow()
	case 0, 1, 2, 3, 4:
		return g.seedTri()
	case 5:
		return g.push(Op{Op: "cube", Vec: []float64{float64(2 * g.r.Range(1, 3)), float64(2 * g.r.Range(1, 3)), float64(2 * g.r.Range(1, 3))}})
	case 6, 7:
		nv := g.r.Range(1, 6)
		ix := make([]int, nv)
		for i := range ix {
			ix[i] = i
		}
		if g.r.Bool() {
			ix = g.r.Perm(nv)
		}
		k := g.push(Op{Op: "new", Topo: 1, Idx: ix, Spare: g.spare()})
		return g.dress(k, nv)
	case 8:
		nv := g.r.Range(2, 6)
		topo := hx.Pick(g.r, []int{2, 3, 4, 5})
		n := g.r.Range(2, 6)
		if topo == 2 {
			n = 4 * g.r.Range(1, 2)
		}
		k := g.push(Op{Op: "new", Topo: topo, Idx: g.indices(n, nv), Spare: g.spare()})
		return g.dress(k, nv)
	}
	return g.push(Op{Op: "empty", Topo: hx.Pick(g.r, []int{0, 0, 1, 4})})
}

// ---- operand choice ---------------------------------------------------------------------------------------------

func (g *gen) pick(ok func(k int) bool) int {
	if g.focus >= 0 && g.focus < len(g.pool) && g.r.Chance(3, 5) && ok(g.focus) {
		return g.focus
	}
	cands := []int{}
	for k := range g.pool {
		if ok(k) {
			cands = append(cands, k)
		}
	}
	if len(cands) == 0 {
		return -1
	}
	if g.r.Chance(1, 3) {
		// the deepest (most Appends on its path)
		best := cands[0]
		for _, k := range cands {
			if g.depth[k] >= g.depth[best] {
				best = k
			}
		}
		return best
	}
	if g.r.Bool() && len(cands) > 3 {
		return cands[len(cands)-1-g.r.Intn(3)] // a recent one
	}
	return hx.Pick(g.r, cands)
}

func (g *gen) any() int { return g.pick(func(int) bool { return true }) }

// some attribute of member k: (kind, name), preferring kind want when given
func (g *gen) someAttr(k int, want int) (int, string, bool) {
	in := g.infos[k]
	kinds := []int{}
	for kd := 1; kd <= 4; kd++ {
		if len(in.attrs[kd]) > 0 && (want == 0 || want == kd) {
			kinds = append(kinds, kd)
		}
	}
	if len(kinds) == 0 {
		return 0, "", false
	}
	kd := hx.Pick(g.r, kinds)
	return kd, hx.Pick(g.r, in.attrs[kd]), true
}

// variant: a mesh with the topology, indices and attribute set of member t but other values in one or all attributes
func (g *gen) variant(t int) int {
	in := g.infos[t]
	cur := t
	// one attribute (rarely two) gets other values
	for n := 1 + g.r.Intn(5)/4; n > 0; n-- {
		if kd, nm, ok := g.someAttr(t, 0); ok {
			if k := g.push(Op{Op: "setattr", I: cur, K: kd, Name: nm, Data: g.rows(in.nverts, kd), Spare: g.spare()}); k >= 0 {
				cur = k
			}
		}
	}
	if cur == t {
		return -1
	}
	if (in.nmats > 0 && g.r.Chance(2, 3)) || g.r.Chance(1, 6) {
		if k := g.push(Op{Op: "setmaterial", I: cur, Mat: g.r.Range(6, 9)}); k >= 0 {
			cur = k
		}
	}
	if g.r.Chance(1, 5) && in.nverts > 0 {
		if k := g.push(Op{Op: "setindices", I: cur, Idx: g.indices(in.nidx, in.nverts), Spare: g.spare()}); k >= 0 {
			cur = k
		}
	}
	return cur
}

// ---- one random derivation ----------------------------------------------------------------------------------------

// size cap: the cost of a run is dominated by Coq parsing the snapshots
func (g *gen) tooBig(i, j int) bool {
	return g.infos[i].nverts+g.infos[j].nverts > 36 || g.infos[i].nidx+g.infos[j].nidx > 90
}

func (g *gen) appendOp(i int) bool {
	if i < 0 || !g.infos[i].uniform {
		return false
	}
	j := g.pick(func(k int) bool { return k != i && g.infos[k].topo == g.infos[i].topo && g.infos[k].uniform })
	if j < 0 || g.r.Chance(1, 6) {
		j = i
	}
	if g.r.Chance(1, 5) && !g.full() {
		// one operand empty in one component
		if g.r.Bool() {
			if h := g.hollow(i); h >= 0 && g.infos[h].uniform {
				i = h
			}
		} else if h := g.hollow(j); h >= 0 && g.infos[h].uniform {
			j = h
		}
	}
	if g.tooBig(i, j) {
		return false
	}
	if g.r.Bool() {
		i, j = j, i
	}
	g.push(Op{Op: "append", I: i, J: j})
	return true
}

// step: one derivation; a choice whose precondition no pool member satisfies is re-drawn
func (g *gen) step() {
	n := len(g.ops)
	for tries := 0; tries < 5 && len(g.ops) == n; tries++ {
		g.step1()
	}
}

func (g *gen) step1() {
	w := g.r.Intn(100)
	uniform := func(k int) bool { return g.infos[k].uniform }
	tri := func(k int) bool { return g.infos[k].topo == 0 }
	switch {
	case w < 22:
		g.appendOp(g.pick(uniform))
	case w < 26:
		g.mapOp()
	case w < 28:
		g.crossDim(g.any())
	case w < 30:
		g.noopOp(g.any())
	case w < 31:
		g.shareMats(g.any())
	case w < 32:
		g.hollow(g.any())
	case w < 35: // set an attribute: mostly of the mesh's own length
		i := g.any()
		if i < 0 {
			return
		}
		kd := g.r.Range(1, 4)
		n := g.infos[i].nverts
		if n == 0 {
			n = g.r.Range(1, 5)
		}
		if g.r.Chance(1, 15) {
			n = g.r.Range(0, 7) // another length (ill-formed result) or empty (deletes the attribute)
		}
		g.push(Op{Op: "setattr", I: i, K: kd, Name: hx.Pick(g.r, kindNames[kd]), Data: g.rows(n, kd), Spare: g.spare()})
	case w < 38:
		i := g.any()
		if i < 0 {
			return
		}
		kd := g.r.Range(1, 4)
		n := g.infos[i].nverts
		if len(g.infos[i].attrs[kd]) != len(g.infos[i].attrs[1])+len(g.infos[i].attrs[2])+len(g.infos[i].attrs[3])+len(g.infos[i].attrs[4]) && g.r.Chance(9, 10) {
			// other kinds keep their length n
		} else if g.r.Bool() {
			n = g.r.Range(1, 6)
		}
		maps := map[string][][]float64{}
		for _, nm := range kindNames[kd] {
			if g.r.Bool() {
				maps[nm] = g.rows(n, kd)
			}
		}
		g.push(Op{Op: "setdata", I: i, K: kd, Maps: maps})
	case w < 42:
		i, j := g.any(), g.any()
		if i < 0 {
			return
		}
		if g.r.Chance(1, 2) {
			// each dimension equally often: the dimension first, then a receiver that has it
			kd := g.r.Range(1, 4)
			k := g.pick(func(k int) bool { return len(g.infos[k].attrs[kd]) > 0 })
			if k < 0 {
				// nobody carries that dimension yet: give i an attribute of it
				n := g.infos[i].nverts
				if n == 0 {
					n = g.r.Range(1, 5)
				}
				k = g.push(Op{Op: "setattr", I: i, K: kd, Name: hx.Pick(g.r, kindNames[kd]), Data: g.rows(n, kd), Spare: g.spare()})
			}
			if k >= 0 {
				g.copyOverKind(k, kd)
			}
			return
		}
		kd, nm, ok := g.someAttr(j, 0)
		if !ok || (g.infos[i].nverts != g.infos[j].nverts && g.infos[i].nverts != 0 && g.r.Chance(2, 3)) {
			return // (one time in three: a copy between meshes of different size, the result is ill-formed)
		}
		g.push(Op{Op: "copyattr", I: i, J: j, K: kd, Name: nm})
	case w < 47:
		i := g.any()
		if i < 0 {
			return
		}
		in := g.infos[i]
		n := g.r.Range(0, 9)
		if in.topo == 0 && g.r.Chance(5, 6) {
			n = 3 * g.r.Range(0, 3)
		}
		ix := g.indices(n, in.nverts)
		if g.r.Chance(1, 12) && n > 0 {
			ix[g.r.Intn(n)] = in.nverts + g.r.Intn(3) // out of range: later gathers crash
		}
		g.push(Op{Op: "setindices", I: i, Idx: ix, Spare: g.spare()})
	case w < 50:
		if i := g.any(); i >= 0 {
			g.push(Op{Op: "setmaterial", I: i, Mat: g.r.Range(1, 5)})
		}
	case w < 54:
		i := g.any()
		if i < 0 {
			return
		}
		mats := g.matsFor(i)
		if g.r.Chance(1, 6) {
			mats = append(mats, [2]int{g.r.Range(0, 2), g.r.Range(1, 3)}) // counts that do not add up
		}
		g.push(Op{Op: "setmaterials", I: i, Mats: mats, Spare: g.spare()})
	case w < 55:
		if i := g.any(); i >= 0 {
			g.push(Op{Op: "clear", I: i})
		}
	case w < 63:
		g.mapOp()
	case w < 67:
		g.modifyOp()
	case w < 69:
		if i := g.pick(uniform); i >= 0 {
			g.push(Op{Op: "topoints", I: i})
		}
	case w < 72:
		i := g.pick(tri)
		if g.r.Chance(1, 8) {
			i = g.any() // possibly not a triangle mesh: declared error
		}
		if i >= 0 {
			g.push(Op{Op: "flip", I: i, Via: g.r.Chance(1, 3)})
		}
	case w < 77:
		if i := g.any(); i >= 0 {
			g.push(Op{Op: "unweld", I: i, Via: g.r.Chance(1, 4)})
		}
	case w < 80:
		if i := g.pick(uniform); i >= 0 {
			g.push(Op{Op: "removeunref", I: i, Via: g.r.Chance(1, 4)})
		}
	case w < 83:
		i := g.pick(func(k int) bool { return tri(k) && uniform(k) && len(g.infos[k].attrs[3]) > 0 })
		if i < 0 {
			return
		}
		_, nm, _ := g.someAttr(i, 3)
		g.push(Op{Op: "weld", I: i, Name: nm, N: g.r.Range(0, 3)})
	case w < 85:
		i := g.pick(func(k int) bool { return uniform(k) && g.infos[k].nverts <= 12 })
		if i < 0 {
			return
		}
		n := g.r.Range(0, 3)
		if g.infos[i].nverts > 6 && n > 2 {
			n = 2
		}
		ts := make([][]float64, n)
		for a := range ts {
			ts[a] = append(g.vec(3, -5, 5), g.vec(3, 1, 3)...)
		}
		g.push(Op{Op: "repeat", I: i, TRS: ts})
	case w < 89:
		if i := g.any(); i >= 0 {
			g.export(i)
		}
	case w < 91:
		g.identOp()
	case w < 94:
		i := g.pick(func(k int) bool { return uniform(k) && g.infos[k].idxValid && g.infos[k].nverts > 0 })
		if i < 0 {
			return
		}
		if tri(i) && g.infos[i].has(3, "Position") && g.r.Bool() {
			g.push(Op{Op: "filter", Fn: "nullfaces", I: i, K: 3, Name: "Position", Via: g.r.Chance(1, 3)})
			return
		}
		kd, nm, ok := g.someAttr(i, 0)
		if ok {
			g.push(Op{Op: "filter", Fn: "ge", I: i, K: kd, Name: nm, Vec: []float64{float64(g.r.Range(-5, 12))}, Via: g.r.Chance(1, 3)})
		}
	case w < 96:
		i := g.pick(func(k int) bool {
			return g.infos[k].topo == 1 && uniform(k) && g.infos[k].idxValid && len(g.infos[k].attrs[3]) > 0
		})
		if i < 0 {
			i = g.pick(func(k int) bool { return uniform(k) && len(g.infos[k].attrs[3]) > 0 })
			if i >= 0 && g.r.Bool() {
				g.push(Op{Op: "topoints", I: i})
				return
			}
		}
		if i < 0 || (g.infos[i].topo == 1 && !g.infos[i].idxValid) {
			return
		}
		if g.infos[i].topo == 1 && g.infos[i].nmats == 0 && g.r.Bool() {
			// point clouds WITH materials: Crop hands the receiver's material slice on to the constructor
			var k int
			if g.r.Bool() {
				k = g.push(Op{Op: "setmaterial", I: i, Mat: g.r.Range(1, 5)})
			} else {
				k = g.push(Op{Op: "setmaterials", I: i, Mats: g.matsFor(i), Spare: g.spare()})
			}
			if k >= 0 {
				i = k
			}
		}
		_, nm, _ := g.someAttr(i, 3)
		g.push(Op{Op: "crop", I: i, Name: nm, Vec: append(g.vec(3, 0, 8), float64(2*g.r.Range(2, 10)), float64(2*g.r.Range(2, 10)), float64(2*g.r.Range(4, 12))), Via: g.r.Chance(1, 3)})
	case w < 98:
		i := g.pick(func(k int) bool {
			return tri(k) && uniform(k) && g.infos[k].idxValid && len(g.infos[k].attrs[3]) > 0
		})
		if i < 0 {
			return
		}
		_, nm, _ := g.someAttr(i, 3)
		g.push(Op{Op: "slice", I: i, Name: nm, Vec: []float64{float64(g.r.Range(-3, 12))}, Via: g.r.Chance(1, 3), N: g.r.Intn(2)})
	default:
		splittable := func(k int) bool {
			in := g.infos[k]
			return uniform(k) && in.nmats >= 2 && tri(k) && in.nidx%3 == 0 && in.matSum >= in.nidx/3 && in.idxValid && !in.nilMat
		}
		i := g.pick(splittable)
		if i < 0 || g.r.Chance(1, 5) {
			i = g.pick(func(k int) bool { return g.infos[k].nmats < 2 || splittable(k) })
		}
		if i >= 0 {
			g.push(Op{Op: "split", I: i})
		}
	}
}

// crossDim: an attribute NAME that member i (or what it was derived from) carries under one dimension is defined under
// ANOTHER dimension — by SetFloatNAttribute, SetFloatNData or CopyFloatNAttribute.  The maps of the other dimensions
// are shared between the result, the receiver and everything derived from either.
func (g *gen) crossDim(i int) int {
	if i < 0 {
		return -1
	}
	kd, nm, ok := g.someAttr(i, 0)
	if !ok {
		return -1
	}
	other := g.r.Range(1, 4)
	if other == kd {
		other = kd%4 + 1
	}
	n := g.infos[i].nverts
	switch g.r.Intn(6) {
	case 0:
		return g.push(Op{Op: "setdata", I: i, K: other, Maps: map[string][][]float64{nm: g.rows(n, other)}})
	case 1:
		// a second mesh gets the name under the other dimension, then the attribute is copied over
		j := g.push(Op{Op: "setattr", I: g.any(), K: other, Name: nm, Data: g.rows(n, other), Spare: g.spare()})
		if j < 0 {
			return -1
		}
		return g.push(Op{Op: "copyattr", I: i, J: j, K: other, Name: nm})
	}
	return g.push(Op{Op: "setattr", I: i, K: other, Name: nm, Data: g.rows(n, other), Spare: g.spare()})
}

// copyOver: CopyFloatNAttribute where the receiver ALREADY carries the attribute (same name, same dimension, same
// length) with other values: the copy replaces an attribute instead of adding one
func (g *gen) copyOverKind(i, want int) int {
	kd, nm, ok := g.someAttr(i, want)
	if !ok {
		return -1
	}
	n := g.infos[i].nverts
	// the source: some member (often a relative of i) given other values under the same name
	j := g.pick(func(k int) bool { return g.infos[k].nverts == n })
	if j < 0 {
		j = i
	}
	src := g.push(Op{Op: "setattr", I: j, K: kd, Name: nm, Data: g.rows(n, kd), Spare: g.spare()})
	if src < 0 {
		return -1
	}
	return g.push(Op{Op: "copyattr", I: i, J: src, K: kd, Name: nm})
}

// shareMats: member i gets the material slice member j hands out through Materials()
func (g *gen) shareMats(i int) int {
	if i < 0 {
		return -1
	}
	j := g.pick(func(k int) bool { return g.infos[k].nmats > 0 })
	if j < 0 {
		j = g.any()
	}
	return g.push(Op{Op: "sharemats", I: i, J: j})
}

// noopOp: an operation whose parameters make it change NOTHING (nothing to merge, nothing to remove, nothing to
// move): the place where an implementation is tempted to hand back or reuse what it was given
func (g *gen) noopOp(i int) int {
	if i < 0 {
		return -1
	}
	in := g.infos[i]
	_, nm3, has3 := g.someAttr(i, 3)
	switch g.r.Intn(12) {
	case 0:
		if in.has(3, "Position") {
			return g.push(Op{Op: "map", Fn: "translate", I: i, Vec: []float64{0, 0, 0}})
		}
	case 1:
		if in.has(3, "Position") {
			return g.push(Op{Op: "map", Fn: hx.Pick(g.r, []string{"scale", "trs"}), I: i, Vec: []float64{1, 1, 1, 1, 1, 1}})
		}
	case 2, 3, 4:
		// a weld that merges nothing (the generator's positions are distinct almost always); the mesh may carry
		// vertices no triangle refers to, before and after referenced ones
		if has3 && in.topo == 0 && in.uniform {
			return g.push(Op{Op: "weld", I: i, Name: nm3, N: g.r.Range(1, 4)})
		}
	case 5:
		if kd, nm, ok := g.someAttr(i, 0); ok && in.uniform && in.idxValid && in.nverts > 0 {
			return g.push(Op{Op: "filter", Fn: "ge", I: i, K: kd, Name: nm, Vec: []float64{-1000}, Via: g.r.Chance(1, 3)}) // keeps everything
		}
	case 6:
		if has3 && in.topo == 1 && in.uniform && in.idxValid {
			return g.push(Op{Op: "crop", I: i, Name: nm3, Vec: []float64{0, 0, 0, 100000, 100000, 100000}, Via: g.r.Chance(1, 3)})
		}
	case 7:
		if in.uniform && in.idxValid {
			return g.push(Op{Op: "removeunref", I: i, Via: g.r.Chance(1, 4)})
		}
	case 8:
		if has3 && in.topo == 0 && in.uniform && in.idxValid {
			return g.push(Op{Op: "slice", I: i, Name: nm3, Vec: []float64{-100000}, Via: g.r.Chance(1, 3), N: g.r.Intn(2)}) // everything on one side
		}
	case 9:
		return g.push(Op{Op: "repeat", I: i, TRS: [][]float64{{0, 0, 0, 1, 1, 1}}})
	case 10:
		if kd, nm, ok := g.someAttr(i, 0); ok && kd <= 3 {
			v := make([]float64, kd)
			fn := "modify.add"
			if g.r.Bool() {
				fn = "modify.mul"
				for c := range v {
					v[c] = 1
				}
			}
			return g.push(Op{Op: "map", Fn: fn, I: i, K: kd, Name: nm, Vec: v, N: g.poolSize(in.nverts)})
		}
	default:
		e := g.push(Op{Op: "empty", Topo: in.topo})
		if e >= 0 && in.uniform {
			if g.r.Bool() {
				return g.push(Op{Op: "append", I: i, J: e})
			}
			return g.push(Op{Op: "append", I: e, J: i})
		}
	}
	return -1
}

// modifyOp: ModifyFloat{1,2,3}Attribute, sequential and with every kind of worker-pool size, each dimension equally often
func (g *gen) modifyOp() {
	kd := g.r.Range(1, 3)
	i := g.pick(func(k int) bool { return len(g.infos[k].attrs[kd]) > 0 })
	if i < 0 {
		// nobody carries an attribute of that dimension yet: give one to somebody
		j := g.any()
		if j < 0 {
			return
		}
		n := g.infos[j].nverts
		if n == 0 {
			n = g.r.Range(1, 5)
		}
		i = g.push(Op{Op: "setattr", I: j, K: kd, Name: hx.Pick(g.r, kindNames[kd]), Data: g.rows(n, kd), Spare: g.spare()})
		if i < 0 {
			return
		}
	}
	_, nm, ok := g.someAttr(i, kd)
	if !ok {
		return
	}
	fn := hx.Pick(g.r, []string{"modify.add", "modify.mul", "modify.add", "modify.par"})
	g.push(Op{Op: "map", Fn: fn, I: i, K: kd, Name: nm, Vec: g.vec(kd, -3, 5), N: g.poolSize(g.infos[i].nverts)})
}

// poolSize: the worker-pool size of a ...ParallelWithPoolSize call over n elements: 0 = the sequential function, 1 (falls
// back to it), fewer workers than elements, exactly as many, MORE workers than elements (jobs of size 0)
func (g *gen) poolSize(n int) int {
	switch g.r.Intn(7) {
	case 0, 1:
		return 0
	case 2:
		return 1
	case 3:
		if n > 1 {
			return n
		}
		return 2
	case 4:
		return n + 1 + g.r.Intn(3)
	case 5:
		if n > 2 {
			return n - 1
		}
		return 2
	}
	return g.r.Range(2, 4)
}

func (g *gen) identOp() {
	i := g.any()
	if i < 0 {
		return
	}
	in := g.infos[i]
	switch g.r.Intn(7) {
	case 5:
		g.push(Op{Op: "ident", I: i, Fn: hx.Pick(g.r, []string{"pipeline0", "decimate", "custom"})})
	case 6:
		if in.topo == 0 && in.nidx%3 == 0 || in.topo == 1 || (in.topo == 4 && in.nidx > 0) {
			g.push(Op{Op: "ident", I: i, Fn: "scanprimspar", N: g.poolSize(in.nidx / 3)})
		}
	case 0:
		g.push(Op{Op: "ident", I: i, Fn: "transform0"})
	case 1:
		if in.topo == 0 && in.nidx%3 == 0 || in.topo == 1 || (in.topo == 4 && in.nidx > 0) {
			g.push(Op{Op: "ident", I: i, Fn: "scanprims"})
		}
	case 2:
		if !in.has(3, "Color") {
			g.push(Op{Op: "ident", I: i, Fn: "colorspace-skip", Name: "Color"})
		}
	default:
		kd, nm, ok := g.someAttr(i, 0)
		if ok {
			fn := []string{"", "scan1", "scan2", "scan3", "scan4"}[kd]
			if kd == 3 && g.r.Bool() {
				fn = "scan3par"
			}
			if kd == 1 && g.r.Bool() {
				fn = "scan1par"
			}
			g.push(Op{Op: "ident", I: i, Fn: fn, Name: nm, N: g.poolSize(in.nverts)})
		}
	}
}

func (g *gen) mapOp() {
	nasty := g.r.Chance(1, 10) // possibly a missing attribute / wrong topology: declared error expected
	which := g.r.Intn(21)
	if which == 20 {
		which = 4 // ModifyFloatN twice as often: three dimensions x sequential / pool sizes
	}
	wantKind := g.r.Range(1, 3)
	// choose the function first, then an operand that qualifies
	need := func(k int) bool {
		in := g.infos[k]
		switch which {
		case 0, 1, 2, 3:
			return in.has(3, "Position")
		case 4, 5:
			return len(in.attrs[wantKind]) > 0
		case 8:
			return len(in.attrs[2]) > 0
		case 10:
			return in.has(3, "Normal") && in.uniform
		case 11, 12:
			return in.topo == 0 && in.has(3, "Position")
		case 6, 7, 9:
			return len(in.attrs[3]) > 0
		}
		return len(in.attrs[3]) > 0 && ((in.topo == 0 && in.idxValid && in.nidx%3 == 0) || in.topo == 1 || in.topo == 2)
	}
	i := g.pick(need)
	if i < 0 || nasty {
		i = g.any()
	}
	if i < 0 {
		return
	}
	in := g.infos[i]
	hasPos := in.has(3, "Position")
	small := func() []float64 { return g.vec(3, -6, 6) }
	switch which {
	case 0:
		if hasPos || nasty {
			g.push(Op{Op: "map", Fn: "translate", I: i, Vec: small()})
		}
	case 1:
		if hasPos || nasty {
			g.push(Op{Op: "map", Fn: "scale", I: i, Vec: g.vec(3, -3, 4)})
		}
	case 2:
		if hasPos || nasty {
			g.push(Op{Op: "map", Fn: "rotate", I: i})
		}
	case 3:
		if hasPos || nasty {
			g.push(Op{Op: "map", Fn: "trs", I: i, Vec: append(small(), g.vec(3, 1, 3)...)})
		}
	case 4, 5:
		kd, nm, ok := g.someAttr(i, wantKind)
		if !ok {
			kd, nm, ok = g.someAttr(i, 0)
		}
		if ok && kd <= 3 {
			g.push(Op{Op: "map", Fn: hx.Pick(g.r, []string{"modify.add", "modify.mul"}), I: i, K: kd, Name: nm, Vec: g.vec(kd, -3, 5), N: g.poolSize(in.nverts)})
		}
	case 6:
		if _, nm, ok := g.someAttr(i, 3); ok {
			g.push(Op{Op: "map", Fn: "mo.translate", I: i, Name: nm, Vec: small(), Via: g.r.Chance(1, 3)})
		} else if nasty {
			g.push(Op{Op: "map", Fn: "mo.translate", I: i, Name: "Position", Vec: small(), Via: g.r.Bool()})
		}
	case 7:
		if _, nm, ok := g.someAttr(i, 3); ok {
			g.push(Op{Op: "map", Fn: "mo.scale3", I: i, Name: nm, Vec: g.vec(3, -2, 4), Via: g.r.Chance(1, 3)})
		}
	case 8:
		if _, nm, ok := g.someAttr(i, 2); ok {
			g.push(Op{Op: "map", Fn: hx.Pick(g.r, []string{"mo.scale2", "mo.normalize2"}), I: i, Name: nm, Vec: g.vec(2, -2, 4), Via: g.r.Chance(1, 3)})
		}
	case 9:
		if _, nm, ok := g.someAttr(i, 3); ok {
			g.push(Op{Op: "map", Fn: hx.Pick(g.r, []string{"mo.rotate", "mo.center", "mo.normalize3", "mo.colorspace"}), I: i, Name: nm, Via: g.r.Chance(1, 3)})
		}
	case 10:
		if _, nm, ok := g.someAttr(i, 3); ok && in.has(3, "Normal") && in.uniform {
			g.push(Op{Op: "map", Fn: "mo.alongnormal", I: i, Name: nm, Vec: []float64{float64(g.r.Range(-2, 3))}, Via: g.r.Chance(1, 3)})
		}
	case 11, 12:
		if (in.topo == 0 && hasPos) || nasty {
			g.push(Op{Op: "map", Fn: hx.Pick(g.r, []string{"mo.flatnormals", "mo.smoothnormals"}), I: i, Via: g.r.Chance(1, 3)})
		}
	case 16:
		if in.topo == 0 && hasPos && in.idxValid && in.nidx%3 == 0 {
			g.push(Op{Op: "map", Fn: "mo.smoothnormals-weld", I: i, Vec: []float64{float64(g.r.Range(0, 3))}, Via: g.r.Chance(1, 3)})
		}
	case 17:
		if _, nm, ok := g.someAttr(i, 3); ok {
			switch g.r.Intn(3) {
			case 0:
				g.push(Op{Op: "map", Fn: "mo.colorlut", I: i, Name: nm, Via: g.r.Chance(1, 3)})
			case 1:
				g.push(Op{Op: "map", Fn: "gaus.colorlut", I: i, Name: nm})
			default:
				if !in.has(3, "Scale") {
					i = g.push(Op{Op: "setattr", I: i, K: 3, Name: "Scale", Data: g.rows(in.nverts, 3), Spare: g.spare()})
				}
				if i >= 0 {
					g.push(Op{Op: "map", Fn: "gaus.scale", I: i, Name: "Scale", Vec: g.vec(3, 1, 3)})
				}
			}
		}
	case 18:
		if _, nm, ok := g.someAttr(i, 4); ok {
			g.push(Op{Op: "map", Fn: "gaus.rotate", I: i, Name: nm})
		}
	case 19:
		if kd, nm, ok := g.someAttr(i, wantKind); ok && kd <= 3 {
			g.push(Op{Op: "map", Fn: "modify.par", I: i, K: kd, Name: nm, Vec: g.vec(kd, -3, 5)})
		}
	default:
		if _, nm, ok := g.someAttr(i, 3); ok && ((in.topo == 0 && in.idxValid && in.nidx%3 == 0) || in.topo == 1 || in.topo == 2) {
			g.push(Op{Op: "map", Fn: hx.Pick(g.r, []string{"mo.laplacian", "mo.laplacian", "mo.laplacian-axis"}), I: i, Name: nm, N: g.r.Range(1, 2), Via: g.r.Chance(1, 4)})
		}
	}
}

// ---- a history -------------------------------------------------------------------------------------------------

// fanIn: ONE operand appended to several receivers (and twice to the same one), receivers that are empty in one
// component included; the operand and every earlier result are re-read after each step like everything else
func (g *gen) fanIn() {
	o := g.pick(func(k int) bool { return g.infos[k].uniform && g.infos[k].nidx > 0 && g.infos[k].nverts > 0 })
	if o < 0 {
		o = g.seedTri()
	}
	if o < 0 {
		return
	}
	comp := func(k int) bool { return g.infos[k].topo == g.infos[o].topo && g.infos[k].uniform }
	recv := []int{}
	for n := g.r.Range(2, 3); n > 0; n-- {
		b := g.pick(comp)
		if b < 0 {
			b = o
		}
		switch g.r.Intn(4) {
		case 0:
			recv = append(recv, b)
		case 1:
			if v := g.variant(b); v >= 0 {
				recv = append(recv, v)
			}
		default:
			if h := g.hollow(b); h >= 0 && comp(h) {
				recv = append(recv, h)
			}
		}
	}
	for _, rcv := range recv {
		if g.tooBig(rcv, o) {
			continue
		}
		x := g.push(Op{Op: "append", I: rcv, J: o})
		switch g.r.Intn(4) {
		case 0:
			g.push(Op{Op: "append", I: rcv, J: o}) // the same derivation again
		case 1:
			g.push(Op{Op: "append", I: o, J: rcv}) // the other way round
		case 2:
			if x >= 0 && !g.tooBig(x, o) {
				g.push(Op{Op: "append", I: x, J: o}) // accumulate
			}
		}
	}
	g.focus = o
}

// export steps add no member and cost next to nothing on the Coq side: they do not use up the length budget
func (g *gen) export(i int) {
	if i < 0 {
		return
	}
	f := hx.Pick(g.r, exportFmts)
	if g.r.Chance(1, 4) {
		f = hx.Pick(g.r, []string{"gltf", "gltf-text", "gltf-two"}) // the writers that take the mesh by pointer
	}
	g.push(Op{Op: "export", I: i, Fmt: f})
	if g.max < 24 {
		g.max++
	}
}

// readerOp: an operation that reads (and must only read) what member i shares with others
func (g *gen) readerOp(i int) {
	in := g.infos[i]
	n := len(g.ops)
	switch g.r.Intn(15) {
	case 12, 13:
		g.noopOp(i)
	case 14:
		g.crossDim(i)
	case 0, 1, 2:
		// (a nil *Material is dereferenced by Split, an index count off the triangle grid indexes out of range: crashes
		// the model does not describe)
		if in.uniform && (in.nmats < 2 || in.topo != 0 || (in.nidx%3 == 0 && !in.nilMat)) {
			g.push(Op{Op: "split", I: i})
		}
	case 3:
		g.push(Op{Op: "unweld", I: i, Via: g.r.Chance(1, 4)})
	case 4:
		if in.uniform {
			g.push(Op{Op: "removeunref", I: i, Via: g.r.Chance(1, 4)})
		}
	case 5:
		if _, nm, ok := g.someAttr(i, 3); ok && in.topo == 0 && in.uniform {
			g.push(Op{Op: "weld", I: i, Name: nm, N: g.r.Range(0, 3)})
		}
	case 6:
		g.push(Op{Op: "flip", I: i, Via: g.r.Chance(1, 3)})
	case 7:
		g.export(i)
	case 8, 9:
		g.appendOp(i)
	case 10:
		if _, nm, ok := g.someAttr(i, 3); ok && in.topo == 0 && in.uniform && in.idxValid {
			g.push(Op{Op: hx.Pick(g.r, []string{"slice", "filter"}), Fn: "nullfaces", K: 3, I: i, Name: nm, Vec: []float64{float64(g.r.Range(-3, 12))}})
		}
	default:
		if in.uniform {
			g.push(Op{Op: "topoints", I: i})
		}
	}
	if len(g.ops) == n {
		f := g.focus
		g.focus = i
		g.step()
		g.focus = f
	}
}

// sharePattern: a base with a material list (empty ranges included), two or three live derivations that SHARE its
// slices (materials, indices, the untouched attributes), then operations that read those slices
func (g *gen) sharePattern() {
	ok := func(k int) bool {
		in := g.infos[k]
		return in.uniform && in.topo == 0 && in.nverts > 0 && in.nidx > 0 && in.nidx%3 == 0 && in.idxValid
	}
	b := g.pick(ok)
	if b < 0 {
		b = g.seedTri()
	}
	if b < 0 {
		return
	}
	switch {
	case g.r.Chance(1, 4):
		// one material for everything, then more primitives without any: the list covers FEWER primitives than exist
		if k := g.push(Op{Op: "setmaterial", I: b, Mat: g.r.Range(1, 5)}); k >= 0 {
			plain := g.push(Op{Op: "setmaterials", I: b, Nil: true})
			if plain >= 0 && !g.tooBig(k, plain) {
				if a := g.push(Op{Op: "append", I: k, J: plain}); a >= 0 {
					k = a
				}
			}
			b = k
		}
	case g.infos[b].nmats == 0 || g.r.Chance(2, 3):
		if k := g.push(Op{Op: "setmaterials", I: b, Mats: g.matsFor(b), Spare: g.spare()}); k >= 0 {
			b = k
		}
	}
	ds := []int{b}
	if g.r.Bool() {
		// a derivation that changes the primitive count and keeps the material slice: the list then covers MORE (or
		// fewer) primitives than the derivation has
		in := g.infos[b]
		k := -1
		switch g.r.Intn(3) {
		case 0:
			k = g.push(Op{Op: "setindices", I: b, Idx: g.indices(3*g.r.Range(0, in.nidx/3+2), in.nverts), Spare: g.spare()})
		case 1:
			if kd, nm, ok := g.someAttr(b, 0); ok {
				k = g.push(Op{Op: "filter", Fn: "ge", I: b, K: kd, Name: nm, Vec: []float64{float64(g.r.Range(-5, 12))}})
			}
		default:
			if in.has(3, "Position") {
				k = g.push(Op{Op: "filter", Fn: "nullfaces", I: b, K: 3, Name: "Position"})
			}
		}
		if k >= 0 {
			ds = append(ds, k)
		}
	}
	for n := g.r.Range(2, 3); n > 0; n-- {
		src := hx.Pick(g.r, ds)
		in := g.infos[src]
		k := -1
		switch g.r.Intn(6) {
		case 4:
			k = g.crossDim(src)
		case 5:
			// another mesh adopts the family's material slice through Materials()
			if o := g.any(); o >= 0 {
				k = g.push(Op{Op: "sharemats", I: o, J: src})
			}
		case 0:
			if in.has(3, "Position") {
				k = g.push(Op{Op: "map", Fn: "translate", I: src, Vec: g.vec(3, -6, 6)})
			}
		case 1:
			kd := g.r.Range(1, 4)
			k = g.push(Op{Op: "setattr", I: src, K: kd, Name: hx.Pick(g.r, kindNames[kd]), Data: g.rows(in.nverts, kd), Spare: g.spare()})
		case 2:
			k = g.push(Op{Op: "ident", I: src, Fn: "transform0"})
		default:
			k = g.push(Op{Op: "setindices", I: src, Idx: g.indices(in.nidx, in.nverts), Spare: g.spare()})
		}
		if k >= 0 {
			ds = append(ds, k)
		}
	}
	for n := g.r.Range(2, 4); n > 0 && !g.full(); n-- {
		g.readerOp(hx.Pick(g.r, ds))
	}
	// every member of the family through some exporter
	for _, k := range ds {
		if g.r.Chance(2, 3) {
			g.export(k)
		}
	}
	g.focus = b
}

// siblings: base = result of >= 2 Appends, then several derivations of base
func (g *gen) siblings() {
	r := g.r
	t := g.pick(func(k int) bool { return g.infos[k].uniform && g.infos[k].nverts > 0 })
	if t < 0 {
		t = g.seedTri()
	}
	if t < 0 {
		return
	}
	base := t
	for a := r.Range(2, 3); a > 0 && base >= 0; a-- {
		other := t
		if r.Chance(1, 3) {
			if o := g.pick(func(k int) bool { return g.infos[k].topo == g.infos[t].topo && g.infos[k].uniform }); o >= 0 {
				other = o
			}
		}
		if g.tooBig(base, other) {
			break
		}
		base = g.push(Op{Op: "append", I: base, J: other})
	}
	if base < 0 {
		return
	}
	g.focus = base
	// operands with different contents: variants of t (same topology and attribute set, other values)
	others := []int{t}
	for v := r.Range(1, 2); v > 0; v-- {
		if u := g.variant(t); u >= 0 {
			others = append(others, u)
		}
	}
	for s := r.Range(2, 4); s > 0; s-- {
		if r.Chance(3, 4) {
			o := others[(s+len(others)-1)%len(others)]
			if !g.tooBig(base, o) {
				if r.Chance(1, 5) {
					g.push(Op{Op: "append", I: o, J: base})
				} else {
					g.push(Op{Op: "append", I: base, J: o})
				}
			}
		} else {
			f := g.focus
			g.focus = base
			g.step()
			g.focus = f
		}
	}
}

func genHistory(r *hx.Rng, maxLen int) histDesc {
	g := &gen{r: r, focus: -1, max: maxLen}
	// seeds
	for n := r.Range(1, 2); n > 0; n-- {
		g.seed()
	}
	switch w := r.Intn(20); {
	case w < 10:
		g.siblings()
	case w < 14:
		g.fanIn()
	case w < 18:
		g.sharePattern()
	}
	for guard := 0; !g.full() && guard < 4*maxLen; guard++ {
		if len(g.pool) == 0 {
			g.seed()
			continue
		}
		if r.Chance(1, 6) {
			g.focus = g.any() // move the focus: siblings of something else
		}
		if r.Chance(1, 14) {
			g.seed()
			continue
		}
		if r.Chance(1, 12) {
			g.readerOp(g.any())
			continue
		}
		g.step()
	}
	return histDesc{Ops: g.ops}
}
