package main

// Reading a modeling.Mesh through its public API into the observation the Coq side judges (Check/C01.v [obs]),
// the injective float -> Z encoding, Coq literal printers, and the reflect-based probe of the unexported slices
// (len/cap/backing array) used only for the coverage report.

import (
	"fmt"
	"hash/fnv"
	"math"
	"math/big"
	"reflect"
	"sort"
	"strings"

	"github.com/EliCDavis/polyform/modeling"
)

// attribute-name universe, lexicographically sorted: id = position+1, so the order of the ids is the order
// Float{1,2,3,4}Attributes() (sort.Strings) reports and the order the model's sorted association list keeps.
var attrNames = []string{"Class", "Color", "Custom", "Intensity", "Normal", "Position", "Scale", "TexCoord", "Weight"}

func attrID(name string) int {
	for i, n := range attrNames {
		if n == name {
			return i + 1
		}
	}
	return 99
}

var two62 = new(big.Int).Lsh(big.NewInt(1), 62)

// enc: integer-valued floats (|x| < 2^52) are themselves; every other value (fractions, NaN, Inf) is
// 2^62 + its IEEE bit pattern.  Injective except that -0 and +0 are both 0.
func enc(x float64) string {
	if x == math.Trunc(x) && math.Abs(x) < (1<<52) {
		return fmt.Sprintf("%d", int64(x))
	}
	b := new(big.Int).SetUint64(math.Float64bits(x))
	return b.Add(b, two62).String()
}

type cell []string // one Go element as the model sees it: a list of integers (decimal strings)

func zlit(s string) string {
	if strings.HasPrefix(s, "-") {
		return "(" + s + ")"
	}
	return s
}

func cellCoq(c cell) string {
	var b strings.Builder
	b.WriteByte('[')
	for i, s := range c {
		if i > 0 {
			b.WriteByte(';')
		}
		b.WriteString(zlit(s))
	}
	b.WriteByte(']')
	return b.String()
}

func cellsCoq(cs []cell) string {
	if len(cs) == 0 {
		return "[]"
	}
	var b strings.Builder
	b.WriteByte('[')
	for i, c := range cs {
		if i > 0 {
			b.WriteByte(';')
		}
		b.WriteString(cellCoq(c))
	}
	b.WriteString("]%Z")
	return b.String()
}

func intCells(xs []int) []cell {
	out := make([]cell, len(xs))
	for i, x := range xs {
		out[i] = cell{fmt.Sprintf("%d", x)}
	}
	return out
}

func rowCells(rows [][]float64) []cell {
	out := make([]cell, len(rows))
	for i, r := range rows {
		c := make(cell, len(r))
		for j, x := range r {
			c[j] = enc(x)
		}
		out[i] = c
	}
	return out
}

func natsCoq(xs []int) string {
	if len(xs) == 0 {
		return "[]"
	}
	var b strings.Builder
	b.WriteByte('[')
	for i, x := range xs {
		if i > 0 {
			b.WriteByte(';')
		}
		fmt.Fprintf(&b, "%d", x)
	}
	b.WriteString("]%nat")
	return b.String()
}

func nat(i int) string { return fmt.Sprintf("%d%%nat", i) }

var topoCoq = []string{"Triangle", "Point", "Quad", "Line", "LineStrip", "LineLoop"}
var kindCoq = []string{"", "K1", "K2", "K3", "K4"}

func toposCoq(ts []int) string {
	items := make([]string, len(ts))
	for i, t := range ts {
		items[i] = topoCoq[t]
	}
	return "[" + strings.Join(items, ";") + "]"
}

// ---- observation ----------------------------------------------------------------------------------------------

type attrObs struct {
	id   int
	name string
	vals []cell
}

type obs struct {
	topo int
	idx  []cell
	mats []cell
	v    [5][]attrObs // v[1..4]
}

// matID: the identity the harness gave the material — as long as the material's CONTENT is what the harness made it;
// a material whose fields were changed through the pointer reports another (deterministic) number
func matID(m *modeling.Material) int {
	if m == nil {
		return -1
	}
	id := int(m.SpecularHighlight)
	if id >= 0 && float64(id) == m.SpecularHighlight && reflect.DeepEqual(*m, *material(id)) {
		return id
	}
	str := func(p *string) string {
		if p == nil {
			return "<nil>"
		}
		return *p
	}
	h := fnv.New32a()
	fmt.Fprintf(h, "%q|%v|%v|%v|%v|%v|%v|%q|%q|%q", m.Name, m.AmbientColor, m.DiffuseColor, m.SpecularColor,
		m.SpecularHighlight, m.OpticalDensity, m.Transparency, str(m.ColorTextureURI), str(m.NormalTextureURI), str(m.SpecularTextureURI))
	return 1000000 + int(h.Sum32()%1000000)
}

// observe reads everything the property lists through the public API: Topology, Indices, Materials,
// Float{1..4}Attributes and the Float{1..4}Attribute iterators.
func observe(m modeling.Mesh) obs {
	var o obs
	o.topo = int(m.Topology())
	ix := m.Indices()
	o.idx = make([]cell, ix.Len())
	for i := range o.idx {
		o.idx[i] = cell{fmt.Sprintf("%d", ix.At(i))}
	}
	for _, mm := range m.Materials() {
		o.mats = append(o.mats, cell{fmt.Sprintf("%d", mm.PrimitiveCount), fmt.Sprintf("%d", matID(mm.Material))})
	}
	for _, n := range m.Float1Attributes() {
		it := m.Float1Attribute(n)
		a := attrObs{id: attrID(n), name: n, vals: make([]cell, it.Len())}
		for i := range a.vals {
			a.vals[i] = cell{enc(it.At(i))}
		}
		o.v[1] = append(o.v[1], a)
	}
	for _, n := range m.Float2Attributes() {
		it := m.Float2Attribute(n)
		a := attrObs{id: attrID(n), name: n, vals: make([]cell, it.Len())}
		for i := range a.vals {
			v := it.At(i)
			a.vals[i] = cell{enc(v.X()), enc(v.Y())}
		}
		o.v[2] = append(o.v[2], a)
	}
	for _, n := range m.Float3Attributes() {
		it := m.Float3Attribute(n)
		a := attrObs{id: attrID(n), name: n, vals: make([]cell, it.Len())}
		for i := range a.vals {
			v := it.At(i)
			a.vals[i] = cell{enc(v.X()), enc(v.Y()), enc(v.Z())}
		}
		o.v[3] = append(o.v[3], a)
	}
	for _, n := range m.Float4Attributes() {
		it := m.Float4Attribute(n)
		a := attrObs{id: attrID(n), name: n, vals: make([]cell, it.Len())}
		for i := range a.vals {
			v := it.At(i)
			a.vals[i] = cell{enc(v.X()), enc(v.Y()), enc(v.Z()), enc(v.W())}
		}
		o.v[4] = append(o.v[4], a)
	}
	return o
}

func (o obs) coq() string {
	var b strings.Builder
	fmt.Fprintf(&b, "(mkObs %s %s %s", topoCoq[o.topo], cellsCoq(o.idx), cellsCoq(o.mats))
	for k := 1; k <= 4; k++ {
		b.WriteString(" [")
		for i, a := range o.v[k] {
			if i > 0 {
				b.WriteByte(';')
			}
			fmt.Fprintf(&b, "(%d%%N,%s)", a.id, cellsCoq(a.vals))
		}
		b.WriteString("]")
	}
	b.WriteString(")")
	return b.String()
}

// ---- what the generator needs to know about a pool member (read through the public API) -----------------------

type info struct {
	topo     int
	nidx     int
	nverts   int  // common attribute length (meaningful when uniform)
	uniform  bool // every attribute has the same length: AttributeLength() is then deterministic
	idxValid bool // every index < nverts
	attrs    [5][]string
	nmats    int
	matSum   int
	nilMat   bool // some MeshMaterial has a nil *Material (SplitOnUniqueMaterials dereferences it)
}

func inspect(m modeling.Mesh) info {
	o := observe(m)
	in := info{topo: o.topo, nidx: len(o.idx), uniform: true, idxValid: true, nmats: len(o.mats)}
	first := true
	for k := 4; k >= 1; k-- {
		for _, a := range o.v[k] {
			in.attrs[k] = append(in.attrs[k], a.name)
			if first {
				in.nverts = len(a.vals)
				first = false
			} else if len(a.vals) != in.nverts {
				in.uniform = false
			}
		}
	}
	ix := m.Indices()
	for i := 0; i < ix.Len(); i++ {
		if ix.At(i) < 0 || ix.At(i) >= in.nverts {
			in.idxValid = false
		}
	}
	for _, mm := range m.Materials() {
		in.matSum += mm.PrimitiveCount
		if mm.Material == nil {
			in.nilMat = true
		}
	}
	return in
}

func (in info) has(k int, name string) bool {
	for _, n := range in.attrs[k] {
		if n == name {
			return true
		}
	}
	return false
}

// ---- reflect probe (coverage only): the unexported slices of a Mesh -----------------------------------------------

type sliceInfo struct {
	ptr      uintptr
	len, cap int
}

func probe(m modeling.Mesh) []sliceInfo {
	var out []sliceInfo
	v := reflect.ValueOf(m)
	add := func(s reflect.Value) {
		if s.Kind() == reflect.Slice && s.Cap() > 0 {
			out = append(out, sliceInfo{s.Pointer(), s.Len(), s.Cap()})
		}
	}
	for _, f := range []string{"indices", "materials"} {
		if fv := v.FieldByName(f); fv.IsValid() {
			add(fv)
		}
	}
	for _, f := range []string{"v1Data", "v2Data", "v3Data", "v4Data"} {
		fv := v.FieldByName(f)
		if !fv.IsValid() || fv.Kind() != reflect.Map || fv.IsNil() {
			continue
		}
		it := fv.MapRange()
		for it.Next() {
			add(it.Value())
		}
	}
	return out
}

// spareShared: number of backing arrays that are referenced by at least two live pool members and have spare
// capacity (cap > len) in at least one of the referencing slices — the situation in which an append() on a
// receiver's slice would write into memory another mesh can see.
func spareShared(pool []modeling.Mesh) int {
	type agg struct {
		members map[int]bool
		spare   bool
	}
	arrays := map[uintptr]*agg{}
	for k, m := range pool {
		for _, s := range probe(m) {
			a := arrays[s.ptr]
			if a == nil {
				a = &agg{members: map[int]bool{}}
				arrays[s.ptr] = a
			}
			a.members[k] = true
			if s.cap > s.len {
				a.spare = true
			}
		}
	}
	n := 0
	keys := make([]uintptr, 0, len(arrays))
	for p := range arrays {
		keys = append(keys, p)
	}
	sort.Slice(keys, func(i, j int) bool { return keys[i] < keys[j] })
	for _, p := range keys {
		if a := arrays[p]; a.spare && len(a.members) >= 2 {
			n++
		}
	}
	return n
}
