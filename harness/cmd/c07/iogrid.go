// C07 harness: the reader / writer grid (see readers.go) and the failing-writer cases.
package main

import (
	"fmt"
	"math"
	"os"
	"sync"

	"verif/harness/hx"

	"github.com/EliCDavis/polyform/formats/stl"
	"github.com/EliCDavis/polyform/modeling"
	"github.com/EliCDavis/vector/vector3"
)

type writeFailDesc struct {
	Op      string `json:"op"` // "write": stl.Write of n synthetic records; "writemesh": stl.WriteMesh of an unwelded mesh; "save-devfull": stl.Save to /dev/full
	N       int    `json:"n"`
	Cap     int    `json:"cap"` // bytes the writer accepts before it fails
	Seed    uint64 `json:"seed"`
	Normals bool   `json:"normals"`
}

func synthBinary(n int, seed uint64) stl.Binary {
	var b stl.Binary
	for j := range b.Header {
		b.Header[j] = byte((uint64(j)*11 + seed) & 255)
	}
	b.Triangles = make([]stl.Triangle, n)
	v := func(w [3]uint32) stl.Vec {
		return stl.Vec{X: math.Float32frombits(w[0]), Y: math.Float32frombits(w[1]), Z: math.Float32frombits(w[2])}
	}
	for i := range b.Triangles {
		b.Triangles[i] = stl.Triangle{Normal: v(synthVec(seed, uint64(4*i))), Vertex1: v(synthVec(seed, uint64(4*i+1))),
			Vertex2: v(synthVec(seed, uint64(4*i+2))), Vertex3: v(synthVec(seed, uint64(4*i+3))), Attribute: uint16(7*uint64(i) + seed)}
	}
	return b
}

func synthMesh(n int, seed uint64, normals bool) modeling.Mesh {
	idx := make([]int, 3*n)
	pos := make([]vector3.Float64, 3*n)
	nr := make([]vector3.Float64, 3*n)
	for j := range idx {
		idx[j] = j
		pos[j] = w2v(synthVec(seed, uint64(j)))
		nr[j] = vector3.New(0, vnum(seed, j), 0)
	}
	m := modeling.NewTriangleMesh(idx).SetFloat3Attribute(modeling.PositionAttribute, pos)
	if normals {
		m = m.SetFloat3Attribute(modeling.NormalAttribute, nr)
	}
	return m
}

// writeFailCase: the writer accepts Cap bytes, then fails.  The call must report an error exactly when the file
// (84 + 50 n bytes) does not fit.
func writeFailCase(d writeFailDesc) hx.Case {
	c := hx.Case{Kind: "writefail", Desc: d}
	total := 84 + 50*d.N
	var err error
	w := &failWriter{cap: d.Cap}
	func() {
		defer func() {
			if rec := recover(); rec != nil {
				c.GoFail, c.FailKey = fmt.Sprintf("panic while writing: %v", rec), "stl:write-panic"
			}
		}()
		switch d.Op {
		case "write":
			err = stl.Write(w, synthBinary(d.N, d.Seed))
		case "writemesh":
			err = stl.WriteMesh(w, synthMesh(d.N, d.Seed, d.Normals))
		case "save-devfull":
			err = stl.Save("/dev/full", synthMesh(d.N, d.Seed, d.Normals))
		}
	}()
	c.Coq = fmt.Sprintf("CWriteFail %d %d %s", total, d.Cap, hx.CoqBool(err != nil))
	c.Nontriv = d.N >= 1
	c.Key = fmt.Sprintf("wf|%s|%d|%d|%d|%v", d.Op, d.N, d.Cap, d.Seed, d.Normals)
	return c
}

func devFullUsable() bool {
	f, err := os.OpenFile("/dev/full", os.O_WRONLY, 0)
	if err != nil {
		return false
	}
	defer f.Close()
	_, err = f.Write([]byte{0})
	return err != nil
}

// concurrentCases: the same large-mesh / large-file cases, but computed by goroutines released together, so that
// calls of stl.WriteMesh / ReadMesh / Read / Write overlap.  Each result is an ordinary case (judged by Coq like the
// sequential ones): package-level scratch state shared between calls shows up as a wrong fingerprint.
func concurrentCases(run *hx.Run, r *hx.Rng) []hx.Case {
	rounds := 1
	if run.Tier == "thorough" {
		rounds = 4
	}
	var out []hx.Case
	for round := 0; round < rounds; round++ {
		const workers = 4
		res := make([]hx.Case, workers)
		jobs := make([]func() hx.Case, workers)
		for w := 0; w < workers; w++ {
			n := 600 + r.Intn(600)
			sd := uint64(r.Intn(60000))
			if w%2 == 0 {
				d := bigMeshDesc{N: n, NV: 3 * n, A: 1, Seed: sd, NDir: r.Range(-1, 5), Note: "concurrent with 7 other calls"}
				if w%4 == 0 {
					d.NV, d.A, d.B, d.C = 50+r.Intn(100), 1+r.Intn(9), r.Intn(5), r.Intn(50)
				}
				jobs[w] = func() hx.Case { return bigMeshCase(d) }
			} else {
				d := bigFileDesc{N: n, Seed: sd, ZN: w%4 == 1, Note: "concurrent with 7 other calls"}
				jobs[w] = func() hx.Case { return bigFileCase(d) }
			}
		}
		start := make(chan struct{})
		var wg sync.WaitGroup
		for w := 0; w < workers; w++ {
			wg.Add(1)
			go func(w int) {
				defer wg.Done()
				<-start
				res[w] = jobs[w]()
			}(w)
		}
		close(start)
		wg.Wait()
		for _, c := range res {
			run.Count("concurrent")
			out = append(out, c)
		}
	}
	return out
}

// ioCases: the fixed part of the reader / writer grid.
func ioCases(run *hx.Run, r *hx.Rng) []hx.Case {
	var out []hx.Case
	thorough := run.Tier == "thorough"
	seed := func() uint64 { return uint64(r.Intn(60000)) }

	// readers: files below and above 4096 bytes (n = 81: 4134, n = 82: 4184), one and several bufio buffers
	counts := []int{0, 2, 83, 164}
	if thorough {
		counts = []int{0, 1, 2, 3, 80, 81, 82, 83, 100, 163, 164, 300, 1000}
	}
	for _, n := range counts {
		want := 84 + 50*n
		for _, k := range wholeReaders {
			run.Count("reader:" + k)
			out = append(out, bigFileCase(bigFileDesc{N: n, Seed: seed(), ZN: r.Chance(1, 4), Note: "reader grid", readerSpec: readerSpec{Kind: k, RSeed: uint64(r.Intn(1 << 20))}}))
		}
		run.Count("reader:timeout")
		out = append(out, bigFileCase(bigFileDesc{N: n, Seed: seed(), Note: "reader grid", readerSpec: readerSpec{Kind: "timeout"}}))
		for _, at := range []int{r.Intn(want), want - 1, 80 + r.Intn(4)} {
			run.Count("reader:errafter")
			out = append(out, bigFileCase(bigFileDesc{N: n, Seed: seed(), Note: "reader grid", readerSpec: readerSpec{Kind: "errafter", RSeed: uint64(r.Intn(1 << 20)), FailAt: at}}))
		}
	}
	// trailing bytes through piece readers (not a well-formed file: if accepted, the announced records)
	for _, k := range []string{"dataerr", "pieces", "half"} {
		out = append(out, bigFileCase(bigFileDesc{N: 2 + r.Intn(3), Seed: seed(), Extra: 1 + r.Intn(60), Note: "reader grid, trailing bytes", readerSpec: readerSpec{Kind: k, RSeed: uint64(r.Intn(1 << 20))}}))
	}
	// (files beyond the reader's chunk of 4096 records through the reader kinds: the size ladder in bigCases)

	// writers that fail after cap bytes
	wf := func(d writeFailDesc) {
		run.Count("writefail:" + d.Op)
		out = append(out, writeFailCase(d))
	}
	for _, op := range []string{"write", "writemesh"} {
		for cap := 0; cap <= 85; cap++ { // empty file: every position, incl. inside the count field
			wf(writeFailDesc{Op: op, N: 0, Cap: cap, Seed: 1})
		}
		for _, cap := range []int{0, 40, 79, 80, 81, 83, 84, 85, 96, 133, 134, 135} {
			wf(writeFailDesc{Op: op, N: 1, Cap: cap, Seed: seed(), Normals: cap%2 == 0})
		}
		for i := 0; i < 8; i++ {
			n := 2 + r.Intn(6)
			wf(writeFailDesc{Op: op, N: n, Cap: r.Intn(84 + 50*n + 2), Seed: seed(), Normals: r.Bool()})
		}
		for _, n := range []int{4097, 8193} {
			total := 84 + 50*n
			for _, cap := range []int{total - 1, total, total - 50, 84 + 50*4096 - 1, 84 + 50*4096, 84 + 50*4096 + 1, 84 + r.Intn(50*n)} {
				wf(writeFailDesc{Op: op, N: n, Cap: cap, Seed: seed(), Normals: true})
			}
		}
	}
	out = append(out, concurrentCases(run, r)...)
	if devFullUsable() {
		for _, n := range []int{0, 1, 81, 82, 4097} {
			wf(writeFailDesc{Op: "save-devfull", N: n, Cap: 0, Seed: seed(), Normals: n%2 == 1})
		}
	}
	return out
}
