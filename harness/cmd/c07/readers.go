// C07 harness: the io.Reader / io.Writer side of stl.Read, stl.ReadMesh, stl.Load, stl.Write, stl.WriteMesh, stl.Save.
//
// The property quantifies over byte strings; the code receives them through an io.Reader that may hand out the data
// in pieces of any size (files and bufio above 4 KB, pipes, sockets), may return data together with its final error,
// may return (0, nil), or may fail half way.  Every reader here is built from (kind, seed, failAt) so a case replays.
package main

import (
	"bufio"
	"bytes"
	"errors"
	"io"
	"os"
	"path/filepath"
	"testing/iotest"

	"verif/harness/hx"
)

var errInjected = errors.New("injected reader failure")
var errDiskFull = errors.New("injected writer failure: no space left")

// readerKinds that deliver the whole input (the result must be the same as with bytes.Reader) ...
var wholeReaders = []string{"half", "onebyte", "dataerr", "pieces", "pieces-dataerr", "bufio16", "pipe", "file", "half-dataerr"}

// ... and readers that fail: the effective input is the prefix delivered before the failure
var failingReaders = []string{"timeout", "errafter"}

type readerSpec struct {
	Kind   string `json:"reader,omitempty"` // "" = bytes.Reader
	RSeed  uint64 `json:"reader_seed,omitempty"`
	FailAt int    `json:"fail_at,omitempty"` // errafter: number of bytes delivered before the error
}

func (s readerSpec) key() string {
	if s.Kind == "" {
		return ""
	}
	return "|" + s.Kind + "|" + itoa(int(s.RSeed)) + "|" + itoa(s.FailAt)
}

func itoa(i int) string { return string(appendInt(nil, i)) }
func appendInt(b []byte, i int) []byte {
	if i < 0 {
		b = append(b, '-')
		i = -i
	}
	if i >= 10 {
		b = appendInt(b, i/10)
	}
	return append(b, byte('0'+i%10))
}

// pieceReader hands out data in pieces whose sizes are drawn from its own PRNG: empty reads (0, nil), single bytes,
// a few bytes, up to 100 bytes, or everything asked for.  failAt >= 0: after that many bytes every call fails.
// withErr: the last piece is returned together with the final error (io.Reader allows both conventions).
type pieceReader struct {
	data      []byte
	off       int
	rng       *hx.Rng
	failAt    int
	withErr   bool
	lastEmpty bool
}

func (p *pieceReader) Read(b []byte) (int, error) {
	if len(b) == 0 {
		return 0, nil
	}
	limit, final := len(p.data), io.EOF
	if p.failAt >= 0 && p.failAt < limit {
		limit, final = p.failAt, errInjected
	}
	if p.off >= limit {
		return 0, final
	}
	var k int
	switch p.rng.Intn(8) {
	case 0:
		if !p.lastEmpty {
			p.lastEmpty = true
			return 0, nil
		}
		k = 1
	case 1:
		k = 1
	case 2, 3:
		k = 1 + p.rng.Intn(7)
	case 4, 5:
		k = 1 + p.rng.Intn(100)
	case 6:
		k = 1 + p.rng.Intn(5000)
	default:
		k = len(b)
	}
	p.lastEmpty = false
	if k > len(b) {
		k = len(b)
	}
	if k > limit-p.off {
		k = limit - p.off
	}
	copy(b, p.data[p.off:p.off+k])
	p.off += k
	if p.off == limit && p.withErr {
		return k, final
	}
	return k, nil
}

// countingReader records how many bytes reached the implementation.
type countingReader struct {
	r io.Reader
	n int
}

func (c *countingReader) Read(p []byte) (int, error) {
	n, err := c.r.Read(p)
	c.n += n
	return n, err
}

var tmpDir string

func tmpFile(name string) string {
	if tmpDir == "" {
		d, err := os.MkdirTemp("", "c07-harness-")
		if err != nil {
			panic(err)
		}
		tmpDir = d
	}
	return filepath.Join(tmpDir, name)
}
func cleanupTmp() {
	if tmpDir != "" {
		os.RemoveAll(tmpDir)
	}
}

// openReader builds the reader of a spec over data.  delivered() = bytes handed to the implementation so far;
// done() releases resources.  path != "": the data also sits in that file (kind "file": used for stl.Load).
func openReader(s readerSpec, data []byte) (r io.Reader, delivered func() int, done func(), path string) {
	done = func() {}
	var src io.Reader
	rng := hx.NewRng(s.RSeed*2654435761 + 17)
	switch s.Kind {
	case "", "bytes":
		src = bytes.NewReader(data)
	case "half":
		src = bytes.NewReader(data)
	case "onebyte":
		src = bytes.NewReader(data)
	case "dataerr", "half-dataerr":
		src = bytes.NewReader(data)
	case "timeout":
		src = bytes.NewReader(data)
	case "pieces", "bufio16":
		src = &pieceReader{data: data, rng: rng, failAt: -1}
	case "pieces-dataerr":
		src = &pieceReader{data: data, rng: rng, failAt: -1, withErr: true}
	case "errafter":
		src = &pieceReader{data: data, rng: rng, failAt: s.FailAt, withErr: s.RSeed%2 == 1}
	case "pipe":
		pr, pw := io.Pipe()
		go func() {
			off := 0
			for off < len(data) {
				k := 1 + rng.Intn(300)
				if rng.Chance(1, 4) {
					k = 1 + rng.Intn(9000)
				}
				if k > len(data)-off {
					k = len(data) - off
				}
				if _, err := pw.Write(data[off : off+k]); err != nil {
					return
				}
				off += k
			}
			pw.Close()
		}()
		src = pr
		done = func() { pr.Close() }
	case "file":
		path = tmpFile("in-" + itoa(int(s.RSeed)) + ".stl")
		if err := os.WriteFile(path, data, 0o644); err != nil {
			panic(err)
		}
		f, err := os.Open(path)
		if err != nil {
			panic(err)
		}
		src = f
		done = func() { f.Close(); os.Remove(path) }
	default:
		panic("unknown reader kind " + s.Kind)
	}
	c := &countingReader{r: src}
	r = c
	switch s.Kind {
	case "half":
		r = iotest.HalfReader(c)
	case "onebyte":
		r = iotest.OneByteReader(c)
	case "dataerr":
		r = iotest.DataErrReader(c)
	case "half-dataerr":
		r = iotest.DataErrReader(iotest.HalfReader(c))
	case "timeout":
		r = iotest.TimeoutReader(c)
	case "bufio16":
		r = bufio.NewReaderSize(c, 16)
	}
	return r, func() int { return c.n }, done, path
}

// effective input of a run: what the reader delivered when it is a failing one and the failure was reached
func effectiveInput(s readerSpec, data []byte, delivered int) []byte {
	switch s.Kind {
	case "timeout":
		if delivered < len(data) {
			return data[:delivered]
		}
	case "errafter":
		if s.FailAt >= 0 && s.FailAt < len(data) && delivered >= s.FailAt {
			return data[:s.FailAt]
		}
	}
	return data
}

func pickReader(r *hx.Rng, size int) readerSpec {
	switch r.Intn(10) {
	case 0, 1, 2, 3:
		return readerSpec{}
	case 4:
		k := failingReaders[r.Intn(len(failingReaders))]
		return readerSpec{Kind: k, RSeed: uint64(r.Intn(1 << 20)), FailAt: r.Intn(size + 1)}
	default:
		return readerSpec{Kind: wholeReaders[r.Intn(len(wholeReaders))], RSeed: uint64(r.Intn(1 << 20))}
	}
}

// failWriter accepts cap bytes, then reports a short write with an error (disk full, closed pipe).
type failWriter struct {
	cap, n int
	failed bool
}

func (w *failWriter) Write(p []byte) (int, error) {
	if len(p) == 0 {
		return 0, nil
	}
	room := w.cap - w.n
	if len(p) <= room {
		w.n += len(p)
		return len(p), nil
	}
	if room < 0 {
		room = 0
	}
	w.n += room
	w.failed = true
	return room, errDiskFull
}
