// C07 harness: binary STL.  Runs formats/stl on generated meshes and byte strings and writes the
// observations as Coq cases for Check/C07.v (model comparison + direct oracle).
package main

import (
	"bytes"
	"encoding/binary"
	"encoding/hex"
	"encoding/json"
	"fmt"
	"io"
	"math"
	"math/big"
	"os"
	"runtime"
	"sort"

	"verif/harness/hx"

	"github.com/EliCDavis/polyform/formats/stl"
	"github.com/EliCDavis/polyform/modeling"
	"github.com/EliCDavis/vector/vector3"
)

type meshDesc struct {
	Idx     []int        `json:"idx"`
	Pos     [][3]float64 `json:"pos"`     // nil: no Position attribute
	Normals [][3]float64 `json:"normals"` // nil: no Normal attribute
	Via     string       `json:"via,omitempty"` // "file": through stl.Save / stl.Load on a file instead of a buffer
}
type bytesDesc struct {
	Hex string `json:"hex"`
	readerSpec
}

// exactNormals renders the vertex normals as integer triples over a common power-of-two scale (which cancels in
// the normalisation) when that is possible with integers below 2^50: then the float64 sum of three of them is exact
// and Check/C07.v decides "stored word = float32 nearest to s_k/|s|" in integer arithmetic.  Otherwise "None" (the
// 1e-6 tolerance oracle below is all there is).
func exactNormals(ns [][3]float64) string {
	if ns == nil {
		return "None"
	}
	type me struct {
		m int64
		e int
	}
	dec := make([][3]me, len(ns))
	emin, any := 0, false
	for i, n := range ns {
		for k, x := range n {
			if math.IsNaN(x) || math.IsInf(x, 0) {
				return "None"
			}
			if x == 0 {
				continue
			}
			fr, ex := math.Frexp(x)
			m := int64(fr * (1 << 53))
			e := ex - 53
			for m%2 == 0 {
				m /= 2
				e++
			}
			dec[i][k] = me{m, e}
			if !any || e < emin {
				emin, any = e, true
			}
		}
	}
	items := make([]string, len(ns))
	for i := range ns {
		var t [3]string
		for k := 0; k < 3; k++ {
			v := big.NewInt(dec[i][k].m)
			if dec[i][k].m != 0 {
				v.Lsh(v, uint(dec[i][k].e-emin))
			}
			if v.BitLen() > 50 {
				return "None"
			}
			t[k] = v.String()
		}
		items[i] = "(" + t[0] + "," + t[1] + "," + t[2] + ")%Z"
	}
	return "(Some [" + join(items) + "])"
}

func f32bits(x float64) uint32  { return math.Float32bits(float32(x)) }
func vecCoq(v [3]uint32) string { return fmt.Sprintf("(%d,%d,%d)", v[0], v[1], v[2]) }
func vecsCoq(vs [][3]uint32) string {
	items := make([]string, len(vs))
	for i, v := range vs {
		items[i] = vecCoq(v)
	}
	return "[" + join(items) + "]"
}
func join(items []string) string {
	var b bytes.Buffer
	for i, s := range items {
		if i > 0 {
			b.WriteByte(';')
		}
		b.WriteString(s)
	}
	return b.String()
}

func genFloat(r *hx.Rng) float64 {
	if r.Chance(1, 14) {
		// outside / at the edge of the float32 range: overflow to +-Inf, underflow to (sub)normal or zero, the
		// rounding boundary just above MaxFloat32, float32 subnormals, integers needing 25 bits (NaN / Inf cannot be
		// carried by the JSON case description; byte strings cover those patterns)
		return []float64{1e39, -1e300, 1e-46, -7e-46, 3e-39, math.MaxFloat32, math.MaxFloat32 * (1 + 1.0/(1<<25)), -math.MaxFloat32 * (1 + 1.0/(1<<24)),
			math.Float64frombits(0x36A0000000000000), 16777217, -33554435}[r.Intn(11)]
	}
	switch r.Intn(7) {
	case 0:
		return float64(r.Range(-5, 5))
	case 1:
		return float64(r.Range(-1000, 1000)) / 10 // not float32-representable in general
	case 2:
		return (r.Float() - 0.5) * 1e6
	case 3:
		return (r.Float() - 0.5) * 1e-6
	case 4:
		return 0
	case 5:
		return math.Copysign(0, -1)
	default:
		return r.Float()*2 - 1
	}
}

func genMesh(r *hx.Rng) (meshDesc, string, string) {
	var d meshDesc
	nv := r.Range(0, 12)
	nt := r.Range(0, 10)
	if nv == 0 {
		nt = 0
	}
	// index shape: welded with an unrelated vertex count; unwelded identity; as many indices as vertices but
	// permuted / with repeats (so some vertices are unreferenced); as many vertices as triangles
	shape := "welded"
	switch r.Intn(12) {
	case 0, 1, 2:
		shape = "identity"
		nv = nt * 3
	case 3, 4:
		shape = "permutation"
		nv = nt * 3
	case 5:
		shape = "len=verts,repeats"
		nv = nt * 3
	case 6:
		shape = "verts=tris"
		nv = nt
	}
	d.Idx = make([]int, nt*3)
	switch shape {
	case "identity":
		for i := range d.Idx {
			d.Idx[i] = i
		}
	case "permutation":
		copy(d.Idx, r.Perm(nt*3))
	default:
		for i := range d.Idx {
			d.Idx[i] = r.Intn(nv)
		}
	}
	if r.Chance(1, 10) && nt > 0 {
		for k := r.Range(1, 2); k > 0; k-- {
			d.Idx = append(d.Idx, r.Intn(nv)) // trailing partial triangle: PrimitiveCount rounds down
		}
	}
	if !r.Chance(1, 12) && nv > 0 {
		d.Pos = make([][3]float64, nv)
		for i := range d.Pos {
			d.Pos[i] = [3]float64{genFloat(r), genFloat(r), genFloat(r)}
		}
	}
	nmode := "none"
	if r.Chance(1, 2) && d.Pos != nil {
		d.Normals, nmode = genNormals(r, nv)
	}
	if r.Chance(1, 8) {
		d.Via = "file"
	}
	return d, shape, nmode
}

// genNormals: vertex normals, every one in the half space z > 0 so the mean of three never cancels.  All modes but
// "float" produce values that are small integers times a power of two, so that the exact oracle applies.
func genNormals(r *hx.Rng, nv int) ([][3]float64, string) {
	ns := make([][3]float64, nv)
	q := func(x float64, bits int) float64 { return math.Round(math.Ldexp(x, bits)) / math.Ldexp(1, bits) }
	unit := func() [3]float64 {
		v := [3]float64{r.Float()*2 - 1, r.Float()*2 - 1, 0.3 + r.Float()}
		l := math.Sqrt(v[0]*v[0] + v[1]*v[1] + v[2]*v[2])
		return [3]float64{v[0] / l, v[1] / l, v[2] / l}
	}
	mode := []string{"grid", "grid", "unit-quantised", "unit-quantised", "unit-flat", "small-int", "scaled", "float", "axis"}[r.Intn(9)]
	switch mode {
	case "grid":
		// arbitrary length, 2^-16 grid; a quarter of them far from unit length: normalisation must happen
		for i := range ns {
			s := 1.0
			if r.Chance(1, 4) {
				s = []float64{1.0 / 128, 3, 250}[r.Intn(3)]
			}
			ns[i] = [3]float64{s * q(r.Float()*2-1, 16), s * q(r.Float()*2-1, 16), s * q(0.25+r.Float(), 16)}
		}
	case "unit-quantised":
		// what real meshes carry: unit normals up to a quantisation error (2^-18 ... 2^-30)
		bits := []int{18, 22, 26, 30}[r.Intn(4)]
		for i := range ns {
			u := unit()
			ns[i] = [3]float64{q(u[0], bits), q(u[1], bits), q(u[2], bits)}
		}
	case "unit-flat":
		// flat shading: every vertex the same nearly-unit normal (the mean of three is that normal again)
		bits := []int{18, 22, 26}[r.Intn(3)]
		u := unit()
		for i := range ns {
			ns[i] = [3]float64{q(u[0], bits), q(u[1], bits), q(u[2], bits)}
		}
	case "small-int":
		for i := range ns {
			ns[i] = [3]float64{float64(r.Range(-5, 5)), float64(r.Range(-5, 5)), float64(r.Range(1, 5))}
		}
	case "scaled":
		// the same direction at a very large or very small common scale
		e := []int{-60, -40, -20, 20, 40, 60}[r.Intn(6)]
		for i := range ns {
			ns[i] = [3]float64{math.Ldexp(float64(r.Range(-999, 999)), e), math.Ldexp(float64(r.Range(-999, 999)), e), math.Ldexp(float64(r.Range(1, 999)), e)}
		}
	case "axis":
		// exactly unit, axis aligned or with zero components (and a negative zero)
		for i := range ns {
			ns[i] = [][3]float64{{0, 0, 1}, {0, 0, 2}, {1, 0, 1}, {0, -1, 1}, {math.Copysign(0, -1), 0, 0.5}}[r.Intn(5)]
		}
	default:
		for i := range ns {
			ns[i] = [3]float64{r.Float()*2 - 1, r.Float()*2 - 1, 0.25 + r.Float()}
		}
	}
	return ns, mode
}


// shapeDescs enumerates small meshes by the *shape* of their index buffer relative to the vertex count: every
// coincidence a writer could key a shortcut on (as many indices as vertices, three times as many, as many vertices
// as triangles, one more / one fewer) combined with index patterns that are not the identity (reversed, rotated,
// swapped winding, constant, strided, all permutations of three), each with and without normals.  Vertices carry
// pairwise distinct positions and normals, so a corner taken from the wrong vertex changes the output.
func shapeDescs() []meshDesc {
	var out []meshDesc
	seen := map[string]bool{}
	add := func(nv int, idx []int) {
		for _, withN := range []bool{false, true} {
			d := meshDesc{Idx: append([]int{}, idx...), Pos: make([][3]float64, nv)}
			for v := 0; v < nv; v++ {
				f := float64(v + 1)
				d.Pos[v] = [3]float64{f, 10*f + 0.5, -100 * f}
			}
			if withN {
				d.Normals = make([][3]float64, nv)
				for v := 0; v < nv; v++ {
					d.Normals[v] = [3]float64{float64(v%3-1) * 0.5, float64(v%2)*0.75 - 0.25, 1 + 0.125*float64(v)}
				}
			}
			k := fmt.Sprint(nv, d.Idx, withN)
			if !seen[k] {
				seen[k] = true
				out = append(out, d)
			}
		}
	}
	for nv := 1; nv <= 7; nv++ {
		lens := []int{3, 6, 9, nv - 1, nv, nv + 1, 2 * nv, 3 * nv, 3*nv + 1}
		for _, n := range lens {
			if n < 3 || n > 21 {
				continue
			}
			pats := map[string]func(j int) int{
				"mod":    func(j int) int { return j % nv },
				"rev":    func(j int) int { return (n - 1 - j) % nv },
				"rot":    func(j int) int { return (j + 1) % nv },
				"const":  func(j int) int { return nv - 1 },
				"stride": func(j int) int { return (2*j + j/3) % nv },
				"wind":   func(j int) int { return (j - j%3 + []int{0, 2, 1}[j%3]) % nv },
			}
			for _, name := range []string{"mod", "rev", "rot", "const", "stride", "wind"} {
				idx := make([]int, n)
				for j := range idx {
					idx[j] = pats[name](j)
				}
				add(nv, idx)
			}
		}
	}
	for _, p := range [][]int{{0, 1, 2}, {0, 2, 1}, {1, 0, 2}, {1, 2, 0}, {2, 0, 1}, {2, 1, 0}} {
		add(3, p)
		add(4, p)
	}
	add(6, []int{3, 5, 4, 2, 0, 1})
	add(6, []int{0, 1, 2, 2, 1, 4})
	add(6, []int{0, 2, 1, 3, 5, 4})
	add(6, []int{0, 0, 0, 1, 1, 2}) // degenerate triangles
	add(9, []int{8, 7, 6, 5, 4, 3, 2, 1, 0})
	add(9, []int{0, 1, 2, 0, 1, 2, 0, 1, 2})
	return out
}

func buildMesh(d meshDesc) modeling.Mesh {
	m := modeling.NewTriangleMesh(d.Idx)
	if d.Pos != nil {
		p := make([]vector3.Float64, len(d.Pos))
		for i, v := range d.Pos {
			p[i] = vector3.New(v[0], v[1], v[2])
		}
		m = m.SetFloat3Attribute(modeling.PositionAttribute, p)
	}
	if d.Normals != nil {
		p := make([]vector3.Float64, len(d.Normals))
		for i, v := range d.Normals {
			p[i] = vector3.New(v[0], v[1], v[2])
		}
		m = m.SetFloat3Attribute(modeling.NormalAttribute, p)
	}
	return m
}

func closeF32(a, b float32, tol float64) bool {
	fa, fb := float64(a), float64(b)
	if math.IsNaN(fa) && math.IsNaN(fb) {
		return true
	}
	return math.Abs(fa-fb) <= tol*(1+math.Abs(fb))
}

// recordNormals extracts the stored facet normal words from STL bytes with an independent parse.
func recordNormals(b []byte) [][3]uint32 {
	var out [][3]uint32
	for off := 84; off+50 <= len(b); off += 50 {
		out = append(out, [3]uint32{binary.LittleEndian.Uint32(b[off:]), binary.LittleEndian.Uint32(b[off+4:]), binary.LittleEndian.Uint32(b[off+8:])})
	}
	return out
}

func isZeroWord(w uint32) bool { return w == 0 || w == 0x80000000 }

// readMeshCoq renders what stl.ReadMesh returned as a Check.C07 rmesh; flat normals are checked here
// (float arithmetic) and rendered as Flat.
func readMeshCoq(data []byte) (string, string) {
	return readMeshCoqFrom(data, func() (*modeling.Mesh, error) { return stl.ReadMesh(bytes.NewReader(data)) })
}

// readMeshCoqFrom: data = the bytes the mesh was read from (for the independent look at the stored normals),
// load = the call of the implementation (stl.ReadMesh on some reader, or stl.Load).
func readMeshCoqFrom(data []byte, load func() (*modeling.Mesh, error)) (string, string) {
	fail := ""
	var m *modeling.Mesh
	var err error
	func() {
		defer func() {
			if rec := recover(); rec != nil {
				err = fmt.Errorf("panic: %v", rec)
			}
		}()
		m, err = load()
	}()
	decoyCalls()
	if err != nil {
		return "None", fail
	}
	nv := m.AttributeLength()
	idx := m.Indices()
	ix := make([]int, idx.Len())
	for i := range ix {
		ix[i] = idx.At(i)
	}
	pos := [][3]uint32{}
	if m.HasFloat3Attribute(modeling.PositionAttribute) {
		p := m.Float3Attribute(modeling.PositionAttribute)
		for i := 0; i < p.Len(); i++ {
			v := p.At(i)
			pos = append(pos, [3]uint32{f32bits(v.X()), f32bits(v.Y()), f32bits(v.Z())})
			if float64(float32(v.X())) != v.X() && !math.IsNaN(v.X()) {
				fail = "position not a float32 value"
			}
		}
	}
	nrm := "None"
	if m.HasFloat3Attribute(modeling.NormalAttribute) {
		stored := recordNormals(data)
		n := m.Float3Attribute(modeling.NormalAttribute)
		items := make([]string, n.Len())
		for i := 0; i < n.Len(); i++ {
			v := n.At(i)
			t := i / 3
			if t < len(stored) && isZeroWord(stored[t][0]) && isZeroWord(stored[t][1]) && isZeroWord(stored[t][2]) {
				// geometric normal expected: (v2-v1)x(v3-v1) normalised, from the float32 positions
				if 3*t+2 < len(pos) {
					a, b, c := w2v(pos[3*t]), w2v(pos[3*t+1]), w2v(pos[3*t+2])
					e := b.Sub(a).Cross(c.Sub(a)).Normalized()
					if !closeF(v.X(), e.X()) || !closeF(v.Y(), e.Y()) || !closeF(v.Z(), e.Z()) {
						fail = fmt.Sprintf("flat normal of triangle %d is %v, geometric normal is %v", t, v, e)
					}
				}
				items[i] = "Flat"
			} else {
				items[i] = "Stored " + vecCoq([3]uint32{f32bits(v.X()), f32bits(v.Y()), f32bits(v.Z())})
			}
		}
		nrm = "(Some [" + join(items) + "])"
	}
	return fmt.Sprintf("(Some {| r_nverts := %d; r_idx := %s; r_pos := %s; r_nrm := %s |})", nv, hx.CoqListNat(ix), vecsCoq(pos), nrm), fail
}

func w2v(w [3]uint32) vector3.Float64 {
	return vector3.New(float64(math.Float32frombits(w[0])), float64(math.Float32frombits(w[1])), float64(math.Float32frombits(w[2])))
}
func closeF(a, b float64) bool {
	if math.IsNaN(a) && math.IsNaN(b) {
		return true
	}
	return math.Abs(a-b) <= 1e-6*(1+math.Abs(b))
}

func meshCase(d meshDesc) hx.Case {
	c := hx.Case{Kind: "mesh", Desc: d}
	m := buildMesh(d)
	var buf bytes.Buffer
	var werr error
	savePath := ""
	func() {
		defer func() {
			if rec := recover(); rec != nil {
				werr = fmt.Errorf("panic: %v", rec)
			}
		}()
		if d.Via == "file" {
			savePath = tmpFile("mesh.stl")
			os.Remove(savePath)
			if werr = stl.Save(savePath, m); werr == nil {
				var b []byte
				b, werr = os.ReadFile(savePath)
				buf.Write(b)
			}
		} else {
			werr = stl.WriteMesh(&buf, m)
		}
	}()
	out := buf.Bytes()
	if werr != nil {
		c.GoFail = "WriteMesh failed: " + werr.Error()
		c.FailKey = "stl:write-error"
	}
	nt := len(d.Idx) / 3
	if d.Pos == nil {
		nt = 0
	}
	// facet normals: value checked here against an independent float64 computation, placement by the model
	stored := recordNormals(out)
	fns := make([][3]uint32, nt)
	for t := 0; t < nt; t++ {
		if t < len(stored) {
			fns[t] = stored[t]
		}
		var e [3]float32
		if d.Normals != nil {
			var s [3]float64
			for k := 0; k < 3; k++ {
				n := d.Normals[d.Idx[3*t+k]]
				s[0] += n[0]
				s[1] += n[1]
				s[2] += n[2]
			}
			l := math.Sqrt(s[0]*s[0] + s[1]*s[1] + s[2]*s[2])
			e = [3]float32{float32(s[0] / l), float32(s[1] / l), float32(s[2] / l)}
		}
		if t < len(stored) {
			for k := 0; k < 3; k++ {
				if !closeF32(math.Float32frombits(stored[t][k]), e[k], 1e-6) {
					c.GoFail = fmt.Sprintf("facet normal %d component %d: stored %v, normalised mean of corner normals %v", t, k, math.Float32frombits(stored[t][k]), e[k])
					c.FailKey = "stl:facet-normal-value"
				}
			}
		}
	}
	pos := "None"
	if d.Pos != nil {
		pw := make([][3]uint32, len(d.Pos))
		for i, v := range d.Pos {
			pw[i] = [3]uint32{f32bits(v[0]), f32bits(v[1]), f32bits(v[2])}
		}
		pos = "(Some " + vecsCoq(pw) + ")"
	}
	var rm, fail string
	if savePath != "" && werr == nil {
		rm, fail = readMeshCoqFrom(out, func() (*modeling.Mesh, error) { return stl.Load(savePath) })
	} else {
		rm, fail = readMeshCoq(out)
	}
	if fail != "" && c.GoFail == "" {
		c.GoFail, c.FailKey = fail, "stl:read-normal-value"
	}
	c.Coq = fmt.Sprintf("CMesh %s %s %s %s %s %s", hx.CoqListNat(d.Idx), pos, exactNormals(d.Normals), vecsCoq(fns), hx.CoqListN(out), rm)
	c.Nontriv = nt >= 1
	c.Key = fmt.Sprintf("m|%v|%v|%v|%s", d.Idx, d.Pos, d.Normals, d.Via)
	return c
}

// headerTexts: the 80 header bytes of a binary STL are free-form; exporters put text there.  Each entry is padded
// to 80 bytes with the given filler (or cut to 80).  Everything an ASCII-STL sniffer or a C-string routine could key
// on: the ASCII keywords in any case, leading blanks, NULs, 8-bit bytes, all-one-value headers.
var headerTexts = []struct {
	text string
	fill byte
}{
	{"solid", 0}, {"solid ", ' '}, {"solid part1", 0}, {"solid Exported from CAD 1.2 (binary)", ' '},
	{"SOLID", 0}, {"Solid model", ' '}, {"solidworks binary stl", 0}, {" solid x", ' '}, {"\t\tsolid", 0},
	{"\r\n solid name\n", ' '}, {"\nsolid\nfacet normal 0 0 1\nouter loop\nvertex 0 0 0\n", ' '}, {"   ", ' '},
	{"facet normal 0 0 0", 0}, {"endsolid", 0}, {"endsolid name", ' '}, {"binary stl; not solid", 0}, {"xsolid", 0},
	{"soli", 0}, {"s\x00olid", 0}, {"solid\x00\x00\x00after nul", 0}, {"\x00solid", 0}, {"COLOR=\xff\x80\x00\xff,MATERIAL=\x01\x02\x03\x04", 0},
	{"Teil \u00e4\u00f6\u00fc \u2014 \u7acb\u4f53 solid", ' '}, {"\u00a0solid", 0}, {"\xef\xbb\xbfsolid", 0}, {"", 0xFF}, {"", ' '}, {"", '\n'},
	{"", 's'}, {"STLB ATF 2.0.0.9000 COLOR=\xa0\xa0\xa0\xff", ' '}, {"ply\nformat binary_little_endian 1.0", 0}, {"#!/bin/sh", 0},
	{"solid " + "0123456789012345678901234567890123456789012345678901234567890123456789ABCDEFGHIJ", 0},
}

func headerOf(i int) [80]byte {
	var h [80]byte
	e := headerTexts[i%len(headerTexts)]
	for j := range h {
		h[j] = e.fill
	}
	copy(h[:], e.text)
	return h
}

func genHeader(r *hx.Rng, h []byte) string {
	switch r.Intn(4) {
	case 0:
		for i := range h {
			h[i] = byte(r.Intn(256))
		}
		return "random"
	case 1:
		// printable text, random words from the ASCII-STL vocabulary, random blanks in front
		words := []string{"solid", "SOLID", "facet", "normal", "outer", "loop", "vertex", "endloop", "endfacet", "endsolid", "binary", "STL", "part", "0", "1.5e-3", "\u00e9"}
		t := ""
		for k := r.Intn(4); k > 0; k-- {
			t += string(" \t\r\n"[r.Intn(4)])
		}
		for len(t) < 80 && !r.Chance(1, 8) {
			t += words[r.Intn(len(words))] + string(" \n\x00"[r.Intn(3)])
		}
		fill := []byte{0, ' ', 0xFF}[r.Intn(3)]
		for i := range h {
			h[i] = fill
		}
		copy(h, t)
		return "text"
	default:
		hh := headerOf(r.Intn(len(headerTexts)))
		copy(h, hh[:])
		return "template"
	}
}

func genBytes(r *hx.Rng) []byte {
	nt := r.Range(0, 8)
	b := make([]byte, 84+50*nt)
	genHeader(r, b[:80])
	binary.LittleEndian.PutUint32(b[80:], uint32(nt))
	for t := 0; t < nt; t++ {
		off := 84 + 50*t
		for k := 0; k < 12; k++ {
			var w uint32
			switch r.Intn(7) {
			case 0:
				w = uint32(r.U64()) // arbitrary pattern, NaNs included
			case 6:
				// special values: signalling NaN (encoding/binary quiets it: finding F1), quiet NaN with payload,
				// infinities, subnormal, largest finite
				w = []uint32{0x7F800001 | uint32(r.Intn(1<<22)), 0xFF800001 | uint32(r.Intn(1<<22)), 0x7FC00000 | uint32(r.Intn(1<<22)),
					0x7F800000, 0xFF800000, uint32(1 + r.Intn(1<<22)), 0x7F7FFFFF}[r.Intn(7)]
			case 1:
				w = 0
			case 2:
				w = 0x80000000
			default:
				w = math.Float32bits(float32(genFloat(r)))
			}
			if k < 3 && r.Chance(1, 3) {
				w = 0 // zero stored normal component: makes all-zero normals likely enough
			}
			binary.LittleEndian.PutUint32(b[off+4*k:], w)
		}
		switch r.Intn(6) {
		case 0, 1, 2:
			// force an all-zero normal (flat-normal path)
			for k := 0; k < 12; k++ {
				b[off+k] = 0
			}
		case 3:
			// stored normals a sloppy "is it zero?" test gets wrong: components that cancel, tiny and subnormal
			// lengths, mixed +-0 (that IS zero), a NaN / an infinity among zeros, huge components
			f := func(x float32) uint32 { return math.Float32bits(x) }
			pool := [][3]uint32{{f(1), f(-1), 0}, {f(-2), f(1), f(1)}, {f(1e-20), 0, 0}, {0, 1, 0}, {0, 0, 0x80000001}, {0x80000000, 0, 0x80000000},
				{0, 0x80000000, 0}, {0x7FC00000, 0, 0}, {0, 0x7F800000, 0}, {f(3e38), f(3e38), f(-3e38)}, {0, f(1e-30), f(-1e-30)}, {f(0.5), f(0.5), f(-1)},
				{0, 0, f(1e-10)}, {0x00800000, 0, 0}}
			nv := pool[r.Intn(len(pool))]
			for k := 0; k < 3; k++ {
				binary.LittleEndian.PutUint32(b[off+4*k:], nv[k])
			}
		}
		binary.LittleEndian.PutUint16(b[off+48:], uint16(r.Intn(65536)))
	}
	return b
}

// decoyCalls runs the four entry points on unrelated data.  It is called between obtaining a result (stl.Read's
// *Binary, stl.ReadMesh's mesh) and looking at it: a result that shares memory with package-level state (pooled
// or reused buffers) changes under it.
var decoyFile = synthFile(bigFileDesc{N: 7, Seed: 4242})
var decoyMesh = func() modeling.Mesh {
	idx := make([]int, 21)
	pos := make([]vector3.Float64, 21)
	nr := make([]vector3.Float64, 21)
	for j := range idx {
		idx[j] = j
		pos[j] = vector3.New(float64(j)+0.25, -float64(j), 1000+float64(j))
		nr[j] = vector3.New(1, float64(j%3), -2)
	}
	return modeling.NewTriangleMesh(idx).SetFloat3Attribute(modeling.PositionAttribute, pos).SetFloat3Attribute(modeling.NormalAttribute, nr)
}()

func decoyCalls() {
	defer func() { recover() }()
	if b, err := stl.Read(bytes.NewReader(decoyFile)); err == nil {
		stl.Write(io.Discard, *b)
	}
	stl.ReadMesh(bytes.NewReader(decoyFile))
	stl.WriteMesh(io.Discard, decoyMesh)
}

func bytesCase(in []byte) hx.Case { return bytesCaseVia(in, readerSpec{}) }

// bytesCaseVia: stl.Read through the reader of the spec, then stl.Write.  The case is judged on the effective input:
// the whole byte string, or the prefix a failing reader delivered before its error.
func bytesCaseVia(in []byte, rs readerSpec) hx.Case {
	c := hx.Case{Kind: "bytes", Desc: bytesDesc{Hex: hex.EncodeToString(in), readerSpec: rs}}
	out := "None"
	rd, delivered, done, _ := openReader(rs, in)
	var bin *stl.Binary
	var err error
	func() {
		defer func() {
			if rec := recover(); rec != nil {
				err = fmt.Errorf("panic: %v", rec)
			}
		}()
		bin, err = stl.Read(rd)
	}()
	done()
	eff := effectiveInput(rs, in, delivered())
	decoyCalls()
	if err == nil {
		var buf bytes.Buffer
		if err := stl.Write(&buf, *bin); err == nil {
			out = "(Some " + hx.CoqListN(buf.Bytes()) + ")"
		}
	}
	c.Coq = fmt.Sprintf("CBytes %s %s", hx.CoqListN(eff), out)
	c.Nontriv = len(in) > 84
	c.Key = "b|" + hex.EncodeToString(in) + rs.key()
	return c
}

func readCase(in []byte) hx.Case { return readCaseVia(in, readerSpec{}) }

// readCaseVia: stl.ReadMesh through the reader of the spec (kind "file": stl.Load on the file).
func readCaseVia(in []byte, rs readerSpec) hx.Case {
	c := hx.Case{Kind: "readmesh", Desc: bytesDesc{Hex: hex.EncodeToString(in), readerSpec: rs}}
	rd, delivered, done, path := openReader(rs, in)
	load := func() (*modeling.Mesh, error) { return stl.ReadMesh(rd) }
	if path != "" {
		load = func() (*modeling.Mesh, error) { return stl.Load(path) }
	}
	rm, fail := readMeshCoqFrom(in, load)
	done()
	eff := in
	if path == "" {
		eff = effectiveInput(rs, in, delivered())
	}
	if fail != "" {
		c.GoFail, c.FailKey = fail, "stl:read-normal-value"
	}
	c.Coq = fmt.Sprintf("CRead %s %s", hx.CoqListN(eff), rm)
	c.Nontriv = len(in) > 84
	c.Key = "r|" + hex.EncodeToString(in) + rs.key()
	return c
}

// ---------------------------------------------------------------------------------------------
// Large inputs.  A case carries only the parameters; Check/C07.v derives the same records from them
// (synth_word, synth_tri, synth_hdr, synth_extra, idxf, axis) and compares order-sensitive fingerprints.

const fpMask = 1<<63 - 1

type fpState struct{ h1, h2 uint64 }

func (f *fpState) add(x uint64) {
	f.h1 = (f.h1*1000003 + x + 1) & fpMask
	f.h2 = (f.h2*998244353 + x + 1) & fpMask
}
func (f *fpState) bytes(b []byte) {
	for _, x := range b {
		f.add(uint64(x))
	}
}
func (f fpState) coq() string { return fmt.Sprintf("(%d,%d)%%Z", f.h1, f.h2) }
func fpBytes(b []byte) fpState {
	var f fpState
	f.bytes(b)
	return f
}

func synthWord(seed, i, k uint64) uint32 {
	v := 13*i + k + seed
	mant := (5*v + v<<9 + (v&127)<<16) & 0x7FFFFF
	ex := 120 + (v+v>>5)&15
	sg := (v >> 2) & 1
	return uint32(sg<<31 + ex<<23 + mant)
}
func synthVec(seed, v uint64) [3]uint32 {
	return [3]uint32{synthWord(seed, v, 0), synthWord(seed, v, 1), synthWord(seed, v, 2)}
}

type bigFileDesc struct {
	N     int    `json:"n"`
	Seed  uint64 `json:"seed"`
	ZN    bool   `json:"zero_normals"`
	Extra int    `json:"trailing_bytes"`
	Cut   int    `json:"cut_bytes"`
	Note  string `json:"note"`
	readerSpec
}

// synthFile: independent encoder of the synthetic file (header, count, 50-byte records, trailing bytes).
func synthFile(d bigFileDesc) []byte {
	b := make([]byte, 84+50*d.N+d.Extra)
	for j := 0; j < 80; j++ {
		b[j] = byte((uint64(j)*11 + d.Seed) & 255)
	}
	binary.LittleEndian.PutUint32(b[80:], uint32(d.N))
	for i := 0; i < d.N; i++ {
		off := 84 + 50*i
		var w [12]uint32
		for c := 0; c < 4; c++ {
			v := synthVec(d.Seed, uint64(4*i+c))
			copy(w[3*c:], v[:])
		}
		if d.ZN {
			if i%2 == 0 {
				w[0], w[1], w[2] = 0, 0, 0
			} else {
				w[0], w[1], w[2] = 0x80000000, 0, 0x80000000
			}
		}
		for k, x := range w {
			binary.LittleEndian.PutUint32(b[off+4*k:], x)
		}
		binary.LittleEndian.PutUint16(b[off+48:], uint16((7*uint64(i)+d.Seed)&0xFFFF))
	}
	for j := 0; j < d.Extra; j++ {
		b[84+50*d.N+j] = byte((uint64(j)*37 + d.Seed) & 255)
	}
	return b
}

// bigMeshObs: what stl.ReadMesh returned, as a Check.C07 bigmesh (counts + fingerprints).
func bigMeshObs(data []byte) (string, string) {
	return bigMeshObsFrom(func() (*modeling.Mesh, error) { return stl.ReadMesh(bytes.NewReader(data)) })
}

func bigMeshObsFrom(load func() (*modeling.Mesh, error)) (string, string) {
	var m *modeling.Mesh
	var err error
	func() {
		defer func() {
			if rec := recover(); rec != nil {
				err = fmt.Errorf("panic: %v", rec)
			}
		}()
		m, err = load()
	}()
	decoyCalls()
	if err != nil {
		return "None", ""
	}
	fail := ""
	var fi, fpz, fn fpState
	idx := m.Indices()
	for i := 0; i < idx.Len(); i++ {
		fi.add(uint64(idx.At(i)))
	}
	words := func(attr string, f *fpState) {
		p := m.Float3Attribute(attr)
		for i := 0; i < p.Len(); i++ {
			v := p.At(i)
			for _, x := range []float64{v.X(), v.Y(), v.Z()} {
				if float64(float32(x)) != x && !math.IsNaN(x) {
					fail = attr + " component is not a float32 value"
				}
				f.add(uint64(f32bits(x)))
			}
		}
	}
	if m.HasFloat3Attribute(modeling.PositionAttribute) {
		words(modeling.PositionAttribute, &fpz)
	}
	nrm := "None"
	if m.HasFloat3Attribute(modeling.NormalAttribute) {
		words(modeling.NormalAttribute, &fn)
		nrm = "(Some " + fn.coq() + ")"
	}
	return fmt.Sprintf("(Some {| b_nverts := %d; b_nidx := %d; b_idx_fp := %s; b_pos_fp := %s; b_nrm_fp := %s |})",
		m.AttributeLength(), idx.Len(), fi.coq(), fpz.coq(), nrm), fail
}

func bigFileCase(d bigFileDesc) hx.Case {
	c := hx.Case{Kind: "bigfile", Desc: d}
	full := synthFile(d)
	inFp := fpBytes(full)
	in := full
	if d.Cut > 0 && d.Cut <= len(full) {
		in = full[:len(full)-d.Cut]
	}
	rd, wr := "None", "None"
	var bin *stl.Binary
	var err error
	rdr, delivered, done, _ := openReader(d.readerSpec, in)
	func() {
		defer func() {
			if rec := recover(); rec != nil {
				err = fmt.Errorf("panic: %v", rec)
			}
		}()
		bin, err = stl.Read(rdr)
	}()
	done()
	decoyCalls()
	// a failing reader: the effective input is the prefix it delivered (a cut file)
	cut := d.Cut
	if eff := effectiveInput(d.readerSpec, in, delivered()); len(eff) < len(in) {
		cut += len(in) - len(eff)
	}
	if err == nil {
		var f fpState
		f.bytes(bin.Header[:])
		for _, t := range bin.Triangles {
			for _, v := range []stl.Vec{t.Normal, t.Vertex1, t.Vertex2, t.Vertex3} {
				f.add(uint64(math.Float32bits(v.X)))
				f.add(uint64(math.Float32bits(v.Y)))
				f.add(uint64(math.Float32bits(v.Z)))
			}
			f.add(uint64(t.Attribute))
		}
		rd = fmt.Sprintf("(Some (%d, %s))", len(bin.Triangles), f.coq())
		var buf bytes.Buffer
		if err := stl.Write(&buf, *bin); err == nil {
			wr = fmt.Sprintf("(Some (%d, %s))", buf.Len(), fpBytes(buf.Bytes()).coq())
		}
	}
	rdr2, _, done2, path := openReader(d.readerSpec, in)
	load := func() (*modeling.Mesh, error) { return stl.ReadMesh(rdr2) }
	if path != "" {
		load = func() (*modeling.Mesh, error) { return stl.Load(path) }
	}
	rm, fail := bigMeshObsFrom(load)
	done2()
	if fail != "" {
		c.GoFail, c.FailKey = fail, "stl:read-float32"
	}
	c.Coq = fmt.Sprintf("CBigFile %d %d %s %d %d %s %s %s %s", d.N, d.Seed, hx.CoqBool(d.ZN), d.Extra, cut, inFp.coq(), rd, wr, rm)
	c.Nontriv = d.N >= 1
	c.Key = fmt.Sprintf("bf|%d|%d|%v|%d|%d%s", d.N, d.Seed, d.ZN, d.Extra, d.Cut, d.readerSpec.key())
	return c
}

type bigMeshDesc struct {
	N    int    `json:"n"`    // triangles
	NV   int    `json:"nv"`   // vertices
	A    int    `json:"a"`    // index j = (a*j + b*(j/3) + c) mod nv
	B    int    `json:"b"`
	C    int    `json:"c"`
	Part int    `json:"part"` // 0..2 further indices after the last whole triangle
	Seed uint64 `json:"seed"`
	NDir int    `json:"ndir"` // -1: no Normal attribute; 0..5: vertex normals along +x,-x,+y,-y,+z,-z: vnum(v) * 2^(seed mod 3)
	Note string `json:"note"`
	Via  string `json:"via,omitempty"` // "file": stl.Save / stl.Load
}

// vnum mirrors Check/C07.v vnum: signed odd magnitude of the normal of vertex v (the sum of three odd numbers is
// never zero, so every facet normal is exactly + or - the axis and changes from triangle to triangle).
func vnum(seed uint64, v int) float64 {
	uv := uint64(v)
	mag := float64(2*((uv/3+seed)&3) + 1)
	h := uv%7 + 2*(uv%11) + uv/1000 + seed
	if h&1 == 0 {
		return mag
	}
	return -mag
}

func bigMeshCase(d bigMeshDesc) hx.Case {
	c := hx.Case{Kind: "bigmesh", Desc: d}
	idx := make([]int, 3*d.N+d.Part)
	for j := range idx {
		idx[j] = (d.A*j + d.B*(j/3) + d.C) % d.NV
	}
	m := modeling.NewTriangleMesh(idx)
	pos := make([]vector3.Float64, d.NV)
	for v := range pos {
		pos[v] = w2v(synthVec(d.Seed, uint64(v)))
	}
	m = m.SetFloat3Attribute(modeling.PositionAttribute, pos)
	if d.NDir >= 0 {
		s := float64(int(1) << (d.Seed % 3))
		if d.NDir%2 == 1 {
			s = -s
		}
		nr := make([]vector3.Float64, d.NV)
		for v := range nr {
			var b [3]float64 // the other two components stay +0 (0 * negative would be -0)
			b[d.NDir/2] = s * vnum(d.Seed, v)
			nr[v] = vector3.New(b[0], b[1], b[2])
		}
		m = m.SetFloat3Attribute(modeling.NormalAttribute, nr)
	}
	var buf bytes.Buffer
	var werr error
	savePath := ""
	func() {
		defer func() {
			if rec := recover(); rec != nil {
				werr = fmt.Errorf("panic: %v", rec)
			}
		}()
		if d.Via == "file" {
			savePath = tmpFile("bigmesh.stl")
			os.Remove(savePath)
			if werr = stl.Save(savePath, m); werr == nil {
				var b []byte
				b, werr = os.ReadFile(savePath)
				buf.Write(b)
			}
		} else {
			werr = stl.WriteMesh(&buf, m)
		}
	}()
	wr, rm := "None", "None"
	if werr == nil {
		wr = fmt.Sprintf("(Some (%d, %s))", buf.Len(), fpBytes(buf.Bytes()).coq())
		var fail string
		if savePath != "" {
			rm, fail = bigMeshObsFrom(func() (*modeling.Mesh, error) { return stl.Load(savePath) })
		} else {
			rm, fail = bigMeshObs(buf.Bytes())
		}
		if fail != "" {
			c.GoFail, c.FailKey = fail, "stl:read-float32"
		}
	}
	nd := "None"
	if d.NDir >= 0 {
		nd = fmt.Sprintf("(Some %d)", d.NDir)
	}
	c.Coq = fmt.Sprintf("CBigMesh %d %d %d %d %d %d %d %s %s %s", d.N, d.NV, d.A, d.B, d.C, d.Part, d.Seed, nd, wr, rm)
	c.Nontriv = d.N >= 1
	c.Key = fmt.Sprintf("bm|%d|%d|%d|%d|%d|%d|%d|%d|%s", d.N, d.NV, d.A, d.B, d.C, d.Part, d.Seed, d.NDir, d.Via)
	return c
}

// boundaryCounts: record counts at and around the reader's chunk size, its multiples and powers of two.
func boundaryCounts(max int) []int {
	set := map[int]bool{}
	for p := 64; p <= max; p *= 2 {
		for _, d := range []int{-1, 0, 1} {
			set[p+d] = true
		}
	}
	for c := 4096; c <= max+1; c += 4096 {
		for _, d := range []int{-1, 0, 1} {
			set[c+d] = true
		}
	}
	var out []int
	for n := range set {
		if n <= max+1 {
			out = append(out, n)
		}
	}
	sort.Ints(out)
	return out
}

// ladderMesh: the large-mesh shapes of the size ladder.  Every shape has per-vertex distinct positions and normals
// that change from triangle to triangle (vnum), so a record taken from the wrong triangle, or left empty, shows.
func ladderMesh(r *hx.Rng, n, shape int, seed uint64) bigMeshDesc {
	d := bigMeshDesc{N: n, Seed: seed, NDir: r.Intn(6), Part: r.Intn(3)}
	if r.Chance(1, 5) && n > 5000 {
		d.NDir = -1 // no Normal attribute
	}
	switch shape % 4 {
	case 0:
		d.NV, d.A, d.Note = 3*n+d.Part, 1, "ladder: unwelded identity"
	case 1:
		// triangle t uses vertices t, t+1, t+2: a strip, every vertex shared by three triangles
		d.NV, d.A, d.B, d.Note = n+2, 1, n, "ladder: welded strip"
	case 2:
		d.NV, d.A, d.C, d.Note = 3*n+d.Part, 3*n+d.Part-1, 3*n+d.Part-1, "ladder: unwelded, reversed (as many indices as vertices)"
	default:
		d.NV, d.A, d.B, d.C, d.Note = n, 1+r.Intn(7), r.Intn(3), r.Intn(n), "ladder: welded, as many vertices as triangles"
	}
	return d
}

// bigCases: the size ladder.  Internal limits of the code (the reader's 4096-record chunk today, batch sizes,
// parallel thresholds, per-CPU ranges tomorrow) sit at powers of two and at multiples of the CPU count: meshes and
// files with 2^12 ... 2^17 triangles (each -1 / 0 / +1) and NumCPU multiples +-1 are walked, welded and unwelded
// alternating, one reader kind per rung.  quick: one mesh and one file per rung up to 2^15 (at the rung or one above)
// plus the chunk-boundary trio; thorough: all three neighbours up to 2^15, one each for 2^16 and 2^17, NumCPU rungs.
func bigCases(run *hx.Run, r *hx.Rng) []hx.Case {
	var out []hx.Case
	thorough := run.Tier == "thorough"
	file := func(d bigFileDesc) {
		run.Count("bigfile:n=" + bucket(d.N))
		if d.Extra > 0 {
			run.Count("bigfile:trailing-bytes")
		}
		if d.Cut > 0 {
			run.Count("bigfile:cut-short")
		}
		if d.Kind != "" {
			run.Count("reader-big:" + d.Kind)
		}
		out = append(out, bigFileCase(d))
	}
	mesh := func(d bigMeshDesc) {
		run.Count("bigmesh:n=" + bucket(d.N))
		out = append(out, bigMeshCase(d))
	}
	seed := func() uint64 { return uint64(r.Intn(60000)) }
	rs := func(k string) readerSpec {
		return readerSpec{Kind: k, RSeed: uint64(r.Intn(1 << 20))}
	}
	// the reader's chunk size and its neighbours (the model itself is executed on these: n <= exec_limit)
	file(bigFileDesc{N: 4095, Seed: seed(), Note: "chunk boundary"})
	file(bigFileDesc{N: 4096, Seed: seed(), Extra: 1 + r.Intn(60), Note: "chunk boundary, trailing bytes"})
	file(bigFileDesc{N: 4097, Seed: seed(), Cut: 1 + r.Intn(49), Note: "chunk boundary, last record cut short"})
	if thorough {
		file(bigFileDesc{N: 4096, Seed: seed(), Note: "chunk boundary"})
		file(bigFileDesc{N: 4097, Seed: seed(), ZN: true, Note: "chunk boundary, zero normals"})
	}
	kinds := append([]string{}, wholeReaders...)
	kp := r.Perm(len(kinds))
	shape0 := r.Intn(4)
	rung := 0
	step := func(n int, via bool) {
		m := ladderMesh(r, n, shape0+rung, seed())
		if via {
			m.Via = "file"
		}
		mesh(m)
		f := bigFileDesc{N: n, Seed: seed(), ZN: r.Chance(1, 5), Note: "ladder", readerSpec: rs(kinds[kp[rung%len(kinds)]])}
		if rung == 0 && !thorough {
			f.readerSpec = rs("half") // one rung's file is within exec_limit: the model runs on it
		}
		file(f)
		rung++
	}
	run.Extra["num_cpu"] = runtime.NumCPU()
	for e := 12; e <= 15; e++ {
		p := 1 << e
		if thorough {
			for _, d := range []int{-1, 0, 1} {
				step(p+d, false)
			}
		} else {
			step(p+r.Intn(2), e == 13)
		}
	}
	if thorough {
		step(1<<16+r.Range(-1, 1), true)
		step(1<<17+r.Range(-1, 1), false)
		// contiguous per-CPU ranges: sizes that are a multiple of the CPU count, one below and one above
		c := runtime.NumCPU()
		for _, k := range []int{5000 / c, 20000 / c, 40000 / c} {
			for _, d := range []int{-1, 0, 1} {
				step(k*c+d, false)
			}
		}
		// failing readers far into a large file, trailing bytes, random counts, all reader kinds around one chunk
		for _, k := range wholeReaders {
			file(bigFileDesc{N: 4097 + r.Intn(100), Seed: seed(), Note: "reader grid, beyond one chunk", readerSpec: rs(k)})
		}
		for i := 0; i < 12; i++ {
			d := bigFileDesc{N: 4097 + r.Intn(16000), Seed: seed(), ZN: r.Chance(1, 4), Note: "random count beyond one chunk"}
			switch r.Intn(4) {
			case 0:
				d.Extra = 1 + r.Intn(120)
			case 1:
				d.Cut = 1 + r.Intn(50*d.N)
			}
			file(d)
		}
		for i := 0; i < 12; i++ {
			mesh(ladderMesh(r, 4097+r.Intn(16000), r.Intn(4), seed()))
		}
		mesh(bigMeshDesc{N: 4097, NV: 61, A: 7, B: 1, C: 3, Part: r.Intn(3), Seed: seed(), NDir: r.Range(-1, 5), Note: "welded over few vertices"})
		mesh(bigMeshDesc{N: 5000, NV: 15000, A: 1, Seed: seed(), NDir: -1, Note: "unwelded, no normals"})
	} else {
	}
	file(bigFileDesc{N: 4201 + r.Intn(100), Seed: seed(), Note: "reader fails inside the second chunk",
		readerSpec: readerSpec{Kind: "errafter", RSeed: uint64(r.Intn(1 << 20)), FailAt: 84 + 50*4096 + r.Intn(50)}})
	return out
}

func bucket(n int) string {
	switch {
	case n <= 4096:
		return "..4096"
	case n <= 8192:
		return "4097..8192"
	case n <= 12288:
		return "8193..12288"
	default:
		return "12289.."
	}
}

func main() {
	defer cleanupTmp()
	run := hx.ParseFlags("C07", "Check.C07")
	for _, in := range run.Inputs() {
		switch in.Kind {
		case "mesh":
			var md meshDesc
			json.Unmarshal(in.Raw, &md)
			run.Add(meshCase(md))
		case "readmesh", "bytes":
			var bd bytesDesc
			json.Unmarshal(in.Raw, &bd)
			b, _ := hex.DecodeString(bd.Hex)
			if in.Kind == "readmesh" {
				run.Add(readCaseVia(b, bd.readerSpec))
			} else {
				run.Add(bytesCaseVia(b, bd.readerSpec))
			}
		case "writefail":
			var d writeFailDesc
			json.Unmarshal(in.Raw, &d)
			run.Add(writeFailCase(d))
		case "bigfile":
			var d bigFileDesc
			json.Unmarshal(in.Raw, &d)
			run.Add(bigFileCase(d))
		case "bigmesh":
			var d bigMeshDesc
			json.Unmarshal(in.Raw, &d)
			run.Add(bigMeshCase(d))
		}
	}
	if run.Replay != "" {
		run.Finish()
		return
	}
	r := hx.NewRng(run.Seed)
	var small []hx.Case
	// fixed corner cases first
	small = append(small, meshCase(meshDesc{Idx: []int{}}))
	small = append(small, meshCase(meshDesc{Idx: []int{0, 1, 2, 2, 1, 3}, Pos: [][3]float64{{0, 0, 0}, {1, 0, 0}, {0, 1, 0}, {1, 1, 0}}}))
	small = append(small, bytesCase(make([]byte, 84)))
	{
		// a count field far beyond the bytes present: must be rejected (and must not allocate for the count)
		b := make([]byte, 84+120)
		binary.LittleEndian.PutUint32(b[80:], 0xFFFFFFFF)
		small = append(small, readCase(b), bytesCase(b))
		small = append(small, readCase(make([]byte, 83)), readCase(nil))
	}
	// systematic header stream: every header template on a complete two-record file (one stored normal, one zero
	// normal) through Read/Write and ReadMesh, and on an empty file through Read/Write
	for i := range headerTexts {
		h := headerOf(i)
		b := synthFile(bigFileDesc{N: 2, Seed: uint64(i)})
		copy(b, h[:])
		for k := 84; k < 96; k++ {
			b[k] = 0
		}
		e := make([]byte, 84)
		copy(e, h[:])
		run.Count("header-stream")
		small = append(small, bytesCase(b), readCase(b), bytesCase(e))
	}
	for _, d := range shapeDescs() {
		run.Count("shape-stream")
		if len(d.Idx) == len(d.Pos) {
			run.Count("shape-stream:indices=vertices")
		}
		if len(d.Idx) == 3*len(d.Pos) {
			run.Count("shape-stream:indices=3*vertices")
		}
		if len(d.Idx)/3 == len(d.Pos) {
			run.Count("shape-stream:vertices=triangles")
		}
		small = append(small, meshCase(d))
	}
	for i, d := range shapeDescs() {
		if i%14 == 3 { // the same shapes through stl.Save / stl.Load on a file
			d.Via = "file"
			run.Count("shape-stream:via-save-load")
			small = append(small, meshCase(d))
		}
	}
	for i := 0; i < run.N; i++ {
		switch i % 4 {
		case 0, 1:
			d, shape, nmode := genMesh(r)
			c := meshCase(d)
			if d.Normals != nil {
				run.Count("mesh:with-normals")
				run.Count("mesh:normals=" + nmode)
			}
			if d.Via != "" {
				run.Count("mesh:via-save-load")
			}
			if d.Pos == nil {
				run.Count("mesh:no-position")
			}
			run.Count("mesh:shape=" + shape)
			run.Count(fmt.Sprintf("mesh:tris=%d", len(d.Idx)/3))
			small = append(small, c)
		case 2:
			b := genBytes(r)
			switch r.Intn(10) {
			case 0:
				for k := r.Range(1, 60); k > 0; k-- {
					b = append(b, byte(r.Intn(256))) // not well-formed: trailing bytes (the reader ignores them)
				}
				run.Count("bytes:trailing")
			case 1:
				if len(b) > 84 {
					b = b[:84+r.Intn(len(b)-84)]
					run.Count("bytes:truncated")
				}
			}
			rs := pickReader(r, len(b))
			run.Count("bytes:reader=" + rs.Kind + ".")
			small = append(small, bytesCaseVia(b, rs))
		case 3:
			b := genBytes(r)
			switch r.Intn(10) {
			case 0:
				if len(b) > 84 {
					b = b[:84+r.Intn(len(b)-84)] // malformed stream: truncated
					run.Count("readmesh:truncated")
				}
			case 1:
				for k := r.Range(1, 60); k > 0; k-- {
					b = append(b, byte(r.Intn(256)))
				}
				run.Count("readmesh:trailing")
			}
			rs := pickReader(r, len(b))
			run.Count("readmesh:reader=" + rs.Kind + ".")
			small = append(small, readCaseVia(b, rs))
		}
	}
	// spread the large (expensive to evaluate) cases evenly over the run: hx cuts the case list into
	// consecutive shards, one coqc each
	big := bigCases(run, r)
	// the reader / writer grid: only its expensive members (hundreds of records and more) are spread like the large
	// cases, the cheap ones join the small stream
	for _, c := range ioCases(run, r) {
		heavy := false
		switch d := c.Desc.(type) {
		case bigFileDesc:
			heavy = d.N >= 500
		case bigMeshDesc:
			heavy = d.N >= 500
		}
		if heavy {
			big = append(big, c)
		} else {
			small = append(small, c)
		}
	}
	every := len(small)/len(big) + 1
	bi := 0
	for i, c := range small {
		if i%every == every/2 && bi < len(big) {
			run.Add(big[bi])
			bi++
		}
		run.Add(c)
	}
	for ; bi < len(big); bi++ {
		run.Add(big[bi])
	}
	run.Finish()
}
