// C07 harness: binary STL.  Runs formats/stl on generated meshes and byte strings and writes the
// observations as Coq cases for Check/C07.v (model comparison + direct oracle).
package main

import (
	"bytes"
	"encoding/binary"
	"encoding/hex"
	"encoding/json"
	"fmt"
	"math"

	"verif/harness/hx"

	"github.com/EliCDavis/polyform/formats/stl"
	"github.com/EliCDavis/polyform/modeling"
	"github.com/EliCDavis/vector/vector3"
)

type meshDesc struct {
	Idx     []int        `json:"idx"`
	Pos     [][3]float64 `json:"pos"`     // nil: no Position attribute
	Normals [][3]float64 `json:"normals"` // nil: no Normal attribute
}
type bytesDesc struct {
	Hex string `json:"hex"`
}

func f32bits(x float64) uint32  { return math.Float32bits(float32(x)) }
func vecCoq(v [3]uint32) string { return fmt.Sprintf("(%d,%d,%d)", v[0], v[1], v[2]) }
func vecsCoq(vs [][3]uint32) string {
	items := make([]string, len(vs))
	for i, v := range vs {
		items[i] = vecCoq(v)
	}
	return "[" + join(items) + "]"
}
func join(items []string) string {
	var b bytes.Buffer
	for i, s := range items {
		if i > 0 {
			b.WriteByte(';')
		}
		b.WriteString(s)
	}
	return b.String()
}

func genFloat(r *hx.Rng) float64 {
	switch r.Intn(7) {
	case 0:
		return float64(r.Range(-5, 5))
	case 1:
		return float64(r.Range(-1000, 1000)) / 10 // not float32-representable in general
	case 2:
		return (r.Float() - 0.5) * 1e6
	case 3:
		return (r.Float() - 0.5) * 1e-6
	case 4:
		return 0
	case 5:
		return math.Copysign(0, -1)
	default:
		return r.Float()*2 - 1
	}
}

func genMesh(r *hx.Rng) meshDesc {
	var d meshDesc
	nv := r.Range(0, 12)
	nt := r.Range(0, 10)
	if nv == 0 {
		nt = 0
	}
	welded := r.Chance(2, 3)
	if !welded {
		nv = nt * 3
	}
	d.Idx = make([]int, nt*3)
	for i := range d.Idx {
		if welded {
			d.Idx[i] = r.Intn(nv)
		} else {
			d.Idx[i] = i
		}
	}
	if r.Chance(1, 10) && nt > 0 {
		d.Idx = append(d.Idx, r.Intn(nv)) // trailing partial triangle: PrimitiveCount rounds down
	}
	if !r.Chance(1, 12) && nv > 0 {
		d.Pos = make([][3]float64, nv)
		for i := range d.Pos {
			d.Pos[i] = [3]float64{genFloat(r), genFloat(r), genFloat(r)}
		}
	}
	if r.Chance(1, 2) && d.Pos != nil {
		d.Normals = make([][3]float64, nv)
		for i := range d.Normals {
			// keep every normal in the half space z>0 so the mean never cancels to zero
			d.Normals[i] = [3]float64{r.Float()*2 - 1, r.Float()*2 - 1, 0.25 + r.Float()}
		}
	}
	return d
}

func buildMesh(d meshDesc) modeling.Mesh {
	m := modeling.NewTriangleMesh(d.Idx)
	if d.Pos != nil {
		p := make([]vector3.Float64, len(d.Pos))
		for i, v := range d.Pos {
			p[i] = vector3.New(v[0], v[1], v[2])
		}
		m = m.SetFloat3Attribute(modeling.PositionAttribute, p)
	}
	if d.Normals != nil {
		p := make([]vector3.Float64, len(d.Normals))
		for i, v := range d.Normals {
			p[i] = vector3.New(v[0], v[1], v[2])
		}
		m = m.SetFloat3Attribute(modeling.NormalAttribute, p)
	}
	return m
}

func closeF32(a, b float32, tol float64) bool {
	fa, fb := float64(a), float64(b)
	if math.IsNaN(fa) && math.IsNaN(fb) {
		return true
	}
	return math.Abs(fa-fb) <= tol*(1+math.Abs(fb))
}

// recordNormals extracts the stored facet normal words from STL bytes with an independent parse.
func recordNormals(b []byte) [][3]uint32 {
	var out [][3]uint32
	for off := 84; off+50 <= len(b); off += 50 {
		out = append(out, [3]uint32{binary.LittleEndian.Uint32(b[off:]), binary.LittleEndian.Uint32(b[off+4:]), binary.LittleEndian.Uint32(b[off+8:])})
	}
	return out
}

func isZeroWord(w uint32) bool { return w == 0 || w == 0x80000000 }

// readMeshCoq renders what stl.ReadMesh returned as a Check.C07 rmesh; flat normals are checked here
// (float arithmetic) and rendered as Flat.
func readMeshCoq(data []byte) (string, string) {
	fail := ""
	var m *modeling.Mesh
	var err error
	func() {
		defer func() {
			if rec := recover(); rec != nil {
				err = fmt.Errorf("panic: %v", rec)
			}
		}()
		m, err = stl.ReadMesh(bytes.NewReader(data))
	}()
	if err != nil {
		return "None", fail
	}
	nv := m.AttributeLength()
	idx := m.Indices()
	ix := make([]int, idx.Len())
	for i := range ix {
		ix[i] = idx.At(i)
	}
	pos := [][3]uint32{}
	if m.HasFloat3Attribute(modeling.PositionAttribute) {
		p := m.Float3Attribute(modeling.PositionAttribute)
		for i := 0; i < p.Len(); i++ {
			v := p.At(i)
			pos = append(pos, [3]uint32{f32bits(v.X()), f32bits(v.Y()), f32bits(v.Z())})
			if float64(float32(v.X())) != v.X() && !math.IsNaN(v.X()) {
				fail = "position not a float32 value"
			}
		}
	}
	nrm := "None"
	if m.HasFloat3Attribute(modeling.NormalAttribute) {
		stored := recordNormals(data)
		n := m.Float3Attribute(modeling.NormalAttribute)
		items := make([]string, n.Len())
		for i := 0; i < n.Len(); i++ {
			v := n.At(i)
			t := i / 3
			if t < len(stored) && isZeroWord(stored[t][0]) && isZeroWord(stored[t][1]) && isZeroWord(stored[t][2]) {
				// geometric normal expected: (v2-v1)x(v3-v1) normalised, from the float32 positions
				if 3*t+2 < len(pos) {
					a, b, c := w2v(pos[3*t]), w2v(pos[3*t+1]), w2v(pos[3*t+2])
					e := b.Sub(a).Cross(c.Sub(a)).Normalized()
					if !closeF(v.X(), e.X()) || !closeF(v.Y(), e.Y()) || !closeF(v.Z(), e.Z()) {
						fail = fmt.Sprintf("flat normal of triangle %d is %v, geometric normal is %v", t, v, e)
					}
				}
				items[i] = "Flat"
			} else {
				items[i] = "Stored " + vecCoq([3]uint32{f32bits(v.X()), f32bits(v.Y()), f32bits(v.Z())})
			}
		}
		nrm = "(Some [" + join(items) + "])"
	}
	return fmt.Sprintf("(Some {| r_nverts := %d; r_idx := %s; r_pos := %s; r_nrm := %s |})", nv, hx.CoqListNat(ix), vecsCoq(pos), nrm), fail
}

func w2v(w [3]uint32) vector3.Float64 {
	return vector3.New(float64(math.Float32frombits(w[0])), float64(math.Float32frombits(w[1])), float64(math.Float32frombits(w[2])))
}
func closeF(a, b float64) bool {
	if math.IsNaN(a) && math.IsNaN(b) {
		return true
	}
	return math.Abs(a-b) <= 1e-6*(1+math.Abs(b))
}

func meshCase(d meshDesc) hx.Case {
	c := hx.Case{Kind: "mesh", Desc: d}
	m := buildMesh(d)
	var buf bytes.Buffer
	var werr error
	func() {
		defer func() {
			if rec := recover(); rec != nil {
				werr = fmt.Errorf("panic: %v", rec)
			}
		}()
		werr = stl.WriteMesh(&buf, m)
	}()
	out := buf.Bytes()
	if werr != nil {
		c.GoFail = "WriteMesh failed: " + werr.Error()
		c.FailKey = "stl:write-error"
	}
	nt := len(d.Idx) / 3
	if d.Pos == nil {
		nt = 0
	}
	// facet normals: value checked here against an independent float64 computation, placement by the model
	stored := recordNormals(out)
	fns := make([][3]uint32, nt)
	for t := 0; t < nt; t++ {
		if t < len(stored) {
			fns[t] = stored[t]
		}
		var e [3]float32
		if d.Normals != nil {
			var s [3]float64
			for k := 0; k < 3; k++ {
				n := d.Normals[d.Idx[3*t+k]]
				s[0] += n[0]
				s[1] += n[1]
				s[2] += n[2]
			}
			l := math.Sqrt(s[0]*s[0] + s[1]*s[1] + s[2]*s[2])
			e = [3]float32{float32(s[0] / l), float32(s[1] / l), float32(s[2] / l)}
		}
		if t < len(stored) {
			for k := 0; k < 3; k++ {
				if !closeF32(math.Float32frombits(stored[t][k]), e[k], 1e-6) {
					c.GoFail = fmt.Sprintf("facet normal %d component %d: stored %v, normalised mean of corner normals %v", t, k, math.Float32frombits(stored[t][k]), e[k])
					c.FailKey = "stl:facet-normal-value"
				}
			}
		}
	}
	pos := "None"
	if d.Pos != nil {
		pw := make([][3]uint32, len(d.Pos))
		for i, v := range d.Pos {
			pw[i] = [3]uint32{f32bits(v[0]), f32bits(v[1]), f32bits(v[2])}
		}
		pos = "(Some " + vecsCoq(pw) + ")"
	}
	rm, fail := readMeshCoq(out)
	if fail != "" && c.GoFail == "" {
		c.GoFail, c.FailKey = fail, "stl:read-normal-value"
	}
	c.Coq = fmt.Sprintf("CMesh %s %s %s %s %s", hx.CoqListNat(d.Idx), pos, vecsCoq(fns), hx.CoqListN(out), rm)
	c.Nontriv = nt >= 1
	c.Key = fmt.Sprintf("m|%v|%v|%v", d.Idx, d.Pos, d.Normals)
	return c
}

func genBytes(r *hx.Rng) []byte {
	nt := r.Range(0, 8)
	b := make([]byte, 84+50*nt)
	for i := 0; i < 80; i++ {
		b[i] = byte(r.Intn(256))
	}
	binary.LittleEndian.PutUint32(b[80:], uint32(nt))
	for t := 0; t < nt; t++ {
		off := 84 + 50*t
		for k := 0; k < 12; k++ {
			var w uint32
			switch r.Intn(6) {
			case 0:
				w = uint32(r.U64()) // arbitrary pattern, NaNs included
			case 1:
				w = 0
			case 2:
				w = 0x80000000
			default:
				w = math.Float32bits(float32(genFloat(r)))
			}
			if k < 3 && r.Chance(1, 3) {
				w = 0 // zero stored normal component: makes all-zero normals likely enough
			}
			binary.LittleEndian.PutUint32(b[off+4*k:], w)
		}
		if r.Chance(1, 2) {
			// force an all-zero normal (flat-normal path)
			for k := 0; k < 12; k++ {
				b[off+k] = 0
			}
		}
		binary.LittleEndian.PutUint16(b[off+48:], uint16(r.Intn(65536)))
	}
	return b
}

func bytesCase(in []byte) hx.Case {
	c := hx.Case{Kind: "bytes", Desc: bytesDesc{Hex: hex.EncodeToString(in)}}
	out := "None"
	bin, err := stl.Read(bytes.NewReader(in))
	if err == nil {
		var buf bytes.Buffer
		if err := stl.Write(&buf, *bin); err == nil {
			out = "(Some " + hx.CoqListN(buf.Bytes()) + ")"
		}
	}
	c.Coq = fmt.Sprintf("CBytes %s %s", hx.CoqListN(in), out)
	c.Nontriv = len(in) > 84
	c.Key = "b|" + hex.EncodeToString(in)
	return c
}

func readCase(in []byte) hx.Case {
	c := hx.Case{Kind: "readmesh", Desc: bytesDesc{Hex: hex.EncodeToString(in)}}
	rm, fail := readMeshCoq(in)
	if fail != "" {
		c.GoFail, c.FailKey = fail, "stl:read-normal-value"
	}
	c.Coq = fmt.Sprintf("CRead %s %s", hx.CoqListN(in), rm)
	c.Nontriv = len(in) > 84
	c.Key = "r|" + hex.EncodeToString(in)
	return c
}

func main() {
	run := hx.ParseFlags("C07", "Check.C07")
	for _, in := range run.Inputs() {
		switch in.Kind {
		case "mesh":
			var md meshDesc
			json.Unmarshal(in.Raw, &md)
			run.Add(meshCase(md))
		case "readmesh", "bytes":
			var bd bytesDesc
			json.Unmarshal(in.Raw, &bd)
			b, _ := hex.DecodeString(bd.Hex)
			if in.Kind == "readmesh" {
				run.Add(readCase(b))
			} else {
				run.Add(bytesCase(b))
			}
		}
	}
	if run.Replay != "" {
		run.Finish()
		return
	}
	r := hx.NewRng(run.Seed)
	// fixed corner cases first
	run.Add(meshCase(meshDesc{Idx: []int{}}))
	run.Add(meshCase(meshDesc{Idx: []int{0, 1, 2, 2, 1, 3}, Pos: [][3]float64{{0, 0, 0}, {1, 0, 0}, {0, 1, 0}, {1, 1, 0}}}))
	run.Add(bytesCase(make([]byte, 84)))
	for i := 0; i < run.N; i++ {
		switch i % 4 {
		case 0, 1:
			d := genMesh(r)
			c := meshCase(d)
			if d.Normals != nil {
				run.Count("mesh:with-normals")
			}
			if d.Pos == nil {
				run.Count("mesh:no-position")
			}
			run.Count(fmt.Sprintf("mesh:tris=%d", len(d.Idx)/3))
			run.Add(c)
		case 2:
			run.Add(bytesCase(genBytes(r)))
		case 3:
			b := genBytes(r)
			if r.Chance(1, 8) && len(b) > 84 {
				b = b[:84+r.Intn(len(b)-84)] // malformed stream: truncated
				run.Count("readmesh:truncated")
			}
			run.Add(readCase(b))
		}
	}
	run.Finish()
}
