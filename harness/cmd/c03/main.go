// C03 harness: mesh operations do what they say and nothing else.  Runs the real modeling /
// meshops / repeat code on random well-formed integer-valued meshes (histories of depth <= 4 and
// composition laws) and writes the observations as Coq cases for Check/C03.v.
package main

import (
	"verif/harness/hx"
	"verif/harness/meshgen"
)

func main() {
	run := hx.ParseFlags("C03", "Check.C03")
	for _, in := range run.Inputs() {
		meshgen.Replay(run, in.Kind, in.Raw)
	}
	if run.Replay != "" {
		run.Finish()
		return
	}
	r := hx.NewRng(run.Seed).Fork() // Fork: seeds n and n+1 would otherwise be the same stream shifted by one draw
	meshgen.FixedCases(run)
	meshgen.Tiles(run, r.Fork(), run.Tier == "thorough") // ladder 2^10+1 .. 2^15+1 (thorough 2^17+1): every local operation at three rungs
	kinds := append(append([]string{}, meshgen.ExactOps...), meshgen.FrameOps...)
	// the index-remapping operations get twice the weight of the others
	kinds = append(kinds, "append", "weld", "split", "filter", "remove_unref", "remove_null", "crop", "repeat", "unweld", "slice")
	for len(run.Cases) < run.N {
		if r.Chance(1, 8) {
			meshgen.Law(run, r)
		} else if r.Chance(1, 12) {
			meshgen.Persist(run, r, kinds) // retained results re-read after later operations on the same values
		} else {
			meshgen.Chain(run, r, kinds, 4)
		}
	}
	run.Finish()
}
