package main

// Round 4: inputs next to the NEUTRAL element of every operation and STRUCTURED operands — where a fast path guarded by
// a tolerance or by a sparsity test would sit (`if nearIdentity { return v }`, `if bottom row == (0,0,0,_) { ... }`).
//
//   - quaternions (a*2^-k, +-1), k = 6 .. 22: rotations by 2^-k .. radians whose images are still EXACT in float64, so a
//     swallowed rotation of 5e-7 rad is a difference of 40 bits, not something inside a tolerance; the same through TRS,
//     the single-purpose constructors and the mesh level; unit quaternions of tiny angle (1e-2 .. 1e-8 rad) on the
//     float stream with a relative tolerance of 1e-13 instead of 1e-9;
//   - TRS with translation 2^-40, scale 1 +- 2^-30, scale 2^+-40;
//   - matrices with bottom row (0,0,0,w), w in {2, -1, 1/2, 3, 2^40, 2^-40}, diagonal / translation-only / triangular /
//     signed permutation matrices, I + 2^-30 E_ij, rows and columns scaled by powers of two up to 2^+-40 (all terms of a
//     determinant / cofactor / row-by-column sum then carry the same power of two, so the arithmetic stays exact), through
//     Add, Multiply (both orders), Determinant, Inverse and MulPosition;
//   - boxes grown by points 2^-30 outside / inside a face, ClosestPoint of such points, boxes at 2^40, Normalize of
//     quaternions of length 1 +- 1e-9 .. 1e-3;
//   - -0 components (exact stream) and denormal / 2^-1040 components (tolerance stream): no NaN, no Inf, no panic.

import (
	"math"

	"verif/harness/hx"
)

func p2(k int) float64 { return math.Ldexp(1, k) }

var identity16 = []float64{1, 0, 0, 0, 0, 1, 0, 0, 0, 0, 1, 0, 0, 0, 0, 1}

func cp(a []float64) []float64 { return append([]float64{}, a...) }

// scaleRC multiplies row i by 2^re[i] and column j by 2^ce[j]
func scaleRC(m []float64, re, ce [4]int) []float64 {
	o := make([]float64, 16)
	for i := 0; i < 4; i++ {
		for j := 0; j < 4; j++ {
			o[4*i+j] = m[4*i+j] * p2(re[i]+ce[j])
		}
	}
	return o
}

// affineDyadic: last row (0,0,0,w); the rest built from a dyadic diagonal by integer row / column operations that keep
// the last row, so the determinant is +-2^k and Determinant / Inverse are exact in float64
func affineDyadic(r *hx.Rng, w float64) []float64 {
	m := make([]float64, 16)
	for i := 0; i < 3; i++ {
		m[5*i] = hx.Pick(r, []float64{1, 1, -1, 2, -2, 0.5})
	}
	m[15] = w
	for k := r.Range(3, 8); k > 0; k-- {
		i, j := r.Intn(3), r.Intn(4)
		if i == j {
			continue
		}
		c := float64(r.Range(-2, 2))
		if r.Bool() || j == 3 { // row_i += c * row_j  (i < 3; j = 3 adds a multiple of the last row: a translation)
			for t := 0; t < 4; t++ {
				m[4*i+t] += c * m[4*j+t]
			}
		} else { // col_i += c * col_j with j < 3: the last row stays (0,0,0,w)
			for t := 0; t < 4; t++ {
				m[4*t+i] += c * m[4*t+j]
			}
		}
	}
	return m
}

// affineInt: dense integer 3x3 block and translation, last row (0,0,0,w)
func affineInt(r *hx.Rng, w float64) []float64 {
	m := ints(r, 16, -4, 4)
	m[12], m[13], m[14], m[15] = 0, 0, 0, w
	return m
}

func diag(a, b, c, d float64) []float64 {
	return []float64{a, 0, 0, 0, 0, b, 0, 0, 0, 0, c, 0, 0, 0, 0, d}
}

// signed permutation matrix (a rotation / reflection by quarter turns)
func signedPerm(r *hx.Rng) []float64 {
	p := []int{0, 1, 2, 3}
	for i := 3; i > 0; i-- {
		j := r.Intn(i + 1)
		p[i], p[j] = p[j], p[i]
	}
	m := make([]float64, 16)
	for i := 0; i < 4; i++ {
		m[4*i+p[i]] = float64(1 - 2*r.Intn(2))
	}
	return m
}

func triangular(r *hx.Rng, upper bool) []float64 {
	m := make([]float64, 16)
	for i := 0; i < 4; i++ {
		for j := 0; j < 4; j++ {
			switch {
			case i == j:
				m[4*i+j] = hx.Pick(r, []float64{1, -1, 2, 0.5})
			case (j > i) == upper:
				m[4*i+j] = float64(r.Range(-3, 3))
			}
		}
	}
	return m
}

var bottomWs = []float64{2, 4, 0.5, -1, 3, 1 << 40, -2, 1.0 / (1 << 40), 1}

// ... restricted to +-2^k (the determinant stays a power of two: exact Inverse)
var bottomWsDyadic = []float64{2, -1, 0.5, -2, 4, 1 << 40, 1.0 / (1 << 40), 1}

// structuredMatrix: one of the operand shapes a special-case branch would test for (exact in Add / Multiply with a
// small-integer partner)
func structuredMatrix(r *hx.Rng, which int) ([]float64, string) {
	switch which % 9 {
	case 0:
		return affineInt(r, hx.Pick(r, bottomWs)), "bottom-row-w"
	case 1:
		return hx.Pick(r, [][]float64{diag(2, -3, 0.5, 1), diag(p2(40), p2(40), p2(40), 1), diag(p2(-40), p2(-40), p2(-40), 1),
			diag(p2(20), p2(20), p2(20), p2(20)), diag(1, 1, 1, 2), diag(-1, -1, -1, -1)}), "diagonal"
	case 2:
		m := cp(identity16)
		m[3], m[7], m[11] = float64(r.Range(-9, 9)), float64(r.Range(-9, 9)), float64(r.Range(-9, 9))
		if r.Bool() {
			m[3], m[7], m[11] = m[3]*p2(-40), m[7]*p2(-40), m[11]*p2(-40)
		}
		return m, "translation-only"
	case 3:
		m := cp(identity16)
		m[r.Intn(16)] += p2(-30)
		return m, "identity+2^-30"
	case 4:
		m := cp(identity16)
		n := ints(r, 16, -3, 3)
		for i := range m {
			m[i] += n[i] * p2(-30)
		}
		return m, "identity+2^-30*N"
	case 5:
		m := ints(r, 16, -5, 5)
		k := r.Intn(4)
		for t := 0; t < 4; t++ {
			if r.Bool() {
				m[4*k+t] = 0
			} else {
				m[4*t+k] = 0
			}
		}
		return m, "zero-row-or-column"
	case 6:
		return signedPerm(r), "signed-permutation"
	case 7:
		return triangular(r, r.Bool()), "triangular"
	default:
		m := ints(r, 16, -4, 4)
		neg0 := math.Copysign(0, -1)
		for i := range m {
			if m[i] == 0 && r.Bool() {
				m[i] = neg0
			}
		}
		return m, "minus-zero"
	}
}

// exactInvertible: matrices whose Determinant and Inverse are exact: determinant +-2^k, optionally rows / columns scaled
func exactInvertible(r *hx.Rng, which int) ([]float64, string) {
	var m []float64
	var name string
	switch which % 6 {
	case 0, 1:
		m, name = affineDyadic(r, hx.Pick(r, bottomWsDyadic)), "affine-w"
	case 2:
		m, name = hx.Pick(r, [][]float64{diag(p2(40), p2(40), p2(40), 1), diag(p2(-40), p2(-40), p2(-40), 1), diag(2, 2, 2, 2),
			diag(p2(-40), p2(-40), p2(-40), p2(-40)), diag(1, 1, 1, p2(-40)), diag(p2(30), 1, p2(-30), 1)}), "diagonal"
	case 3:
		m, name = triangular(r, r.Bool()), "triangular"
	case 4:
		m, name = signedPerm(r), "signed-permutation"
		for i := range m {
			m[i] *= hx.Pick(r, []float64{1, 2, 0.5})
		}
	default:
		m, name = cp(identity16), "identity+2^-30*E_ij"
		i, j := r.Intn(4), r.Intn(4)
		if i == j {
			j = (j + 1) % 4
		}
		m[4*i+j] = p2(-30) * float64(r.Range(1, 3))
	}
	if k := which % 6; r.Chance(1, 3) && maxabs(m) <= 32 && minabsNonzero(m) >= 0.5 && (k <= 1 || k == 3 || k == 4) { // rows scaled freely, columns within a spread of 40 binary digits (MulPosition adds across columns)
		var re, ce [4]int
		for i := range re {
			re[i] = hx.Pick(r, []int{0, 0, 40, -40, 20, -20})
		}
		sgn := 1 - 2*r.Intn(2)
		for i := range ce {
			ce[i] = sgn * hx.Pick(r, []int{0, 0, 20, 40})
		}
		m, name = scaleRC(m, re, ce), name+"+scaled"
	}
	return m, name
}

var tinyAxes = [][]float64{{1, 0, 0}, {0, 1, 0}, {0, 0, 1}, {1, -2, 2}, {-1, 1, 1}, {2, 0, -1}}
var smallVs = [][]float64{{1, 2, 3}, {3, -1, 2}, {0, 0, 5}, {-2, 4, 1}}
var leftQs = [][]float64{{0, 0, 0, 1}, {1, 0, 0, 0}, {0, 0, 1, 1}, {0, -1, 0, 0}, {1, 1, 0, 0}}

func nearIdentityQuat(a []float64, k int, w float64) []float64 {
	e := p2(-k)
	return []float64{a[0] * e, a[1] * e, a[2] * e, w}
}

// unit quaternion of angle theta about the (normalised) axis
func angleQuat(axis []float64, theta float64) []float64 {
	n := normalize3(axis)
	s, c := math.Sin(theta/2), math.Cos(theta/2)
	return []float64{n[0] * s, n[1] * s, n[2] * s, c}
}

func triMesh(ps [][]float64) ([][]float64, []int) { return ps, []int{0, 1, 2} }

var nnCount int

// nearNeutralTransforms: one parameter set (p, s, q) through the entry points that apply it to points: level 0 =
// TRS.Transform; 1 = also the single-purpose constructors / Translate and ONE mesh operation (taking turns);
// 2 = all four mesh operations
func nearNeutralTransforms(p, s, q []float64, v []float64, exact bool, rel float64, level int) {
	doTrs(trsDesc{P: p, S: s, Q: q, V: v, Exact: exact, Rel: rel})
	if level == 0 {
		return
	}
	doTrsCtor(trsCtorDesc{P: p, S: s, Q: q, D: []float64{p[2], p[0], p[1]}, V: v, Exact: exact, Rel: rel})
	ps, idx := triMesh([][]float64{v, {v[1], v[2], v[0]}, {-v[0], 1, v[2]}})
	nnCount++
	for op := 0; op < 4; op++ {
		if level == 2 || op == nnCount%4 {
			doMesh(meshDesc{Op: op, P: p, S: s, Q: q, Ps: ps, Idx: idx, Exact: exact, Rel: rel})
		}
	}
}

func neutralCases(r *hx.Rng) {
	zero3, one3, idq := []float64{0, 0, 0}, []float64{1, 1, 1}, []float64{0, 0, 0, 1}
	// ---- rotations by 2^-k: exact
	i := 0
	for _, k := range []int{6, 10, 13, 15, 16, 18, 20} {
		for _, w := range []float64{1, -1} {
			a, v, q1 := tinyAxes[i%len(tinyAxes)], smallVs[i%len(smallVs)], leftQs[i%len(leftQs)]
			i++
			q := nearIdentityQuat(a, k, w)
			doQuat(quatDesc{Q1: q1, Q2: q, V: v, Exact: true})
			doQuat(quatDesc{Q1: q, Q2: q1, V: v, Exact: true})
			level := 0
			if w == 1 {
				level = 1
				if k == 16 || k == 20 {
					level = 2
				}
			}
			nearNeutralTransforms([]float64{1, 2, 3}, hx.Pick(r, [][]float64{one3, {2, 3, 4}, {1, -1, 2}}), q, v, true, 0, level)
		}
	}
	for _, k := range []int{21, 22, 24} { // the smallest rotations whose image of a unit axis vector is still exact
		q := nearIdentityQuat(tinyAxes[k%3], k, 1)
		doQuat(quatDesc{Q1: idq, Q2: q, V: []float64{1, 1, 1}, Exact: true})
		doTrs(trsDesc{P: zero3, S: one3, Q: q, V: []float64{1, 1, 1}, Exact: true})
	}
	run.Count("neutral:rotation-2^-k")
	// ---- unit quaternions of tiny angle: float stream, relative tolerance 1e-13
	for j, theta := range []float64{1e-2, 1e-3, 1e-4, 5e-5, 2e-5, 1e-5, 1e-6, 1e-7, 1e-8} {
		q := angleQuat(tinyAxes[(j+3)%len(tinyAxes)], theta)
		v := floats(r, 3, 4)
		doQuat(quatDesc{Q1: unitQuat(r), Q2: q, V: v, Rel: 1e-13})
		doQuat(quatDesc{Q1: q, Q2: angleQuat(unit(r), -theta/3), V: v, Rel: 1e-13})
		nearNeutralTransforms(floats(r, 3, 2), one3, q, v, false, 1e-13, (j+1)%2)
	}
	run.Count("neutral:tiny-angle-unit")
	// ---- translation 2^-40, scale 1 +- 2^-30, scale 2^+-40
	e30, e40 := p2(-30), p2(-40)
	for j, c := range []struct{ p, s, q []float64 }{
		{[]float64{e40, 2 * e40, -3 * e40}, one3, idq},
		{[]float64{e40, 0, 0}, one3, []float64{0, 0, 1, 1}},
		{zero3, []float64{1 + e30, 1, 1 - e30}, idq},
		{[]float64{1, 2, 3}, []float64{1 + e30, 1 + e30, 1 + e30}, []float64{0, 0, 1, 1}},
		{[]float64{1, 2, 3}, []float64{p2(40), p2(40), p2(40)}, []float64{0, 1, 0, 0}},
		{zero3, []float64{p2(-40), 1, p2(40)}, idq},
		{[]float64{-1, 0, 2}, []float64{1, 1, -1}, idq},
		{zero3, one3, idq},
	} {
		nearNeutralTransforms(c.p, c.s, c.q, smallVs[j%len(smallVs)], true, 0, 1+j%5/4)
	}
	run.Count("neutral:translation-scale")
	// ---- structured matrices through Add / Multiply, both orders
	for j := 0; j < 18; j++ {
		b, name := structuredMatrix(r, j)
		a := ints(r, 16, -9, 9)
		if j%3 == 2 {
			a, _ = structuredMatrix(r, j+4)
			big, tiny := func(m []float64) bool { return maxabs(m) > 1e6 }, func(m []float64) bool { return minabsNonzero(m) < 1e-6 }
			if (big(a) || tiny(a)) && (big(b) || tiny(b)) {
				a = ints(r, 16, -9, 9) // keep every sum of products within 53 bits
			}
		}
		run.Count("mat2:" + name)
		doMat2(mat2Desc{A: a, B: b, Exact: true})
		doMat2(mat2Desc{A: b, B: a, Exact: true})
	}
	// rows / columns scaled by powers of two: A = D1 M, B = N D2 (Multiply exact), A + D1 N
	for j := 0; j < 6; j++ {
		var re, ce [4]int
		sg := 1 - 2*(j%2)
		for t := range re { // one sign, spread 40: the entries of A + B stay within 53 bits as well
			re[t], ce[t] = sg*hx.Pick(r, []int{0, 20, 40}), sg*hx.Pick(r, []int{0, 20, 40})
		}
		m, n := ints(r, 16, -9, 9), ints(r, 16, -9, 9)
		doMat2(mat2Desc{A: scaleRC(m, re, [4]int{}), B: scaleRC(n, [4]int{}, ce), Exact: true})
		run.Count("mat2:scaled-rows-columns")
	}
	// ---- structured matrices through Determinant / Inverse / MulPosition
	for j := 0; j < 24; j++ {
		m, name := exactInvertible(r, j)
		run.Count("mat1:" + name)
		doMat1(mat1Desc{A: m, V: ints(r, 3, -9, 9), Exact: true, Inv: true})
	}
	// uniformly scaled invertible matrices: determinants 2^-12 .. 2^-160 (and 2^+120) — "singular within tolerance" guards
	for j, k := range []int{-4, -7, -10, -14, -20, -27, -40, 40} {
		m := affineDyadic(r, 1)
		if maxabs(m) > 32 {
			m = signedPerm(r)
		}
		re := [4]int{k, k, k, 0}
		if j%2 == 1 {
			re[3] = k
		}
		doMat1(mat1Desc{A: scaleRC(m, re, [4]int{}), V: ints(r, 3, -9, 9), Exact: true, Inv: true})
	}
	run.Count("mat1:uniform-scale")
	for j, w := range bottomWs { // dense integer block, last row (0,0,0,w): Determinant / MulPosition exact, Inverse with tolerance
		m := affineInt(r, w)
		doMat1(mat1Desc{A: m, V: ints(r, 3, -9, 9), Exact: true, Inv: false})
		if d := det4(m); math.Abs(d) >= 1 && math.Abs(w) >= 0.25 && math.Abs(w) <= 4 && j%2 == 0 { // moderately conditioned only
			doMat1(mat1Desc{A: m, V: ints(r, 3, -9, 9), Inv: true})
		}
		run.Count("mat1:bottom-row-w-dense")
	}
	for pos := 0; pos < 16; pos++ { // identity + 2^-30 at every position
		m := cp(identity16)
		m[pos] += p2(-30)
		doMat1(mat1Desc{A: m, V: []float64{1, -2, 3}, Exact: true, Inv: pos%5 != 0})
	}
	run.Count("mat1:identity+2^-30")
	// ---- boxes: points 2^-30 outside / inside a face, boxes at 2^40
	for j := 0; j < 12; j++ {
		if j%6 == 1 || j%6 == 4 {
			continue
		}
		c, s := ints(r, 3, -9, 9), ints(r, 3, 1, 9)
		if j%4 == 3 {
			c = []float64{c[0] * p2(40), c[1] * p2(40), c[2] * p2(40)}
		}
		eps := e30
		if j%4 == 3 {
			eps = 1
		}
		pt := make([]float64, 3)
		for t := range pt {
			side := float64(1 - 2*r.Intn(2))
			pt[t] = c[t] + side*s[t]/2
			if t == j%3 || j%5 == 0 {
				pt[t] += side * eps * float64(1-2*(j/6%2)) // outside for j < 6, inside afterwards
			}
		}
		probes := append(boxProbes(r, true, [2][]float64{c, s}), pt)
		doBoxPt(boxPtDesc{C: c, Size: s, Pt: pt, Probes: probes, Exact: true})
		doClosest(closestDesc{C: c, Size: s, V: pt, Probes: probes, Exact: true})
		bs := []float64{2 * eps, 2 * eps, 2 * eps}
		doBoxBox(boxBoxDesc{C: c, Size: s, BC: pt, BSize: bs, Probes: boxProbes(r, true, [2][]float64{c, s}, [2][]float64{pt, bs}), Exact: true})
		doBoxMisc(boxMiscDesc{C: c, Size: s, OC: pt, OSize: bs, Amount: hx.Pick(r, []float64{2, 0, -1, e30, 0.5}), Exact: true})
	}
	neg0 := math.Copysign(0, -1)
	doBoxPt(boxPtDesc{C: []float64{neg0, 0, neg0}, Size: []float64{0, 0, 0}, Pt: []float64{neg0, neg0, 0}, Probes: [][]float64{{0, 0, 0}}, Exact: true})
	doClosest(closestDesc{C: []float64{neg0, 0, 0}, Size: []float64{2, 2, 2}, V: []float64{neg0, 5, neg0}, Probes: [][]float64{{0, 1, 0}}, Exact: true})
	run.Count("neutral:box-faces")
	// ---- the remaining AABB methods and MatFromDirs
	for j := 0; j < 10; j++ {
		c, s, oc, os := ints(r, 3, -6, 6), ints(r, 3, 0, 6), ints(r, 3, -6, 6), ints(r, 3, 0, 6)
		if j%3 == 0 { // touching faces: closed boxes intersect
			oc = []float64{c[0] + (s[0]+os[0])/2, c[1], c[2]}
		}
		doBoxMisc(boxMiscDesc{C: c, Size: s, OC: oc, OSize: os, Amount: float64(r.Range(-2, 6)) / 2, Exact: true})
	}
	for _, d := range []matDirsDesc{
		{Up: []float64{0, 1, 0}, Fwd: []float64{0, 0, 1}, Off: []float64{1, 2, 3}},
		{Up: []float64{0, 0, 1}, Fwd: []float64{1, 0, 0}, Off: []float64{0, 0, 0}},
		{Up: []float64{1, 0, 0}, Fwd: []float64{0, 1, 1}, Off: []float64{-4, 0.5, 2}},
		{Up: normalize3([]float64{1, 2, 2}), Fwd: normalize3([]float64{2, -1, 0}), Off: []float64{7, -7, 0.25}},
		{Up: unit(r), Fwd: unit(r), Off: floats(r, 3, 5)},
	} {
		if c := []float64{d.Up[1]*d.Fwd[2] - d.Up[2]*d.Fwd[1], d.Up[2]*d.Fwd[0] - d.Up[0]*d.Fwd[2], d.Up[0]*d.Fwd[1] - d.Up[1]*d.Fwd[0]}; dot3(c, c) > 1e-3 {
			doMatDirs(d)
		}
	}
	run.Count("neutral:aabb-misc+matfromdirs")
	// ---- Normalize of nearly-unit quaternions
	for j, rel := range []float64{1e-9, 1e-7, 1e-6, 2e-6, 1e-5, 1e-4, 1e-3} {
		for _, side := range []float64{-1, 1} {
			q := unitQuat(r)
			if j%2 == 0 {
				q = angleQuat(tinyAxes[j%len(tinyAxes)], 2.0)
			}
			l := math.Sqrt(1 + side*rel)
			doNorm(normDesc{Q: []float64{q[0] * l, q[1] * l, q[2] * l, q[3] * l}})
		}
	}
	run.Count("neutral:normalize-near-unit")
	// ---- denormal / tiny components: tolerance stream (the result must be finite and within tolerance)
	den := math.SmallestNonzeroFloat64
	a := ints(r, 16, -3, 3)
	a[1], a[6], a[11], a[12] = den, -den, p2(-1040), neg0
	doMat2(mat2Desc{A: a, B: ints(r, 16, -3, 3)})
	doMat1(mat1Desc{A: a, V: []float64{den, 1, -2}, Inv: det4(a) != 0})
	doQuat(quatDesc{Q1: []float64{den, 0, neg0, 1}, Q2: []float64{0, p2(-1040), 0, -1}, V: []float64{1, den, 3}})
	doTrs(trsDesc{P: []float64{den, 0, 0}, S: []float64{1, 1, 1}, Q: []float64{0, 0, den, 1}, V: []float64{1, 2, 3}})
	doBoxPt(boxPtDesc{C: []float64{0, 0, 0}, Size: []float64{2, 2, 2}, Pt: []float64{1 + den, den, -1}, Probes: [][]float64{{1, 1, 1}, {den, den, den}}})
	doClosest(closestDesc{C: []float64{den, 0, 0}, Size: []float64{2, 2, 2}, V: []float64{3, den, -den}, Probes: [][]float64{{1, 0, 0}}})
	run.Count("neutral:denormals")
}

func minabsNonzero(xs []float64) float64 {
	m := math.Inf(1)
	for _, x := range xs {
		if a := math.Abs(x); a != 0 && a < m {
			m = a
		}
	}
	return m
}

// structuredGenerated: the generated part of the same stream (slot 12 of the rotation)
func structuredGenerated(r *hx.Rng) {
	switch r.Intn(8) {
	case 0:
		m, name := exactInvertible(r, r.Intn(6))
		run.Count("mat1:" + name)
		doMat1(mat1Desc{A: m, V: ints(r, 3, -9, 9), Exact: true, Inv: true})
	case 1:
		b, name := structuredMatrix(r, r.Intn(9))
		run.Count("mat2:" + name)
		if r.Bool() {
			doMat2(mat2Desc{A: ints(r, 16, -9, 9), B: b, Exact: true})
		} else {
			doMat2(mat2Desc{A: b, B: ints(r, 16, -9, 9), Exact: true})
		}
	case 2:
		q := nearIdentityQuat(ints(r, 3, -2, 2), r.Range(5, 20), float64(1-2*r.Intn(2)))
		q1 := hx.Pick(r, leftQs)
		if r.Bool() {
			doQuat(quatDesc{Q1: q1, Q2: q, V: ints(r, 3, -4, 4), Exact: true})
		} else {
			doQuat(quatDesc{Q1: q, Q2: q1, V: ints(r, 3, -4, 4), Exact: true})
		}
	case 3:
		theta := math.Pow(10, -1-7*r.Float())
		q := angleQuat(unit(r), theta)
		if r.Bool() {
			doQuat(quatDesc{Q1: unitQuat(r), Q2: q, V: floats(r, 3, 4), Rel: 1e-13})
		} else {
			doTrs(trsDesc{P: floats(r, 3, 4), S: hx.Pick(r, [][]float64{{1, 1, 1}, {2, 0.5, -1}}), Q: q, V: floats(r, 3, 4), Rel: 1e-13})
		}
	case 4:
		// exactly one of: tiny rotation, tiny translation, scale next to one (combined they would need more than 53 bits)
		q, p, s := []float64{0, 0, 0, 1}, ints(r, 3, -4, 4), hx.Pick(r, [][]float64{{1, 1, 1}, {2, 2, 2}, {1, -1, 1}})
		switch r.Intn(3) {
		case 0:
			q = nearIdentityQuat(ints(r, 3, -2, 2), r.Range(5, 20), 1)
		case 1:
			p = []float64{p[0] * p2(-40), p[1] * p2(-40), p[2] * p2(-40)}
		default:
			s = hx.Pick(r, [][]float64{{1 + p2(-30), 1, 1}, {1 - p2(-30), 1 + p2(-30), 1}, {p2(40), p2(40), p2(40)}, {p2(-40), 1, 1}})
			q = hx.Pick(r, [][]float64{{0, 0, 0, 1}, {0, 0, 1, 1}})
		}
		if r.Bool() {
			doTrs(trsDesc{P: p, S: s, Q: q, V: ints(r, 3, -4, 4), Exact: true})
		} else {
			ps, idx := triMesh([][]float64{ints(r, 3, -4, 4), ints(r, 3, -4, 4), ints(r, 3, -4, 4)})
			doMesh(meshDesc{Op: r.Intn(4), P: p, S: s, Q: q, Ps: ps, Idx: idx, Exact: true})
		}
	case 5:
		c, s := ints(r, 3, -9, 9), ints(r, 3, 0, 9)
		pt := make([]float64, 3)
		for t := range pt {
			side := float64(1 - 2*r.Intn(2))
			pt[t] = c[t] + side*s[t]/2 + float64(r.Range(-1, 1))*p2(-r.Range(10, 30))
		}
		probes := append(boxProbes(r, true, [2][]float64{c, s}), pt)
		if r.Bool() {
			doBoxPt(boxPtDesc{C: c, Size: s, Pt: pt, Probes: probes, Exact: true})
		} else {
			doClosest(closestDesc{C: c, Size: s, V: pt, Probes: probes, Exact: true})
		}
	case 6:
		c, s, oc, os := ints(r, 3, -6, 6), ints(r, 3, 0, 6), ints(r, 3, -6, 6), ints(r, 3, 0, 6)
		if r.Bool() {
			k := r.Intn(3)
			oc[k] = c[k] + (s[k]+os[k])/2 + float64(r.Range(-1, 1))*p2(-20)
		}
		doBoxMisc(boxMiscDesc{C: c, Size: s, OC: oc, OSize: os, Amount: float64(r.Range(-4, 8)) / 4, Exact: true})
	default:
		up, fwd := unit(r), unit(r)
		if c := []float64{up[1]*fwd[2] - up[2]*fwd[1], up[2]*fwd[0] - up[0]*fwd[2], up[0]*fwd[1] - up[1]*fwd[0]}; dot3(c, c) > 1e-2 {
			doMatDirs(matDirsDesc{Up: up, Fwd: fwd, Off: floats(r, 3, 8)})
		} else {
			doMatDirs(matDirsDesc{Up: []float64{0, 1, 0}, Fwd: []float64{0, 0, 1}, Off: floats(r, 3, 8)})
		}
	}
}
