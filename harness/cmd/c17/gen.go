package main

import (
	"math"
	"os"
	"path/filepath"
	"regexp"
	"sort"
	"strconv"
	"strings"

	"verif/harness/hx"
)

func ints(r *hx.Rng, n, lo, hi int) []float64 {
	o := make([]float64, n)
	for i := range o {
		o[i] = float64(r.Range(lo, hi))
	}
	return o
}

// small integers with many zeros / ones (sparse patterns expose index mix-ups that dense noise can mask less clearly)
func sparseInts(r *hx.Rng, n, lo, hi int) []float64 {
	o := make([]float64, n)
	for i := range o {
		if r.Chance(1, 2) {
			o[i] = float64(r.Range(lo, hi))
		}
	}
	return o
}
func floats(r *hx.Rng, n int, mag float64) []float64 {
	o := make([]float64, n)
	for i := range o {
		o[i] = (r.Float()*2 - 1) * mag
	}
	return o
}
func dyadics(r *hx.Rng, n, lo, hi, den int) []float64 {
	o := make([]float64, n)
	for i := range o {
		o[i] = float64(r.Range(lo*den, hi*den)) / float64(den)
	}
	return o
}
func unit(r *hx.Rng) []float64 {
	for {
		v := floats(r, 3, 1)
		l := math.Sqrt(dot3(v, v))
		if l > 0.1 && l <= 1 {
			v[0], v[1], v[2] = v[0]/l, v[1]/l, v[2]/l
			// one more normalisation step brings |v| within an ulp of 1
			l = math.Sqrt(dot3(v, v))
			return []float64{v[0] / l, v[1] / l, v[2] / l}
		}
	}
}
func unitQuat(r *hx.Rng) []float64 {
	for {
		q := floats(r, 4, 1)
		l := math.Sqrt(q[0]*q[0] + q[1]*q[1] + q[2]*q[2] + q[3]*q[3])
		if l > 0.1 && l <= 1 {
			return []float64{q[0] / l, q[1] / l, q[2] / l, q[3] / l}
		}
	}
}
func neg(v []float64) []float64 { return []float64{-v[0], -v[1], -v[2]} }

func basis(i int) []float64 {
	m := make([]float64, 16)
	m[i] = 1
	return m
}

// unimodular-ish integer matrix with determinant +-2^k: product of elementary row operations and a dyadic diagonal,
// so that 1/det and every cofactor/det are exact in float64
func dyadicDetMatrix(r *hx.Rng) []float64 {
	m := make([]float64, 16)
	for i := 0; i < 4; i++ {
		m[5*i] = hx.Pick(r, []float64{1, 1, -1, 2, -2, 4, 0.5})
	}
	if r.Chance(1, 3) { // a determinant far from 1 (near-singular / huge), still a power of two: ONE extreme pivot,
		// so that every product and partial sum of Determinant / Inverse stays within 53 bits
		m[5*r.Intn(4)] = hx.Pick(r, []float64{1.0 / (1 << 20), -1.0 / (1 << 30), 1 << 20})
	}
	for k := r.Range(2, 7); k > 0; k-- {
		i, j := r.Intn(4), r.Intn(4)
		if i == j {
			continue
		}
		c := float64(r.Range(-2, 2))
		if r.Bool() { // row_i += c * row_j
			for t := 0; t < 4; t++ {
				m[4*i+t] += c * m[4*j+t]
			}
		} else { // col_i += c * col_j
			for t := 0; t < 4; t++ {
				m[4*t+i] += c * m[4*t+j]
			}
		}
	}
	return m
}

func det4(a []float64) float64 { return toMat(a).Determinant() }

func boxProbes(r *hx.Rng, exact bool, boxes ...[2][]float64) [][]float64 {
	var ps [][]float64
	for _, b := range boxes {
		c, s := b[0], b[1]
		for k := 0; k < 8; k++ { // corners
			p := make([]float64, 3)
			for i := 0; i < 3; i++ {
				h := s[i] / 2
				if k>>i&1 == 1 {
					p[i] = c[i] + h
				} else {
					p[i] = c[i] - h
				}
			}
			ps = append(ps, p)
		}
		ps = append(ps, []float64{c[0], c[1], c[2]})
		for k := 0; k < 4; k++ { // points around the box, some inside some outside
			p := make([]float64, 3)
			for i := 0; i < 3; i++ {
				h := math.Abs(s[i])/2 + 1
				if exact {
					p[i] = c[i] + float64(r.Range(int(-2*h), int(2*h)))/2
				} else {
					p[i] = c[i] + (r.Float()*2-1)*h
				}
			}
			ps = append(ps, p)
		}
	}
	return ps
}

// ---------------------------------------------------------------- threshold stream
// thresholds: the numeric constants of the TRANSLATED code (cofQ n d in $VERIF_COQ/gen/{Quat,Mat,Trs,Aabb}.v, i.e.
// what the Go source compares against right now), as absolute values; 1/2 (extents = size/2) is not a threshold.
func thresholds() []float64 {
	dir := os.Getenv("VERIF_COQ")
	if dir == "" {
		dir = "coq"
	}
	re := regexp.MustCompile(`cofQ \(?(-?[0-9]+)\)? ([0-9]+)`)
	seen := map[float64]bool{}
	for _, f := range []string{"Quat.v", "Mat.v", "Trs.v", "Aabb.v"} {
		b, err := os.ReadFile(filepath.Join(dir, "gen", f))
		if err != nil {
			continue
		}
		for _, m := range re.FindAllStringSubmatch(string(b), -1) {
			n, _ := strconv.ParseFloat(m[1], 64)
			d, _ := strconv.ParseFloat(m[2], 64)
			if d != 0 && !(n == 1 && d == 2) && n != 0 {
				seen[math.Abs(n/d)] = true
			}
		}
	}
	// ... and the float literals of the anchored Go sources themselves (covers a source the translator rejects,
	// whose generated file is then missing): literals in (0, 1) other than 0.5
	if repo := os.Getenv("VERIF_REPO"); true {
		if repo == "" {
			repo = "/repo"
		}
		lit := regexp.MustCompile(`[^0-9A-Za-z_.]([0-9]*\.[0-9]+(?:[eE][-+]?[0-9]+)?|[0-9]+[eE]-[0-9]+)`)
		for _, f := range []string{"math/quaternion/quaternion.go", "math/mat/matrix4x4.go", "math/trs/trs.go"} {
			b, err := os.ReadFile(filepath.Join(repo, f))
			if err != nil {
				continue
			}
			for _, line := range strings.Split(string(b), "\n") {
				if i := strings.Index(line, "//"); i >= 0 {
					line = line[:i]
				}
				for _, m := range lit.FindAllStringSubmatch(line, -1) {
					x, err := strconv.ParseFloat(m[1], 64)
					if err == nil && x > 0 && x < 1 && x != 0.5 && x >= 1e-12 {
						seen[x] = true
					}
				}
			}
		}
	}
	if len(seen) == 0 {
		seen[0.999999], seen[0.000001] = true, true
	}
	var ts []float64
	for t := range seen {
		ts = append(ts, t)
	}
	sort.Float64s(ts)
	run.Extra["thresholds"] = ts
	return ts
}

func normalize3(v []float64) []float64 {
	l := math.Sqrt(dot3(v, v))
	w := []float64{v[0] / l, v[1] / l, v[2] / l}
	l = math.Sqrt(dot3(w, w))
	return []float64{w[0] / l, w[1] / l, w[2] / l}
}

// pairWithDot: unit a (given), unit b with a.b = d, turned about a by the angle phi
func pairWithDot(a []float64, d, phi float64) []float64 {
	h := []float64{0, 0, 1}
	if math.Abs(a[2]) > 0.9 {
		h = []float64{1, 0, 0}
	}
	u := normalize3([]float64{a[1]*h[2] - a[2]*h[1], a[2]*h[0] - a[0]*h[2], a[0]*h[1] - a[1]*h[0]})
	w := []float64{a[1]*u[2] - a[2]*u[1], a[2]*u[0] - a[0]*u[2], a[0]*u[1] - a[1]*u[0]}
	sn := math.Sqrt((1 - d) * (1 + d))
	c, s := math.Cos(phi), math.Sin(phi)
	b := make([]float64, 3)
	for i := range b {
		b[i] = d*a[i] + sn*(c*u[i]+s*w[i])
	}
	return b
}

var relDistances = []float64{1e-9, 1e-7, 1e-6, 2e-6, 1e-5, 1e-3}

// thresholdDots: values of a.b that put a derived quantity of RotationTo (the dot product itself, 1+dot, the squared
// norm 2(1+dot) of the un-normalised quaternion, its norm) at relative distance rel on either side of threshold t
func thresholdDots(t float64, full bool) []float64 {
	var ds []float64
	rels := relDistances
	if !full {
		rels = []float64{1e-7, 1e-5, 1e-3}
	}
	for _, rel := range rels {
		for _, side := range []float64{-1, 1} {
			x := t * (1 + side*rel)
			if t >= 0.5 { // a threshold on the dot product itself
				ds = append(ds, x, -x)
			} else { // a small threshold: on 1+dot, 1-dot, |q|^2 = 2(1+dot), |q| = sqrt(2(1+dot))
				ds = append(ds, -1+x, 1-x, -1+x/2, -1+x*x/2)
			}
		}
	}
	var ok []float64
	for _, d := range ds {
		if d > -1 && d < 1 {
			ok = append(ok, d)
		}
	}
	return ok
}

func thresholdCases(r *hx.Rng) {
	orient := [][]float64{{0.6, 0, 0.8}, normalize3([]float64{1, 2, 3}), {0, 1, 0}, normalize3([]float64{-3, 0.5, 0.25})}
	k := 0
	next := func() ([]float64, float64) {
		k++
		return orient[k%len(orient)], float64(k) * 0.7
	}
	// the window just outside the antiparallel branch, explicitly: dot = -1 + delta
	for _, delta := range []float64{1e-7, 5e-7, 1.5e-6, 2e-6, 3e-6, 4e-6, 5e-6, 1e-5, 3e-5, 1e-4} {
		for range orient {
			a, phi := next()
			doRot(rotDesc{A: a, B: pairWithDot(a, -1+delta, phi)})
		}
	}
	for _, t := range thresholds() {
		for _, d := range thresholdDots(t, true) {
			a, phi := next()
			doRot(rotDesc{A: a, B: pairWithDot(a, d, phi)})
		}
		if t < 0.5 {
			// the fallback-axis test |Right x a| < t: a almost along +-x, b = -a
			for _, rel := range relDistances {
				for _, side := range []float64{-1, 1} {
					sn := t * (1 + side*rel)
					cs := math.Sqrt((1 - sn) * (1 + sn))
					if k++; k%2 == 0 {
						cs = -cs
					}
					phi := float64(k)
					a := []float64{cs, sn * math.Cos(phi), sn * math.Sin(phi)}
					doRot(rotDesc{A: a, B: neg(a)})
				}
			}
		}
	}
	// FromTheta: axes that are nearly but not exactly unit, and axes whose squared length sits at a threshold's
	// distance from 1 (or at the threshold itself), several angles and directions
	angles := []float64{math.Pi / 2, math.Pi, 2.5, -1.2, 3.0, 0.3}
	dirs := [][]float64{{0.6, 0.8, 0}, normalize3([]float64{1, 1, 1}), {0, 1, 0}, normalize3([]float64{-2, 0.5, 3})}
	thetaAt := func(l2 float64) {
		k++
		dir := dirs[k%len(dirs)]
		l := math.Sqrt(l2)
		doTheta(thetaDesc{Theta: angles[k%len(angles)], Axis: []float64{dir[0] * l, dir[1] * l, dir[2] * l},
			V: []float64{1 + float64(k%3), -2, 0.5 * float64(k%5)}})
	}
	for _, rel := range relDistances {
		thetaAt(1 + rel)
		thetaAt(1 - rel)
	}
	for _, t := range thresholds() {
		if t >= 0.5 {
			continue
		}
		for _, rel := range []float64{1e-9, 1e-6, 1e-3} {
			for _, side := range []float64{-1, 1} {
				x := t * (1 + side*rel)
				thetaAt(1 + x)
				thetaAt(1 - x)
				thetaAt(x)
			}
		}
	}
	// Normalize on quaternions of every magnitude, in particular tiny-but-nonzero ones and magnitudes around the
	// square roots of the thresholds
	mags := []float64{1, 1e-2, 1e-3, 3e-3, 1e-4, 1e-6, 1e-9, 1e-12, 1e3, 1e9}
	for _, t := range thresholds() {
		if t < 0.5 {
			mags = append(mags, t, math.Sqrt(t)*0.999, math.Sqrt(t)*1.001, t*0.999, t*1.001)
		}
	}
	for i, m := range mags {
		q := unitQuat(r)
		if i%3 == 0 {
			q = []float64{0, 0, 0, 1}
			q[i%4], q[3] = 1, q[i%4]
		}
		doNorm(normDesc{Q: []float64{q[0] * m, q[1] * m, q[2] * m, q[3] * m}})
	}
	run.Count("fixed:thresholds")
}

func fixedCases() {
	// all 16 x 16 pairs of basis matrices through Add and Multiply
	for i := 0; i < 16; i++ {
		for j := 0; j < 16; j++ {
			doMat2(mat2Desc{A: basis(i), B: basis(j), Exact: true})
		}
	}
	run.Count("fixed:basis-pairs")
	id := []float64{1, 0, 0, 0, 0, 1, 0, 0, 0, 0, 1, 0, 0, 0, 0, 1}
	seq := make([]float64, 16)
	for i := range seq {
		seq[i] = float64(i + 1)
	}
	doMat2(mat2Desc{A: seq, B: id, Exact: true})
	doMat2(mat2Desc{A: id, B: seq, Exact: true})
	doMat1(mat1Desc{A: id, V: []float64{1, 2, 3}, Exact: true, Inv: true})
	doMat1(mat1Desc{A: seq, V: []float64{1, 2, 3}, Exact: true, Inv: false}) // singular
	// every cofactor position: identity with one off-diagonal entry, and permutation-like matrices
	for i := 0; i < 16; i++ {
		m := append([]float64{}, id...)
		m[i] += 2
		if det4(m) != 0 {
			doMat1(mat1Desc{A: m, V: []float64{1, -2, 3}, Exact: true, Inv: math.Abs(det4(m)) == 1 || math.Abs(det4(m)) == 2 || math.Abs(det4(m)) == 4})
		}
	}
	// RotationTo on every pair of signed coordinate axes (parallel, antiparallel incl. the x axis, orthogonal)
	axes := [][]float64{{1, 0, 0}, {-1, 0, 0}, {0, 1, 0}, {0, -1, 0}, {0, 0, 1}, {0, 0, -1}}
	for _, a := range axes {
		for _, b := range axes {
			doRot(rotDesc{A: a, B: b})
		}
	}
	run.Count("fixed:axis-pairs")
	// quaternion units i j k
	qs := [][]float64{{1, 0, 0, 0}, {0, 1, 0, 0}, {0, 0, 1, 0}, {0, 0, 0, 1}}
	for _, p := range qs {
		for _, q := range qs {
			doQuat(quatDesc{Q1: p, Q2: q, V: []float64{1, 2, 3}, Exact: true})
		}
	}
	doTrs(trsDesc{P: []float64{1, 2, 3}, S: []float64{2, 3, 4}, Q: []float64{0, 0, 1, 1}, V: []float64{1, 1, 1}, Exact: true})
	doTrsCtor(trsCtorDesc{P: []float64{1, 2, 3}, S: []float64{2, 3, 4}, Q: []float64{0, 0, 1, 1}, D: []float64{-5, 6, 7}, V: []float64{1, 1, 1}, Exact: true})
	// zero-extent boxes (single points, flat boxes) lying outside the receiver
	unitBox := [2][]float64{{0, 0, 0}, {2, 2, 2}}
	for _, pt := range [][]float64{{5, 5, 5}, {-7, 0, 0}, {0, 3, 0}, {1, 1, -4}} {
		for _, viaPts := range []bool{false, true} {
			doBoxBox(boxBoxDesc{C: unitBox[0], Size: unitBox[1], BC: pt, BSize: []float64{0, 0, 0}, BPoint: viaPts, Exact: true,
				Probes: [][]float64{pt, {0, 0, 0}, {1, 1, 1}, {pt[0] / 2, pt[1] / 2, pt[2] / 2}}})
		}
		doBoxPt(boxPtDesc{C: pt, Size: []float64{0, 0, 0}, Pt: []float64{1, -2, 3}, Probes: [][]float64{pt, {1, -2, 3}, {0, 0, 0}}, Exact: true})
		doClosest(closestDesc{C: pt, Size: []float64{0, 0, 0}, V: []float64{1, -2, 3}, Probes: [][]float64{pt}, Exact: true})
		doBoxFrom(boxFromDesc{Pts: [][]float64{pt}, Exact: true})
	}
	for axis := 0; axis < 3; axis++ { // flat / line boxes outside the receiver
		flat1, flat2 := []float64{4, 6, 2}, []float64{4, 6, 2}
		flat1[axis] = 0
		flat2[axis], flat2[(axis+1)%3] = 0, 0
		for _, bs := range [][]float64{flat1, flat2} {
			bc := []float64{9, -8, 7}
			doBoxBox(boxBoxDesc{C: unitBox[0], Size: unitBox[1], BC: bc, BSize: bs, Exact: true,
				Probes: boxProbes(hx.NewRng(uint64(axis)), true, unitBox, [2][]float64{bc, bs})})
		}
	}
	run.Count("fixed:zero-extent-boxes")
	// array-level entry points on large arrays — the SIZE LADDER: a rung just past every power of two an implementation
	// might switch strategy at (2^10, 2^12, 2^13, 2^14, 2^15; thorough: 2^16, 2^17) plus 8191 / 8192 and 65537, every entry
	// point on every rung, worker counts taking turns; all points distinct; every element compared with the scalar entry
	// point here, samples + a weighted fingerprint of all elements in Coq; inputs must come back unchanged
	workers := []int{2, 3, 5, 7, 16, 4, 8}
	k := 0
	ladder := []int{1<<10 + 1, 1<<12 + 1, 8191, 8192, 1<<13 + 1, 1<<14 + 1, 1<<15 + 1, 1<<16 + 1}
	if run.Tier == "thorough" {
		ladder = append(ladder, 1<<17+1, 1<<17-1, 1<<16, 1<<15, 1<<14, 3<<12+1, 5<<11+3)
	}
	for _, n := range ladder {
		for _, entry := range []string{"trs.TransformArray", "trs.TransformInPlace", "mesh.ApplyTRS", "mesh.Rotate", "mesh.Translate", "mesh.Scale", "quat.RotateArray"} {
			doBig(bigDesc{Entry: entry, N: n, PSeed: uint64(1000 + k), Workers: workers[k%len(workers)],
				P: []float64{1, -2, 3}, S: []float64{2, 3, -1}, Q: []float64{1, 0, 2, -1}})
			k++
		}
		doBigBox(bigBoxDesc{N: n, PSeed: uint64(1000 + k), ViaMesh: k%2 == 0, Off: []float64{float64(k%7) - 3, 0.5, float64(n % 5)}, Workers: workers[k%len(workers)]})
		k++
	}
	for _, n := range []int{0, 1, 2, 3, 5} { // and tiny arrays, every element evaluated in Coq
		for _, entry := range []string{"trs.TransformArray", "trs.TransformInPlace", "quat.RotateArray", "mesh.ApplyTRS", "mesh.Rotate"} {
			doBig(bigDesc{Entry: entry, N: n, PSeed: uint64(2000 + k), Workers: workers[k%len(workers)],
				P: []float64{-3, 2, 1}, S: []float64{1, -2, 3}, Q: []float64{2, 1, 0, -1}})
			k++
		}
	}
	// neutral parameters at the array level (identity rotation, zero translation, unit scale; a rotation by 2^-12):
	// a shortcut that hands back the caller's array or skips the loop shows up as a changed input / a differing element
	for _, c := range []struct{ p, s, q []float64 }{
		{[]float64{0, 0, 0}, []float64{1, 1, 1}, []float64{0, 0, 0, 1}},
		{[]float64{0, 0, 0}, []float64{1, 1, 1}, []float64{0, 1.0 / 4096, 0, 1}},
		{[]float64{1.0 / (1 << 30), 0, 0}, []float64{1, 1 + 1.0/(1<<30), 1}, []float64{0, 0, 0, 1}},
	} {
		for _, entry := range []string{"trs.TransformArray", "trs.TransformInPlace", "quat.RotateArray", "mesh.ApplyTRS", "mesh.Rotate", "mesh.Translate", "mesh.Scale"} {
			doBig(bigDesc{Entry: entry, N: 97 + k%5, PSeed: uint64(3000 + k), Workers: workers[k%len(workers)], P: c.p, S: c.s, Q: c.q})
			k++
		}
	}
	run.Count("fixed:large-arrays")
	doTheta(thetaDesc{Theta: math.Pi / 2, Axis: []float64{0, 0, 2}, V: []float64{1, 0, 0}})
	doTheta(thetaDesc{Theta: math.Pi, Axis: []float64{0, 1, 0}, V: []float64{1, 2, 3}})
	thresholdCases(hx.NewRng(run.Seed + 77))
}

func generated(r *hx.Rng, i int) {
	exact := r.Chance(2, 3)
	switch i % 13 {
	case 12: // operands next to a neutral element / of a special structure (neutral.go)
		structuredGenerated(r)
	case 0: // Add / Multiply
		if exact {
			if r.Bool() {
				doMat2(mat2Desc{A: sparseInts(r, 16, -9, 9), B: sparseInts(r, 16, -9, 9), Exact: true})
			} else {
				doMat2(mat2Desc{A: ints(r, 16, -64, 64), B: ints(r, 16, -64, 64), Exact: true})
			}
		} else {
			doMat2(mat2Desc{A: floats(r, 16, 4), B: floats(r, 16, 4)})
		}
	case 1: // Determinant / Inverse / MulPosition
		switch r.Intn(4) {
		case 0: // determinant a power of two: Inverse exact
			m := dyadicDetMatrix(r)
			run.Count("mat1:exact-inverse")
			doMat1(mat1Desc{A: m, V: ints(r, 3, -9, 9), Exact: true, Inv: true})
		case 1: // integer matrix: Determinant / MulPosition exact
			m := ints(r, 16, -9, 9)
			run.Count("mat1:exact-det")
			doMat1(mat1Desc{A: m, V: ints(r, 3, -9, 9), Exact: true, Inv: false})
		case 2: // integer matrix, Inverse within tolerance
			m := ints(r, 16, -5, 5)
			inv := det4(m) != 0
			run.Count("mat1:int-inverse")
			doMat1(mat1Desc{A: m, V: ints(r, 3, -9, 9), Inv: inv})
		default: // float matrix; Inverse only when reasonably conditioned
			m := floats(r, 16, 4)
			if r.Bool() { // affine
				m[12], m[13], m[14], m[15] = 0, 0, 0, 1
			}
			inv := math.Abs(det4(m)) >= 0.5
			run.Count("mat1:float")
			doMat1(mat1Desc{A: m, V: floats(r, 3, 4), Inv: inv})
		}
	case 2: // quaternion Multiply / Rotate
		if exact {
			doQuat(quatDesc{Q1: ints(r, 4, -8, 8), Q2: ints(r, 4, -8, 8), V: ints(r, 3, -8, 8), Exact: true})
		} else if r.Bool() {
			doQuat(quatDesc{Q1: unitQuat(r), Q2: unitQuat(r), V: floats(r, 3, 4)})
		} else {
			doQuat(quatDesc{Q1: floats(r, 4, 2), Q2: floats(r, 4, 2), V: floats(r, 3, 4)})
		}
	case 3: // RotationTo
		a := unit(r)
		switch r.Intn(8) {
		case 6, 7: // around a threshold of the translated code, random orientation
			ts := thresholds()
			ds := thresholdDots(hx.Pick(r, ts), false)
			doRot(rotDesc{A: a, B: pairWithDot(a, hx.Pick(r, ds), r.Float()*6.283)})
		case 0:
			doRot(rotDesc{A: a, B: neg(a)})
		case 1:
			doRot(rotDesc{A: a, B: a})
		case 2: // antiparallel along a coordinate axis (the fallback-axis branch for +-x)
			ax := [][]float64{{1, 0, 0}, {-1, 0, 0}, {0, 1, 0}, {0, 0, -1}}[r.Intn(4)]
			doRot(rotDesc{A: ax, B: neg(ax)})
		default:
			b := unit(r)
			if d := dot3(a, b); math.Abs(d) > 0.9999 {
				b = []float64{a[1], -a[0], 0} // keep clear of the 1e-6 windows: an orthogonal direction
				l := math.Sqrt(dot3(b, b))
				if l < 0.1 {
					b = []float64{0, a[2], -a[1]}
					l = math.Sqrt(dot3(b, b))
				}
				b = []float64{b[0] / l, b[1] / l, b[2] / l}
			}
			doRot(rotDesc{A: a, B: b})
		}
	case 4: // FromTheta: unit and non-unit axes
		axis := floats(r, 3, 3)
		if r.Bool() {
			axis = unit(r)
		}
		if dot3(axis, axis) < 0.01 {
			axis = []float64{0, 0, 1}
		}
		if r.Chance(1, 3) { // nearly unit: |axis|^2 = 1 +- x, x around a threshold or a small relative distance
			x := hx.Pick(r, relDistances)
			if r.Bool() {
				x = hx.Pick(r, thresholds()) * (1 + (r.Float()*2-1)*1e-3)
			}
			if x < 0.5 {
				u := unit(r)
				l := math.Sqrt(1 + x*float64(1-2*r.Intn(2)))
				axis = []float64{u[0] * l, u[1] * l, u[2] * l}
			}
		}
		doTheta(thetaDesc{Theta: (r.Float()*2 - 1) * 2 * math.Pi, Axis: axis, V: floats(r, 3, 4)})
	case 5: // TRS
		if r.Chance(1, 3) { // single-purpose constructors and Translate
			if exact {
				doTrsCtor(trsCtorDesc{P: ints(r, 3, -9, 9), S: ints(r, 3, -4, 4), Q: ints(r, 4, -4, 4), D: ints(r, 3, -9, 9), V: ints(r, 3, -9, 9), Exact: true})
			} else {
				doTrsCtor(trsCtorDesc{P: floats(r, 3, 8), S: floats(r, 3, 3), Q: unitQuat(r), D: floats(r, 3, 8), V: floats(r, 3, 4)})
			}
		} else if exact {
			doTrs(trsDesc{P: ints(r, 3, -9, 9), S: ints(r, 3, -4, 4), Q: ints(r, 4, -4, 4), V: ints(r, 3, -9, 9), Exact: true})
		} else {
			doTrs(trsDesc{P: floats(r, 3, 8), S: floats(r, 3, 3), Q: unitQuat(r), V: floats(r, 3, 4)})
		}
	case 6: // mesh level
		n := r.Range(1, 6) // the mesh operations require a Position attribute (a declared panic otherwise)
		ps := make([][]float64, n)
		for k := range ps {
			if exact {
				ps[k] = ints(r, 3, -9, 9)
			} else {
				ps[k] = floats(r, 3, 4)
			}
		}
		var idx []int
		if n > 0 {
			for k := r.Range(0, 2) * 3; k > 0; k-- {
				idx = append(idx, r.Intn(n))
			}
		}
		if idx == nil {
			idx = []int{}
		}
		d := meshDesc{Op: r.Intn(4), Ps: ps, Idx: idx, Exact: exact}
		if exact {
			d.P, d.S, d.Q = ints(r, 3, -9, 9), ints(r, 3, -4, 4), ints(r, 4, -4, 4)
		} else {
			d.P, d.S, d.Q = floats(r, 3, 8), floats(r, 3, 3), unitQuat(r)
		}
		doMesh(d)
	case 7: // EncapsulatePoint
		var c, s, pt []float64
		if exact {
			c, s, pt = ints(r, 3, -9, 9), ints(r, 3, 0, 9), dyadics(r, 3, -12, 12, 2)
			if r.Chance(1, 10) {
				s = ints(r, 3, -4, 4) // sizes may be negative: an "inside-out" box contains nothing
			}
		} else {
			c, s, pt = floats(r, 3, 8), floats(r, 3, 4), floats(r, 3, 12)
			for k := range s {
				s[k] = math.Abs(s[k])
			}
		}
		if r.Chance(1, 6) { // tiny but non-zero extents
			for k := range s {
				s[k] /= 1 << 30
			}
		}
		if r.Chance(1, 8) {
			c, s = []float64{0, 0, 0}, []float64{0, 0, 0} // NewEmptyAABB grown from nothing
		} else if r.Chance(1, 8) {
			s = []float64{0, 0, 0} // a single-point box away from the origin
		}
		doBoxPt(boxPtDesc{C: c, Size: s, Pt: pt, Probes: boxProbes(r, exact, [2][]float64{c, s}), Exact: exact})
	case 10: // NewAABBFromPoints
		n := r.Range(1, 6)
		pts := make([][]float64, n)
		for k := range pts {
			if exact {
				pts[k] = ints(r, 3, -9, 9)
			} else {
				pts[k] = floats(r, 3, 8)
			}
		}
		if r.Chance(1, 4) { // coincident / coplanar points: zero extents on all or some axes
			for k := range pts {
				pts[k][r.Intn(3)] = pts[0][0]
				if r.Bool() {
					pts[k] = append([]float64{}, pts[0]...)
				}
			}
		}
		doBoxFrom(boxFromDesc{Pts: pts, Exact: exact})
	case 11: // array-level entry points, sizes 2^k + small offsets (k = 6..16) and arbitrary sizes
		entry := hx.Pick(r, []string{"trs.TransformArray", "trs.TransformInPlace", "mesh.ApplyTRS", "mesh.Rotate", "mesh.Translate", "mesh.Scale", "quat.RotateArray"})
		n := (1 << r.Range(6, 16)) + r.Range(-3, 3)
		if r.Chance(1, 3) {
			n = r.Range(1, 70000)
		}
		if r.Chance(1, 6) {
			doBigBox(bigBoxDesc{N: n, PSeed: r.U64() >> 1, ViaMesh: r.Bool(), Off: ints(r, 3, -9, 9), Workers: hx.Pick(r, []int{2, 3, 4, 5, 8, 16})})
			return
		}
		doBig(bigDesc{Entry: entry, N: n, PSeed: r.U64() >> 1, Workers: hx.Pick(r, []int{2, 3, 4, 5, 6, 7, 8, 11, 13, 16}),
			P: ints(r, 3, -9, 9), S: ints(r, 3, -4, 4), Q: ints(r, 4, -4, 4)})
	case 8: // EncapsulateBounds
		var c, s, bc, bs []float64
		bpoint := false
		if exact {
			c, s, bc, bs = ints(r, 3, -9, 9), ints(r, 3, 0, 9), ints(r, 3, -9, 9), ints(r, 3, 0, 9)
			switch r.Intn(4) { // degenerate boxes to encapsulate: a point, a segment / rectangle
			case 0:
				bs = []float64{0, 0, 0}
				bpoint = r.Bool()
				if r.Bool() { // clearly outside the receiver
					bc = []float64{c[0] + s[0] + float64(r.Range(1, 5)), c[1] - s[1] - float64(r.Range(1, 5)), c[2] + float64(r.Range(-2, 2))}
				}
			case 1:
				bs[r.Intn(3)] = 0
				if r.Bool() {
					bs[r.Intn(3)] = 0
				}
			}
		} else {
			c, s, bc, bs = floats(r, 3, 8), floats(r, 3, 4), floats(r, 3, 8), floats(r, 3, 4)
			for k := range s {
				s[k], bs[k] = math.Abs(s[k]), math.Abs(bs[k])
			}
		}
		if !exact && r.Chance(1, 4) {
			bs = []float64{0, 0, 0}
			bpoint = r.Bool()
		}
		doBoxBox(boxBoxDesc{C: c, Size: s, BC: bc, BSize: bs, BPoint: bpoint,
			Probes: boxProbes(r, exact, [2][]float64{c, s}, [2][]float64{bc, bs}), Exact: exact})
	default: // ClosestPoint
		var c, s, v []float64
		if exact {
			c, s, v = ints(r, 3, -9, 9), ints(r, 3, 0, 9), dyadics(r, 3, -14, 14, 2)
		} else {
			c, s, v = floats(r, 3, 8), floats(r, 3, 4), floats(r, 3, 12)
			for k := range s {
				s[k] = math.Abs(s[k])
			}
		}
		if r.Chance(1, 6) { // tiny but non-zero extents
			for k := range s {
				s[k] /= 1 << 30
			}
		}
		if r.Chance(1, 6) { // a single-point / flat box
			s[r.Intn(3)] = 0
			if r.Bool() {
				s = []float64{0, 0, 0}
			}
		}
		if r.Chance(1, 4) { // a query point inside the box
			for k := range v {
				if exact {
					v[k] = c[k] + float64(r.Range(int(-s[k]), int(s[k])))/2
				} else {
					v[k] = c[k] + (r.Float()*2-1)*s[k]/2*0.99
				}
			}
		}
		doClosest(closestDesc{C: c, Size: s, V: v, Probes: boxProbes(r, exact, [2][]float64{c, s}), Exact: exact})
	}
}
