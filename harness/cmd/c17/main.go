// C17 harness: transform algebra.  Runs math/mat, math/quaternion, math/trs, math/geometry (AABB) and the
// mesh-level Rotate/Translate/Scale/ApplyTRS of the repository under test and writes every observation as a
// Coq case for Check/C17.v.  All numbers are printed as the exact rationals the float64 values denote.
//
//   - exact stream (tol = 0): integer / dyadic inputs small enough that every float64 operation of the Go code
//     is exact, so the generated Gallina code evaluated over Q must reproduce the Go result exactly
//     (translator validation) and the law must hold exactly on the implementation's output.  It starts with all
//     16x16 pairs of basis matrices E_ij, E_kl through Add and Multiply (decides the two bilinear maps).
//   - tolerance stream: arbitrary floats / unit vectors / inverses / square roots, compared in Coq with an
//     absolute tolerance derived here from the magnitudes (1e-9 relative).
//   - a non-finite result (NaN, Inf) where the property promises a finite one is reported through GoFail.
package main

import (
	"encoding/json"
	"fmt"
	"math"
	"runtime"
	"strings"

	"verif/harness/hx"

	"github.com/EliCDavis/polyform/math/geometry"
	"github.com/EliCDavis/polyform/math/mat"
	"github.com/EliCDavis/polyform/math/quaternion"
	"github.com/EliCDavis/polyform/math/trs"
	"github.com/EliCDavis/polyform/modeling"
	"github.com/EliCDavis/vector/vector3"
)

var run *hx.Run

// ---------------------------------------------------------------- descriptions (replayable inputs)
type mat2Desc struct {
	A, B  []float64
	Exact bool
}
type mat1Desc struct {
	A     []float64
	V     []float64
	Exact bool
	Inv   bool // also observe Inverse (det != 0)
}
type quatDesc struct {
	Q1, Q2 []float64 // x y z w
	V      []float64
	Exact  bool
	Rel    float64 `json:",omitempty"` // relative tolerance of a float case when tighter than 1e-9 (tiny-angle stream)
}
type rotDesc struct{ A, B []float64 }
type normDesc struct{ Q []float64 }
type thetaDesc struct {
	Theta   float64
	Axis, V []float64
}
type trsDesc struct {
	P, S, Q, V []float64
	Exact      bool
	Rel        float64 `json:",omitempty"`
}
type trsCtorDesc struct {
	P, S, Q, D, V []float64
	Exact         bool
	Rel           float64 `json:",omitempty"`
}
type meshDesc struct {
	Op      int // 0 Rotate 1 Translate 2 Scale 3 ApplyTRS
	P, S, Q []float64
	Ps      [][]float64
	Idx     []int
	Exact   bool
	Rel     float64 `json:",omitempty"`
}
type boxPtDesc struct {
	C, Size, Pt []float64
	Probes      [][]float64
	Exact       bool
}
type boxBoxDesc struct {
	C, Size, BC, BSize []float64
	Probes             [][]float64
	Exact              bool
	BPoint             bool // the box to encapsulate is the single-point box NewAABBFromPoints(BC)
}
type boxFromDesc struct {
	Pts   [][]float64
	Exact bool
}

// array-level entry point on a large array: N pairwise DISTINCT integer points of [-32,31]^3 (distinctPoints(N, PSeed))
type bigDesc struct {
	Entry   string // mesh.Rotate mesh.Translate mesh.Scale mesh.ApplyTRS trs.TransformArray trs.TransformInPlace quat.RotateArray
	N       int
	PSeed   uint64
	Workers int // GOMAXPROCS while the array-level function runs
	P, S, Q []float64
}
// the remaining exported AABB methods: Min / Max / Size / Volume / Intersects(other) / Expand(amount)
type boxMiscDesc struct {
	C, Size, OC, OSize []float64
	Amount             float64
	Exact              bool
}

// MatFromDirs(up, forward, offset)
type matDirsDesc struct{ Up, Fwd, Off []float64 }
type closestDesc struct {
	C, Size, V []float64
	Probes     [][]float64
	Exact      bool
}

// ---------------------------------------------------------------- conversions
func toMat(a []float64) mat.Matrix4x4 {
	return mat.Matrix4x4{
		X00: a[0], X01: a[1], X02: a[2], X03: a[3],
		X10: a[4], X11: a[5], X12: a[6], X13: a[7],
		X20: a[8], X21: a[9], X22: a[10], X23: a[11],
		X30: a[12], X31: a[13], X32: a[14], X33: a[15],
	}
}
func fromMat(m mat.Matrix4x4) []float64 {
	return []float64{m.X00, m.X01, m.X02, m.X03, m.X10, m.X11, m.X12, m.X13,
		m.X20, m.X21, m.X22, m.X23, m.X30, m.X31, m.X32, m.X33}
}
func toV(a []float64) vector3.Float64   { return vector3.New(a[0], a[1], a[2]) }
func fromV(v vector3.Float64) []float64 { return []float64{v.X(), v.Y(), v.Z()} }
func toQ(a []float64) quaternion.Quaternion {
	return quaternion.New(vector3.New(a[0], a[1], a[2]), a[3])
}
func fromQ(q quaternion.Quaternion) []float64 {
	return []float64{q.Dir().X(), q.Dir().Y(), q.Dir().Z(), q.W()}
}
func boxParts(b geometry.AABB) (c, e []float64) {
	s := b.Size()
	return fromV(b.Center()), []float64{s.X() / 2, s.Y() / 2, s.Z() / 2}
}

func tolOf(exact bool, scale float64) string { return tolRel(exact, 0, scale) }

// tolRel: the absolute tolerance handed to the Coq evaluator: 0 on the exact stream, else rel (default 1e-9) x magnitude
func tolRel(exact bool, rel, scale float64) string {
	if exact {
		return "0%Q"
	}
	if rel <= 0 {
		rel = 1e-9
	}
	return qone(rel * scale)
}

func keyOf(kind string, d interface{}) string {
	b, _ := json.Marshal(d)
	return kind + ":" + string(b)
}

// guard runs f under recover; a panic is a crash of the implementation
func guard(f func()) (crash string) {
	defer func() {
		if r := recover(); r != nil {
			crash = fmt.Sprint("panic: ", r)
		}
	}()
	f()
	return ""
}

func add(kind string, d interface{}, nontriv bool, coq string, fail string, allFinite bool) {
	c := hx.Case{Kind: kind, Desc: d, Coq: coq, Nontriv: nontriv, Key: keyOf(kind, d)}
	if fail != "" {
		c.GoFail = fail
		c.Coq = "CSkip"
	} else if !allFinite {
		c.GoFail = "non-finite result (NaN/Inf) on finite input"
		c.Coq = "CSkip"
	}
	run.Add(c)
}

func nonzero(xs ...[]float64) bool {
	for _, l := range xs {
		z := true
		for _, x := range l {
			if x != 0 {
				z = false
			}
		}
		if z {
			return false
		}
	}
	return true
}
func flat(xs ...[]float64) []float64 {
	var o []float64
	for _, l := range xs {
		o = append(o, l...)
	}
	return o
}

// ---------------------------------------------------------------- one observation per kind
func doMat2(d mat2Desc) {
	var sum, prod []float64
	crash := guard(func() {
		a, b := toMat(d.A), toMat(d.B)
		sum = fromMat(a.Add(b))
		prod = fromMat(a.Multiply(b))
	})
	m := (1 + maxabs(d.A)) * (1 + maxabs(d.B))
	coq := ""
	if crash == "" && finite(flat(sum, prod)...) {
		crash = refMat2(d.A, d.B, sum, prod, relOf(d.Exact, 0))
	}
	ok := crash == "" && finite(flat(sum, prod)...)
	if ok {
		coq = fmt.Sprintf("CMat2 %s %s %s %s %s", tolOf(d.Exact, m), qlist(d.A), qlist(d.B), qlist(sum), qlist(prod))
	}
	add("mat2", d, nonzero(d.A, d.B), coq, crash, ok)
}

func doMat1(d mat1Desc) {
	var det float64
	var inv, mp []float64
	crash := guard(func() {
		a := toMat(d.A)
		det = a.Determinant()
		mp = fromV(a.MulPosition(toV(d.V)))
		if d.Inv {
			inv = fromMat(a.Inverse())
		} else {
			inv = []float64{}
		}
	})
	m := 1 + maxabs(d.A)
	scale := m * m * m * m * (1 + maxabs(d.V))
	coq := ""
	if crash == "" && finite(det) && finite(flat(inv, mp)...) {
		crash = refMat1(d.A, d.V, det, d.Inv, inv, mp, relOf(d.Exact, 0))
	}
	ok := crash == "" && finite(det) && finite(flat(inv, mp)...)
	if ok {
		coq = fmt.Sprintf("CMat1 %s %s %s %s %s %s %s", tolOf(d.Exact, scale), qlist(d.A), qlist(d.V), qone(det),
			hx.CoqBool(d.Inv), qlist(inv), qlist(mp))
	}
	ident := true
	for i, x := range d.A {
		want := 0.0
		if i%5 == 0 {
			want = 1
		}
		if x != want {
			ident = false
		}
	}
	add("mat1", d, !ident && nonzero(d.A), coq, crash, ok)
}

func doQuat(d quatDesc) {
	var prod, r2, r12, r1 []float64
	arrOK := true
	crash := guard(func() {
		q1, q2, v := toQ(d.Q1), toQ(d.Q2), toV(d.V)
		p := q1.Multiply(q2)
		prod = fromQ(p)
		arrOK = p.ToArr() == [4]float64{prod[0], prod[1], prod[2], prod[3]} && q2.Vector4().X() == d.Q2[0] &&
			q2.Vector4().Y() == d.Q2[1] && q2.Vector4().Z() == d.Q2[2] && q2.Vector4().W() == d.Q2[3]
		w := q2.Rotate(v)
		r2 = fromV(w)
		r12 = fromV(p.Rotate(v))
		r1 = fromV(q1.Rotate(w))
	})
	n1, n2 := 1+maxabs(d.Q1), 1+maxabs(d.Q2)
	scale := n1 * n1 * n2 * n2 * n2 * n2 * (1 + maxabs(d.V)) * (1 + maxabs(d.V)) * 16
	coq := ""
	if crash == "" && finite(flat(prod, r2, r12, r1)...) {
		crash = refQuat(d.Q1, d.Q2, d.V, prod, r2, r12, r1, relOf(d.Exact, d.Rel))
		if crash == "" && !arrOK {
			crash = "Quaternion.ToArr / Vector4 do not return the components (x, y, z, w) of the quaternion"
		}
	}
	ok := crash == "" && finite(flat(prod, r2, r12, r1)...)
	if ok {
		coq = fmt.Sprintf("CQuat %s %s %s %s %s %s %s %s", tolRel(d.Exact, d.Rel, scale), qlist(d.Q1), qlist(d.Q2), qlist(d.V),
			qlist(prod), qlist(r2), qlist(r12), qlist(r1))
	}
	add("quat", d, nonzero(d.Q1[:3], d.Q2[:3], d.V), coq, crash, ok)
}

func dot3(a, b []float64) float64 { return a[0]*b[0] + a[1]*b[1] + a[2]*b[2] }

func doRot(d rotDesc) {
	var q, ra []float64
	crash := guard(func() {
		a, b := toV(d.A), toV(d.B)
		r := quaternion.RotationTo(a, b)
		q = fromQ(r)
		ra = fromV(r.Rotate(a))
	})
	dt := dot3(d.A, d.B)
	want := d.B
	branch := "generic"
	if dt < -0.999999 {
		want = []float64{-d.A[0], -d.A[1], -d.A[2]}
		branch = "antiparallel"
	} else if dt > 0.999999 {
		want = d.A
		branch = "parallel"
	}
	run.Count("rotto:" + branch)
	// distance of the image from b itself: within the 1e-6 window on the dot product |(-a) - b| < 1.5e-3
	if crash == "" && finite(ra...) {
		dx := math.Sqrt((ra[0]-d.B[0])*(ra[0]-d.B[0]) + (ra[1]-d.B[1])*(ra[1]-d.B[1]) + (ra[2]-d.B[2])*(ra[2]-d.B[2]))
		// the un-normalised quaternion has norm^2 = 2(1+dot): rounding of the (unit only to 1e-16) inputs is
		// amplified by 1/(1+dot) just outside the antiparallel window — proportional to magnitude, far from O(1)
		lim := 1e-9 + 4e-15/(1+dt)
		if branch != "generic" {
			lim = 1.5e-3
		}
		if dx > lim {
			crash = fmt.Sprintf("Rotate(RotationTo(a,b), a) is %g away from b (limit %g, branch %s)", dx, lim, branch)
		}
	}
	coq := ""
	ok := crash == "" && finite(flat(q, ra)...)
	if ok {
		coq = fmt.Sprintf("CRotTo %s %s %s %s %s %s", qone(1e-9+4e-15/math.Max(1+dt, 1e-7)), qlist(d.A), qlist(d.B), qlist(q), qlist(ra), qlist(want))
	}
	add("rotto", d, true, coq, crash, ok)
}

func doNorm(d normDesc) {
	var out []float64
	crash := guard(func() { out = fromQ(toQ(d.Q).Normalize()) })
	coq := ""
	if crash == "" && finite(out...) { // Go-side: unit length, same direction
		l := math.Sqrt(norm2(d.Q))
		if n2 := norm2(out); math.Abs(n2-1) > 1e-9 {
			crash = fmt.Sprintf("Normalize(q) is not a unit quaternion: |out|^2 - 1 = %g", n2-1)
		}
		for i := 0; i < 4 && crash == ""; i++ {
			if math.Abs(out[i]*l-d.Q[i]) > 1e-9*l {
				crash = fmt.Sprintf("Normalize(q)[%d] = %.17g, q[%d]/|q| = %.17g", i, out[i], i, d.Q[i]/l)
			}
		}
	}
	ok := crash == "" && finite(out...)
	if ok {
		coq = fmt.Sprintf("CNorm %s %s %s %s", qone(1e-9), qone(1e-9*maxabs(d.Q)), qlist(d.Q), qlist(out))
	}
	add("norm", d, true, coq, crash, ok)
}

func doTheta(d thetaDesc) {
	var q, rv, rax []float64
	crash := guard(func() {
		r := quaternion.FromTheta(d.Theta, toV(d.Axis))
		q = fromQ(r)
		rv = fromV(r.Rotate(toV(d.V)))
		rax = fromV(r.Rotate(toV(d.Axis)))
	})
	scale := (1 + maxabs(d.V)) * (1 + maxabs(d.V)) * (1 + maxabs(d.Axis))
	// float oracle (works even when the Coq side does not build): unit quaternion, length preserved, axis fixed,
	// agreement with Rodrigues' formula  v cos t + (k x v) sin t + k (k.v)(1 - cos t),  k = axis/|axis|
	if crash == "" && finite(flat(q, rv, rax)...) {
		la := math.Sqrt(dot3(d.Axis, d.Axis))
		k := []float64{d.Axis[0] / la, d.Axis[1] / la, d.Axis[2] / la}
		st, ct := math.Sin(d.Theta), math.Cos(d.Theta)
		kv := dot3(k, d.V)
		kxv := []float64{k[1]*d.V[2] - k[2]*d.V[1], k[2]*d.V[0] - k[0]*d.V[2], k[0]*d.V[1] - k[1]*d.V[0]}
		lv, lr := math.Sqrt(dot3(d.V, d.V)), math.Sqrt(dot3(rv, rv))
		n2 := q[0]*q[0] + q[1]*q[1] + q[2]*q[2] + q[3]*q[3]
		switch {
		case math.Abs(n2-1) > 1e-9:
			crash = fmt.Sprintf("FromTheta(theta, axis) is not a unit quaternion: |q|^2 - 1 = %g", n2-1)
		case math.Abs(lr-lv) > 1e-9*(1+lv):
			crash = fmt.Sprintf("Rotate(FromTheta(theta, axis), v) changes the length of v: %.17g -> %.17g", lv, lr)
		}
		for i := 0; i < 3 && crash == ""; i++ {
			want := d.V[i]*ct + kxv[i]*st + k[i]*kv*(1-ct)
			if math.Abs(rv[i]-want) > 1e-9*(1+lv) {
				crash = fmt.Sprintf("Rotate(FromTheta(theta, axis), v)[%d] = %.17g, Rodrigues' formula gives %.17g", i, rv[i], want)
			}
			if math.Abs(rax[i]-d.Axis[i]) > 1e-9*(1+la) {
				crash = fmt.Sprintf("Rotate(FromTheta(theta, axis), axis) moves the axis: component %d %.17g -> %.17g", i, d.Axis[i], rax[i])
			}
		}
	}
	coq := ""
	ok := crash == "" && finite(flat(q, rv, rax)...)
	if ok {
		coq = fmt.Sprintf("CTheta %s %s %s %s %s %s %s", qone(1e-9*scale), qone(d.Theta), qlist(d.Axis), qlist(d.V),
			qlist(q), qlist(rv), qlist(rax))
	}
	add("theta", d, d.Theta != 0 && nonzero(d.V), coq, crash, ok)
}

func trsScale(d []float64, s, q, v []float64) float64 {
	n := 1 + maxabs(q)
	return n*n*(1+maxabs(s))*(1+maxabs(v))*16 + maxabs(d)
}

func doTrs(d trsDesc) {
	var out []float64
	crash := guard(func() {
		t := trs.New(toV(d.P), toQ(d.Q), toV(d.S))
		out = fromV(t.Transform(toV(d.V)))
	})
	coq := ""
	if crash == "" && finite(out...) {
		want, mag := refTrs(d.P, d.S, d.Q, d.V)
		crash = vecOff("New(p,q,s).Transform(v)", out, want, relOf(d.Exact, d.Rel)*mag)
	}
	ok := crash == "" && finite(out...)
	if ok {
		coq = fmt.Sprintf("CTrs %s %s %s %s %s %s", tolRel(d.Exact, d.Rel, trsScale(d.P, d.S, d.Q, d.V)), qlist(d.P), qlist(d.S),
			qlist(d.Q), qlist(d.V), qlist(out))
	}
	add("trs", d, nonzero(d.P, d.Q[:3], d.V) && (d.S[0] != d.S[1] || d.S[1] != d.S[2]), coq, crash, ok)
}

func doTrsCtor(d trsCtorDesc) {
	var oP, oS, oR, oT []float64
	crash := guard(func() {
		v := toV(d.V)
		oP = fromV(trs.Position(toV(d.P)).Transform(v))
		oS = fromV(trs.Scale(toV(d.S)).Transform(v))
		oR = fromV(trs.Rotation(toQ(d.Q)).Transform(v))
		oT = fromV(trs.New(toV(d.P), toQ(d.Q), toV(d.S)).Translate(toV(d.D)).Transform(v))
		// the accessors return what the constructor stored
		if t := trs.New(toV(d.P), toQ(d.Q), toV(d.S)); t.Position() != toV(d.P) || t.Scale() != toV(d.S) || t.Rotation() != toQ(d.Q) {
			panic("TRS.Position / Scale / Rotation do not return the components given to trs.New")
		}
	})
	coq := ""
	if crash == "" && finite(flat(oP, oS, oR, oT)...) {
		rel := relOf(d.Exact, d.Rel)
		id, one, zero := []float64{0, 0, 0, 1}, []float64{1, 1, 1}, []float64{0, 0, 0}
		for _, c := range []struct {
			what       string
			got        []float64
			p, s, q, t []float64
		}{{"Position(p).Transform(v)", oP, d.P, one, id, zero}, {"Scale(s).Transform(v)", oS, zero, d.S, id, zero},
			{"Rotation(q).Transform(v)", oR, zero, one, d.Q, zero}, {"New(p,q,s).Translate(d).Transform(v)", oT, d.P, d.S, d.Q, d.D}} {
			want, mag := refTrs(c.p, c.s, c.q, d.V)
			want = []float64{want[0] + c.t[0], want[1] + c.t[1], want[2] + c.t[2]}
			if crash = vecOff(c.what, c.got, want, rel*(mag+maxabs(c.t))); crash != "" {
				break
			}
		}
	}
	ok := crash == "" && finite(flat(oP, oS, oR, oT)...)
	if ok {
		coq = fmt.Sprintf("CTrsCtor %s %s %s %s %s %s %s %s %s %s", tolRel(d.Exact, d.Rel, trsScale(flat(d.P, d.D), d.S, d.Q, d.V)),
			qlist(d.P), qlist(d.S), qlist(d.Q), qlist(d.D), qlist(d.V), qlist(oP), qlist(oS), qlist(oR), qlist(oT))
	}
	add("trsctor", d, nonzero(d.P, d.S, d.Q[:3], d.D, d.V), coq, crash, ok)
}

func doMesh(d meshDesc) {
	var out, pw [][]float64
	rest := true
	crash := guard(func() {
		ps := make([]vector3.Float64, len(d.Ps))
		other := make([]vector3.Float64, len(d.Ps))
		for i, p := range d.Ps {
			ps[i] = toV(p)
			other[i] = vector3.New(float64(i), p[0], -p[1])
		}
		m := modeling.NewMesh(modeling.TriangleTopology, d.Idx).
			SetFloat3Attribute(modeling.PositionAttribute, ps).
			SetFloat3Attribute(modeling.NormalAttribute, other)
		var res modeling.Mesh
		var f func(vector3.Float64) vector3.Float64
		switch d.Op {
		case 0:
			q := toQ(d.Q)
			res = m.Rotate(q)
			f = q.Rotate
		case 1:
			res = m.Translate(toV(d.P))
			f = func(v vector3.Float64) vector3.Float64 { return v.Add(toV(d.P)) }
		case 2:
			res = m.Scale(toV(d.S))
			f = func(v vector3.Float64) vector3.Float64 { return v.MultByVector(toV(d.S)) }
		default:
			t := trs.New(toV(d.P), toQ(d.Q), toV(d.S))
			res = m.ApplyTRS(t)
			f = t.Transform
		}
		rp := res.Float3Attribute(modeling.PositionAttribute)
		out = make([][]float64, rp.Len())
		for i := 0; i < rp.Len(); i++ {
			out[i] = fromV(rp.At(i))
		}
		pw = make([][]float64, len(d.Ps))
		for i, p := range d.Ps {
			pw[i] = fromV(f(toV(p)))
		}
		// everything else is untouched: indices, the other attribute, the input mesh itself
		ri := res.Indices()
		if ri.Len() != len(d.Idx) {
			rest = false
		} else {
			for i := range d.Idx {
				if ri.At(i) != d.Idx[i] {
					rest = false
				}
			}
		}
		rn := res.Float3Attribute(modeling.NormalAttribute)
		op := m.Float3Attribute(modeling.PositionAttribute)
		if rn.Len() != len(other) || op.Len() != len(ps) {
			rest = false
		} else {
			for i := range other {
				if rn.At(i) != other[i] || op.At(i) != toV(d.Ps[i]) {
					rest = false
				}
			}
		}
	})
	coq := ""
	ok := crash == ""
	for _, l := range out {
		ok = ok && finite(l...)
	}
	if ok { // Go-side: same length, every position moved as the reference transform moves the point, nothing else touched
		rel := relOf(d.Exact, d.Rel)
		if len(out) != len(d.Ps) {
			crash = fmt.Sprintf("mesh operation %d changed the number of positions: %d -> %d", d.Op, len(d.Ps), len(out))
		} else if !rest {
			crash = fmt.Sprintf("mesh operation %d changed the indices, another attribute or the input mesh", d.Op)
		}
		for i := 0; i < len(d.Ps) && crash == ""; i++ {
			p, sc, q := []float64{0, 0, 0}, []float64{1, 1, 1}, []float64{0, 0, 0, 1}
			switch d.Op {
			case 0:
				q = d.Q
			case 1:
				p = d.P
			case 2:
				sc = d.S
			default:
				p, sc, q = d.P, d.S, d.Q
			}
			want, mag := refTrs(p, sc, q, d.Ps[i])
			crash = vecOff(fmt.Sprintf("mesh operation %d, position %d", d.Op, i), out[i], want, rel*mag)
		}
		ok = crash == ""
	}
	if ok {
		coq = fmt.Sprintf("CMesh %s %d %s %s %s %s %s %s %s", tolRel(d.Exact, d.Rel, trsScale(d.P, d.S, d.Q, flat(d.Ps...))), d.Op,
			qlist(d.P), qlist(d.S), qlist(d.Q), qlistlist(d.Ps), qlistlist(out), qlistlist(pw), hx.CoqBool(rest))
	}
	add("mesh", d, len(d.Ps) > 0 && nonzero(d.Ps...), coq, crash, ok)
}

func probeItems(probes [][]float64, flags func(p []float64) string) string {
	items := make([]string, len(probes))
	for i, p := range probes {
		items[i] = "(" + qlist(p) + "," + flags(p) + ")"
	}
	return "[" + strings.Join(items, ";") + "]"
}

func doBoxPt(d boxPtDesc) {
	var c, e, c2, e2 []float64
	var flags, containsOff string
	var cpt bool
	crash := guard(func() {
		old := geometry.NewAABB(toV(d.C), toV(d.Size))
		if !nonzero(flat(d.C, d.Size)) {
			old = geometry.NewEmptyAABB() // the same box, through the other constructor
		}
		nb := old
		nb.EncapsulatePoint(toV(d.Pt))
		c, e = boxParts(old)
		c2, e2 = boxParts(nb)
		cpt = nb.Contains(toV(d.Pt))
		flags = probeItems(d.Probes, func(p []float64) string {
			co, cn := old.Contains(toV(p)), nb.Contains(toV(p))
			if d.Exact && (co != inBoxTol(c, e, p, 0) || cn != inBoxTol(c2, e2, p, 0)) && containsOff == "" {
				containsOff = fmt.Sprintf("Contains(%v) = %v for the box centre %v extents %v, and %v for centre %v extents %v", p, co, c, e, cn, c2, e2)
			}
			return fmt.Sprintf("(%s,%s)", hx.CoqBool(co), hx.CoqBool(cn))
		})
	})
	if crash == "" {
		crash = containsOff
	}
	coq := ""
	if crash == "" && finite(flat(c, e, c2, e2)...) {
		lim := 0.0
		if !d.Exact {
			lim = 1e-9 * (1 + maxabs(d.C, d.Size, d.Pt))
		}
		if !inBoxTol(c2, e2, d.Pt, lim) || (d.Exact && !cpt) {
			crash = fmt.Sprintf("the box grown by EncapsulatePoint(%v) is centre %v extents %v: it does not contain the point (Contains: %v)", d.Pt, c2, e2, cpt)
		}
		for _, p := range d.Probes {
			if crash == "" && inBoxTol(c, e, p, 0) && !inBoxTol(c2, e2, p, lim) {
				crash = fmt.Sprintf("%v was in the box before EncapsulatePoint(%v) and is not in the grown box (centre %v extents %v)", p, d.Pt, c2, e2)
			}
		}
	}
	ok := crash == "" && finite(flat(c, e, c2, e2)...)
	if ok {
		coq = fmt.Sprintf("CBoxPt %s %s %s %s %s %s %s %s", tolOf(d.Exact, 1+maxabs(d.C, d.Size, d.Pt)), qlist(c), qlist(e),
			qlist(d.Pt), qlist(c2), qlist(e2), flags, hx.CoqBool(cpt))
	}
	add("boxpt", d, nonzero(d.Size), coq, crash, ok)
}

func doBoxBox(d boxBoxDesc) {
	var c, e, bc, be, c2, e2 []float64
	var flags string
	crash := guard(func() {
		old := geometry.NewAABB(toV(d.C), toV(d.Size))
		other := geometry.NewAABB(toV(d.BC), toV(d.BSize))
		if d.BPoint {
			other = geometry.NewAABBFromPoints(toV(d.BC))
		}
		nb := old
		nb.EncapsulateBounds(other)
		c, e = boxParts(old)
		bc, be = boxParts(other)
		c2, e2 = boxParts(nb)
		flags = probeItems(d.Probes, func(p []float64) string {
			return fmt.Sprintf("(%s,(%s,%s))", hx.CoqBool(old.Contains(toV(p))), hx.CoqBool(other.Contains(toV(p))),
				hx.CoqBool(nb.Contains(toV(p))))
		})
	})
	coq := ""
	if crash == "" && finite(flat(c, e, bc, be, c2, e2)...) {
		lim := 0.0
		if !d.Exact {
			lim = 1e-9 * (1 + maxabs(d.C, d.Size, d.BC, d.BSize))
		}
		for _, p := range d.Probes {
			if crash == "" && (inBoxTol(c, e, p, 0) || inBoxTol(bc, be, p, 0)) && !inBoxTol(c2, e2, p, lim) {
				crash = fmt.Sprintf("%v is in one of the two boxes and not in the box grown by EncapsulateBounds (centre %v extents %v)", p, c2, e2)
			}
		}
	}
	ok := crash == "" && finite(flat(c, e, bc, be, c2, e2)...)
	if ok {
		coq = fmt.Sprintf("CBoxBox %s %s %s %s %s %s %s %s", tolOf(d.Exact, 1+maxabs(d.C, d.Size, d.BC, d.BSize)), qlist(c), qlist(e),
			qlist(bc), qlist(be), qlist(c2), qlist(e2), flags)
	}
	add("boxbox", d, nonzero(flat(d.C, d.Size, d.BC, d.BSize)), coq, crash, ok)
}

func doBoxFrom(d boxFromDesc) {
	var c, e []float64
	var cont []string
	crash := guard(func() {
		pts := make([]vector3.Float64, len(d.Pts))
		for i, p := range d.Pts {
			pts[i] = toV(p)
		}
		b := geometry.NewAABBFromPoints(pts...)
		c, e = boxParts(b)
		for _, p := range pts {
			cont = append(cont, hx.CoqBool(b.Contains(p)))
		}
	})
	coq := ""
	if crash == "" && finite(flat(c, e)...) {
		lim := 0.0
		if !d.Exact {
			lim = 1e-9 * (1 + maxabs(d.Pts...))
		}
		for _, p := range d.Pts {
			if crash == "" && !inBoxTol(c, e, p, lim) {
				crash = fmt.Sprintf("NewAABBFromPoints: %v is not in the resulting box (centre %v extents %v)", p, c, e)
			}
		}
	}
	ok := crash == "" && finite(flat(c, e)...)
	if ok {
		coq = fmt.Sprintf("CBoxFrom %s %s %s %s [%s]", tolOf(d.Exact, 1+maxabs(d.Pts...)), qlistlist(d.Pts), qlist(c), qlist(e),
			strings.Join(cont, ";"))
	}
	add("boxfrom", d, len(d.Pts) > 0 && nonzero(flat(d.Pts...)), coq, crash, ok)
}

var bigOps = map[string]int{"mesh.Rotate": 0, "quat.RotateArray": 0, "mesh.Translate": 1, "mesh.Scale": 2,
	"mesh.ApplyTRS": 3, "trs.TransformArray": 3, "trs.TransformInPlace": 3}

func doBig(d bigDesc) {
	op, known := bigOps[d.Entry]
	if !known || d.N < 0 || (d.N == 0 && strings.HasPrefix(d.Entry, "mesh.")) { // a mesh needs a Position attribute
		return
	}
	in := distinctPoints(d.N, d.PSeed)
	q, t := toQ(d.Q), trs.New(toV(d.P), toQ(d.Q), toV(d.S))
	var scalar func(vector3.Float64) vector3.Float64
	switch op {
	case 0:
		scalar = q.Rotate
	case 1:
		scalar = func(v vector3.Float64) vector3.Float64 { return v.Add(toV(d.P)) }
	case 2:
		scalar = func(v vector3.Float64) vector3.Float64 { return v.MultByVector(toV(d.S)) }
	default:
		scalar = t.Transform
	}
	var out []vector3.Float64
	inputTouched := -1
	crash := guard(func() {
		if d.Workers > 0 {
			defer runtime.GOMAXPROCS(runtime.GOMAXPROCS(d.Workers))
		}
		mesh := func() modeling.Mesh {
			return modeling.NewMesh(modeling.PointTopology, []int{}).SetFloat3Attribute(modeling.PositionAttribute, append([]vector3.Float64{}, in...))
		}
		pos := func(m modeling.Mesh) []vector3.Float64 {
			it := m.Float3Attribute(modeling.PositionAttribute)
			o := make([]vector3.Float64, it.Len())
			for i := range o {
				o[i] = it.At(i)
			}
			return o
		}
		// the caller's array / the receiver mesh must come back unchanged (TransformInPlace is the one entry point that
		// is specified to overwrite its argument)
		arg := append([]vector3.Float64{}, in...)
		var m modeling.Mesh
		if strings.HasPrefix(d.Entry, "mesh.") {
			m = mesh()
		}
		switch d.Entry {
		case "mesh.Rotate":
			out = pos(m.Rotate(q))
		case "mesh.Translate":
			out = pos(m.Translate(toV(d.P)))
		case "mesh.Scale":
			out = pos(m.Scale(toV(d.S)))
		case "mesh.ApplyTRS":
			out = pos(m.ApplyTRS(t))
		case "trs.TransformArray":
			out = t.TransformArray(arg)
		case "trs.TransformInPlace":
			out = append([]vector3.Float64{}, in...)
			t.TransformInPlace(out)
		case "quat.RotateArray":
			out = q.RotateArray(arg)
		}
		if strings.HasPrefix(d.Entry, "mesh.") {
			arg = pos(m)
		}
		for i := range in {
			if i >= len(arg) || arg[i] != in[i] {
				inputTouched = i
				break
			}
		}
		if len(arg) != len(in) && inputTouched < 0 {
			inputTouched = len(in)
		}
	})
	mism, first := 0, -1
	for i := 0; i < len(in) && i < len(out); i++ {
		if out[i] != scalar(in[i]) {
			if first < 0 {
				first = i
			}
			mism++
		}
	}
	// samples evaluated in Coq: ends, middle, the start of a possible remainder chunk, the first mismatch
	idx := []int{0, d.N / 2, d.N - 2, d.N - 1}
	if d.N <= 6 {
		idx = []int{0, 1, 2, 3, 4, 5}
	}
	if d.Workers > 0 && d.N%d.Workers != 0 {
		idx = append(idx, d.N-d.N%d.Workers)
	}
	if first >= 0 {
		idx = append(idx, first)
	}
	seen := map[int]bool{}
	var items []string
	ok := crash == ""
	for _, i := range idx {
		if i < 0 || i >= len(in) || i >= len(out) || seen[i] {
			continue
		}
		seen[i] = true
		o := fromV(out[i])
		ok = ok && finite(o...)
		if ok {
			items = append(items, "("+qlist(fromV(in[i]))+","+qlist(o)+")")
		}
	}
	entry := map[string]int{"trs.TransformArray": 1, "trs.TransformInPlace": 2, "quat.RotateArray": 3}[d.Entry]
	// weighted fingerprint over ALL elements (exact: integer points, integer parameters): sum_i w_i in_i, sum_i w_i out_i
	fp := "0 []%Q []%Q"
	if ok && len(out) == len(in) && allInts(d.P, d.S, d.Q) {
		var w float64
		si, so := make([]float64, 3), make([]float64, 3)
		for i := range in {
			wi := float64(i%1024 + 1)
			w += wi
			a, b := fromV(in[i]), fromV(out[i])
			for k := 0; k < 3; k++ {
				si[k] += wi * a[k]
				so[k] += wi * b[k]
			}
		}
		if finite(so...) && maxabs(so) < 1<<52 {
			fp = fmt.Sprintf("%d %s %s", int64(w), qlist(si), qlist(so))
		}
	}
	coq := ""
	if ok && inputTouched >= 0 {
		crash = fmt.Sprintf("%s on %d points changed its input (the caller's array / the receiver mesh) at index %d", d.Entry, d.N, inputTouched)
		ok = false
	}
	if ok && (mism != 0 || len(out) != d.N) {
		crash = fmt.Sprintf("%s on %d points: %d results, %d of them differ from the scalar entry point (first at index %d)", d.Entry, d.N, len(out), mism, first)
		ok = false
	}
	if ok {
		coq = fmt.Sprintf("CBig 0%%Q %d %d %d %d %s %s %s %s [%s] %s", op, entry, d.N, mism, hx.CoqBool(len(out) == d.N),
			qlist(d.P), qlist(d.S), qlist(d.Q), strings.Join(items, ";"), fp)
	}
	run.Count("big:" + d.Entry)
	add("big", d, true, coq, crash, ok)
}

// distinctPoints: n pairwise distinct integer points of [-32,31]^3 (n <= 2^18), order scrambled by seed
func distinctPoints(n int, seed uint64) []vector3.Float64 {
	pts := make([]vector3.Float64, n)
	for i := range pts {
		j := (uint64(i)*40503 + seed) % (1 << 18) // odd multiplier: a bijection of 0 .. 2^18-1
		pts[i] = vector3.New(float64(j%64)-32, float64(j/64%64)-32, float64(j/4096)-32)
	}
	return pts
}

func allInts(ls ...[]float64) bool {
	for _, l := range ls {
		for _, x := range l {
			if x != math.Trunc(x) || math.Abs(x) > 1<<20 {
				return false
			}
		}
	}
	return true
}

// NewAABBFromPoints (and Mesh.BoundingBox, which hands the Position array to it) on N distinct points, optionally moved
// by Off and scaled by 2^Exp (exact)
type bigBoxDesc struct {
	N       int
	PSeed   uint64
	ViaMesh bool
	Off     []float64
	Workers int
}

func doBigBox(d bigBoxDesc) {
	if d.N < 1 || d.N > 1<<18 {
		return
	}
	pts := distinctPoints(d.N, d.PSeed)
	for i := range pts {
		// x grows and y falls strictly with the index: every point is a new extreme, so the box of ANY proper prefix or
		// suffix (a dropped remainder, a skipped first batch) is strictly smaller than the box of all points
		pts[i] = pts[i].Add(toV(d.Off)).Add(vector3.New(64*float64(i), -64*float64(i), 0))
	}
	arg := append([]vector3.Float64{}, pts...)
	var b geometry.AABB
	crash := guard(func() {
		if d.Workers > 0 {
			defer runtime.GOMAXPROCS(runtime.GOMAXPROCS(d.Workers))
		}
		if d.ViaMesh {
			b = modeling.NewMesh(modeling.PointTopology, []int{}).SetFloat3Attribute(modeling.PositionAttribute, arg).BoundingBox(modeling.PositionAttribute)
		} else {
			b = geometry.NewAABBFromPoints(arg...)
		}
	})
	c, e := boxParts(b)
	lo, hi := fromV(pts[0]), fromV(pts[0])
	ext := [6]int{}
	allIn := true
	for i, p := range pts {
		if crash == "" && arg[i] != p {
			crash = fmt.Sprintf("NewAABBFromPoints on %d points changed its argument at index %d", d.N, i)
		}
		v := fromV(p)
		for k := 0; k < 3; k++ {
			if v[k] < lo[k] {
				lo[k], ext[k] = v[k], i
			}
			if v[k] > hi[k] {
				hi[k], ext[3+k] = v[k], i
			}
		}
		if crash == "" && finite(flat(c, e)...) && (!b.Contains(p) || !inBoxTol(c, e, v, 0)) {
			allIn = false
			crash = fmt.Sprintf("NewAABBFromPoints on %d points: point %d = %v is not in the box (centre %v extents %v)", d.N, i, v, c, e)
		}
	}
	ok := crash == "" && finite(flat(c, e)...)
	if ok {
		for k := 0; k < 3; k++ {
			if c[k]-e[k] != lo[k] || c[k]+e[k] != hi[k] {
				crash = fmt.Sprintf("NewAABBFromPoints on %d points: box [%v +- %v] is not the tight box [%v, %v]", d.N, c, e, lo, hi)
				ok = false
			}
		}
	}
	coq := ""
	if ok {
		idx := append([]int{0, d.N / 2, d.N - 1}, ext[:]...)
		seen := map[int]bool{}
		var sm [][]float64
		for _, i := range idx {
			if !seen[i] {
				seen[i] = true
				sm = append(sm, fromV(pts[i]))
			}
		}
		coq = fmt.Sprintf("CBigBox 0%%Q %d %s %s %s %s %s %s", d.N, qlist(lo), qlist(hi), qlist(c), qlist(e), hx.CoqBool(allIn), qlistlist(sm))
	}
	run.Count("big:aabb.FromPoints")
	add("bigbox", d, true, coq, crash, ok)
}

func doClosest(d closestDesc) {
	var c, e, cp []float64
	var inside bool
	crash := guard(func() {
		b := geometry.NewAABB(toV(d.C), toV(d.Size))
		c, e = boxParts(b)
		p := b.ClosestPoint(toV(d.V))
		cp = fromV(p)
		inside = b.Contains(p)
	})
	coq := ""
	if crash == "" && finite(flat(c, e, cp)...) {
		lim := 0.0
		if !d.Exact {
			lim = 1e-9 * (1 + maxabs(d.C, d.Size, d.V))
		}
		nonneg := e[0] >= 0 && e[1] >= 0 && e[2] >= 0
		dist2 := func(a, b []float64) float64 {
			return (a[0]-b[0])*(a[0]-b[0]) + (a[1]-b[1])*(a[1]-b[1]) + (a[2]-b[2])*(a[2]-b[2])
		}
		switch {
		case nonneg && !inBoxTol(c, e, cp, lim):
			crash = fmt.Sprintf("ClosestPoint(%v) = %v is not in the box (centre %v extents %v)", d.V, cp, c, e)
		case nonneg && inBoxTol(c, e, d.V, -lim) && dist2(cp, d.V) > lim*lim:
			crash = fmt.Sprintf("ClosestPoint(%v) = %v although the point is in the box (centre %v extents %v)", d.V, cp, c, e)
		}
		for _, p := range d.Probes {
			if crash == "" && inBoxTol(c, e, p, 0) && dist2(d.V, cp) > dist2(d.V, p)*(1+1e-9)+lim {
				crash = fmt.Sprintf("ClosestPoint(%v) = %v, but %v is in the box and nearer", d.V, cp, p)
			}
		}
	}
	ok := crash == "" && finite(flat(c, e, cp)...)
	if ok {
		m := 1 + maxabs(d.C, d.Size, d.V)
		coq = fmt.Sprintf("CClosest %s %s %s %s %s %s %s", tolOf(d.Exact, m*m), qlist(c), qlist(e), qlist(d.V), qlist(cp),
			hx.CoqBool(inside), qlistlist(d.Probes))
	}
	add("closest", d, nonzero(d.Size), coq, crash, ok)
}

func doBoxMisc(d boxMiscDesc) {
	var c, e, oc, oe, mn, mx, sz, c3, e3 []float64
	var vol float64
	var inter bool
	crash := guard(func() {
		b := geometry.NewAABB(toV(d.C), toV(d.Size))
		o := geometry.NewAABB(toV(d.OC), toV(d.OSize))
		c, e = boxParts(b)
		oc, oe = boxParts(o)
		mn, mx, sz, vol = fromV(b.Min()), fromV(b.Max()), fromV(b.Size()), b.Volume()
		inter = b.Intersects(o)
		if fromV(b.Center())[0] != c[0] {
			panic("Center() differs from the centre")
		}
		x := b
		x.Expand(d.Amount)
		c3, e3 = boxParts(x)
	})
	m := 1 + maxabs(d.C, d.Size, d.OC, d.OSize) + math.Abs(d.Amount)
	coq := ""
	if crash == "" && finite(vol) && finite(flat(c, e, oc, oe, mn, mx, sz, c3, e3)...) {
		lim := relOf(d.Exact, 0) * m
		overlap := true
		for i := 0; i < 3; i++ {
			overlap = overlap && c[i]-e[i] <= oc[i]+oe[i] && oc[i]-oe[i] <= c[i]+e[i]
			switch {
			case math.Abs(mn[i]-(c[i]-e[i])) > lim || math.Abs(mx[i]-(c[i]+e[i])) > lim || math.Abs(sz[i]-2*e[i]) > lim:
				crash = fmt.Sprintf("Min/Max/Size of the box centre %v extents %v are %v %v %v", c, e, mn, mx, sz)
			case math.Abs(c3[i]-c[i]) > lim || math.Abs(e3[i]-(e[i]+d.Amount/2)) > lim:
				crash = fmt.Sprintf("Expand(%v) of the box centre %v extents %v gives centre %v extents %v", d.Amount, c, e, c3, e3)
			}
		}
		if w := 8 * e[0] * e[1] * e[2]; crash == "" && math.Abs(vol-w) > relOf(d.Exact, 0)*(math.Abs(w)+1e-300) {
			crash = offBy("Volume", vol, w, relOf(d.Exact, 0)*math.Abs(w))
		}
		if crash == "" && d.Exact && inter != overlap {
			crash = fmt.Sprintf("Intersects = %v for the boxes [%v +- %v] and [%v +- %v]", inter, c, e, oc, oe)
		}
	}
	ok := crash == "" && finite(vol) && finite(flat(c, e, oc, oe, mn, mx, sz, c3, e3)...)
	if ok {
		coq = fmt.Sprintf("CBoxMisc %s %s %s %s %s %s %s %s %s %s %s %s %s", tolOf(d.Exact, m*m*m), qlist(c), qlist(e), qlist(oc), qlist(oe),
			qone(d.Amount), qlist(mn), qlist(mx), qlist(sz), qone(vol), hx.CoqBool(inter), qlist(c3), qlist(e3))
	}
	add("boxmisc", d, nonzero(d.Size, d.OSize), coq, crash, ok)
}

func doMatDirs(d matDirsDesc) {
	var m []float64
	crash := guard(func() { m = fromMat(mat.MatFromDirs(toV(d.Up), toV(d.Fwd), toV(d.Off))) })
	coq := ""
	ok := crash == "" && finite(m...)
	if ok {
		s := 1 + maxabs(d.Up, d.Fwd, d.Off)
		coq = fmt.Sprintf("CMatDirs %s %s %s %s %s", qone(1e-9*s*s), qlist(d.Up), qlist(d.Fwd), qlist(d.Off), qlist(m))
	}
	add("matdirs", d, true, coq, crash, ok)
}

// ---------------------------------------------------------------- replay / corpus dispatch
func dispatch(kind string, raw json.RawMessage) {
	un := func(v interface{}) { json.Unmarshal(raw, v) }
	switch kind {
	case "mat2":
		var d mat2Desc
		un(&d)
		doMat2(d)
	case "mat1":
		var d mat1Desc
		un(&d)
		doMat1(d)
	case "quat":
		var d quatDesc
		un(&d)
		doQuat(d)
	case "rotto":
		var d rotDesc
		un(&d)
		doRot(d)
	case "norm":
		var d normDesc
		un(&d)
		doNorm(d)
	case "theta":
		var d thetaDesc
		un(&d)
		doTheta(d)
	case "trs":
		var d trsDesc
		un(&d)
		doTrs(d)
	case "trsctor":
		var d trsCtorDesc
		un(&d)
		doTrsCtor(d)
	case "mesh":
		var d meshDesc
		un(&d)
		doMesh(d)
	case "boxpt":
		var d boxPtDesc
		un(&d)
		doBoxPt(d)
	case "boxbox":
		var d boxBoxDesc
		un(&d)
		doBoxBox(d)
	case "boxfrom":
		var d boxFromDesc
		un(&d)
		doBoxFrom(d)
	case "big":
		var d bigDesc
		un(&d)
		doBig(d)
	case "closest":
		var d closestDesc
		un(&d)
		doClosest(d)
	case "bigbox":
		var d bigBoxDesc
		un(&d)
		if d.Off == nil {
			d.Off = []float64{0, 0, 0}
		}
		doBigBox(d)
	case "boxmisc":
		var d boxMiscDesc
		un(&d)
		doBoxMisc(d)
	case "matdirs":
		var d matDirsDesc
		un(&d)
		doMatDirs(d)
	}
}

func main() {
	run = hx.ParseFlags("C17", "Check.C17")
	for _, in := range run.Inputs() {
		dispatch(in.Kind, in.Raw)
	}
	if run.Replay != "" {
		run.Finish()
		return
	}
	fixedCases()
	neutralCases(hx.NewRng(run.Seed + 4242))
	r := hx.NewRng(run.Seed)
	for i := 0; i < run.N; i++ {
		generated(r, i)
	}
	run.Finish()
}
