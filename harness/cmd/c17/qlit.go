package main

import (
	"fmt"
	"math"
	"math/big"
	"strings"
)

// qlit renders a finite float64 as the exact rational it denotes, as a Coq term in Q_scope:  m # 2^k .
func qlit(x float64) string {
	if x == 0 {
		return "0#1"
	}
	fr, exp := math.Frexp(x) // x = fr * 2^exp, 0.5 <= |fr| < 1
	m := int64(fr * (1 << 53))
	e := exp - 53
	for m%2 == 0 {
		m /= 2
		e++
	}
	num := big.NewInt(m)
	den := big.NewInt(1)
	if e > 0 {
		num.Lsh(num, uint(e))
	} else {
		den.Lsh(den, uint(-e))
	}
	if num.Sign() < 0 {
		return fmt.Sprintf("(%s)#%s", num.String(), den.String())
	}
	return fmt.Sprintf("%s#%s", num.String(), den.String())
}

func finite(xs ...float64) bool {
	for _, x := range xs {
		if math.IsNaN(x) || math.IsInf(x, 0) {
			return false
		}
	}
	return true
}

// dyadic: x = m * 2^e with m odd (or 0)
func dyadic(x float64) (m *big.Int, e int) {
	if x == 0 {
		return big.NewInt(0), 0
	}
	fr, exp := math.Frexp(x)
	mi := int64(fr * (1 << 53))
	e = exp - 53
	for mi%2 == 0 {
		mi /= 2
		e++
	}
	return big.NewInt(mi), e
}

// qlist renders a list of floats as a Coq list of Q, all over ONE common power-of-two denominator (sums of products
// of such numbers keep a common denominator in the evaluator, which keeps the exact rationals small).
func qlist(xs []float64) string {
	minE := 0
	ms := make([]*big.Int, len(xs))
	es := make([]int, len(xs))
	for i, x := range xs {
		ms[i], es[i] = dyadic(x)
		if es[i] < minE {
			minE = es[i]
		}
	}
	den := new(big.Int).Lsh(big.NewInt(1), uint(-minE)).String()
	items := make([]string, len(xs))
	for i := range xs {
		n := new(big.Int).Lsh(ms[i], uint(es[i]-minE))
		if n.Sign() < 0 {
			items[i] = "(" + n.String() + ")#" + den
		} else {
			items[i] = n.String() + "#" + den
		}
	}
	return "[" + strings.Join(items, ";") + "]%Q"
}
func qlistlist(xs [][]float64) string {
	items := make([]string, len(xs))
	for i, x := range xs {
		items[i] = qlist(x)
	}
	return "[" + strings.Join(items, ";") + "]"
}
func qone(x float64) string { return "(" + qlit(x) + ")%Q" }

func maxabs(xs ...[]float64) float64 {
	m := 0.0
	for _, l := range xs {
		for _, x := range l {
			if a := math.Abs(x); a > m {
				m = a
			}
		}
	}
	return m
}
