package main

import (
	"fmt"
	"math"
	"math/big"
	"strings"
)

// qlit renders a finite float64 as the exact rational it denotes, as a Coq term in Q_scope:  m # 2^k .
func qlit(x float64) string {
	if x == 0 {
		return "0#1"
	}
	fr, exp := math.Frexp(x) // x = fr * 2^exp, 0.5 <= |fr| < 1
	m := int64(fr * (1 << 53))
	e := exp - 53
	for m%2 == 0 {
		m /= 2
		e++
	}
	num := big.NewInt(m)
	den := big.NewInt(1)
	if e > 0 {
		num.Lsh(num, uint(e))
	} else {
		den.Lsh(den, uint(-e))
	}
	if num.Sign() < 0 {
		return fmt.Sprintf("(%s)#%s", num.String(), den.String())
	}
	return fmt.Sprintf("%s#%s", num.String(), den.String())
}

func finite(xs ...float64) bool {
	for _, x := range xs {
		if math.IsNaN(x) || math.IsInf(x, 0) {
			return false
		}
	}
	return true
}

// qlist renders a list of floats as a Coq list of Q.
func qlist(xs []float64) string {
	items := make([]string, len(xs))
	for i, x := range xs {
		items[i] = qlit(x)
	}
	return "[" + strings.Join(items, ";") + "]%Q"
}
func qlistlist(xs [][]float64) string {
	items := make([]string, len(xs))
	for i, x := range xs {
		items[i] = qlist(x)
	}
	return "[" + strings.Join(items, ";") + "]"
}
func qone(x float64) string { return "(" + qlit(x) + ")%Q" }

func maxabs(xs ...[]float64) float64 {
	m := 0.0
	for _, l := range xs {
		for _, x := range l {
			if a := math.Abs(x); a > m {
				m = a
			}
		}
	}
	return m
}
