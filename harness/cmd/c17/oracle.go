package main

// Go-side reference oracles (round 4).  The Coq evaluator (Check/C17.v) needs the translated files: when an edit of
// the Go sources uses a construct outside go2coq's subset nothing can be evaluated in Coq and only oracles that run
// inside the harness can still produce a concrete failing input.  Every kind therefore also judges the
// implementation's output here, in float64, against an independently written reference (entry-wise sums, row-by-column
// sums, permutation expansion of the determinant, Hamilton / sandwich product, R(S*v)+T, interval membership), with a
// tolerance proportional to the magnitude of the terms that were added up (rel * sum of |terms|).  On the exact stream
// (integer / dyadic inputs on which the implementation's float64 arithmetic is exact) rel = 1e-14, otherwise 1e-9.

import (
	"fmt"
	"math"
)

const relExact, relFloat = 1e-14, 1e-9

func relOf(exact bool, override float64) float64 {
	if override > 0 {
		return override
	}
	if exact {
		return relExact
	}
	return relFloat
}

// sumTerms returns the sum of the terms and the sum of their absolute values
func sumTerms(ts ...float64) (s, a float64) {
	for _, t := range ts {
		s += t
		a += math.Abs(t)
	}
	return
}

func offBy(what string, got, want, lim float64) string {
	return fmt.Sprintf("%s = %.17g, reference %.17g (difference %.3g, limit %.3g)", what, got, want, math.Abs(got-want), lim)
}

// ---------------------------------------------------------------- matrices (row-major slices of 16)
func refMat2(a, b, sum, prod []float64, rel float64) string {
	if len(sum) != 16 || len(prod) != 16 {
		return "Add/Multiply did not return 16 entries"
	}
	for i := 0; i < 4; i++ {
		for j := 0; j < 4; j++ {
			w, m := sumTerms(a[4*i+j], b[4*i+j])
			if lim := rel * m; math.Abs(sum[4*i+j]-w) > lim {
				return offBy(fmt.Sprintf("Add(a,b)[%d][%d]", i, j), sum[4*i+j], w, lim)
			}
			w, m = sumTerms(a[4*i]*b[j], a[4*i+1]*b[4+j], a[4*i+2]*b[8+j], a[4*i+3]*b[12+j])
			if lim := rel * m; math.Abs(prod[4*i+j]-w) > lim {
				return offBy(fmt.Sprintf("Multiply(a,b)[%d][%d]", i, j), prod[4*i+j], w, lim)
			}
		}
	}
	return ""
}

var perms4 = func() (ps [][5]int) { // permutations of 0..3 with their sign in [4]
	var rec func(p []int, used int)
	rec = func(p []int, used int) {
		if len(p) == 4 {
			inv := 0
			for i := 0; i < 4; i++ {
				for j := i + 1; j < 4; j++ {
					if p[i] > p[j] {
						inv++
					}
				}
			}
			ps = append(ps, [5]int{p[0], p[1], p[2], p[3], 1 - 2*(inv%2)})
			return
		}
		for k := 0; k < 4; k++ {
			if used>>k&1 == 0 {
				rec(append(append([]int{}, p...), k), used|1<<k)
			}
		}
	}
	rec(nil, 0)
	return
}()

// Leibniz expansion: sum over the 24 permutations
func refDet(a []float64) (d, m float64) {
	for _, p := range perms4 {
		t := float64(p[4]) * a[p[0]] * a[4+p[1]] * a[8+p[2]] * a[12+p[3]]
		d += t
		m += math.Abs(t)
	}
	return
}

func refMat1(a, v []float64, det float64, hasInv bool, inv, mp []float64, rel float64) string {
	w, m := refDet(a)
	if lim := rel * m; math.Abs(det-w) > lim {
		return offBy("Determinant(a)", det, w, lim)
	}
	if len(mp) != 3 {
		return "MulPosition did not return 3 components"
	}
	for i := 0; i < 3; i++ {
		w, m := sumTerms(a[4*i]*v[0], a[4*i+1]*v[1], a[4*i+2]*v[2], a[4*i+3])
		if lim := rel * m; math.Abs(mp[i]-w) > lim {
			return offBy(fmt.Sprintf("MulPosition(a,v)[%d]", i), mp[i], w, lim)
		}
	}
	if !hasInv {
		return ""
	}
	if len(inv) != 16 {
		return "Inverse did not return 16 entries"
	}
	for i := 0; i < 4; i++ {
		for j := 0; j < 4; j++ {
			want := 0.0
			if i == j {
				want = 1
			}
			// the magnitude is that of row i of the inverse times column j of a, but never below that of the diagonal
			// (an off-diagonal sum of products that cancel to 0 has nothing to be proportional to)
			l, m := sumTerms(inv[4*i]*a[j], inv[4*i+1]*a[4+j], inv[4*i+2]*a[8+j], inv[4*i+3]*a[12+j])
			if lim := rel * (m + 1); math.Abs(l-want) > lim {
				return offBy(fmt.Sprintf("(Inverse(a)*a)[%d][%d]", i, j), l, want, lim)
			}
			r, m := sumTerms(a[4*i]*inv[j], a[4*i+1]*inv[4+j], a[4*i+2]*inv[8+j], a[4*i+3]*inv[12+j])
			if lim := rel * (m + 1); math.Abs(r-want) > lim {
				return offBy(fmt.Sprintf("(a*Inverse(a))[%d][%d]", i, j), r, want, lim)
			}
		}
	}
	return ""
}

// ---------------------------------------------------------------- quaternions [x y z w]
func refHamilton(p, q []float64) []float64 {
	return []float64{
		p[3]*q[0] + q[3]*p[0] + p[1]*q[2] - p[2]*q[1],
		p[3]*q[1] + q[3]*p[1] + p[2]*q[0] - p[0]*q[2],
		p[3]*q[2] + q[3]*p[2] + p[0]*q[1] - p[1]*q[0],
		p[3]*q[3] - p[0]*q[0] - p[1]*q[1] - p[2]*q[2],
	}
}

// sandwich product q (0,v) q*
func refRotate(q, v []float64) []float64 {
	t := refHamilton(refHamilton(q, []float64{v[0], v[1], v[2], 0}), []float64{-q[0], -q[1], -q[2], q[3]})
	return t[:3]
}
func norm2(q []float64) float64 {
	s := 0.0
	for _, x := range q {
		s += x * x
	}
	return s
}
func vecOff(what string, got, want []float64, lim float64) string {
	if len(got) != len(want) {
		return what + ": wrong number of components"
	}
	for i := range want {
		if math.Abs(got[i]-want[i]) > lim {
			return offBy(fmt.Sprintf("%s[%d]", what, i), got[i], want[i], lim)
		}
	}
	return ""
}

func refQuat(q1, q2, v, prod, r2, r12, r1 []float64, rel float64) string {
	n1, n2, lv := norm2(q1), norm2(q2), math.Sqrt(norm2(v))
	if s := vecOff("Multiply(q1,q2)", prod, refHamilton(q1, q2), rel*4*math.Sqrt(n1*n2)); s != "" {
		return s
	}
	if s := vecOff("Rotate(q2,v)", r2, refRotate(q2, v), rel*8*n2*lv); s != "" {
		return s
	}
	if s := vecOff("Rotate(q1*q2,v) against Rotate(q1,Rotate(q2,v))", r12, r1, rel*32*n1*n2*lv); s != "" {
		return s
	}
	if s := vecOff("Rotate(q1*q2,v)", r12, refRotate(refHamilton(q1, q2), v), rel*32*n1*n2*lv); s != "" {
		return s
	}
	// |Rotate q v| = |q|^2 |v|
	if l, w := math.Sqrt(norm2(r2)), n2*lv; math.Abs(l-w) > rel*8*n2*lv {
		return offBy("|Rotate(q2,v)|", l, w, rel*8*n2*lv)
	}
	return ""
}

func refTrs(p, s, q, v []float64) (want []float64, mag float64) {
	sv := []float64{s[0] * v[0], s[1] * v[1], s[2] * v[2]}
	r := refRotate(q, sv)
	return []float64{r[0] + p[0], r[1] + p[1], r[2] + p[2]}, 8*norm2(q)*math.Sqrt(norm2(sv)) + maxabs(p)
}

// ---------------------------------------------------------------- boxes
// p within [c-e-lim, c+e+lim]
func inBoxTol(c, e, p []float64, lim float64) bool {
	for i := 0; i < 3; i++ {
		if p[i] < c[i]-e[i]-lim || p[i] > c[i]+e[i]+lim {
			return false
		}
	}
	return true
}
