package main

// Generators of the C16 harness: element sets (points, line strips, triangles, plain boxes) on the
// integer grid with the layouts the property's quantifier names (clustered, overlapping, coincident,
// single element, empty, lattice = many elements on the centre planes of the cells), every maximum
// depth 0..6 and the automatic one, and queries inside / outside / on the boundaries of the boxes.
// Query points live on the quarter grid, so every box-level quantity is exact in float64.

import (
	"math"

	"verif/harness/hx"
)

type ivec [3]int

func fv(v ivec) [3]float64 { return [3]float64{float64(v[0]), float64(v[1]), float64(v[2])} }

// ---- vertex layouts ----

func randVec(r *hx.Rng, R int) ivec {
	return ivec{r.Range(-R, R), r.Range(-R, R), r.Range(-R, R)}
}

// layout returns nv integer vertices and the name of the layout.
func layout(r *hx.Rng, nv int) ([]ivec, string) {
	out := make([]ivec, nv)
	switch r.Intn(8) {
	case 0: // uniform, small cube: many coincidences and shared planes
		R := hx.Pick(r, []int{1, 2, 3})
		for i := range out {
			out[i] = randVec(r, R)
		}
		return out, "uniform-small"
	case 1: // uniform, wide
		R := hx.Pick(r, []int{8, 20, 100})
		for i := range out {
			out[i] = randVec(r, R)
		}
		return out, "uniform-wide"
	case 2: // clustered
		k := r.Range(1, 4)
		cs := make([]ivec, k)
		for i := range cs {
			cs[i] = randVec(r, 40)
		}
		j := hx.Pick(r, []int{0, 1, 2, 4})
		for i := range out {
			c := cs[r.Intn(k)]
			d := randVec(r, j)
			out[i] = ivec{c[0] + d[0], c[1] + d[1], c[2] + d[2]}
		}
		return out, "clustered"
	case 3: // coincident: a handful of distinct positions, repeated
		k := r.Range(1, 3)
		cs := make([]ivec, k)
		for i := range cs {
			cs[i] = randVec(r, 4)
		}
		for i := range out {
			out[i] = cs[r.Intn(k)]
		}
		return out, "coincident"
	case 4: // lattice, symmetric about the origin: elements on the centre planes at every level
		s := hx.Pick(r, []int{1, 2, 4})
		m := hx.Pick(r, []int{1, 2, 3})
		for i := range out {
			out[i] = ivec{s * r.Range(-m, m), s * r.Range(-m, m), s * r.Range(-m, m)}
		}
		return out, "lattice"
	case 5: // planar (zero-thickness boxes) and axis-aligned
		ax := r.Intn(3)
		c := r.Range(-3, 3)
		for i := range out {
			out[i] = randVec(r, 6)
			out[i][ax] = c
		}
		return out, "planar"
	case 6: // on a line
		a, d := randVec(r, 5), randVec(r, 2)
		for i := range out {
			t := r.Range(-6, 6)
			out[i] = ivec{a[0] + t*d[0], a[1] + t*d[1], a[2] + t*d[2]}
		}
		return out, "collinear"
	default: // one far outlier + a tight group (long thin hull, deep single-child chains)
		for i := range out {
			out[i] = randVec(r, 2)
		}
		if nv > 0 {
			out[r.Intn(nv)] = randVec(r, 200)
		}
		return out, "outlier"
	}
}

func zeroArea(a, b, c ivec) bool {
	u := ivec{b[0] - a[0], b[1] - a[1], b[2] - a[2]}
	v := ivec{c[0] - a[0], c[1] - a[1], c[2] - a[2]}
	return u[1]*v[2]-u[2]*v[1] == 0 && u[2]*v[0]-u[0]*v[2] == 0 && u[0]*v[1]-u[1]*v[0] == 0
}

// ---- element sets ----

func sizeOf(r *hx.Rng, big int) int {
	switch r.Intn(10) {
	case 0:
		return 1
	case 1:
		return 2
	case 2, 3:
		return r.Range(3, 8)
	case 4, 5, 6:
		return r.Range(9, 24)
	case 7, 8:
		return r.Range(25, 60)
	default:
		if big > 60 && r.Chance(1, 2) { // thorough: half of this stream stays moderate
			return r.Range(61, 300)
		}
		return r.Range(2, big)
	}
}

func genElements(r *hx.Rng, kind string, n int) (verts [][3]float64, idx []int, lay string, iv []ivec) {
	degenerate := r.Chance(1, 12) // per set: zero-length segments / zero-area triangles allowed
	switch kind {
	case "point":
		iv, lay = layout(r, n)
	case "line":
		// a strip with n segments over a small vertex pool (shared vertices, repeated segments)
		nv := n + 1
		if r.Chance(1, 3) && n > 3 {
			nv = r.Range(2, n)
		}
		iv, lay = layout(r, nv)
		idx = make([]int, n+1)
		if nv == n+1 {
			for i := range idx {
				idx[i] = i
			}
		} else {
			prev := -1
			for i := range idx {
				k := r.Intn(nv)
				if k == prev { // a zero-length segment has no direction (NaN): a separate, rare stream
					if !degenerate {
						k = (k + 1) % nv
					}
				}
				idx[i], prev = k, k
			}
		}
		// coincident consecutive vertices also give zero-length segments: mostly pull them apart
		for i := 0; i+1 < len(idx); i++ {
			if iv[idx[i]] == iv[idx[i+1]] && !degenerate {
				v := iv[idx[i+1]]
				v[r.Intn(3)] += hx.Pick(r, []int{-2, -1, 1, 2})
				iv = append(iv, v)
				idx[i+1] = len(iv) - 1
			}
		}
	case "tri":
		nv := 3 * n
		if r.Chance(1, 2) {
			nv = r.Range(3, 3+n)
		}
		iv, lay = layout(r, nv)
		idx = make([]int, 0, 3*n)
		// triangles that name a vertex twice (a, a, b) are primitives like any other: element ids stay mesh
		// primitive indices.  A per-set stream: some such triangles, mostly early ones so that proper
		// triangles follow them
		twice := map[int]bool{}
		if n >= 2 && r.Chance(1, 5) {
			for k := r.Range(1, 3); k > 0; k-- {
				if r.Chance(2, 3) {
					twice[r.Intn((n+1)/2)] = true
				} else {
					twice[r.Intn(n)] = true
				}
			}
		}
		for t := 0; t < n; t++ {
			if twice[t] {
				a, b := r.Intn(nv), r.Intn(nv)
				if nv == 3*n {
					a, b = 3*t, 3*t+1+r.Intn(2)
				}
				idx = append(idx, hx.Pick(r, [][]int{{a, a, b}, {a, b, a}, {b, a, a}, {a, a, a}})...)
				continue
			}
			if nv == 3*n {
				idx = append(idx, 3*t, 3*t+1, 3*t+2)
				continue
			}
			a, b, c := r.Intn(nv), r.Intn(nv), r.Intn(nv)
			if !degenerate { // three distinct vertices
				for b == a {
					b = r.Intn(nv)
				}
				for c == a || c == b {
					c = r.Intn(nv)
				}
			}
			idx = append(idx, a, b, c)
		}
		// zero-area triangles have no plane (NaN distances): keep them a rare, counted stream by
		// moving the third corner off the line through the other two
		for t := 0; t < n; t++ {
			if zeroArea(iv[idx[3*t]], iv[idx[3*t+1]], iv[idx[3*t+2]]) && !degenerate && !twice[t] {
				if iv[idx[3*t]] == iv[idx[3*t+1]] {
					w := iv[idx[3*t]]
					w[r.Intn(3)] += hx.Pick(r, []int{-2, -1, 1, 2})
					iv = append(iv, w)
					idx[3*t+1] = len(iv) - 1
				}
				a, b := iv[idx[3*t]], iv[idx[3*t+1]]
				v := ivec{a[0] + r.Range(1, 3), b[1] - r.Range(1, 3), a[2] + r.Range(-2, 2)}
				for tries := 0; zeroArea(a, b, v) && tries < 8; tries++ {
					v = ivec{v[0] + r.Range(-2, 2), v[1] + 1, v[2] + r.Range(-1, 1)}
				}
				iv = append(iv, v)
				idx[3*t+2] = len(iv) - 1
			}
		}
	case "box":
		iv, lay = layout(r, 2*n)
		idx = make([]int, 2*n)
		for i := range idx {
			idx[i] = i
		}
	}
	verts = make([][3]float64, len(iv))
	for i, v := range iv {
		verts[i] = fv(v)
	}
	return
}

// ---- queries ----

func quarter(r *hx.Rng, lo, hi int) float64 { return float64(r.Range(4*lo, 4*hi)) / 4 }

type hull struct{ lo, hi ivec }

func hullOf(iv []ivec) hull {
	if len(iv) == 0 {
		return hull{}
	}
	h := hull{iv[0], iv[0]}
	for _, v := range iv {
		for k := 0; k < 3; k++ {
			if v[k] < h.lo[k] {
				h.lo[k] = v[k]
			}
			if v[k] > h.hi[k] {
				h.hi[k] = v[k]
			}
		}
	}
	return h
}

// queryPoint: a vertex, the hull centre (where the octants meet), inside the hull, on a hull face,
// just outside, far outside.
func queryPoint(r *hx.Rng, iv []ivec, h hull) [3]float64 {
	if len(iv) == 0 {
		return [3]float64{quarter(r, -3, 3), quarter(r, -3, 3), quarter(r, -3, 3)}
	}
	switch r.Intn(9) {
	case 8: // each coordinate from some vertex: on faces, edges and corners of the elements' boxes
		a, b, c := iv[r.Intn(len(iv))], iv[r.Intn(len(iv))], iv[r.Intn(len(iv))]
		return [3]float64{float64(a[0]), float64(b[1]), float64(c[2])}
	case 0:
		return fv(iv[r.Intn(len(iv))])
	case 1:
		return [3]float64{float64(h.lo[0]+h.hi[0]) / 2, float64(h.lo[1]+h.hi[1]) / 2, float64(h.lo[2]+h.hi[2]) / 2}
	case 2: // midpoint of two vertices: equidistant, ties
		a, b := iv[r.Intn(len(iv))], iv[r.Intn(len(iv))]
		return [3]float64{float64(a[0]+b[0]) / 2, float64(a[1]+b[1]) / 2, float64(a[2]+b[2]) / 2}
	case 3, 4: // inside the hull, quarter grid
		return [3]float64{quarter(r, h.lo[0], h.hi[0]), quarter(r, h.lo[1], h.hi[1]), quarter(r, h.lo[2], h.hi[2])}
	case 5: // on a face of the hull
		p := [3]float64{quarter(r, h.lo[0], h.hi[0]), quarter(r, h.lo[1], h.hi[1]), quarter(r, h.lo[2], h.hi[2])}
		k := r.Intn(3)
		if r.Bool() {
			p[k] = float64(h.lo[k])
		} else {
			p[k] = float64(h.hi[k])
		}
		return p
	case 6: // just outside
		p := [3]float64{quarter(r, h.lo[0]-1, h.hi[0]+1), quarter(r, h.lo[1]-1, h.hi[1]+1), quarter(r, h.lo[2]-1, h.hi[2]+1)}
		k := r.Intn(3)
		if r.Bool() {
			p[k] = float64(h.lo[k]) - quarter(r, 0, 2) - 0.25
		} else {
			p[k] = float64(h.hi[k]) + quarter(r, 0, 2) + 0.25
		}
		return p
	default: // far outside
		w := 10 + (h.hi[0] - h.lo[0]) + (h.hi[1] - h.lo[1]) + (h.hi[2] - h.lo[2])
		return [3]float64{quarter(r, h.lo[0]-w, h.hi[0]+w), quarter(r, h.lo[1]-w, h.hi[1]+w), quarter(r, h.lo[2]-w, h.hi[2]+w)}
	}
}

// edgeExtension: a point on the line through two vertices of a triangle, beyond the edge (the inputs
// on which the pinned PointInSide is wrong), half-integer steps.
func edgeExtension(r *hx.Rng, d setDesc) ([3]float64, bool) {
	nt := len(d.Idx) / 3
	if d.Kind != "tri" || nt == 0 {
		return [3]float64{}, false
	}
	t := r.Intn(nt)
	e := r.Intn(3)
	a := d.Verts[d.Idx[3*t+e]]
	b := d.Verts[d.Idx[3*t+(e+1)%3]]
	s := hx.Pick(r, []float64{1.25, 1.5, 1.75, 2, 2.5, -0.25, -0.5, -0.75, -1, -1.5})
	p := [3]float64{a[0] + (b[0]-a[0])*s, a[1] + (b[1]-a[1])*s, a[2] + (b[2]-a[2])*s}
	for k := 0; k < 3; k++ {
		if _, ok := z4(p[k]); !ok {
			return [3]float64{}, false
		}
	}
	if r.Chance(1, 3) { // and off the plane along an axis (the projection may come back on the line)
		p[r.Intn(3)] += quarter(r, -2, 2)
	}
	return p, true
}

var negZero = math.Copysign(0, -1)

// rayDir returns the vector the direction is derived from and the derivation ("via").  Zero components
// get either sign (IEEE -0 compares equal to 0 but 1/-0 = -Inf), also through Flip / Scale(-1) /
// Zero.Sub / Reflect as client code produces them; a few directions have components so small that 1/dir
// overflows or is huge.
func rayDir(r *hx.Rng) ([3]float64, string) {
	var d [3]float64
	switch r.Intn(7) {
	case 0, 1: // axis-parallel: two zero components
		d[r.Intn(3)] = hx.Pick(r, []float64{1, -1})
	case 2: // one zero component
		d = [3]float64{float64(r.Range(-4, 4)), float64(r.Range(-4, 4)), float64(r.Range(-4, 4))}
		d[r.Intn(3)] = 0
		if d == [3]float64{} {
			d[r.Intn(3)] = 1
		}
	case 3: // diagonals
		d = [3]float64{hx.Pick(r, []float64{1, -1}), hx.Pick(r, []float64{1, -1}), hx.Pick(r, []float64{1, -1})}
	case 4: // nearly axis-parallel: tiny / subnormal components (1/dir huge or +-Inf)
		d[r.Intn(3)] = hx.Pick(r, []float64{1, -1})
		k := r.Intn(3)
		if d[k] == 0 {
			d[k] = hx.Pick(r, []float64{1e-300, -1e-300, 5e-324, -5e-324, 1e-12, -1e-9})
		}
	default:
		for d == [3]float64{} {
			d = [3]float64{float64(r.Range(-9, 9)), float64(r.Range(-9, 9)), float64(r.Range(-9, 9))}
		}
	}
	for k := range d { // every sign pattern of the zeros
		if d[k] == 0 && r.Bool() {
			d[k] = negZero
		}
	}
	via := ""
	if r.Chance(1, 3) {
		via = hx.Pick(r, []string{"flip", "scale", "sub", "reflect"})
	}
	return d, via
}

// onGrid: every coordinate on the quarter grid and of moderate size.
func onGrid(p [3]float64) bool {
	for k := 0; k < 3; k++ {
		if _, ok := z4(p[k]); !ok || math.Abs(p[k]) > 1e6 {
			return false
		}
	}
	return true
}

// cellPoint: a point placed relative to one cell of the tree the implementation builds: its corners, face
// and edge midpoints, quarter points (off the Min-Max diagonal), just outside a face.
func cellPoint(r *hx.Rng, c fbox) ([3]float64, bool) {
	var p [3]float64
	for k := 0; k < 3; k++ {
		w := c.hi[k] - c.lo[k]
		switch r.Intn(8) {
		case 0:
			p[k] = c.lo[k]
		case 1:
			p[k] = c.hi[k]
		case 2:
			p[k] = c.lo[k] + w/2
		case 3, 4:
			p[k] = c.lo[k] + w/4
		case 5, 6:
			p[k] = c.lo[k] + 3*w/4
		default:
			p[k] = hx.Pick(r, []float64{c.lo[k] - 0.25, c.hi[k] + 0.25, c.lo[k] - w/2, c.hi[k] + w/2})
		}
	}
	return p, onGrid(p)
}

func dist3(a, b [3]float64) float64 {
	return math.Sqrt((a[0]-b[0])*(a[0]-b[0]) + (a[1]-b[1])*(a[1]-b[1]) + (a[2]-b[2])*(a[2]-b[2]))
}

func genQueries(r *hx.Rng, d setDesc, iv []ivec, n int, per int, cells []fbox) []qDesc {
	h := hullOf(iv)
	span := 1 + (h.hi[0] - h.lo[0]) + (h.hi[1] - h.lo[1]) + (h.hi[2] - h.lo[2])
	var qs []qDesc
	// the query position: from the element layout or (one in three) from a cell of the built tree,
	// preferring cells that hold at least two elements
	pickCell := func() (fbox, bool) {
		if len(cells) == 0 {
			return fbox{}, false
		}
		c := cells[r.Intn(len(cells))]
		for tries := 0; tries < 4 && c.n < 2; tries++ {
			c = cells[r.Intn(len(cells))]
		}
		return c, true
	}
	basePoint := queryPoint
	queryPoint := func(r *hx.Rng, iv []ivec, h hull) [3]float64 {
		if r.Chance(1, 3) {
			if c, ok := pickCell(); ok {
				if p, ok := cellPoint(r, c); ok {
					return p
				}
			}
		}
		return basePoint(r, iv, h)
	}
	for k := 0; k < per; k++ {
		qs = append(qs, qDesc{T: "contain", P: queryPoint(r, iv, h)})
	}
	for k := 0; k < per; k++ {
		p := queryPoint(r, iv, h)
		var dd float64
		if c, ok := pickCell(); ok && r.Chance(1, 4) {
			// a radius that just reaches the cell's Min and Max corners from a point off their diagonal
			// (the other six corners can be nearer or farther than both)
			if cp, ok := cellPoint(r, c); ok {
				reach := math.Max(dist3(cp, c.lo), dist3(cp, c.hi))
				dd = math.Ceil(reach*4)/4 + hx.Pick(r, []float64{0, 0, 0, 0.25, -0.25, -0.5})
				if dd >= 0 && dd < 1e6 {
					qs = append(qs, qDesc{T: "within", P: cp, D: dd})
					continue
				}
			}
		}
		switch r.Intn(6) {
		case 0:
			dd = 0 // only boxes that contain p
		case 1:
			dd = quarter(r, 0, 2)
		case 2: // exactly the distance to a vertex along an axis: the <= boundary
			if len(iv) > 0 {
				v := iv[r.Intn(len(iv))]
				ax := r.Intn(3)
				off := float64(r.Range(1, 8)) / 4 * float64(r.Range(1, 4))
				p = fv(v)
				if r.Bool() {
					p[ax] += off
				} else {
					p[ax] -= off
				}
				dd = off
				if r.Chance(1, 3) {
					dd -= 0.25
				}
			}
		case 3:
			dd = quarter(r, 0, span)
		case 4:
			dd = float64(4 * span) // everything
		default:
			if r.Chance(1, 4) {
				dd = -1 // nothing
			} else {
				dd = quarter(r, 0, 6)
			}
		}
		qs = append(qs, qDesc{T: "within", P: p, D: dd})
	}
	los := []float64{0, 0, 0, 0.5, 3, -2.5, -1000}
	his := []float64{1, 4.25, 1000, 1e6, 1e6}
	for k := 0; k < per; k++ {
		q := qDesc{T: "ray", P: queryPoint(r, iv, h), Lo: hx.Pick(r, los), Hi: hx.Pick(r, his)}
		q.Dir, q.Via = rayDir(r)
		if r.Chance(1, 6) {
			q.Hi = quarter(r, 0, span) // a cut-off somewhere inside the set
		}
		if r.Chance(1, 12) {
			q.Hi = q.Lo // empty range
		}
		qs = append(qs, q)
	}
	for k := 0; k < (per+1)/2; k++ {
		q := qDesc{T: "trav", P: queryPoint(r, iv, h), Lo: hx.Pick(r, []float64{0, 0, -2.5}), Hi: hx.Pick(r, his)}
		q.Dir, q.Via = rayDir(r)
		q.Caps = make([]float64, n)
		for i := range q.Caps {
			if r.Chance(1, 3) {
				q.Caps[i] = quarter(r, 0, span)
			} else {
				q.Caps[i] = 1e9
			}
		}
		qs = append(qs, q)
	}
	for k := 0; k < per; k++ {
		p := queryPoint(r, iv, h)
		if d.Kind == "tri" && r.Chance(1, 2) {
			if e, ok := edgeExtension(r, d); ok {
				p = e
			}
		}
		qs = append(qs, qDesc{T: "closest", P: p})
	}
	return qs
}

// originQueries: queries aimed at the world origin: the point itself and points next to it, radii that reach
// it only just, rays through it whose range ends before anything else, closest point from nearby.
func originQueries() []qDesc {
	o := [3]float64{0, 0, 0}
	return []qDesc{
		{T: "contain", P: o}, {T: "contain", P: [3]float64{0.25, 0, 0}},
		{T: "within", P: o, D: 0}, {T: "within", P: [3]float64{-0.5, 0, 0}, D: 0.5}, {T: "within", P: [3]float64{0, 0.25, 0}, D: 1},
		{T: "within", P: [3]float64{-1, -1, -1}, D: 1.75}, {T: "within", P: o, D: 100},
		{T: "ray", P: [3]float64{0, -5, 0}, Dir: [3]float64{0, 1, 0}, Lo: 0, Hi: 1000},
		{T: "ray", P: [3]float64{-3, 0, 0}, Dir: [3]float64{1, 0, 0}, Lo: 0, Hi: 3.5},
		{T: "ray", P: [3]float64{-3, 0, 0}, Dir: [3]float64{1, 0, 0}, Lo: 0, Hi: 1000},
		{T: "ray", P: [3]float64{-2, -2, -2}, Dir: [3]float64{1, 1, 1}, Lo: 0, Hi: 4.25},
		{T: "ray", P: [3]float64{0, 0, 4}, Dir: [3]float64{0, negZero, -1}, Lo: -2.5, Hi: 1000},
		{T: "trav", P: [3]float64{0, -5, 0}, Dir: [3]float64{0, 1, 0}, Lo: 0, Hi: 1000},
		{T: "trav", P: [3]float64{-3, 0, 0}, Dir: [3]float64{1, 0, 0}, Lo: 0, Hi: 3.5},
		{T: "closest", P: [3]float64{-0.25, 0, 0}}, {T: "closest", P: [3]float64{0, 0, 0.5}}, {T: "closest", P: o},
		{T: "closest", P: [3]float64{0.75, 0.5, 0.5}},
	}
}

func genSet(r *hx.Rng, big int) setDesc {
	d := setDesc{Kind: hx.Pick(r, []string{"point", "point", "line", "tri", "tri", "box"})}
	n := sizeOf(r, big)
	if r.Chance(1, 60) && d.Kind != "line" {
		n = 0 // the empty set: no tree at all
	}
	var iv []ivec
	d.Verts, d.Idx, _, iv = genElements(r, d.Kind, n)
	if d.Kind == "line" && r.Chance(1, 40) {
		// the line strip without indices (PrimitiveCount() = -1): no elements, no tree
		d.Verts, d.Idx, iv, n = [][3]float64{}, []int{}, nil, 0
	}
	switch r.Intn(5) {
	case 0:
		d.Depth = -1 // automatic
	case 1:
		d.Depth = 0
	default:
		d.Depth = r.Range(0, 6)
	}
	per := 3
	if n > 200 {
		per = 1
	} else if n > 60 {
		per = 2
	}
	if d.Kind != "box" && r.Chance(1, 6) {
		d.Attr = hx.Pick(r, []string{"Rest", "Normal", "Custom/1"}) // the tree over another attribute than Position
	}
	// element 0 of zero extent exactly at the world origin (point / zero-size box), the others pushed to one
	// side of it (half of the time) or left around it; queries aimed at the origin are added
	atOrigin := false
	if n >= 2 && (d.Kind == "point" || d.Kind == "box") && r.Chance(1, 8) {
		atOrigin = true
		if r.Bool() {
			ax, sg := r.Intn(3), hx.Pick(r, []float64{1, -1})
			lo := math.Inf(1)
			for _, v := range d.Verts {
				lo = math.Min(lo, sg*v[ax])
			}
			for i := range d.Verts {
				d.Verts[i][ax] += sg * (float64(r.Range(1, 3)) - lo)
				iv[i][ax] = int(d.Verts[i][ax])
			}
		}
		d.Verts[0], iv[0] = [3]float64{}, ivec{}
		if d.Kind == "box" {
			d.Verts[1], iv[1] = [3]float64{}, ivec{}
		}
	}
	d.Queries = genQueries(r, d, iv, n, per, cellsOf(d))
	if atOrigin {
		d.Queries = append(d.Queries, originQueries()...)
	}
	return d
}

// ---- fixed corner cases ----

func pts(vs ...[3]float64) [][3]float64 { return vs }

func stdQueries(ps ...[3]float64) []qDesc {
	var qs []qDesc
	for _, p := range ps {
		qs = append(qs,
			qDesc{T: "closest", P: p},
			qDesc{T: "contain", P: p},
			qDesc{T: "within", P: p, D: 1},
			qDesc{T: "within", P: p, D: 0},
			qDesc{T: "ray", P: p, Dir: [3]float64{1, 0, 0}, Lo: 0, Hi: 1000},
			qDesc{T: "ray", P: p, Dir: [3]float64{-1, 0, 0}, Lo: -1000, Hi: 1000},
			qDesc{T: "ray", P: p, Dir: [3]float64{1, 1, 0}, Lo: 0, Hi: 1000},
			qDesc{T: "ray", P: p, Dir: [3]float64{1, 2, 3}, Lo: 0.5, Hi: 4.25},
		)
	}
	// negative zeros: every sign pattern of the zero components, written directly and as Up().Flip() etc.
	for i, p := range ps {
		if i >= 2 {
			break
		}
		for _, zs := range [][2]float64{{0, negZero}, {negZero, 0}, {negZero, negZero}} {
			qs = append(qs,
				qDesc{T: "ray", P: p, Dir: [3]float64{zs[0], -1, zs[1]}, Lo: -1000, Hi: 1000},
				qDesc{T: "ray", P: p, Dir: [3]float64{1, zs[0], zs[1]}, Lo: -1000, Hi: 1000},
				qDesc{T: "ray", P: p, Dir: [3]float64{zs[0], zs[1], -1}, Lo: -1000, Hi: 1000})
		}
		qs = append(qs,
			qDesc{T: "ray", P: p, Dir: [3]float64{0, 1, 0}, Via: "flip", Lo: -1000, Hi: 1000},
			qDesc{T: "ray", P: p, Dir: [3]float64{0, 1, 0}, Via: "scale", Lo: -1000, Hi: 1000},
			qDesc{T: "ray", P: p, Dir: [3]float64{-1, 0, 1}, Via: "flip", Lo: -1000, Hi: 1000},
			qDesc{T: "trav", P: p, Dir: [3]float64{0, 0, 1}, Via: "scale", Lo: -1000, Hi: 1000})
	}
	return qs
}

func fixedSets() []setDesc {
	var out []setDesc
	// DESIGN §5 entry 17: four collinear points in one leaf, query next to the second one
	line4 := pts([3]float64{0, 0, 0}, [3]float64{1, 0, 0}, [3]float64{2, 0, 0}, [3]float64{3, 0, 0})
	for _, depth := range []int{0, 1, 3, -1} {
		out = append(out, setDesc{Kind: "point", Verts: line4, Depth: depth,
			Queries: stdQueries([3]float64{0.75, 0, 0}, [3]float64{1, 0.25, 0}, [3]float64{-5, 0, 0}, [3]float64{2.5, 1, 1})})
	}
	// single element, two coincident elements, the empty set
	out = append(out, setDesc{Kind: "point", Verts: pts([3]float64{1, 2, 3}), Depth: 2,
		Queries: stdQueries([3]float64{1, 2, 3}, [3]float64{0, 0, 0})})
	out = append(out, setDesc{Kind: "point", Verts: pts([3]float64{1, 2, 3}, [3]float64{1, 2, 3}, [3]float64{1, 2, 3}), Depth: 6,
		Queries: stdQueries([3]float64{1, 2, 3}, [3]float64{4, 4, 4})})
	out = append(out, setDesc{Kind: "point", Verts: pts(), Depth: 3})
	out = append(out, setDesc{Kind: "tri", Verts: pts(), Idx: []int{}, Depth: -1})
	// elements on the centre planes: a 3x3x3 lattice, every depth
	var lat [][3]float64
	for x := -1; x <= 1; x++ {
		for y := -1; y <= 1; y++ {
			for z := -1; z <= 1; z++ {
				lat = append(lat, [3]float64{float64(2 * x), float64(2 * y), float64(2 * z)})
			}
		}
	}
	for _, depth := range []int{0, 1, 2, 6, -1} {
		out = append(out, setDesc{Kind: "point", Verts: lat, Depth: depth,
			Queries: stdQueries([3]float64{0, 0, 0}, [3]float64{1, 1, 1}, [3]float64{0.25, 0, -0.25}, [3]float64{3, 0, 0}, [3]float64{-2, -2, -2})})
	}
	// boxes straddling the centre (an element larger than the octant it is sent to)
	boxV := pts([3]float64{-4, -4, -4}, [3]float64{1, 1, 1}, [3]float64{-1, -1, -1}, [3]float64{4, 4, 4},
		[3]float64{-4, -1, -1}, [3]float64{4, 1, 1}, [3]float64{3, 3, 3}, [3]float64{4, 4, 4}, [3]float64{-4, -4, -4}, [3]float64{-3, -3, -3})
	for _, depth := range []int{0, 1, 2, -1} {
		out = append(out, setDesc{Kind: "box", Verts: boxV, Idx: []int{0, 1, 2, 3, 4, 5, 6, 7, 8, 9}, Depth: depth,
			Queries: stdQueries([3]float64{0, 0, 0}, [3]float64{3.5, 3.5, 3.5}, [3]float64{-3.5, 0, 0}, [3]float64{5, 5, 5}, [3]float64{-1, -1, -1})})
	}
	// DESIGN §5 entry 28: a query on the extension of edge P2-P3; a second, nearer-looking cell
	triV := pts([3]float64{0, 0, 0}, [3]float64{2, 0, 0}, [3]float64{0, 2, 0},
		[3]float64{4, -2, 0}, [3]float64{5, -2, 0}, [3]float64{4, -3, 0},
		[3]float64{-6, 6, 0}, [3]float64{-7, 6, 0}, [3]float64{-6, 7, 0})
	for _, depth := range []int{0, 1, 2, -1} {
		out = append(out, setDesc{Kind: "tri", Verts: triV, Idx: []int{0, 1, 2, 3, 4, 5, 6, 7, 8}, Depth: depth,
			Queries: append(stdQueries([3]float64{3.5, -1.5, 0}, [3]float64{1, 1, 0}, [3]float64{0.5, 0.5, 2}),
				qDesc{T: "closest", P: [3]float64{4, -2, 0}}, qDesc{T: "closest", P: [3]float64{-1.5, 3.5, 0}},
				qDesc{T: "closest", P: [3]float64{3, 0, 0}}, qDesc{T: "closest", P: [3]float64{0, -1, 0}})})
	}
	// mesh-level entry points: a triangle that names a vertex twice, followed by proper triangles (element
	// ids must stay the mesh's primitive indices), Position and another attribute
	twV := pts([3]float64{0, 0, 0}, [3]float64{2, 0, 0}, [3]float64{0, 2, 0}, [3]float64{6, 6, 0}, [3]float64{8, 6, 0}, [3]float64{6, 8, 0},
		[3]float64{-6, -6, 2}, [3]float64{-8, -6, 2}, [3]float64{-6, -8, 2})
	for _, depth := range []int{0, 1, 2, -1} {
		for _, atr := range []string{"", "Rest"} {
			out = append(out, setDesc{Kind: "tri", Verts: twV, Idx: []int{0, 0, 1, 3, 4, 5, 2, 1, 2, 6, 7, 8, 0, 1, 2}, Depth: depth, Attr: atr,
				Queries: stdQueries([3]float64{7, 7, 0}, [3]float64{-7, -7, 2}, [3]float64{0.5, 0.5, 0}, [3]float64{1, 0, 0})})
		}
	}
	out = append(out, setDesc{Kind: "point", Verts: line4, Depth: 1, Attr: "Rest", Queries: stdQueries([3]float64{0.75, 0, 0}, [3]float64{2.5, 1, 1})})
	// four points on a unit square in one cell; radii that reach the cell's Min and Max corners from a point
	// off their diagonal but not the corner (0,1,0)
	sq := pts([3]float64{0, 0, 0}, [3]float64{1, 0, 0}, [3]float64{0, 1, 0}, [3]float64{1, 1, 0})
	for _, depth := range []int{0, 1, -1} {
		out = append(out, setDesc{Kind: "point", Verts: sq, Depth: depth, Queries: []qDesc{
			{T: "within", P: [3]float64{0.75, 0.25, 0}, D: 1}, {T: "within", P: [3]float64{0.75, 0.25, 0}, D: 0.75},
			{T: "within", P: [3]float64{0.25, 0.75, 0}, D: 1}, {T: "within", P: [3]float64{0.5, 0.5, 0.5}, D: 1},
			{T: "within", P: [3]float64{0.75, 0.25, 0.25}, D: 0.25}, {T: "within", P: [3]float64{0.75, 0.25, 0}, D: 1.25}}})
	}
	// an element of zero extent exactly at the world origin (its box equals NewEmptyAABB()) as element 0 / first of
	// its cell: all others on one side (every depth: the root cell must still contain it), or a lattice around it
	// (depth >= 1: it is the first element of the (+,+,+) child cell); queries aimed at the origin
	side := pts([3]float64{0, 0, 0}, [3]float64{2, 0, 0}, [3]float64{3, 1, 0}, [3]float64{4, 0, 2}, [3]float64{2, 2, 2}, [3]float64{5, 1, 1})
	co := pts([3]float64{0, 0, 0}, [3]float64{0, 0, 0}, [3]float64{0, 0, 0}, [3]float64{4, 4, 4}, [3]float64{5, 4, 4}, [3]float64{4, 6, 5})
	latO := pts([3]float64{0, 0, 0})
	for _, v := range lat {
		if v != [3]float64{0, 0, 0} {
			latO = append(latO, v)
		}
	}
	for _, depth := range []int{0, 1, 2, 5, -1} {
		out = append(out, setDesc{Kind: "point", Verts: side, Depth: depth, Queries: originQueries()})
		out = append(out, setDesc{Kind: "point", Verts: co, Depth: depth, Queries: originQueries()})
		out = append(out, setDesc{Kind: "point", Verts: latO, Depth: depth, Queries: originQueries()})
		// a zero-size box, a zero-length first segment, a triangle (0,0,0)x3 at the origin
		out = append(out, setDesc{Kind: "box", Verts: pts([3]float64{0, 0, 0}, [3]float64{0, 0, 0}, [3]float64{2, 1, 1}, [3]float64{3, 2, 2}, [3]float64{4, 0, 0}, [3]float64{4, 3, 1}, [3]float64{2, 2, 2}, [3]float64{5, 5, 5}),
			Idx: []int{0, 1, 2, 3, 4, 5, 6, 7}, Depth: depth, Queries: originQueries()})
		out = append(out, setDesc{Kind: "line", Verts: pts([3]float64{0, 0, 0}, [3]float64{0, 0, 0}, [3]float64{3, 1, 0}, [3]float64{4, 1, 2}, [3]float64{2, 3, 2}),
			Idx: []int{0, 1, 2, 3, 4, 2}, Depth: depth, Queries: originQueries()})
		out = append(out, setDesc{Kind: "tri", Verts: pts([3]float64{0, 0, 0}, [3]float64{2, 0, 0}, [3]float64{4, 0, 0}, [3]float64{2, 3, 1}, [3]float64{5, 1, 1}, [3]float64{3, 1, 4}, [3]float64{3, 3, 3}),
			Idx: []int{0, 0, 0, 1, 2, 3, 4, 5, 6}, Depth: depth, Queries: originQueries()})
	}
	// a strip with shared vertices
	out = append(out, setDesc{Kind: "line", Verts: pts([3]float64{0, 0, 0}, [3]float64{4, 0, 0}, [3]float64{4, 4, 0}, [3]float64{0, 4, 4}, [3]float64{0, 0, 4}),
		Idx: []int{0, 1, 2, 3, 4, 0, 2}, Depth: 2,
		Queries: stdQueries([3]float64{2, 2, 2}, [3]float64{4, 2, 0}, [3]float64{5, 5, 5})})
	return out
}

// ---- BVH ----

func genBvh(r *hx.Rng, thorough bool) bvhDesc {
	max := 24
	if thorough {
		max = 120
	}
	nt := r.Range(1, max)
	if r.Chance(1, 4) {
		nt = r.Range(1, 4)
	}
	var d bvhDesc
	var iv []ivec
	switch r.Intn(4) {
	case 0: // a wall of parallel, overlapping triangles along one axis: many hits on one ray
		ax := r.Intn(3)
		for t := 0; t < nt; t++ {
			off := r.Range(-20, 20)
			for k := 0; k < 3; k++ {
				v := randVec(r, 6)
				v[ax] = off
				iv = append(iv, v)
			}
		}
	case 1: // random soup
		iv, _ = layout(r, 3*nt)
	default: // big triangles around the origin
		for t := 0; t < 3*nt; t++ {
			iv = append(iv, randVec(r, 12))
		}
	}
	// members: triangles only (NewBVHFromMesh, or NewBVHTree called directly), spheres only, mixed
	mode := r.Intn(10)
	if mode >= 5 && mode <= 6 {
		iv, nt = nil, 0
	}
	for i, v := range iv {
		d.Verts = append(d.Verts, fv(v))
		d.Idx = append(d.Idx, i)
	}
	type sphereAim struct {
		c [3]float64
		r float64
	}
	var aims []sphereAim
	if mode >= 5 {
		ns := r.Range(1, max/2)
		if r.Chance(1, 4) {
			ns = r.Range(1, 3)
		}
		cs, _ := layout(r, ns)
		animated := r.Chance(1, 2)
		if animated || r.Chance(1, 6) {
			w := hx.Pick(r, [][2]float64{{0, 1}, {0, 0.5}, {2, 6}, {-1, 1}})
			d.T0, d.T1 = w[0], w[1]
			d.Time = hx.Pick(r, []float64{w[0], w[1], (w[0] + w[1]) / 2, w[0] + (w[1]-w[0])/4, w[0] + 3*(w[1]-w[0])/4})
		}
		for _, c := range cs {
			sd := sphDesc{C0: fv(c), C1: fv(c), R: hx.Pick(r, []float64{0.5, 1, 1, 1.5, 2, 3, 5})}
			if animated && r.Chance(2, 3) {
				m := randVec(r, 6)
				sd.C1 = fv(ivec{c[0] + m[0], c[1] + m[1], c[2] + m[2]})
				iv = append(iv, ivec{c[0] + m[0], c[1] + m[1], c[2] + m[2]})
			}
			d.Spheres = append(d.Spheres, sd)
			iv = append(iv, c)
			f := 0.0
			if d.T1 != d.T0 {
				f = (d.Time - d.T0) / (d.T1 - d.T0)
			}
			aims = append(aims, sphereAim{[3]float64{sd.C0[0] + (sd.C1[0]-sd.C0[0])*f, sd.C0[1] + (sd.C1[1]-sd.C0[1])*f, sd.C0[2] + (sd.C1[2]-sd.C0[2])*f}, sd.R})
		}
	}
	if mode >= 3 && r.Chance(1, 2) { // a sub-range [start, end) of a longer caller-owned slice
		d.Pad = [2]int{r.Range(0, 2), r.Range(0, 2)}
	}
	d.Direct = mode >= 3
	h := hullOf(iv)
	d.O = queryPoint(r, iv, h)
	if len(aims) > 0 && (nt == 0 || r.Bool()) {
		// aim at a sphere: its centre, inside, on its silhouette (grazing), just outside
		a := aims[r.Intn(len(aims))]
		tx := a.c
		for k := range tx {
			tx[k] += a.r * hx.Pick(r, []float64{0, 0, 0.5, -0.5, 0.25, 1, -1, 1.25})
		}
		if r.Chance(1, 3) { // straight along an axis
			d.O = tx
			d.O[r.Intn(3)] += float64(r.Range(5, 40)) * hx.Pick(r, []float64{1, -1})
		} else if r.Chance(1, 6) { // from inside the sphere
			d.O = a.c
			d.O[r.Intn(3)] += a.r / 2
		}
		for k := range d.O { // the origin stays on the quarter grid
			d.O[k] = math.Round(d.O[k]*4) / 4
		}
		d.Dir = [3]float64{tx[0] - d.O[0], tx[1] - d.O[1], tx[2] - d.O[2]}
		for k := range d.Dir {
			if d.Dir[k] == 0 && r.Bool() {
				d.Dir[k] = negZero
			}
		}
	} else if nt > 0 && r.Chance(2, 3) {
		// aim at a triangle's interior (quarter-grid target)
		t := r.Intn(nt)
		a, b, c := iv[3*t], iv[3*t+1], iv[3*t+2]
		tx := [3]float64{float64(2*a[0]+b[0]+c[0]) / 4, float64(2*a[1]+b[1]+c[1]) / 4, float64(2*a[2]+b[2]+c[2]) / 4}
		if r.Chance(1, 3) { // straight along an axis: the direction has two exact zero components
			d.O = tx
			d.O[r.Intn(3)] += float64(r.Range(5, 40)) * hx.Pick(r, []float64{1, -1})
		} else if r.Chance(1, 4) { // in an axis plane: one exact zero component
			k := r.Intn(3)
			d.O[k] = tx[k]
		}
		d.Dir = [3]float64{tx[0] - d.O[0], tx[1] - d.O[1], tx[2] - d.O[2]}
		if r.Chance(1, 3) {
			for k := range d.Dir {
				d.Dir[k] = -d.Dir[k]
			}
		}
		for k := range d.Dir { // a target straight along an axis: zero components of either sign
			if d.Dir[k] == 0 && r.Bool() {
				d.Dir[k] = negZero
			}
		}
		if r.Chance(1, 4) { // the same direction, obtained by negating its opposite
			for k := range d.Dir {
				d.Dir[k] = -d.Dir[k]
			}
			d.Via = hx.Pick(r, []string{"flip", "scale"})
		}
	} else {
		d.Dir, d.Via = rayDir(r)
	}
	if d.Dir == [3]float64{} {
		d.Dir = [3]float64{0, 0, 1}
	}
	d.Lo = 0
	d.Hi = hx.Pick(r, []float64{1e6, 1e6, 1e6, 1000, 8, 2.5})
	if r.Chance(1, 8) {
		d.Hi = quarter(r, 0, 40)
	}
	d.Seed = int64(r.Intn(1 << 30))
	return d
}

func fixedBvh() []bvhDesc {
	// five parallel unit-ish triangles stacked along z, hit front to back and back to front; the same
	// mesh under several split-axis seeds (structure differs, the answer must not)
	var out []bvhDesc
	var verts [][3]float64
	var idx []int
	for _, z := range []float64{5, 1, 3, 9, 7} {
		k := len(verts)
		verts = append(verts, [3]float64{-4, -4, z}, [3]float64{4, -4, z}, [3]float64{0, 6, z})
		idx = append(idx, k, k+1, k+2)
	}
	for seed := int64(1); seed <= 6; seed++ {
		out = append(out, bvhDesc{Verts: verts, Idx: idx, O: [3]float64{0, 0, -2}, Dir: [3]float64{0, 0, 1}, Lo: 0, Hi: 1e6, Seed: seed})
		out = append(out, bvhDesc{Verts: verts, Idx: idx, O: [3]float64{0.25, 0.5, 20}, Dir: [3]float64{0, 0, -1}, Lo: 0, Hi: 1e6, Seed: seed})
	}
	out = append(out, bvhDesc{Verts: verts, Idx: idx, O: [3]float64{0, 0, -2}, Dir: [3]float64{0, 0, 1}, Lo: 0, Hi: 2.5, Seed: 3})
	out = append(out, bvhDesc{Verts: verts, Idx: idx, O: [3]float64{0, 0, -2}, Dir: [3]float64{1, 1, 4}, Lo: 0, Hi: 1e6, Seed: 4})
	out = append(out, bvhDesc{Verts: verts, Idx: idx, O: [3]float64{30, 0, -2}, Dir: [3]float64{0, 0, 1}, Lo: 0, Hi: 1e6, Seed: 5})
	out = append(out, bvhDesc{Verts: verts[:3], Idx: idx[:3], O: [3]float64{0, 0, -2}, Dir: [3]float64{0, 0, 1}, Lo: 0, Hi: 1e6, Seed: 5})
	// spheres (through NewBVHTree): a ray through the outer shell of the first sphere (x = -1.5, radius 2), a
	// moving sphere met at the start / middle / end of the time window, spheres and triangles mixed, the
	// range [start, end) inside a longer slice
	sp := []sphDesc{{C0: [3]float64{0, 0, 10}, C1: [3]float64{0, 0, 10}, R: 2}, {C0: [3]float64{20, 0, 10}, C1: [3]float64{20, 0, 10}, R: 2},
		{C0: [3]float64{0, 0, 30}, C1: [3]float64{0, 0, 30}, R: 5}}
	mv := []sphDesc{{C0: [3]float64{0, 0, 10}, C1: [3]float64{8, 0, 10}, R: 1}, {C0: [3]float64{0, 6, 14}, C1: [3]float64{0, -6, 14}, R: 1.5},
		{C0: [3]float64{4, 0, 20}, C1: [3]float64{4, 0, 20}, R: 3}}
	for seed := int64(1); seed <= 3; seed++ {
		out = append(out, bvhDesc{Spheres: sp, O: [3]float64{-1.5, 0, 0}, Dir: [3]float64{0, 0, 1}, Hi: 1e6, Seed: seed})
		out = append(out, bvhDesc{Spheres: sp, O: [3]float64{0, 0, 0}, Dir: [3]float64{0, 0, 1}, Hi: 1e6, Seed: seed, Pad: [2]int{1, 2}})
		out = append(out, bvhDesc{Spheres: sp[:1], O: [3]float64{0, 1.75, 0}, Dir: [3]float64{0, 0, 1}, Hi: 1e6, Seed: seed})
		out = append(out, bvhDesc{Spheres: sp, O: [3]float64{0, 0, 10}, Dir: [3]float64{1, 0, 0}, Hi: 1e6, Seed: seed}) // from inside
		for _, tm := range []float64{0, 0.5, 1} {
			out = append(out, bvhDesc{Spheres: mv, T0: 0, T1: 1, Time: tm, O: [3]float64{8 * tm, 0, 0}, Dir: [3]float64{0, 0, 1}, Hi: 1e6, Seed: seed})
			out = append(out, bvhDesc{Spheres: mv, T0: 0, T1: 1, Time: tm, O: [3]float64{0, 6 - 12*tm, 0}, Dir: [3]float64{0, 0, 1}, Hi: 1e6, Seed: seed})
		}
		out = append(out, bvhDesc{Verts: verts, Idx: idx, Spheres: sp, O: [3]float64{0, 0, -2}, Dir: [3]float64{0, 0, 1}, Hi: 1e6, Seed: seed, Pad: [2]int{2, 1}})
		out = append(out, bvhDesc{Verts: verts, Idx: idx, Spheres: sp, O: [3]float64{0, 0, 50}, Dir: [3]float64{0, 0, -1}, Hi: 1e6, Seed: seed})
		out = append(out, bvhDesc{Verts: verts, Idx: idx, Direct: true, Pad: [2]int{1, 1}, O: [3]float64{0, 0, -2}, Dir: [3]float64{0, 0, 1}, Hi: 1e6, Seed: seed})
	}
	// the same rays with negative-zero components: written out, and as Flip() / Scale(-1) of the opposite
	for seed := int64(1); seed <= 3; seed++ {
		out = append(out, bvhDesc{Verts: verts, Idx: idx, O: [3]float64{0, 0, -2}, Dir: [3]float64{negZero, negZero, 1}, Lo: 0, Hi: 1e6, Seed: seed})
		out = append(out, bvhDesc{Verts: verts, Idx: idx, O: [3]float64{0.25, 0.5, 20}, Dir: [3]float64{0, 0, 1}, Via: "flip", Lo: 0, Hi: 1e6, Seed: seed})
		out = append(out, bvhDesc{Verts: verts, Idx: idx, O: [3]float64{0.25, 0.5, 20}, Dir: [3]float64{0, 0, 1}, Via: "scale", Lo: 0, Hi: 1e6, Seed: seed})
		out = append(out, bvhDesc{Verts: verts, Idx: idx, O: [3]float64{0, 0, -2}, Dir: [3]float64{0, negZero, -1}, Via: "flip", Lo: 0, Hi: 1e6, Seed: seed})
	}
	return out
}
