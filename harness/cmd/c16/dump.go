package main

// Reading the private structure of trees.OctTree and rendering.BVHNode (reflection + unsafe, read
// only): the correspondence check compares the dumped structure with the model's, so no hook in
// /repo is needed.

import (
	"fmt"
	"math"
	"math/big"
	"reflect"
	"strings"
	"unsafe"

	"github.com/EliCDavis/polyform/math/geometry"
	"github.com/EliCDavis/polyform/rendering"
	"github.com/EliCDavis/polyform/trees"
	"github.com/EliCDavis/vector/vector3"
)

func unexported(v reflect.Value, name string) reflect.Value {
	f := v.FieldByName(name)
	if !f.IsValid() {
		panic("c16 harness: field " + name + " not found in " + v.Type().String())
	}
	return reflect.NewAt(f.Type(), unsafe.Pointer(f.UnsafeAddr())).Elem()
}

// ---- exact conversions ----

// z4 converts a coordinate on the quarter grid to the model's integer (4*x); ok=false otherwise.
func z4(x float64) (int64, bool) {
	y := x * 4
	if math.IsNaN(y) || math.IsInf(y, 0) || y != math.Trunc(y) || math.Abs(y) > 1e15 {
		return 0, false
	}
	return int64(y), true
}

type exactErr struct{ what string }

func mustZ4(x float64) int64 {
	v, ok := z4(x)
	if !ok {
		panic(exactErr{fmt.Sprintf("coordinate %v is not on the quarter grid", x)})
	}
	return v
}

func zs(v int64) string {
	if v < 0 {
		return fmt.Sprintf("(%d)", v)
	}
	return fmt.Sprintf("%d", v)
}

func ptCoq(v vector3.Float64) string {
	return fmt.Sprintf("(%s,%s,%s)%%Z", zs(mustZ4(v.X())), zs(mustZ4(v.Y())), zs(mustZ4(v.Z())))
}

func boxCoq(b geometry.AABB) string {
	mn, mx := b.Min(), b.Max()
	return fmt.Sprintf("((%s,%s,%s),(%s,%s,%s))%%Z",
		zs(mustZ4(mn.X())), zs(mustZ4(mn.Y())), zs(mustZ4(mn.Z())),
		zs(mustZ4(mx.X())), zs(mustZ4(mx.Y())), zs(mustZ4(mx.Z())))
}

// dyadic returns num, exp with x = num / 2^exp exactly (x finite).
func dyadic(x float64) (*big.Int, uint) {
	if x == 0 {
		return big.NewInt(0), 0
	}
	frac, e := math.Frexp(x)
	m := int64(frac * (1 << 53))
	e -= 53
	for m%2 == 0 {
		m /= 2
		e++
	}
	n := big.NewInt(m)
	if e >= 0 {
		return n.Lsh(n, uint(e)), 0
	}
	return n, uint(-e)
}

func bigCoq(n *big.Int) string {
	if n.Sign() < 0 {
		return "(" + n.String() + ")%Z"
	}
	return n.String() + "%Z"
}

func dyCoq(x float64) string {
	if math.IsNaN(x) || math.IsInf(x, 0) {
		panic(exactErr{fmt.Sprintf("value %v is not finite", x)})
	}
	n, e := dyadic(x)
	return fmt.Sprintf("(%s,%d%%N)", bigCoq(n), e)
}

func dvecCoq(v vector3.Float64) string {
	return "(" + dyCoq(v.X()) + "," + dyCoq(v.Y()) + "," + dyCoq(v.Z()) + ")"
}

func bits(x float64) uint64 {
	if x == 0 {
		return 0 // -0 and +0 are the same point
	}
	return math.Float64bits(x)
}

func fptCoq(v vector3.Float64) string {
	return fmt.Sprintf("(%d%%N,%d%%N,%d%%N)", bits(v.X()), bits(v.Y()), bits(v.Z()))
}

func natList(xs []int) string {
	var b strings.Builder
	b.WriteString("[")
	for i, x := range xs {
		if i > 0 {
			b.WriteByte(';')
		}
		fmt.Fprintf(&b, "%d", x)
	}
	b.WriteString("]%nat")
	return b.String()
}

func boolList(xs []bool) string {
	var b strings.Builder
	b.WriteString("[")
	for i, x := range xs {
		if i > 0 {
			b.WriteByte(';')
		}
		if x {
			b.WriteString("true")
		} else {
			b.WriteString("false")
		}
	}
	b.WriteString("]")
	return b.String()
}

// ---- octree dump ----

func dumpOctree(t *trees.OctTree, b *strings.Builder, nodes *int, maxDepth *int, depth int) {
	*nodes++
	if depth > *maxDepth {
		*maxDepth = depth
	}
	v := reflect.ValueOf(t).Elem()
	bounds := unexported(v, "bounds").Interface().(geometry.AABB)
	b.WriteString("(Node ")
	b.WriteString(boxCoq(bounds))
	b.WriteString(" [")
	els := unexported(v, "elements")
	for i := 0; i < els.Len(); i++ {
		e := els.Index(i)
		idx := int(unexported(e, "originalIndex").Int())
		eb := unexported(e, "bounds").Interface().(geometry.AABB)
		if i > 0 {
			b.WriteByte(';')
		}
		fmt.Fprintf(b, "(%d%%nat,%s)", idx, boxCoq(eb))
	}
	b.WriteString("] [")
	ch := unexported(v, "children")
	for i := 0; i < ch.Len(); i++ {
		c := ch.Index(i).Interface().(*trees.OctTree)
		if i > 0 {
			b.WriteByte(';')
		}
		dumpOctree(c, b, nodes, maxDepth, depth+1)
	}
	b.WriteString("])")
}

// ---- BVH dump ----

type bvhLeaf struct {
	h  rendering.Hittable
	id int
}

// dumpBVH renders the structure as a Coq bvh term; leaves are identified by the index the harness
// stored in the x component of the triangle's first normal.
func dumpBVH(h rendering.Hittable, b *strings.Builder, leaves map[int]rendering.Hittable, nodes *int) {
	switch n := h.(type) {
	case *rendering.BVHNode:
		*nodes++
		v := reflect.ValueOf(n).Elem()
		box := n.BoundingBox(0, 0)
		b.WriteString("(BNode ")
		b.WriteString(boxCoq(*box))
		b.WriteByte(' ')
		dumpBVH(unexported(v, "left").Interface().(rendering.Hittable), b, leaves, nodes)
		b.WriteByte(' ')
		dumpBVH(unexported(v, "right").Interface().(rendering.Hittable), b, leaves, nodes)
		b.WriteString(")")
	case rendering.Triangle:
		rv := reflect.New(reflect.TypeOf(n)).Elem()
		rv.Set(reflect.ValueOf(n))
		n1 := unexported(rv, "n1").Interface().(vector3.Float64)
		id := int(n1.X())
		leaves[id] = h
		fmt.Fprintf(b, "(BLeaf %d%%nat)", id)
	case *rendering.Sphere:
		id, ok := rawSphereID[n]
		if !ok {
			panic("c16 harness: unknown sphere in the BVH")
		}
		leaves[id] = h
		fmt.Fprintf(b, "(BLeaf %d%%nat)", id)
	default:
		panic(fmt.Sprintf("c16 harness: unexpected BVH member %T", h))
	}
}

// ---- the cells of the tree the implementation builds (for query generation relative to cell bounds) ----

type fbox struct {
	lo, hi [3]float64
	n      int // elements in or below the cell
}

func arr3(v vector3.Float64) [3]float64 { return [3]float64{v.X(), v.Y(), v.Z()} }

func cellsOf(d setDesc) (cells []fbox) {
	defer func() {
		if recover() != nil {
			cells = nil
		}
	}()
	_, tree := buildSet(d)
	if tree == nil {
		return nil
	}
	var walk func(t *trees.OctTree) int
	walk = func(t *trees.OctTree) int {
		v := reflect.ValueOf(t).Elem()
		b := unexported(v, "bounds").Interface().(geometry.AABB)
		cnt := unexported(v, "elements").Len()
		ch := unexported(v, "children")
		for i := 0; i < ch.Len(); i++ {
			cnt += walk(ch.Index(i).Interface().(*trees.OctTree))
		}
		cells = append(cells, fbox{lo: arr3(b.Min()), hi: arr3(b.Max()), n: cnt})
		return cnt
	}
	walk(tree)
	return cells
}
