package main

// Size ladder: element sets far beyond the sizes whose cases are rendered as Coq terms (2^10 +- 1 ... 2^15 + 1,
// thorough: 2^16 + 1 and multiples of NumCPU +- 1), so that anything the implementation does per batch /
// per worker / per chunk of elements is crossed.  One octree set per rung and element kind pair (point / tri /
// line through Mesh.OctTree, OctTreeDepth, OctTreeWithAttributeAndDepth; boxes through trees.NewOctree…) and one
// BVH (NewBVHTree over that many spheres).  These cases are judged in Go, exactly (no tolerance): the tree
// invariant on the dumped tree (every element once, cached bounds = the element's own BoundingBox, inside
// every cell above it) and queries aimed at the LAST elements, the first ones, the middle and the world
// origin, each compared with the exhaustive scan over the elements' own answers.  The replay is the
// generator's parameters (the element set is a deterministic function of them).

import (
	"encoding/json"
	"fmt"
	"math"
	"math/rand"
	"reflect"
	"runtime"
	"sort"

	"verif/harness/hx"

	"github.com/EliCDavis/polyform/math/geometry"
	"github.com/EliCDavis/polyform/rendering"
	"github.com/EliCDavis/polyform/trees"
	"github.com/EliCDavis/vector/vector3"
)

type ladderDesc struct {
	What  string `json:"what"` // oct | bvh
	Kind  string `json:"kind"` // point | line | tri | box (oct), sphere (bvh)
	N     int    `json:"n"`    // number of elements
	Depth int    `json:"depth"`
	Attr  string `json:"attr,omitempty"`
	Seed  uint64 `json:"seed"`
}

// ladderSet: n elements on the integer grid inside a cube that stays clear of the origin (so an element whose
// cached bounds are the zero box is misplaced), plus two elements next to the origin in the middle of the list.
func ladderSet(d ladderDesc) setDesc {
	r := hx.NewRng(d.Seed)
	side := int(math.Cbrt(float64(d.N)))*3 + 8
	at := func() [3]float64 {
		return [3]float64{float64(10 + r.Intn(side)), float64(-5 - r.Intn(side)), float64(7 + r.Intn(side))}
	}
	near := func(p [3]float64, k int) [3]float64 {
		return [3]float64{p[0] + float64(r.Range(-k, k)), p[1] + float64(r.Range(-k, k)), p[2] + float64(r.Range(-k, k))}
	}
	s := setDesc{Kind: d.Kind, Depth: d.Depth, Attr: d.Attr}
	switch d.Kind {
	case "point":
		for i := 0; i < d.N; i++ {
			s.Verts = append(s.Verts, at())
		}
		s.Verts[d.N/2] = [3]float64{0, 1, 0}
		s.Verts[d.N/2+1] = [3]float64{-1, 0, 0}
	case "line":
		p := at()
		for i := 0; i <= d.N; i++ {
			s.Verts = append(s.Verts, p)
			s.Idx = append(s.Idx, i)
			q := near(p, 2)
			for q == p {
				q = near(p, 2)
			}
			if r.Chance(1, 50) {
				q = at()
			}
			p = q
		}
		s.Verts[d.N/2] = [3]float64{0, 1, 0}
	case "tri":
		for i := 0; i < d.N; i++ {
			a := at()
			if i == d.N/2 {
				a = [3]float64{0, 0, 0}
			}
			s.Verts = append(s.Verts, a, [3]float64{a[0] + float64(r.Range(1, 3)), a[1], a[2] + float64(r.Range(-1, 1))},
				[3]float64{a[0], a[1] + float64(r.Range(1, 3)), a[2] + float64(r.Range(-1, 1))})
			s.Idx = append(s.Idx, 3*i, 3*i+1, 3*i+2)
		}
	case "box":
		for i := 0; i < d.N; i++ {
			a := at()
			if i == d.N/2 {
				a = [3]float64{-1, -1, -1}
			}
			s.Verts = append(s.Verts, a, [3]float64{a[0] + float64(r.Range(0, 3)), a[1] + float64(r.Range(0, 3)), a[2] + float64(r.Range(0, 3))})
			s.Idx = append(s.Idx, 2*i, 2*i+1)
		}
	default:
		panic("c16 ladder: unknown kind " + d.Kind)
	}
	return s
}

func sortedCopy(x []int) []int {
	y := append([]int{}, x...)
	sort.Ints(y)
	return y
}

func sameInts(a, b []int) bool {
	if len(a) != len(b) {
		return false
	}
	for i := range a {
		if a[i] != b[i] {
			return false
		}
	}
	return true
}

func short(x []int) string {
	if len(x) > 12 {
		return fmt.Sprintf("%v… (%d ids)", x[:12], len(x))
	}
	return fmt.Sprintf("%v", x)
}

func boxIn(a, b geometry.AABB) bool {
	am, aM, bm, bM := a.Min(), a.Max(), b.Min(), b.Max()
	return bm.X() <= am.X() && bm.Y() <= am.Y() && bm.Z() <= am.Z() && aM.X() <= bM.X() && aM.Y() <= bM.Y() && aM.Z() <= bM.Z()
}

// ladderInvariant walks the dumped tree: every element once, with its own box, inside its cell; cells nested.
func ladderInvariant(t *trees.OctTree, boxes []geometry.AABB) string {
	seen := make([]bool, len(boxes))
	count := 0
	var walk func(t *trees.OctTree, up []geometry.AABB) string
	walk = func(t *trees.OctTree, up []geometry.AABB) string {
		v := reflect.ValueOf(t).Elem()
		b := unexported(v, "bounds").Interface().(geometry.AABB)
		if len(up) > 0 && !boxIn(b, up[len(up)-1]) {
			return fmt.Sprintf("a cell %v..%v is not inside its parent cell", b.Min(), b.Max())
		}
		up = append(up, b)
		els := unexported(v, "elements")
		for i := 0; i < els.Len(); i++ {
			e := els.Index(i)
			idx := int(unexported(e, "originalIndex").Int())
			eb := unexported(e, "bounds").Interface().(geometry.AABB)
			if idx < 0 || idx >= len(boxes) {
				return fmt.Sprintf("element id %d outside 0..%d", idx, len(boxes)-1)
			}
			if seen[idx] {
				return fmt.Sprintf("element %d is stored twice", idx)
			}
			seen[idx] = true
			count++
			if eb.Min() != boxes[idx].Min() || eb.Max() != boxes[idx].Max() {
				return fmt.Sprintf("element %d of %d: cached bounds %v..%v, its own BoundingBox is %v..%v", idx, len(boxes), eb.Min(), eb.Max(), boxes[idx].Min(), boxes[idx].Max())
			}
			if !boxIn(eb, b) {
				return fmt.Sprintf("element %d lies outside the cell that stores it", idx)
			}
		}
		ch := unexported(v, "children")
		for i := 0; i < ch.Len(); i++ {
			if msg := walk(ch.Index(i).Interface().(*trees.OctTree), up); msg != "" {
				return msg
			}
		}
		return ""
	}
	if msg := walk(t, nil); msg != "" {
		return msg
	}
	if count != len(boxes) {
		return fmt.Sprintf("the tree holds %d of %d elements", count, len(boxes))
	}
	return ""
}

func ladderOct(d ladderDesc) (c hx.Case) {
	c = hx.Case{Kind: "ladder", Desc: d, Coq: "COct [] None None []", Nontriv: true}
	kb, _ := json.Marshal(d)
	c.Key = string(kb)
	defer func() {
		if rec := recover(); rec != nil {
			if re, ok := rec.(runtime.Error); ok {
				c.GoFail, c.FailKey = "crash: "+re.Error(), "crash"
			} else {
				c.GoFail, c.FailKey = fmt.Sprintf("panic: %v", rec), "panic"
			}
		}
	}()
	els, tree := buildSet(ladderSet(d))
	n := len(els)
	if n != d.N || tree == nil {
		c.GoFail = fmt.Sprintf("ladder: %d elements expected, %d built, tree nil = %v", d.N, n, tree == nil)
		return c
	}
	boxes := make([]geometry.AABB, n)
	for i, e := range els {
		boxes[i] = e.BoundingBox()
	}
	if msg := ladderInvariant(tree, boxes); msg != "" {
		c.GoFail = "ladder (" + d.Kind + fmt.Sprintf(", %d elements): ", n) + msg
		return c
	}
	fail := func(what string, p vector3.Float64, got, want []int) {
		if c.GoFail == "" {
			c.GoFail = fmt.Sprintf("ladder (%s, %d elements): %s at %v = %s, exhaustive scan = %s", d.Kind, n, what, p, short(got), short(want))
		}
	}
	var targets []vector3.Float64
	for _, i := range []int{n - 1, n - 2, n - 3, n - 500, n - 1023, 0, 1, n / 2, n/2 + 1, 1023, 1024} {
		if i >= 0 && i < n {
			targets = append(targets, boxes[i].Center(), boxes[i].Min(), boxes[i].Max().Add(vector3.New(0.25, 0., 0.)))
		}
	}
	targets = append(targets, vector3.Zero[float64](), vector3.New(0.25, 0.25, 0.25), vector3.New(-0.5, 0., 0.5))
	for _, p := range targets {
		var want []int
		for i := range boxes {
			if boxes[i].Contains(p) {
				want = append(want, i)
			}
		}
		if got := sortedCopy(tree.ElementsContainingPoint(p)); !sameInts(got, want) {
			fail("ElementsContainingPoint", p, got, want)
		}
		for _, rad := range []float64{0, 1.5} {
			want = want[:0]
			for i := range boxes {
				if boxes[i].ClosestPoint(p).Distance(p) <= rad {
					want = append(want, i)
				}
			}
			if got := sortedCopy(tree.ElementsWithinRange(p, rad)); !sameInts(got, want) {
				fail(fmt.Sprintf("ElementsWithinRange(%v)", rad), p, got, want)
			}
		}
		for k, dir := range []vector3.Float64{vector3.New(0., 0., 1.), vector3.New(1., 2., 3.), vector3.New(-1., 0., 0.)} {
			ray := geometry.NewRay(p.Sub(dir.Scale(2)), dir)
			hi := []float64{1000, 6, 2.5}[k]
			want = want[:0]
			for i := range boxes {
				if boxes[i].IntersectsRayInRange(ray, 0, hi) {
					want = append(want, i)
				}
			}
			if got := sortedCopy(tree.ElementsIntersectingRay(ray, 0, hi)); !sameInts(got, want) {
				fail("ElementsIntersectingRay", p, got, want)
			}
			var trav []int
			tree.TraverseIntersectingRay(ray, 0, hi, func(i int, min, max *float64) { trav = append(trav, i) })
			if got := sortedCopy(trav); !sameInts(got, want) {
				fail("TraverseIntersectingRay", p, got, want)
			}
		}
		// ClosestPoint: the returned element's own distance is minimal, the point is that element's
		best, bad := math.Inf(1), false
		ds := make([]float64, n)
		for i, e := range els {
			ds[i] = e.ClosestPoint(p).DistanceSquared(p)
			if math.IsNaN(ds[i]) {
				bad = true
			}
			if ds[i] < best {
				best = ds[i]
			}
		}
		if !bad {
			ri, rp := tree.ClosestPoint(p)
			if ri < 0 || ri >= n || ds[ri] != best || els[ri].ClosestPoint(p) != rp {
				if c.GoFail == "" {
					c.GoFail = fmt.Sprintf("ladder (%s, %d elements): ClosestPoint at %v = element %d, point %v; the least squared distance of the exhaustive scan is %v", d.Kind, n, p, ri, rp, best)
				}
			}
		}
	}
	return c
}

func ladderBvh(d ladderDesc) (c hx.Case) {
	c = hx.Case{Kind: "ladder", Desc: d, Coq: "COct [] None None []", Nontriv: true}
	kb, _ := json.Marshal(d)
	c.Key = string(kb)
	defer func() {
		if rec := recover(); rec != nil {
			if re, ok := rec.(runtime.Error); ok {
				c.GoFail, c.FailKey = "crash: "+re.Error(), "crash"
			} else {
				c.GoFail, c.FailKey = fmt.Sprintf("panic: %v", rec), "panic"
			}
		}
	}()
	r := hx.NewRng(d.Seed)
	side := int(math.Cbrt(float64(d.N)))*3 + 8
	n := d.N
	spheres := make([]*rendering.Sphere, n)
	centres := make([]vector3.Float64, n)
	id := map[*rendering.Sphere]int{}
	objs := make([]rendering.Hittable, n)
	list := make(rendering.HitList, n)
	for i := range spheres {
		centres[i] = vector3.New(float64(10+r.Intn(side)), float64(-5-r.Intn(side)), float64(7+r.Intn(side)))
		if i == n/2 {
			centres[i] = vector3.New(0., 0., 3.)
		}
		spheres[i] = rendering.NewSphere(centres[i], hx.Pick(r, []float64{0.5, 1, 1.5}), nil)
		id[spheres[i]] = i
		objs[i], list[i] = spheres[i], spheres[i]
	}
	rand.Seed(int64(d.Seed))
	bvh := rendering.NewBVHTree(objs, 0, n, 0, 0)
	// structure: node box contains the boxes below, every sphere is a leaf
	seen := make([]bool, n)
	var walk func(h rendering.Hittable) (geometry.AABB, string)
	walk = func(h rendering.Hittable) (geometry.AABB, string) {
		switch x := h.(type) {
		case *rendering.BVHNode:
			v := reflect.ValueOf(x).Elem()
			b := *x.BoundingBox(0, 0)
			for _, side := range []string{"left", "right"} {
				cb, msg := walk(unexported(v, side).Interface().(rendering.Hittable))
				if msg != "" {
					return b, msg
				}
				if !boxIn(cb, b) {
					return b, "a node box does not contain the box of its " + side + " child"
				}
			}
			return b, ""
		case *rendering.Sphere:
			i, ok := id[x]
			if !ok {
				return geometry.AABB{}, "unknown sphere in the BVH"
			}
			seen[i] = true
			return *x.BoundingBox(0, 0), ""
		}
		return geometry.AABB{}, fmt.Sprintf("unexpected BVH member %T", h)
	}
	if _, msg := walk(bvh); msg != "" {
		c.GoFail = fmt.Sprintf("ladder (bvh, %d spheres): %s", n, msg)
		return c
	}
	for i, s := range seen {
		if !s {
			c.GoFail, c.FailKey = fmt.Sprintf("ladder (bvh, %d spheres): BVH lost object %d", n, i), "bvh:lost-leaf"
			return c
		}
	}
	aim := func(o, dir vector3.Float64, lo, hi float64) {
		tr := rendering.NewTemporalRay(o, dir, 0)
		r1, r2 := rendering.NewHitRecord(), rendering.NewHitRecord()
		h1, h2 := bvh.Hit(&tr, lo, hi, r1), list.Hit(&tr, lo, hi, r2)
		best, any := 0.0, false
		for _, s := range spheres {
			rec := rendering.NewHitRecord()
			if s.Hit(&tr, lo, math.MaxFloat64, rec) && rec.Distance <= hi && (!any || rec.Distance < best) {
				best, any = rec.Distance, true
			}
		}
		if (h1 != any || h2 != any || (any && (r1.Distance != best || r2.Distance != best))) && c.GoFail == "" {
			c.GoFail = fmt.Sprintf("ladder (bvh, %d spheres): ray %v -> %v [%v, %v]: BVHNode.Hit = %v %v, HitList.Hit = %v %v, exhaustive nearest = %v %v",
				n, o, dir, lo, hi, h1, r1.Distance, h2, r2.Distance, any, best)
		}
	}
	for _, i := range []int{n - 1, n - 2, n - 3, n - 500, n - 1023, 0, 1, n / 2, 1023, 1024} {
		if i < 0 || i >= n {
			continue
		}
		for _, dir := range []vector3.Float64{vector3.New(0., 0., 1.), vector3.New(1., 2., 3.), vector3.New(-1., 0., 0.)} {
			o := centres[i].Sub(dir.Scale(7)).Add(vector3.New(0.25, 0., 0.25))
			aim(o, dir, 0, 1e6)
			aim(o, dir, 0, 9)
		}
	}
	aim(vector3.Zero[float64](), vector3.New(0., 0., 1.), 0, 1e6)
	aim(vector3.Zero[float64](), vector3.New(1., -1., 1.), 0, 1e6)
	return c
}

// ladderRungs: element counts of the tier.
func ladderRungs(thorough bool) []int {
	rungs := []int{1<<10 - 1, 1<<10 + 1, 1<<11 - 1, 1<<11 + 1, 1<<12 + 1, 1<<13 + 1, 1<<14 + 1, 1<<15 + 1}
	if thorough {
		rungs = append(rungs, 1<<16+1)
		for _, k := range []int{64, 257, 1024} {
			rungs = append(rungs, k*runtime.NumCPU()-1, k*runtime.NumCPU()+1)
		}
	}
	return rungs
}

// ladderCases: per rung two octree sets (element kinds and build parameters rotate with rung and seed) and a BVH.
func ladderCases(seed uint64, thorough bool) []ladderDesc {
	kinds := []string{"point", "tri", "box", "line"}
	depths := []int{-1, 0, 3, 6, 1, -1, 4, 2}
	var out []ladderDesc
	for i, n := range ladderRungs(thorough) {
		for j := 0; j < 2; j++ {
			k := kinds[(i+2*j+int(seed%4))%4]
			d := ladderDesc{What: "oct", Kind: k, N: n, Depth: depths[(i+3*j+int(seed%8))%8], Seed: seed*1000 + uint64(10*i+j)}
			if k != "box" && (i+j)%3 == 2 {
				d.Attr = "Rest"
			}
			out = append(out, d)
		}
		out = append(out, ladderDesc{What: "bvh", Kind: "sphere", N: n, Seed: seed*1000 + uint64(10*i+5)})
	}
	return out
}

func ladderCase(d ladderDesc) hx.Case {
	if d.What == "bvh" {
		return ladderBvh(d)
	}
	return ladderOct(d)
}
