// C16 harness: spatial index queries agree with exhaustive search.
//
// Octree: element sets of points / line-strip segments / triangles (through Mesh.OctTree…) and plain
// boxes (trees.NewOctree…, as rendering.NewBVH uses it) with coordinates on the integer grid; every
// query of trees.OctTree is run and rendered, together with the dumped tree structure and the
// implementation's own per-element BoundingBox / IntersectsRayInRange / ClosestPoint, as a Coq case
// for Check/C16.v.  BVH: rendering.NewBVHFromMesh on generated triangle meshes, BVHNode.Hit against
// HitList.Hit over the same leaves.
package main

import (
	"encoding/json"
	"flag"
	"fmt"
	"math"
	"math/big"
	"math/rand"
	"runtime"
	"strings"

	"verif/harness/hx"

	"github.com/EliCDavis/polyform/math/geometry"
	"github.com/EliCDavis/polyform/modeling"
	"github.com/EliCDavis/polyform/rendering"
	"github.com/EliCDavis/polyform/trees"
	"github.com/EliCDavis/vector/vector3"
)

type qDesc struct {
	T    string     `json:"t"` // contain | within | ray | trav | closest
	P    [3]float64 `json:"p"` // query point / ray origin
	D    float64    `json:"d,omitempty"`
	Dir  [3]float64 `json:"dir,omitempty"`
	Lo   float64    `json:"lo,omitempty"`
	Hi   float64    `json:"hi,omitempty"`
	Caps []float64  `json:"caps,omitempty"`
	// how the direction is derived from Dir before NewRay normalises it: "" as is, "flip" Dir.Flip(),
	// "scale" Dir.Scale(-1), "sub" Zero.Sub(Dir), "reflect" Dir.Reflect(axis with the largest component)
	// (vector arithmetic that turns exact zero components into negative zeros)
	Via string `json:"via,omitempty"`
	// components of Dir (value 0) that are NEGATIVE zero; kept as indices because a JSON "-0" does not
	// survive every JSON library (Python reads it as the integer 0)
	NZ []int `json:"negzero,omitempty"`
}

type setDesc struct {
	Kind    string       `json:"kind"` // point | line | tri | box
	Verts   [][3]float64 `json:"verts"`
	Idx     []int        `json:"idx"`   // line: strip; tri: triples; box: pairs of corner vertices; point: unused
	Depth   int          `json:"depth"` // -1: automatic (Mesh.OctTree / trees.NewOctree)
	Queries []qDesc      `json:"queries"`
	// mesh kinds: build the tree with Mesh.OctTreeWithAttributeAndDepth(Attr, depth) on a mesh whose Attr
	// values are Verts and whose POSITION values are different (shifted and mirrored) coordinates
	Attr string `json:"attr,omitempty"`
}

type bvhDesc struct {
	Verts [][3]float64 `json:"verts"`
	Idx   []int        `json:"idx"`
	O     [3]float64   `json:"o"`
	Dir   [3]float64   `json:"dir"`
	Lo    float64      `json:"lo"`
	Hi    float64      `json:"hi"`
	Seed  int64        `json:"seed"` // math/rand seed: NewBVHTree picks its split axis from the global source
	Via   string       `json:"via,omitempty"`
	NZ    []int        `json:"negzero,omitempty"`
	// spheres (leaf ids follow the triangles'), built through NewBVHTree by the harness itself
	Spheres []sphDesc `json:"spheres,omitempty"`
	T0      float64   `json:"t0,omitempty"`   // time window handed to NewBVHTree / BoundingBox
	T1      float64   `json:"t1,omitempty"`
	Time    float64   `json:"time,omitempty"` // the ray's time (T0 <= Time <= T1)
	Pad     [2]int    `json:"pad,omitempty"`  // objects in the slice before / after the range [start, end)
	Direct  bool      `json:"direct,omitempty"`
	RawBox  bool      `json:"rawbox,omitempty"` // (replays of round 4; spheres always report Sphere.BoundingBox now)
}

type sphDesc struct {
	C0 [3]float64 `json:"c0"` // centre at T0
	C1 [3]float64 `json:"c1"` // centre at T1 (linear in between; == C0: static, NewSphere)
	R  float64    `json:"r"`
}

func v3(a [3]float64) vector3.Float64 { return vector3.New(a[0], a[1], a[2]) }

// canonNZ moves the sign of zero components of dir into the index list.
func canonNZ(dir *[3]float64, nz *[]int) {
	for k := range dir {
		if dir[k] == 0 && math.Signbit(dir[k]) {
			dir[k] = 0
			*nz = append(*nz, k)
		}
	}
}

// dirVia derives the ray direction the way client code does (negating / reflecting a vector).
func dirVia(a [3]float64, nz []int, via string) vector3.Float64 {
	for _, k := range nz {
		if k >= 0 && k < 3 && a[k] == 0 {
			a[k] = math.Copysign(0, -1)
		}
	}
	v := v3(a)
	switch via {
	case "flip":
		return v.Flip()
	case "scale":
		return v.Scale(-1)
	case "sub":
		return vector3.Zero[float64]().Sub(v)
	case "reflect":
		n := vector3.New(1., 0., 0.)
		if math.Abs(a[1]) > math.Abs(a[0]) && math.Abs(a[1]) >= math.Abs(a[2]) {
			n = vector3.New(0., 1., 0.)
		} else if math.Abs(a[2]) > math.Abs(a[0]) {
			n = vector3.New(0., 0., 1.)
		}
		return v.Reflect(n)
	}
	return v
}
func vecs(vs [][3]float64) []vector3.Float64 {
	out := make([]vector3.Float64, len(vs))
	for i, v := range vs {
		out[i] = v3(v)
	}
	return out
}

// ---------------------------------------------------------------------------------------------
// running one octree case

type octStats struct {
	n, nodes, depth                                   int
	nanSkipped, noiseSkipped, hypBroken, ties, leafGt int
	elemTied                                          int
}

// elemCoq renders element i's corners, the query and Go's ClosestPoint (x4, exact) for QElem; only
// segments and triangles of non-zero area.
func elemCoq(d setDesc, i int, p, got vector3.Float64) (string, bool) {
	corner := func(k int) vector3.Float64 { return v3(d.Verts[d.Idx[k]]) }
	var kind int
	var a, b, c vector3.Float64
	switch d.Kind {
	case "line":
		if i+1 >= len(d.Idx) {
			return "", false
		}
		kind, a, b, c = 1, corner(i), corner(i+1), corner(i)
	case "tri":
		if 3*i+2 >= len(d.Idx) {
			return "", false
		}
		kind, a, b, c = 2, corner(3*i), corner(3*i+1), corner(3*i+2)
		if b.Sub(a).Cross(c.Sub(a)).LengthSquared() == 0 { // integer corners: exact
			return "", false
		}
	default:
		return "", false
	}
	for _, x := range []float64{got.X(), got.Y(), got.Z()} {
		if math.IsNaN(x) || math.IsInf(x, 0) {
			return "", false
		}
	}
	return fmt.Sprintf("QElem %d%%nat %s %s %s %s (%s,%s,%s)", kind, ptCoq(a), ptCoq(b), ptCoq(c), ptCoq(p),
		dyCoq(4*got.X()), dyCoq(4*got.Y()), dyCoq(4*got.Z())), true
}

func buildSet(d setDesc) (els []trees.Element, tree *trees.OctTree) {
	pos := vecs(d.Verts)
	var m modeling.Mesh
	switch d.Kind {
	case "box":
		for i := 0; i+1 < len(d.Idx); i += 2 {
			els = append(els, trees.BoundingBoxElement(geometry.NewAABBFromPoints(pos[d.Idx[i]], pos[d.Idx[i+1]])))
		}
		if d.Depth < 0 {
			return els, trees.NewOctree(els)
		}
		return els, trees.NewOctreeWithDepth(els, d.Depth)
	case "point":
		m = modeling.NewPointCloud(nil, map[string][]vector3.Float64{modeling.PositionAttribute: pos}, nil, nil, nil)
	case "line":
		m = modeling.NewMesh(modeling.LineStripTopology, d.Idx).SetFloat3Attribute(modeling.PositionAttribute, pos)
	case "tri":
		m = modeling.NewTriangleMesh(d.Idx).SetFloat3Attribute(modeling.PositionAttribute, pos)
	default:
		panic("c16 harness: unknown kind " + d.Kind)
	}
	atr := modeling.PositionAttribute
	if d.Attr != "" {
		// the tree is built on another attribute; the positions are decoys
		atr = d.Attr
		decoy := make([]vector3.Float64, len(pos))
		for i, v := range pos {
			decoy[i] = vector3.New(7-v.Z(), v.X()-3, 5-v.Y())
		}
		m = m.SetFloat3Attribute(atr, pos).SetFloat3Attribute(modeling.PositionAttribute, decoy)
	}
	n := m.PrimitiveCount()
	if n < 0 {
		n = 0
	}
	els = make([]trees.Element, n)
	m.ScanPrimitives(func(i int, p modeling.Primitive) { els[i] = p.Scope(atr) })
	if d.Attr != "" {
		depth := d.Depth
		if depth < 0 {
			depth = trees.OctreeDepthFromCount(m.PrimitiveCount())
		}
		return els, m.OctTreeWithAttributeAndDepth(atr, depth)
	}
	if d.Depth < 0 {
		return els, m.OctTree()
	}
	return els, m.OctTreeDepth(d.Depth)
}

// meshCoq renders the mesh the element set comes from (QMesh of Check/C16.v): Coq computes every
// primitive's box from the vertices and indices itself.
func meshCoq(d setDesc) (string, bool) {
	kind := map[string]int{"point": 0, "line": 1, "tri": 2}
	k, ok := kind[d.Kind]
	if !ok {
		return "", false
	}
	vs := make([]string, len(d.Verts))
	for i, v := range d.Verts {
		vs[i] = ptCoq(v3(v))
	}
	idx := d.Idx
	if d.Kind == "point" {
		idx = nil
	}
	return fmt.Sprintf("QMesh %d%%nat [%s] %s", k, strings.Join(vs, ";"), natList(idx)), true
}

func copyInts(x []int) []int { return append([]int{}, x...) }

func octCase(d setDesc) (c hx.Case, st octStats) {
	for i := range d.Queries {
		canonNZ(&d.Queries[i].Dir, &d.Queries[i].NZ)
	}
	c = hx.Case{Kind: "oct-" + d.Kind, Desc: d}
	kb, _ := json.Marshal(d)
	c.Key = string(kb)
	defer func() {
		if rec := recover(); rec != nil {
			if ee, ok := rec.(exactErr); ok {
				c.GoFail = "implementation produced a value off the exact grid: " + ee.what
				c.FailKey = "harness:inexact"
			} else if re, ok := rec.(runtime.Error); ok {
				c.GoFail = "crash: " + re.Error()
				c.FailKey = "crash"
				if d.Kind == "line" && len(d.Idx) == 0 {
					c.FailKey = "oct:index-less-line-strip-panics"
				}
			} else {
				c.GoFail = fmt.Sprintf("panic: %v", rec)
				c.FailKey = "panic"
			}
			c.Coq = "COct [] None None []"
		}
	}()
	els, tree := buildSet(d)
	n := len(els)
	st.n = n
	boxes := make([]geometry.AABB, n)
	bs := make([]string, n)
	for i, e := range els {
		boxes[i] = e.BoundingBox()
		bs[i] = boxCoq(boxes[i])
	}
	depth := "None"
	if d.Depth >= 0 {
		depth = fmt.Sprintf("(Some %d%%nat)", d.Depth)
	}
	treeCoq := "None"
	if tree != nil {
		var b strings.Builder
		dumpOctree(tree, &b, &st.nodes, &st.depth, 0)
		treeCoq = "(Some " + b.String() + ")"
	}
	var qs []string
	if mq, ok := meshCoq(d); ok {
		// element i = mesh primitive i with that primitive's box (also for the empty mesh: no elements)
		qs = append(qs, mq)
	}
	nq0 := len(qs)
	if tree != nil {
		for _, q := range d.Queries {
			p := v3(q.P)
			switch q.T {
			case "contain":
				res := tree.ElementsContainingPoint(p)
				qs = append(qs, fmt.Sprintf("QContain %s %s", ptCoq(p), natList(res)))
			case "within":
				res := tree.ElementsWithinRange(p, q.D)
				qs = append(qs, fmt.Sprintf("QWithin %s %s %s", ptCoq(p), hx.CoqZ(mustZ4(q.D)), natList(res)))
			case "ray":
				ray := geometry.NewRay(p, dirVia(q.Dir, q.NZ, q.Via))
				res := copyInts(tree.ElementsIntersectingRay(ray, q.Lo, q.Hi))
				var trav []int
				tree.TraverseIntersectingRay(ray, q.Lo, q.Hi, func(i int, min, max *float64) { trav = append(trav, i) })
				elhit := make([]bool, n)
				for i := range boxes {
					elhit[i] = boxes[i].IntersectsRayInRange(ray, q.Lo, q.Hi)
				}
				qs = append(qs, fmt.Sprintf("QRay %s %s %s %s %s %s %s", ptCoq(p), dvecCoq(ray.Direction()),
					dyCoq(q.Lo), dyCoq(q.Hi), boolList(elhit), natList(res), natList(trav)))
			case "trav":
				ray := geometry.NewRay(p, dirVia(q.Dir, q.NZ, q.Via))
				var res []int
				tree.TraverseIntersectingRay(ray, q.Lo, q.Hi, func(i int, min, max *float64) {
					res = append(res, i)
					if i < len(q.Caps) && q.Caps[i] < *max {
						*max = q.Caps[i]
					}
				})
				low := q.Hi
				caps := make([]string, len(q.Caps))
				for i, cp := range q.Caps {
					if cp < low {
						low = cp
					}
					caps[i] = dyCoq(cp)
				}
				hitHi, hitLo := make([]bool, n), make([]bool, n)
				for i := range boxes {
					hitHi[i] = boxes[i].IntersectsRayInRange(ray, q.Lo, q.Hi)
					hitLo[i] = boxes[i].IntersectsRayInRange(ray, q.Lo, low)
				}
				qs = append(qs, fmt.Sprintf("QTrav %s %s %s %s [%s] %s %s %s", ptCoq(p), dvecCoq(ray.Direction()),
					dyCoq(q.Lo), dyCoq(q.Hi), strings.Join(caps, ";"), boolList(hitHi), boolList(hitLo), natList(res)))
			case "closest":
				// the exhaustive scan's ingredients: every element's own ClosestPoint and squared distance
				pts := make([]vector3.Float64, n)
				ds := make([]float64, n)
				bad, noise, broken := false, false, false
				for i, e := range els {
					pts[i] = e.ClosestPoint(p)
					ds[i] = pts[i].DistanceSquared(p)
					if math.IsNaN(ds[i]) || math.IsInf(ds[i], 0) {
						bad = true
						continue
					}
					if bd := boxes[i].ClosestPoint(p).DistanceSquared(p); bd > ds[i] {
						// the element's closest point is (in the direction that matters) outside its own box
						if bd-ds[i] <= 1e-9*(1+bd) {
							noise = true
						} else {
							broken = true
						}
					}
				}
				if bad {
					st.nanSkipped++ // degenerate element: NaN distances, no order to compare
					continue
				}
				if noise && !broken {
					st.noiseSkipped++ // rounding noise of the element's ClosestPoint, not a tree matter
					continue
				}
				if broken {
					st.hypBroken++
					if d.Kind == "tri" {
						c.FailKey = "tri:closestpoint-collinear-extension"
					} else {
						c.FailKey = d.Kind + ":closestpoint-outside-bounds"
					}
				}
				ridx, rpt := tree.ClosestPoint(p)
				// common scale: keys are integers  d * 2^K,  K >= 4
				K := uint(4)
				nums := make([]*big.Int, n)
				exps := make([]uint, n)
				for i := range ds {
					nums[i], exps[i] = dyadic(ds[i])
					if exps[i] > K {
						K = exps[i]
					}
				}
				keys := make([]string, n)
				ps := make([]string, n)
				minKey := (*big.Int)(nil)
				minCount := 0
				for i := range ds {
					k := new(big.Int).Lsh(nums[i], K-exps[i])
					if k.Sign() < 0 {
						keys[i] = "(" + k.String() + ")"
					} else {
						keys[i] = k.String()
					}
					ps[i] = fptCoq(pts[i])
					if minKey == nil || k.Cmp(minKey) < 0 {
						minKey, minCount = k, 1
					} else if k.Cmp(minKey) == 0 {
						minCount++
					}
				}
				if minCount > 1 {
					st.ties++
				}
				qs = append(qs, fmt.Sprintf("QClosest %s %d%%N [%s]%%Z [%s] %s %s", ptCoq(p), K-4,
					strings.Join(keys, ";"), strings.Join(ps, ";"), hx.CoqZ(int64(ridx)), fptCoq(rpt)))
				// a few elements' own ClosestPoint(p) next to their corners: the exact rational models of
				// Line3D.ClosestPointOnLine / scopedTri.ClosestPoint must give the same point (QElem)
				seen := map[int]bool{}
				for _, i := range []int{ridx, 0, n - 1, n / 2} {
					if i < 0 || i >= n || seen[i] || len(seen) >= 3 {
						continue
					}
					seen[i] = true
					if eq, ok := elemCoq(d, i, p, pts[i]); ok {
						qs = append(qs, eq)
						st.elemTied++
					}
				}
			}
		}
	}
	c.Coq = fmt.Sprintf("COct [%s] %s %s\n  [%s]", strings.Join(bs, ";"), depth, treeCoq, strings.Join(qs, ";\n   "))
	c.Nontriv = n >= 2 && len(qs) > nq0
	return c, st
}

// ---------------------------------------------------------------------------------------------
// running one BVH case

// Spheres are BVH members as they are: rendering.Sphere with its own BoundingBox (as wide as the sphere
// since f622dca; before, the box reached only radius/2 from the centre and BVHNode.Hit / Tree.Hit missed
// hits the exhaustive scan finds: FailKey bvh:sphere-box-half-size on the cases where that shows).
var rawSphereID = map[*rendering.Sphere]int{}

func (d bvhDesc) sphere(k, id int) rendering.Hittable {
	sd := d.Spheres[k]
	c0, c1 := v3(sd.C0), v3(sd.C1)
	t0, t1 := d.T0, d.T1
	at := func(t float64) vector3.Float64 {
		if t1 == t0 || c0 == c1 {
			return c0
		}
		return c0.Add(c1.Sub(c0).Scale((t - t0) / (t1 - t0)))
	}
	var s *rendering.Sphere
	if c0 == c1 {
		s = rendering.NewSphere(c0, sd.R, nil)
	} else {
		s = rendering.NewAnimatedSphere(sd.R, nil, at)
	}
	rawSphereID[s] = id
	return s
}

func bvhCase(d bvhDesc) (c hx.Case) {
	canonNZ(&d.Dir, &d.NZ)
	c = hx.Case{Kind: "bvh", Desc: d}
	kb, _ := json.Marshal(d)
	c.Key = string(kb)
	defer func() {
		if rec := recover(); rec != nil {
			if ee, ok := rec.(exactErr); ok {
				c.GoFail = "implementation produced a value off the exact grid: " + ee.what
				c.FailKey = "harness:inexact"
			} else if re, ok := rec.(runtime.Error); ok {
				c.GoFail = "crash: " + re.Error()
				c.FailKey = "crash"
			} else {
				c.GoFail = fmt.Sprintf("panic: %v", rec)
				c.FailKey = "panic"
			}
			c.Coq = "COct [] None None []"
		}
	}()
	nt := len(d.Idx) / 3
	ns := len(d.Spheres)
	n := nt + ns
	pos := vecs(d.Verts)
	// unwelded copy; the normals carry the triangle number (Hit does not use them)
	var p, nrm []vector3.Float64
	idx := make([]int, 0, 3*nt)
	for t := 0; t < nt; t++ {
		for k := 0; k < 3; k++ {
			p = append(p, pos[d.Idx[3*t+k]])
			nrm = append(nrm, vector3.New(float64(t), 0, 1))
			idx = append(idx, 3*t+k)
		}
	}
	m := modeling.NewTriangleMesh(idx).
		SetFloat3Attribute(modeling.PositionAttribute, p).
		SetFloat3Attribute(modeling.NormalAttribute, nrm)
	direct := ns > 0 || d.Pad[0] > 0 || d.Pad[1] > 0 || d.Direct
	var bvh *rendering.BVHNode
	leaves := map[int]rendering.Hittable{}
	nodes := 0
	var sb strings.Builder
	if !direct {
		rand.Seed(d.Seed)
		bvh = rendering.NewBVHFromMesh(m, nil)
	} else {
		// NewBVHTree called on a caller-owned slice: [pad..., triangles and spheres (shuffled)..., pad...],
		// range [start, end), time window [T0, T1]
		var members []rendering.Hittable
		if nt > 0 {
			tl := map[int]rendering.Hittable{}
			var tmp strings.Builder
			k := 0
			dumpBVH(rendering.NewBVHFromMesh(m, nil), &tmp, tl, &k)
			for t := 0; t < nt; t++ {
				if tl[t] == nil {
					panic(fmt.Sprintf("NewBVHFromMesh lost triangle %d", t))
				}
				members = append(members, tl[t])
			}
		}
		for k := 0; k < ns; k++ {
			members = append(members, d.sphere(k, nt+k))
		}
		sh := hx.NewRng(uint64(d.Seed) + 77)
		perm := sh.Perm(len(members))
		var objs []rendering.Hittable
		padSphere := func(j int) rendering.Hittable {
			pd := bvhDesc{Spheres: []sphDesc{{C0: [3]float64{500 + 10*float64(j), 500, 500}, C1: [3]float64{500 + 10*float64(j), 500, 500}, R: 1}}}
			return pd.sphere(0, n+j)
		}
		for j := 0; j < d.Pad[0]; j++ {
			objs = append(objs, padSphere(j))
		}
		for _, k := range perm {
			objs = append(objs, members[k])
		}
		for j := 0; j < d.Pad[1]; j++ {
			objs = append(objs, padSphere(d.Pad[0]+j))
		}
		rand.Seed(d.Seed)
		bvh = rendering.NewBVHTree(objs, d.Pad[0], d.Pad[0]+n, d.T0, d.T1)
	}
	dumpBVH(bvh, &sb, leaves, &nodes)
	for id := range leaves {
		if id >= n {
			c.GoFail = fmt.Sprintf("BVH holds object %d from outside the range [start, end) it was built on", id)
			c.FailKey = "bvh:lost-leaf"
		}
	}
	for id := 0; id < n; id++ {
		if leaves[id] == nil && c.GoFail == "" {
			c.GoFail = fmt.Sprintf("BVH lost object %d of %d", id, n)
			c.FailKey = "bvh:lost-leaf"
		}
	}
	list := make(rendering.HitList, 0, n)
	lb := make([]string, n)
	tvs := make([]string, n)
	dists := make([]string, n)
	tr := rendering.NewTemporalRay(v3(d.O), dirVia(d.Dir, d.NZ, d.Via), d.Time)
	best, any := 0.0, false
	for t := 0; t < n; t++ {
		h := leaves[t]
		if h == nil {
			lb[t], tvs[t], dists[t] = "zero_box", "None", "(0%Z,0%N)"
			continue
		}
		list = append(list, h)
		lb[t] = boxCoq(*h.BoundingBox(d.T0, d.T1))
		rec := rendering.NewHitRecord()
		if h.Hit(&tr, d.Lo, math.MaxFloat64, rec) {
			if rec.Distance == d.Lo {
				// a hit exactly at the lower bound (origin on a sphere): the open range (lo, t) is empty,
				// the statement "the hit lies in the box within the range" has no content; not generated
				c.Kind = "skip"
				return c
			}
			tvs[t] = "(Some " + dyCoq(rec.Distance) + ")" // absolute parameter: tVal + min = Distance
			dists[t] = dyCoq(rec.Distance)
			if rec.Distance <= d.Hi && (!any || rec.Distance < best) {
				best, any = rec.Distance, true
			}
		} else {
			tvs[t], dists[t] = "None", "(0%Z,0%N)"
		}
	}
	res := func(h rendering.Hittable) string {
		rec := rendering.NewHitRecord()
		if h.Hit(&tr, d.Lo, d.Hi, rec) {
			return "(Some " + dyCoq(rec.Distance) + ")"
		}
		return "None"
	}
	impl := res(bvh)
	lst := res(list)
	// the other nearest-hit searches over the same objects
	var extra []string
	if len(list) == n && n > 0 {
		extra = append(extra, res(rendering.NewBVH(list, d.T0, d.T1)))
		if !direct {
			extra = append(extra, res(rendering.NewMesh(m, nil)))
		}
	}
	want := "None"
	if any {
		want = "(Some " + dyCoq(best) + ")"
	}
	agree := impl == want && lst == want
	for _, e := range extra {
		agree = agree && e == want
	}
	if !agree {
		if ns > 0 {
			c.FailKey = "bvh:sphere-box-half-size"
		} else if d.Lo != 0 {
			c.FailKey = "bvh:hit-max-measured-from-min"
		}
	}
	c.Coq = fmt.Sprintf("CBvh [%s] [%s] [%s]\n  %s\n  %s %s %s %s %s %s [%s]", strings.Join(lb, ";"), strings.Join(tvs, ";"),
		strings.Join(dists, ";"), sb.String(), ptCoq(v3(d.O)), dvecCoq(tr.Ray().Direction()), dyCoq(d.Lo), dyCoq(d.Hi), impl, lst,
		strings.Join(extra, ";"))
	c.Nontriv = n >= 2
	return c
}

// ---------------------------------------------------------------------------------------------

func main() {
	// -bvhmin: also generate BVH rays with a non-zero lower bound.  Off by default: on the pinned code
	// Triangle.Hit compares a parameter measured from ray.At(min) with the absolute max, so with min != 0
	// BVHNode.Hit / HitList.Hit are no nearest-hit searches (fixes/c16-tri-hit-max-offset); the cases on
	// which that shows carry FailKey bvh:hit-max-measured-from-min.
	bvhMin := flag.Bool("bvhmin", false, "generate BVH rays with a non-zero lower bound")
	run := hx.ParseFlags("C16", "Check.C16")
	if run.Tier == "thorough" {
		run.ShardMax = 48 // smaller shards: the big sets make a shard's coqc process heavy
	}
	tot := octStats{}
	addOct := func(d setDesc) {
		c, st := octCase(d)
		run.Add(c)
		tot.nanSkipped += st.nanSkipped
		tot.noiseSkipped += st.noiseSkipped
		tot.hypBroken += st.hypBroken
		tot.ties += st.ties
		tot.elemTied += st.elemTied
		run.Count(fmt.Sprintf("oct:elements<=%d", bucket(st.n)))
		run.Count(fmt.Sprintf("oct:tree-depth=%d", st.depth))
		if d.Depth < 0 {
			run.Count("oct:depth=auto")
		} else {
			run.Count(fmt.Sprintf("oct:maxdepth=%d", d.Depth))
		}
		if d.Attr != "" {
			run.Count("oct:tree-on-non-position-attribute")
		}
		if len(d.Verts) >= 2 && d.Verts[0] == [3]float64{} && (d.Kind == "point" || (len(d.Idx) >= 2 && d.Verts[d.Idx[0]] == [3]float64{} && d.Verts[d.Idx[1]] == [3]float64{})) {
			run.Count("oct:element-0-of-zero-extent-at-the-origin")
		}
		if d.Kind == "tri" {
			for t := 0; 3*t+2 < len(d.Idx); t++ {
				if d.Idx[3*t] == d.Idx[3*t+1] || d.Idx[3*t] == d.Idx[3*t+2] || d.Idx[3*t+1] == d.Idx[3*t+2] {
					run.Count("oct:tri-set-with-vertex-named-twice")
					break
				}
			}
		}
		for _, q := range d.Queries {
			run.Count("query:" + q.T)
			if q.T == "ray" || q.T == "trav" {
				run.Count("ray:" + zeroPattern(dirVia(q.Dir, q.NZ, q.Via)))
			}
		}
	}
	addBvh := func(d bvhDesc) {
		c := bvhCase(d)
		if c.Kind == "skip" {
			run.Count("bvh:skipped-hit-exactly-at-lower-bound")
			return
		}
		run.Count(fmt.Sprintf("bvh:objects<=%d", bucket(len(d.Idx)/3+len(d.Spheres))))
		switch {
		case len(d.Spheres) == 0:
			run.Count("bvh:members=triangles")
		case len(d.Idx) == 0:
			run.Count("bvh:members=spheres")
		default:
			run.Count("bvh:members=mixed")
		}
		if d.T1 != d.T0 {
			run.Count("bvh:time-window")
		}
		if d.Pad[0] > 0 || d.Pad[1] > 0 {
			run.Count("bvh:sub-range-of-slice")
		}
		if d.Lo != 0 {
			run.Count("bvh:min!=0")
		}
		run.Add(c)
	}
	for _, in := range run.Inputs() {
		switch {
		case in.Kind == "bvh":
			var d bvhDesc
			json.Unmarshal(in.Raw, &d)
			addBvh(d)
		case in.Kind == "ladder":
			var d ladderDesc
			json.Unmarshal(in.Raw, &d)
			run.Add(ladderCase(d))
		case strings.HasPrefix(in.Kind, "oct-"):
			var d setDesc
			json.Unmarshal(in.Raw, &d)
			addOct(d)
		}
	}
	if run.Replay != "" {
		run.Finish()
		return
	}
	for _, d := range fixedSets() {
		addOct(d)
	}
	for _, d := range fixedBvh() {
		addBvh(d)
	}
	if *bvhMin {
		// negative lower bounds: the hits lie behind the ray's origin (the box tests must use min, not 0)
		var verts [][3]float64
		var idx []int
		for _, z := range []float64{5, 1, 3, 9, 7} {
			k := len(verts)
			verts = append(verts, [3]float64{-4, -4, z}, [3]float64{4, -4, z}, [3]float64{0, 6, z})
			idx = append(idx, k, k+1, k+2)
		}
		for seed := int64(1); seed <= 3; seed++ {
			addBvh(bvhDesc{Verts: verts, Idx: idx, O: [3]float64{0, 0, 20}, Dir: [3]float64{0, 0, 1}, Lo: -40, Hi: 1e6, Seed: seed})
			addBvh(bvhDesc{Verts: verts, Idx: idx, O: [3]float64{0, 0, 20}, Dir: [3]float64{0, 0, 1}, Lo: -12, Hi: -10.5, Seed: seed})
			addBvh(bvhDesc{Verts: verts, Idx: idx, O: [3]float64{0, 0, 4}, Dir: [3]float64{0, 0, 1}, Lo: -2.5, Hi: 1e6, Seed: seed, Direct: true, Pad: [2]int{1, 0}})
			addBvh(bvhDesc{Spheres: []sphDesc{{C0: [3]float64{0, 0, -10}, C1: [3]float64{0, 0, -10}, R: 2}, {C0: [3]float64{0, 0, -30}, C1: [3]float64{0, 0, -30}, R: 5}},
				O: [3]float64{0, 0.5, 0}, Dir: [3]float64{0, 0, 1}, Lo: -40, Hi: 1e6, Seed: seed})
		}
	}
	{ // the line strip without indices (PrimitiveCount() = -1): the empty tree since 468e9a1, a panic before
		for _, depth := range []int{-1, 0, 2} {
			for _, atr := range []string{"", "Rest"} {
				addOct(setDesc{Kind: "line", Verts: [][3]float64{}, Idx: []int{}, Depth: depth, Attr: atr})
			}
		}
	}
	{ // the reproducer of fixes/c16-sphere-bounding-box (f622dca)
		for seed := int64(1); seed <= 2; seed++ {
			addBvh(bvhDesc{Spheres: []sphDesc{{C0: [3]float64{0, 0, 10}, C1: [3]float64{0, 0, 10}, R: 2}, {C0: [3]float64{20, 0, 10}, C1: [3]float64{20, 0, 10}, R: 2}},
				O: [3]float64{-1.5, 0, 0}, Dir: [3]float64{0, 0, 1}, Lo: 0, Hi: 1e6, Seed: seed})
		}
	}
	if *bvhMin { // the reproducer of fixes/c16-tri-hit-max-offset under four split-axis seeds
		for seed := int64(1); seed <= 4; seed++ {
			addBvh(bvhDesc{
				Verts: [][3]float64{{-4, -4, 5.5}, {4, -4, 5.5}, {0, 6, 5.5}, {-4, -4, 5}, {4, -4, 5}, {0, 6, 5}},
				Idx:   []int{0, 1, 2, 3, 4, 5}, O: [3]float64{0, 0, 0}, Dir: [3]float64{0, 0, 1}, Lo: 1, Hi: 1e6, Seed: seed})
		}
	}
	// the size ladder (judged in Go, see ladder.go)
	for _, d := range ladderCases(run.Seed, run.Tier == "thorough") {
		run.Count(fmt.Sprintf("ladder:%s:%s", d.What, d.Kind))
		run.Count(fmt.Sprintf("ladder:elements=%d", d.N))
		run.Add(ladderCase(d))
	}
	r := hx.NewRng(run.Seed)
	big := 60
	if run.Tier == "thorough" {
		big = 2000
	}
	for i := 0; i < run.N; i++ {
		if i%4 == 3 {
			d := genBvh(r, run.Tier == "thorough")
			if *bvhMin && r.Chance(1, 2) {
				d.Lo = hx.Pick(r, []float64{0.001, 0.5, 1, 3, 3, -2.5, -40})
			}
			addBvh(d)
			continue
		}
		addOct(genSet(r, big))
	}
	run.Dist["closest:skipped-nan-degenerate-element"] = tot.nanSkipped
	run.Dist["closest:skipped-float-noise"] = tot.noiseSkipped
	run.Dist["closest:element-point-outside-own-box"] = tot.hypBroken
	run.Dist["closest:ties"] = tot.ties
	run.Dist["closest:element-points-compared-with-exact-model"] = tot.elemTied
	run.Finish()
}

// zeroPattern classifies a direction by its zero components and their signs.
func zeroPattern(v vector3.Float64) string {
	pz, nz := 0, 0
	for _, c := range []float64{v.X(), v.Y(), v.Z()} {
		if c == 0 {
			if math.Signbit(c) {
				nz++
			} else {
				pz++
			}
		}
	}
	return fmt.Sprintf("zero-components:+0x%d,-0x%d", pz, nz)
}

func bucket(n int) int {
	for _, b := range []int{1, 2, 4, 8, 16, 32, 60, 128, 512, 2000} {
		if n <= b {
			return b
		}
	}
	return 1 << 30
}
