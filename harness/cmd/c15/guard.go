package main

// splat.Write's checks before the record loop: meshes that are not complete point clouds (other topology, one of
// the five attributes missing, no vertices at all).

import (
	"bytes"
	"fmt"
	"sort"

	"verif/harness/hx"

	"github.com/EliCDavis/polyform/formats/splat"
	"github.com/EliCDavis/polyform/modeling"
	"github.com/EliCDavis/vector/vector3"
	"github.com/EliCDavis/vector/vector4"
)

type guardDesc struct {
	Topology string   `json:"topology"` // point | triangle | line
	N        int      `json:"n"`
	Missing  []string `json:"missing"`
	Extra    bool     `json:"extra"` // further attributes the format does not know (Normal, SH_0, f_rest_0)
}

func guardCase(d guardDesc) hx.Case {
	c := hx.Case{Kind: "splatguard", Desc: d, Nontriv: d.N >= 1, Key: fmt.Sprintf("g|%+v", d)}
	r := hx.NewRng(uint64(1000 + d.N))
	miss := map[string]bool{}
	for _, a := range d.Missing {
		miss[a] = true
	}
	v3 := map[string][]vector3.Float64{}
	v4 := map[string][]vector4.Float64{}
	v1 := map[string][]float64{}
	pos, scale, fdc := make([]vector3.Float64, d.N), make([]vector3.Float64, d.N), make([]vector3.Float64, d.N)
	rot, op := make([]vector4.Float64, d.N), make([]float64, d.N)
	for i := 0; i < d.N; i++ {
		s := genSplat(r)
		pos[i] = vector3.New(s.Pos[0], s.Pos[1], s.Pos[2])
		scale[i] = vector3.New(s.Scale[0], s.Scale[1], s.Scale[2])
		fdc[i] = vector3.New(s.FDC[0], s.FDC[1], s.FDC[2])
		rot[i] = vector4.New(s.Rot[0], s.Rot[1], s.Rot[2], s.Rot[3])
		op[i] = s.Opacity
	}
	if !miss[modeling.PositionAttribute] {
		v3[modeling.PositionAttribute] = pos
	}
	if !miss[modeling.ScaleAttribute] {
		v3[modeling.ScaleAttribute] = scale
	}
	if !miss[modeling.FDCAttribute] {
		v3[modeling.FDCAttribute] = fdc
	}
	if !miss[modeling.RotationAttribute] {
		v4[modeling.RotationAttribute] = rot
	}
	if !miss[modeling.OpacityAttribute] {
		v1[modeling.OpacityAttribute] = op
	}
	if d.Extra {
		v3[modeling.NormalAttribute] = pos
		v3["SH_0"] = fdc
		v1["f_rest_0"] = op
	}
	idx := make([]int, d.N)
	for i := range idx {
		idx[i] = i
	}
	topo := modeling.PointTopology
	switch d.Topology {
	case "triangle":
		topo = modeling.TriangleTopology
		idx = idx[:len(idx)/3*3]
	case "line":
		topo = modeling.LineTopology
		idx = idx[:len(idx)/2*2]
	}
	var m modeling.Mesh
	var buf bytes.Buffer
	var werr error
	if perr := guard(func() {
		m = modeling.NewMesh(topo, idx).SetFloat3Data(v3).SetFloat4Data(v4).SetFloat1Data(v1)
		werr = splat.Write(&buf, m)
	}); perr != nil {
		werr = perr
		c.GoFail, c.FailKey = "splat.Write panicked: "+perr.Error(), "splat:write-crash"
	}
	var present []string
	for a := range v3 {
		present = append(present, a)
	}
	for a := range v4 {
		present = append(present, a)
	}
	for a := range v1 {
		present = append(present, a)
	}
	sort.Strings(present)
	names := make([]string, len(present))
	for i, a := range present {
		names[i] = hx.CoqString(a)
	}
	n := d.N
	if len(present) == 0 {
		n = 0
	}
	c.Coq = fmt.Sprintf("CSplatGuard %s %d%%nat (%s)%%string %s %d", hx.CoqBool(topo == modeling.PointTopology), n, list(names),
		hx.CoqBool(werr != nil), buf.Len())
	return c
}

func guardFixed(run *hx.Run) {
	five := []string{modeling.PositionAttribute, modeling.ScaleAttribute, modeling.FDCAttribute, modeling.OpacityAttribute, modeling.RotationAttribute}
	for _, topo := range []string{"point", "triangle", "line"} {
		for _, n := range []int{0, 1, 6} {
			run.Add(guardCase(guardDesc{Topology: topo, N: n}))
			run.Add(guardCase(guardDesc{Topology: topo, N: n, Extra: true}))
		}
	}
	for k, a := range five {
		run.Add(guardCase(guardDesc{Topology: "point", N: 1 + k, Missing: []string{a}, Extra: k%2 == 0}))
		run.Add(guardCase(guardDesc{Topology: "point", N: 3, Missing: []string{a, five[(k+2)%5]}}))
	}
	run.Add(guardCase(guardDesc{Topology: "point", N: 4, Missing: five}))
	run.Add(guardCase(guardDesc{Topology: "point", N: 4, Missing: five, Extra: true}))
	run.Count("splat:write-guards")
}
