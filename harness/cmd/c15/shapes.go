package main

// Reader shapes: the decoders take an io.Reader, and what they return must not depend on how that reader hands
// out the bytes (one at a time, in odd chunks, data together with io.EOF on the last call, through a file).
// Every decode of the harness is repeated through these shapes and the meshes are compared bit for bit.

import (
	"errors"
	"fmt"
	"hash/fnv"
	"io"
	"math"
	"sort"

	"github.com/EliCDavis/polyform/modeling"
)

type chunkReader struct {
	data    []byte
	pos     int
	chunk   int  // at most this many bytes per call
	dataEOF bool // the call that delivers the last byte also returns io.EOF (testing/iotest.DataErrReader)
	grow    bool // chunk sizes 1, 2, 3, ... (so every alignment against the decoder's requests occurs)
	calls   int
}

func (c *chunkReader) Read(p []byte) (int, error) {
	if c.pos >= len(c.data) {
		return 0, io.EOF
	}
	if len(p) == 0 {
		return 0, nil
	}
	k := c.chunk
	if c.grow {
		c.calls++
		k = 1 + (c.calls-1)%c.chunk
	}
	if k > len(p) {
		k = len(p)
	}
	if k > len(c.data)-c.pos {
		k = len(c.data) - c.pos
	}
	copy(p, c.data[c.pos:c.pos+k])
	c.pos += k
	if c.dataEOF && c.pos == len(c.data) {
		return k, io.EOF
	}
	return k, nil
}

type readerShape struct {
	name string
	mk   func(data []byte) io.Reader
}

var readerShapes = []readerShape{
	{"one byte per Read", func(d []byte) io.Reader { return &chunkReader{data: d, chunk: 1} }},
	{"7 bytes per Read", func(d []byte) io.Reader { return &chunkReader{data: d, chunk: 7} }},
	{"31 bytes per Read, last chunk with io.EOF", func(d []byte) io.Reader { return &chunkReader{data: d, chunk: 31, dataEOF: true} }},
	{"chunks of 1,2,..,45 bytes", func(d []byte) io.Reader { return &chunkReader{data: d, chunk: 45, grow: true} }},
	{"4096 bytes per Read, last chunk with io.EOF", func(d []byte) io.Reader { return &chunkReader{data: d, chunk: 4096, dataEOF: true} }},
	{"whole input with io.EOF in one Read", func(d []byte) io.Reader { return &chunkReader{data: d, chunk: 1 << 30, dataEOF: true} }},
}

// shapesFor: all shapes for small inputs, two of them (rotating with the size) for large ones.
func shapesFor(n int) []readerShape {
	if n <= 1<<16 {
		return readerShapes
	}
	k := n % len(readerShapes)
	return []readerShape{readerShapes[k], readerShapes[(k+3)%len(readerShapes)]}
}

// meshDigest: topology, primitive count and every attribute array (name, length, float64 bit patterns; every NaN
// counts as the same value).
func meshDigest(m modeling.Mesh) string {
	h := fnv.New64a()
	w := func(x float64) {
		b := math.Float64bits(x)
		if math.IsNaN(x) {
			b = 0x7ff8000000000001
		}
		var buf [8]byte
		for i := range buf {
			buf[i] = byte(b >> (8 * i))
		}
		h.Write(buf[:])
	}
	names := func(l []string) []string { s := append([]string{}, l...); sort.Strings(s); return s }
	fmt.Fprintf(h, "topo=%v n=%d;", m.Topology(), m.PrimitiveCount())
	for _, a := range names(m.Float1Attributes()) {
		it := m.Float1Attribute(a)
		fmt.Fprintf(h, "1:%s:%d;", a, it.Len())
		for i := 0; i < it.Len(); i++ {
			w(it.At(i))
		}
	}
	for _, a := range names(m.Float2Attributes()) {
		it := m.Float2Attribute(a)
		fmt.Fprintf(h, "2:%s:%d;", a, it.Len())
		for i := 0; i < it.Len(); i++ {
			v := it.At(i)
			w(v.X())
			w(v.Y())
		}
	}
	for _, a := range names(m.Float3Attributes()) {
		it := m.Float3Attribute(a)
		fmt.Fprintf(h, "3:%s:%d;", a, it.Len())
		for i := 0; i < it.Len(); i++ {
			v := it.At(i)
			w(v.X())
			w(v.Y())
			w(v.Z())
		}
	}
	for _, a := range names(m.Float4Attributes()) {
		it := m.Float4Attribute(a)
		fmt.Fprintf(h, "4:%s:%d;", a, it.Len())
		for i := 0; i < it.Len(); i++ {
			v := it.At(i)
			w(v.X())
			w(v.Y())
			w(v.Z())
			w(v.W())
		}
	}
	return fmt.Sprintf("%016x", h.Sum64())
}

// shapeCheck runs decode on every shape of data and compares with the reference outcome (ok = no error; digest of
// the returned mesh, "" when none).  Returns a description of the first difference.
func shapeCheck(what string, data []byte, refOK bool, refDigest string, decode func(io.Reader) (*modeling.Mesh, error)) string {
	for _, sh := range shapesFor(len(data)) {
		var m *modeling.Mesh
		var err error
		func() {
			defer func() {
				if rec := recover(); rec != nil {
					err = fmt.Errorf("panic: %v", rec)
				}
			}()
			m, err = decode(sh.mk(data))
		}()
		if (err == nil) != refOK {
			return fmt.Sprintf("%s: error = %v when the input arrives as %s, but error-free = %v from a bytes.Reader", what, err, sh.name, refOK)
		}
		dg := ""
		if m != nil {
			dg = meshDigest(*m)
		}
		if dg != refDigest {
			return fmt.Sprintf("%s returns a different mesh when the input arrives as %s", what, sh.name)
		}
	}
	return ""
}

// ---- retained results: what a decoder returned must not change when the decoder is called again (results that
// alias a buffer the package reuses would) ----

type retained struct {
	what   string
	m      modeling.Mesh
	digest string
}

var retainedResults = map[string][]retained{}

// retainCheck re-reads the results kept from earlier calls of the codec (at most four, large ones one), reports the
// first that changed, then keeps m.
func retainCheck(codec string, m modeling.Mesh, digest string) string {
	fail := ""
	for _, r := range retainedResults[codec] {
		if meshDigest(r.m) != r.digest && fail == "" {
			fail = fmt.Sprintf("the mesh an earlier %s call returned changed after a later call (%s)", codec, r.what)
		}
	}
	keep := retainedResults[codec]
	if m.AttributeLength() > 2000 {
		keep = nil
	}
	keep = append(keep, retained{what: fmt.Sprintf("%d points", m.AttributeLength()), m: m, digest: digest})
	if len(keep) > 4 {
		keep = keep[len(keep)-4:]
	}
	retainedResults[codec] = keep
	return fail
}

// ---- writers: a failing destination ----

type failingWriter struct {
	left int // accepts this many bytes, then fails
}

var errDiskFull = errors.New("c15 harness: destination full")

func (w *failingWriter) Write(p []byte) (int, error) {
	if len(p) <= w.left {
		w.left -= len(p)
		return len(p), nil
	}
	n := w.left
	w.left = 0
	return n, errDiskFull
}

// writeFailCheck: a writer that cannot store the whole output must make the encoder return an error.
func writeFailCheck(what string, total int, write func(io.Writer) error) string {
	if total == 0 {
		return ""
	}
	for _, k := range []int{0, total / 2, total - 1} {
		var err error
		func() {
			defer func() {
				if rec := recover(); rec != nil {
					err = fmt.Errorf("panic: %v", rec)
				}
			}()
			err = write(&failingWriter{left: k})
		}()
		if err == nil {
			return fmt.Sprintf("%s returned no error although the destination accepted only %d of %d bytes", what, k, total)
		}
	}
	return ""
}
