package main

import (
	"bytes"
	"encoding/binary"
	"encoding/hex"
	"fmt"
	"io"
	"math"

	"verif/harness/hx"

	"github.com/EliCDavis/polyform/formats/splat"
	"github.com/EliCDavis/polyform/modeling"
	"github.com/EliCDavis/vector/vector3"
	"github.com/EliCDavis/vector/vector4"
)

const shC0 = 0.28209479177387814

type splatDesc struct {
	Pos     [3]float64 `json:"pos"`
	Scale   [3]float64 `json:"scale"`
	FDC     [3]float64 `json:"fdc"`
	Opacity float64    `json:"opacity"`
	Rot     [4]float64 `json:"rot"`
}
type cloudDesc struct {
	Splats []splatDesc `json:"splats"`
}
type bytesDesc struct {
	Hex string `json:"hex"`
}

func sigmoid(o float64) float64 { return 1 / (1 + math.Exp(-o)) }

func buildCloud(d cloudDesc) modeling.Mesh {
	n := len(d.Splats)
	pos := make([]vector3.Float64, n)
	scale := make([]vector3.Float64, n)
	fdc := make([]vector3.Float64, n)
	op := make([]float64, n)
	rot := make([]vector4.Float64, n)
	for i, s := range d.Splats {
		pos[i] = vector3.New(s.Pos[0], s.Pos[1], s.Pos[2])
		scale[i] = vector3.New(s.Scale[0], s.Scale[1], s.Scale[2])
		fdc[i] = vector3.New(s.FDC[0], s.FDC[1], s.FDC[2])
		op[i] = s.Opacity
		rot[i] = vector4.New(s.Rot[0], s.Rot[1], s.Rot[2], s.Rot[3])
	}
	return modeling.NewPointCloud(
		map[string][]vector4.Float64{modeling.RotationAttribute: rot},
		map[string][]vector3.Float64{modeling.PositionAttribute: pos, modeling.ScaleAttribute: scale, modeling.FDCAttribute: fdc},
		nil,
		map[string][]float64{modeling.OpacityAttribute: op},
		nil)
}

// readObs runs splat.Read and renders (rd_ok, list osplat); float-only parts (scale = log of the stored
// word, opacity = logit of byte/255, position a float32 value) are checked here against the bytes.
func readObs(data []byte) (okLit string, rdLit string, nOut int, scales [][3]float64, opac []float64, fail string) {
	var m modeling.Mesh
	var err error
	func() {
		defer func() {
			if rec := recover(); rec != nil {
				err = fmt.Errorf("panic: %v", rec)
				fail = fmt.Sprintf("splat.Read panicked: %v", rec)
			}
		}()
		m, err = splat.Read(bytes.NewReader(data))
	}()
	okLit = hx.CoqBool(err == nil)
	if fail != "" {
		return okLit, "[]", 0, nil, nil, fail
	}
	// the same bytes through every reader shape
	dg := meshDigest(m)
	shapeFail := shapeCheck("splat.Read", data, err == nil, dg, func(in io.Reader) (*modeling.Mesh, error) {
		rm, e := splat.Read(in)
		return &rm, e
	})
	if f := retainCheck("splat.Read", m, dg); f != "" && shapeFail == "" {
		shapeFail = f
	}
	defer func() {
		if fail == "" {
			fail = shapeFail
		}
	}()
	if !m.HasFloat3Attribute(modeling.PositionAttribute) {
		return okLit, "[]", 0, nil, nil, ""
	}
	p := m.Float3Attribute(modeling.PositionAttribute)
	n := p.Len()
	if !m.HasFloat3Attribute(modeling.ScaleAttribute) || !m.HasFloat3Attribute(modeling.FDCAttribute) ||
		!m.HasFloat1Attribute(modeling.OpacityAttribute) || !m.HasFloat4Attribute(modeling.RotationAttribute) {
		return okLit, "[]", 0, nil, nil, "splat.Read result lacks one of Scale/FDC/Opacity/Rotation"
	}
	sc := m.Float3Attribute(modeling.ScaleAttribute)
	fd := m.Float3Attribute(modeling.FDCAttribute)
	op := m.Float1Attribute(modeling.OpacityAttribute)
	ro := m.Float4Attribute(modeling.RotationAttribute)
	if sc.Len() != n || fd.Len() != n || op.Len() != n || ro.Len() != n || m.PrimitiveCount() != n {
		return okLit, "[]", 0, nil, nil, "splat.Read attribute arrays have different lengths"
	}
	items := make([]string, n)
	for i := 0; i < n; i++ {
		pv, cv, rv, sv := p.At(i), fd.At(i), ro.At(i), sc.At(i)
		ps := [3]float64{pv.X(), pv.Y(), pv.Z()}
		for k := 0; k < 3; k++ {
			if !math.IsNaN(ps[k]) && float64(float32(ps[k])) != ps[k] {
				fail = fmt.Sprintf("splat %d: returned position %v is not a float32 value", i, ps[k])
			}
		}
		cs := [3]float64{cv.X(), cv.Y(), cv.Z()}
		rs := [4]float64{rv.X(), rv.Y(), rv.Z(), rv.W()}
		for _, v := range append(cs[:], rs[:]...) {
			if !finite(v) {
				fail = fmt.Sprintf("splat %d: non-finite colour/rotation %v", i, v)
			}
		}
		items[i] = fmt.Sprintf("OS (%d,%d,%d) %s %s", f32bits(ps[0]), f32bits(ps[1]), f32bits(ps[2]),
			tuple(dyLit(fin(cs[0])), dyLit(fin(cs[1])), dyLit(fin(cs[2]))),
			tuple(dyLit(fin(rs[0])), dyLit(fin(rs[1])), dyLit(fin(rs[2])), dyLit(fin(rs[3]))))
		scales = append(scales, [3]float64{sv.X(), sv.Y(), sv.Z()})
		opac = append(opac, op.At(i))
		// float-only read steps, judged against an independent parse of the record
		if off := 32 * i; off+32 <= len(data) {
			for k := 0; k < 3; k++ {
				w := binary.LittleEndian.Uint32(data[off+12+4*k:])
				want := math.Log(float64(math.Float32frombits(w)))
				if !sameFloat(scales[i][k], want) {
					fail = fmt.Sprintf("splat %d: scale[%d] = %v, log of the stored float32 is %v", i, k, scales[i][k], want)
				}
			}
			a := float64(data[off+27]) / 255
			want := -math.Log(1/a - 1)
			if !sameFloat(opac[i], want) {
				fail = fmt.Sprintf("splat %d: opacity = %v, logit of byte %d / 255 is %v", i, opac[i], data[off+27], want)
			}
		}
	}
	return okLit, list(items), n, scales, opac, fail
}

func fin(x float64) float64 {
	if finite(x) {
		return x
	}
	return 0
}

func splatCase(d cloudDesc) hx.Case {
	return splatCaseWith("splat", d, d, buildCloud(d))
}

// splatCaseWith: the .splat round trip of mesh m, whose five splat attributes hold the values of d (m may come
// from another codec's reader and carry further attributes, which splat.Write must ignore).
func splatCaseWith(kind string, desc interface{}, d cloudDesc, m modeling.Mesh) hx.Case {
	c := hx.Case{Kind: kind, Desc: desc, Nontriv: len(d.Splats) >= 1}
	c.Key = fmt.Sprintf("%s|%v", kind, d.Splats)
	if kind == "splat" {
		c.Key = fmt.Sprintf("s|%v", d.Splats)
	}
	var buf bytes.Buffer
	var werr error
	inDigest := meshDigest(m)
	func() {
		defer func() {
			if rec := recover(); rec != nil {
				werr = fmt.Errorf("panic: %v", rec)
			}
		}()
		werr = splat.Write(&buf, m)
	}()
	out := buf.Bytes()
	if werr != nil {
		c.GoFail, c.FailKey = "splat.Write failed: "+werr.Error(), "splat:write-error"
	} else if f := splatWriteSide(m, inDigest, out); f != "" {
		c.GoFail, c.FailKey = f, "splat:write-side"
	}
	okLit, rdLit, nOut, scales, opac, fail := readObs(out)
	if fail != "" && c.GoFail == "" {
		c.GoFail, c.FailKey = fail, "splat:read-float-steps"
	}
	items := make([]string, len(d.Splats))
	for i, s := range d.Splats {
		items[i] = fmt.Sprintf("IS (%d,%d,%d) (%d,%d,%d) %s %s %s",
			f32bits(s.Pos[0]), f32bits(s.Pos[1]), f32bits(s.Pos[2]),
			f32bits(math.Exp(s.Scale[0])), f32bits(math.Exp(s.Scale[1])), f32bits(math.Exp(s.Scale[2])),
			tuple(dyLit(s.FDC[0]), dyLit(s.FDC[1]), dyLit(s.FDC[2])),
			dyLit(sigmoid(s.Opacity)),
			tuple(dyLit(s.Rot[0]), dyLit(s.Rot[1]), dyLit(s.Rot[2]), dyLit(s.Rot[3])))
		if i < nOut && c.GoFail == "" {
			// scales equal up to float32 rounding of exp/log; opacity within one 8-bit step (sigmoid domain)
			for k := 0; k < 3; k++ {
				if math.Abs(scales[i][k]-s.Scale[k]) > 1.0/(1<<23)+1e-12*math.Abs(s.Scale[k]) {
					c.GoFail = fmt.Sprintf("splat %d: scale[%d] %v read back as %v", i, k, s.Scale[k], scales[i][k])
					c.FailKey = "splat:scale-roundtrip"
				}
			}
			if math.Abs(sigmoid(opac[i])-sigmoid(s.Opacity)) > 1.0/255+1e-12 {
				c.GoFail = fmt.Sprintf("splat %d: opacity %v (alpha %v) read back as %v (alpha %v)", i, s.Opacity, sigmoid(s.Opacity), opac[i], sigmoid(opac[i]))
				c.FailKey = "splat:opacity-roundtrip"
			}
		}
	}
	c.Coq = fmt.Sprintf("CSplat %s %s %s %s", list(items), hx.CoqListN(out), okLit, rdLit)
	return c
}

// splatWriteSide: splat.Write leaves the caller's mesh as it was, writes the same bytes when called again, and
// reports an error when the destination cannot take the whole output.
func splatWriteSide(m modeling.Mesh, inDigest string, out []byte) string {
	if meshDigest(m) != inDigest {
		return "splat.Write changed the mesh it was given"
	}
	var again bytes.Buffer
	if err := guard(func() { splat.Write(&again, m) }); err != nil || !bytes.Equal(again.Bytes(), out) {
		return "a second splat.Write of the same mesh produced different bytes"
	}
	return writeFailCheck("splat.Write", len(out), func(w io.Writer) error { return splat.Write(w, m) })
}

func splatReadCase(d bytesDesc) hx.Case {
	data, _ := hex.DecodeString(d.Hex)
	c := hx.Case{Kind: "splatread", Desc: d, Nontriv: len(data) >= 32, Key: "r|" + d.Hex}
	okLit, rdLit, _, _, _, fail := readObs(data)
	if fail != "" {
		c.GoFail, c.FailKey = fail, "splat:read-float-steps"
	}
	c.Coq = fmt.Sprintf("CSplatRead %s %s %s", hx.CoqListN(data), okLit, rdLit)
	return c
}

// ---- generators ----

// finite float64 positions at the edges of float32: overflow to +-Inf, largest finite, ties at the overflow
// threshold, subnormals, underflow to +-0
var posEdges = []float64{1e39, -1e39, math.MaxFloat32, -math.MaxFloat32, 3.4028235677973366e38, 3.4028235677973362e38,
	1e-40, -1e-42, math.SmallestNonzeroFloat32, math.SmallestNonzeroFloat32 / 2, 1e-46, -1e-46, 1.1754943508222875e-38,
	16777217, -16777219, 0.1, 1.0 / 3}

func genPos(r *hx.Rng) float64 {
	if r.Chance(1, 12) {
		return hx.Pick(r, posEdges)
	}
	switch r.Intn(7) {
	case 0:
		return float64(r.Range(-5, 5))
	case 1:
		return float64(r.Range(-1000, 1000)) / 10
	case 2:
		return (r.Float() - 0.5) * 1e6
	case 3:
		return (r.Float() - 0.5) * 1e-6
	case 4:
		return 0
	case 5:
		return math.Copysign(0, -1)
	default:
		return r.Float()*2 - 1
	}
}

func genScale(r *hx.Rng) float64 {
	switch r.Intn(6) {
	case 0:
		return 0
	case 1:
		return float64(r.Range(-640, 640)) / 8 // up to +-80: exp stays a normal float32
	case 2:
		return float64(r.Range(-20, 5))
	default:
		return r.Float()*14 - 11
	}
}

var colBoundary = 0.5 / shC0 // FDC value at which the colour saturates

func genFDC(r *hx.Rng) float64 {
	switch r.Intn(10) {
	case 0:
		return 0
	case 1:
		return float64(r.Range(-1024, 1024)) / 256
	case 2:
		return hx.Pick(r, []float64{colBoundary, -colBoundary, math.Nextafter(colBoundary, 0), math.Nextafter(colBoundary, 9),
			math.Nextafter(-colBoundary, 0), math.Nextafter(-colBoundary, -9)})
	case 3:
		return hx.Pick(r, []float64{2, -2, 100, -100, 1e6, -1e6, 1e-9, -1e-9})
	case 4:
		// just around a byte boundary j/255
		j := float64(r.Range(0, 255))
		return ((j/255)-0.5)/shC0 + (r.Float()-0.5)*1e-12
	default:
		return r.Float()*5 - 2.5 // displayable range is about +-1.77
	}
}

func genOpacity(r *hx.Rng) float64 {
	switch r.Intn(8) {
	case 0:
		return 0
	case 1:
		return hx.Pick(r, []float64{40, -40, 800, -800, 20, -20})
	case 2:
		return float64(r.Range(-64, 64)) / 8
	case 3:
		// logit of a byte boundary
		j := float64(r.Range(1, 254))
		a := j / 255
		return math.Log(a / (1 - a))
	default:
		return r.Float()*16 - 8
	}
}

func genRot(r *hx.Rng) [4]float64 {
	switch r.Intn(9) {
	case 0:
		return [4]float64{0, 0, 0, 1} // identity
	case 1:
		q := [4]float64{}
		q[r.Intn(4)] = hx.Pick(r, []float64{1, -1})
		return q
	case 2:
		var q [4]float64
		for k := range q {
			q[k] = float64(r.Range(-128, 128)) / 128
		}
		return q
	case 3:
		var q [4]float64
		for k := range q {
			q[k] = float64(r.Range(-1024, 1024)) / 1024
		}
		return q
	case 4:
		// outside the representable range: clamps
		var q [4]float64
		for k := range q {
			q[k] = hx.Pick(r, []float64{1.5, -1.5, 2, -3, 127.0 / 128, 255.0 / 256, -1 - 1.0/256, 1 + 1e-9, 1 - 1e-9, 0.5})
		}
		return q
	case 5:
		// inside the unit ball, not normalised
		var q [4]float64
		for k := range q {
			q[k] = (r.Float()*2 - 1) * 0.5
		}
		return q
	default:
		// random unit quaternion
		var q [4]float64
		l := 0.0
		for k := range q {
			q[k] = r.Float()*2 - 1
			l += q[k] * q[k]
		}
		l = math.Sqrt(l)
		if l == 0 {
			return [4]float64{0, 0, 0, 1}
		}
		for k := range q {
			q[k] /= l
		}
		return q
	}
}

func genSplat(r *hx.Rng) splatDesc {
	return splatDesc{
		Pos:     [3]float64{genPos(r), genPos(r), genPos(r)},
		Scale:   [3]float64{genScale(r), genScale(r), genScale(r)},
		FDC:     [3]float64{genFDC(r), genFDC(r), genFDC(r)},
		Opacity: genOpacity(r),
		Rot:     genRot(r),
	}
}

func genCloud(r *hx.Rng) cloudDesc {
	n := hx.Pick(r, []int{0, 1, 1, 2, 3, 4, 5, 8, 12})
	d := cloudDesc{Splats: make([]splatDesc, n)}
	for i := range d.Splats {
		d.Splats[i] = genSplat(r)
	}
	return d
}

func splatFixed(run *hx.Run) {
	id := splatDesc{Rot: [4]float64{0, 0, 0, 1}}
	run.Add(splatCase(cloudDesc{Splats: []splatDesc{}}))
	run.Add(splatCase(cloudDesc{Splats: []splatDesc{id}}))
	// every rotation component value k/128 incl. both ends, and the colour / opacity extremes
	var all []splatDesc
	for k := -128; k <= 128; k += 4 {
		v := float64(k) / 128
		all = append(all, splatDesc{Pos: [3]float64{float64(k), 0.1, -0}, FDC: [3]float64{v * 2, -v * 2, v}, Opacity: v * 10,
			Rot: [4]float64{v, -v, float64(k+1) / 128, float64(k+3) / 128}})
	}
	run.Add(splatCase(cloudDesc{Splats: all}))
	run.Add(splatCase(cloudDesc{Splats: []splatDesc{
		{FDC: [3]float64{colBoundary, -colBoundary, 1e6}, Opacity: 800, Rot: [4]float64{1, -1, 1, -1}},
		{FDC: [3]float64{-1e6, 0, 1.7724538509055159}, Opacity: -800, Rot: [4]float64{127.0 / 128, 255.0 / 256, -127.0 / 128, 1.0 / 256}},
	}}))
	var edges []splatDesc
	for k := 0; k+2 < len(posEdges); k += 3 {
		edges = append(edges, splatDesc{Pos: [3]float64{posEdges[k], posEdges[k+1], posEdges[k+2]}, Rot: [4]float64{0, 0, 0, 1}})
	}
	run.Add(splatCase(cloudDesc{Splats: edges}))
	run.Count("splat:float32-edge-positions")
	// opacities over the whole logit range, -8 .. 8 in steps of 1/4 (alpha bytes 0 .. 254): every splat must come
	// back, in order, whatever its alpha byte is
	var sweep []splatDesc
	for k := -32; k <= 32; k++ {
		sweep = append(sweep, splatDesc{Pos: [3]float64{float64(k), 1, 2}, Opacity: float64(k) / 4, Rot: [4]float64{0, 0, 0, 1}})
	}
	run.Add(splatCase(cloudDesc{Splats: sweep}))
	run.Add(splatCase(cloudDesc{Splats: []splatDesc{{Opacity: -8, Rot: [4]float64{0, 0, 0, 1}}}}))
	run.Add(splatCase(cloudDesc{Splats: []splatDesc{{Opacity: -6, Rot: [4]float64{0, 0, 0, 1}}, {Pos: [3]float64{1, 1, 1}, Opacity: 8, Rot: [4]float64{0, 0, 0, 1}},
		{Pos: [3]float64{2, 2, 2}, Opacity: -7.5, Rot: [4]float64{0, 0, 0, 1}}}}))
	run.Count("splat:opacity-sweep-8..8")
	// a file and every kind of prefix of it
	var buf bytes.Buffer
	splat.Write(&buf, buildCloud(cloudDesc{Splats: all[:3]}))
	b := buf.Bytes()
	for _, k := range []int{0, 1, 31, 32, 33, 63, 64, 95, 96} {
		if k <= len(b) {
			run.Add(splatReadCase(bytesDesc{Hex: hex.EncodeToString(b[:k])}))
		}
	}
}

// genSplatBytes: arbitrary records (every byte pattern in the quantised fields), 1/3 truncated mid-record.
func genSplatBytes(r *hx.Rng, run *hx.Run) bytesDesc {
	n := hx.Pick(r, []int{0, 1, 2, 3, 6})
	b := make([]byte, 32*n)
	for i := 0; i < n; i++ {
		off := 32 * i
		for k := 0; k < 6; k++ {
			var w uint32
			switch r.Intn(4) {
			case 0:
				w = uint32(r.U64())
				if k < 3 && w&0x7f800000 == 0x7f800000 && w&0x007fffff != 0 {
					w = math.Float32bits(1.5) // positions: keep NaN payloads out of the word comparison
				}
			case 1:
				w = hx.Pick(r, []uint32{0, 0x80000000, 0x7f800000, 0xff800000, 1, 0x3f800000})
			default:
				w = math.Float32bits(float32(genPos(r)))
			}
			binary.LittleEndian.PutUint32(b[off+4*k:], w)
		}
		for k := 24; k < 32; k++ {
			b[off+k] = byte(r.Intn(256))
			if r.Chance(1, 6) {
				b[off+k] = hx.Pick(r, []byte{0, 1, 127, 128, 129, 254, 255})
			}
		}
	}
	if r.Chance(1, 3) {
		cut := r.Range(1, 31)
		if n > 0 && r.Bool() {
			b = b[:len(b)-cut]
		} else {
			for k := 0; k < cut; k++ {
				b = append(b, byte(r.Intn(256)))
			}
		}
		run.Count("splatread:partial-last-record")
	}
	return bytesDesc{Hex: hex.EncodeToString(b)}
}
