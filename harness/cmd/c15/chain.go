package main

// Conversions between the three splat formats: the mesh one codec's reader returns is handed, as it is, to
// another codec's writer (it carries attributes the second codec does not know, e.g. SH_d from spz.Read, and
// values that are not float32-exact, e.g. logs and logits from splat.Read).  Each leg is judged as an ordinary
// .splat round trip (CSplat) or SplatPly round trip (CPly) of the values found on the intermediate mesh.
//   spz>splat   spz.Read -> splat.Write -> splat.Read
//   spz>ply     spz.Read -> SplatPly.Write -> ply.ReadMesh
//   splat>ply   splat.Write -> splat.Read -> SplatPly.Write -> ply.ReadMesh
//   ply>splat   SplatPly.Write -> ply.ReadMesh -> splat.Write -> splat.Read

import (
	"bytes"
	"fmt"

	"verif/harness/hx"

	"github.com/EliCDavis/polyform/formats/ply"
	"github.com/EliCDavis/polyform/formats/splat"
	"github.com/EliCDavis/polyform/formats/spz"
	"github.com/EliCDavis/polyform/modeling"
)

type chainDesc struct {
	Leg   string     `json:"leg"`
	Spz   *spzDesc   `json:"spz,omitempty"`
	Cloud *cloudDesc `json:"cloud,omitempty"`
}

var splatTable = map[string]int{modeling.PositionAttribute: 3, modeling.NormalAttribute: 3, modeling.FDCAttribute: 3,
	modeling.ScaleAttribute: 3, modeling.RotationAttribute: 4, modeling.OpacityAttribute: 1}

func hasSplatAttrs(m modeling.Mesh) bool {
	return m.HasFloat3Attribute(modeling.PositionAttribute) && m.HasFloat3Attribute(modeling.ScaleAttribute) &&
		m.HasFloat3Attribute(modeling.FDCAttribute) && m.HasFloat1Attribute(modeling.OpacityAttribute) &&
		m.HasFloat4Attribute(modeling.RotationAttribute)
}

// cloudOf: the five splat attributes of m as a cloudDesc
func cloudOf(m modeling.Mesh) cloudDesc {
	p, s, f := m.Float3Attribute(modeling.PositionAttribute), m.Float3Attribute(modeling.ScaleAttribute), m.Float3Attribute(modeling.FDCAttribute)
	o, q := m.Float1Attribute(modeling.OpacityAttribute), m.Float4Attribute(modeling.RotationAttribute)
	d := cloudDesc{Splats: make([]splatDesc, p.Len())}
	for i := range d.Splats {
		pv, sv, fv, qv := p.At(i), s.At(i), f.At(i), q.At(i)
		d.Splats[i] = splatDesc{Pos: [3]float64{pv.X(), pv.Y(), pv.Z()}, Scale: [3]float64{sv.X(), sv.Y(), sv.Z()},
			FDC: [3]float64{fv.X(), fv.Y(), fv.Z()}, Opacity: o.At(i), Rot: [4]float64{qv.X(), qv.Y(), qv.Z(), qv.W()}}
	}
	return d
}

// plyOf: the attributes of m that are in the SplatPly table (six named ones, f_rest_k), as a plyDesc
func plyOf(m modeling.Mesh) plyDesc {
	d := plyDesc{N: m.PrimitiveCount(), Attrs: map[string][][]float64{}}
	inTable := func(name string, k int) bool {
		if splatTable[name] == k {
			return true
		}
		var j int
		if n, _ := fmt.Sscanf(name, "f_rest_%d", &j); n == 1 && k == 1 && j >= 0 && j < 45 && name == fmt.Sprintf("f_rest_%d", j) {
			return true
		}
		return false
	}
	for _, nme := range m.Float1Attributes() {
		if a := m.Float1Attribute(nme); inTable(nme, 1) {
			for i := 0; i < a.Len(); i++ {
				d.Attrs[nme] = append(d.Attrs[nme], []float64{a.At(i)})
			}
		}
	}
	for _, nme := range m.Float3Attributes() {
		if a := m.Float3Attribute(nme); inTable(nme, 3) {
			for i := 0; i < a.Len(); i++ {
				v := a.At(i)
				d.Attrs[nme] = append(d.Attrs[nme], []float64{v.X(), v.Y(), v.Z()})
			}
		}
	}
	for _, nme := range m.Float4Attributes() {
		if a := m.Float4Attribute(nme); inTable(nme, 4) {
			for i := 0; i < a.Len(); i++ {
				v := a.At(i)
				d.Attrs[nme] = append(d.Attrs[nme], []float64{v.X(), v.Y(), v.Z(), v.W()})
			}
		}
	}
	return d
}

func chainFail(d chainDesc, msg string) hx.Case {
	return hx.Case{Kind: "chain:" + d.Leg, Desc: d, Nontriv: true, Key: fmt.Sprintf("ch|%s|%v|%v", d.Leg, d.Spz, d.Cloud),
		GoFail: msg, FailKey: "chain:first-leg", Coq: "CSpzRaw [] None"}
}

func guard(f func()) (err error) {
	defer func() {
		if rec := recover(); rec != nil {
			err = fmt.Errorf("panic: %v", rec)
		}
	}()
	f()
	return nil
}

func chainCase(d chainDesc) hx.Case {
	kind := "chain:" + d.Leg
	switch d.Leg {
	case "spz>splat", "spz>ply":
		var c *spz.Cloud
		var err error
		if perr := guard(func() { c, err = spz.Read(bytes.NewReader(gz(refEncode(*d.Spz)))) }); perr != nil {
			err = perr
		}
		if err != nil || c == nil {
			return chainFail(d, fmt.Sprintf("spz.Read of a reference stream failed: %v", err))
		}
		if len(d.Spz.Points) > 0 && !hasSplatAttrs(c.Mesh) {
			return chainFail(d, "spz.Read result lacks one of the five splat attributes")
		}
		if len(d.Spz.Points) == 0 {
			if d.Leg == "spz>splat" {
				return splatCaseWith(kind, d, cloudDesc{Splats: []splatDesc{}}, c.Mesh)
			}
			return plyCaseWith(kind, d, plyDesc{N: 0, Attrs: map[string][][]float64{}}, c.Mesh)
		}
		if d.Leg == "spz>splat" {
			return splatCaseWith(kind, d, cloudOf(c.Mesh), c.Mesh)
		}
		return plyCaseWith(kind, d, plyOf(c.Mesh), c.Mesh)
	case "splat>ply":
		var buf bytes.Buffer
		var m modeling.Mesh
		var err error
		if perr := guard(func() {
			if err = splat.Write(&buf, buildCloud(*d.Cloud)); err == nil {
				m, err = splat.Read(bytes.NewReader(buf.Bytes()))
			}
		}); perr != nil {
			err = perr
		}
		if err != nil {
			return chainFail(d, fmt.Sprintf(".splat round trip failed: %v", err))
		}
		if len(d.Cloud.Splats) == 0 {
			return plyCaseWith(kind, d, plyDesc{N: 0, Attrs: map[string][][]float64{}}, m)
		}
		return plyCaseWith(kind, d, plyOf(m), m)
	case "ply>splat":
		var buf bytes.Buffer
		var pm *modeling.Mesh
		var err error
		if perr := guard(func() {
			if err = (ply.SplatPly{Mesh: buildCloud(*d.Cloud)}).Write(&buf); err == nil {
				pm, err = ply.ReadMesh(bytes.NewReader(buf.Bytes()))
			}
		}); perr != nil {
			err = perr
		}
		if err != nil || pm == nil {
			return chainFail(d, fmt.Sprintf("SplatPly round trip failed: %v", err))
		}
		if len(d.Cloud.Splats) == 0 {
			return splatCaseWith(kind, d, cloudDesc{Splats: []splatDesc{}}, *pm)
		}
		if !hasSplatAttrs(*pm) {
			return chainFail(d, "ply.ReadMesh of a SplatPly file lacks one of the five splat attributes")
		}
		return splatCaseWith(kind, d, cloudOf(*pm), *pm)
	}
	return chainFail(d, "unknown leg "+d.Leg)
}

// finiteSpz: a valid SPZ description whose decoded values are all finite (no half infinities / NaNs, fractional
// bits below 31): the cloud the .splat and SplatPly writers are specified on
func finiteSpz(r *hx.Rng, n int) *spzDesc {
	d := genValidSpz(r, 9)
	if d.FracBits > 30 {
		d.FracBits = uint8(r.Intn(24))
	}
	d.Points = make([]pointDesc, n)
	for i := range d.Points {
		p := genPoint(r, d.Version, d.ShDegree)
		if d.Version == 1 {
			for k := range p.Pos {
				if (p.Pos[k]>>10)&31 == 31 {
					p.Pos[k] &^= 1 << 10 // exponent 30: finite
				}
			}
		}
		d.Points[i] = p
	}
	return &d
}

func genChain(r *hx.Rng, run *hx.Run) chainDesc {
	leg := hx.Pick(r, []string{"spz>splat", "spz>ply", "splat>ply", "ply>splat"})
	run.Count("chain:" + leg)
	if leg[:3] == "spz" {
		return chainDesc{Leg: leg, Spz: finiteSpz(r, hx.Pick(r, []int{1, 2, 3, 7}))}
	}
	c := genCloud(r)
	return chainDesc{Leg: leg, Cloud: &c}
}

func chainFixed(run *hx.Run) {
	r := hx.NewRng(4242)
	// every leg on: the empty cloud, one splat, several splats; the SPZ legs at every version x degree
	for _, leg := range []string{"splat>ply", "ply>splat"} {
		for _, n := range []int{0, 1, 5} {
			c := cloudDesc{Splats: make([]splatDesc, n)}
			for i := range c.Splats {
				c.Splats[i] = genSplat(r)
			}
			run.Add(chainCase(chainDesc{Leg: leg, Cloud: &c}))
		}
	}
	for _, leg := range []string{"spz>splat", "spz>ply"} {
		for version := uint32(1); version <= 2; version++ {
			for deg := uint8(0); deg <= 3; deg++ {
				d := finiteSpz(r, 1+int(deg))
				d.Version, d.ShDegree = version, deg
				for i := range d.Points {
					d.Points[i] = genPoint(r, version, deg)
					if version == 1 {
						for k := range d.Points[i].Pos {
							d.Points[i].Pos[k] &^= 1 << 10
						}
					}
				}
				run.Add(chainCase(chainDesc{Leg: leg, Spz: d}))
			}
		}
		run.Add(chainCase(chainDesc{Leg: leg, Spz: &spzDesc{Magic: spzMagic, Version: 2, FracBits: 12, Points: []pointDesc{}}}))
	}
	run.Count("chain:fixed-grid")
}
