package main

import (
	"bytes"
	"compress/gzip"
	"encoding/binary"
	"encoding/hex"
	"fmt"
	"io"
	"os"
	"strings"
	"time"

	"verif/harness/hx"

	"github.com/EliCDavis/polyform/formats/spz"
	"github.com/EliCDavis/polyform/modeling"
)

// ---- reference SPZ encoder, written from the published layout (nianticlabs/spz README):
// gzip( header{u32 magic 0x5053474e, u32 version, u32 numPoints, u8 shDegree, u8 fractionalBits,
// u8 flags, u8 reserved}, positions, alphas, colors, scales, rotations, sh ).  Positions are three
// 24-bit little-endian two's-complement fixed-point numbers per point (version 1: three IEEE
// half floats), every other attribute is one byte per component; SH has 3/8/15 coefficients per
// point for degree 1/2/3, stored point after point, coefficient after coefficient, colour
// channel innermost. ----

type pointDesc struct {
	Pos   [3]uint32  `json:"pos"` // 24-bit pattern (version != 1) or 16-bit half pattern (version 1)
	Alpha uint8      `json:"alpha"`
	Col   [3]uint8   `json:"col"`
	Scale [3]uint8   `json:"scale"`
	Rot   [3]uint8   `json:"rot"`
	SH    [][3]uint8 `json:"sh"` // one RGB triple per coefficient
}
type spzDesc struct {
	Magic    uint32      `json:"magic"`
	Version  uint32      `json:"version"`
	ShDegree uint8       `json:"shDegree"`
	FracBits uint8       `json:"fractionalBits"`
	Flags    uint8       `json:"flags"`
	Reserved uint8       `json:"reserved"`
	Points   []pointDesc `json:"points"`
}

const spzMagic = 0x5053474e

func refHeader(magic, version, n uint32, deg, fb, flags, res uint8) []byte {
	h := make([]byte, 16)
	binary.LittleEndian.PutUint32(h[0:], magic)
	binary.LittleEndian.PutUint32(h[4:], version)
	binary.LittleEndian.PutUint32(h[8:], n)
	h[12], h[13], h[14], h[15] = deg, fb, flags, res
	return h
}

func posBytes(version uint32, p [3]uint32) []byte {
	var out []byte
	for _, v := range p {
		if version == 1 {
			out = append(out, byte(v), byte(v>>8))
		} else {
			out = append(out, byte(v), byte(v>>8), byte(v>>16))
		}
	}
	return out
}

func refEncode(d spzDesc) []byte {
	var b bytes.Buffer
	b.Write(refHeader(d.Magic, d.Version, uint32(len(d.Points)), d.ShDegree, d.FracBits, d.Flags, d.Reserved))
	for _, p := range d.Points {
		b.Write(posBytes(d.Version, p.Pos))
	}
	for _, p := range d.Points {
		b.WriteByte(p.Alpha)
	}
	for _, p := range d.Points {
		b.Write(p.Col[:])
	}
	for _, p := range d.Points {
		b.Write(p.Scale[:])
	}
	for _, p := range d.Points {
		b.Write(p.Rot[:])
	}
	for _, p := range d.Points {
		for _, c := range p.SH {
			b.Write(c[:])
		}
	}
	return b.Bytes()
}

// gz: gzip at a level chosen by the stream length (default, stored blocks, fastest, Huffman only): the inflater hands
// out its output in different portions for each
func gz(raw []byte) []byte {
	var b bytes.Buffer
	level := []int{gzip.DefaultCompression, gzip.NoCompression, gzip.BestSpeed, gzip.HuffmanOnly}[len(raw)%4]
	w, _ := gzip.NewWriterLevel(&b, level)
	w.Write(raw)
	w.Close()
	return b.Bytes()
}

func shDimOf(deg uint8) int {
	switch deg {
	case 1:
		return 3
	case 2:
		return 8
	case 3:
		return 15
	}
	return 0
}

// ---- observation of spz.Read ----

func f3Lit(x, y, z float64) string { return tuple(fvLit(x), fvLit(y), fvLit(z)) }

// spzObs gunzips through the implementation and renders `option ispz`.
func spzObs(stream []byte) (lit string, fail string) {
	type res struct {
		c   *spz.Cloud
		err error
		pan interface{}
	}
	ch := make(chan res, 1)
	go func() {
		var r res
		defer func() {
			if rec := recover(); rec != nil {
				r.pan = rec
			}
			ch <- r
		}()
		r.c, r.err = spz.Read(bytes.NewReader(gz(stream)))
	}()
	var r res
	select {
	case r = <-ch:
	case <-time.After(30 * time.Second):
		return "None", "spz.Read did not return within 30 s"
	}
	if r.pan != nil {
		return "None", fmt.Sprintf("spz.Read panicked: %v", r.pan)
	}
	// the same compressed stream through every reader shape, through ReadHeader and (valid streams) through Load
	refOK := r.err == nil && r.c != nil
	dg := ""
	if refOK {
		dg = meshDigest(r.c.Mesh)
	}
	side := spzSideChecks(gz(stream), refOK, dg, r.c)
	if r.err != nil || r.c == nil {
		return "None", side
	}
	defer func() {
		if fail == "" {
			fail = side
		}
	}()
	h := r.c.Header
	m := r.c.Mesh
	var sb strings.Builder
	fmt.Fprintf(&sb, "(Some (ISpz (Build_header %d %d %d %d %d %d %d) %d ", h.Magic, h.Version, h.NumPoints, h.ShDegree,
		h.FractionalBits, h.Flags, h.Reserved, len(m.Float3Attributes()))
	v3 := func(name string) string {
		if !m.HasFloat3Attribute(name) {
			return "[]"
		}
		a := m.Float3Attribute(name)
		items := make([]string, a.Len())
		for i := range items {
			v := a.At(i)
			items[i] = f3Lit(v.X(), v.Y(), v.Z())
		}
		return list(items)
	}
	sb.WriteString(v3(modeling.PositionAttribute) + " ")
	if m.HasFloat1Attribute(modeling.OpacityAttribute) {
		a := m.Float1Attribute(modeling.OpacityAttribute)
		items := make([]string, a.Len())
		for i := range items {
			items[i] = fvLit(a.At(i))
		}
		sb.WriteString(list(items) + " ")
	} else {
		sb.WriteString("[] ")
	}
	sb.WriteString(v3(modeling.FDCAttribute) + " " + v3(modeling.ScaleAttribute) + " ")
	if m.HasFloat4Attribute(modeling.RotationAttribute) {
		a := m.Float4Attribute(modeling.RotationAttribute)
		items := make([]string, a.Len())
		for i := range items {
			v := a.At(i)
			items[i] = tuple(fvLit(v.X()), fvLit(v.Y()), fvLit(v.Z()), fvLit(v.W()))
		}
		sb.WriteString(list(items) + " ")
	} else {
		sb.WriteString("[] ")
	}
	var shs []string
	for d := 0; m.HasFloat3Attribute(fmt.Sprintf("SH_%d", d)); d++ {
		shs = append(shs, v3(fmt.Sprintf("SH_%d", d)))
	}
	sb.WriteString(list(shs) + "))")
	if len(m.Float1Attributes()) > 1 || len(m.Float4Attributes()) > 1 || len(m.Float2Attributes()) > 0 {
		fail = "spz.Read result has unexpected extra attributes"
	}
	if n := int(h.NumPoints); n > 0 && m.PrimitiveCount() != n {
		fail = fmt.Sprintf("spz.Read: %d points declared, point cloud has %d primitives", n, m.PrimitiveCount())
	}
	return sb.String(), fail
}

// spzSideChecks: spz.Read through the reader shapes; spz.ReadHeader agrees with Read (same header, no error) on a
// stream Read accepts; spz.Load of the stream written to a file returns what Read returned.
func spzSideChecks(zbytes []byte, refOK bool, dg string, ref *spz.Cloud) string {
	if f := shapeCheck("spz.Read", zbytes, refOK, dg, func(in io.Reader) (*modeling.Mesh, error) {
		c, e := spz.Read(in)
		if c == nil {
			return nil, e
		}
		if e == nil && ref != nil && c.Header != ref.Header {
			return nil, fmt.Errorf("header %+v differs from %+v", c.Header, ref.Header)
		}
		return &c.Mesh, e
	}); f != "" {
		return f
	}
	if !refOK {
		return ""
	}
	if f := retainCheck("spz.Read", ref.Mesh, dg); f != "" {
		return f
	}
	var hdr *spz.Header
	var herr error
	func() {
		defer func() {
			if rec := recover(); rec != nil {
				herr = fmt.Errorf("panic: %v", rec)
			}
		}()
		hdr, herr = spz.ReadHeader(bytes.NewReader(zbytes))
	}()
	if herr != nil || hdr == nil || *hdr != ref.Header {
		return fmt.Sprintf("spz.ReadHeader = (%+v, %v) on a stream spz.Read decodes with header %+v", hdr, herr, ref.Header)
	}
	// Load: only every few streams touch the file system
	if len(zbytes)%4 == 0 {
		f, err := os.CreateTemp("", "c15-*.spz")
		if err != nil {
			return ""
		}
		name := f.Name()
		f.Write(zbytes)
		f.Close()
		defer os.Remove(name)
		var lc *spz.Cloud
		var lerr error
		func() {
			defer func() {
				if rec := recover(); rec != nil {
					lerr = fmt.Errorf("panic: %v", rec)
				}
			}()
			lc, lerr = spz.Load(name)
		}()
		if lerr != nil || lc == nil || lc.Header != ref.Header || meshDigest(lc.Mesh) != dg {
			return fmt.Sprintf("spz.Load of the stream written to a file differs from spz.Read (error %v)", lerr)
		}
	}
	return ""
}

// spzHdrCase: spz.ReadHeader on an arbitrary (possibly invalid or short) stream: the header it returns and whether
// it reports an error.  Only the first 24 bytes of the stream go to Coq (the header has 16).
func spzHdrCase(d bytesDesc) hx.Case {
	stream, _ := hex.DecodeString(d.Hex)
	c := hx.Case{Kind: "spzhdr", Desc: d, Nontriv: len(stream) >= 16, Key: "zh|" + d.Hex}
	var hdr *spz.Header
	var herr error
	func() {
		defer func() {
			if rec := recover(); rec != nil {
				herr = fmt.Errorf("panic: %v", rec)
				c.GoFail, c.FailKey = fmt.Sprintf("spz.ReadHeader panicked: %v", rec), "spz:read-crash"
			}
		}()
		hdr, herr = spz.ReadHeader(bytes.NewReader(gz(stream)))
	}()
	lit := "None"
	if hdr != nil {
		lit = fmt.Sprintf("(Some (Build_header %d %d %d %d %d %d %d))", hdr.Magic, hdr.Version, hdr.NumPoints, hdr.ShDegree,
			hdr.FractionalBits, hdr.Flags, hdr.Reserved)
	}
	pre := stream
	if len(pre) > 24 {
		pre = pre[:24]
	}
	c.Coq = fmt.Sprintf("CSpzHdr %s %s %s", hx.CoqListN(pre), lit, hx.CoqBool(herr == nil))
	return c
}

func precLit(version uint32, p pointDesc) string {
	var sh []byte
	for _, c := range p.SH {
		sh = append(sh, c[:]...)
	}
	return fmt.Sprintf("(Build_prec %s %d %s %s %s %s)", hx.CoqListN(posBytes(version, p.Pos)), p.Alpha,
		hx.CoqListN(p.Col[:]), hx.CoqListN(p.Scale[:]), hx.CoqListN(p.Rot[:]), hx.CoqListN(sh))
}

func spzCase(d spzDesc) hx.Case {
	c := hx.Case{Kind: "spz", Desc: d, Nontriv: len(d.Points) >= 1}
	stream := refEncode(d)
	c.Key = "z|" + hex.EncodeToString(stream)
	lit, fail := spzObs(stream)
	if fail != "" {
		c.GoFail, c.FailKey = fail, "spz:read-crash"
	}
	recs := make([]string, len(d.Points))
	for i, p := range d.Points {
		recs[i] = precLit(d.Version, p)
	}
	c.Coq = fmt.Sprintf("CSpz (Build_header %d %d %d %d %d %d %d) %s %s %s", d.Magic, d.Version, len(d.Points),
		d.ShDegree, d.FracBits, d.Flags, d.Reserved, list(recs), hx.CoqListN(stream), lit)
	return c
}

func spzRawCase(d bytesDesc) hx.Case {
	stream, _ := hex.DecodeString(d.Hex)
	c := hx.Case{Kind: "spzraw", Desc: d, Nontriv: len(stream) > 16, Key: "zr|" + d.Hex}
	lit, fail := spzObs(stream)
	if fail != "" {
		c.GoFail, c.FailKey = fail, "spz:read-crash"
	}
	c.Coq = fmt.Sprintf("CSpzRaw %s %s", hx.CoqListN(stream), lit)
	return c
}

// ---- generators ----

var pos24Corners = []uint32{0, 1, 2, 0x7ffffe, 0x7fffff, 0x800000, 0x800001, 0xfffffe, 0xffffff,
	0x000100, 0x010000, 0x00ff00, 0xff0000, 0x0000ff, 0x808080, 0x7f7f7f, 0x008000, 0x000080,
	0x3fffff, 0x400000, 0x400001, 0xbfffff, 0xc00000, 0xc00001}
var fracCorners = []uint8{24, 31, 32, 52, 62, 63, 64, 100, 255}

func genPos24(r *hx.Rng) uint32 {
	switch r.Intn(4) {
	case 0:
		return hx.Pick(r, pos24Corners)
	case 1:
		return uint32(r.Range(-300, 300)) & 0xffffff // small magnitudes of both signs
	default:
		return uint32(r.U64()) & 0xffffff
	}
}
func genHalf(r *hx.Rng) uint32 {
	switch r.Intn(4) {
	case 0:
		// every exponent incl. 0 (subnormal) and 31 (inf/nan) with corner mantissas
		return uint32(r.Intn(2))<<15 | uint32(r.Intn(32))<<10 | hx.Pick(r, []uint32{0, 1, 2, 511, 512, 1022, 1023})
	case 1:
		return hx.Pick(r, []uint32{0, 0x8000, 0x7c00, 0xfc00, 0x7c01, 0xfe00, 0x3c00, 0xbc00, 0x0001, 0x8001, 0x03ff, 0x0400, 0x7bff, 0xfbff})
	default:
		return uint32(r.U64()) & 0xffff
	}
}
func genByte(r *hx.Rng) uint8 {
	if r.Chance(1, 5) {
		return hx.Pick(r, []uint8{0, 1, 127, 128, 129, 254, 255})
	}
	return uint8(r.Intn(256))
}

func genPoint(r *hx.Rng, version uint32, deg uint8) pointDesc {
	var p pointDesc
	for k := 0; k < 3; k++ {
		if version == 1 {
			p.Pos[k] = genHalf(r)
		} else {
			p.Pos[k] = genPos24(r)
		}
		p.Col[k], p.Scale[k], p.Rot[k] = genByte(r), genByte(r), genByte(r)
	}
	p.Alpha = genByte(r)
	p.SH = make([][3]uint8, shDimOf(deg))
	for i := range p.SH {
		p.SH[i] = [3]uint8{genByte(r), genByte(r), genByte(r)}
	}
	return p
}

func genValidSpz(r *hx.Rng, nmax int) spzDesc {
	d := spzDesc{Magic: spzMagic, Version: uint32(r.Range(1, 2)), ShDegree: uint8(r.Intn(4)), FracBits: uint8(r.Intn(24))}
	if r.Chance(1, 6) {
		d.FracBits = hx.Pick(r, fracCorners)
	}
	if r.Chance(1, 4) {
		d.Flags = uint8(r.Intn(256))
	}
	if r.Chance(1, 8) {
		d.Reserved = uint8(r.Intn(256)) // not validated by the reader
	}
	n := hx.Pick(r, []int{0, 1, 1, 2, 3, 5, 9})
	if n > nmax {
		n = nmax
	}
	d.Points = make([]pointDesc, n)
	for i := range d.Points {
		d.Points[i] = genPoint(r, d.Version, d.ShDegree)
	}
	return d
}

func genSpz(r *hx.Rng, run *hx.Run) spzDesc {
	d := genValidSpz(r, 9)
	if r.Chance(1, 10) {
		// invalid header, body still laid out for it
		switch r.Intn(3) {
		case 0:
			d.Magic ^= 1 << uint(r.Intn(32))
		case 1:
			d.Version = hx.Pick(r, []uint32{0, 3, 4, 0x101, 0xffffffff})
		case 2:
			d.ShDegree = hx.Pick(r, []uint8{4, 5, 255})
		}
		run.Count("spz:invalid-header")
	}
	run.Count(fmt.Sprintf("spz:v%d-deg%d", d.Version, d.ShDegree))
	run.Count("spz:n=" + bucket(len(d.Points)))
	if d.FracBits > 23 {
		run.Count("spz:fracbits>23")
	}
	return d
}

// genSpzRaw: malformed / adversarial streams: truncated, trailing bytes, count mismatch, hostile counts.
func genSpzRaw(r *hx.Rng, run *hx.Run) bytesDesc {
	d := genValidSpz(r, 5)
	s := refEncode(d)
	switch r.Intn(6) {
	case 0:
		if len(s) > 0 {
			s = s[:r.Intn(len(s))]
		}
		run.Count("spzraw:truncated")
	case 1:
		for k := r.Range(1, 40); k > 0; k-- {
			s = append(s, byte(r.Intn(256)))
		}
		run.Count("spzraw:trailing")
	case 2:
		// declared count smaller / larger than the arrays present
		n := len(d.Points) + r.Range(-2, 3)
		if n < 0 {
			n = 0
		}
		binary.LittleEndian.PutUint32(s[8:], uint32(n))
		run.Count("spzraw:count-mismatch")
	case 3:
		binary.LittleEndian.PutUint32(s[8:], hx.Pick(r, []uint32{10000000, 10000001, 0xffffffff, 0x80000000, 1 << 24}))
		run.Count("spzraw:hostile-count")
	case 4:
		// change the degree / version without changing the body
		s[12] = byte(r.Intn(5))
		s[4] = byte(r.Range(0, 3))
		run.Count("spzraw:header-body-disagree")
	default:
		for k := r.Range(1, 4); k > 0 && len(s) > 0; k-- {
			s[r.Intn(len(s))] = byte(r.Intn(256))
		}
		run.Count("spzraw:bytes-flipped")
	}
	return bytesDesc{Hex: hex.EncodeToString(s)}
}

// spzFixed: the exhaustive part.  Single-point files in which every byte field takes every value
// 0..255 (each field with a different offset so that no two fields agree), for both versions and
// every SH degree; every fractional-bit count 0..23 and the corner counts; 24-bit corner patterns;
// half-float patterns (all 65536 in the thorough tier); zero points.
func spzFixed(run *hx.Run, r *hx.Rng, thorough bool) {
	single := func(version uint32, deg uint8, v int) {
		d := spzDesc{Magic: spzMagic, Version: version, ShDegree: deg, FracBits: uint8(v % 24)}
		var p pointDesc
		f := 0
		next := func() uint8 { f++; return uint8((v + 37*f) % 256) }
		p.Alpha = next()
		for k := 0; k < 3; k++ {
			p.Col[k], p.Scale[k], p.Rot[k] = next(), next(), next()
			if version == 1 {
				p.Pos[k] = uint32((v+85*k)%256)<<8 | uint32(next()) // sweeps the half's sign/exponent byte
			} else {
				p.Pos[k] = pos24Corners[(v+k)%len(pos24Corners)]
			}
		}
		p.SH = make([][3]uint8, shDimOf(deg))
		for i := range p.SH {
			p.SH[i] = [3]uint8{next(), next(), next()}
		}
		d.Points = []pointDesc{p}
		run.Add(spzCase(d))
	}
	// Per version 256 single-point files: every non-SH byte field takes every value 0..255 in each
	// version.  Degree 3 (all 45 SH bytes present) on the even v of version 1 and the odd v of
	// version 2, so every SH byte field takes every value 0..255 as well (its decoding does not depend
	// on the version); the other files cycle through degrees 0..2.
	for version := uint32(1); version <= 2; version++ {
		for v := 0; v < 256; v++ {
			deg := uint8(3)
			if uint32(v%2) != version-1 {
				deg = uint8((v / 2) % 3)
			}
			single(version, deg, v)
		}
	}
	run.Count("spz:exhaustive-single-point-files")
	// every fractional-bit count x every SH degree with sign-boundary positions, two points
	fbs := []uint8{}
	for fb := 0; fb < 24; fb++ {
		fbs = append(fbs, uint8(fb))
	}
	fbs = append(fbs, fracCorners...)
	for i, fb := range fbs {
		for deg := uint8(0); deg <= 3; deg++ {
			d := spzDesc{Magic: spzMagic, Version: 2, ShDegree: deg, FracBits: fb}
			for k := 0; k < 2; k++ {
				p := genPoint(r, 2, d.ShDegree)
				c := 3*(4*i+int(deg)) + k
				p.Pos = [3]uint32{pos24Corners[c%len(pos24Corners)], 0x800000 - uint32(k), uint32(k)}
				if deg%2 == 1 {
					p.Pos[1], p.Pos[2] = 0x400000-uint32(k), 0xc00000-uint32(k) // bit-22 boundary, both signs
				}
				d.Points = append(d.Points, p)
			}
			run.Add(spzCase(d))
		}
	}
	// rotation triples: every combination of the corner bytes on the three channels (343 points per file), so that
	// triples on, inside and outside the unit ball all occur: (255,255,255), (0,0,0), (255,127,127), (128,128,128) ...;
	// the colour and scale triples run through the same corner product in a different order
	corner := []uint8{0, 1, 127, 128, 129, 254, 255}
	for version := uint32(1); version <= 2; version++ {
		d := spzDesc{Magic: spzMagic, Version: version, ShDegree: uint8(version - 1), FracBits: 10}
		nc := len(corner)
		for a := 0; a < nc; a++ {
			for b := 0; b < nc; b++ {
				for c := 0; c < nc; c++ {
					p := genPoint(r, version, d.ShDegree)
					if version == 1 {
						for k := range p.Pos {
							p.Pos[k] &^= 1 << 10
						}
					}
					p.Rot = [3]uint8{corner[a], corner[b], corner[c]}
					p.Col = [3]uint8{corner[c], corner[a], corner[b]}
					p.Scale = [3]uint8{corner[b], corner[c], corner[a]}
					p.Alpha = corner[(a+b+c)%nc]
					d.Points = append(d.Points, p)
				}
			}
			// one file per value of the first channel (49 points): the model's list indexing is quadratic in the count
			run.Add(spzCase(d))
			d.Points = nil
		}
	}
	// the rotation sphere: for every pair (b0, b1) on a coarse grid the two b2 values next to the unit sphere
	// (|xyz|^2 just below / just above 1)
	{
		d := spzDesc{Magic: spzMagic, Version: 2, ShDegree: 0, FracBits: 8}
		deq := func(b int) float64 { return float64(b)/127.5 - 1 }
		for b0 := 0; b0 < 256; b0 += 31 {
			for b1 := 0; b1 < 256; b1 += 31 {
				rest := 1 - deq(b0)*deq(b0) - deq(b1)*deq(b1)
				for b2 := 128; b2 < 256; b2++ {
					if deq(b2)*deq(b2) > rest {
						for _, bb := range []int{b2 - 1, b2, 255 - b2, 256 - b2} {
							p := genPoint(r, 2, 0)
							p.Rot = [3]uint8{uint8(b0), uint8(b1), uint8(bb)}
							d.Points = append(d.Points, p)
						}
						break
					}
				}
			}
			run.Add(spzCase(d))
			d.Points = nil
		}
		run.Count("spz:rotation-grids")
	}
	// flags (bit 0 = antialiased) and the reserved byte are carried through unchanged, for every version and degree
	for version := uint32(1); version <= 2; version++ {
		for deg := uint8(0); deg <= 3; deg++ {
			for k, fl := range []uint8{1, 2, 0x80, 0xff} {
				d := spzDesc{Magic: spzMagic, Version: version, ShDegree: deg, FracBits: uint8(4 + 3*k), Flags: fl, Reserved: uint8(k % 2 * 7)}
				p := genPoint(r, version, deg)
				d.Points = []pointDesc{p}
				run.Add(spzCase(d))
			}
		}
	}
	run.Count("spz:flags-grid")
	// ReadHeader: valid headers of every version / degree / flag, every kind of invalid header, short streams
	{
		hdr := func(magic, version, n uint32, deg, fb, fl, res uint8, extra int) {
			s := refHeader(magic, version, n, deg, fb, fl, res)
			for k := 0; k < extra; k++ {
				s = append(s, byte(7*k+1))
			}
			run.Add(spzHdrCase(bytesDesc{Hex: hex.EncodeToString(s)}))
		}
		for version := uint32(0); version <= 3; version++ {
			for deg := uint8(0); deg <= 4; deg++ {
				hdr(spzMagic, version, uint32(deg)*1000+version, deg, uint8(3*deg+uint8(version)), uint8(version), deg, int(deg)*3)
			}
		}
		for _, n := range []uint32{0, 1, 9999999, 10000000, 10000001, 1 << 24, 0x7fffffff, 0x80000000, 0xffffffff} {
			hdr(spzMagic, 2, n, 1, 12, 0, 0, 0)
		}
		for _, m := range []uint32{0, spzMagic ^ 1, spzMagic ^ 0x80000000, 0x4e475350, spzMagic + 256} {
			hdr(m, 2, 3, 0, 12, 0, 0, 5)
		}
		hdr(spzMagic, 0x101, 3, 0, 12, 0, 0, 0)
		hdr(spzMagic, 0x10001, 3, 0, 12, 0, 0, 0)
		hdr(spzMagic, 2, 3, 255, 255, 255, 255, 0)
		full := refHeader(spzMagic, 2, 1, 0, 12, 1, 0)
		for _, k := range []int{0, 1, 4, 8, 12, 15} {
			run.Add(spzHdrCase(bytesDesc{Hex: hex.EncodeToString(full[:k])}))
		}
		run.Count("spz:readheader-grid")
	}
	// zero points, every version and degree
	for version := uint32(1); version <= 2; version++ {
		for deg := uint8(0); deg <= 3; deg++ {
			run.Add(spzCase(spzDesc{Magic: spzMagic, Version: version, ShDegree: deg, FracBits: 12, Points: []pointDesc{}}))
		}
	}
	// half floats: version 1, degree 0
	var halves []uint32
	if thorough {
		for h := 0; h < 65536; h++ {
			halves = append(halves, uint32(h))
		}
	} else {
		for s := 0; s < 2; s++ {
			for e := 0; e < 32; e++ {
				for _, m := range []uint32{0, 1, 511, 512, 1023} {
					halves = append(halves, uint32(s)<<15|uint32(e)<<10|m)
				}
			}
		}
	}
	for len(halves)%3 != 0 {
		halves = append(halves, 0x3c00)
	}
	const perFile = 32
	for off := 0; off < len(halves); off += 3 * perFile {
		d := spzDesc{Magic: spzMagic, Version: 1, FracBits: 12}
		for k := off; k < off+3*perFile && k < len(halves); k += 3 {
			d.Points = append(d.Points, pointDesc{Pos: [3]uint32{halves[k], halves[k+1], halves[k+2]}, Alpha: uint8(k), SH: [][3]uint8{}})
		}
		run.Add(spzCase(d))
	}
	run.Count(fmt.Sprintf("spz:half-patterns=%d", len(halves)))
	// malformed corner cases
	valid := refEncode(spzDesc{Magic: spzMagic, Version: 2, ShDegree: 1, FracBits: 8, Points: []pointDesc{genPoint(r, 2, 1), genPoint(r, 2, 1)}})
	for _, k := range []int{0, 1, 15, 16, 17, 16 + 18, len(valid) - 1} {
		run.Add(spzRawCase(bytesDesc{Hex: hex.EncodeToString(valid[:k])}))
	}
	run.Add(spzRawCase(bytesDesc{Hex: hex.EncodeToString(append(append([]byte{}, valid...), 1, 2, 3))}))
}
