package main

// Concurrent use: the codecs are plain functions, so calls on different inputs from different goroutines must
// return what the same calls return one after the other (package-level scratch buffers or tables would show).

import (
	"bytes"
	"fmt"
	"sync"

	"verif/harness/hx"

	"github.com/EliCDavis/polyform/formats/ply"
	"github.com/EliCDavis/polyform/formats/splat"
	"github.com/EliCDavis/polyform/formats/spz"
	"github.com/EliCDavis/polyform/modeling"
)

type parallelDesc struct {
	Seed    uint64 `json:"seed"`
	Workers int    `json:"workers"`
}

// one job = one codec call on its own input; returns a digest of everything it produced
type parJob func() string

func parallelJobs(d parallelDesc) []parJob {
	r := hx.NewRng(d.Seed)
	var jobs []parJob
	for w := 0; w < d.Workers; w++ {
		sd := finiteSpz(r, 40+17*w)
		zs := gz(refEncode(*sd))
		cloud := cloudDesc{Splats: make([]splatDesc, 30+11*w)}
		for i := range cloud.Splats {
			cloud.Splats[i] = genSplat(r)
		}
		pd := genPlyDesc(r, 20+7*w, true, []int{0, 9, 24, 45}[w%4])
		jobs = append(jobs,
			func() string {
				c, err := spz.Read(bytes.NewReader(zs))
				if err != nil || c == nil {
					return fmt.Sprintf("spz error %v", err)
				}
				return fmt.Sprintf("spz %+v %s", c.Header, meshDigest(c.Mesh))
			},
			func() string {
				var buf bytes.Buffer
				if err := splat.Write(&buf, buildCloud(cloud)); err != nil {
					return fmt.Sprintf("splat write error %v", err)
				}
				m, err := splat.Read(bytes.NewReader(buf.Bytes()))
				return fmt.Sprintf("splat %x %v %s", meshDigestBytes(buf.Bytes()), err, meshDigest(m))
			},
			func() string {
				var buf bytes.Buffer
				if err := (ply.SplatPly{Mesh: buildPlyCloud(pd)}).Write(&buf); err != nil {
					return fmt.Sprintf("ply write error %v", err)
				}
				m, err := ply.ReadMesh(bytes.NewReader(buf.Bytes()))
				if err != nil || m == nil {
					return fmt.Sprintf("ply read error %v", err)
				}
				return fmt.Sprintf("ply %x %s", meshDigestBytes(buf.Bytes()), meshDigest(*m))
			})
	}
	return jobs
}

func meshDigestBytes(b []byte) string {
	return meshDigest(modeling.NewPointCloud(nil, nil, nil, map[string][]float64{"b": bytesAsFloats(b)}, nil))
}
func bytesAsFloats(b []byte) []float64 {
	out := make([]float64, len(b))
	for i, x := range b {
		out[i] = float64(x)
	}
	return out
}

func parallelCase(d parallelDesc) hx.Case {
	c := hx.Case{Kind: "parallel", Desc: d, Nontriv: true, Key: fmt.Sprintf("par|%+v", d), Coq: "CSpzRaw [] None"}
	jobs := parallelJobs(d)
	safe := func(j parJob) (s string) {
		defer func() {
			if rec := recover(); rec != nil {
				s = fmt.Sprintf("panic: %v", rec)
			}
		}()
		return j()
	}
	seq := make([]string, len(jobs))
	for i, j := range jobs {
		seq[i] = safe(j)
	}
	for round := 0; round < 3 && c.GoFail == ""; round++ {
		par := make([]string, len(jobs))
		var wg sync.WaitGroup
		for i, j := range jobs {
			wg.Add(1)
			go func(i int, j parJob) {
				defer wg.Done()
				par[i] = safe(j)
			}(i, j)
		}
		wg.Wait()
		for i := range jobs {
			if par[i] != seq[i] {
				c.GoFail = fmt.Sprintf("job %d (%s...) returns something else when %d codec calls run concurrently", i, seq[i][:4], len(jobs))
				c.FailKey = "codec:concurrent-use"
				break
			}
		}
	}
	return c
}
