package main

import (
	"bytes"
	"fmt"
	"sort"
	"strings"
	"time"

	"verif/harness/hx"

	"github.com/EliCDavis/polyform/formats/ply"
	"github.com/EliCDavis/polyform/modeling"
	"github.com/EliCDavis/vector/vector3"
	"github.com/EliCDavis/vector/vector4"
)

// plyDesc: a splat cloud as attribute -> per-vertex components (1, 3 or 4 of them).
type plyDesc struct {
	N     int                    `json:"n"`
	Attrs map[string][][]float64 `json:"attrs"`
}

func buildPlyCloud(d plyDesc) modeling.Mesh {
	v1 := map[string][]float64{}
	v3 := map[string][]vector3.Float64{}
	v4 := map[string][]vector4.Float64{}
	for name, vals := range d.Attrs {
		if len(vals) == 0 {
			continue
		}
		switch len(vals[0]) {
		case 1:
			a := make([]float64, len(vals))
			for i, v := range vals {
				a[i] = v[0]
			}
			v1[name] = a
		case 3:
			a := make([]vector3.Float64, len(vals))
			for i, v := range vals {
				a[i] = vector3.New(v[0], v[1], v[2])
			}
			v3[name] = a
		case 4:
			a := make([]vector4.Float64, len(vals))
			for i, v := range vals {
				a[i] = vector4.New(v[0], v[1], v[2], v[3])
			}
			v4[name] = a
		}
	}
	return modeling.NewPointCloud(v4, v3, nil, v1, nil)
}

func wordsLit(vals [][]float64) string {
	rows := make([]string, len(vals))
	for i, v := range vals {
		w := make([]uint32, len(v))
		for k, x := range v {
			w[k] = f32bits(x)
		}
		rows[i] = hx.CoqListN(w)
	}
	return list(rows)
}

func adataLit(attrs map[string][][]float64) string {
	names := make([]string, 0, len(attrs))
	for k := range attrs {
		names = append(names, k)
	}
	sort.Strings(names)
	items := make([]string, len(names))
	for i, nme := range names {
		items[i] = fmt.Sprintf("(%s, %s)", hx.CoqString(nme), wordsLit(attrs[nme]))
	}
	return "(" + list(items) + ")%string"
}

func plyCase(d plyDesc) hx.Case {
	return plyCaseWith("ply", d, d, buildPlyCloud(d))
}

// plyCaseWith: SplatPly.Write + ply.ReadMesh of mesh m, whose table attributes hold the values of d (m may come
// from another codec's reader and carry attributes outside the SplatPly table, which are not written).
func plyCaseWith(kind string, desc interface{}, d plyDesc, m modeling.Mesh) hx.Case {
	c := hx.Case{Kind: kind, Desc: desc, Nontriv: d.N >= 1 && len(d.Attrs) >= 2}
	c.Key = fmt.Sprintf("%s|%v", kind, d)
	if kind == "ply" {
		c.Key = fmt.Sprintf("p|%v", d)
	}
	var buf bytes.Buffer
	var werr error
	inDigest := meshDigest(m)
	func() {
		defer func() {
			if rec := recover(); rec != nil {
				werr = fmt.Errorf("panic: %v", rec)
			}
		}()
		werr = ply.SplatPly{Mesh: m}.Write(&buf)
	}()
	out := buf.Bytes()
	if werr != nil {
		c.GoFail, c.FailKey = "SplatPly.Write failed: "+werr.Error(), "splatply:write-error"
	} else {
		var again bytes.Buffer
		if meshDigest(m) != inDigest {
			c.GoFail, c.FailKey = "SplatPly.Write changed the mesh it was given", "splatply:write-side"
		} else if err := guard(func() { (ply.SplatPly{Mesh: m}).Write(&again) }); err != nil || !bytes.Equal(again.Bytes(), out) {
			c.GoFail, c.FailKey = "a second SplatPly.Write of the same mesh produced different bytes", "splatply:write-side"
		}
	}
	// header: property names of the vertex element, in order; body = everything after end_header
	var props []string
	body := []byte{}
	if k := bytes.Index(out, []byte("end_header\n")); k >= 0 {
		for _, line := range strings.Split(string(out[:k]), "\n") {
			f := strings.Fields(line)
			if len(f) == 3 && f[0] == "property" {
				if f[1] != "float" && c.GoFail == "" {
					c.GoFail, c.FailKey = "SplatPly property "+f[2]+" is not float", "splatply:property-type"
				}
				props = append(props, hx.CoqString(f[2]))
			}
			if len(f) >= 2 && f[0] == "format" && f[1] != "binary_little_endian" && c.GoFail == "" {
				c.GoFail, c.FailKey = "SplatPly format is "+f[1], "splatply:format"
			}
			if len(f) == 3 && f[0] == "element" && f[1] == "vertex" && f[2] != fmt.Sprint(d.N) && c.GoFail == "" && len(d.Attrs) > 0 {
				c.GoFail, c.FailKey = "SplatPly vertex count is "+f[2], "splatply:count"
			}
		}
		body = out[k+len("end_header\n"):]
	} else if c.GoFail == "" {
		c.GoFail, c.FailKey = "SplatPly output has no end_header", "splatply:header"
	}
	// read back
	back := map[string][][]float64{}
	type res struct {
		m   *modeling.Mesh
		err error
		pan interface{}
	}
	ch := make(chan res, 1)
	go func() {
		var r res
		defer func() {
			if rec := recover(); rec != nil {
				r.pan = rec
			}
			ch <- r
		}()
		r.m, r.err = ply.ReadMesh(bytes.NewReader(out))
	}()
	var r res
	select {
	case r = <-ch:
	case <-time.After(30 * time.Second):
		r.err = fmt.Errorf("ply.ReadMesh did not return within 30 s")
	}
	if r.pan != nil {
		r.err = fmt.Errorf("panic: %v", r.pan)
	}
	if r.err != nil || r.m == nil {
		if c.GoFail == "" {
			c.GoFail, c.FailKey = fmt.Sprintf("ply.ReadMesh of the SplatPly output failed: %v", r.err), "splatply:read-error"
		}
	} else {
		rm := *r.m
		if f := shapeCheck("ply.ReadMesh", out, true, meshDigest(rm), ply.ReadMesh); f != "" && c.GoFail == "" {
			c.GoFail, c.FailKey = f, "splatply:reader-shape"
		}
		if f := retainCheck("ply.ReadMesh", rm, meshDigest(rm)); f != "" && c.GoFail == "" {
			c.GoFail, c.FailKey = f, "splatply:retained-result"
		}
		chk := func(x float64) {
			if finite(x) && float64(float32(x)) != x && c.GoFail == "" {
				c.GoFail, c.FailKey = fmt.Sprintf("read back %v which is not a float32 value", x), "splatply:not-float32"
			}
		}
		for _, nme := range rm.Float1Attributes() {
			a := rm.Float1Attribute(nme)
			for i := 0; i < a.Len(); i++ {
				chk(a.At(i))
				back[nme] = append(back[nme], []float64{a.At(i)})
			}
		}
		for _, nme := range rm.Float3Attributes() {
			a := rm.Float3Attribute(nme)
			for i := 0; i < a.Len(); i++ {
				v := a.At(i)
				chk(v.X())
				chk(v.Y())
				chk(v.Z())
				back[nme] = append(back[nme], []float64{v.X(), v.Y(), v.Z()})
			}
		}
		for _, nme := range rm.Float4Attributes() {
			a := rm.Float4Attribute(nme)
			for i := 0; i < a.Len(); i++ {
				v := a.At(i)
				back[nme] = append(back[nme], []float64{v.X(), v.Y(), v.Z(), v.W()})
			}
		}
		if len(d.Attrs) > 0 && d.N > 0 && (rm.Topology() != modeling.PointTopology || rm.PrimitiveCount() != d.N) && c.GoFail == "" {
			c.GoFail, c.FailKey = fmt.Sprintf("read back %d primitives of topology %v", rm.PrimitiveCount(), rm.Topology()), "splatply:count"
		}
	}
	attrs := d.Attrs
	if d.N == 0 {
		attrs = map[string][][]float64{}
	}
	c.Coq = fmt.Sprintf("CPly %d%%nat %s (%s)%%string %s %s", d.N, adataLit(attrs), list(props), hx.CoqListN(body), adataLit(back))
	return c
}

// ---- generator ----
var plyV3 = []string{modeling.PositionAttribute, modeling.NormalAttribute, modeling.FDCAttribute, modeling.ScaleAttribute}

func genPlyVal(r *hx.Rng) float64 {
	switch r.Intn(5) {
	case 0:
		return float64(r.Range(-8, 8))
	case 1:
		return float64(r.Range(-1000, 1000)) / 10 // rounds when stored as float32
	case 2:
		return (r.Float() - 0.5) * 1e5
	default:
		return r.Float()*2 - 1
	}
}

func genPlyDesc(r *hx.Rng, n int, all bool, rest int) plyDesc {
	d := plyDesc{N: n, Attrs: map[string][][]float64{}}
	mk := func(name string, k int) {
		vals := make([][]float64, n)
		for i := range vals {
			vals[i] = make([]float64, k)
			for j := range vals[i] {
				vals[i][j] = genPlyVal(r)
			}
		}
		d.Attrs[name] = vals
	}
	for _, a := range plyV3 {
		if all || r.Chance(3, 4) {
			mk(a, 3)
		}
	}
	if all || r.Chance(3, 4) {
		mk(modeling.RotationAttribute, 4)
	}
	if all || r.Chance(3, 4) {
		mk(modeling.OpacityAttribute, 1)
	}
	for i := 0; i < 45; i++ {
		if i < rest || (rest < 0 && r.Chance(1, 2)) {
			mk(fmt.Sprintf("f_rest_%d", i), 1)
		}
	}
	return d
}

func genPly(r *hx.Rng, run *hx.Run) plyDesc {
	n := hx.Pick(r, []int{1, 1, 2, 3, 5})
	rest := hx.Pick(r, []int{0, 9, 24, 45, 45, -1})
	all := r.Chance(1, 2)
	d := genPlyDesc(r, n, all, rest)
	run.Count(fmt.Sprintf("ply:attrs=%d", len(d.Attrs)))
	return d
}

func plyFixed(run *hx.Run) {
	r := hx.NewRng(99)
	// the first SplatPly.Write of the process sees a position-only cloud, the second a degree-0 cloud, then all 62
	// properties: anything the writer keeps between calls would show
	run.Add(plyCase(plyDesc{N: 2, Attrs: map[string][][]float64{modeling.PositionAttribute: {{1, 2, 3}, {-4, 5.5, 0.1}}}}))
	run.Add(plyCase(genPlyDesc(r, 2, true, 0)))
	run.Add(plyCase(genPlyDesc(r, 2, true, 45))) // all 62 properties
	run.Add(plyCase(genPlyDesc(r, 1, true, 0)))
	run.Add(plyCase(plyDesc{N: 0, Attrs: map[string][][]float64{}}))
	// every SH degree 0..3 (0, 9, 24, 45 f_rest_N attributes) with the five / six named attributes, 1 and 3 splats:
	// each f_rest_N must come back under its own name with its own values
	for _, rest := range []int{0, 9, 24, 45} {
		for _, n := range []int{1, 3} {
			d := genPlyDesc(r, n, true, rest)
			if n == 3 {
				delete(d.Attrs, modeling.NormalAttribute) // the usual splat cloud has no normals
			}
			run.Add(plyCase(d))
		}
		run.Count(fmt.Sprintf("ply:sh-degree-f_rest=%d", rest))
	}
}
