// C15 harness: Gaussian-splat codecs.  Runs formats/splat (Write/Read), formats/spz (Read, on streams
// built by an independent reference encoder) and ply.SplatPly (+ ply.ReadMesh) on generated inputs
// and writes the observations as Coq cases for Check/C15.v.
package main

import (
	"encoding/json"
	"fmt"
	"math"
	"strings"

	"verif/harness/hx"
)

// ---- float64 <-> exact dyadic literal ----

// dyParts returns m, e with x = m * 2^e exactly (m odd or zero); x must be finite.
func dyParts(x float64) (int64, int) {
	if x == 0 {
		return 0, 0
	}
	fr, ex := math.Frexp(x)
	m := int64(fr * (1 << 53))
	e := ex - 53
	for m%2 == 0 {
		m /= 2
		e++
	}
	return m, e
}
func zlit(v int64) string {
	if v < 0 {
		return fmt.Sprintf("(%d)", v)
	}
	return fmt.Sprintf("%d", v)
}
func dyLit(x float64) string {
	m, e := dyParts(x)
	return fmt.Sprintf("(Dy %s %s)", zlit(m), zlit(int64(e)))
}
func fvLit(x float64) string {
	switch {
	case math.IsNaN(x):
		return "FNaN"
	case math.IsInf(x, 1):
		return "FPInf"
	case math.IsInf(x, -1):
		return "FNInf"
	}
	m, e := dyParts(x)
	return fmt.Sprintf("(FD %s %s)", zlit(m), zlit(int64(e)))
}
func tuple(items ...string) string { return "(" + strings.Join(items, ",") + ")" }
func list(items []string) string   { return "[" + strings.Join(items, ";") + "]" }
func f32bits(x float64) uint32     { return math.Float32bits(float32(x)) }
func finite(x float64) bool        { return !math.IsNaN(x) && !math.IsInf(x, 0) }
func sameFloat(a, b float64) bool {
	return (math.IsNaN(a) && math.IsNaN(b)) || a == b
}

func main() {
	run := hx.ParseFlags("C15", "Check.C15")
	for _, in := range run.Inputs() {
		switch in.Kind {
		case "splat":
			var d cloudDesc
			json.Unmarshal(in.Raw, &d)
			run.Add(splatCase(d))
		case "splatread":
			var d bytesDesc
			json.Unmarshal(in.Raw, &d)
			run.Add(splatReadCase(d))
		case "spz":
			var d spzDesc
			json.Unmarshal(in.Raw, &d)
			run.Add(spzCase(d))
		case "spzraw":
			var d bytesDesc
			json.Unmarshal(in.Raw, &d)
			run.Add(spzRawCase(d))
		case "ply":
			var d plyDesc
			json.Unmarshal(in.Raw, &d)
			run.Add(plyCase(d))
		case "spzhdr":
			var d bytesDesc
			json.Unmarshal(in.Raw, &d)
			run.Add(spzHdrCase(d))
		case "chain:spz>splat", "chain:spz>ply", "chain:splat>ply", "chain:ply>splat":
			var d chainDesc
			json.Unmarshal(in.Raw, &d)
			run.Add(chainCase(d))
		case "splatguard":
			var d guardDesc
			json.Unmarshal(in.Raw, &d)
			run.Add(guardCase(d))
		case "parallel":
			var d parallelDesc
			json.Unmarshal(in.Raw, &d)
			run.Add(parallelCase(d))
		case "bigspz":
			var d bigSpzDesc
			json.Unmarshal(in.Raw, &d)
			run.Add(bigSpzCase(d))
		case "bigsplat":
			var d bigSplatDesc
			json.Unmarshal(in.Raw, &d)
			run.Add(bigSplatCase(d))
		case "bigply":
			var d bigPlyDesc
			json.Unmarshal(in.Raw, &d)
			run.Add(bigPlyCase(d))
		}
	}
	if run.Replay != "" {
		run.Finish()
		return
	}
	r := hx.NewRng(run.Seed)
	thorough := run.Tier == "thorough"

	// ---- fixed corner cases ----
	splatFixed(run)
	spzFixed(run, r, thorough)
	plyFixed(run)
	chainFixed(run)
	guardFixed(run)
	run.Add(parallelCase(parallelDesc{Seed: run.Seed + 77, Workers: 6}))
	bigFixed(run, thorough)

	// ---- generated ----
	for i := 0; i < run.N; i++ {
		switch i % 10 {
		case 8:
			run.Add(chainCase(genChain(r, run)))
		case 9:
			d := genSpzRaw(r, run)
			run.Add(spzHdrCase(d))
		case 0, 1, 2:
			d := genCloud(r)
			run.Count(fmt.Sprintf("splat:n=%s", bucket(len(d.Splats))))
			run.Add(splatCase(d))
		case 3:
			run.Add(splatReadCase(genSplatBytes(r, run)))
		case 4, 5:
			run.Add(spzCase(genSpz(r, run)))
		case 6:
			run.Add(spzRawCase(genSpzRaw(r, run)))
		case 7:
			run.Add(plyCase(genPly(r, run)))
		}
	}
	spreadBig(run)
	run.Finish()
}

func bucket(n int) string {
	switch {
	case n <= 2:
		return fmt.Sprint(n)
	case n <= 5:
		return "3-5"
	default:
		return "6+"
	}
}
