package main

// Large synthetic inputs: point counts around powers of two and block sizes (4095 .. 65537) for every codec of
// C15.  A case carries only its parameters; Check/C15.v derives the same records from them (sbyte, sword,
// bz_*, bs_*, bp_*) and compares counts and order-sensitive fingerprints of per-field integer codes.

import (
	"bytes"
	"encoding/binary"
	"fmt"
	"io"
	"math"
	"strings"
	"time"

	"verif/harness/hx"

	"github.com/EliCDavis/polyform/formats/ply"
	"github.com/EliCDavis/polyform/formats/splat"
	"github.com/EliCDavis/polyform/formats/spz"
	"github.com/EliCDavis/polyform/modeling"
	"github.com/EliCDavis/vector/vector3"
	"github.com/EliCDavis/vector/vector4"
)

const fpMask = 1<<63 - 1
const badCode = 999999999 // no byte / pattern dequantises to the returned value

type fpState struct{ h1, h2 uint64 }

func (f *fpState) add(x uint64) {
	f.h1 = (f.h1*1000003 + x + 1) & fpMask
	f.h2 = (f.h2*998244353 + x + 1) & fpMask
}
func (f *fpState) bytes(b []byte) {
	for _, x := range b {
		f.add(uint64(x))
	}
}
func (f fpState) coq() string { return fmt.Sprintf("(%d,%d)%%Z", f.h1, f.h2) }

func sbyte(seed, i, f uint64) uint64 {
	v := 13*i + 7*f + seed
	return (v + v>>3 + v>>8 + 31*f) & 255
}
func sword(seed, i, k uint64) uint32 {
	v := 13*i + k + seed
	mant := (5*v + v<<9 + (v&127)<<16) & 0x7FFFFF
	ex := 120 + (v+v>>5)&15
	sg := (v >> 2) & 1
	return uint32(sg<<31 + ex<<23 + mant)
}

// ------------------------------------------------------------------ SPZ

type bigSpzDesc struct {
	Version  uint32 `json:"version"`
	ShDegree uint8  `json:"shDegree"`
	N        int    `json:"n"`
	FracBits uint8  `json:"fractionalBits"`
	Seed     uint64 `json:"seed"`
}

func bzHalf(seed, i, k uint64) uint32 {
	lo, hi := sbyte(seed, i, 2*k), sbyte(seed, i, 2*k+1)
	m := lo + 256*(hi&3)
	e := 1 + (hi>>2)&15 + 14*((hi>>6)&1)
	return uint32(32768*(hi>>7) + 1024*e + m)
}

func bigSpzPoints(d bigSpzDesc) []pointDesc {
	dim := shDimOf(d.ShDegree)
	pts := make([]pointDesc, d.N)
	for n := range pts {
		i := uint64(n)
		var p pointDesc
		for k := uint64(0); k < 3; k++ {
			if d.Version == 1 {
				p.Pos[k] = bzHalf(d.Seed, i, k)
			} else {
				p.Pos[k] = uint32(sbyte(d.Seed, i, 3*k) | sbyte(d.Seed, i, 3*k+1)<<8 | sbyte(d.Seed, i, 3*k+2)<<16)
			}
			p.Col[k] = uint8(sbyte(d.Seed, i, 10+k))
			p.Scale[k] = uint8(sbyte(d.Seed, i, 13+k))
			p.Rot[k] = uint8(sbyte(d.Seed, i, 16+k))
		}
		p.Alpha = uint8(sbyte(d.Seed, i, 9))
		p.SH = make([][3]uint8, dim)
		for c := 0; c < dim; c++ {
			f := uint64(19 + 3*c)
			p.SH[c] = [3]uint8{uint8(sbyte(d.Seed, i, f)), uint8(sbyte(d.Seed, i, f+1)), uint8(sbyte(d.Seed, i, f+2))}
		}
		pts[n] = p
	}
	return pts
}

func near(a, b float64) bool { return math.Abs(a-b) <= 1e-9 }

// byteCode: the byte b with deq(b) = x (to 1e-9), found through the approximate inverse inv.
func byteCode(x float64, inv func(float64) float64, deq func(float64) float64) uint64 {
	if !finite(x) {
		return badCode
	}
	b := math.Round(inv(x))
	if b < 0 || b > 255 || !near(deq(b), x) {
		return badCode
	}
	return uint64(b)
}

func halfCode(x float64) uint64 {
	if x == 0 || !finite(x) {
		return badCode
	}
	s := uint64(0)
	if x < 0 {
		s, x = 1, -x
	}
	fr, ex := math.Frexp(x) // x = fr * 2^ex, fr in [0.5, 1)
	m := (fr*2 - 1) * 1024
	e := ex - 1 + 15
	if m != math.Trunc(m) || e < 1 || e > 30 {
		return badCode
	}
	return s<<15 | uint64(e)<<10 | uint64(m)
}

func fixedCode(x float64, fb uint8) uint64 {
	v := math.Ldexp(x, int(fb))
	if !finite(v) || v != math.Trunc(v) || v < -8388608 || v > 8388607 {
		return badCode
	}
	return uint64(uint32(int32(v)) & 0xffffff)
}

func bigSpzCase(d bigSpzDesc) hx.Case {
	c := hx.Case{Kind: "bigspz", Desc: d, Nontriv: d.N >= 1, Key: fmt.Sprintf("bz|%+v", d)}
	stream := refEncode(spzDesc{Magic: spzMagic, Version: d.Version, ShDegree: d.ShDegree, FracBits: d.FracBits, Points: bigSpzPoints(d)})
	var sfp fpState
	sfp.bytes(stream)
	head := fmt.Sprintf("CBigSpz %d %d %d %d %d %s ", d.Version, d.ShDegree, d.FracBits, d.N, d.Seed, sfp.coq())

	type res struct {
		c   *spz.Cloud
		err error
		pan interface{}
	}
	ch := make(chan res, 1)
	go func() {
		var r res
		defer func() {
			if rec := recover(); rec != nil {
				r.pan = rec
			}
			ch <- r
		}()
		r.c, r.err = spz.Read(bytes.NewReader(gz(stream)))
	}()
	var r res
	select {
	case r = <-ch:
	case <-time.After(60 * time.Second):
		r.err = fmt.Errorf("spz.Read did not return within 60 s")
		c.GoFail, c.FailKey = r.err.Error(), "spz:read-crash"
	}
	if r.pan != nil {
		c.GoFail, c.FailKey = fmt.Sprintf("spz.Read panicked: %v", r.pan), "spz:read-crash"
	}
	if r.pan != nil || r.err != nil || r.c == nil {
		c.Coq = head + "None"
		return c
	}
	if side := spzSideChecks(gz(stream), true, meshDigest(r.c.Mesh), r.c); side != "" && c.GoFail == "" {
		c.GoFail, c.FailKey = side, "spz:reader-shape"
	}
	h, m := r.c.Header, r.c.Mesh
	var fpos, falpha, fcol, fscale, frot, fsh fpState
	npos, nalpha, ncol, nscale, nrot := 0, 0, 0, 0, 0
	if m.HasFloat3Attribute(modeling.PositionAttribute) {
		a := m.Float3Attribute(modeling.PositionAttribute)
		npos = a.Len()
		for i := 0; i < npos; i++ {
			v := a.At(i)
			for _, x := range []float64{v.X(), v.Y(), v.Z()} {
				if d.Version == 1 {
					fpos.add(halfCode(x))
				} else {
					fpos.add(fixedCode(x, d.FracBits))
				}
			}
		}
	}
	if m.HasFloat1Attribute(modeling.OpacityAttribute) {
		a := m.Float1Attribute(modeling.OpacityAttribute)
		nalpha = a.Len()
		for i := 0; i < nalpha; i++ {
			falpha.add(byteCode(a.At(i), func(x float64) float64 { return x * 255 }, func(b float64) float64 { return b / 255 }))
		}
	}
	v3codes := func(name string, f *fpState, inv, deq func(float64) float64) int {
		if !m.HasFloat3Attribute(name) {
			return 0
		}
		a := m.Float3Attribute(name)
		for i := 0; i < a.Len(); i++ {
			v := a.At(i)
			f.add(byteCode(v.X(), inv, deq))
			f.add(byteCode(v.Y(), inv, deq))
			f.add(byteCode(v.Z(), inv, deq))
		}
		return a.Len()
	}
	ncol = v3codes(modeling.FDCAttribute, &fcol,
		func(x float64) float64 { return (x*0.15 + 0.5) * 255 }, func(b float64) float64 { return (b/255 - 0.5) / 0.15 })
	nscale = v3codes(modeling.ScaleAttribute, &fscale,
		func(x float64) float64 { return (x + 10) * 16 }, func(b float64) float64 { return b/16 - 10 })
	rinv := func(x float64) float64 { return (x + 1) * 127.5 }
	rdeq := func(b float64) float64 { return b/127.5 - 1 }
	if m.HasFloat4Attribute(modeling.RotationAttribute) {
		a := m.Float4Attribute(modeling.RotationAttribute)
		nrot = a.Len()
		for i := 0; i < nrot; i++ {
			v := a.At(i)
			frot.add(byteCode(v.X(), rinv, rdeq))
			frot.add(byteCode(v.Y(), rinv, rdeq))
			frot.add(byteCode(v.Z(), rinv, rdeq))
			w2 := math.Max(0, 1-(v.X()*v.X()+v.Y()*v.Y()+v.Z()*v.Z()))
			if (!(v.W() >= 0) || !near(v.W()*v.W(), w2)) && c.GoFail == "" {
				c.GoFail = fmt.Sprintf("point %d: rotation w = %v, expected sqrt(max(0, 1-|xyz|^2)) = %v", i, v.W(), math.Sqrt(w2))
				c.FailKey = "spz:big-rotation-w"
			}
		}
	}
	var nsh []string
	for dd := 0; m.HasFloat3Attribute(fmt.Sprintf("SH_%d", dd)); dd++ {
		k := v3codes(fmt.Sprintf("SH_%d", dd), &fsh,
			func(x float64) float64 { return x*128 + 128 }, func(b float64) float64 { return (b - 128) / 128 })
		nsh = append(nsh, fmt.Sprint(k))
	}
	c.Coq = head + fmt.Sprintf("(Some {| z_hdr := Build_header %d %d %d %d %d %d %d; z_nv3 := %d; z_npos := %d; z_nalpha := %d; "+
		"z_ncol := %d; z_nscale := %d; z_nrot := %d; z_nsh := %s; z_pos_fp := %s; z_alpha_fp := %s; z_col_fp := %s; "+
		"z_scale_fp := %s; z_rot_fp := %s; z_sh_fp := %s |})",
		h.Magic, h.Version, h.NumPoints, h.ShDegree, h.FractionalBits, h.Flags, h.Reserved, len(m.Float3Attributes()),
		npos, nalpha, ncol, nscale, nrot, list(nsh), fpos.coq(), falpha.coq(), fcol.coq(), fscale.coq(), frot.coq(), fsh.coq())
	return c
}

// ------------------------------------------------------------------ .splat

type bigSplatDesc struct {
	N    int    `json:"n"`
	Seed uint64 `json:"seed"`
}

var bigScaleTab = [8]float64{0, -1.5, 0.25, -3, 1, -0.5, -2.25, 0.75}

func bsK(seed, i, f uint64) uint64 { return sbyte(seed, i, f) & 63 }
func bsKs(seed, i uint64) [8]uint64 {
	var k [8]uint64
	for j := uint64(0); j < 8; j++ {
		k[j] = bsK(seed, i, 24+j)
	}
	if k[3] == 63 {
		k[3] = 31
	}
	return k
}

func bigSplatCase(d bigSplatDesc) hx.Case {
	c := hx.Case{Kind: "bigsplat", Desc: d, Nontriv: d.N >= 1, Key: fmt.Sprintf("bs|%+v", d)}
	n := d.N
	pos := make([]vector3.Float64, n)
	scale := make([]vector3.Float64, n)
	fdc := make([]vector3.Float64, n)
	op := make([]float64, n)
	rot := make([]vector4.Float64, n)
	mid := func(k uint64) float64 { return float64(4*k+1) + 0.5 }
	for idx := 0; idx < n; idx++ {
		i := uint64(idx)
		w := func(k uint64) float64 { return float64(math.Float32frombits(sword(d.Seed, i, k))) }
		pos[idx] = vector3.New(w(0), w(1), w(2))
		sc := func(k uint64) float64 { return bigScaleTab[(i+k+d.Seed)&7] }
		scale[idx] = vector3.New(sc(0), sc(1), sc(2))
		k := bsKs(d.Seed, i)
		col := func(k uint64) float64 { return (mid(k)/255 - 0.5) / shC0 }
		fdc[idx] = vector3.New(col(k[0]), col(k[1]), col(k[2]))
		a := mid(k[3]) / 255
		op[idx] = math.Log(a / (1 - a))
		r := func(k uint64) float64 { return (mid(k) - 128) / 128 }
		rot[idx] = vector4.New(r(k[4]), r(k[5]), r(k[6]), r(k[7]))
	}
	m := modeling.NewPointCloud(
		map[string][]vector4.Float64{modeling.RotationAttribute: rot},
		map[string][]vector3.Float64{modeling.PositionAttribute: pos, modeling.ScaleAttribute: scale, modeling.FDCAttribute: fdc},
		nil, map[string][]float64{modeling.OpacityAttribute: op}, nil)
	var buf bytes.Buffer
	var werr error
	inDigest := meshDigest(m)
	func() {
		defer func() {
			if rec := recover(); rec != nil {
				werr = fmt.Errorf("panic: %v", rec)
			}
		}()
		werr = splat.Write(&buf, m)
	}()
	out := buf.Bytes()
	if werr != nil {
		c.GoFail, c.FailKey = "splat.Write failed: "+werr.Error(), "splat:write-error"
	} else if f := splatWriteSide(m, inDigest, out); f != "" {
		c.GoFail, c.FailKey = f, "splat:write-side"
	}
	var ffile, fscale fpState
	ffile.bytes(out)
	for off := 0; off+32 <= len(out); off += 32 {
		for k := 0; k < 3; k++ {
			fscale.add(uint64(binary.LittleEndian.Uint32(out[off+12+4*k:])))
		}
	}
	var rm modeling.Mesh
	var rerr error
	func() {
		defer func() {
			if rec := recover(); rec != nil {
				rerr = fmt.Errorf("panic: %v", rec)
				if c.GoFail == "" {
					c.GoFail, c.FailKey = fmt.Sprintf("splat.Read panicked: %v", rec), "splat:read-crash"
				}
			}
		}()
		rm, rerr = splat.Read(bytes.NewReader(out))
	}()
	if c.GoFail == "" {
		if f := shapeCheck("splat.Read", out, rerr == nil, meshDigest(rm), func(in io.Reader) (*modeling.Mesh, error) {
			m2, e := splat.Read(in)
			return &m2, e
		}); f != "" {
			c.GoFail, c.FailKey = f, "splat:reader-shape"
		}
	}
	var fpos, fcoarse, fexact fpState
	rdN := 0
	if rm.HasFloat3Attribute(modeling.PositionAttribute) && rm.HasFloat3Attribute(modeling.ScaleAttribute) &&
		rm.HasFloat3Attribute(modeling.FDCAttribute) && rm.HasFloat1Attribute(modeling.OpacityAttribute) &&
		rm.HasFloat4Attribute(modeling.RotationAttribute) {
		p, s, f := rm.Float3Attribute(modeling.PositionAttribute), rm.Float3Attribute(modeling.ScaleAttribute), rm.Float3Attribute(modeling.FDCAttribute)
		o, q := rm.Float1Attribute(modeling.OpacityAttribute), rm.Float4Attribute(modeling.RotationAttribute)
		rdN = p.Len()
		if (s.Len() != rdN || f.Len() != rdN || o.Len() != rdN || q.Len() != rdN) && c.GoFail == "" {
			c.GoFail, c.FailKey = "splat.Read attribute arrays have different lengths", "splat:read-float-steps"
			rdN = 0
		}
		code := func(b uint64) {
			if b == badCode {
				fcoarse.add(badCode)
			} else {
				fcoarse.add(b >> 2)
			}
			fexact.add(b)
		}
		colInv := func(x float64) float64 { return (x*shC0 + 0.5) * 255 }
		colDeq := func(b float64) float64 { return (b/255 - 0.5) / shC0 }
		for i := 0; i < rdN; i++ {
			pv, sv, cv, qv := p.At(i), s.At(i), f.At(i), q.At(i)
			for _, x := range []float64{pv.X(), pv.Y(), pv.Z()} {
				if float64(float32(x)) != x {
					fpos.add(badCode)
				} else {
					fpos.add(uint64(math.Float32bits(float32(x))))
				}
			}
			code(byteCode(cv.X(), colInv, colDeq))
			code(byteCode(cv.Y(), colInv, colDeq))
			code(byteCode(cv.Z(), colInv, colDeq))
			code(byteCode(sigmoid(o.At(i)), func(x float64) float64 { return x * 255 }, func(b float64) float64 { return b / 255 }))
			for _, x := range []float64{qv.X(), qv.Y(), qv.Z(), qv.W()} {
				code(byteCode(x, func(x float64) float64 { return x*128 + 128 }, func(b float64) float64 { return (b - 128) / 128 }))
			}
			if i < n && c.GoFail == "" {
				want := scale[i]
				got := [3]float64{sv.X(), sv.Y(), sv.Z()}
				for k, wv := range []float64{want.X(), want.Y(), want.Z()} {
					if math.Abs(got[k]-wv) > 1.0/(1<<23)+1e-12*math.Abs(wv) {
						c.GoFail = fmt.Sprintf("splat %d: scale[%d] %v read back as %v", i, k, wv, got[k])
						c.FailKey = "splat:scale-roundtrip"
					}
				}
			}
		}
	}
	stab := make([]uint32, 8)
	for k, s := range bigScaleTab {
		stab[k] = f32bits(math.Exp(s))
	}
	c.Coq = fmt.Sprintf("CBigSplat %d %d %s {| s_len := %d; s_file_fp := %s; s_scale_fp := %s; s_rd_ok := %s; s_rd_n := %d; "+
		"s_pos_fp := %s; s_coarse_fp := %s; s_exact_fp := %s |}", d.N, d.Seed, hx.CoqListN(stab), len(out), ffile.coq(), fscale.coq(),
		hx.CoqBool(rerr == nil), rdN, fpos.coq(), fcoarse.coq(), fexact.coq())
	return c
}

// ------------------------------------------------------------------ SplatPly

type bigPlyDesc struct {
	N     int    `json:"n"`
	NAttr int    `json:"attributes"` // the first NAttr entries of the writer table: 6 named ones, then f_rest_k
	Seed  uint64 `json:"seed"`
}

func bpName(ai int) string {
	named := []string{modeling.PositionAttribute, modeling.NormalAttribute, modeling.FDCAttribute, modeling.ScaleAttribute,
		modeling.RotationAttribute, modeling.OpacityAttribute}
	if ai < len(named) {
		return named[ai]
	}
	return fmt.Sprintf("f_rest_%d", ai-len(named))
}
func bpArity(ai int) int {
	switch {
	case ai < 4:
		return 3
	case ai == 4:
		return 4
	}
	return 1
}

func bigPlyCase(d bigPlyDesc) hx.Case {
	c := hx.Case{Kind: "bigply", Desc: d, Nontriv: d.N >= 1, Key: fmt.Sprintf("bp|%+v", d)}
	v1 := map[string][]float64{}
	v3 := map[string][]vector3.Float64{}
	v4 := map[string][]vector4.Float64{}
	for ai := 0; ai < d.NAttr; ai++ {
		w := func(i, k int) float64 {
			return float64(math.Float32frombits(sword(d.Seed+1009*uint64(ai), uint64(i), uint64(k))))
		}
		switch bpArity(ai) {
		case 3:
			a := make([]vector3.Float64, d.N)
			for i := range a {
				a[i] = vector3.New(w(i, 0), w(i, 1), w(i, 2))
			}
			v3[bpName(ai)] = a
		case 4:
			a := make([]vector4.Float64, d.N)
			for i := range a {
				a[i] = vector4.New(w(i, 0), w(i, 1), w(i, 2), w(i, 3))
			}
			v4[bpName(ai)] = a
		default:
			a := make([]float64, d.N)
			for i := range a {
				a[i] = w(i, 0)
			}
			v1[bpName(ai)] = a
		}
	}
	m := modeling.NewPointCloud(v4, v3, nil, v1, nil)
	var buf bytes.Buffer
	var werr error
	func() {
		defer func() {
			if rec := recover(); rec != nil {
				werr = fmt.Errorf("panic: %v", rec)
			}
		}()
		werr = ply.SplatPly{Mesh: m}.Write(&buf)
	}()
	out := buf.Bytes()
	if werr != nil {
		c.GoFail, c.FailKey = "SplatPly.Write failed: "+werr.Error(), "splatply:write-error"
	}
	var props []string
	body := []byte{}
	if k := bytes.Index(out, []byte("end_header\n")); k >= 0 {
		for _, line := range strings.Split(string(out[:k]), "\n") {
			f := strings.Fields(line)
			if len(f) == 3 && f[0] == "property" {
				if f[1] != "float" && c.GoFail == "" {
					c.GoFail, c.FailKey = "SplatPly property "+f[2]+" is not float", "splatply:property-type"
				}
				props = append(props, hx.CoqString(f[2]))
			}
			if len(f) == 3 && f[0] == "element" && f[1] == "vertex" && f[2] != fmt.Sprint(d.N) && c.GoFail == "" {
				c.GoFail, c.FailKey = "SplatPly vertex count is "+f[2], "splatply:count"
			}
		}
		body = out[k+len("end_header\n"):]
	} else if c.GoFail == "" {
		c.GoFail, c.FailKey = "SplatPly output has no end_header", "splatply:header"
	}
	var fbody fpState
	fbody.bytes(body)

	type res struct {
		m   *modeling.Mesh
		err error
		pan interface{}
	}
	ch := make(chan res, 1)
	go func() {
		var r res
		defer func() {
			if rec := recover(); rec != nil {
				r.pan = rec
			}
			ch <- r
		}()
		r.m, r.err = ply.ReadMesh(bytes.NewReader(out))
	}()
	var r res
	select {
	case r = <-ch:
	case <-time.After(60 * time.Second):
		r.err = fmt.Errorf("ply.ReadMesh did not return within 60 s")
	}
	if r.pan != nil {
		r.err = fmt.Errorf("panic: %v", r.pan)
	}
	rdN := 0
	var back []string
	if r.err != nil || r.m == nil {
		if c.GoFail == "" {
			c.GoFail, c.FailKey = fmt.Sprintf("ply.ReadMesh of the SplatPly output failed: %v", r.err), "splatply:read-error"
		}
	} else {
		rm := *r.m
		rdN = rm.PrimitiveCount()
		if f := shapeCheck("ply.ReadMesh", out, true, meshDigest(rm), ply.ReadMesh); f != "" && c.GoFail == "" {
			c.GoFail, c.FailKey = f, "splatply:reader-shape"
		}
		word := func(f *fpState, x float64) {
			if finite(x) && float64(float32(x)) != x {
				f.add(badCode)
			} else {
				f.add(uint64(math.Float32bits(float32(x))))
			}
		}
		entry := func(name string, cnt int, f fpState) {
			back = append(back, fmt.Sprintf("(%s, (%d, %s))", hx.CoqString(name), cnt, f.coq()))
		}
		for _, nme := range rm.Float1Attributes() {
			a := rm.Float1Attribute(nme)
			var f fpState
			for i := 0; i < a.Len(); i++ {
				word(&f, a.At(i))
			}
			entry(nme, a.Len(), f)
		}
		for _, nme := range rm.Float3Attributes() {
			a := rm.Float3Attribute(nme)
			var f fpState
			for i := 0; i < a.Len(); i++ {
				v := a.At(i)
				word(&f, v.X())
				word(&f, v.Y())
				word(&f, v.Z())
			}
			entry(nme, a.Len(), f)
		}
		for _, nme := range rm.Float4Attributes() {
			a := rm.Float4Attribute(nme)
			var f fpState
			for i := 0; i < a.Len(); i++ {
				v := a.At(i)
				word(&f, v.X())
				word(&f, v.Y())
				word(&f, v.Z())
				word(&f, v.W())
			}
			entry(nme, a.Len(), f)
		}
	}
	c.Coq = fmt.Sprintf("CBigPly %d %d %d {| y_props := (%s)%%string; y_body_len := %d; y_body_fp := %s; y_rd_n := %d; y_back := (%s)%%string |}",
		d.N, d.Seed, d.NAttr, list(props), len(body), fbody.coq(), rdN, list(back))
	return c
}

// ------------------------------------------------------------------ fixed set

// bigFixed: every codec at every size of the list; SPZ cycles through versions x degrees so that each
// (version, degree >= 1) pair meets a count above 4096 and each size meets both versions.
func bigFixed(run *hx.Run, thorough bool) {
	sizes := []int{4095, 4096, 4097, 8193, 9000, 65537}
	for k, n := range sizes {
		run.Add(bigSplatCase(bigSplatDesc{N: n, Seed: uint64(3 + k)}))
		nattr := []int{51, 6, 9, 15, 6, 6}[k]
		run.Add(bigPlyCase(bigPlyDesc{N: n, NAttr: nattr, Seed: uint64(11 + k)}))
	}
	type vd struct {
		v   uint32
		deg uint8
		n   int
	}
	var combos []vd
	others := []int{4095, 4096, 8193, 9000}
	k := 0
	for v := uint32(1); v <= 2; v++ {
		for deg := uint8(0); deg <= 3; deg++ {
			if thorough {
				for _, n := range sizes {
					combos = append(combos, vd{v, deg, n})
				}
				continue
			}
			// quick: every (version, degree) one past the block size and at one other size
			combos = append(combos, vd{v, deg, 4097}, vd{v, deg, others[k%len(others)]})
			k++
		}
	}
	if !thorough {
		combos = append(combos, vd{2, 1, 65537}, vd{1, 3, 65537})
	}
	// sizes at which the uncompressed stream (16 + n * bytes per point) reaches / just passes the inflater's 32 KiB
	// window and its multiples: 19 + 3*shDim bytes per point in version 2, 16 + 3*shDim in version 1
	combos = append(combos, vd{2, 0, 1723}, vd{2, 0, 1724}, vd{1, 0, 2047}, vd{1, 0, 2048}, vd{2, 3, 511}, vd{2, 3, 512},
		vd{2, 2, 762}, vd{1, 1, 1310}, vd{2, 1, 2340}, vd{1, 2, 1638}, vd{2, 0, 3449}, vd{1, 3, 1074})
	for k, cb := range combos {
		run.Add(bigSpzCase(bigSpzDesc{Version: cb.v, ShDegree: cb.deg, N: cb.n, FracBits: uint8((5 * k) % 24), Seed: uint64(17 + k)}))
	}
	run.Count("big:sizes=4095,4096,4097,8193,9000,65537")
}

// spreadBig moves the large cases evenly through the case list: shards are consecutive runs of cases, so this
// puts about one large case into each shard instead of all of them into one.
func spreadBig(run *hx.Run) {
	var big, rest []hx.Case
	for _, c := range run.Cases {
		if strings.HasPrefix(c.Kind, "big") || len(c.Coq) > 30000 {
			big = append(big, c)
		} else {
			rest = append(rest, c)
		}
	}
	if len(big) == 0 {
		return
	}
	out := make([]hx.Case, 0, len(run.Cases))
	total := len(run.Cases)
	bi, ri := 0, 0
	for pos := 0; pos < total; pos++ {
		// big case number bi belongs at position bi*total/len(big)
		if bi < len(big) && (pos >= bi*total/len(big) || ri >= len(rest)) {
			out = append(out, big[bi])
			bi++
		} else {
			out = append(out, rest[ri])
			ri++
		}
	}
	for i := range out {
		out[i].ID = i
	}
	run.Cases = out
}
