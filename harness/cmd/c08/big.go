// Files past internal block sizes (more than 64 KiB of vertex records, more than 65536 vertices, face blocks and ascii
// bodies of that order).  Such a file is named by a formula (layout, counts, seed) that Formats/PlyBig.v evaluates as
// well; only position-sensitive fingerprints of body and mesh go to Coq (Check/C08.v, constructor CBig).
package main

import (
	"crypto/sha1"
	"encoding/hex"
	"fmt"
	"math"
	"strconv"
	"strings"

	"verif/harness/hx"
	"verif/harness/internal/plyx"
)

// BigDesc is the replayable description of a formula file.
type BigDesc struct {
	Fmt     string  `json:"fmt"`
	VProps  []VProp `json:"vprops"`
	NV      int     `json:"nv"`
	Seed    uint32  `json:"seed"`
	HasFace bool    `json:"has_face"`
	FProps  []FProp `json:"fprops"`
	NF      int     `json:"nf"`
	Quads   bool    `json:"quads"`
	CRLF    bool    `json:"crlf"`
	Big     bool    `json:"big"` // marks the JSON as a BigDesc
}

func bmix(seed, i, j uint32) uint32 {
	x := seed + i*2654435761 + j*2246822519 + 374761393
	y := x*3266489917 + 668265263
	return y ^ (y >> 15)
}

func bword(ty string, seed, i, j uint32) uint64 {
	h := bmix(seed, i, j)
	switch ty {
	case "char": // char / short items (extra list properties only): non-negative
		return uint64(h & 127)
	case "uchar":
		return uint64(h & 255)
	case "short":
		return uint64(h & 32767)
	case "ushort":
		return uint64(h & 65535)
	case "int", "uint":
		return uint64(h)
	case "float":
		if (h>>23)&255 == 255 {
			h &= 3221225471
		}
		return uint64(h)
	}
	if (h>>20)&2047 == 2047 {
		h &= 3221225471
	}
	return uint64(h)<<32 | uint64(bmix(seed+1, i, j))
}

func bigCorners(d BigDesc, k uint32) int {
	if d.Quads && bmix(d.Seed, k, 1000)%3 == 0 {
		return 4
	}
	return 3
}

// bigSpec writes the formula out as an explicit abstract file.
func bigSpec(d BigDesc) Spec {
	s := Spec{Fmt: d.Fmt, Sep: " ", FloatFmt: "g", VProps: d.VProps, HasFace: d.HasFace, FProps: d.FProps, CRLF: d.CRLF}
	s.Verts = make([][]uint64, d.NV)
	for i := range s.Verts {
		rec := make([]uint64, len(d.VProps))
		for j, p := range d.VProps {
			rec[j] = bword(p.Ty, d.Seed, uint32(i), uint32(j))
		}
		s.Verts[i] = rec
	}
	if !d.HasFace {
		return s
	}
	for k := 0; k < d.NF; k++ {
		c := bigCorners(d, uint32(k))
		var face [][]uint64
		for j, p := range d.FProps {
			var ws []uint64
			switch p.Name {
			case "vertex_indices", "vertex_index":
				for m := 0; m < c; m++ {
					// even corners anywhere, odd corners among the last 4 vertices (so that large vertex numbers occur)
					h, nv := bmix(d.Seed, uint32(k), uint32(2000+m)), uint32(d.NV)
					if m%2 == 0 {
						ws = append(ws, uint64(h%nv))
					} else {
						top := nv
						if top > 4 {
							top = 4
						}
						ws = append(ws, uint64(nv-1-h%top))
					}
				}
			case "texcoord":
				for m := 0; m < 2*c; m++ {
					ws = append(ws, bword(p.Lt, d.Seed, uint32(k), uint32(3000+m)))
				}
			default:
				n := int(bmix(d.Seed, uint32(k), uint32(5000+j)) % 3)
				for m := 0; m < n; m++ {
					ws = append(ws, bword(p.Lt, d.Seed, uint32(k), uint32(4000+16*j+m)))
				}
			}
			face = append(face, ws)
		}
		s.Faces = append(s.Faces, face)
	}
	return s
}

// ---- fingerprints (Formats/PlyBig.v: fp_step, fp_word, fp_rows, fp_idx, fp_bytes, fp_lines) ----
const mask63 = 1<<63 - 1

func fpStep(h, x uint64) uint64 { return (h*2654435761 + x + 1) & mask63 }
func fpWord(h, v uint64) uint64 { return fpStep(fpStep(h, v>>32), v&0xffffffff) }

func fpBody(format string, body []byte) uint64 {
	h := uint64(0)
	if format != "ascii" {
		for _, b := range body {
			h = fpStep(h, uint64(b))
		}
		return h
	}
	for _, l := range strings.Split(string(body), "\n") {
		fs := plyx.Fields(l)
		if len(fs) == 0 {
			continue
		}
		for _, t := range fs {
			f, err := strconv.ParseFloat(t, 64)
			if err != nil {
				h = fpStep(h, 7)
			} else {
				h = fpWord(h, math.Float64bits(f))
			}
		}
		h = fpStep(h, 1)
	}
	return h
}

func meshFpCoq(o plyx.Outcome) string {
	switch o.Class {
	case "declared":
		return "BDeclared"
	case "crash":
		return "BCrash"
	case "hang":
		return "BHang"
	}
	m := o.Mesh
	topo, ok := plyx.TopoCoq(m)
	if !ok {
		return "BCrash (* unexpected topology *)"
	}
	idx := plyx.Indices(m)
	h := uint64(0)
	for _, z := range idx {
		h = fpWord(h, uint64(z))
	}
	var items []string
	for _, a := range plyx.Attrs(m) {
		ah := uint64(0)
		for _, r := range a.Rows {
			for _, x := range r {
				ah = fpWord(ah, math.Float64bits(x))
			}
		}
		items = append(items, fmt.Sprintf("(%d%%nat, %s%%string, %d, %d)", a.Dim, hx.CoqString(a.Name), len(a.Rows), ah))
	}
	return fmt.Sprintf("(BMesh {| mf_topo := %s; mf_nidx := %d; mf_idx := %d; mf_attrs := [%s] |})",
		topo, len(idx), h, strings.Join(items, "; "))
}

func bigCoq(d BigDesc) string {
	vp := make([]string, len(d.VProps))
	for i, p := range d.VProps {
		vp[i] = fmt.Sprintf("(%s,%s%%string)", coqTy(p.Ty), hx.CoqString(p.Name))
	}
	fp := "None"
	if d.HasFace {
		it := make([]string, len(d.FProps))
		for i, p := range d.FProps {
			it[i] = fmt.Sprintf("(%s,%s,%s%%string)", coqTy(p.Ct), coqTy(p.Lt), hx.CoqString(p.Name))
		}
		fp = "(Some [" + strings.Join(it, ";") + "])"
	}
	nf := d.NF
	if !d.HasFace {
		nf = 0
	}
	return fmt.Sprintf("{| bg_fmt := %s; bg_vprops := [%s]; bg_nv := %d; bg_seed := %d; bg_fprops := %s; bg_nf := %d; bg_quads := %s |}",
		coqFmt(d.Fmt), strings.Join(vp, ";"), d.NV, d.Seed, fp, nf, hx.CoqBool(d.Quads))
}

func bigCase(d BigDesc, kind string) hx.Case {
	d.Big = true
	for i := range d.VProps {
		if d.VProps[i].Alias == "" {
			d.VProps[i].Alias = d.VProps[i].Ty
		}
	}
	for i := range d.FProps {
		if d.FProps[i].CtAlias == "" {
			d.FProps[i].CtAlias = d.FProps[i].Ct
		}
		if d.FProps[i].LtAlias == "" {
			d.FProps[i].LtAlias = d.FProps[i].Lt
		}
	}
	if d.NV == 0 {
		d.NF = 0
	}
	s := bigSpec(d)
	data := render(s)
	out := plyx.SafeReadLong(data)
	c := hx.Case{Kind: kind, Desc: d, Nontriv: true}
	sum := sha1.Sum(data)
	c.Key = hex.EncodeToString(sum[:])
	hdr, format, body, ok := plyx.Split(data)
	if !ok {
		c.Coq = "CRaw {| pf_header := []; pf_body := BodyBin [] |} ODeclared"
		return c
	}
	hl := make([]string, len(hdr))
	for i, l := range hdr {
		fs := make([]string, len(l))
		for j, f := range l {
			fs[j] = hx.CoqString(f)
		}
		hl[i] = "[" + strings.Join(fs, ";") + "]%string"
	}
	c.Coq = fmt.Sprintf("CBig %s\n [%s]\n %d %s", bigCoq(d), strings.Join(hl, ";\n  "), fpBody(format, body), meshFpCoq(out))
	if diff := plyx.OtherPaths(data, out, tmpDir); diff != "" {
		c.GoFail = "the same bytes load differently through " + diff
		c.FailKey = "ply:read-path"
	}
	if out.Class == "hang" || out.Class == "crash" {
		c.GoFail = fmt.Sprintf("ReadMesh on a specification-conformant file of %d vertices / %d faces: %s: %s", d.NV, d.NF, out.Class, out.Msg)
		c.FailKey = "ply:read-" + out.Class
	}
	return c
}

// sanitize keeps a random layout inside the part of the quantifier a formula file is judged on: the four supported
// vertex types, no uchar (s, t) pair (multiplication table, see Formats/PlyReadV2.v), and in ascii files no uchar
// property that is read as a lone scalar (the known finding).
func sanitize(d *BigDesc) {
	for i := range d.VProps {
		switch d.VProps[i].Ty {
		case "uchar", "int", "float", "double":
		default:
			d.VProps[i].Ty = "float"
		}
		if (d.VProps[i].Name == "s" || d.VProps[i].Name == "t") && d.VProps[i].Ty == "uchar" {
			d.VProps[i].Ty = "float"
		}
	}
	if d.Fmt == "ascii" {
		tmp := Spec{VProps: d.VProps}
		for _, n := range ucharScalars(tmp) {
			for i := range d.VProps {
				if d.VProps[i].Name == n {
					d.VProps[i].Ty = "int"
				}
			}
		}
	}
	for i := range d.VProps {
		d.VProps[i].Alias = d.VProps[i].Ty
	}
}

func recSize(ps []VProp) int {
	n := 0
	for _, p := range ps {
		n += size(p.Ty)
	}
	return n
}

// systematicBig: every run, independent of the seed.  A quick run takes the cheapest file that crosses both
// the 64 KiB and the 65536-record limit (65540 one-byte records, faces naming the last vertices) plus one random formula
// file; a thorough run all eight.
func systematicBig(thorough bool) []BigDesc {
	// (float32 values are the costly ones to evaluate in Coq: the wide layouts use doubles)
	xyz := []VProp{vp("float", "x"), vp("float", "y"), vp("float", "z")}
	xyzd := []VProp{vp("double", "x"), vp("double", "y"), vp("double", "z")}
	tri := FProp{Ct: "uchar", Lt: "int", Name: "vertex_indices"}
	mix := []VProp{vp("double", "time"), vp("float", "x"), vp("uchar", "red"), vp("float", "y"), vp("float", "z"), vp("int", "id"),
		vp("uchar", "green"), vp("uchar", "blue")}
	five := []VProp{vp("double", "quality"), vp("double", "y"), vp("double", "x"), vp("double", "confidence"), vp("double", "z")}
	six := append(append([]VProp(nil), xyz...), vp("float", "nx"), vp("float", "ny"), vp("float", "nz"))
	all := []BigDesc{
		// one record past 64 KiB of 24-byte records; the largest count of 25-byte records that still fits
		{Fmt: "binary_little_endian", VProps: xyzd, NV: 65536/24 + 1, Seed: 1},
		{Fmt: "binary_big_endian", VProps: append(append([]VProp(nil), xyzd...), vp("uchar", "label")), NV: 65536 / 25, Seed: 2},
		// 27-byte records of mixed sizes, faces after them (the face block must start where it should)
		{Fmt: "binary_big_endian", VProps: mix, NV: 65536/27 + 2, Seed: 3, HasFace: true, FProps: []FProp{tri}, NF: 40, Quads: true},
		// more than 65536 vertices of one byte each (a face element keeps the index buffer short)
		{Fmt: "binary_little_endian", VProps: []VProp{vp("uchar", "q")}, NV: 65536 + 4, Seed: 4, HasFace: true, FProps: []FProp{tri}, NF: 3, Quads: true},
		// 40-byte records
		{Fmt: "binary_big_endian", VProps: five, NV: 65536/40 + 1, Seed: 5},
		// ascii body of more than 64 KiB
		{Fmt: "ascii", VProps: six, NV: 1100, Seed: 6},
		// more than 64 KiB of face records, with per-corner texture coordinates and another list
		{Fmt: "binary_little_endian", VProps: xyz, NV: 50, Seed: 7, HasFace: true, Quads: true, NF: 900,
			FProps: []FProp{{Ct: "uchar", Lt: "uchar", Name: "flags"}, tri, {Ct: "uchar", Lt: "double", Name: "texcoord"}}},
		{Fmt: "ascii", VProps: xyz, NV: 40, Seed: 8, HasFace: true, Quads: true, NF: 700, CRLF: true,
			FProps: []FProp{{Ct: "int", Lt: "double", Name: "texcoord"}, {Ct: "int", Lt: "uint", Name: "vertex_index"}}},
	}
	if thorough {
		return all
	}
	return []BigDesc{all[3]}
}

// genBig: a random layout with a record count just below / at / past a power-of-two number of body bytes.
func genBig(r *hx.Rng) BigDesc {
	s := genSpec(r)
	d := BigDesc{Fmt: s.Fmt, VProps: s.VProps, Seed: uint32(r.U64()), CRLF: s.CRLF}
	sanitize(&d)
	if s.HasFace && outsideFace(s) == "" {
		d.HasFace, d.FProps, d.Quads = true, s.FProps, r.Bool()
	}
	limit := hx.Pick(r, []int{4096, 8192, 32768, 65536, 65536, 131072})
	per := recSize(d.VProps)
	if d.Fmt == "ascii" {
		per = 9 * len(d.VProps) // a line is about that long
	}
	if d.HasFace && r.Chance(1, 3) {
		// the face block crosses the limit
		d.NV = r.Range(3, 60)
		d.NF = limit/20 + r.Range(-1, 2)
		if d.NF > 1500 {
			d.NF = 1500
		}
		return d
	}
	d.NV = limit/per + r.Range(-1, 2)
	if max := 20000 / len(d.VProps); d.NV > max {
		d.NV = max
	}
	if d.NV > 6000 && !d.HasFace {
		// a point cloud's index buffer is as long as the vertex list: keep the evaluation in Coq short
		d.HasFace, d.FProps, d.Quads = true, []FProp{{Ct: "uchar", Lt: "int", Name: "vertex_indices"}}, true
	}
	if d.HasFace {
		d.NF = r.Range(0, 30)
	}
	return d
}

// outsideFace: the face element's count / item types are inside the quantifier.
func outsideFace(s Spec) string {
	t := Spec{VProps: []VProp{{Ty: "float", Name: "x"}}, FProps: s.FProps}
	return outside(t)
}
