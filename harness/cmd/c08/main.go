// C08 harness: PLY files written by other tools.  An independent reference encoder (written from the PLY
// specification, not from polyform's writer) turns a random abstract file — property order, type mix,
// aliases, noise lines, CRLF, list count/index types, tri/quad faces, all three encodings — into bytes;
// ply.ReadMesh reads them; the abstract file, the bytes as seen by an independent tokenizer, and the
// outcome are written as Coq cases for Check/C08.v.
package main

import (
	"crypto/sha1"
	"encoding/binary"
	"encoding/hex"
	"encoding/json"
	"flag"
	"fmt"
	"math"
	"os"
	"strconv"
	"strings"

	"verif/harness/hx"
	"verif/harness/internal/plyx"
)

type VProp struct {
	Ty    string `json:"ty"`    // uchar | int | float | double
	Name  string `json:"name"`  // property name
	Alias string `json:"alias"` // spelling of the type in the header (uchar/uint8, ...)
}
type FProp struct {
	Ct      string `json:"ct"`
	Lt      string `json:"lt"`
	Name    string `json:"name"`
	CtAlias string `json:"ct_alias"`
	LtAlias string `json:"lt_alias"`
}
type Noise struct {
	Before int    `json:"before"` // canonical header line index (>= 2) before which the line is inserted
	Text   string `json:"text"`
}
type Trailer struct {
	Name  string     `json:"name"`
	Props []string   `json:"props"` // int properties
	Rows  [][]uint64 `json:"rows"`
}

// OProp is a property of an element other than vertex/face: scalar (Ct == "") or list.
type OProp struct {
	Ct   string `json:"ct,omitempty"`
	Ty   string `json:"ty"`
	Name string `json:"name"`
}

// Other is an element the reader has no use for (edge, material, camera ...).
type Other struct {
	Pos   string       `json:"pos"` // before | between | after (relative to vertex and face)
	Name  string       `json:"name"`
	Props []OProp      `json:"props"`
	Rows  [][][]uint64 `json:"rows"` // per row, per property, the words (one word for a scalar)
}

// VList is a list property declared on the vertex element (the reader reports it as unimplemented).
type VList struct {
	At   int        `json:"at"` // index in VProps before which it is declared
	Ct   string     `json:"ct"`
	Ty   string     `json:"ty"`
	Name string     `json:"name"`
	Vals [][]uint64 `json:"vals"` // per vertex
}
type Spec struct {
	Fmt       string       `json:"fmt"` // ascii | binary_little_endian | binary_big_endian
	VProps    []VProp      `json:"vprops"`
	Verts     [][]uint64   `json:"verts"` // one word per property
	HasFace   bool         `json:"has_face"`
	FProps    []FProp      `json:"fprops"`
	Faces     [][][]uint64 `json:"faces"` // per face, per list property, the words
	CRLF      bool         `json:"crlf"`
	Noise     []Noise      `json:"noise"`
	BodyBlank []int        `json:"body_blank"` // ASCII: body line indices before which an empty line is inserted
	Sep       string       `json:"sep"`
	Lead      bool         `json:"lead"`
	FloatFmt  string       `json:"float_fmt"`         // g | e | f
	Trailer   *Trailer     `json:"trailer,omitempty"` // old replay files: an int element after the faces
	Others    []Other      `json:"others,omitempty"`
	VList     *VList       `json:"vlist,omitempty"`
	Cut       int          `json:"cut,omitempty"` // malformed stream: number of bytes cut from the end
}

// ---------------- reference encoder (PLY specification) ----------------
func size(ty string) int {
	switch ty {
	case "char", "uchar":
		return 1
	case "short", "ushort":
		return 2
	case "int", "uint", "float":
		return 4
	}
	return 8
}

func putWord(out []byte, ty string, w uint64, be bool) []byte {
	n := size(ty)
	buf := make([]byte, 8)
	if be {
		binary.BigEndian.PutUint64(buf, w)
		return append(out, buf[8-n:]...)
	}
	binary.LittleEndian.PutUint64(buf, w)
	return append(out, buf[:n]...)
}

func fmtFloat(v float64, f string) string {
	return strconv.FormatFloat(v, f[0], -1, 64)
}

func wordText(ty string, w uint64, ff string) string {
	switch ty {
	case "uchar", "uint", "ushort":
		return strconv.FormatUint(w, 10)
	case "int":
		return strconv.FormatInt(int64(int32(uint32(w))), 10)
	case "short":
		return strconv.FormatInt(int64(int16(uint16(w))), 10)
	case "char":
		return strconv.FormatInt(int64(int8(uint8(w))), 10)
	case "float":
		return fmtFloat(float64(math.Float32frombits(uint32(w))), ff)
	}
	return fmtFloat(math.Float64frombits(w), ff)
}

func otherHeader(ls []string, s Spec, pos string) []string {
	for _, o := range s.Others {
		if o.Pos != pos {
			continue
		}
		ls = append(ls, fmt.Sprintf("element %s %d", o.Name, len(o.Rows)))
		for _, p := range o.Props {
			if p.Ct != "" {
				ls = append(ls, "property list "+p.Ct+" "+p.Ty+" "+p.Name)
			} else {
				ls = append(ls, "property "+p.Ty+" "+p.Name)
			}
		}
	}
	return ls
}

func headerLines(s Spec) []string {
	ls := []string{"ply", "format " + s.Fmt + " 1.0"}
	ls = otherHeader(ls, s, "before")
	ls = append(ls, fmt.Sprintf("element vertex %d", len(s.Verts)))
	for i, p := range s.VProps {
		if s.VList != nil && s.VList.At == i {
			ls = append(ls, "property list "+s.VList.Ct+" "+s.VList.Ty+" "+s.VList.Name)
		}
		ls = append(ls, "property "+p.Alias+" "+p.Name)
	}
	if s.VList != nil && s.VList.At >= len(s.VProps) {
		ls = append(ls, "property list "+s.VList.Ct+" "+s.VList.Ty+" "+s.VList.Name)
	}
	ls = otherHeader(ls, s, "between")
	if s.HasFace {
		ls = append(ls, fmt.Sprintf("element face %d", len(s.Faces)))
		for _, p := range s.FProps {
			ls = append(ls, "property list "+p.CtAlias+" "+p.LtAlias+" "+p.Name)
		}
	}
	ls = otherHeader(ls, s, "after")
	return append(ls, "end_header")
}

// normalise turns the Trailer of old replay files into an Other element.
func normalise(s *Spec) {
	if s.Trailer != nil {
		o := Other{Pos: "after", Name: s.Trailer.Name}
		for _, p := range s.Trailer.Props {
			o.Props = append(o.Props, OProp{Ty: "int", Name: p})
		}
		for _, r := range s.Trailer.Rows {
			var row [][]uint64
			for _, w := range r {
				row = append(row, []uint64{w})
			}
			o.Rows = append(o.Rows, row)
		}
		s.Others = append(s.Others, o)
		s.Trailer = nil
	}
}

func render(s Spec) []byte {
	normalise(&s)
	nl := "\n"
	if s.CRLF {
		nl = "\r\n"
	}
	var out []byte
	for i, l := range headerLines(s) {
		for _, n := range s.Noise {
			if n.Before == i {
				out = append(out, n.Text+nl...)
			}
		}
		out = append(out, l+nl...)
	}
	ascii := s.Fmt == "ascii"
	be := s.Fmt == "binary_big_endian"
	lineNo := 0
	emit := func(toks []string) {
		for _, b := range s.BodyBlank {
			if b == lineNo {
				out = append(out, nl...)
			}
		}
		lineNo++
		l := strings.Join(toks, s.Sep)
		if s.Lead {
			l = " " + l
		}
		out = append(out, l+nl...)
	}
	// one list (count + items) or scalar
	list := func(toks []string, ct, ty string, ws []uint64) []string {
		if ascii {
			toks = append(toks, strconv.Itoa(len(ws)))
			for _, w := range ws {
				toks = append(toks, wordText(ty, w, s.FloatFmt))
			}
			return toks
		}
		out = putWord(out, ct, uint64(len(ws)), be)
		for _, w := range ws {
			out = putWord(out, ty, w, be)
		}
		return toks
	}
	scalar := func(toks []string, ty string, w uint64) []string {
		if ascii {
			return append(toks, wordText(ty, w, s.FloatFmt))
		}
		out = putWord(out, ty, w, be)
		return toks
	}
	others := func(pos string) {
		for _, o := range s.Others {
			if o.Pos != pos {
				continue
			}
			for _, r := range o.Rows {
				var toks []string
				for j, p := range o.Props {
					if p.Ct != "" {
						toks = list(toks, p.Ct, p.Ty, r[j])
					} else {
						toks = scalar(toks, p.Ty, r[j][0])
					}
				}
				if ascii {
					emit(toks)
				}
			}
		}
	}
	others("before")
	for i, rec := range s.Verts {
		var toks []string
		for j, w := range rec {
			if s.VList != nil && s.VList.At == j {
				toks = list(toks, s.VList.Ct, s.VList.Ty, s.VList.Vals[i])
			}
			toks = scalar(toks, s.VProps[j].Ty, w)
		}
		if s.VList != nil && s.VList.At >= len(rec) {
			toks = list(toks, s.VList.Ct, s.VList.Ty, s.VList.Vals[i])
		}
		if ascii {
			emit(toks)
		}
	}
	others("between")
	for _, f := range s.Faces {
		var toks []string
		for j, ws := range f {
			toks = list(toks, s.FProps[j].Ct, s.FProps[j].Lt, ws)
		}
		if ascii {
			emit(toks)
		}
	}
	others("after")
	if s.Cut > 0 && s.Cut < len(out) {
		out = out[:len(out)-s.Cut]
	}
	return out
}

// ---------------- Coq rendering of the abstract file ----------------
func coqTy(t string) string {
	return map[string]string{"char": "Char", "uchar": "UChar", "short": "Short", "ushort": "UShort",
		"int": "Int", "uint": "UInt", "float": "Float", "double": "Double"}[t]
}
func coqFmt(f string) string {
	return map[string]string{"ascii": "ASCII", "binary_little_endian": "BinLE", "binary_big_endian": "BinBE"}[f]
}
func specCoq(s Spec) string {
	vp := make([]string, len(s.VProps))
	for i, p := range s.VProps {
		vp[i] = fmt.Sprintf("(%s,%s%%string)", coqTy(p.Ty), hx.CoqString(p.Name))
	}
	vs := make([]string, len(s.Verts))
	for i, r := range s.Verts {
		vs[i] = hx.CoqListN(r)
	}
	fp := "None"
	if s.HasFace {
		it := make([]string, len(s.FProps))
		for i, p := range s.FProps {
			it[i] = fmt.Sprintf("(%s,%s,%s%%string)", coqTy(p.Ct), coqTy(p.Lt), hx.CoqString(p.Name))
		}
		fp = "(Some [" + strings.Join(it, ";") + "])"
	}
	fs := make([]string, len(s.Faces))
	for i, f := range s.Faces {
		ls := make([]string, len(f))
		for j, ws := range f {
			ls[j] = hx.CoqListN(ws)
		}
		fs[i] = "[" + strings.Join(ls, ";") + "]"
	}
	return fmt.Sprintf("{| a_fmt := %s; a_vprops := [%s]; a_verts := [%s]; a_fprops := %s; a_faces := [%s] |}",
		coqFmt(s.Fmt), strings.Join(vp, ";"), strings.Join(vs, ";"), fp, strings.Join(fs, ";"))
}

// ---------------- which properties are read through Vector1PropertyReader (known finding key) ----------------
var groups = [][]string{{"x", "y", "z"}, {"px", "py", "pz"}, {"posx", "posy", "posz"}, {"nx", "ny", "nz"},
	{"normalx", "normaly", "normalz"}, {"red", "green", "blue", "alpha"}, {"r", "g", "b", "a"},
	{"diffuse_red", "diffuse_green", "diffuse_blue", "diffuse_alpha"}, {"s", "t"}, {"f_dc_0", "f_dc_1", "f_dc_2"},
	{"scale_0", "scale_1", "scale_2"}, {"rot_0", "rot_1", "rot_2", "rot_3"}}

func commonType(s Spec, ms []string) bool {
	ty := ""
	for _, m := range ms {
		found := false
		for _, p := range s.VProps {
			if p.Name == m {
				found = true
				if ty == "" {
					ty = p.Ty
				} else if ty != p.Ty {
					return false
				}
			}
		}
		if !found {
			return false
		}
	}
	return true
}

// ucharScalars: uchar vertex properties that no vector group takes (they become scalar attributes, or Opacity).
func ucharScalars(s Spec) []string {
	claimed := map[string]bool{}
	for gi, g := range groups {
		ms := g
		if !commonType(s, ms) {
			if gi >= 5 && gi <= 7 && commonType(s, g[:3]) {
				ms = g[:3]
			} else {
				continue
			}
		}
		for _, m := range ms {
			claimed[m] = true
		}
	}
	var out []string
	for _, p := range s.VProps {
		if p.Ty == "uchar" && !claimed[p.Name] {
			out = append(out, p.Name)
		}
	}
	return out
}

// ---------------- generator ----------------
var aliases = map[string][]string{"char": {"char", "int8"}, "uchar": {"uchar", "uint8"}, "short": {"short", "int16"},
	"ushort": {"ushort", "uint16"}, "int": {"int", "int32"}, "uint": {"uint", "uint32"},
	"float": {"float", "float32"}, "double": {"double", "float64"}}
var vtypes = []string{"uchar", "int", "float", "double"}

func genWord(r *hx.Rng, ty string, ascii bool) uint64 {
	switch ty {
	case "uchar":
		return uint64(hx.Pick(r, []int{0, 255, 128, 1, 254, r.Intn(256), r.Intn(256), r.Intn(256)}))
	case "int":
		v := hx.Pick(r, []int64{0, 1, -1, 16777217, -16777217, 2147483647, -2147483648, int64(r.Range(-1000, 1000)),
			int64(int32(uint32(r.U64()))), int64(r.Range(16777217, 33554432))})
		return uint64(uint32(int32(v)))
	case "uint":
		return uint64(hx.Pick(r, []int{0, 1, r.Intn(1 << 20), 1<<31 - 1, r.Intn(1 << 31)}))
	case "char":
		return uint64(hx.Pick(r, []int{0, 1, 127, 128, 255, r.Intn(256)}))
	case "short", "ushort":
		return uint64(hx.Pick(r, []int{0, 1, 255, 256, 32767, 32768, 65535, r.Intn(65536)}))
	case "float":
		switch r.Intn(10) {
		case 0:
			return 0
		case 1:
			return 0x80000000
		case 2:
			return uint64(math.Float32bits(1))
		case 3, 4, 5:
			return uint64(math.Float32bits(float32(r.Range(-1<<20, 1<<20)) / float32(int(1)<<uint(r.Intn(11)))))
		case 6:
			if r.Chance(1, 4) {
				return 0x7f800000 // +Inf
			}
			if r.Chance(1, 3) && !ascii {
				return 0x7fc00000 // NaN: binary only (its text form is not a bit-exact notion)
			}
			return uint64(1 + r.Intn(0x7fffff)) // denormal
		default:
			w := uint32(r.U64())
			if (w>>23)&0xff == 0xff {
				w &^= 1 << 30 // keep it finite
			}
			return uint64(w)
		}
	}
	// double
	switch r.Intn(8) {
	case 0:
		return math.Float64bits(0.1)
	case 1:
		return math.Float64bits(1.0 / 3.0)
	case 2:
		return math.Float64bits(float64(r.Range(-1<<30, 1<<30)))
	case 3:
		return math.Float64bits(16777217)
	case 4:
		return hx.Pick(r, []uint64{0, 1 << 63, 1, math.Float64bits(1e300), math.Float64bits(-2.5e-300)})
	default:
		w := r.U64()
		if (w>>52)&0x7ff == 0x7ff {
			w &^= 1 << 62
		}
		return w
	}
}

// misplaced: also generate elements before vertex / between vertex and face.  Outside the property's quantifier (only
// the vertex and face elements are quantified over); the reader does not read elements in header order, see
// notes/C08.md "observed, outside the quantifier".  Off by default; flag -misplaced for exploration.
var misplaced bool

func genOther(r *hx.Rng, pos string, ascii bool) Other {
	o := Other{Pos: pos, Name: hx.Pick(r, []string{"edge", "material", "camera", "tristrips", "cell"})}
	np := r.Range(1, 3)
	for j := 0; j < np; j++ {
		p := OProp{Ty: hx.Pick(r, []string{"int", "float", "uchar", "double", "short", "uint"}), Name: fmt.Sprintf("%s_%d", hx.Pick(r, []string{"a", "vertex1", "red", "x", "vertex_indices"}), j)}
		if r.Chance(1, 3) {
			p.Ct = hx.Pick(r, []string{"uchar", "int", "ushort"})
		}
		o.Props = append(o.Props, p)
	}
	for k := r.Intn(4); k > 0; k-- {
		var row [][]uint64
		for _, p := range o.Props {
			n := 1
			if p.Ct != "" {
				n = r.Intn(4)
			}
			var ws []uint64
			for ; n > 0; n-- {
				ws = append(ws, genWord(r, p.Ty, ascii))
			}
			row = append(row, ws)
		}
		o.Rows = append(o.Rows, row)
	}
	return o
}

type grp struct {
	names   []string
	natural string
}

func genSpec(r *hx.Rng) Spec {
	s := Spec{Fmt: hx.Pick(r, []string{"ascii", "binary_little_endian", "binary_big_endian"}),
		Sep: hx.Pick(r, []string{" ", " ", "  ", "\t"}), Lead: r.Chance(1, 8), FloatFmt: hx.Pick(r, []string{"g", "g", "e", "f"})}
	ascii := s.Fmt == "ascii"
	var gs []grp
	if r.Chance(9, 10) {
		gs = append(gs, grp{hx.Pick(r, [][]string{{"x", "y", "z"}, {"x", "y", "z"}, {"px", "py", "pz"}, {"posx", "posy", "posz"}}), "float"})
	}
	if r.Chance(1, 12) && (len(gs) == 0 || gs[0].names[0] != "px") {
		gs = append(gs, grp{[]string{"px", "py", "pz"}, "float"}) // a second position group: the later reader wins
	}
	if r.Chance(1, 2) {
		gs = append(gs, grp{hx.Pick(r, [][]string{{"nx", "ny", "nz"}, {"normalx", "normaly", "normalz"}}), "float"})
	}
	if r.Chance(1, 2) {
		c := hx.Pick(r, [][]string{{"red", "green", "blue", "alpha"}, {"r", "g", "b", "a"}, {"diffuse_red", "diffuse_green", "diffuse_blue", "diffuse_alpha"}})
		if r.Chance(1, 2) {
			c = c[:3]
		}
		gs = append(gs, grp{c, "uchar"})
	}
	if r.Chance(1, 4) {
		gs = append(gs, grp{[]string{"s", "t"}, "float"})
	}
	if r.Chance(1, 6) {
		gs = append(gs, grp{[]string{"f_dc_0", "f_dc_1", "f_dc_2"}, "float"})
	}
	if r.Chance(1, 6) {
		gs = append(gs, grp{[]string{"opacity"}, "float"})
	}
	if r.Chance(1, 6) {
		gs = append(gs, grp{[]string{"scale_0", "scale_1", "scale_2"}, "float"})
	}
	if r.Chance(1, 6) {
		gs = append(gs, grp{[]string{"rot_0", "rot_1", "rot_2", "rot_3"}, "float"})
	}
	extras := []string{"confidence", "intensity", "quality", "flags", "material_index", "value", "radius", "label", "u", "v", "w", "X", "Red", "f_rest_0", "scalar_Intensity"}
	for _, k := range r.Perm(len(extras))[:r.Intn(4)] {
		gs = append(gs, grp{[]string{extras[k]}, hx.Pick(r, []string{"float", "float", "int", "double", "uchar"})})
	}
	var blocks [][]VProp
	for _, g := range gs {
		ty := g.natural
		if r.Chance(2, 5) {
			ty = hx.Pick(r, vtypes)
		}
		if ty == "uchar" && len(g.names) == 1 && !r.Chance(1, 3) {
			ty = "float" // keep the known-finding cases (uchar scalars) a small share
		}
		names := append([]string(nil), g.names...)
		var blk []VProp
		odd := -1
		if len(names) > 1 && r.Chance(1, 6) {
			odd = r.Intn(len(names)) // one member with another type: the group is not a vector any more (or alpha drops out)
		}
		if len(names) > 1 && r.Chance(1, 10) {
			k := r.Intn(len(names)) // one member missing
			names = append(names[:k], names[k+1:]...)
			odd = -1
		}
		for i, n := range names {
			t := ty
			if i == odd {
				for t == ty {
					t = hx.Pick(r, vtypes)
				}
			}
			blk = append(blk, VProp{Ty: t, Name: n})
		}
		blocks = append(blocks, blk)
	}
	if r.Chance(1, 2) {
		for _, k := range r.Perm(len(blocks)) {
			s.VProps = append(s.VProps, blocks[k]...)
		}
	} else {
		var all []VProp
		for _, b := range blocks {
			all = append(all, b...)
		}
		for _, k := range r.Perm(len(all)) {
			s.VProps = append(s.VProps, all[k])
		}
	}
	if len(s.VProps) > 14 {
		s.VProps = s.VProps[:14]
	}
	for want := hx.Pick(r, []int{3, 3, 5, 8, 11, 14}); len(s.VProps) < want; {
		k := r.Intn(len(s.VProps) + 1)
		np := VProp{Ty: hx.Pick(r, []string{"float", "float", "int", "double", "uchar"}), Name: fmt.Sprintf("extra_%d", len(s.VProps))}
		if np.Ty == "uchar" && !r.Chance(1, 3) {
			np.Ty = "float"
		}
		s.VProps = append(s.VProps[:k], append([]VProp{np}, s.VProps[k:]...)...)
	}
	// uchar s/t texture coordinates are generated: vector2.DivByConstant multiplies by 1/255 where every other reader
	// divides by 255; Check/C08.v translates the implementation's TexCoord values through Formats/PlyReadV2.v
	// names are distinct (a file with two properties of one name describes nothing definite)
	seen := map[string]bool{}
	for i := range s.VProps {
		for seen[s.VProps[i].Name] {
			s.VProps[i].Name += "_"
		}
		seen[s.VProps[i].Name] = true
	}
	// types outside the property's quantifier (char, short, ushort, uint) on a small share of the files
	if r.Chance(1, 20) {
		for k := 1 + r.Intn(2); k > 0; k-- {
			s.VProps[r.Intn(len(s.VProps))].Ty = hx.Pick(r, []string{"char", "short", "ushort", "uint"})
		}
	}
	for i := range s.VProps {
		s.VProps[i].Alias = hx.Pick(r, aliases[s.VProps[i].Ty])
	}
	nv := r.Range(0, 6)
	for i := 0; i < nv; i++ {
		rec := make([]uint64, len(s.VProps))
		for j, p := range s.VProps {
			rec[j] = genWord(r, p.Ty, ascii)
		}
		s.Verts = append(s.Verts, rec)
	}
	if r.Chance(13, 20) {
		s.HasFace = true
		ip := FProp{Ct: hx.Pick(r, []string{"uchar", "uchar", "int", "uint"}), Lt: hx.Pick(r, []string{"int", "uint"}),
			Name: hx.Pick(r, []string{"vertex_indices", "vertex_indices", "vertex_index"})}
		if r.Chance(1, 50) {
			ip.Ct = hx.Pick(r, []string{"ushort", "char", "short"})
		}
		if r.Chance(1, 50) {
			ip.Lt = hx.Pick(r, []string{"uchar", "short", "ushort"})
		}
		s.FProps = []FProp{ip}
		tex := r.Chance(1, 4)
		if tex {
			tp := FProp{Ct: hx.Pick(r, []string{"uchar", "uchar", "int"}), Lt: hx.Pick(r, []string{"float", "float", "double"}), Name: "texcoord"}
			if r.Chance(1, 4) {
				s.FProps = []FProp{tp, ip}
			} else {
				s.FProps = append(s.FProps, tp)
			}
		}
		if r.Chance(1, 6) {
			ex := FProp{Ct: "uchar", Lt: hx.Pick(r, []string{"uchar", "int", "float", "short"}), Name: hx.Pick(r, []string{"flags", "material", "edge_ids"})}
			k := r.Intn(len(s.FProps) + 1)
			s.FProps = append(s.FProps[:k], append([]FProp{ex}, s.FProps[k:]...)...)
		}
		for i := range s.FProps {
			s.FProps[i].CtAlias = hx.Pick(r, aliases[s.FProps[i].Ct])
			s.FProps[i].LtAlias = hx.Pick(r, aliases[s.FProps[i].Lt])
		}
		nf := 0
		if nv > 0 {
			nf = r.Range(0, 5)
		}
		quads := r.Intn(3)      // 0: triangles only, 1: mixed, 2: quads only
		ngon := r.Chance(1, 30) // the last face is not a triangle or quad (outside the property: reported)
		for f := 0; f < nf; f++ {
			pts := 3
			if quads == 2 || (quads == 1 && r.Bool()) {
				pts = 4
			}
			if ngon && f == nf-1 {
				pts = hx.Pick(r, []int{5, 6, 2, 9})
			}
			var face [][]uint64
			for _, p := range s.FProps {
				var ws []uint64
				switch p.Name {
				case "vertex_indices", "vertex_index":
					for k := 0; k < pts; k++ {
						ws = append(ws, uint64(r.Intn(nv)))
					}
				case "texcoord":
					for k := 0; k < 2*pts; k++ {
						v := float64(r.Intn(1025)) / 1024
						if p.Lt == "float" {
							ws = append(ws, uint64(math.Float32bits(float32(v))))
						} else {
							ws = append(ws, math.Float64bits(v+float64(r.Intn(3))/3))
						}
					}
				default:
					for k := r.Intn(4); k > 0; k-- {
						switch p.Lt {
						case "float":
							ws = append(ws, genWord(r, "float", true)&0x7fffffff)
						case "int":
							ws = append(ws, genWord(r, "int", true))
						case "short":
							ws = append(ws, uint64(r.Intn(32768))) // non-negative as a short
						default:
							ws = append(ws, uint64(r.Intn(256)))
						}
					}
				}
				face = append(face, ws)
			}
			s.Faces = append(s.Faces, face)
		}
	}
	// a face soup: as many vertex records as face corners (3 per triangle, 6 per quad), faces in any order
	if s.HasFace && len(s.Faces) > 0 && r.Chance(1, 4) {
		corners, in := 0, true
		for _, f := range s.Faces {
			for j, ws := range f {
				if n := s.FProps[j].Name; n == "vertex_indices" || n == "vertex_index" {
					switch len(ws) {
					case 3:
						corners += 3
					case 4:
						corners += 6
					default:
						in = false
					}
				}
			}
		}
		if in && corners <= 18 {
			s.Verts = nil
			for i := 0; i < corners; i++ {
				rec := make([]uint64, len(s.VProps))
				for j, p := range s.VProps {
					rec[j] = genWord(r, p.Ty, ascii)
				}
				s.Verts = append(s.Verts, rec)
			}
			perm := r.Perm(corners)
			k := 0
			for _, f := range s.Faces {
				for j := range f {
					if n := s.FProps[j].Name; n == "vertex_indices" || n == "vertex_index" {
						for m := range f[j] {
							f[j][m] = uint64(perm[k%corners])
							k++
						}
					}
				}
			}
		}
	}
	// noise
	s.CRLF = r.Chance(1, 4)
	nlines := len(headerLines(s))
	texts := []string{"comment made by a reference encoder", "comment", "obj_info scanner 3 passes", "comment property float x",
		"comment element vertex 12", "", "obj_info", "comment TextureFile tex.png", "comment   spaced   out  ", "obj_info end_header not yet"}
	for k := r.Intn(5); k > 0; k-- {
		s.Noise = append(s.Noise, Noise{Before: r.Range(2, nlines-1), Text: hx.Pick(r, texts)})
	}
	if r.Chance(1, 15) {
		s.Noise = append(s.Noise, Noise{Before: 1, Text: ""}) // a blank line between the magic number and the format line
	}
	if ascii {
		total := len(s.Verts) + len(s.Faces)
		for k := r.Intn(3); k > 0 && total > 0; k-- {
			s.BodyBlank = append(s.BodyBlank, r.Intn(total))
		}
	}
	// elements the reader has no use for
	if r.Chance(1, 5) {
		for k := 1 + r.Intn(2); k > 0; k-- {
			pos := "after"
			if misplaced && r.Chance(1, 2) {
				pos = hx.Pick(r, []string{"before", "between"})
			}
			s.Others = append(s.Others, genOther(r, pos, ascii))
		}
	}
	// a list property on the vertex element (outside the property: reported as unimplemented)
	if r.Chance(1, 40) {
		vl := &VList{At: r.Intn(len(s.VProps) + 1), Ct: "uchar", Ty: hx.Pick(r, []string{"int", "float", "uchar"}), Name: "neighbours"}
		for range s.Verts {
			var ws []uint64
			for k := r.Intn(4); k > 0; k-- {
				ws = append(ws, genWord(r, vl.Ty, ascii)&0x7fffffff)
			}
			vl.Vals = append(vl.Vals, ws)
		}
		s.VList = vl
	}
	return s
}

// ---------------- cases ----------------
// outside: why the file is outside the property's quantifier ("" when inside).
func outside(s Spec) string {
	for _, p := range s.VProps {
		switch p.Ty {
		case "uchar", "int", "float", "double":
		default:
			return "vertex property of type " + p.Ty
		}
	}
	if s.VList != nil {
		return "list property on the vertex element"
	}
	for _, p := range s.FProps {
		switch p.Ct {
		case "uchar", "int", "uint":
		default:
			return "list count type " + p.Ct
		}
		if p.Name == "vertex_indices" || p.Name == "vertex_index" {
			if p.Lt != "int" && p.Lt != "uint" {
				return "index type " + p.Lt
			}
		}
		if p.Name == "texcoord" && p.Lt != "float" && p.Lt != "double" {
			return "texcoord type " + p.Lt
		}
	}
	for _, f := range s.Faces {
		for j, ws := range f {
			n := s.FProps[j].Name
			if (n == "vertex_indices" || n == "vertex_index") && len(ws) != 3 && len(ws) != 4 {
				return fmt.Sprintf("face with %d corners", len(ws))
			}
		}
	}
	return ""
}

// misplacedRows: another element with records stands before the vertex records or between vertex and face records.
func misplacedRows(s Spec) (any, harmful bool) {
	for _, o := range s.Others {
		if o.Pos == "before" || o.Pos == "between" {
			any = true
			if len(o.Rows) > 0 && (o.Pos == "before" || s.HasFace) {
				harmful = true
			}
		}
	}
	return
}

const keyUcharRaw = "ply:ascii-uchar-scalar-raw"

func specCase(s Spec, kind string) hx.Case {
	normalise(&s)
	data := render(s)
	out := plyx.SafeRead(data)
	c := specCaseOut(s, kind, data, out)
	if otherPaths && c.GoFail == "" && s.Cut == 0 {
		if diff := plyx.OtherPaths(data, out, tmpDir); diff != "" {
			c.GoFail = "the same bytes load differently through " + diff
			c.FailKey = "ply:read-path"
		}
	}
	return c
}

// otherPaths: also read the file through a reader with short reads, ply.Load and the ReadNode wrapper (set for the fixed
// streams, every fourth generated file and every formula file)
var otherPaths bool
var thoroughTier bool
var tmpDir string

// malformed: headers and bodies that do not follow the specification, or use what the reader does not implement (model
// against implementation only: the reader must report them as the model says, and come back)
var malformed = []string{
	"ply\nformat ascii 2.0\nelement vertex 0\nproperty float x\nend_header\n",
	"ply\nformat binary 1.0\nelement vertex 0\nproperty float x\nend_header\n",
	"ply\nformat ascii\nelement vertex 0\nproperty float x\nend_header\n",
	"plyx\nformat ascii 1.0\nelement vertex 0\nproperty float x\nend_header\n",
	"ply\nformat ascii 1.0\nelement vertex\nproperty float x\nend_header\n",
	"ply\nformat ascii 1.0\nelement vertex many\nproperty float x\nend_header\n",
	"ply\nformat ascii 1.0\nelement vertex 0\nproperty float\nend_header\n",
	"ply\nformat ascii 1.0\nelement vertex 0\nproperty list uchar x\nend_header\n",
	"ply\nformat ascii 1.0\nproperty float x\nelement vertex 0\nend_header\n",
	"ply\nformat ascii 1.0\nelement vertex 0\nproperty floot x\nend_header\n",
	"ply\nformat ascii 1.0\nelement face 0\nproperty list uchar int vertex_indices\nend_header\n",
	"ply\nformat ascii 1.0\nelement vertex 1\nproperty float x\nelement face 1\nproperty int flags\nproperty list uchar int vertex_indices\nend_header\n1\n0 3 0 0 0\n",
	"ply\nformat ascii 1.0\nelement vertex 1\nproperty float x\nelement face 1\nproperty list uchar int corners\nend_header\n1\n3 0 0 0\n",
	"ply\nformat ascii 1.0\nelement vertex 1\nproperty float x\nproperty float y\nproperty float z\nend_header\n1 abc 3\n",
	"ply\nformat ascii 1.0\nelement vertex 1\nproperty float x\nelement face 1\nproperty list uchar int vertex_indices\nend_header\n1\nthree 0 0 0\n",
	"ply\nformat ascii 1.0\nelement vertex 1\nproperty float x\nelement face 1\nproperty list uchar int vertex_indices\nend_header\n1\n3 0 zero 0\n",
	"ply\nformat ascii 1.0\nelement vertex 1\nproperty short x\nproperty short y\nproperty short z\nend_header\n1 2 3\n",
	"ply\nformat binary_little_endian 1.0\nelement vertex 1\nproperty short x\nproperty short y\nproperty short z\nend_header\n\x01\x00\x02\x00\x03\x00",
	"ply\nformat binary_big_endian 1.0\nelement vertex 1\nproperty ushort s\nproperty ushort t\nend_header\n\x00\x01\x00\x02",
	"ply\nformat binary_little_endian 1.0\nelement vertex 1\nproperty uint r\nproperty uint g\nproperty uint b\nproperty uint a\nend_header\n\x01\x00\x00\x00\x02\x00\x00\x00\x03\x00\x00\x00\x04\x00\x00\x00",
	"ply\nformat binary_little_endian 1.0\nelement vertex 3\nproperty uchar q\nelement face 1\nproperty list uchar int vertex_indices\nproperty list uchar int texcoord\nend_header\n\x01\x02\x03\x03\x00\x00\x00\x00\x01\x00\x00\x00\x02\x00\x00\x00\x06\x01\x00\x00\x00\x02\x00\x00\x00\x03\x00\x00\x00\x04\x00\x00\x00\x05\x00\x00\x00\x06\x00\x00\x00",
	"ply\nformat ascii 1.0\nelement vertex 1\nproperty float x\nelement vertex 2\nproperty float y\nend_header\n1\n2\n",
	"ply\n\n\nformat ascii 1.0\nelement vertex 1\nproperty float x\nend_header\n1\n",
}

type RawDesc struct {
	Raw string `json:"raw"`
}

func rawCase(d RawDesc, kind string) hx.Case {
	data := []byte(d.Raw)
	out := plyx.SafeRead(data)
	c := hx.Case{Kind: kind, Desc: d}
	sum := sha1.Sum(data)
	c.Key = hex.EncodeToString(sum[:])
	file, ok := plyx.FileCoq(data)
	if !ok {
		c.Coq = "CRaw {| pf_header := []; pf_body := BodyBin [] |} ODeclared"
		return c
	}
	c.Coq = fmt.Sprintf("CRaw %s %s", file, plyx.OutcomeCoq(out))
	if out.Class == "hang" {
		c.GoFail = "ReadMesh does not come back on a malformed file"
		c.FailKey = "ply:read-hang"
	}
	return c
}

// specCaseOut: the case for abstract file s, rendered as data, on which the implementation came back with out.
func specCaseOut(s Spec, kind string, data []byte, out plyx.Outcome) hx.Case {
	c := hx.Case{Kind: kind, Desc: s}
	if os.Getenv("VERIF_DEBUG") != "" {
		fmt.Fprintf(os.Stderr, "%s: %s %s\n", kind, out.Class, out.Msg)
	}
	file, ok := plyx.FileCoq(data)
	sum := sha1.Sum(data)
	c.Key = hex.EncodeToString(sum[:])
	if !ok {
		c.Coq = "CRaw {| pf_header := []; pf_body := BodyBin [] |} ODeclared"
		return c
	}
	if s.Cut > 0 {
		c.Coq = fmt.Sprintf("CRaw %s %s", file, plyx.OutcomeCoq(out))
		c.Nontriv = true
		return c
	}
	if why := outside(s); why != "" {
		// outside the quantifier: model against implementation only; a hang is still a failure
		c.Kind = "outside"
		c.Coq = fmt.Sprintf("CRaw %s %s", file, plyx.OutcomeCoq(out))
		c.Nontriv = len(s.Verts) >= 1
		if out.Class == "hang" || out.Class == "crash" {
			c.GoFail = "ReadMesh on a file with a " + why + ": " + out.Class + ": " + out.Msg
			c.FailKey = "ply:read-" + out.Class
		}
		return c
	}
	any, harmful := misplacedRows(s)
	ctor := "CSpec"
	if any {
		ctor = "CElems"
	}
	c.Coq = fmt.Sprintf("%s %s\n %s\n %s", ctor, specCoq(s), file, plyx.OutcomeCoq(out))
	if harmful {
		c.Coq = fmt.Sprintf("CMisplaced %s\n %s", specCoq(s), plyx.OutcomeCoq(out))
	}
	c.Nontriv = len(s.Verts) >= 1 && len(s.VProps) >= 3
	if harmful {
		c.Kind = "outside"
	} else if s.Fmt == "ascii" && len(s.Verts) > 0 && len(ucharScalars(s)) > 0 {
		c.FailKey = keyUcharRaw
	}
	if out.Class == "hang" || out.Class == "crash" {
		c.GoFail = "ReadMesh on a specification-conformant file: " + out.Class + ": " + out.Msg
		if c.FailKey == "" {
			c.FailKey = "ply:read-" + out.Class
		}
	}
	return c
}

// Pair: two files read one after the other through the package-level reader.  "retained": the mesh returned for the
// first file is rendered only after the second file has been read (a result must not live in storage the next call
// reuses); "again": the first file is read once more after the second (nothing of one call may carry over into the next).
// Either way the case is the first file with that outcome, judged in Coq like every other file.
type Pair struct {
	First  Spec   `json:"first"`
	Second Spec   `json:"second"`
	Mode   string `json:"mode"` // retained | again | after ("after": the case is the second file, read after the first)
}

// revalued: the same layout and record count with other vertex values.
func revalued(s Spec, r *hx.Rng) Spec {
	t := s
	t.Verts = nil
	for range s.Verts {
		rec := make([]uint64, len(s.VProps))
		for j, p := range s.VProps {
			rec[j] = genWord(r, p.Ty, s.Fmt == "ascii")
		}
		t.Verts = append(t.Verts, rec)
	}
	return t
}

// retyped: the same file with other types under the same property names and in the same order (what a reader might
// wrongly remember from one call to the next: sizes, offsets, types keyed by name).
func retyped(s Spec, r *hx.Rng) Spec {
	t := s
	t.VProps = append([]VProp(nil), s.VProps...)
	t.Verts = nil
	ascii := s.Fmt == "ascii"
	for i := range t.VProps {
		ty := hx.Pick(r, []string{"float", "double", "int", "float", "double"})
		if ty == t.VProps[i].Ty {
			ty = map[string]string{"float": "double", "double": "float", "int": "double"}[ty]
		}
		t.VProps[i].Ty = ty
		t.VProps[i].Alias = hx.Pick(r, aliases[ty])
	}
	// groups stay type-uniform: every member takes the type of the group's first declared member
	for _, g := range groups {
		first := ""
		for i := range t.VProps {
			for _, m := range g {
				if t.VProps[i].Name == m {
					if first == "" {
						first = t.VProps[i].Ty
					}
					t.VProps[i].Ty = first
					t.VProps[i].Alias = first
				}
			}
		}
	}
	for range s.Verts {
		rec := make([]uint64, len(t.VProps))
		for j, p := range t.VProps {
			rec[j] = genWord(r, p.Ty, ascii)
		}
		t.Verts = append(t.Verts, rec)
	}
	return t
}

func pairCase(p Pair) hx.Case {
	normalise(&p.First)
	normalise(&p.Second)
	d1, d2 := render(p.First), render(p.Second)
	out := plyx.SafeRead(d1)
	out2 := plyx.SafeRead(d2)
	if p.Mode == "again" {
		out = plyx.SafeRead(d1)
	}
	if p.Mode == "after" {
		c := specCaseOut(p.Second, p.Mode, d2, out2)
		c.Desc = p
		c.Key = p.Mode + ":" + c.Key
		return c
	}
	c := specCaseOut(p.First, p.Mode, d1, out)
	c.Desc = p
	c.Key = p.Mode + ":" + c.Key
	return c
}

// Concurrent: the files are read one after the other, then all at once from goroutines of their own (ply.ReadMesh goes
// through one package-level reader value); every concurrent result must be the sequential one.
type Concurrent struct {
	Specs  []Spec `json:"concurrent"`
	Rounds int    `json:"rounds"`
}

func concurrentCase(cc Concurrent) hx.Case {
	c := hx.Case{Kind: "concurrent", Desc: cc, Nontriv: true, Coq: "CRaw {| pf_header := []; pf_body := BodyBin [] |} ODeclared"}
	datas := make([][]byte, len(cc.Specs))
	want := make([]string, len(cc.Specs))
	h := sha1.New()
	render1 := func(o plyx.Outcome) string {
		if o.Class != "mesh" {
			return o.Class
		}
		m, _ := plyx.MeshCoq(o.Mesh)
		return m
	}
	for i, s := range cc.Specs {
		normalise(&s)
		datas[i] = render(s)
		h.Write(datas[i])
		want[i] = render1(plyx.SafeRead(datas[i]))
	}
	c.Key = "concurrent:" + hex.EncodeToString(h.Sum(nil))
	for round := 0; round < cc.Rounds && c.GoFail == ""; round++ {
		got := make([]string, len(datas))
		done := make(chan int, len(datas))
		for i := range datas {
			go func(i int) {
				got[i] = render1(plyx.SafeRead(datas[i]))
				done <- i
			}(i)
		}
		for range datas {
			<-done
		}
		for i := range datas {
			if got[i] != want[i] {
				c.GoFail = fmt.Sprintf("file %d of %d loads differently when the files are read concurrently (round %d)", i, len(datas), round)
				c.FailKey = "ply:read-concurrent"
				break
			}
		}
	}
	return c
}

// headerCase: the header bytes as given to polyform and the fields per line found by the independent tokenizer; the
// Coq model of readLine + strings.Fields (Formats/PlyText.v) must find the same.
func headerCase(s Spec) (hx.Case, bool) {
	data := render(s)
	hdr, _, body, ok := plyx.Split(data)
	if !ok {
		return hx.Case{}, false
	}
	text := data[:len(data)-len(body)]
	lines := make([]string, len(hdr))
	for i, l := range hdr {
		fs := make([]string, len(l))
		for j, f := range l {
			fs[j] = hx.CoqString(f)
		}
		lines[i] = "[" + strings.Join(fs, ";") + "]%string"
	}
	sum := sha1.Sum(text)
	return hx.Case{Kind: "header", Desc: s, Key: "hdr:" + hex.EncodeToString(sum[:]),
		Coq: fmt.Sprintf("CHeader %s\n [%s]", hx.CoqListN(text), strings.Join(lines, ";"))}, true
}

func vp(ty, name string) VProp { return VProp{Ty: ty, Name: name, Alias: ty} }
func f32(x float32) uint64     { return uint64(math.Float32bits(x)) }

// ---------------- systematic streams (every run, independent of the seed) ----------------
// S1 every recognised group with its members permuted and unrelated properties of other sizes between them;
// S2 quads and triangles with repeated indices in every position; S3 lone / partial / type-mixed group members as
// extra properties; S4 alpha before / between / after the colour channels with the same or another type.
var sysGroups = []grp{
	{[]string{"x", "y", "z"}, "float"}, {[]string{"px", "py", "pz"}, "float"}, {[]string{"posx", "posy", "posz"}, "double"},
	{[]string{"nx", "ny", "nz"}, "float"}, {[]string{"normalx", "normaly", "normalz"}, "int"},
	{[]string{"red", "green", "blue", "alpha"}, "uchar"}, {[]string{"r", "g", "b", "a"}, "uchar"},
	{[]string{"diffuse_red", "diffuse_green", "diffuse_blue", "diffuse_alpha"}, "uchar"},
	{[]string{"s", "t"}, "float"}, {[]string{"s", "t"}, "uchar"}, {[]string{"f_dc_0", "f_dc_1", "f_dc_2"}, "float"},
	{[]string{"opacity"}, "float"}, {[]string{"scale_0", "scale_1", "scale_2"}, "double"},
	{[]string{"rot_0", "rot_1", "rot_2", "rot_3"}, "float"},
}

func sysSpec(f string, props []VProp, r *hx.Rng, nv int) Spec {
	s := Spec{Fmt: f, Sep: " ", FloatFmt: "g", VProps: props}
	for i := range s.VProps {
		if s.VProps[i].Alias == "" {
			s.VProps[i].Alias = s.VProps[i].Ty
		}
	}
	for i := 0; i < nv; i++ {
		rec := make([]uint64, len(props))
		for j, p := range props {
			rec[j] = genWord(r, p.Ty, f == "ascii")
		}
		s.Verts = append(s.Verts, rec)
	}
	return s
}

func systematic() []Spec {
	r := hx.NewRng(0xC08)
	var out []Spec
	fmts := []string{"ascii", "binary_little_endian", "binary_big_endian"}
	for fi, f := range fmts {
		// between the members: other sizes than the group's (a uchar only in binary files: in ascii files an unclaimed
		// uchar is the known finding)
		fill := []VProp{vp("double", "confidence"), vp("int", "label"), vp("double", "w0"), vp("int", "flags"), vp("float", "quality")}
		if f != "ascii" {
			fill[1] = vp("uchar", "label")
			fill[3] = vp("uchar", "flags")
		}
		// S1
		for gi, g := range sysGroups {
			n := len(g.names)
			order := make([]int, n)
			for k := range order {
				switch (gi + fi) % 3 {
				case 0:
					order[k] = n - 1 - k // reversed
				case 1:
					order[k] = (k + 1) % n // rotated
				default:
					order[k] = (k + n - 1) % n
				}
			}
			props := []VProp{fill[0]}
			for k, o := range order {
				props = append(props, vp(g.natural, g.names[o]), fill[(k+1)%len(fill)])
			}
			// distinct filler names
			seen := map[string]int{}
			for i := range props {
				if c := seen[props[i].Name]; c > 0 {
					props[i].Name = fmt.Sprintf("%s_%d", props[i].Name, c)
				}
				seen[props[i].Name]++
			}
			out = append(out, sysSpec(f, props, r, 2))
		}
		// every byte value through the uchar Vector2 (s, t) reader and a uchar Vector3 reader
		if f != "binary_big_endian" {
			all := sysSpec(f, []VProp{vp("uchar", "t"), vp("float", "x"), vp("uchar", "nz"), vp("uchar", "s"), vp("uchar", "nx"), vp("uchar", "ny")}, r, 0)
			for b := uint64(0); b < 256; b++ {
				all.Verts = append(all.Verts, []uint64{255 - b, uint64(math.Float32bits(float32(b))), b, b, (b * 7) % 256, (b * 13) % 256})
			}
			out = append(out, all)
			// ... and through the uchar Vector4 reader (colour with alpha); the ascii twin only in thorough runs
			if f != "ascii" || thoroughTier {
				rgba := sysSpec(f, []VProp{vp("uchar", "alpha"), vp("uchar", "blue"), vp("float", "x"), vp("uchar", "red"), vp("uchar", "green")}, r, 0)
				for b := uint64(0); b < 256; b++ {
					rgba.Verts = append(rgba.Verts, []uint64{b, 255 - b, uint64(math.Float32bits(float32(b))), (b * 7) % 256, (b * 13) % 256})
				}
				out = append(out, rgba)
			}
		}
		// S2
		xyz := []VProp{vp("float", "x"), vp("float", "y"), vp("float", "z")}
		s2 := sysSpec(f, xyz, r, 4)
		s2.HasFace = true
		s2.FProps = []FProp{{Ct: "uchar", Lt: "int", Name: "vertex_indices", CtAlias: "uchar", LtAlias: "int"}}
		for _, q := range [][]uint64{{0, 1, 2, 2}, {0, 1, 2, 0}, {0, 1, 1, 3}, {0, 0, 2, 3}, {0, 1, 0, 3}, {0, 1, 2, 1}, {3, 3, 3, 3},
			{1, 2, 3, 3}, {2, 2, 2, 1}, {0, 0, 1}, {1, 0, 0}, {2, 1, 2}, {3, 3, 3}, {0, 1, 2, 3}} {
			s2.Faces = append(s2.Faces, [][]uint64{q})
		}
		out = append(out, s2)
		// S2b the same degenerate quads with per-corner texture coordinates
		s2b := sysSpec(f, xyz, r, 4)
		s2b.HasFace = true
		s2b.FProps = []FProp{{Ct: "uchar", Lt: "float", Name: "texcoord", CtAlias: "uchar", LtAlias: "float"},
			{Ct: "int", Lt: "uint", Name: "vertex_index", CtAlias: "int", LtAlias: "uint"}}
		for qi, q := range [][]uint64{{0, 1, 2, 2}, {0, 1, 2, 0}, {3, 3, 3, 3}, {0, 1, 1, 3}, {2, 1, 0}, {0, 1, 2, 3}} {
			var uv []uint64
			for k := 0; k < 2*len(q); k++ {
				uv = append(uv, uint64(math.Float32bits(float32(qi*8+k)/64)))
			}
			s2b.Faces = append(s2b.Faces, [][]uint64{uv, q})
		}
		out = append(out, s2b)
		// S5 float triples whose first and last member are 8 bytes apart with the middle member elsewhere
		for gi, g := range [][]string{{"x", "y", "z"}, {"px", "py", "pz"}, {"nx", "ny", "nz"}, {"f_dc_0", "f_dc_1", "f_dc_2"}, {"scale_0", "scale_1", "scale_2"}} {
			four := []VProp{vp("float", "confidence")}
			if gi%2 == 1 {
				four = []VProp{vp("int", "label")}
			}
			if gi == 2 && f != "ascii" {
				four = []VProp{vp("uchar", "c0"), vp("uchar", "c1"), vp("uchar", "c2"), vp("uchar", "c3")}
			}
			a := append(append([]VProp{vp("float", g[0])}, four...), vp("float", g[2]), vp("float", g[1]))
			b := append(append([]VProp{vp("float", g[1]), vp("float", g[0])}, four...), vp("float", g[2]), vp("double", "time"))
			out = append(out, sysSpec(f, a, r, 2), sysSpec(f, b, r, 2))
		}
		// S3
		lone := append(append([]VProp(nil), xyz...), vp("float", "t"), vp("float", "alpha"), vp("float", "nx"), vp("int", "b"),
			vp("double", "rot_2"), vp("float", "scale_1"), vp("float", "pz"), vp("int", "f_dc_1"))
		partial := append(append([]VProp(nil), xyz...), vp("float", "nx"), vp("float", "ny"), vp("int", "green"), vp("int", "red"),
			vp("float", "rot_0"), vp("float", "rot_1"), vp("float", "rot_2"), vp("double", "scale_0"), vp("double", "scale_2"), vp("float", "s"))
		mixed := []VProp{vp("float", "x"), vp("float", "y"), vp("double", "z"), vp("float", "nx"), vp("float", "ny"), vp("int", "nz"),
			vp("float", "s"), vp("double", "t"), vp("int", "red"), vp("int", "green"), vp("float", "blue"), vp("double", "posz"),
			vp("float", "posx"), vp("float", "posy")}
		if f != "ascii" {
			lone = append(lone, vp("uchar", "g"))
			partial = append(partial, vp("uchar", "diffuse_blue"), vp("uchar", "diffuse_red"))
			mixed = append(mixed, vp("uchar", "r"), vp("uchar", "g"), vp("float", "b"))
		}
		out = append(out, sysSpec(f, lone, r, 2), sysSpec(f, partial, r, 2), sysSpec(f, mixed, r, 2))
		// property names are case-sensitive: X, Red, NX ... are no members of any group
		cased := append(append([]VProp(nil), xyz...), vp("float", "X"), vp("float", "Y"), vp("float", "Z"), vp("int", "Red"), vp("int", "Green"),
			vp("int", "Blue"), vp("float", "NX"), vp("double", "Opacity"), vp("float", "S"), vp("float", "T"))
		out = append(out, sysSpec(f, cased, r, 2))
		// CRLF line ends throughout, blank lines (then "\r\n" alone) before, inside and after the vertex and face blocks
		crlf := sysSpec(f, append(append([]VProp(nil), xyz...), vp("int", "id")), r, 3)
		crlf.CRLF = true
		crlf.HasFace = true
		crlf.FProps = []FProp{{Ct: "uchar", Lt: "int", Name: "vertex_indices", CtAlias: "uchar", LtAlias: "int"},
			{Ct: "uchar", Lt: "float", Name: "texcoord", CtAlias: "uchar", LtAlias: "float"}}
		crlf.Faces = [][][]uint64{{{0, 1, 2}, {f32(0), f32(0), f32(1), f32(0), f32(1), f32(1)}},
			{{2, 1, 0, 2}, {f32(0.5), f32(0), f32(1), f32(0.25), f32(1), f32(1), f32(0), f32(0.75)}}}
		if f == "ascii" {
			crlf.BodyBlank = []int{0, 2, 3, 3, 4}
		}
		out = append(out, crlf)
		// S4
		for si, names := range [][]string{{"red", "green", "blue", "alpha"}, {"r", "g", "b", "a"},
			{"diffuse_red", "diffuse_green", "diffuse_blue", "diffuse_alpha"}} {
			for pos := 0; pos < 4; pos++ {
				for _, aty := range []string{"uchar", "float"} {
					if si > 0 && !((pos == 0 && aty == "float") || (pos == 2 && aty == "uchar")) {
						continue
					}
					var props []VProp
					for k := 0; k < 3; k++ {
						if k == pos {
							props = append(props, vp(aty, names[3]))
						}
						props = append(props, vp("uchar", names[k]))
					}
					if pos == 3 {
						props = append(props, vp(aty, names[3]))
					}
					if (pos+si)%2 == 0 {
						props = append(xyz[:3:3], props...)
					} else {
						props = append(props, xyz...)
					}
					out = append(out, sysSpec(f, props, r, 2))
				}
			}
		}
	}
	return out
}

// S6: sizes that coincide.  Per-corner texture coordinates force one vertex per corner; here the number of corners
// equals (or is one triangle away from) the number of vertex records while the faces do not list the vertices in
// order, and the vertices carry more than a position.
func coinciding() []Spec {
	var out []Spec
	r := hx.NewRng(0xC0856)
	props := []VProp{vp("float", "x"), vp("float", "nx"), vp("float", "y"), vp("float", "ny"), vp("float", "z"), vp("float", "nz"), vp("int", "id")}
	idx := FProp{Ct: "uchar", Lt: "int", Name: "vertex_indices", CtAlias: "uchar", LtAlias: "int"}
	tex := FProp{Ct: "uchar", Lt: "float", Name: "texcoord", CtAlias: "uchar", LtAlias: "float"}
	type fc struct {
		nv    int
		faces [][]uint64
		tex   bool
	}
	for fi, f := range []string{"ascii", "binary_little_endian", "binary_big_endian"} {
		for ci, c := range []fc{
			{6, [][]uint64{{3, 4, 5}, {0, 1, 2}}, true}, {6, [][]uint64{{5, 3, 1, 0}}, true}, {3, [][]uint64{{2, 0, 1}}, true},
			{3, [][]uint64{{0, 1, 2}}, true}, {9, [][]uint64{{8, 7, 6, 5}, {0, 2, 1}}, true}, {6, [][]uint64{{1, 0, 2}, {5, 4, 3}}, false},
			{5, [][]uint64{{4, 3, 2}, {1, 0, 4}}, true}, {7, [][]uint64{{6, 5, 4}, {3, 2, 1}}, true}, {6, [][]uint64{{0, 0, 0}, {5, 5, 5}}, true},
			{12, [][]uint64{{11, 10, 9, 8}, {7, 6, 5, 4}}, true},
		} {
			s := sysSpec(f, props, r, c.nv)
			for i := range s.Verts {
				s.Verts[i][6] = uint64(100 + i)
			}
			s.HasFace = true
			s.FProps = []FProp{idx}
			if c.tex {
				s.FProps = []FProp{idx, tex}
				if (ci+fi)%2 == 1 {
					s.FProps = []FProp{tex, idx}
				}
			}
			for qi, q := range c.faces {
				face := make([][]uint64, len(s.FProps))
				for j, p := range s.FProps {
					if p.Name == "texcoord" {
						for k := 0; k < 2*len(q); k++ {
							face[j] = append(face[j], uint64(math.Float32bits(float32(qi*8+k+1)/32)))
						}
					} else {
						face[j] = q
					}
				}
				s.Faces = append(s.Faces, face)
			}
			out = append(out, s)
		}
	}
	return out
}

// Ascii face lines that do not fit bufio.Scanner's default 64 KiB token (a face with a long extra list property): the
// reader takes them since 89d15bb (finding 6 of notes/C08.md, key ply:line-over-64KiB).  Two files per run (the long
// list after / before the indices).
const keyLongLine = "ply:line-over-64KiB"

func longLineSpecs() []Spec {
	xyz := []VProp{vp("float", "x"), vp("float", "y"), vp("float", "z")}
	idx := FProp{Ct: "uchar", Lt: "int", Name: "vertex_indices", CtAlias: "uchar", LtAlias: "int"}
	// per-face samples, doubles around 1e-300 written in plain decimal notation: about 305 characters per item, so that
	// 230 items make a line of 70 KB (cheap to evaluate: few tokens)
	sm := FProp{Ct: "int", Lt: "double", Name: "samples", CtAlias: "int", LtAlias: "double"}
	var out []Spec
	for k, fps := range [][]FProp{{idx, sm}, {sm, idx}} {
		s := Spec{Fmt: "ascii", Sep: " ", FloatFmt: "f", VProps: xyz, HasFace: true, FProps: fps,
			Verts: [][]uint64{{f32(0), f32(0), f32(0)}, {f32(1), f32(0), f32(0)}, {f32(0), f32(1), f32(0)}}}
		long := make([]uint64, 230)
		for i := range long {
			long[i] = math.Float64bits(2.5e-300 * float64(3+i))
		}
		for _, f := range [][][]uint64{{{0, 1, 2}, {math.Float64bits(7)}}, {{2, 1, 0}, long}, {{1, 2, 0}, {}}} {
			if k == 1 {
				f[0], f[1] = f[1], f[0]
			}
			s.Faces = append(s.Faces, f)
		}
		out = append(out, s)
	}
	return out
}

func corner() []Spec {
	xyz := []VProp{vp("float", "x"), vp("float", "y"), vp("float", "z")}
	tri := FProp{Ct: "uchar", Lt: "int", Name: "vertex_indices", CtAlias: "uchar", LtAlias: "int"}
	var out []Spec
	for _, f := range []string{"ascii", "binary_little_endian", "binary_big_endian"} {
		// colour bytes with a float alpha declared after / before / between them (04b414a)
		for _, order := range [][]int{{0, 1, 2, 3, 4, 5, 6}, {6, 0, 1, 2, 3, 4, 5}, {0, 1, 2, 3, 6, 4, 5}} {
			base := append(append([]VProp(nil), xyz...), vp("uchar", "red"), vp("uchar", "green"), vp("uchar", "blue"), vp("float", "alpha"))
			rec := []uint64{f32(1), f32(2), f32(3), 255, 128, 0, f32(0.5)}
			s := Spec{Fmt: f, Sep: " ", FloatFmt: "g"}
			r := make([]uint64, 7)
			for k, o := range order {
				s.VProps = append(s.VProps, base[o])
				r[k] = rec[o]
			}
			s.Verts = [][]uint64{r}
			out = append(out, s)
		}
		// element face 0 keeps the vertices (cc82dd6)
		out = append(out, Spec{Fmt: f, Sep: " ", FloatFmt: "g", VProps: xyz, Verts: [][]uint64{{f32(1), f32(2), f32(3)}, {f32(4), f32(5), f32(6)}},
			HasFace: true, FProps: []FProp{tri}})
		// int 16777217 and a non-float32 double (fb040ee)
		out = append(out, Spec{Fmt: f, Sep: " ", FloatFmt: "g", VProps: append(append([]VProp(nil), xyz...), vp("int", "id"), vp("double", "time")),
			Verts: [][]uint64{{f32(0), f32(0), f32(0), 16777217, math.Float64bits(0.1)}}})
		// uchar scalar (known finding in ASCII)
		out = append(out, Spec{Fmt: f, Sep: " ", FloatFmt: "g", VProps: append(append([]VProp(nil), xyz...), vp("uchar", "q")),
			Verts: [][]uint64{{f32(1), f32(2), f32(3), 128}}})
		// a quad and a triangle with per-corner texture coordinates
		tex := FProp{Ct: "uchar", Lt: "float", Name: "texcoord", CtAlias: "uint8", LtAlias: "float32"}
		out = append(out, Spec{Fmt: f, Sep: " ", FloatFmt: "g", VProps: xyz,
			Verts:   [][]uint64{{f32(0), f32(0), f32(0)}, {f32(1), f32(0), f32(0)}, {f32(1), f32(1), f32(0)}, {f32(0), f32(1), f32(0)}},
			HasFace: true, FProps: []FProp{tri, tex},
			Faces: [][][]uint64{{{0, 1, 2, 3}, {f32(0), f32(0), f32(1), f32(0), f32(1), f32(1), f32(0), f32(1)}},
				{{3, 1, 0}, {f32(0.25), f32(0.5), f32(0.75), f32(0.125), f32(0), f32(1)}}}})
		// no vertices at all
		out = append(out, Spec{Fmt: f, Sep: " ", FloatFmt: "g", VProps: xyz})
		// uchar (s, t) on the vertices and a face element with a texcoord list but no face: TexCoord stays the vertices' pair
		out = append(out, Spec{Fmt: f, Sep: " ", FloatFmt: "g", VProps: append(append([]VProp(nil), xyz...), vp("uchar", "s"), vp("uchar", "t")),
			Verts:   [][]uint64{{f32(1), f32(2), f32(3), 254, 13}, {f32(4), f32(5), f32(6), 212, 187}, {f32(7), f32(8), f32(9), 176, 1}},
			HasFace: true, FProps: []FProp{tri, tex}})
	}
	return out
}

func main() {
	flag.BoolVar(&misplaced, "misplaced", false, "also generate elements before vertex / between vertex and face")
	run := hx.ParseFlags("C08", "Check.C08")
	run.ShardMax = 100 // a shard of 250 files needs 1.2 GB in coqc; 16 run in parallel
	tmpDir = run.OutDir
	thoroughTier = run.Tier == "thorough"
	otherPaths = true // replayed and corpus files go through every read path
	for _, in := range run.Inputs() {
		var probe struct {
			Big   bool   `json:"big"`
			Mode  string `json:"mode"`
			First *Spec  `json:"first"`
			Raw   string `json:"raw"`
			Conc  []Spec `json:"concurrent"`
		}
		json.Unmarshal(in.Raw, &probe)
		switch {
		case probe.Big:
			var d BigDesc
			if err := json.Unmarshal(in.Raw, &d); err == nil && len(d.VProps) > 0 {
				run.Add(bigCase(d, in.Kind))
			}
		case len(probe.Conc) > 0:
			var cc Concurrent
			if err := json.Unmarshal(in.Raw, &cc); err == nil {
				run.Add(concurrentCase(cc))
			}
		case probe.Raw != "":
			run.Add(rawCase(RawDesc{Raw: probe.Raw}, in.Kind))
		case probe.First != nil:
			var p Pair
			if err := json.Unmarshal(in.Raw, &p); err == nil && len(p.First.VProps) > 0 {
				run.Add(pairCase(p))
			}
		default:
			var s Spec
			if err := json.Unmarshal(in.Raw, &s); err == nil && len(s.VProps) > 0 {
				run.Add(specCase(s, in.Kind))
			}
		}
	}
	if run.Replay != "" {
		run.Finish()
		return
	}
	// files past internal block sizes are costly to evaluate: they are spread evenly over the case list (and so over
	// the shards that coqc evaluates in parallel)
	var small, big []hx.Case
	otherPaths = true
	for _, m := range malformed {
		small = append(small, rawCase(RawDesc{Raw: m}, "malformed"))
	}
	for _, s := range corner() {
		small = append(small, specCase(s, "corner"))
	}
	for _, s := range systematic() {
		small = append(small, specCase(s, "systematic"))
	}
	for _, s := range coinciding() {
		small = append(small, specCase(s, "systematic"))
		run.Count("systematic:corners-vs-vertices")
	}
	small = append(small, concurrentCase(Concurrent{Specs: append(corner(), coinciding()...), Rounds: 3}))
	for _, s := range longLineSpecs() {
		c := specCase(s, "longline")
		if c.FailKey == "" {
			c.FailKey = keyLongLine
		}
		small = append(small, c)
	}
	// the same property names with other types, read right after one another (what a reader might remember by name)
	for _, f := range []string{"binary_little_endian", "binary_big_endian"} {
		first := sysSpec(f, []VProp{vp("float", "x"), vp("float", "y"), vp("float", "z"), vp("int", "id")}, hx.NewRng(0xAF7), 3)
		second := sysSpec(f, []VProp{vp("double", "x"), vp("double", "y"), vp("double", "z"), vp("double", "id")}, hx.NewRng(0xAF8), 3)
		small = append(small, pairCase(Pair{First: first, Second: second, Mode: "after"}),
			pairCase(Pair{First: second, Second: first, Mode: "after"}))
	}
	for _, d := range systematicBig(run.Tier == "thorough") {
		big = append(big, bigCase(d, "big-systematic"))
	}
	r := hx.NewRng(run.Seed)
	var prev *Spec
	for i := 0; i < run.N; i++ {
		s := genSpec(r)
		otherPaths = i%4 == 1
		kind := "spec"
		if i%12 == 11 {
			// malformed stream: the same file with its tail cut off (inside the body)
			full := render(s)
			_, _, body, ok := plyx.Split(full)
			if ok && len(body) > 0 {
				s.Cut = 1 + r.Intn(len(body))
				kind = "cut"
			}
		}
		c := specCase(s, kind)
		run.Count("fmt:" + s.Fmt)
		run.Count(fmt.Sprintf("vprops:%d", len(s.VProps)))
		if s.HasFace {
			run.Count("with-face-element")
			for _, p := range s.FProps {
				if p.Name == "texcoord" {
					run.Count("with-texcoord")
					if corners(s) == len(s.Verts) && corners(s) > 0 {
						run.Count("with-texcoord:corners=vertices")
					}
				}
			}
		}
		if s.CRLF {
			run.Count("crlf")
		}
		if len(s.Noise) > 0 {
			run.Count("header-noise")
		}
		if c.FailKey != "" {
			run.Count("failkey:" + c.FailKey)
		}
		if c.Kind == "outside" {
			if why := outside(s); why != "" {
				run.Count("outside:" + why)
			} else {
				run.Count("outside:misplaced element records")
			}
		}
		for _, o := range s.Others {
			run.Count("other-element-" + o.Pos)
		}
		if s.Fmt != "ascii" && s.HasFace {
			for _, p := range s.FProps {
				run.Count("bin-list:" + p.Ct + "/" + p.Lt)
			}
		}
		small = append(small, c)
		if i%4 == 0 && s.Cut == 0 {
			if hc, ok := headerCase(s); ok {
				small = append(small, hc)
			}
		}
		// two files through the same reader: the first one's mesh rendered after / the first one read again after the second
		if i%10 == 7 && s.Cut == 0 && prev != nil && outside(s) == "" && outside(*prev) == "" {
			mode := hx.Pick(r, []string{"retained", "again", "after", "after"})
			p := Pair{First: *prev, Second: s, Mode: mode}
			if mode == "after" {
				// the same names with other types, read right after one another
				p = Pair{First: s, Second: retyped(s, r), Mode: mode}
			}
			if mode == "retained" {
				// the same layout and counts with other values (whatever a reader recycles fits exactly)
				p = Pair{First: s, Second: revalued(s, r), Mode: mode}
			}
			small = append(small, pairCase(p))
			run.Count("pair:" + mode)
		}
		if s.Cut == 0 {
			cp := s
			prev = &cp
		}
		// a random layout with a record count around a power-of-two number of body bytes
		if i%60 == 22 && (run.Tier == "thorough" || i < 60) {
			d := genBig(r)
			big = append(big, bigCase(d, "big"))
			run.Count(fmt.Sprintf("big:%s", d.Fmt))
		}
	}
	total := len(small) + len(big)
	si, bi := 0, 0
	for i := 0; i < total; i++ {
		if bi < len(big) && ((i+1)*len(big)/total > i*len(big)/total || si >= len(small)) {
			run.Add(big[bi])
			bi++
		} else {
			run.Add(small[si])
			si++
		}
	}
	run.Finish()
}

// corners: face corners after tessellation (3 per triangle, 6 per quad).
func corners(s Spec) int {
	n := 0
	for _, f := range s.Faces {
		for j, ws := range f {
			if nm := s.FProps[j].Name; nm == "vertex_indices" || nm == "vertex_index" {
				if len(ws) == 4 {
					n += 6
				} else {
					n += 3
				}
			}
		}
	}
	return n
}
