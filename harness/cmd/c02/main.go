// C02 harness: well-formedness is closed under generation and mesh operations.  Runs the real
// generators (primitives, extrude, repeat, marching, triangulation) and the real modeling / meshops
// / repeat operations (random well-formed integer-valued meshes, histories of depth <= 4,
// composition laws) and writes the observations as Coq cases for Check/C02.v: prop_ok applies the
// certified test wfb to every mesh the implementation returned.
package main

import (
	"verif/harness/hx"
	"verif/harness/meshgen"
)

func main() {
	run := hx.ParseFlags("C02", "Check.C02")
	for _, in := range run.Inputs() {
		meshgen.Replay(run, in.Kind, in.Raw)
	}
	if run.Replay != "" {
		run.Finish()
		return
	}
	r := hx.NewRng(run.Seed)
	meshgen.FixedCases(run)
	// one third generator cases, two thirds operation histories
	meshgen.Generators(run, r.Fork(), run.N/3, run.Tier == "thorough")
	kinds := append(append([]string{}, meshgen.ExactOps...), meshgen.FrameOps...)
	for len(run.Cases) < run.N {
		if r.Chance(1, 10) {
			meshgen.Law(run, r)
		} else {
			meshgen.Chain(run, r, kinds, 4)
		}
	}
	run.Finish()
}
