// C02 harness: well-formedness is closed under generation and mesh operations.  Runs the real
// generators (primitives, extrude, repeat, marching, triangulation) and the real modeling / meshops
// / repeat operations (random well-formed integer-valued meshes, histories of depth <= 4,
// composition laws) and writes the observations as Coq cases for Check/C02.v: prop_ok applies the
// certified test wfb to every mesh the implementation returned.
package main

import (
	"verif/harness/hx"
	"verif/harness/meshgen"
)

func main() {
	run := hx.ParseFlags("C02", "Check.C02")
	meshgen.ValueOracle = false // values are C03's business; C02 judges shape only
	for _, in := range run.Inputs() {
		meshgen.Replay(run, in.Kind, in.Raw)
	}
	if run.Replay != "" {
		run.Finish()
		return
	}
	r := hx.NewRng(run.Seed).Fork() // Fork: seeds n and n+1 would otherwise be the same stream shifted by one draw
	meshgen.FixedCases(run)
	meshgen.FixedGens(run)
	meshgen.Tiles(run, r.Fork(), run.Tier == "thorough")     // ladder 2^10+1 .. 2^15+1 (thorough 2^17+1): every local operation at three rungs
	meshgen.GenLadder(run, r.Fork(), run.Tier == "thorough") // the generators at vertex counts on the same ladder
	// one third generator cases, two thirds operation histories
	ngen := run.N / 3
	if run.Tier != "thorough" && ngen > 260 {
		ngen = 260 // marching is costly; the quick tier spends the rest on operation histories
	}
	meshgen.Generators(run, r.Fork(), ngen, run.Tier == "thorough")
	kinds := append(append([]string{}, meshgen.ExactOps...), meshgen.FrameOps...)
	// the index-remapping operations get twice the weight of the others
	kinds = append(kinds, "append", "weld", "split", "filter", "remove_unref", "remove_null", "crop", "repeat", "unweld", "slice")
	for len(run.Cases) < run.N {
		if r.Chance(1, 10) {
			meshgen.Law(run, r)
		} else if r.Chance(1, 12) {
			meshgen.Persist(run, r, kinds) // retained results re-read after later operations on the same values
		} else {
			meshgen.Chain(run, r, kinds, 4)
		}
	}
	run.Finish()
}
