package main

// Wire-format variety: one parameter VALUE has many valid messages (a picture as PNG with any colour type,
// bit depth, filter, compression level, interlacing, ancillary chunks, or as JPEG; a number as 1, 1.0, 1e0;
// a string with any mix of escapes; an object with any key order, spelling of the keys and white space).
// Updates reach the instance through Instance.UpdateParameter with exactly these bytes (what the edit
// server hands over); the saved file must nevertheless be a fixed point of load+save.
//
// Nothing here imports an image decoder the repository does not link (image/gif in particular): the set of
// formats image.Decode accepts in this process must be that of cmd/polyform.

import (
	"bytes"
	"compress/zlib"
	"encoding/binary"
	"encoding/json"
	"fmt"
	"hash/crc32"
	"image"
	"image/color"
	"image/jpeg"
	"image/png"
	"sort"
	"strings"

	"verif/harness/hx"
)

// ---- PNG written by "another encoder" ----

type pngSpec struct {
	W, H      int
	CT, BD    int   // colour type 0 2 3 4 6, bit depth
	Interlace bool  // Adam7
	Level     int   // zlib level (-2 Huffman only, -1 default, 0 none, 1, 9)
	Filters   []int // filter type per scanline, cyclic
	NPal      int   // palette entries (colour type 3)
	TRNS      bool
	Extra     bool // ancillary chunks before and after the image data
	Split     int  // number of IDAT chunks
	Trailing  int  // bytes after IEND
}

func pngChunk(out *bytes.Buffer, typ string, data []byte) {
	var l [4]byte
	binary.BigEndian.PutUint32(l[:], uint32(len(data)))
	out.Write(l[:])
	body := append([]byte(typ), data...)
	out.Write(body)
	binary.BigEndian.PutUint32(l[:], crc32.ChecksumIEEE(body))
	out.Write(l[:])
}

func paeth(a, b, c byte) byte {
	p := int(a) + int(b) - int(c)
	pa, pb, pc := p-int(a), p-int(b), p-int(c)
	if pa < 0 {
		pa = -pa
	}
	if pb < 0 {
		pb = -pb
	}
	if pc < 0 {
		pc = -pc
	}
	if pa <= pb && pa <= pc {
		return a
	}
	if pb <= pc {
		return b
	}
	return c
}

// encodePNG writes samples[y][x][channel] (each below 2^BD) as the PNG the spec describes.
func encodePNG(r *hx.Rng, s pngSpec, samples [][][]uint16, palette []byte, trns []byte) []byte {
	channels := map[int]int{0: 1, 2: 3, 3: 1, 4: 2, 6: 4}[s.CT]
	bitsPP := channels * s.BD
	bpp := (bitsPP + 7) / 8
	packRow := func(px [][]uint16) []byte {
		row := make([]byte, (len(px)*bitsPP+7)/8)
		switch s.BD {
		case 8:
			i := 0
			for _, p := range px {
				for _, c := range p {
					row[i] = byte(c)
					i++
				}
			}
		case 16:
			i := 0
			for _, p := range px {
				for _, c := range p {
					row[i], row[i+1] = byte(c>>8), byte(c)
					i += 2
				}
			}
		default: // 1 2 4: one channel, packed most significant bits first; the padding bits are arbitrary
			bit := 0
			for _, p := range px {
				row[bit/8] |= byte(p[0]) << (8 - s.BD - bit%8)
				bit += s.BD
			}
			if pad := len(row)*8 - bit; pad > 0 {
				row[len(row)-1] |= byte(r.Intn(1 << pad))
			}
		}
		return row
	}
	raw := bytes.Buffer{}
	line := 0
	writeRows := func(rows [][]byte) {
		var prev []byte
		for _, cur := range rows {
			if prev == nil {
				prev = make([]byte, len(cur))
			}
			ft := s.Filters[line%len(s.Filters)]
			line++
			raw.WriteByte(byte(ft))
			for i := range cur {
				var a, b, c byte
				if i >= bpp {
					a, c = cur[i-bpp], prev[i-bpp]
				}
				b = prev[i]
				var pred byte
				switch ft {
				case 1:
					pred = a
				case 2:
					pred = b
				case 3:
					pred = byte((int(a) + int(b)) / 2)
				case 4:
					pred = paeth(a, b, c)
				}
				raw.WriteByte(cur[i] - pred)
			}
			prev = cur
		}
	}
	if !s.Interlace {
		rows := [][]byte{}
		for y := 0; y < s.H; y++ {
			rows = append(rows, packRow(samples[y]))
		}
		writeRows(rows)
	} else {
		for _, p := range [][4]int{{0, 0, 8, 8}, {4, 0, 8, 8}, {0, 4, 4, 8}, {2, 0, 4, 4}, {0, 2, 2, 4}, {1, 0, 2, 2}, {0, 1, 1, 2}} {
			rows := [][]byte{}
			for y := p[1]; y < s.H; y += p[3] {
				px := [][]uint16{}
				for x := p[0]; x < s.W; x += p[2] {
					px = append(px, samples[y][x])
				}
				if len(px) > 0 {
					rows = append(rows, packRow(px))
				}
			}
			writeRows(rows)
		}
	}
	z := bytes.Buffer{}
	zw, err := zlib.NewWriterLevel(&z, s.Level)
	if err != nil {
		panic(err)
	}
	zw.Write(raw.Bytes())
	zw.Close()

	out := bytes.Buffer{}
	out.WriteString("\x89PNG\r\n\x1a\n")
	hdr := make([]byte, 13)
	binary.BigEndian.PutUint32(hdr[0:], uint32(s.W))
	binary.BigEndian.PutUint32(hdr[4:], uint32(s.H))
	hdr[8], hdr[9] = byte(s.BD), byte(s.CT)
	if s.Interlace {
		hdr[12] = 1
	}
	pngChunk(&out, "IHDR", hdr)
	if s.Extra {
		pngChunk(&out, "gAMA", []byte{0, 0, 0xb1, 0x8f})
		pngChunk(&out, "pHYs", []byte{0, 0, 0x0e, 0xc3, 0, 0, 0x0e, 0xc3, 1})
		pngChunk(&out, "tEXt", []byte("Software\x00not the Go encoder"))
	}
	if s.CT == 3 {
		pngChunk(&out, "PLTE", palette)
	}
	if s.TRNS {
		pngChunk(&out, "tRNS", trns)
	}
	zb := z.Bytes()
	n := s.Split
	if n < 1 {
		n = 1
	}
	for k := 0; k < n; k++ {
		lo, hi := len(zb)*k/n, len(zb)*(k+1)/n
		pngChunk(&out, "IDAT", zb[lo:hi])
	}
	if s.Extra {
		pngChunk(&out, "tIME", []byte{0x07, 0xe8, 2, 29, 23, 59, 60})
	}
	pngChunk(&out, "IEND", nil)
	for k := 0; k < s.Trailing; k++ {
		out.WriteByte(byte(r.Intn(256)))
	}
	return out.Bytes()
}

type ctbd struct{ ct, bd int }

var pngKinds = []ctbd{{0, 1}, {0, 2}, {0, 4}, {0, 8}, {0, 16}, {2, 8}, {2, 16}, {3, 1}, {3, 2}, {3, 4}, {3, 8}, {4, 8}, {4, 16}, {6, 8}, {6, 16}}

// foreignPNG: a random picture in a random one of the fifteen colour type / bit depth combinations of the
// PNG specification, with random filters, compression level, interlacing, chunking.
func foreignPNG(r *hx.Rng) []byte {
	k := hx.Pick(r, pngKinds)
	s := pngSpec{W: r.Range(1, 6), H: r.Range(1, 6), CT: k.ct, BD: k.bd,
		Interlace: r.Chance(1, 3), Level: hx.Pick(r, []int{-2, -1, 0, 0, 1, 9}),
		Extra: r.Chance(1, 3), Split: hx.Pick(r, []int{1, 1, 2, 3})}
	if r.Chance(1, 6) {
		s.W, s.H = r.Range(7, 10), r.Range(7, 10) // every Adam7 pass non-empty
	}
	if r.Chance(1, 10) {
		s.Trailing = r.Range(1, 5)
	}
	switch r.Intn(3) {
	case 0:
		s.Filters = []int{r.Intn(5)}
	case 1:
		s.Filters = []int{0, 1, 2, 3, 4}
	default:
		s.Filters = []int{r.Intn(5), r.Intn(5), r.Intn(5)}
	}
	return specPNG(r, s)
}

func specPNG(r *hx.Rng, s pngSpec) []byte {
	channels := map[int]int{0: 1, 2: 3, 3: 1, 4: 2, 6: 4}[s.CT]
	limit := 1 << s.BD
	var palette, trns []byte
	if s.CT == 3 {
		if s.NPal == 0 {
			s.NPal = r.Range(1, min(limit, 20))
		}
		for i := 0; i < 3*s.NPal; i++ {
			palette = append(palette, byte(r.Intn(256)))
		}
		if !s.TRNS {
			s.TRNS = r.Chance(1, 3)
		}
		if s.TRNS {
			for i, n := 0, r.Range(1, s.NPal); i < n; i++ {
				trns = append(trns, byte(hx.Pick(r, []int{0, 128, 255, r.Intn(256)})))
			}
		}
		limit = s.NPal
		if r.Chance(1, 8) && s.NPal < 1<<s.BD {
			limit = s.NPal + 1 // an index past the palette: the decoder extends the palette
		}
	} else if s.CT == 0 || s.CT == 2 {
		if !s.TRNS {
			s.TRNS = r.Chance(1, 5)
		}
		if s.TRNS {
			for c := 0; c < channels; c++ {
				v := r.Intn(1 << s.BD)
				trns = append(trns, byte(v>>8), byte(v))
			}
		}
	} else {
		s.TRNS = false
	}
	opaque := r.Chance(1, 3) // an alpha channel that is 100% everywhere
	few := r.Chance(1, 2)    // few distinct values: the transparent colour key is hit, rows repeat
	samples := make([][][]uint16, s.H)
	for y := range samples {
		samples[y] = make([][]uint16, s.W)
		for x := range samples[y] {
			p := make([]uint16, channels)
			for c := range p {
				if few && s.CT != 3 {
					p[c] = uint16(hx.Pick(r, []int{0, limit - 1, limit / 2}))
				} else {
					p[c] = uint16(r.Intn(limit))
				}
			}
			if (s.CT == 4 || s.CT == 6) && opaque {
				p[channels-1] = uint16(1<<s.BD - 1)
			}
			if s.TRNS && s.CT != 3 && r.Chance(1, 4) { // the colour key itself
				for c := range p {
					p[c] = uint16(trns[2*c])<<8 | uint16(trns[2*c+1])
				}
			}
			samples[y][x] = p
		}
	}
	return encodePNG(r, s, samples, palette, trns)
}

func randomPicture(r *hx.Rng, w, h int) image.Image {
	switch r.Intn(3) {
	case 0:
		m := image.NewGray(image.Rect(0, 0, w, h))
		for i := range m.Pix {
			m.Pix[i] = byte(r.Intn(256))
		}
		return m
	case 1:
		m := image.NewNRGBA(image.Rect(0, 0, w, h))
		for i := range m.Pix {
			m.Pix[i] = byte(r.Intn(256))
		}
		return m
	}
	m := image.NewRGBA(image.Rect(0, 0, w, h))
	for y := 0; y < h; y++ {
		for x := 0; x < w; x++ {
			m.Set(x, y, color.RGBA{byte(r.Intn(256)), byte(r.Intn(256)), byte(r.Intn(256)), 255})
		}
	}
	return m
}

// goPNGLevel: Go's own encoder at a compression level other than the default
func goPNGLevel(r *hx.Rng, level png.CompressionLevel) []byte {
	buf := bytes.Buffer{}
	enc := png.Encoder{CompressionLevel: level}
	if err := enc.Encode(&buf, randomPicture(r, r.Range(1, 8), r.Range(1, 8))); err != nil {
		panic(err)
	}
	return buf.Bytes()
}

// genJPEG: baseline JPEG, grey or colour, any quality; sizes that are not multiples of the 8x8 / 16x16 blocks
func genJPEG(r *hx.Rng) []byte {
	w, h := r.Range(1, 12), r.Range(1, 12)
	if r.Chance(1, 4) {
		w, h = hx.Pick(r, []int{8, 16, 17}), hx.Pick(r, []int{8, 16, 9})
	}
	var img image.Image
	if r.Chance(1, 3) {
		m := image.NewGray(image.Rect(0, 0, w, h))
		for i := range m.Pix {
			m.Pix[i] = byte(r.Intn(256))
		}
		img = m
	} else {
		m := image.NewRGBA(image.Rect(0, 0, w, h))
		base := [3]int{r.Intn(256), r.Intn(256), r.Intn(256)}
		for y := 0; y < h; y++ {
			for x := 0; x < w; x++ {
				m.Set(x, y, color.RGBA{byte(base[0] + 9*x), byte(base[1] + 13*y), byte(base[2] + r.Intn(40)), 255})
			}
		}
		img = m
	}
	buf := bytes.Buffer{}
	if err := jpeg.Encode(&buf, img, &jpeg.Options{Quality: hx.Pick(r, []int{1, 30, 75, 90, 100})}); err != nil {
		panic(err)
	}
	return buf.Bytes()
}

// a 1x1 GIF (the repository links no GIF decoder: the upload must be refused and leave the value alone)
var tinyGIF = []byte("GIF89a\x01\x00\x01\x00\x80\x00\x00\xff\x00\x00\x00\x00\x00,\x00\x00\x00\x00\x01\x00\x01\x00\x00\x02\x02D\x01\x00;")

// genImageMessage: an upload for an Image parameter. kind (for the distribution counters):
// go-default, go-level, foreign-png, jpeg, refused
func genImageMessage(r *hx.Rng) ([]byte, string) {
	switch w := r.Intn(20); {
	case w < 4:
		return genPNG(r), "go-default"
	case w < 7:
		return goPNGLevel(r, hx.Pick(r, []png.CompressionLevel{png.NoCompression, png.BestSpeed, png.BestCompression})), "go-level"
	case w < 14:
		return foreignPNG(r), "foreign-png"
	case w < 18:
		return genJPEG(r), "jpeg"
	case w < 19:
		return tinyGIF, "refused"
	}
	// damaged uploads: a truncated PNG, a PNG with a wrong checksum
	b := foreignPNG(r)
	if r.Chance(1, 2) {
		b = b[:len(b)-r.Range(1, 13)]
	} else {
		b[len(b)-r.Range(13, 16)] ^= 0x40 // inside the last IDAT's checksum or data (or the trailing bytes)
	}
	if _, _, err := image.Decode(bytes.NewReader(b)); err == nil {
		return b, "foreign-png"
	}
	return b, "refused"
}

// ---- JSON written by "another client" ----

type jsonNoise struct {
	r        *hx.Rng
	floatOK  bool // numbers may be respelt with a fraction / exponent (not for integer targets)
	keyNoise bool // object keys may be respelt in another case, duplicated, unknown keys added
	strNoise bool // strings may contain escapes that do not denote themselves (lone surrogates)
}

func (n *jsonNoise) ws(b *strings.Builder) {
	b.WriteString(hx.Pick(n.r, []string{"", "", "", " ", "  ", "\n", "\t", "\r\n", " \n\t "}))
}

func (n *jsonNoise) number(lit string) string {
	r := n.r
	if strings.ContainsAny(lit, "eE") {
		if r.Chance(1, 2) {
			lit = strings.Replace(strings.Replace(lit, "e", "E", 1), "E-", "E-0", 1)
		}
		return lit
	}
	if !n.floatOK {
		if lit == "0" && r.Chance(1, 3) {
			return "-0"
		}
		return lit
	}
	switch r.Intn(8) {
	case 0:
		return lit + "e0"
	case 1:
		return lit + "E+0"
	case 2:
		return lit + "e-00"
	case 3:
		if !strings.Contains(lit, ".") {
			return lit + ".0"
		}
		return lit + "0"
	case 4:
		if !strings.Contains(lit, ".") {
			return lit + ".000"
		}
		return lit + "000"
	case 5:
		if !strings.Contains(lit, ".") && strings.Trim(lit, "-0") != "" && !strings.HasPrefix(strings.TrimPrefix(lit, "-"), "0") {
			return lit + "00e-2"
		}
	}
	return lit
}

func (n *jsonNoise) str(s string) string {
	r := n.r
	var b strings.Builder
	b.WriteByte('"')
	for _, c := range s {
		switch {
		case c > 0xffff:
			if r.Chance(1, 2) {
				c -= 0x10000
				fmt.Fprintf(&b, hx.Pick(r, []string{`\u%04x\u%04x`, `\u%04X\u%04X`}), 0xd800+(c>>10), 0xdc00+(c&0x3ff))
			} else {
				b.WriteRune(c)
			}
		case c == '"' || c == '\\':
			b.WriteString(hx.Pick(r, []string{"\\" + string(c), fmt.Sprintf(`\u%04x`, c)}))
		case c == '/':
			b.WriteString(hx.Pick(r, []string{"/", `\/`, `/`, `/`}))
		case c < 0x20:
			short := map[rune]string{'\n': `\n`, '\t': `\t`, '\r': `\r`, '\b': `\b`, '\f': `\f`}
			if e, ok := short[c]; ok && r.Chance(1, 2) {
				b.WriteString(e)
			} else {
				fmt.Fprintf(&b, hx.Pick(r, []string{`\u%04x`, `\u%04X`}), c)
			}
		case r.Chance(1, 5):
			fmt.Fprintf(&b, hx.Pick(r, []string{`\u%04x`, `\u%04X`}), c)
		default:
			b.WriteRune(c)
		}
	}
	if n.strNoise && r.Chance(1, 10) {
		// escapes and bytes that denote U+FFFD after decoding; separators and characters encoding/json
		// escapes on output although it accepts them raw
		b.WriteString(hx.Pick(r, []string{`\ud800`, `\udc00x`, `\ud83dx`, "\xff", "\xc3(", "\u2028", `\u2029`, "<>&", `\u003c`,
			"\x7f", `\u001f`, `\b\f\r`, "\ufffd"}))
	}
	b.WriteByte('"')
	return b.String()
}

func (n *jsonNoise) value(b *strings.Builder, v any) {
	r := n.r
	switch x := v.(type) {
	case nil:
		b.WriteString("null")
	case bool:
		fmt.Fprint(b, x)
	case json.Number:
		b.WriteString(n.number(string(x)))
	case string:
		b.WriteString(n.str(x))
	case []any:
		b.WriteByte('[')
		n.ws(b)
		for i, e := range x {
			if i > 0 {
				b.WriteByte(',')
				n.ws(b)
			}
			n.value(b, e)
			n.ws(b)
		}
		b.WriteByte(']')
	case map[string]any:
		keys := make([]string, 0, len(x))
		for k := range x {
			keys = append(keys, k)
		}
		sort.Strings(keys)
		perm := r.Perm(len(keys))
		b.WriteByte('{')
		n.ws(b)
		first := true
		member := func(k string, e any) {
			if !first {
				b.WriteByte(',')
				n.ws(b)
			}
			first = false
			b.WriteString(n.str(k))
			n.ws(b)
			b.WriteByte(':')
			n.ws(b)
			n.value(b, e)
			n.ws(b)
		}
		for _, pi := range perm {
			k := keys[pi]
			if n.keyNoise && r.Chance(1, 8) { // the same key earlier: the last occurrence wins
				member(k, hx.Pick(r, []any{json.Number("99"), nil, x[k]}))
			}
			if n.keyNoise && r.Chance(1, 8) { // struct fields match their keys case-insensitively
				member(hx.Pick(r, []string{strings.ToUpper(k), titleKey(k)}), x[k])
				continue
			}
			member(k, x[k])
			if n.keyNoise && r.Chance(1, 10) {
				member(hx.Pick(r, []string{"w", "unknown", ""}), hx.Pick(r, []any{json.Number("1"), "s", []any{}, map[string]any{}}))
			}
		}
		b.WriteByte('}')
	default:
		panic(fmt.Sprintf("harness: jsonNoise: %T", v))
	}
}

func titleKey(k string) string {
	if k == "" {
		return k
	}
	return strings.ToUpper(k[:1]) + k[1:]
}

// respell writes the JSON text again in another valid spelling (text that is not JSON is returned as is).
func respell(r *hx.Rng, text []byte, floatOK, keyNoise, strNoise bool) []byte {
	dec := json.NewDecoder(bytes.NewReader(text))
	dec.UseNumber()
	var v any
	if err := dec.Decode(&v); err != nil || dec.More() {
		return text
	}
	n := &jsonNoise{r: r, floatOK: floatOK, keyNoise: keyNoise, strNoise: strNoise}
	var b strings.Builder
	n.ws(&b)
	n.value(&b, v)
	n.ws(&b)
	return []byte(b.String())
}

// respellFor: the respelling that is meaningful for the parameter type with this tag
func respellFor(r *hx.Rng, tag string, msg []byte) []byte {
	switch tag {
	case "file", "image":
		return msg
	case "int":
		return respell(r, msg, false, false, false)
	case "color": // WebColor reads the token itself: no escapes inside; upper-case digits are the variety
		if r.Chance(1, 2) {
			msg = []byte(strings.ToUpper(string(msg)))
		}
		return append(append([]byte(hx.Pick(r, []string{"", " ", "\n"})), msg...), hx.Pick(r, []string{"", " ", "\t\n"})...)
	case "str", "strs":
		return respell(r, msg, true, false, true)
	}
	return respell(r, msg, true, true, false)
}

// ---- fixed histories: every parameter type updated with a non-canonical spelling of a value ----

func encodingHistories() []histDesc {
	r := hx.NewRng(0xC12E)
	out := []histDesc{}
	// pictures: one history per way of writing a picture; name, description, an image artifact and a
	// describe node over the picture; a later history replaces an upload by another and by a refused one
	noComp := goPNGLevel(r, png.NoCompression)
	pics := [][]byte{
		noComp,
		genJPEG(r),
		specPNG(r, pngSpec{W: 9, H: 9, CT: 6, BD: 16, Interlace: true, Level: 9, Filters: []int{4, 3, 2, 1, 0}, Extra: true, Split: 3}),
		specPNG(r, pngSpec{W: 5, H: 3, CT: 3, BD: 2, NPal: 3, TRNS: true, Level: 0, Filters: []int{0}, Split: 1, Trailing: 3}),
		specPNG(r, pngSpec{W: 4, H: 4, CT: 4, BD: 8, Level: -2, Filters: []int{1, 2}, Split: 2}),
		specPNG(r, pngSpec{W: 7, H: 2, CT: 0, BD: 1, TRNS: true, Interlace: true, Level: 1, Filters: []int{0, 4}, Split: 1}),
	}
	for _, p := range pics {
		out = append(out, hist(Op{K: "create", Ty: "image"}, Op{K: "update", ID: "Node-0", Msg: b64(p)},
			Op{K: "create", Ty: "imageart"}, Op{K: "connect", Src: "Node-0", ID: "Node-1", Port: "In"}, Op{K: "producer", ID: "Node-1", S: "pic.png"},
			Op{K: "create", Ty: "describe"}, Op{K: "connect", Src: "Node-0", ID: "Node-2", Port: "Pic"},
			Op{K: "create", Ty: "text"}, Op{K: "connect", Src: "Node-2", ID: "Node-3", Port: "In"}, Op{K: "producer", ID: "Node-3", S: "pic.txt"}))
	}
	out = append(out, hist(Op{K: "create", Ty: "image"}, Op{K: "create", Ty: "image"}, Op{K: "create", Ty: "image"},
		Op{K: "update", ID: "Node-0", Msg: b64(pics[1])}, Op{K: "update", ID: "Node-0", Msg: b64(pics[3])},
		Op{K: "update", ID: "Node-1", Msg: b64(pics[2])}, Op{K: "update", ID: "Node-1", Msg: b64(tinyGIF)},
		Op{K: "update", ID: "Node-2", Msg: b64(pics[0])}, Op{K: "update", ID: "Node-2", Msg: b64(pics[0][:len(pics[0])-9])},
		Op{K: "name", ID: "Node-1", S: "second"},
		Op{K: "create", Ty: "imageart"}, Op{K: "connect", Src: "Node-1", ID: "Node-3", Port: "In"}, Op{K: "producer", ID: "Node-3", S: "b.png"}))

	// ONE parameter updated several times in different encodings, reads in between: whatever the parameter
	// remembers about an upload must not outlive the next one (PNG -> JPEG -> refused -> PNG -> JPEG)
	steps := func(msgs ...[]byte) histDesc {
		ops := []Op{{K: "create", Ty: "image"}, {K: "create", Ty: "imageart"}, {K: "connect", Src: "Node-0", ID: "Node-1", Port: "In"},
			{K: "producer", ID: "Node-1", S: "pic.png"}}
		for k, m := range msgs {
			ops = append(ops, Op{K: "update", ID: "Node-0", Msg: b64(m)})
			if k%2 == 0 {
				ops = append(ops, Op{K: "eval"})
			}
		}
		return hist(ops...)
	}
	jpg2 := genJPEG(r)
	out = append(out, steps(noComp, pics[1]), steps(pics[2], jpg2, tinyGIF), steps(pics[1], pics[3], jpg2),
		steps(genPNG(r), pics[1], pics[0][:20], pics[4], jpg2),
		withCont(steps(pics[5]), Op{K: "update", ID: "Node-0", Msg: b64(jpg2)}, Op{K: "eval"}, Op{K: "update", ID: "Node-0", Msg: b64(pics[3])}))

	// every JSON-valued parameter type: the same value in several spellings, one after another and across nodes
	type upd struct {
		ty   string
		msgs []string
	}
	table := []upd{
		{"f64", []string{"1", "1.0", "1e0", " 100e-2\n", "1.000E+00", "-0.0", "0.1000", "12345678901234567890"}},
		{"f32", []string{"0.1", "1.0E-1", "16777217", " 2.50 "}},
		{"int", []string{" 7", "-0", "7\n", "\t-300 "}},
		{"bool", []string{" true", "false\n"}},
		{"str", []string{`"A\/é"`, `"😀 \ud800"`, " \"a\\u0022b<>& \" ", "\"\xff\""}},
		{"color", []string{`"#FFF"`, `"#AbCdEf"`, `"#abcd"`, ` "#ABCDEF80" `}},
		{"v2", []string{`{ "y" : 2.0 , "x" : 1e0 }`, `{"X":3,"x":4,"Y":5.50}`, `{"x":1,"x":2,"w":[]}`, `{}`}},
		{"v3", []string{"{\n\t\"z\": 3.0,\n\t\"y\": 2,\n\t\"x\": 1\n}", `{"x":null,"Z":-0.0}`}},
		{"v3arr", []string{`[ {"x":1.0} , null , {"z":1e1,"y":2} ]`, ` [ ] `}},
		{"aabb", []string{`{"extents":{"z":3,"y":2,"x":1},"center":{"x":0.50}}`, `{ "Center" : { "X" : 1 } , "EXTENTS" : { } }`}},
		{"strs", []string{`[ "a" , null , "ü" ]`, ` null `}},
	}
	ops := []Op{{K: "create", Ty: "describe"}, {K: "create", Ty: "join"}, {K: "create", Ty: "sum"}}
	next := 3
	port := map[string]string{"f32": "F32", "int": "Count", "color": "Tint", "v2": "V2", "v3": "V3", "v3arr": "Pts", "aabb": "Box", "strs": "Tags"}
	nText, nNum := 0, 0
	for _, u := range table {
		for k, m := range u.msgs {
			id := fmt.Sprintf("Node-%d", next)
			next++
			ops = append(ops, Op{K: "create", Ty: u.ty}, Op{K: "update", ID: id, Msg: b64([]byte(m))})
			if k > 0 && k%2 == 1 { // the previous node receives this spelling too, after its own
				ops = append(ops, Op{K: "update", ID: fmt.Sprintf("Node-%d", next-2), Msg: b64([]byte(m))})
			}
			switch u.ty {
			case "f64":
				ops = append(ops, Op{K: "connect", Src: id, ID: "Node-2", Port: fmt.Sprintf("Values.%d", nNum)})
				nNum++
			case "str":
				ops = append(ops, Op{K: "connect", Src: id, ID: "Node-0", Port: fmt.Sprintf("Texts.%d", nText)})
				nText++
			case "bool":
				ops = append(ops, Op{K: "connect", Src: id, ID: "Node-1", Port: "Flag"})
			default:
				ops = append(ops, Op{K: "connect", Src: id, ID: "Node-0", Port: port[u.ty]})
			}
		}
	}
	t1, t2 := fmt.Sprintf("Node-%d", next), fmt.Sprintf("Node-%d", next+1)
	ops = append(ops, Op{K: "connect", Src: "Node-2", ID: "Node-1", Port: "Numbers.0"},
		Op{K: "create", Ty: "text"}, Op{K: "connect", Src: "Node-0", ID: t1, Port: "In"}, Op{K: "producer", ID: t1, S: "describe.txt"},
		Op{K: "create", Ty: "text"}, Op{K: "connect", Src: "Node-1", ID: t2, Port: "In"}, Op{K: "producer", ID: t2, S: "join.txt"},
		Op{K: "setmeta", S: "notes.n", V: "{ \"b\" : 1.0 , \"a\" : [ 1e0 , \"\\u0041\\/\" ] , \"a\" : [ 2.50 ] }"})
	out = append(out, hist(ops...))
	return out
}
