package main

// jv: the generic observation tree (Coq type Graph.Instance.jval) and the canonical JSON reader.
// Every observable of the binding (summaries, the saved schema, parameter values, metadata) is
// rendered into this one tree type; numbers are carried as int64 when the JSON text is an integer
// that fits, else as IEEE-754 bit patterns (never as text).

import (
	"bytes"
	"encoding/json"
	"fmt"
	"math"
	"sort"
	"strconv"
	"strings"

	"verif/harness/hx"
)

type jkind int

const (
	jNull jkind = iota
	jBool
	jInt
	jNum
	jStr
	jArr
	jObj
	jBytes
	jBig // non-negative big literal (digests), printed as JInt
)

type jv struct {
	k    jkind
	b    bool
	i    int64
	bits uint64
	s    string
	arr  []jv
	keys []string
	vals []jv
	raw  []byte
}

func jnull() jv          { return jv{k: jNull} }
func jbool(b bool) jv    { return jv{k: jBool, b: b} }
func jint(i int64) jv    { return jv{k: jInt, i: i} }
func jnum(f float64) jv  { return jv{k: jNum, bits: math.Float64bits(f)} }
func jstr(s string) jv   { return jv{k: jStr, s: s} }
func jarr(xs ...jv) jv   { return jv{k: jArr, arr: xs} }
func jbytes(b []byte) jv { return jv{k: jBytes, raw: append([]byte{}, b...)} }
func jbig(dec string) jv { return jv{k: jBig, s: dec} }
func jlist(xs []jv) jv   { return jv{k: jArr, arr: xs} }
func jopt(p bool, v jv) jv {
	if !p {
		return jnull()
	}
	return v
}

// jobj builds an object with keys sorted bytewise (the order encoding/json writes map keys in).
func jobj(m map[string]jv) jv {
	keys := make([]string, 0, len(m))
	for k := range m {
		keys = append(keys, k)
	}
	sort.Strings(keys)
	o := jv{k: jObj}
	for _, k := range keys {
		o.keys = append(o.keys, k)
		o.vals = append(o.vals, m[k])
	}
	return o
}

func (v jv) coq(b *strings.Builder) {
	switch v.k {
	case jNull:
		b.WriteString("JNull")
	case jBool:
		b.WriteString("(JBool " + hx.CoqBool(v.b) + ")")
	case jInt:
		if v.i < 0 {
			fmt.Fprintf(b, "(JInt (%d))", v.i)
		} else {
			fmt.Fprintf(b, "(JInt %d)", v.i)
		}
	case jBig:
		b.WriteString("(JInt " + v.s + ")")
	case jNum:
		fmt.Fprintf(b, "(JNum %d)", v.bits)
	case jStr:
		b.WriteString("(JStr " + hx.CoqString(v.s) + ")")
	case jBytes:
		b.WriteString("(JBytes " + hx.CoqListN(v.raw) + ")")
	case jArr:
		b.WriteString("(JArr [")
		for i, x := range v.arr {
			if i > 0 {
				b.WriteByte(';')
			}
			x.coq(b)
		}
		b.WriteString("])")
	case jObj:
		b.WriteString("(JObj [")
		for i := range v.keys {
			if i > 0 {
				b.WriteByte(';')
			}
			b.WriteString("kv " + hx.CoqString(v.keys[i]) + " ")
			v.vals[i].coq(b)
		}
		b.WriteString("])")
	}
}

func (v jv) Coq() string {
	var b strings.Builder
	v.coq(&b)
	return b.String()
}

// equal: structural equality (harness-side pre-checks and FailKey rules; the verdict is Coq's).
func (v jv) equal(w jv) bool { return v.Coq() == w.Coq() }

// fromJSON reads JSON text into the tree. Integers that fit int64 (and are not "-0") become jInt,
// every other number its float64 bit pattern.
func fromJSON(data []byte) (jv, error) {
	dec := json.NewDecoder(bytes.NewReader(data))
	dec.UseNumber()
	var x any
	if err := dec.Decode(&x); err != nil {
		return jv{}, err
	}
	if dec.More() {
		return jv{}, fmt.Errorf("trailing data")
	}
	return fromAny(x), nil
}

func mustJSON(data []byte) jv {
	v, err := fromJSON(data)
	if err != nil {
		panic(fmt.Errorf("harness: cannot read JSON %q: %w", string(data), err))
	}
	return v
}

func fromAny(x any) jv {
	switch t := x.(type) {
	case nil:
		return jnull()
	case bool:
		return jbool(t)
	case json.Number:
		s := string(t)
		if !strings.ContainsAny(s, ".eE") && s != "-0" {
			if i, err := strconv.ParseInt(s, 10, 64); err == nil {
				return jint(i)
			}
		}
		f, err := strconv.ParseFloat(s, 64)
		if err != nil && !math.IsInf(f, 0) {
			panic(err)
		}
		return jnum(f)
	case string:
		return jstr(t)
	case []any:
		out := make([]jv, len(t))
		for i, e := range t {
			out[i] = fromAny(e)
		}
		return jlist(out)
	case map[string]any:
		m := make(map[string]jv, len(t))
		for k, e := range t {
			m[k] = fromAny(e)
		}
		return jobj(m)
	}
	panic(fmt.Errorf("harness: unexpected JSON value %T", x))
}

// canonValue: the tree of a Go value's JSON encoding (what encoding/json persists of it).
func canonValue(v any) jv {
	data, err := json.Marshal(v)
	if err != nil {
		panic(err)
	}
	return mustJSON(data)
}
