package main

// Shipped graph files: load into a fresh generator.App, save, collect the artifacts; and a reader of
// saved files that does not need the node types to be in the harness table.

import (
	"archive/zip"
	"bytes"
	"encoding/base64"
	"encoding/json"
	"fmt"
	"io"
	"sort"
	"strings"

	"github.com/EliCDavis/polyform/generator"

	// the node packages cmd/polyform links in (they register their types with the generator)
	_ "github.com/EliCDavis/polyform/formats/colmap"
	_ "github.com/EliCDavis/polyform/formats/gltf"
	_ "github.com/EliCDavis/polyform/formats/opensfm"
	_ "github.com/EliCDavis/polyform/formats/ply"
	_ "github.com/EliCDavis/polyform/formats/splat"
	_ "github.com/EliCDavis/polyform/formats/spz"
	_ "github.com/EliCDavis/polyform/formats/stl"
	_ "github.com/EliCDavis/polyform/generator/artifact/basics"
	_ "github.com/EliCDavis/polyform/generator/parameter"
	_ "github.com/EliCDavis/polyform/math"
	_ "github.com/EliCDavis/polyform/math/vector"
	_ "github.com/EliCDavis/polyform/modeling/extrude"
	_ "github.com/EliCDavis/polyform/modeling/meshops"
	_ "github.com/EliCDavis/polyform/modeling/meshops/gausops"
	_ "github.com/EliCDavis/polyform/modeling/primitives"
	_ "github.com/EliCDavis/polyform/modeling/repeat"
	_ "github.com/EliCDavis/polyform/nodes/experimental"
)

// appLoadSave: fresh App, ApplySchema(file), Schema() and the artifacts [[name; length; sha256]] by name.
func appLoadSave(file []byte, withArts bool) (out []byte, arts jv, o outcome) {
	arts = jnull()
	o = guard(func() error {
		app := generator.App{}
		app.Schema() // creates the App's instance (ApplySchema needs it)
		if err := app.ApplySchema(file); err != nil {
			return err
		}
		out = app.Schema()
		if !withArts {
			return nil
		}
		zbuf := bytes.Buffer{}
		if err := app.WriteZip(&zbuf); err != nil {
			return fmt.Errorf("artifacts: %w", err)
		}
		zr, err := zip.NewReader(bytes.NewReader(zbuf.Bytes()), int64(zbuf.Len()))
		if err != nil {
			return err
		}
		items := map[string]jv{}
		names := []string{}
		for _, f := range zr.File {
			rc, err := f.Open()
			if err != nil {
				return err
			}
			data, err := io.ReadAll(rc)
			rc.Close()
			if err != nil {
				return err
			}
			items[f.Name] = jarr(jstr(f.Name), jint(int64(len(data))), digest(data))
			names = append(names, f.Name)
		}
		sort.Strings(names)
		l := []jv{}
		for _, n := range names {
			l = append(l, items[n])
		}
		arts = jlist(l)
		return nil
	})
	return
}

// readFileGeneric: [ nodes; producers; metadata; buffers ] with
// node = [id; type string; [[name; dependency id; port] in FILE ORDER]; data object or JNull]
func readFileGeneric(file []byte) (jv, error) {
	var doc struct {
		Buffers []struct {
			ByteLength int    `json:"byteLength"`
			URI        string `json:"uri"`
		} `json:"buffers"`
		BufferViews json.RawMessage `json:"bufferViews"`
		Data        struct {
			Producers map[string]struct {
				NodeID string `json:"nodeID"`
				Port   string `json:"port"`
			} `json:"producers"`
			Nodes map[string]struct {
				Type         string `json:"type"`
				Dependencies []struct {
					DependencyID   string `json:"dependencyID"`
					DependencyPort string `json:"dependencyPort"`
					Name           string `json:"name"`
				} `json:"dependencies"`
				Data json.RawMessage `json:"data"`
			} `json:"nodes"`
			Metadata json.RawMessage `json:"metadata"`
		} `json:"data"`
	}
	if err := json.Unmarshal(file, &doc); err != nil {
		return jv{}, err
	}
	ids := []string{}
	for id := range doc.Data.Nodes {
		ids = append(ids, id)
	}
	sort.Strings(ids)
	nodesOut := []jv{}
	for _, id := range ids {
		n := doc.Data.Nodes[id]
		deps := []jv{}
		for _, d := range n.Dependencies {
			deps = append(deps, jarr(jstr(d.Name), jstr(d.DependencyID), jstr(d.DependencyPort)))
		}
		data := jnull()
		if len(n.Data) > 0 {
			data = mustJSON(n.Data)
		}
		nodesOut = append(nodesOut, jarr(jstr(id), jstr(n.Type), jlist(deps), data))
	}
	pn := []string{}
	for name := range doc.Data.Producers {
		pn = append(pn, name)
	}
	sort.Strings(pn)
	prods := []jv{}
	for _, name := range pn {
		p := doc.Data.Producers[name]
		prods = append(prods, jarr(jstr(name), jstr(p.NodeID), jstr(p.Port)))
	}
	meta := jnull()
	if len(doc.Data.Metadata) > 0 {
		meta = mustJSON(doc.Data.Metadata)
	}
	bufs := []jv{}
	for _, b := range doc.Buffers {
		if !strings.HasPrefix(b.URI, dataURI) {
			return jv{}, fmt.Errorf("buffer uri")
		}
		raw, err := base64.StdEncoding.DecodeString(b.URI[len(dataURI):])
		if err != nil || len(raw) != b.ByteLength {
			return jv{}, fmt.Errorf("buffer length")
		}
		bufs = append(bufs, jbytes(raw))
	}
	views := jnull()
	if len(doc.BufferViews) > 0 {
		views = mustJSON(doc.BufferViews)
	}
	return jarr(jlist(nodesOut), jlist(prods), meta, jlist(bufs), views), nil
}
