package main

// Shipped graph files: load into a fresh generator.App, save, collect the artifacts; and a reader of
// saved files that does not need the node types to be in the harness table.

import (
	"archive/zip"
	"bytes"
	"encoding/base64"
	"encoding/json"
	"fmt"
	"io"
	"sort"
	"strings"

	"github.com/EliCDavis/polyform/generator"

	// the node packages cmd/polyform links in (they register their types with the generator)
	_ "github.com/EliCDavis/polyform/formats/colmap"
	_ "github.com/EliCDavis/polyform/formats/gltf"
	_ "github.com/EliCDavis/polyform/formats/opensfm"
	_ "github.com/EliCDavis/polyform/formats/ply"
	_ "github.com/EliCDavis/polyform/formats/splat"
	_ "github.com/EliCDavis/polyform/formats/spz"
	_ "github.com/EliCDavis/polyform/formats/stl"
	_ "github.com/EliCDavis/polyform/generator/artifact/basics"
	_ "github.com/EliCDavis/polyform/generator/parameter"
	_ "github.com/EliCDavis/polyform/math"
	_ "github.com/EliCDavis/polyform/math/vector"
	_ "github.com/EliCDavis/polyform/modeling/extrude"
	_ "github.com/EliCDavis/polyform/modeling/meshops"
	_ "github.com/EliCDavis/polyform/modeling/meshops/gausops"
	_ "github.com/EliCDavis/polyform/modeling/primitives"
	_ "github.com/EliCDavis/polyform/modeling/repeat"
	_ "github.com/EliCDavis/polyform/nodes/experimental"
)

// appLoadSave: fresh App, ApplySchema(file), Schema() and the artifacts [[name; length; sha256]] by name.
func appLoadSave(file []byte, withArts bool) (out []byte, arts jv, o outcome) {
	arts = jnull()
	o = guard(func() error {
		app := generator.App{}
		app.Schema() // creates the App's instance (ApplySchema needs it)
		if err := app.ApplySchema(file); err != nil {
			return err
		}
		out = app.Schema()
		if !withArts {
			return nil
		}
		zbuf := bytes.Buffer{}
		if err := app.WriteZip(&zbuf); err != nil {
			return fmt.Errorf("artifacts: %w", err)
		}
		zr, err := zip.NewReader(bytes.NewReader(zbuf.Bytes()), int64(zbuf.Len()))
		if err != nil {
			return err
		}
		items := map[string]jv{}
		names := []string{}
		for _, f := range zr.File {
			rc, err := f.Open()
			if err != nil {
				return err
			}
			data, err := io.ReadAll(rc)
			rc.Close()
			if err != nil {
				return err
			}
			items[f.Name] = jarr(jstr(f.Name), jint(int64(len(data))), digest(data))
			names = append(names, f.Name)
		}
		sort.Strings(names)
		l := []jv{}
		for _, n := range names {
			l = append(l, items[n])
		}
		arts = jlist(l)
		return nil
	})
	return
}

// readFileGeneric: [ nodes; producers; metadata; buffers ] with
// node = [id; type string; [[name; dependency id; port] in FILE ORDER]; data object or JNull]
func readFileGeneric(file []byte) (jv, error) {
	var doc struct {
		Buffers []struct {
			ByteLength int    `json:"byteLength"`
			URI        string `json:"uri"`
		} `json:"buffers"`
		BufferViews json.RawMessage `json:"bufferViews"`
		Data        struct {
			Producers map[string]struct {
				NodeID string `json:"nodeID"`
				Port   string `json:"port"`
			} `json:"producers"`
			Nodes map[string]struct {
				Type         string `json:"type"`
				Dependencies []struct {
					DependencyID   string `json:"dependencyID"`
					DependencyPort string `json:"dependencyPort"`
					Name           string `json:"name"`
				} `json:"dependencies"`
				Data json.RawMessage `json:"data"`
			} `json:"nodes"`
			Metadata json.RawMessage `json:"metadata"`
		} `json:"data"`
	}
	if err := json.Unmarshal(file, &doc); err != nil {
		return jv{}, err
	}
	ids := []string{}
	for id := range doc.Data.Nodes {
		ids = append(ids, id)
	}
	sort.Strings(ids)
	nodesOut := []jv{}
	for _, id := range ids {
		n := doc.Data.Nodes[id]
		deps := []jv{}
		for _, d := range n.Dependencies {
			deps = append(deps, jarr(jstr(d.Name), jstr(d.DependencyID), jstr(d.DependencyPort)))
		}
		data := jnull()
		if len(n.Data) > 0 {
			data = mustJSON(n.Data)
		}
		nodesOut = append(nodesOut, jarr(jstr(id), jstr(n.Type), jlist(deps), data))
	}
	pn := []string{}
	for name := range doc.Data.Producers {
		pn = append(pn, name)
	}
	sort.Strings(pn)
	prods := []jv{}
	for _, name := range pn {
		p := doc.Data.Producers[name]
		prods = append(prods, jarr(jstr(name), jstr(p.NodeID), jstr(p.Port)))
	}
	meta := jnull()
	if len(doc.Data.Metadata) > 0 {
		meta = mustJSON(doc.Data.Metadata)
	}
	bufs := []jv{}
	for _, b := range doc.Buffers {
		if !strings.HasPrefix(b.URI, dataURI) {
			return jv{}, fmt.Errorf("buffer uri")
		}
		raw, err := base64.StdEncoding.DecodeString(b.URI[len(dataURI):])
		if err != nil || len(raw) != b.ByteLength {
			return jv{}, fmt.Errorf("buffer length")
		}
		bufs = append(bufs, jbytes(raw))
	}
	views := jnull()
	if len(doc.BufferViews) > 0 {
		views = mustJSON(doc.BufferViews)
	}
	return jarr(jlist(nodesOut), jlist(prods), meta, jlist(bufs), views), nil
}

// artifactContent: what of an artifact's bytes is content. A glTF document lists the names of the extensions it
// uses in `extensionsUsed` / `extensionsRequired` — SETS of names by the glTF 2.0 specification; polyform's writer fills
// them by ranging over a Go map, so two writes of the very same artifact of the very same instance differ in the order
// of these two lists and in nothing else (examples/graphs/ufo.json: ufo.glb, 5 byte variants). For .glb / .gltf the two
// lists are sorted before the digest is taken; every other byte (the rest of the JSON chunk as it stands, the BIN
// chunk, lengths, padding) is compared as written. Anything that does not parse is compared as raw bytes.
func artifactContent(name string, data []byte) []byte {
	lower := strings.ToLower(name)
	switch {
	case strings.HasSuffix(lower, ".gltf"):
		if c, ok := canonGltfJSON(data); ok {
			return c
		}
	case strings.HasSuffix(lower, ".glb"):
		// header: magic, version, length; then chunks (length, type, payload), the first one JSON
		if len(data) < 20 || string(data[:4]) != "glTF" || string(data[16:20]) != "JSON" {
			return data
		}
		n := int(uint32(data[12]) | uint32(data[13])<<8 | uint32(data[14])<<16 | uint32(data[15])<<24)
		if n < 0 || 20+n > len(data) {
			return data
		}
		if c, ok := canonGltfJSON(data[20 : 20+n]); ok {
			out := append([]byte{}, data[:20]...)
			out = append(out, c...)
			return append(out, data[20+n:]...)
		}
	}
	return data
}

// canonGltfJSON: the document with its two extension-name lists sorted; the text of every other member is kept
func canonGltfJSON(doc []byte) ([]byte, bool) {
	var top map[string]json.RawMessage
	if err := json.Unmarshal(doc, &top); err != nil {
		return nil, false
	}
	for _, k := range []string{"extensionsUsed", "extensionsRequired"} {
		raw, ok := top[k]
		if !ok {
			continue
		}
		var names []string
		if err := json.Unmarshal(raw, &names); err != nil {
			return nil, false
		}
		sort.Strings(names)
		b, _ := json.Marshal(names)
		top[k] = b
	}
	// members in their original order of appearance is not recoverable from a map: write them sorted by key, each
	// with its original text (the writer's member order is fixed by its struct, so this loses nothing)
	keys := make([]string, 0, len(top))
	for k := range top {
		keys = append(keys, k)
	}
	sort.Strings(keys)
	var out bytes.Buffer
	for _, k := range keys {
		kb, _ := json.Marshal(k)
		out.Write(kb)
		out.WriteByte(':')
		out.Write(top[k])
		out.WriteByte('\n')
	}
	return out.Bytes(), true
}
