package main

// The FILE-level save path: generator.GraphSaver.Save() is what every endpoint of the edit server calls after its
// edit (autosave): App.Schema() written to the graph file. A history with a saver mode drives the real saver on a
// real file in a temporary directory — after every edit ("each", as the endpoints do) or at the reads and once
// after the last edit ("evals") — and the file that is loaded into the fresh application is the one READ BACK
// FROM DISK (os.ReadFile + ApplySchema, what `polyform edit <graph.json>` does), not bytes kept in memory.
// GraphSaver's fields are unexported; as with App.graphInstance the harness sets them through reflect + unsafe
// (fields `app *App`, `savePath string`; anything else keeps its zero value).

import (
	"fmt"
	"os"
	"path/filepath"
	"reflect"
	"unsafe"

	"github.com/EliCDavis/polyform/generator"
	"github.com/EliCDavis/polyform/generator/graph"
)

type saverInfo struct {
	gs   *generator.GraphSaver
	path string
	each bool // Save() after every edit
}

var saverOf = map[*graph.Instance]*saverInfo{}
var saverDir string
var saverCount int

func setUnexported(v reflect.Value, name string, val any) {
	f := v.FieldByName(name)
	if !f.IsValid() || !reflect.TypeOf(val).AssignableTo(f.Type()) {
		panic(fmt.Errorf("harness: generator.GraphSaver no longer has a field %s of type %T", name, val))
	}
	reflect.NewAt(f.Type(), unsafe.Pointer(f.UnsafeAddr())).Elem().Set(reflect.ValueOf(val))
}

// attachSaver: the saver of an edit server started with -autosave on this application
func attachSaver(app *generator.App, inst *graph.Instance, mode string, nOps int) {
	if mode == "" {
		return
	}
	if saverDir == "" {
		d, err := os.MkdirTemp("", "c12-saver-")
		if err != nil {
			panic(err)
		}
		saverDir = d
	}
	saverCount++
	gs := &generator.GraphSaver{}
	path := filepath.Join(saverDir, fmt.Sprintf("graph-%d.json", saverCount))
	v := reflect.ValueOf(gs).Elem()
	setUnexported(v, "app", app)
	setUnexported(v, "savePath", path)
	saverOf[inst] = &saverInfo{gs: gs, path: path, each: mode == "each" && nOps <= 400}
}

// saverSave: one Save() of the instance's saver (no saver: nothing)
func saverSave(inst *graph.Instance) outcome {
	s, ok := saverOf[inst]
	if !ok {
		return outcome{ok: true}
	}
	return guard(func() error { s.gs.Save(); return nil })
}

// savedFile: the server's save after the last edit, then the graph file as it is on disk
func savedFile(inst *graph.Instance) ([]byte, string) {
	s, ok := saverOf[inst]
	if !ok {
		return nil, ""
	}
	if o := saverSave(inst); !o.ok {
		return nil, "GraphSaver.Save: " + o.class + ": " + o.msg
	}
	b, err := os.ReadFile(s.path)
	if err != nil {
		return nil, "graph file: " + err.Error()
	}
	return b, ""
}

func dropSaver(inst *graph.Instance) {
	if s, ok := saverOf[inst]; ok {
		os.Remove(s.path)
		delete(saverOf, inst)
	}
}

func cleanupSaver() {
	if saverDir != "" {
		os.RemoveAll(saverDir)
		saverDir = ""
	}
}
