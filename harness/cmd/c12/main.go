// C12 harness: a saved graph reloads to the same graph, the same artifacts and, re-saved, the same bytes.
//
// Runs random edit histories against the real generator/graph.Instance (through the same calls the HTTP
// API makes), saves (EncodeToAppSchema + jbtf ToPgtf = generator.App.Schema), loads the file into a
// fresh instance and into a fresh generator.App, and writes the observations as Coq cases for
// Check/C12.v: instance structure before/after, artifact digests before/after, the saved file parsed
// into a tree, digests of every save.  Plus every graph file shipped under examples/.
package main

import (
	"bytes"
	"encoding/json"
	"flag"
	"fmt"
	"io"
	"log"
	"os"
	"path/filepath"
	"sort"
	"strings"

	"github.com/EliCDavis/polyform/generator/graph"

	"verif/harness/hx"
)

const (
	keyOverread  = "graph:file-param-overread"
	keyImageDesc = "graph:image-param-description"
)

func repoDir() string {
	if d := os.Getenv("VERIF_REPO"); d != "" {
		return d
	}
	return "/repo"
}

type saved struct {
	bytes []byte
	info  fileInfo
	err   string
}

func saveAndRead(inst *graph.Instance, d histDesc) saved {
	var s saved
	if o := guard(func() error { s.bytes = saveInstance(inst, d); return nil }); !o.ok {
		s.err = "save: " + o.class + ": " + o.msg
		return s
	}
	info, err := readFile(s.bytes)
	if err != nil {
		s.err = "saved file: " + err.Error()
		return s
	}
	s.info = info
	return s
}

// observation of one instance: structure, artifacts, its save
type obs struct {
	sum, art jv
	sv       saved
	err      string
}

func observe(inst *graph.Instance, d histDesc) obs {
	o := obs{sum: jnull(), art: jnull()}
	o.sv = saveAndRead(inst, d)
	if o.sv.err != "" {
		o.err = o.sv.err
		return o
	}
	sum, err := summarize(inst, append([]string{}, o.sv.info.ids...))
	if err != nil {
		o.err = "summary: " + err.Error()
		return o
	}
	o.sum = sum
	o.art = artifacts(inst)
	return o
}

// node parts of a summary tree
func sumNodes(sum jv) []jv { return sum.arr[0].arr }
func nodeID(n jv) string   { return n.arr[0].s }
func nodeTy(n jv) int      { return int(n.arr[1].i) }

var lastInfo fileInfo // the first save of the last history (distribution bookkeeping only)
var distCounts = map[string]int{}

const textCap = 12 << 10

// textComparable: no number other than an int64 integer, no byte 0xE2 in any string (mirrors Schema.schema_plain)
func textComparable(v jv) bool {
	switch v.k {
	case jNum, jBig:
		return false
	case jStr:
		return !strings.Contains(v.s, "\xe2")
	case jArr:
		for _, x := range v.arr {
			if !textComparable(x) {
				return false
			}
		}
	case jObj:
		for i := range v.keys {
			if strings.Contains(v.keys[i], "\xe2") || !textComparable(v.vals[i]) {
				return false
			}
		}
	}
	return true
}

func run_count(k string) { distCounts[k]++ }

// applyOps runs the ops; reads ("eval") are not part of what the model is told
func applyOps(inst *graph.Instance, ops []Op) (opsCoq, oks []string) {
	opsCoq, oks = []string{}, []string{}
	for _, op := range ops {
		s, o := applyOp(inst, op)
		if s == "" {
			continue
		}
		if sv, ok := saverOf[inst]; ok && sv.each { // every endpoint of the edit server ends with saver.Save()
			saverSave(inst)
		}
		opsCoq = append(opsCoq, s)
		oks = append(oks, hx.CoqBool(o.ok))
	}
	return
}

// histCases runs one history; it yields one case, or two when the reload differs only by the known
// over-read / missing Image description (the second case carries the observations after undoing exactly
// that difference through the API, and must hold in full).
func histCases(d histDesc) []hx.Case {
	c := hx.Case{Kind: "hist", Desc: d}
	keyb, _ := json.Marshal(d)
	c.Key = string(keyb)

	app, inst := newApp(d) // the live graph is an application's (saves are App.Schema())
	defer func() { forget(inst) }()
	attachSaver(app, inst, d.Saver, len(d.Ops))
	opsCoq, oks := applyOps(inst, d.Ops)
	fail := func(msg, key string) []hx.Case {
		c.GoFail, c.FailKey = msg, key
		c.Coq = fmt.Sprintf("CHist false [%s] [%s] JNull JNull JNull [] false None None None [] 0 None None",
			strings.Join(opsCoq, ";\n  "), strings.Join(oks, ";"))
		return []hx.Case{c}
	}

	a := observe(inst, d)
	if a.err != "" {
		return fail("before reload: "+a.err, "graph:save-fails")
	}
	lastInfo = a.sv.info
	// the SAME application saved repeatedly (App.Schema() x4), and its instance once more at graph level
	// (EncodeToAppSchema with a fresh encoder)
	resaves := func(i *graph.Instance, first []byte) ([]string, string) {
		ds := []string{digest(first).s}
		for k := 0; k < 4; k++ {
			var again []byte
			save := saveInstance
			if k == 3 {
				save = saveGraphLevel
			}
			if o := guard(func() error { again = save(i, d); return nil }); !o.ok {
				return nil, o.msg
			}
			ds = append(ds, digest(again).s)
		}
		return ds, ""
	}
	digs, rerr := resaves(inst, a.sv.bytes)
	if rerr != "" {
		return fail("repeated save: "+rerr, "graph:save-fails")
	}
	// with a saver: the graph file on disk after the server's last save is what gets loaded (and its bytes are one
	// more save that must agree with the others)
	loaded := a.sv.bytes
	if d.Saver != "" {
		file, ferr := savedFile(inst)
		if ferr != "" {
			return fail(ferr, "graph:save-fails")
		}
		loaded = file
		digs = append(digs, digest(file).s)
		run_count("saver:" + d.Saver + ": graph file written by GraphSaver, read back from disk, loaded")
	}

	// load into a fresh application (fresh App, ApplySchema), saved repeatedly as well
	app2, inst2 := newApp(histDesc{})
	defer func() { forget(inst2) }()
	attachSaver(app2, inst2, d.Saver, len(d.Cont))
	ro := guard(func() error { return app2.ApplySchema(loaded) })
	b := obs{sum: jnull(), art: jnull()}
	file2, dig2 := jnull(), "0"
	if ro.ok {
		b = observe(inst2, d)
		if b.err != "" {
			return fail("after reload: "+b.err, "graph:resave-fails")
		}
		ds, rerr := resaves(inst2, b.sv.bytes)
		if rerr != "" {
			return fail("repeated save after reload: "+rerr, "graph:resave-fails")
		}
		file2, dig2 = b.sv.info.tree, strings.Join(ds, ";")
	}
	// and into a bare graph.Instance (ApplyAppSchema), saved at graph level
	digApp := "0"
	if out, o := plainReload(a.sv.bytes, d); o.ok {
		digApp = digest(out).s
	}

	// an after-tree that renders to the same text as the before-tree is written as None (parsing the case
	// files dominates the cost of a run)
	same := func(before, after jv) string {
		if x := after.Coq(); x != before.Coq() {
			return "(Some " + x + ")"
		}
		return "None"
	}
	// the bytes of the first save, for the exact comparison with the model's rendering: small files whose
	// values avoid what the Coq printer delegates (floating-point texts, U+2028/2029)
	text1 := "None"
	if len(a.sv.bytes) <= textCap && textComparable(a.sv.info.tree) && d.Authors == "" && d.WebScene == "" {
		text1 = fmt.Sprintf("(Some (mkhdr %s %s %s, %s))", hx.CoqString(d.AppName), hx.CoqString(d.AppVersion),
			hx.CoqString(d.AppDesc), hx.CoqString(string(a.sv.bytes)))
		run_count("save-text-compared-with-model")
	}
	render := func(modulo bool, sumB, artB, f2 jv, d2, dApp, cont string) string {
		return fmt.Sprintf("CHist %v\n [%s]\n [%s]\n %s\n %s\n %s\n [%s] %v\n %s\n %s\n %s\n [%s] %s\n %s\n %s",
			modulo, strings.Join(opsCoq, ";\n  "), strings.Join(oks, ";"),
			a.sum.Coq(), a.art.Coq(), a.sv.info.tree.Coq(), strings.Join(digs, ";"), ro.ok,
			same(a.sum, sumB), same(a.art, artB), same(a.sv.info.tree, f2), d2, dApp, cont, text1)
	}
	// the continuation: the same further edits on the live and on the reloaded instance, then everything again
	continuation := func() (string, string) {
		if len(d.Cont) == 0 {
			return "None", ""
		}
		opsL, oksL := applyOps(inst, d.Cont)
		_, oksR := applyOps(inst2, d.Cont)
		l := observe(inst, d)
		if l.err != "" {
			return "None", "after the continuation: " + l.err
		}
		cdigs, rerr := resaves(inst, l.sv.bytes)
		if rerr != "" {
			return "None", "repeated save after the continuation: " + rerr
		}
		re := observe(inst2, d)
		sumR, artR, fileR := jstr(re.err), jnull(), jnull()
		if re.err == "" {
			sumR, artR, fileR = re.sum, re.art, re.sv.info.tree
			ds, rerr := resaves(inst2, re.sv.bytes)
			if rerr != "" {
				ds = []string{"0"}
			}
			cdigs = append(cdigs, ds...)
		} else {
			cdigs = append(cdigs, "0")
		}
		// and the save made after the continuation (the live application has been saved before: this is its
		// second, third ... save) is loaded into yet another fresh application
		// with savers: both graph files after the continuation's last save are further saves; the live one is loaded
		lsv := l.sv
		if d.Saver != "" {
			for _, i := range []*graph.Instance{inst, inst2} {
				file, ferr := savedFile(i)
				if ferr != "" {
					return "None", "after the continuation: " + ferr
				}
				cdigs = append(cdigs, digest(file).s)
				if i == inst {
					lsv.bytes = file
				}
			}
		}
		again := reloadAgain(lsv, l.sum)
		return fmt.Sprintf("(Some (mkcont\n [%s]\n [%s] [%s]\n %s\n %s\n %s\n %s\n %s\n %s\n [%s]\n %s))",
			strings.Join(opsL, ";\n  "), strings.Join(oksL, ";"), strings.Join(oksR, ";"),
			l.sum.Coq(), l.art.Coq(), l.sv.info.tree.Coq(), same(l.sum, sumR), same(l.art, artR), same(l.sv.info.tree, fileR),
			strings.Join(cdigs, ";"), same(l.sum, again)), ""
	}
	c.Coq = render(false, b.sum, b.art, file2, dig2, digApp, "None")
	c.Nontriv = a.sv.info.nDeps >= 1 && len(a.sv.info.ids) >= 2
	out := []hx.Case{c}

	sameDigs := true
	for _, x := range digs {
		sameDigs = sameDigs && x == digs[0]
	}
	sameDigs2 := true
	for _, x := range strings.Split(dig2, ";") {
		sameDigs2 = sameDigs2 && x == digs[0]
	}
	strict := ro.ok && sameDigs && a.sum.equal(b.sum) && a.art.equal(b.art) && a.sv.info.tree.equal(file2) &&
		sameDigs2 && digApp == digs[0]
	if strict && len(d.Cont) > 0 {
		cont, err := continuation()
		if err != "" {
			return fail(err, "graph:save-fails")
		}
		out[0].Coq = render(false, b.sum, b.art, file2, dig2, digApp, cont)
		run_count("continuation:after-identical-reload")
	}
	if strict || !ro.ok || !sameDigs {
		return out
	}

	// Does the reload differ only by (1) File payloads that grew by the bytes stored after them, (2) the
	// description of Image parameters?  Undo exactly these through the API and compare everything again.
	needFile, needImg := false, false
	na, nb := sumNodes(a.sum), sumNodes(b.sum)
	if len(na) != len(nb) {
		return out
	}
	views := fileViews(a.sv.info) // File node id -> (offset, length) of its payload view in file 1
	for k := range na {
		if nodeID(na[k]) != nodeID(nb[k]) || nodeTy(na[k]) != nodeTy(nb[k]) {
			return out
		}
		ra, rb := na[k].arr[3], nb[k].arr[3]
		if ra.k != jArr || rb.k != jArr {
			continue
		}
		id := nodeID(na[k])
		switch tyTable[nodeTy(na[k])].PKind {
		case 2:
			if !ra.arr[3].equal(rb.arr[3]) {
				v, ok := views[id]
				cur := inst2.Parameter(id).ToMessage()
				if !ok || !a.sv.info.overread || v[0]+v[1] > len(a.sv.info.buffer) || !bytes.Equal(cur, a.sv.info.buffer[v[0]:]) {
					return out // not the over-read
				}
				needFile = true
				inst2.UpdateParameter(id, append([]byte{}, cur[:v[1]]...))
			}
		case 3:
			if !ra.arr[1].equal(rb.arr[1]) {
				needImg = true
				inst2.Parameter(id).SetDescription(ra.arr[1].s)
			}
		}
	}
	if !needFile && !needImg {
		return out
	}
	m := observe(inst2, d)
	if m.err != "" {
		return out
	}
	mdigs, rerr := resaves(inst2, m.sv.bytes)
	if rerr != "" {
		return out
	}
	againOK := true
	for _, x := range mdigs {
		againOK = againOK && x == digs[0]
	}
	modOK := a.sum.equal(m.sum) && a.art.equal(m.art) && a.sv.info.tree.equal(m.sv.info.tree) &&
		bytes.Equal(m.sv.bytes, a.sv.bytes) && againOK
	if modOK {
		// a history showing both defects is reported under the Image key (the repairable one)
		if needImg {
			out[0].FailKey = keyImageDesc
		} else {
			out[0].FailKey = keyOverread
		}
	}
	c2 := hx.Case{Kind: "hist", Desc: d, Key: c.Key + "|modulo", Nontriv: false}
	cont := "None"
	if modOK && len(d.Cont) > 0 {
		var err string
		if cont, err = continuation(); err != "" {
			return fail(err, "graph:save-fails")
		}
		run_count("continuation:after-repaired-reload")
	}
	c2.Coq = render(true, m.sum, m.art, m.sv.info.tree, strings.Join(mdigs, ";"), digs[0], cont)
	return append(out, c2)
}

// reloadAgain: a save loaded into a fresh application; the structure of what was loaded.  Where the loaded graph
// differs from the wanted one by File payloads that grew by exactly the bytes stored after them (the known
// over-read), these are cut back through the API first, as in the 'modulo' twin of a history.
func reloadAgain(sv saved, want jv) jv {
	app, inst := newApp(histDesc{})
	defer forget(inst)
	if o := guard(func() error { return app.ApplySchema(sv.bytes) }); !o.ok {
		return jstr("the save made after the continuation does not load: " + o.class)
	}
	sum, err := summarize(inst, append([]string{}, sv.info.ids...))
	if err != nil {
		return jstr("after loading the save made after the continuation: " + err.Error())
	}
	if sum.equal(want) || !sv.info.overread {
		return sum
	}
	nw, ng := sumNodes(want), sumNodes(sum)
	if len(nw) != len(ng) {
		return sum
	}
	views := fileViews(sv.info)
	for k := range nw {
		if nodeID(nw[k]) != nodeID(ng[k]) || nodeTy(nw[k]) != nodeTy(ng[k]) || tyTable[nodeTy(nw[k])].PKind != 2 {
			continue
		}
		id := nodeID(nw[k])
		v, ok := views[id]
		if !ok || nw[k].arr[3].equal(ng[k].arr[3]) {
			continue
		}
		cur := inst.Parameter(id).ToMessage()
		if v[0]+v[1] <= len(sv.info.buffer) && bytes.Equal(cur, sv.info.buffer[v[0]:]) {
			inst.UpdateParameter(id, append([]byte{}, cur[:v[1]]...))
			run_count("continuation:second-reload-over-read-undone")
		}
	}
	if sum, err = summarize(inst, append([]string{}, sv.info.ids...)); err != nil {
		return jstr(err.Error())
	}
	return sum
}

// fileViews: File/Image node id -> (offset, length) of its payload view in a saved file
func fileViews(info fileInfo) map[string][2]int {
	views := map[string][2]int{}
	for _, fn := range info.tree.arr[0].arr {
		if data := fn.arr[3]; data.k == jArr && len(data.arr[2].arr) == 2 {
			views[fn.arr[0].s] = [2]int{int(data.arr[2].arr[0].i), int(data.arr[2].arr[1].i)}
		}
	}
	return views
}

// ---- shipped graph files ----

type fileDesc struct {
	Path string `json:"path"` // relative to the repository root
}

func fileCase(d fileDesc, withArts bool) hx.Case {
	c := hx.Case{Kind: "file", Desc: d, Key: "file|" + d.Path, Nontriv: true}
	bad := func(msg string) hx.Case {
		c.GoFail, c.FailKey = msg, "graph:example-file"
		c.Coq = "CFile JNull None JNull None 0 1"
		return c
	}
	raw, err := os.ReadFile(filepath.Join(repoDir(), d.Path))
	if err != nil {
		return bad(err.Error())
	}
	// artifacts (thorough tier; 6 s per load of ufo.json): only those that are deterministic functions of
	// the graph, i.e. that two loads of the SAME bytes reproduce, are compared across the re-save
	s1, art1, o := appLoadSave(raw, withArts)
	if !o.ok {
		return bad("loading the shipped file: " + o.msg)
	}
	s2, art2, o := appLoadSave(s1, withArts)
	if !o.ok {
		return bad("loading the re-saved file: " + o.msg)
	}
	if withArts {
		_, art1b, o := appLoadSave(raw, true)
		if !o.ok {
			return bad("loading the shipped file again: " + o.msg)
		}
		art1, art2 = deterministicOnly(art1, art1b, art2)
	}
	t1, err := readFileGeneric(s1)
	if err != nil {
		return bad("re-saved file: " + err.Error())
	}
	t2, err := readFileGeneric(s2)
	if err != nil {
		return bad("second re-saved file: " + err.Error())
	}
	same := func(before, after jv) string {
		if x := after.Coq(); x != before.Coq() {
			return "(Some " + x + ")"
		}
		return "None"
	}
	c.Coq = fmt.Sprintf("CFile\n %s\n %s\n %s\n %s\n %s %s", t1.Coq(), same(t1, t2), art1.Coq(), same(art1, art2),
		digest(s1).s, digest(s2).s)
	// diagnostics only (the verdict is prop_ok's): say what differs
	if !art1.equal(art2) && len(art1.arr) == len(art2.arr) {
		for k := range art1.arr {
			if !art1.arr[k].equal(art2.arr[k]) {
				c.Desc = map[string]any{"path": d.Path, "artifact_differs": art1.arr[k].arr[0].s}
			}
		}
	}
	return c
}

// ---- main ----

func main() {
	log.SetOutput(io.Discard) // GraphSaver logs every write
	defer cleanupSaver()
	table := flag.Bool("table", false, "print the observed node-type table as a Coq term and exit")
	run := hx.ParseFlags("C12", "Check.C12")
	initTable()
	if *table {
		fmt.Println(tableCoq())
		return
	}
	for _, in := range run.Inputs() {
		switch in.Kind {
		case "hist":
			var d histDesc
			if err := json.Unmarshal(in.Raw, &d); err != nil {
				panic(err)
			}
			for _, c := range histCases(d) {
				run.Add(c)
			}
		case "file":
			var d fileDesc
			json.Unmarshal(in.Raw, &d)
			run.Add(fileCase(d, run.Tier == "thorough"))
		case "table":
			run.Add(tableCase())
		case "code":
			var d codeDesc
			json.Unmarshal(in.Raw, &d)
			run.Add(codeCase(d))
		}
	}
	if run.Replay != "" {
		cleanupSaver()
		run.Finish()
		return
	}
	run.Add(tableCase())
	// every graph file shipped with the repository
	files, _ := filepath.Glob(filepath.Join(repoDir(), "examples", "graphs", "*.json"))
	sort.Strings(files)
	for _, f := range files {
		rel, _ := filepath.Rel(repoDir(), f)
		run.Add(fileCase(fileDesc{Path: rel}, run.Tier == "thorough"))
	}
	for _, d := range fixedHistories() {
		for _, c := range histCases(d) {
			run.Add(c)
		}
	}
	r := hx.NewRng(run.Seed)
	// graphs built in code (App.Files -> AddProducer): registered parameter records of every kind
	rc := hx.NewRng(run.Seed ^ 0xC0DE)
	for i := 0; i < 6+run.N/10; i++ {
		run.Add(codeCase(codeDesc{Seed: rc.U64()}))
	}
	for i := 0; i < run.N; i++ {
		d := genHist(r, run, i)
		cs := histCases(d)
		for _, c := range cs {
			run.Add(c)
		}
		switch m := lastInfo.maxArray; {
		case m >= 11:
			run.Count("array-connections:>=11")
		case m >= 1:
			run.Count("array-connections:1-10")
		default:
			run.Count("array-connections:0")
		}
		if lastInfo.nPayloads >= 2 {
			run.Count("binary-payloads:>=2")
		}
		if len(cs) > 1 {
			run.Count("hist:reload-differs-by-known-defect")
		}
		if cs[0].FailKey != "" {
			run.Count("failkey:" + cs[0].FailKey)
		}
	}
	for k, n := range imageKinds {
		run.Dist["image-upload:"+k] += n
	}
	for k, n := range distCounts {
		run.Dist[k] += n
	}
	cleanupSaver()
	run.Finish()
}

// deterministicOnly keeps, of the artifact lists a (first load) and c (load of the re-saved file), the
// entries whose name and content a second load b of the first file reproduced.
func deterministicOnly(a, b, c jv) (jv, jv) {
	if a.k != jArr || b.k != jArr || c.k != jArr || len(a.arr) != len(b.arr) || len(a.arr) != len(c.arr) {
		return a, c
	}
	var oa, oc []jv
	for k := range a.arr {
		if a.arr[k].equal(b.arr[k]) {
			oa, oc = append(oa, a.arr[k]), append(oc, c.arr[k])
		} else { // keep the name: the set of artifacts must still agree
			oa, oc = append(oa, jarr(a.arr[k].arr[0])), append(oc, jarr(c.arr[k].arr[0]))
		}
	}
	return jlist(oa), jlist(oc)
}

func tableCase() hx.Case {
	return hx.Case{Kind: "table", Desc: map[string]string{}, Key: "table", Coq: "CTable " + tableCoq()}
}
