package main

// Graphs BUILT IN CODE: a generator.App whose Files map holds node outputs wired up in Go (how every example
// program of the repository defines its graph). App.Schema() hands them to Instance.AddProducer, which registers
// the types and assigns the ids by walking the dependencies (buildIDsForNode: dependencies first, shared
// sub-graphs once). Parameters built this way carry what no edit can give them: a registered default value, a
// CLI flag, a name and description from the start — for EVERY Value[T] kind. The saved graph must load into a
// fresh application as the same graph (structure, artifacts) and re-save to the same bytes.

import (
	"encoding/json"
	"fmt"
	"math"
	"strings"

	"github.com/EliCDavis/polyform/drawing/coloring"
	"github.com/EliCDavis/polyform/generator"
	"github.com/EliCDavis/polyform/generator/artifact"
	"github.com/EliCDavis/polyform/generator/artifact/basics"
	"github.com/EliCDavis/polyform/generator/parameter"
	"github.com/EliCDavis/polyform/math/geometry"
	"github.com/EliCDavis/polyform/nodes"
	"github.com/EliCDavis/vector/vector2"
	"github.com/EliCDavis/vector/vector3"

	"verif/harness/hx"
)

type codeDesc struct {
	Seed uint64 `json:"seed"` // everything about the graph is drawn from this seed
}

func mustFloat(s string) float64 {
	var f float64
	if err := json.Unmarshal([]byte(s), &f); err != nil {
		return 0
	}
	return f
}

func cliOfKind[T any](r *hx.Rng) *parameter.CliConfig[T] {
	if r.Chance(1, 2) {
		return nil
	}
	return &parameter.CliConfig[T]{FlagName: hx.Pick(r, []string{"flag", "", "a-b", "ünï", "q\"<&>"}), Usage: genString(r)}
}

// buildCodeGraph: parameters of every kind with registered records, processors over them (array inputs with up to
// 14 elements, shared sources), artifacts; returns the Files map of the application
func buildCodeGraph(r *hx.Rng) map[string]nodes.NodeOutput[artifact.Artifact] {
	fl := func() float64 { return mustFloat(genMetaNumber(r)) }
	v3 := func() vector3.Float64 { return vector3.New(fl(), fl(), fl()) }
	f64s := []*parameter.Float64{}
	for k, n := 0, r.Range(1, 5); k < n; k++ {
		f64s = append(f64s, &parameter.Float64{Name: genString(r), Description: genString(r), DefaultValue: fl(), CLI: cliOfKind[float64](r)})
	}
	strs := []*parameter.String{}
	for k, n := 0, r.Range(1, 4); k < n; k++ {
		strs = append(strs, &parameter.String{Name: genString(r), Description: genString(r), DefaultValue: genString(r), CLI: cliOfKind[string](r)})
	}
	pInt := &parameter.Int{Name: genString(r), DefaultValue: hx.Pick(r, []int{0, -1, 7, 1 << 62, -1 << 63, 1<<63 - 1}), CLI: cliOfKind[int](r)}
	pBool := &parameter.Bool{Name: "flag", Description: genString(r), DefaultValue: r.Bool(), CLI: cliOfKind[bool](r)}
	pV2 := &parameter.Vector2{Name: genString(r), DefaultValue: vector2.New(fl(), fl())}
	pV3 := &parameter.Vector3{Name: genString(r), Description: genString(r), DefaultValue: v3()}
	pts := []vector3.Float64{}
	for k, n := 0, r.Intn(4); k < n; k++ {
		pts = append(pts, v3())
	}
	pArr := &parameter.Vector3Array{Name: "points", DefaultValue: pts}
	if r.Chance(1, 3) {
		pArr.DefaultValue = nil
	}
	pBox := &parameter.AABB{Name: genString(r), DefaultValue: geometry.NewAABB(v3(), v3())}
	pCol := &parameter.Color{Name: genString(r), Description: genString(r),
		DefaultValue: coloring.WebColor{R: byte(r.Intn(256)), G: byte(r.Intn(256)), B: byte(r.Intn(20)), A: byte(hx.Pick(r, []int{255, 0, 7, 128, 254}))}}
	f32 := float32(fl())
	if math.IsInf(float64(f32), 0) { // not a value a save can hold (encoding/json refuses it)
		f32 = math.MaxFloat32
	}
	pF32 := &F32Param{Name: genString(r), DefaultValue: f32, CLI: cliOfKind[float32](r)}
	pTags := &StrsParam{Name: "tags", DefaultValue: []string{genString(r), "", genString(r)}}
	pFile := &parameter.File{Name: genString(r), Description: genString(r)}
	pImg := &parameter.Image{Name: genString(r), Description: genString(r)}
	// some parameters have been set as well (a value besides the default)
	if r.Chance(1, 2) {
		f64s[0].ApplyMessage([]byte(genMetaNumber(r)))
	}
	if r.Chance(1, 2) {
		pCol.ApplyMessage([]byte(`"#0a0b0c0d"`))
	}
	if r.Chance(2, 3) {
		pFile.ApplyMessage([]byte(genString(r)))
	}
	if pFile.Value() == nil || r.Chance(1, 8) { // mostly one payload only: a File payload followed by another is the known over-read
		pImg.ApplyMessage(genPNG(r))
	}

	sum := &SumNode{}
	for k, n := 0, hx.Pick(r, []int{0, 1, 2, 9, 10, 11, 12, 14}); k < n; k++ {
		sum.Data.Values = append(sum.Data.Values, hx.Pick(r, f64s).Out())
	}
	for k, n := 0, hx.Pick(r, []int{0, 1, 11}); k < n; k++ {
		sum.Data.ValuesB = append(sum.Data.ValuesB, hx.Pick(r, f64s).Out())
	}
	if r.Chance(1, 2) {
		sum.Data.Bias = pInt.Out()
	}
	if r.Chance(1, 2) {
		sum.Data.Value = f64s[0].Out()
	}
	mix := &MixNode{}
	for k, n := 0, hx.Pick(r, []int{1, 3, 12}); k < n; k++ {
		mix.Data.Vals = append(mix.Data.Vals, hx.Pick(r, f64s).Out())
		mix.Data.Values2 = append(mix.Data.Values2, sum.Out()) // a processor as the source of many elements
	}
	mix.Data.VALUE = sum.Out()
	join := &JoinNode{}
	for k, n := 0, hx.Pick(r, []int{1, 2, 11, 13}); k < n; k++ {
		join.Data.Parts = append(join.Data.Parts, hx.Pick(r, strs).Out())
	}
	join.Data.Numbers = []nodes.NodeOutput[float64]{sum.Out(), mix.Out(), f64s[len(f64s)-1].Out()}
	join.Data.Flag = pBool.Out()
	if r.Chance(1, 2) {
		join.Data.Sep = strs[0].Out()
	}
	desc := &DescribeNode{Data: DescribeData{V2: pV2.Out(), V3: pV3.Out(), Pts: pArr.Out(), Box: pBox.Out(), Tint: pCol.Out(),
		Blob: pFile.Out(), Pic: pImg.Out(), F32: pF32.Out(), Tags: pTags.Out(), Count: pInt.Out()}}
	for k, n := 0, r.Intn(4); k < n; k++ {
		desc.Data.Texts = append(desc.Data.Texts, join.Out()) // shared sub-graph
	}
	cat := &CatNode{Data: CatData{Blobs: []nodes.NodeOutput[[]byte]{pFile.Out(), pFile.Out()}}}

	files := map[string]nodes.NodeOutput[artifact.Artifact]{}
	name := func(base string) string { return namePrefix(r) + base }
	files[name("join.txt")] = basics.NewTextNode(join.Out())
	files[name("describe.txt")] = basics.NewTextNode(desc.Out())
	if r.Chance(2, 3) {
		files[name("cat.bin")] = (&basics.BinaryNode{Data: basics.BinaryNodeData{In: cat.Out()}}).Out()
	}
	if r.Chance(1, 2) {
		files[genProducerName(r)] = basics.NewTextNode(strs[len(strs)-1].Out())
	}
	if pImg.Value() != nil && r.Chance(2, 3) {
		files[name("pic.png")] = (&basics.ImageNode{Data: basics.ImageNodeData{In: pImg.Out()}}).Out()
	}
	return files
}

// codeCase: the application built in code is saved (S1), S1 is loaded into a fresh application, which is saved (S2).
// Rendered as a CFile case: saved trees, [artifacts; structure] before and after, digests of S1 and S2.
func codeCase(d codeDesc) hx.Case {
	c := hx.Case{Kind: "code", Desc: d, Key: fmt.Sprintf("code|%d", d.Seed), Nontriv: true}
	bad := func(msg string) hx.Case {
		c.GoFail, c.FailKey = msg, "graph:code-built"
		c.Coq = "CFile JNull None JNull None 0 1"
		return c
	}
	r := hx.NewRng(d.Seed)
	hd := histDesc{AppName: genString(r), AppVersion: "v1", AppDesc: genString(r)}
	var app *generator.App
	if o := guard(func() error {
		app = &generator.App{Name: hd.AppName, Version: hd.AppVersion, Description: hd.AppDesc, Files: buildCodeGraph(r)}
		app.Schema()
		return nil
	}); !o.ok {
		return bad("building / first save of the application: " + o.msg)
	}
	inst := instanceOf(app)
	appOf[inst] = app
	defer forget(inst)
	a := observe(inst, hd)
	if a.err != "" {
		return bad("saving the application built in code: " + a.err)
	}
	app2, inst2 := newApp(histDesc{})
	defer forget(inst2)
	if o := guard(func() error { return app2.ApplySchema(a.sv.bytes) }); !o.ok {
		return bad("loading the save of the application built in code: " + o.msg)
	}
	b := observe(inst2, hd)
	if b.err != "" {
		return bad("after loading: " + b.err)
	}
	if a.sv.info.overread { // the known finding (a File payload followed by the Image's): reported as such
		c.FailKey = keyOverread
	}
	same := func(before, after jv) string {
		if x := after.Coq(); x != before.Coq() {
			return "(Some " + x + ")"
		}
		return "None"
	}
	before, after := jarr(a.art, a.sum), jarr(b.art, b.sum)
	c.Coq = fmt.Sprintf("CFile\n %s\n %s\n %s\n %s\n %s %s", a.sv.info.tree.Coq(), same(a.sv.info.tree, b.sv.info.tree),
		before.Coq(), same(before, after), digest(a.sv.bytes).s, digest(b.sv.bytes).s)
	if strings.Contains(c.Coq, "ParameterData: crash") {
		return bad("a parameter read crashes")
	}
	run_count("code-built graphs")
	return c
}
