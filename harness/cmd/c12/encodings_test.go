package main

import (
	"bytes"
	"encoding/json"
	"image"
	"reflect"
	"testing"

	"verif/harness/hx"
)

// every "foreign" PNG / JPEG the generator writes is a valid file for Go's decoders
func TestForeignImagesDecode(t *testing.T) {
	r := hx.NewRng(1)
	for i := 0; i < 4000; i++ {
		b := foreignPNG(r)
		if _, f, err := image.Decode(bytes.NewReader(b)); err != nil || f != "png" {
			t.Fatalf("png %d: %v %s", i, err, f)
		}
	}
	for i := 0; i < 300; i++ {
		if _, f, err := image.Decode(bytes.NewReader(genJPEG(r))); err != nil || f != "jpeg" {
			t.Fatalf("jpeg %d: %v", i, err)
		}
	}
	if _, _, err := image.Decode(bytes.NewReader(tinyGIF)); err == nil {
		t.Fatalf("a GIF decoder is linked")
	}
	kinds := map[string]int{}
	for i := 0; i < 2000; i++ {
		b, k := genImageMessage(r)
		kinds[k]++
		_, _, err := image.Decode(bytes.NewReader(b))
		if (err != nil) != (k == "refused") {
			t.Fatalf("%s: %v", k, err)
		}
	}
	t.Log(kinds)
}

// respelling (without key / string noise) never changes what encoding/json reads
func TestRespellKeepsValue(t *testing.T) {
	r := hx.NewRng(2)
	for i := 0; i < 5000; i++ {
		src := []byte(genMetaValue(r, 3))
		out := respell(r, src, true, false, false)
		var a, b any
		if err := json.Unmarshal(src, &a); err != nil {
			t.Fatal(err)
		}
		if err := json.Unmarshal(out, &b); err != nil {
			t.Fatalf("%q -> %q: %v", src, out, err)
		}
		if !reflect.DeepEqual(a, b) {
			t.Fatalf("%q -> %q", src, out)
		}
		if out2 := respell(r, src, true, true, true); !json.Valid(out2) {
			t.Fatalf("%q -> %q is not JSON", src, out2)
		}
	}
}
