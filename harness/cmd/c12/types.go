package main

// Node types of the binding: the repository's parameter types (registered exactly as
// generator/parameter/types.go does), two extra Value[T] instantiations with a non-trivial default
// record (name, description, default, CLI), the repository's text/binary/image artifact nodes and
// harness processors with scalar and ARRAY inputs whose result depends on the input order.

import (
	"bytes"
	"crypto/sha256"
	"fmt"
	"image"
	"image/png"
	"sort"
	"strings"

	"github.com/EliCDavis/polyform/drawing/coloring"
	"github.com/EliCDavis/polyform/generator"
	"github.com/EliCDavis/polyform/generator/artifact"
	"github.com/EliCDavis/polyform/generator/artifact/basics"
	"github.com/EliCDavis/polyform/generator/parameter"
	"github.com/EliCDavis/polyform/math/geometry"
	"github.com/EliCDavis/polyform/nodes"
	"github.com/EliCDavis/polyform/refutil"
	"github.com/EliCDavis/vector/vector2"
	"github.com/EliCDavis/vector/vector3"

	"verif/harness/hx"
)

// value type codes (only used to predict which connections reflect accepts)
const (
	vtF64 = iota + 1
	vtInt
	vtStr
	vtBool
	vtV2
	vtV3
	vtV3Arr
	vtAABB
	vtColor
	vtBytes
	vtImage
	vtF32
	vtStrs
	vtArtifact
)

// ---- harness processors ----

type SumData struct {
	Values  []nodes.NodeOutput[float64]
	Value   nodes.NodeOutput[float64]
	ValuesB []nodes.NodeOutput[float64]
	Bias    nodes.NodeOutput[int]
}

func (d SumData) Process() (float64, error) {
	s := 0.0
	for i, v := range d.Values {
		s += float64(i+1) * v.Value() // order-sensitive
	}
	for i, v := range d.ValuesB {
		s -= float64(2*i+3) * v.Value()
	}
	if d.Value != nil {
		s = s*0.5 + d.Value.Value()
	}
	if d.Bias != nil {
		s += float64(d.Bias.Value())
	}
	return s, nil
}

type SumNode = nodes.Struct[float64, SumData]

type JoinData struct {
	Parts   []nodes.NodeOutput[string]
	Sep     nodes.NodeOutput[string]
	Numbers []nodes.NodeOutput[float64]
	Flag    nodes.NodeOutput[bool]
}

func (d JoinData) Process() (string, error) {
	sep := ","
	if d.Sep != nil {
		sep = d.Sep.Value()
	}
	parts := []string{}
	for _, p := range d.Parts {
		parts = append(parts, p.Value())
	}
	for _, n := range d.Numbers {
		parts = append(parts, fmt.Sprintf("%x", n.Value()))
	}
	if d.Flag != nil && d.Flag.Value() {
		parts = append(parts, "!")
	}
	return strings.Join(parts, sep), nil
}

type JoinNode = nodes.Struct[string, JoinData]

type DescribeData struct {
	V2    nodes.NodeOutput[vector2.Float64]
	V3    nodes.NodeOutput[vector3.Float64]
	Pts   nodes.NodeOutput[[]vector3.Float64]
	Box   nodes.NodeOutput[geometry.AABB]
	Tint  nodes.NodeOutput[coloring.WebColor]
	Blob  nodes.NodeOutput[[]byte]
	Pic   nodes.NodeOutput[image.Image]
	F32   nodes.NodeOutput[float32]
	Tags  nodes.NodeOutput[[]string]
	Count nodes.NodeOutput[int]
	Texts []nodes.NodeOutput[string]
}

func (d DescribeData) Process() (string, error) {
	var b strings.Builder
	if d.V2 != nil {
		fmt.Fprintf(&b, "v2=%x,%x;", d.V2.Value().X(), d.V2.Value().Y())
	}
	if d.V3 != nil {
		fmt.Fprintf(&b, "v3=%x,%x,%x;", d.V3.Value().X(), d.V3.Value().Y(), d.V3.Value().Z())
	}
	if d.Pts != nil {
		b.WriteString("pts=")
		for _, p := range d.Pts.Value() {
			fmt.Fprintf(&b, "%x,%x,%x/", p.X(), p.Y(), p.Z())
		}
		b.WriteString(";")
	}
	if d.Box != nil {
		c, s := d.Box.Value().Center(), d.Box.Value().Size()
		fmt.Fprintf(&b, "box=%x,%x,%x,%x,%x,%x;", c.X(), c.Y(), c.Z(), s.X(), s.Y(), s.Z())
	}
	if d.Tint != nil {
		t := d.Tint.Value()
		fmt.Fprintf(&b, "tint=%d,%d,%d,%d;", t.R, t.G, t.B, t.A)
	}
	if d.Blob != nil {
		fmt.Fprintf(&b, "blob=%d:%x;", len(d.Blob.Value()), sha256.Sum256(d.Blob.Value()))
	}
	if d.Pic != nil {
		if img := d.Pic.Value(); img != nil {
			buf := bytes.Buffer{}
			if err := png.Encode(&buf, img); err != nil {
				return "", err
			}
			fmt.Fprintf(&b, "pic=%v:%x;", img.Bounds(), sha256.Sum256(buf.Bytes()))
		} else {
			b.WriteString("pic=nil;")
		}
	}
	if d.F32 != nil {
		fmt.Fprintf(&b, "f32=%x;", d.F32.Value())
	}
	if d.Tags != nil {
		fmt.Fprintf(&b, "tags=%q;", d.Tags.Value())
	}
	if d.Count != nil {
		fmt.Fprintf(&b, "count=%d;", d.Count.Value())
	}
	for i, t := range d.Texts {
		fmt.Fprintf(&b, "t%d=%q;", i, t.Value())
	}
	return b.String(), nil
}

type DescribeNode = nodes.Struct[string, DescribeData]

// MixData: port names that share prefixes and differ in case (the dependency comparator lower-cases base
// names and splits at the last dot): VALUE / Vals / Values / Values2, three of them arrays.
type MixData struct {
	Values  []nodes.NodeOutput[float64]
	VALUE   nodes.NodeOutput[float64]
	Values2 []nodes.NodeOutput[float64]
	Vals    []nodes.NodeOutput[float64]
}

func (d MixData) Process() (float64, error) {
	s := 0.0
	for i, v := range d.Values {
		s += float64(i+1) * v.Value() // order-sensitive
	}
	for i, v := range d.Values2 {
		s += float64((i+1)*(i+1)) * v.Value()
	}
	for i, v := range d.Vals {
		s -= float64(3*i+2) * v.Value()
	}
	if d.VALUE != nil {
		s = s*0.25 + d.VALUE.Value()
	}
	return s, nil
}

type MixNode = nodes.Struct[float64, MixData]

type CatData struct {
	Blobs []nodes.NodeOutput[[]byte]
}

func (d CatData) Process() ([]byte, error) {
	out := []byte{}
	for i, b := range d.Blobs {
		out = append(out, byte(i))
		out = append(out, b.Value()...)
	}
	return out, nil
}

type CatNode = nodes.Struct[[]byte, CatData]

// extra Value[T] instantiations the repository does not register: give them a full default record
type F32Param = parameter.Value[float32]
type StrsParam = parameter.Value[[]string]

func newF32Param() F32Param {
	return F32Param{
		Name:         "preset",
		Description:  "a parameter type registered with a name, description, default and CLI flag",
		DefaultValue: 1.5,
		CLI:          &parameter.CliConfig[float32]{FlagName: "preset", Usage: "the <preset> \"value\""},
	}
}
func newStrsParam() StrsParam {
	return StrsParam{Name: "tags", DefaultValue: []string{"a", "", "ü"}}
}

// ---- factory ----

func harnessNodesFactory() *refutil.TypeFactory {
	f := &refutil.TypeFactory{}
	refutil.RegisterType[SumNode](f)
	refutil.RegisterType[JoinNode](f)
	refutil.RegisterType[DescribeNode](f)
	refutil.RegisterType[CatNode](f)
	refutil.RegisterType[MixNode](f)
	refutil.RegisterTypeWithBuilder(f, newF32Param)
	refutil.RegisterTypeWithBuilder(f, newStrsParam)
	return f
}

// newFactory: same registrations as generator/parameter/types.go and generator/artifact/basics/nodes.go
// (whose init() also put them into the generator package's global factory used by generator.App)
// plus the harness nodes.
func newFactory() *refutil.TypeFactory {
	f := &refutil.TypeFactory{}
	refutil.RegisterType[parameter.File](f)
	refutil.RegisterType[parameter.Image](f)
	refutil.RegisterTypeWithBuilder(f, func() parameter.Int { return parameter.Int{} })
	refutil.RegisterTypeWithBuilder(f, func() parameter.Float64 { return parameter.Float64{} })
	refutil.RegisterTypeWithBuilder(f, func() parameter.Vector3 { return parameter.Vector3{} })
	refutil.RegisterTypeWithBuilder(f, func() parameter.Vector2 { return parameter.Vector2{} })
	refutil.RegisterTypeWithBuilder(f, func() parameter.Bool { return parameter.Bool{} })
	refutil.RegisterTypeWithBuilder(f, func() parameter.String { return parameter.String{} })
	refutil.RegisterTypeWithBuilder(f, func() parameter.Vector3Array { return parameter.Vector3Array{} })
	refutil.RegisterTypeWithBuilder(f, func() parameter.AABB {
		return parameter.AABB{DefaultValue: geometry.NewAABB(vector3.Zero[float64](), vector3.One[float64]())}
	})
	refutil.RegisterTypeWithBuilder(f, func() parameter.Color {
		return parameter.Color{DefaultValue: coloring.White()}
	})
	refutil.RegisterType[basics.ImageNode](f)
	refutil.RegisterType[basics.BinaryNode](f)
	refutil.RegisterType[basics.IONode](f)
	refutil.RegisterType[basics.TextNode](f)
	return f.Combine(harnessNodesFactory())
}

func init() {
	// generator.App builds its instance from the generator package's global factory
	generator.RegisterTypes(harnessNodesFactory())
}

// ---- the type table handed to the model ----

type portInfo struct {
	Name  string
	Array bool
	VT    int
}

type tyInfo struct {
	Tag      string
	Key      string // factory key
	Out      int    // value type of the Out port
	Ports    []portInfo
	PKind    int // 0 none, 1 Value[T], 2 File, 3 Image
	Artifact bool
	defRec   jv // default parameter record observed on a fresh node (jnull for non-parameters)
}

func keyOf[T any]() string { return refutil.GetTypeWithPackage(new(T)) }

var tyTable = []*tyInfo{
	{Tag: "f64", Key: keyOf[parameter.Float64](), Out: vtF64, PKind: 1},
	{Tag: "int", Key: keyOf[parameter.Int](), Out: vtInt, PKind: 1},
	{Tag: "str", Key: keyOf[parameter.String](), Out: vtStr, PKind: 1},
	{Tag: "bool", Key: keyOf[parameter.Bool](), Out: vtBool, PKind: 1},
	{Tag: "v2", Key: keyOf[parameter.Vector2](), Out: vtV2, PKind: 1},
	{Tag: "v3", Key: keyOf[parameter.Vector3](), Out: vtV3, PKind: 1},
	{Tag: "v3arr", Key: keyOf[parameter.Vector3Array](), Out: vtV3Arr, PKind: 1},
	{Tag: "aabb", Key: keyOf[parameter.AABB](), Out: vtAABB, PKind: 1},
	{Tag: "color", Key: keyOf[parameter.Color](), Out: vtColor, PKind: 1},
	{Tag: "file", Key: keyOf[parameter.File](), Out: vtBytes, PKind: 2},
	{Tag: "image", Key: keyOf[parameter.Image](), Out: vtImage, PKind: 3},
	{Tag: "f32", Key: keyOf[F32Param](), Out: vtF32, PKind: 1},
	{Tag: "strs", Key: keyOf[StrsParam](), Out: vtStrs, PKind: 1},
	{Tag: "sum", Key: keyOf[SumNode](), Out: vtF64, Ports: []portInfo{
		{"Bias", false, vtInt}, {"Value", false, vtF64}, {"Values", true, vtF64}, {"ValuesB", true, vtF64}}},
	{Tag: "join", Key: keyOf[JoinNode](), Out: vtStr, Ports: []portInfo{
		{"Flag", false, vtBool}, {"Numbers", true, vtF64}, {"Parts", true, vtStr}, {"Sep", false, vtStr}}},
	{Tag: "describe", Key: keyOf[DescribeNode](), Out: vtStr, Ports: []portInfo{
		{"Blob", false, vtBytes}, {"Box", false, vtAABB}, {"Count", false, vtInt}, {"F32", false, vtF32},
		{"Pic", false, vtImage}, {"Pts", false, vtV3Arr}, {"Tags", false, vtStrs}, {"Texts", true, vtStr},
		{"Tint", false, vtColor}, {"V2", false, vtV2}, {"V3", false, vtV3}}},
	{Tag: "cat", Key: keyOf[CatNode](), Out: vtBytes, Ports: []portInfo{{"Blobs", true, vtBytes}}},
	{Tag: "text", Key: keyOf[basics.TextNode](), Out: vtArtifact, Artifact: true, Ports: []portInfo{{"In", false, vtStr}}},
	{Tag: "binary", Key: keyOf[basics.BinaryNode](), Out: vtArtifact, Artifact: true, Ports: []portInfo{{"In", false, vtBytes}}},
	{Tag: "imageart", Key: keyOf[basics.ImageNode](), Out: vtArtifact, Artifact: true, Ports: []portInfo{{"In", false, vtImage}}},
	{Tag: "mix", Key: keyOf[MixNode](), Out: vtF64, Ports: []portInfo{
		{"VALUE", false, vtF64}, {"Vals", true, vtF64}, {"Values", true, vtF64}, {"Values2", true, vtF64}}},
}

var tagIndex = map[string]int{}
var keyIndex = map[string]int{}

// initTable checks the hard-coded port table against what the real nodes report (Inputs(), the Out
// method) and records the default parameter record of each parameter type.
func initTable() {
	f := newFactory()
	for i, t := range tyTable {
		tagIndex[t.Tag] = i
		keyIndex[t.Key] = i
		if !f.KeyRegistered(t.Key) {
			panic("harness: type not registered: " + t.Key)
		}
		n := f.New(t.Key).(nodes.Node)
		ins := n.Inputs()
		sort.Slice(ins, func(a, b int) bool { return ins[a].Name < ins[b].Name })
		if len(ins) != len(t.Ports) {
			panic(fmt.Errorf("harness: port table of %s out of date: %v", t.Tag, ins))
		}
		for k, in := range ins {
			if in.Name != t.Ports[k].Name || in.Array != t.Ports[k].Array {
				panic(fmt.Errorf("harness: port table of %s out of date at %v", t.Tag, in))
			}
		}
		outs := refutil.CallFuncValuesOfType(n, "Out")
		_, isArt := outs[0].(nodes.NodeOutput[artifact.Artifact])
		if isArt != t.Artifact {
			panic("harness: artifact flag of " + t.Tag)
		}
		t.defRec = paramRecord(n)
		if (t.defRec.k != jNull) != (t.PKind != 0) {
			panic("harness: parameter kind of " + t.Tag)
		}
	}
}

var pkindCoq = []string{"PNone", "PValue", "PFile", "PImage"}

// precCoq renders a parameter record [name; description; default; value; cli] as a Graph.Instance.prec
func precCoq(rec jv) string {
	if rec.k != jArr {
		return "None"
	}
	opt := func(v jv) string {
		if v.k != jArr {
			return "None"
		}
		return "(Some " + v.arr[0].Coq() + ")"
	}
	cli := "None"
	if rec.arr[4].k == jArr {
		cli = fmt.Sprintf("(Some (%s, %s))", hx.CoqString(rec.arr[4].arr[0].s), hx.CoqString(rec.arr[4].arr[1].s))
	}
	return fmt.Sprintf("(Some (mkprec %s %s %s %s %s))", hx.CoqString(rec.arr[0].s), hx.CoqString(rec.arr[1].s),
		opt(rec.arr[2]), opt(rec.arr[3]), cli)
}

func (t *tyInfo) coq() string {
	var b strings.Builder
	b.WriteString("(mkty [")
	for i, p := range t.Ports {
		if i > 0 {
			b.WriteByte(';')
		}
		fmt.Fprintf(&b, "P %s %v %d", hx.CoqString(p.Name), p.Array, p.VT)
	}
	fmt.Fprintf(&b, "] %d %s %v %s)", t.Out, pkindCoq[t.PKind], t.Artifact, precCoq(t.defRec))
	return b.String()
}

func tableCoq() string {
	items := make([]string, len(tyTable))
	for i, t := range tyTable {
		items[i] = t.coq()
	}
	return "[" + strings.Join(items, ";\n  ") + "]"
}
