package main

// Generators: fixed corner histories and random edit histories.  A history is generated while it is run
// on a scratch instance (node ids are the instance's choice); the recorded op list is the replayable
// description and is re-run from scratch by histCases.

import (
	"bytes"
	"encoding/json"
	"fmt"
	"image"
	"image/color"
	"image/png"
	"strings"

	"github.com/EliCDavis/polyform/generator/graph"

	"verif/harness/hx"
)

type gnode struct {
	id  string
	ti  int
	ins map[string][]string
}

type gen struct {
	r     *hx.Rng
	inst  *graph.Instance
	nodes []*gnode
	ops   []Op
	prods []string
	paths []string
}

func newGen(r *hx.Rng) *gen { return &gen{r: r, inst: graph.New(newFactory())} }

func (g *gen) find(id string) *gnode {
	for _, n := range g.nodes {
		if n.id == id {
			return n
		}
	}
	return nil
}

func (g *gen) create(tag string) *gnode {
	ti, ok := tagIndex[tag]
	g.ops = append(g.ops, Op{K: "create", Ty: tag})
	if !ok {
		g.inst.CreateNode(tag)
		return nil
	}
	_, id, err := g.inst.CreateNode(tyTable[ti].Key)
	if err != nil {
		panic(err)
	}
	n := &gnode{id: id, ti: ti, ins: map[string][]string{}}
	g.nodes = append(g.nodes, n)
	return n
}

// do records an op and runs it on the scratch instance
func (g *gen) do(op Op) bool {
	g.ops = append(g.ops, op)
	_, o := applyOp(g.inst, op)
	return o.ok
}

func (g *gen) dependsOn(a, b string) bool { // does a (transitively) depend on b
	if a == b {
		return true
	}
	n := g.find(a)
	if n == nil {
		return false
	}
	for _, srcs := range n.ins {
		for _, s := range srcs {
			if g.dependsOn(s, b) {
				return true
			}
		}
	}
	return false
}

func (g *gen) hasDependents(id string) bool {
	for _, n := range g.nodes {
		for _, srcs := range n.ins {
			for _, s := range srcs {
				if s == id {
					return true
				}
			}
		}
	}
	return false
}

func (g *gen) connect(src, dst *gnode, p portInfo) bool {
	port := p.Name
	if p.Array {
		k := len(dst.ins[p.Name])
		switch g.r.Intn(6) {
		case 0:
			k = g.r.Intn(40) // the index after the dot is ignored by SetInput
		case 1:
			k = 0
		}
		port = fmt.Sprintf("%s.%d", p.Name, k)
	}
	if !g.do(Op{K: "connect", Src: src.id, ID: dst.id, Port: port}) {
		return false
	}
	if p.Array {
		dst.ins[p.Name] = append(dst.ins[p.Name], src.id)
	} else {
		dst.ins[p.Name] = []string{src.id}
	}
	return true
}

func (g *gen) sourcesOf(vt int, dst *gnode) []*gnode {
	out := []*gnode{}
	for _, n := range g.nodes {
		if tyTable[n.ti].Out == vt && !g.dependsOn(n.id, dst.id) {
			out = append(out, n)
		}
	}
	return out
}

var paramTags = []string{"f64", "int", "str", "bool", "v2", "v3", "v3arr", "aabb", "color", "file", "image", "f32", "strs"}
var procTags = []string{"sum", "join", "describe", "cat", "text", "binary", "imageart", "mix"}

// tag of a parameter type producing value type vt
func paramTagFor(vt int) string {
	for _, t := range paramTags {
		if tyTable[tagIndex[t]].Out == vt {
			return t
		}
	}
	return ""
}

// specialStrings: what a name, description, string value or metadata string may legally be (all valid UTF-8: the
// edit server receives them inside JSON bodies): control characters incl. NUL and DEL, the two line separators
// encoding/json escapes, the replacement character, a BOM, the last code point, combining marks, right-to-left
// text, text that looks like JSON / an escape / HTML, line ends of every kind
var specialStrings = []string{"\x00", "nul\x00inside", "\x01\x02\x1f\x7f", "\u2028line\u2029sep", "\ufeffbom", "\ufffd", "\U0010FFFF", "e\u0301 combining", "\u05e9\u05dc\u05d5\u05dd rtl", "\\u0041 \\n \\\\", "</script><!--", "\r\n", "\r", "'single' 'back'", "{\"json\":true}", "null", "   ", "\b\f\v", "\"", "\\", "&<>", "\u00e9\u00a0nbsp", "a\tb\tc", "\u200b zero width", "%s %d %v", "$CurrentValue", "Out"}

func longString(r *hx.Rng) string {
	n := hx.Pick(r, []int{255, 256, 1000, 2500})
	var b strings.Builder
	for b.Len() < n {
		b.WriteString(hx.Pick(r, []string{"lorem ipsum ", "x", "\"q\" ", "é", "<&> ", "\n", "0123456789"}))
	}
	return b.String()
}

func genString(r *hx.Rng) string {
	pool := []string{"", "a", "name", "Radius (m)", "with \"quotes\" and \\ slash", "tab\tnew\nline", "ünï©ode ✓", "<b>&amp;</b>",
		"a.b.c", "Node-3", "0", " lead", "x y", "emoji \U0001F600"}
	switch r.Intn(24) {
	case 0, 1, 2, 3:
		run_count("string:special")
		return hx.Pick(r, specialStrings)
	case 4:
		if r.Chance(1, 3) {
			run_count("string:long")
			return longString(r)
		}
	}
	if r.Chance(2, 3) {
		return hx.Pick(r, pool)
	}
	n := r.Intn(12)
	b := make([]byte, n)
	for i := range b {
		b[i] = byte(32 + r.Intn(95))
	}
	return string(b)
}

// specialNumbers: the ends of the float64 / float32 ranges and what lies just beyond them (refused or rounded by
// the decoder), both zeros, integers at the edges of exactness, texts that switch encoding/json between its 'f'
// and 'e' formats (1e-6, 1e21)
var specialNumbers = []string{"5e-324", "-5e-324", "2.2250738585072014e-308", "2.225073858507201e-308", "1.7976931348623157e308",
	"-1.7976931348623157e308", "1e309", "-1e309", "1e-400", "0.000001", "0.0000009", "1e21", "1e20", "999999999999999900000",
	"123456789012345678901234567890", "4503599627370497.5", "9007199254740992", "-9007199254740993", "9223372036854775807",
	"9223372036854775808", "-9223372036854775808", "18446744073709551616", "3.4028235e38", "3.4028236e38", "-3.4028235e38", "1e39",
	"1e-45", "1.4e-45", "1e-46", "1.17549435e-38", "16777216", "16777217", "0.1", "0.30000000000000004", "-0.0", "0e0", "-0e-5", "1E+2"}

func genNumber(r *hx.Rng) string {
	if r.Chance(1, 4) {
		run_count("number:special")
		return hx.Pick(r, specialNumbers)
	}
	switch r.Intn(9) {
	case 0:
		return fmt.Sprint(r.Range(-20, 20))
	case 1:
		return "0.1"
	case 2:
		return "-0"
	case 3:
		return "1e-7"
	case 4:
		return "123456789.125"
	case 5:
		return "1e300"
	case 6:
		return fmt.Sprintf("%d.%d", r.Range(-999, 999), r.Intn(1000))
	case 7:
		return "9007199254740993" // not a float64
	default:
		return fmt.Sprintf("%v", (r.Float()-0.5)*1e3)
	}
}

func genPNG(r *hx.Rng) []byte {
	w, h := r.Range(1, 4), r.Range(1, 4)
	var img image.Image
	switch r.Intn(5) {
	case 0:
		m := image.NewGray(image.Rect(0, 0, w, h))
		for i := range m.Pix {
			m.Pix[i] = byte(r.Intn(256))
		}
		img = m
	case 1:
		m := image.NewNRGBA(image.Rect(0, 0, w, h))
		for i := range m.Pix {
			m.Pix[i] = byte(r.Intn(256))
		}
		img = m
	case 2:
		m := image.NewPaletted(image.Rect(0, 0, w, h), color.Palette{color.RGBA{0, 0, 0, 255}, color.RGBA{255, 0, 0, 255}, color.RGBA{0, 0, 255, 128}})
		for i := range m.Pix {
			m.Pix[i] = byte(r.Intn(3))
		}
		img = m
	case 3:
		m := image.NewRGBA64(image.Rect(0, 0, w, h))
		for i := range m.Pix {
			m.Pix[i] = byte(r.Intn(256))
		}
		for y := 0; y < h; y++ { // keep it a valid premultiplied image: opaque
			for x := 0; x < w; x++ {
				c := m.RGBA64At(x, y)
				c.A = 0xffff
				m.SetRGBA64(x, y, c)
			}
		}
		img = m
	default:
		m := image.NewRGBA(image.Rect(0, 0, w, h))
		for y := 0; y < h; y++ {
			for x := 0; x < w; x++ {
				m.Set(x, y, color.RGBA{byte(r.Intn(256)), byte(r.Intn(256)), byte(r.Intn(256)), 255})
			}
		}
		img = m
	}
	buf := bytes.Buffer{}
	if err := png.Encode(&buf, img); err != nil {
		panic(err)
	}
	return buf.Bytes()
}

func genVec(r *hx.Rng, names ...string) string {
	parts := make([]string, len(names))
	for i, n := range names {
		parts[i] = fmt.Sprintf("%q:%s", n, genNumber(r))
	}
	return "{" + strings.Join(parts, ",") + "}"
}

// genMessage: an update message for the parameter type with the given tag (mostly valid), in one of the
// many spellings the wire format allows for the value (encodings.go)
func genMessage(r *hx.Rng, tag string) []byte {
	msg := genCanonicalMessage(r, tag)
	if r.Chance(1, 2) {
		msg = respellFor(r, tag, msg)
	}
	return msg
}

var imageKinds = map[string]int{} // distribution bookkeeping: kinds of image uploads generated

func genCanonicalMessage(r *hx.Rng, tag string) []byte {
	if r.Chance(1, 14) && tag != "file" {
		return []byte(hx.Pick(r, []string{"", "{", "nope", "[1,", "\"unterminated"}))
	}
	switch tag {
	case "f64", "f32":
		return []byte(genNumber(r))
	case "int":
		if r.Chance(1, 5) { // the ends of the int range, what lies beyond, and number texts an int refuses
			return []byte(hx.Pick(r, []string{"9223372036854775807", "-9223372036854775808", "9223372036854775808", "-9223372036854775809",
				"-0", "1e3", "1.0", "0.5", "00", "+1", "2147483648", "-2147483649", "4294967296", "9007199254740993", "-9007199254740993",
				"1152921504606846977"}))
		}
		return []byte(fmt.Sprint(hx.Pick(r, []int{0, 1, -1, 7, 25, -300, 1 << 40, r.Range(-1000, 1000)})))
	case "str":
		b, _ := json.Marshal(genString(r))
		return b
	case "bool":
		return []byte(hx.Pick(r, []string{"true", "false"}))
	case "v2":
		return []byte(genVec(r, "x", "y"))
	case "v3":
		return []byte(genVec(r, "x", "y", "z"))
	case "v3arr":
		switch r.Intn(5) {
		case 0:
			return []byte("null")
		case 1:
			return []byte("[]")
		}
		n := r.Range(1, 4)
		parts := make([]string, n)
		for i := range parts {
			parts[i] = genVec(r, "x", "y", "z")
		}
		return []byte("[" + strings.Join(parts, ",") + "]")
	case "aabb":
		return []byte(fmt.Sprintf(`{"center":%s,"extents":%s}`, genVec(r, "x", "y", "z"), genVec(r, "x", "y", "z")))
	case "color":
		if r.Chance(1, 12) { // tokens of other lengths: refused, or read leniently (the decoder slices by position)
			return []byte(hx.Pick(r, []string{`""`, `"#"`, `"#12345"`, `"#1234567"`, `"fff"`, `"#ggg"`, `"#1234567890"`}))
		}
		switch r.Intn(4) {
		case 0:
			return []byte(fmt.Sprintf("\"#%02x%02x%02x%02x\"", r.Intn(256), r.Intn(256), r.Intn(256), r.Intn(256)))
		case 1:
			return []byte(fmt.Sprintf("\"#%x%x%x\"", r.Intn(16), r.Intn(16), r.Intn(16)))
		case 2:
			return []byte("\"#ffffffff\"")
		}
		return []byte(fmt.Sprintf("\"#%02x%02x%02x\"", r.Intn(256), r.Intn(256), r.Intn(256)))
	case "file":
		switch r.Intn(12) { // bytes that look like something else
		case 0:
			return []byte(hx.Pick(r, []string{"null", "\"text\"", "{\"a\":1}", " 1.0 ", "\xef\xbb\xbfbom", "line\r\nline\n"}))
		case 1:
			return genPNG(r)
		}
		n := hx.Pick(r, []int{0, 1, 2, 3, 5, 8, 17, 40})
		b := make([]byte, n)
		for i := range b {
			b[i] = byte(r.Intn(256))
		}
		return b
	case "image":
		m, kind := genImageMessage(r)
		imageKinds[kind]++
		return m
	case "strs":
		switch r.Intn(4) {
		case 0:
			return []byte("null")
		case 1:
			return []byte("[]")
		}
		n := r.Range(1, 3)
		parts := make([]string, n)
		for i := range parts {
			b, _ := json.Marshal(genString(r))
			parts[i] = string(b)
		}
		return []byte("[" + strings.Join(parts, ",") + "]")
	}
	return []byte("null")
}

// genMetaNumber: a number the server's decoder (encoding/json into any) accepts
func genMetaNumber(r *hx.Rng) string {
	for {
		s := genNumber(r)
		var v any
		if json.Unmarshal([]byte(s), &v) == nil {
			return s
		}
	}
}

func genMetaValue(r *hx.Rng, depth int) string {
	switch r.Intn(8) {
	case 0:
		return "null"
	case 1:
		return hx.Pick(r, []string{"true", "false"})
	case 2:
		return genMetaNumber(r)
	case 3:
		b, _ := json.Marshal(genString(r))
		return string(b)
	case 4:
		if depth > 0 {
			n := r.Intn(3)
			parts := make([]string, n)
			for i := range parts {
				parts[i] = genMetaValue(r, depth-1)
			}
			return "[" + strings.Join(parts, ",") + "]"
		}
		return "[]"
	case 5:
		return fmt.Sprintf(`{"x":%s,"y":%s}`, genMetaNumber(r), genMetaNumber(r))
	default:
		if depth > 0 {
			keys := []string{"zeta", "alpha", "Beta", "10", "2", "é", "pos", "", "q\"k", "<k>&", "k\nl", " ", "a.b", "\u2028", "\x00", "Zeta", "alphA",
				strings.Repeat("k", 300)}
			n := r.Intn(4)
			parts := []string{}
			seen := map[string]bool{}
			for i := 0; i < n; i++ {
				k := hx.Pick(r, keys)
				if seen[k] {
					continue
				}
				seen[k] = true
				kb, _ := json.Marshal(k)
				parts = append(parts, string(kb)+":"+genMetaValue(r, depth-1))
			}
			return "{" + strings.Join(parts, ",") + "}"
		}
		return "{}"
	}
}

func (g *gen) genMetaPath() string {
	r := g.r
	if len(g.paths) > 0 && r.Chance(1, 2) {
		p := hx.Pick(r, g.paths)
		if r.Chance(1, 3) {
			p += "." + hx.Pick(r, []string{"x", "sub", "10", "2"})
		}
		return p
	}
	seg := func() string {
		if len(g.nodes) > 0 && r.Chance(1, 3) {
			return hx.Pick(r, g.nodes).id
		}
		return hx.Pick(r, []string{"nodes", "notes", "position", "a", "B", "10", "9", "zz", "", "nodes", "notes", "sp ace", "q\"", "ü", "<&>", "\n",
			"Notes", "NODES", "variables", "profiles"})
	}
	n := r.Range(1, 3)
	parts := make([]string, n)
	for i := range parts {
		parts[i] = seg()
	}
	return strings.Join(parts, ".")
}

// producerNames: a producer name is a file name the user types: any string. Paths that are not in their
// shortest form (./x, a/../x, a//x, x/), absolute and parent-relative ones, other separators, empty and dot
// names, names needing JSON escaping, unicode, names that collide after case folding / cleaning / trimming
var producerNames = []string{"out.txt", "a.bin", "b/c.png", "Out.txt", "out.txt", "x", "10.txt", "2.txt",
	"./summary.txt", "summary.txt", "docs/../x.txt", "x.txt", "docs//x.txt", "docs/x.txt", "/x.txt", "//x.txt", "a\\b.txt", "a/b.txt", "C:\\temp\\x.txt",
	"dir/", "dir", ".", "..", "../up.txt", "a/./b.txt", "./", "", " ", " out.txt", "out.txt ", "OUT.TXT", "ünï/✓.txt", "q\"uote<&>.txt",
	"tab\there.txt", "new\nline.txt", "a.b.c", "Node-1", "nodes.Node-0", "x.txt/", "//", "a/b/../../c.txt", "%2e%2e/x", "\u2028.txt", "nul\x00.bin",
	"e\u0301.txt", "\u00e9.txt", ".hidden", "~/home.txt", "*.glb", "con", "a:b"}

func genProducerName(r *hx.Rng) string {
	if r.Chance(1, 40) {
		return strings.Repeat("long-name/", 30) + "x.txt"
	}
	k := r.Intn(len(producerNames))
	if k >= 8 {
		run_count("producer-name:special-form")
	}
	return producerNames[k]
}

// namePrefix: the same file name written as a path that is not in its shortest form
func namePrefix(r *hx.Rng) string {
	if r.Chance(1, 2) {
		return ""
	}
	run_count("producer-name:special-form")
	return hx.Pick(r, []string{"./", "out/../", "out//", "/", "sub\\", "../", "a/./", " ", ".//"})
}

func (g *gen) randomOp() {
	r := g.r
	if r.Chance(1, 12) { // a read in between: artifacts produced (caches warm), graph and parameters queried
		g.do(Op{K: "eval"})
		return
	}
	g.opByWeight(r.Intn(100))
}

// editKinds: one representative weight per kind of edit (see opByWeight)
var editKinds = map[string]int{"create": 0, "connect": 20, "disconnect": 50, "delete": 56, "update": 60, "name": 74, "desc": 80,
	"producer": 85, "setmeta": 90, "delmeta": 96}
var editKindNames = []string{"create", "connect", "disconnect", "delete", "update", "name", "desc", "producer", "setmeta", "delmeta"}

// savedThenEdited: the graph is saved (the autosave of the edit server), then edited by one or two edits of a
// single kind each — whatever a node, a parameter or the encoder remembers from the earlier save must not
// show in the next one
func (g *gen) savedThenEdited() {
	g.do(Op{K: "eval"})
	for k, m := 0, g.r.Range(1, 2); k < m; k++ {
		kind := hx.Pick(g.r, editKindNames)
		n := len(g.ops)
		for try := 0; try < 4 && len(g.ops) == n; try++ {
			g.opByWeight(editKinds[kind])
		}
		if len(g.ops) > n {
			run_count("saved-then-edited:" + kind)
		}
	}
}

func (g *gen) opByWeight(w int) {
	r := g.r
	live := g.nodes
	pickNode := func() *gnode {
		if len(live) == 0 {
			return nil
		}
		return hx.Pick(r, live)
	}
	_ = pickNode
	switch {
	case w < 12: // create
		if r.Chance(3, 5) {
			g.create(hx.Pick(r, paramTags))
		} else {
			g.create(hx.Pick(r, procTags))
		}
	case w < 46: // connect (valid)
		var cands []*gnode
		for _, n := range live {
			if len(tyTable[n.ti].Ports) > 0 {
				cands = append(cands, n)
			}
		}
		if len(cands) == 0 {
			g.create(hx.Pick(r, procTags))
			return
		}
		dst := hx.Pick(r, cands)
		ports := tyTable[dst.ti].Ports
		p := hx.Pick(r, ports)
		if r.Chance(1, 2) { // prefer array ports
			for _, q := range ports {
				if q.Array {
					p = q
					break
				}
			}
		}
		srcs := g.sourcesOf(p.VT, dst)
		if len(srcs) == 0 {
			if tag := paramTagFor(p.VT); tag != "" {
				g.create(tag)
			}
			return
		}
		g.connect(hx.Pick(r, srcs), dst, p)
	case w < 54: // disconnect
		var cands []*gnode
		for _, n := range live {
			for _, s := range n.ins {
				if len(s) > 0 {
					cands = append(cands, n)
					break
				}
			}
		}
		if len(cands) == 0 {
			return
		}
		n := hx.Pick(r, cands)
		for _, p := range tyTable[n.ti].Ports {
			l := n.ins[p.Name]
			if len(l) == 0 {
				continue
			}
			if p.Array && !r.Chance(1, 10) {
				k := r.Intn(len(l))
				name := fmt.Sprintf("%s.%d", p.Name, k)
				switch r.Intn(16) {
				case 0, 1:
					name = fmt.Sprintf("%s.0%d", p.Name, k) // Atoi accepts leading zeros
				case 2:
					name = fmt.Sprintf("%s.+%d", p.Name, k) // and a sign
					run_count("disconnect:signed-index")
				case 3:
					if k == 0 {
						name = p.Name + ".-0"
						run_count("disconnect:signed-index")
					}
				}
				if g.do(Op{K: "disconnect", ID: n.id, Port: name}) {
					n.ins[p.Name] = append(append([]string{}, l[:k]...), l[k+1:]...)
				}
			} else if g.do(Op{K: "disconnect", ID: n.id, Port: p.Name}) { // clears the whole field
				n.ins[p.Name] = nil
			}
			return
		}
	case w < 59: // delete a node nothing depends on
		n := pickNode()
		if n == nil || g.hasDependents(n.id) {
			return
		}
		g.deleteNode(n)
	case w < 72: // update
		var cands []*gnode
		for _, n := range live {
			if tyTable[n.ti].PKind != 0 {
				cands = append(cands, n)
			}
		}
		if len(cands) == 0 {
			return
		}
		n := hx.Pick(r, cands)
		g.do(Op{K: "update", ID: n.id, Msg: b64(genMessage(r, tyTable[n.ti].Tag))})
	case w < 77: // name
		var cands []*gnode
		for _, n := range live {
			if tyTable[n.ti].PKind != 0 {
				cands = append(cands, n)
			}
		}
		if len(cands) > 0 {
			g.do(Op{K: "name", ID: hx.Pick(r, cands).id, S: genString(r)})
		}
	case w < 83: // description
		var cands []*gnode
		for _, n := range live {
			if tyTable[n.ti].PKind != 0 {
				cands = append(cands, n)
			}
		}
		if len(cands) > 0 {
			g.do(Op{K: "desc", ID: hx.Pick(r, cands).id, S: genString(r)})
		}
	case w < 89: // producer
		var cands []*gnode
		for _, n := range live {
			if tyTable[n.ti].Artifact {
				cands = append(cands, n)
			}
		}
		if len(cands) == 0 {
			g.create(hx.Pick(r, []string{"text", "binary", "imageart"}))
			return
		}
		g.do(Op{K: "producer", ID: hx.Pick(r, cands).id, S: genProducerName(r)})
	case w < 95: // set metadata
		p := g.genMetaPath()
		mv := genMetaValue(r, 2)
		if r.Chance(1, 2) { // the request body in another spelling (the server decodes it with encoding/json)
			mv = string(respell(r, []byte(mv), true, true, false))
		}
		if g.do(Op{K: "setmeta", S: p, V: mv}) {
			g.paths = append(g.paths, p)
		}
	case w < 97: // delete metadata
		g.do(Op{K: "delmeta", S: g.genMetaPath()})
	default: // calls the API rejects
		switch r.Intn(8) {
		case 0:
			g.create("no/such.Type")
		case 1:
			g.do(Op{K: "connect", Src: "Node-99", ID: "Node-0", Port: "Value"})
		case 2:
			if n := pickNode(); n != nil {
				g.do(Op{K: "connect", Src: n.id, ID: n.id + "x", Port: "Values.0"})
			}
		case 3: // type mismatch / wrong shape / missing field
			if a, b := pickNode(), pickNode(); a != nil && b != nil && !g.dependsOn(a.id, b.id) {
				g.do(Op{K: "connect", Src: a.id, ID: b.id, Port: hx.Pick(r, []string{"Values", "Value.0", "Nope", "Nope.1", "In", "Parts.0", "Blob"})})
			}
		case 4:
			if n := pickNode(); n != nil {
				g.do(Op{K: "disconnect", ID: n.id, Port: hx.Pick(r, []string{"Values.99", "Values.x", "Nope", "Value.0", "Values.", "Values.-1", "Values.+99", "Values.+-0", "Values.99999999999999999999",
					"Values.0x0", "Values.1_0", "Values. 0", "Values.0.0", ".0", "."})})
			}
		case 5:
			if n := pickNode(); n != nil && !tyTable[n.ti].Artifact {
				g.do(Op{K: "producer", ID: n.id, S: "bad.bin"})
			}
		case 6:
			g.do(Op{K: "name", ID: "Node-77", S: "x"})
		case 7:
			g.do(Op{K: "update", ID: "Node-77", Msg: b64([]byte("1"))})
		}
	}
}

// genHist: i selects the flavour (general / many array connections / binary payloads)
func genHist(r *hx.Rng, run *hx.Run, i int) histDesc {
	g := newGen(r)
	d := histDesc{AppName: hx.Pick(r, []string{"", "Graph", "ünï"}), AppVersion: hx.Pick(r, []string{"", "v0.0.1"}),
		AppDesc: hx.Pick(r, []string{"", "a description"})}
	if r.Chance(1, 3) { // the rest of the header that is saved with the graph
		d.AppName, d.AppVersion, d.AppDesc = genString(r), hx.Pick(r, []string{"", "v0.0.1", "1.2.3-rc.1+build<7>"}), genString(r)
		d.Authors = hx.Pick(r, []string{"", "[]", `[{"name":"A. Uthor"}]`,
			`[{"name":"x","contactInfo":[{"medium":"email","value":"a@b.c"},{"medium":"","value":""}]},{"name":""},{"name":"Zoë <z&z> \"q\"","contactInfo":[]}]`,
			`[{"name":"b"},{"name":"a"},{"name":"b"}]`})
		d.WebScene = hx.Pick(r, []string{"", "{}",
			`{"renderWireframe":true,"antiAlias":false,"xrEnabled":true,"fog":{"color":"#a0b0c0","near":0.1,"far":1e3},"background":"#00000080","lighting":"#fff","ground":"#123456"}`,
			`{"antiAlias":true,"fog":{"color":"#ffffffff","near":-0.0,"far":3.4028235e38},"background":"#abcd","lighting":"#FFFFFF","ground":"#00000000"}`})
		run.Count("header:authors/webScene/special strings")
	}
	switch i % 4 {
	case 3: // wire encodings: parameters of every type, each updated a few times, all feeding artifacts
		de := g.create("describe")
		jn := g.create("join")
		sm := g.create("sum")
		tags := append([]string{"image", "image", "str", "f64"}, paramTags...)
		for _, k := range r.Perm(len(tags))[:r.Range(4, 10)] {
			tag := tags[k]
			n := g.create(tag)
			for u, m := 0, hx.Pick(r, []int{1, 1, 1, 2, 3}); u < m; u++ {
				msg := genCanonicalMessage(r, tag)
				if !r.Chance(1, 5) {
					msg = respellFor(r, tag, msg)
				}
				g.do(Op{K: "update", ID: n.id, Msg: b64(msg)})
			}
			if r.Chance(1, 4) {
				g.do(Op{K: "desc", ID: n.id, S: genString(r)})
			}
			switch tag {
			case "f64":
				g.connect(n, sm, tyTable[sm.ti].Ports[2])
			case "str":
				if r.Chance(1, 2) {
					g.connect(n, jn, tyTable[jn.ti].Ports[2]) // Parts
				} else {
					g.connect(n, de, tyTable[de.ti].Ports[7]) // Texts
				}
			case "image":
				if r.Chance(1, 2) {
					ia := g.create("imageart")
					g.connect(n, ia, tyTable[ia.ti].Ports[0])
					g.do(Op{K: "producer", ID: ia.id, S: namePrefix(r) + n.id + ".png"})
					continue
				}
				fallthrough
			default:
				for _, p := range tyTable[de.ti].Ports {
					if !p.Array && p.VT == tyTable[n.ti].Out {
						g.connect(n, de, p)
					}
				}
				if tag == "bool" {
					g.connect(n, jn, tyTable[jn.ti].Ports[0])
				}
				if tag == "file" {
					bn := g.create("binary")
					g.connect(n, bn, tyTable[bn.ti].Ports[0])
					g.do(Op{K: "producer", ID: bn.id, S: namePrefix(r) + n.id + ".bin"})
				}
			}
		}
		g.connect(sm, jn, tyTable[jn.ti].Ports[1])
		for _, src := range []*gnode{de, jn} {
			t := g.create("text")
			g.connect(src, t, tyTable[t.ti].Ports[0])
			g.do(Op{K: "producer", ID: t.id, S: namePrefix(r) + src.id + ".txt"})
		}
		for k, m := 0, r.Range(0, 8); k < m; k++ {
			g.randomOp()
		}
		run.Count("flavour:encodings")
	case 0: // general
		n := r.Range(2, 8)
		for k := 0; k < n; k++ {
			if r.Chance(1, 2) {
				g.create(hx.Pick(r, paramTags))
			} else {
				g.create(hx.Pick(r, procTags))
			}
		}
		for k, m := 0, r.Range(5, 45); k < m; k++ {
			g.randomOp()
		}
		run.Count("flavour:general")
	case 1: // many connections on one array input (ten or more in particular)
		field := hx.Pick(r, []string{"sum", "join", "describe", "mix", "mix"})
		dst := g.create(field)
		var p portInfo
		for _, q := range tyTable[dst.ti].Ports {
			if q.Array {
				p = q
				if r.Chance(1, 2) {
					break
				}
			}
		}
		tag := paramTagFor(p.VT)
		nsrc := r.Range(1, 6)
		srcs := []*gnode{}
		for k := 0; k < nsrc; k++ {
			s := g.create(tag)
			g.do(Op{K: "update", ID: s.id, Msg: b64(genMessage(r, tag))})
			srcs = append(srcs, s)
		}
		if r.Chance(1, 3) { // a processor as a source too
			if field == "sum" {
				s := g.create("sum")
				g.connect(srcs[0], s, tyTable[s.ti].Ports[2])
				srcs = append(srcs, s)
			}
		}
		nconn := hx.Pick(r, []int{0, 1, 9, 10, 11, 11, 12, 13, 15, 17, 20, 25, 25, r.Range(11, 25), r.Range(0, 25)})
		if run.Tier == "thorough" && i%30 == 1 {
			// connection counts around every decimal-width boundary of the index (99|100, 999|1000)
			nconn = hx.Pick(r, []int{99, 100, 101, 102, 110, 111, 130, 200, 250, 999, 1000, 1001, 1010, r.Range(100, 1100)})
			run.Count("array-connections:width-boundary")
		}
		// a second array port of the same node (same value type) gets connections too
		var p2 *portInfo
		for k, q := range tyTable[dst.ti].Ports {
			if q.Array && q.Name != p.Name && q.VT == p.VT && r.Chance(1, 2) {
				p2 = &tyTable[dst.ti].Ports[k]
			}
		}
		if p2 != nil {
			for k, m := 0, hx.Pick(r, []int{1, 2, 10, 11, 12, 13}); k < m; k++ {
				g.connect(hx.Pick(r, srcs), dst, *p2)
			}
		}
		for k := 0; k < nconn; k++ {
			g.connect(hx.Pick(r, srcs), dst, p)
			if r.Chance(1, 12) && len(dst.ins[p.Name]) > 1 { // middle disconnect
				l := dst.ins[p.Name]
				j := r.Range(0, len(l)-1)
				if g.do(Op{K: "disconnect", ID: dst.id, Port: fmt.Sprintf("%s.%d", p.Name, j)}) {
					dst.ins[p.Name] = append(append([]string{}, l[:j]...), l[j+1:]...)
				}
			}
		}
		// make it produce an artifact
		if tyTable[dst.ti].Out == vtStr {
			t := g.create("text")
			g.connect(dst, t, tyTable[t.ti].Ports[0])
			g.do(Op{K: "producer", ID: t.id, S: namePrefix(r) + "out.txt"})
		} else if tyTable[dst.ti].Out == vtF64 {
			j := g.create("join")
			g.connect(dst, j, tyTable[j.ti].Ports[1]) // Numbers
			t := g.create("text")
			g.connect(j, t, tyTable[t.ti].Ports[0])
			g.do(Op{K: "producer", ID: t.id, S: namePrefix(r) + "sum.txt"})
		}
		if r.Chance(1, 2) { // the artifact is produced, THEN elements are disconnected (caches must not outlive edits)
			g.do(Op{K: "eval"})
			for k, m := 0, r.Range(1, 3); k < m && len(dst.ins[p.Name]) > 1; k++ {
				l := dst.ins[p.Name]
				j := r.Range(0, len(l)-1)
				if g.do(Op{K: "disconnect", ID: dst.id, Port: fmt.Sprintf("%s.%d", p.Name, j)}) {
					dst.ins[p.Name] = append(append([]string{}, l[:j]...), l[j+1:]...)
				}
			}
			run.Count("array:evaluated-before-element-disconnect")
		}
		for k, m := 0, r.Range(0, 12); k < m; k++ {
			if r.Chance(1, 2) {
				break
			}
			g.randomOp()
		}
		run.Count("flavour:array")
	case 2: // binary payloads: File / Image parameters, cat, binary and image artifacts
		nf := hx.Pick(r, []int{0, 1, 1, 2, 3})
		ni := hx.Pick(r, []int{0, 1, 2})
		order := []string{}
		for k := 0; k < nf; k++ {
			order = append(order, "file")
		}
		for k := 0; k < ni; k++ {
			order = append(order, "image")
		}
		for _, k := range r.Perm(len(order)) {
			n := g.create(order[k])
			if r.Chance(5, 6) {
				g.do(Op{K: "update", ID: n.id, Msg: b64(genMessage(r, order[k]))})
			}
			if r.Chance(1, 2) {
				g.do(Op{K: "desc", ID: n.id, S: genString(r)})
			}
			if r.Chance(1, 3) {
				g.do(Op{K: "name", ID: n.id, S: genString(r)})
			}
		}
		cat := g.create("cat")
		for _, n := range g.nodes {
			if tyTable[n.ti].Tag == "file" && r.Chance(3, 4) {
				g.connect(n, cat, tyTable[cat.ti].Ports[0])
			}
		}
		bn := g.create("binary")
		g.connect(cat, bn, tyTable[bn.ti].Ports[0])
		g.do(Op{K: "producer", ID: bn.id, S: namePrefix(r) + "cat.bin"})
		for _, n := range g.nodes {
			if tyTable[n.ti].Tag == "image" && r.Chance(2, 3) {
				ia := g.create("imageart")
				g.connect(n, ia, tyTable[ia.ti].Ports[0])
				g.do(Op{K: "producer", ID: ia.id, S: namePrefix(r) + n.id + ".png"})
			}
		}
		if r.Chance(1, 2) {
			de := g.create("describe")
			for _, n := range g.nodes {
				for _, p := range tyTable[de.ti].Ports {
					if !p.Array && tyTable[n.ti].Out == p.VT && tyTable[n.ti].PKind != 0 && r.Chance(1, 2) {
						g.connect(n, de, p)
					}
				}
			}
			t := g.create("text")
			g.connect(de, t, tyTable[t.ti].Ports[0])
			g.do(Op{K: "producer", ID: t.id, S: namePrefix(r) + "describe.txt"})
		}
		for k, m := 0, r.Range(0, 15); k < m; k++ {
			g.randomOp()
		}
		run.Count("flavour:binary")
	}
	// the continuation (applied after the save to the live and to the reloaded instance): ids that were freed
	// before the save, a node created after it, and whatever else comes
	if i%2 == 0 {
		for k, m := 0, r.Range(0, 2); k < m; k++ {
			cands := []*gnode{}
			for _, n := range g.nodes {
				if !g.hasDependents(n.id) {
					cands = append(cands, n)
				}
			}
			if len(cands) == 0 || len(g.nodes) < 3 {
				break
			}
			g.deleteNode(hx.Pick(r, cands))
		}
	}
	if r.Chance(1, 2) { // save, edit, then the save that is loaded
		g.savedThenEdited()
	}
	n0 := len(g.ops)
	if r.Chance(2, 3) {
		g.create(hx.Pick(r, paramTags))
	}
	for k, m := 0, r.Range(1, 8); k < m; k++ {
		g.randomOp()
	}
	if r.Chance(1, 2) {
		g.create(hx.Pick(r, procTags))
	}
	if r.Chance(1, 2) { // the same after the reload: the continuation's save is loaded once more
		g.savedThenEdited()
	}
	d.Ops, d.Cont = g.ops[:n0:n0], g.ops[n0:]
	// two histories in three are persisted by the edit server's saver to a real file that is read back from disk
	d.Saver = []string{"each", "evals", ""}[(i/4+i)%3]
	return d
}

func (g *gen) deleteNode(n *gnode) {
	g.do(Op{K: "delete", ID: n.id})
	for i, m := range g.nodes {
		if m == n {
			g.nodes = append(append([]*gnode{}, g.nodes[:i]...), g.nodes[i+1:]...)
			break
		}
	}
}

// ---- fixed corner histories ----

func hist(ops ...Op) histDesc { return histDesc{AppName: "Graph", AppVersion: "v0.0.1", Ops: ops} }

// bigArrays: one node of type tag, nsrc float parameters with distinct values, and for every (field, n) n
// connections on that array port with the sources taken cyclically (7 sources: any misplaced element is
// visible as a changed neighbour); then disconnects in the middle, a reconnect, and an artifact.
func bigArrays(tag string, nsrc int, fields []string, counts []int, middle bool) histDesc {
	ops := []Op{{K: "create", Ty: tag}}
	for k := 1; k <= nsrc; k++ {
		id := fmt.Sprintf("Node-%d", k)
		ops = append(ops, Op{K: "create", Ty: "f64"}, Op{K: "update", ID: id, Msg: b64([]byte(fmt.Sprint(k)))})
	}
	c := 0
	for fi, f := range fields {
		for k := 0; k < counts[fi]; k++ {
			ops = append(ops, Op{K: "connect", Src: fmt.Sprintf("Node-%d", 1+c%nsrc), ID: "Node-0", Port: fmt.Sprintf("%s.%d", f, k)})
			c++
		}
	}
	if middle {
		for fi, f := range fields {
			if n := counts[fi]; n >= 12 {
				ops = append(ops, Op{K: "disconnect", ID: "Node-0", Port: fmt.Sprintf("%s.%d", f, n/2)},
					Op{K: "disconnect", ID: "Node-0", Port: fmt.Sprintf("%s.%d", f, 10)},
					Op{K: "disconnect", ID: "Node-0", Port: fmt.Sprintf("%s.0", f)},
					Op{K: "connect", Src: "Node-2", ID: "Node-0", Port: fmt.Sprintf("%s.%d", f, n-3)},
					Op{K: "connect", Src: "Node-1", ID: "Node-0", Port: fmt.Sprintf("%s.%d", f, n-2)})
			}
		}
	}
	j, t := fmt.Sprintf("Node-%d", nsrc+1), fmt.Sprintf("Node-%d", nsrc+2)
	ops = append(ops, Op{K: "create", Ty: "join"}, Op{K: "connect", Src: "Node-0", ID: j, Port: "Numbers.0"},
		Op{K: "create", Ty: "text"}, Op{K: "connect", Src: j, ID: t, Port: "In"}, Op{K: "producer", ID: t, S: "big.txt"})
	return hist(ops...)
}

// widthBoundaryHistories: array inputs whose index crosses a decimal width (2 -> 3 digits at 100, 3 -> 4 at
// 1000): a comparator that is right for short indices only (zero padding, fixed-width keys, lexicographic
// fallbacks) shows from 101 resp. 1001 connections on.
func widthBoundaryHistories() []histDesc {
	return []histDesc{
		bigArrays("sum", 7, []string{"Values", "ValuesB"}, []int{101, 12}, false),
		bigArrays("mix", 7, []string{"Values", "Values2", "Vals"}, []int{100, 130, 11}, true),
		bigArrays("sum", 7, []string{"Values"}, []int{1001}, false),
	}
}

func withCont(d histDesc, cont ...Op) histDesc { d.Cont = cont; return d }

// warmCacheHistories: reads interleaved with edits. The artifact is produced BEFORE an element of an array input
// is disconnected (each source processed once: the remaining dependencies' versions line up with the recorded
// ones), before a scalar input is cleared, before a parameter update; the live graph must then serve what the
// saved-and-reloaded one computes.
func warmCacheHistories() []histDesc {
	build := func(tag, field string, n int) []Op {
		ops := []Op{{K: "create", Ty: tag}}
		for k := 1; k <= n; k++ {
			id := fmt.Sprintf("Node-%d", k)
			ops = append(ops, Op{K: "create", Ty: "f64"}, Op{K: "update", ID: id, Msg: b64([]byte(fmt.Sprint(k * k)))},
				Op{K: "connect", Src: id, ID: "Node-0", Port: fmt.Sprintf("%s.%d", field, k-1)})
		}
		j, t := fmt.Sprintf("Node-%d", n+1), fmt.Sprintf("Node-%d", n+2)
		return append(ops, Op{K: "create", Ty: "join"}, Op{K: "connect", Src: "Node-0", ID: j, Port: "Numbers.0"},
			Op{K: "create", Ty: "text"}, Op{K: "connect", Src: j, ID: t, Port: "In"}, Op{K: "producer", ID: t, S: "warm.txt"},
			Op{K: "eval"})
	}
	out := []histDesc{}
	// element disconnects after a read: middle, first, last; one and several
	out = append(out, hist(append(build("sum", "Values", 5), Op{K: "disconnect", ID: "Node-0", Port: "Values.2"})...))
	out = append(out, hist(append(build("mix", "Values2", 4), Op{K: "disconnect", ID: "Node-0", Port: "Values2.0"}, Op{K: "eval"},
		Op{K: "disconnect", ID: "Node-0", Port: "Values2.2"})...))
	out = append(out, hist(append(build("sum", "ValuesB", 12), Op{K: "disconnect", ID: "Node-0", Port: "ValuesB.11"}, Op{K: "disconnect", ID: "Node-0", Port: "ValuesB.10"})...))
	// the same with the disconnect AFTER the save, on the live (warm) and the reloaded (cold, then warmed) graph
	out = append(out, withCont(hist(build("sum", "Values", 5)...), Op{K: "eval"}, Op{K: "disconnect", ID: "Node-0", Port: "Values.1"}))
	// whole-field clear, update of a source, reconnect, delete of a source after disconnecting it: all after a read
	out = append(out, hist(append(build("sum", "Values", 3), Op{K: "disconnect", ID: "Node-0", Port: "Values"})...))
	out = append(out, hist(append(build("sum", "Values", 3), Op{K: "update", ID: "Node-2", Msg: b64([]byte("100"))}, Op{K: "eval"},
		Op{K: "disconnect", ID: "Node-0", Port: "Values.0"}, Op{K: "delete", ID: "Node-1"})...))
	// strings through join.Parts
	out = append(out, hist(Op{K: "create", Ty: "join"}, Op{K: "create", Ty: "str"}, Op{K: "create", Ty: "str"}, Op{K: "create", Ty: "str"},
		Op{K: "update", ID: "Node-1", Msg: b64([]byte(`"a"`))}, Op{K: "update", ID: "Node-2", Msg: b64([]byte(`"b"`))}, Op{K: "update", ID: "Node-3", Msg: b64([]byte(`"c"`))},
		Op{K: "connect", Src: "Node-1", ID: "Node-0", Port: "Parts.0"}, Op{K: "connect", Src: "Node-2", ID: "Node-0", Port: "Parts.1"},
		Op{K: "connect", Src: "Node-3", ID: "Node-0", Port: "Parts.2"},
		Op{K: "create", Ty: "text"}, Op{K: "connect", Src: "Node-0", ID: "Node-4", Port: "In"}, Op{K: "producer", ID: "Node-4", S: "p.txt"},
		Op{K: "eval"}, Op{K: "disconnect", ID: "Node-0", Port: "Parts.1"}))
	return out
}

// continuationHistories: the reloaded graph is edited further. Ids freed before the save (first, middle, last,
// several), then nodes created, addressed, connected and deleted after it.
func continuationHistories() []histDesc {
	three := []Op{{K: "create", Ty: "f64"}, {K: "create", Ty: "int"}, {K: "create", Ty: "str"}, {K: "create", Ty: "sum"}}
	out := []histDesc{}
	for _, del := range [][]string{{"Node-0"}, {"Node-1"}, {"Node-3"}, {"Node-0", "Node-2"}, {}} {
		ops := append([]Op{}, three...)
		for _, id := range del {
			ops = append(ops, Op{K: "delete", ID: id})
		}
		out = append(out, withCont(hist(ops...),
			Op{K: "create", Ty: "f64"}, Op{K: "create", Ty: "bool"},
			Op{K: "update", ID: "Node-4", Msg: b64([]byte("4.5"))}, Op{K: "name", ID: "Node-4", S: "made after the reload"},
			Op{K: "update", ID: "Node-3", Msg: b64([]byte("3"))}, Op{K: "update", ID: "Node-2", Msg: b64([]byte(`"two"`))},
			Op{K: "update", ID: "Node-5", Msg: b64([]byte("true"))},
			Op{K: "create", Ty: "sum"}, Op{K: "connect", Src: "Node-4", ID: "Node-6", Port: "Values.0"},
			Op{K: "connect", Src: "Node-4", ID: "Node-3", Port: "Values.0"}, Op{K: "connect", Src: "Node-0", ID: "Node-3", Port: "Values.1"},
			Op{K: "delete", ID: "Node-5"}, Op{K: "create", Ty: "text"}, Op{K: "setmeta", S: "nodes.Node-4.position", V: `{"x":1,"y":2}`}))
	}
	return out
}

// savedBetweenHistories: save -> ONE edit -> save -> load, for every kind of edit and every kind of parameter;
// before the reload (the edit in Ops after a read) and after it (the edit in Cont after a read: the continuation's
// save is loaded again)
func savedBetweenHistories() []histDesc {
	base := []Op{{K: "create", Ty: "f64"}, {K: "create", Ty: "str"}, {K: "create", Ty: "image"}, {K: "create", Ty: "file"},
		{K: "create", Ty: "sum"}, {K: "create", Ty: "join"}, {K: "create", Ty: "text"}, {K: "create", Ty: "binary"}, {K: "create", Ty: "color"},
		{K: "update", ID: "Node-0", Msg: b64([]byte("2.5"))}, {K: "update", ID: "Node-1", Msg: b64([]byte(`"text"`))},
		{K: "update", ID: "Node-3", Msg: b64([]byte("bytes"))}, {K: "update", ID: "Node-2", Msg: b64(genPNG(hx.NewRng(11)))},
		{K: "name", ID: "Node-0", S: "radius"}, {K: "desc", ID: "Node-0", S: "in metres"}, {K: "name", ID: "Node-3", S: "blob"},
		{K: "name", ID: "Node-2", S: "picture"}, {K: "desc", ID: "Node-2", S: "a picture"}, {K: "name", ID: "Node-8", S: "tint"},
		{K: "connect", Src: "Node-0", ID: "Node-4", Port: "Values.0"}, {K: "connect", Src: "Node-1", ID: "Node-5", Port: "Parts.0"},
		{K: "connect", Src: "Node-4", ID: "Node-5", Port: "Numbers.0"}, {K: "connect", Src: "Node-5", ID: "Node-6", Port: "In"},
		{K: "connect", Src: "Node-3", ID: "Node-7", Port: "In"}, {K: "producer", ID: "Node-6", S: "out.txt"}, {K: "producer", ID: "Node-7", S: "b.bin"},
		{K: "setmeta", S: "notes.n0", V: `{"text":"first"}`}, {K: "setmeta", S: "nodes.Node-4.position", V: `{"x":1,"y":2}`},
		{K: "eval"}}
	edits := [][]Op{
		{{K: "name", ID: "Node-0", S: "renamed"}}, {{K: "desc", ID: "Node-0", S: "described again"}},
		{{K: "name", ID: "Node-1", S: ""}}, {{K: "desc", ID: "Node-1", S: "was empty"}},
		{{K: "name", ID: "Node-3", S: "renamed file"}}, {{K: "desc", ID: "Node-3", S: "file described"}},
		{{K: "name", ID: "Node-2", S: "renamed picture"}}, {{K: "desc", ID: "Node-2", S: ""}},
		{{K: "name", ID: "Node-8", S: "renamed colour"}, {K: "desc", ID: "Node-8", S: "and described"}},
		{{K: "update", ID: "Node-0", Msg: b64([]byte("-0.0"))}}, {{K: "update", ID: "Node-3", Msg: b64([]byte{})}},
		{{K: "update", ID: "Node-2", Msg: b64(genPNG(hx.NewRng(12)))}}, {{K: "update", ID: "Node-8", Msg: b64([]byte(`"#01020304"`))}},
		{{K: "producer", ID: "Node-6", S: "renamed.txt"}}, {{K: "producer", ID: "Node-7", S: "out.txt"}},
		{{K: "setmeta", S: "notes.n0.text", V: `"second"`}}, {{K: "delmeta", S: "notes.n0"}}, {{K: "setmeta", S: "nodes.Node-4", V: `{}`}},
		{{K: "connect", Src: "Node-0", ID: "Node-4", Port: "Values.1"}}, {{K: "disconnect", ID: "Node-4", Port: "Values.0"}},
		{{K: "connect", Src: "Node-0", ID: "Node-4", Port: "Value"}}, {{K: "disconnect", ID: "Node-5", Port: "Parts"}},
		{{K: "create", Ty: "f64"}}, {{K: "delete", ID: "Node-7"}}, {{K: "delete", ID: "Node-8"}, {K: "create", Ty: "file"}},
	}
	out := []histDesc{}
	for k := range edits {
		ops := append(append([]Op{}, base...), edits[k]...)
		// after the reload: another read, then the next kind of edit
		next := edits[(k+7)%len(edits)]
		h := withCont(hist(ops...), append([]Op{{K: "eval"}}, next...)...)
		h.Saver = []string{"evals", "each"}[k%2] // the file-level path: GraphSaver writes, the file is read back and loaded
		out = append(out, h)
	}
	return out
}

// producerNameHistories: producer names in every special form, several per graph (names that coincide once a
// path is brought into its shortest form, folded or trimmed must stay apart)
func producerNameHistories() []histDesc {
	out := []histDesc{}
	for lo := 8; lo < len(producerNames); lo += 6 {
		ops := []Op{{K: "create", Ty: "str"}, {K: "update", ID: "Node-0", Msg: b64([]byte(`"content"`))}}
		hi := lo + 6
		if hi > len(producerNames) {
			hi = len(producerNames)
		}
		for k, name := range producerNames[lo:hi] {
			id := fmt.Sprintf("Node-%d", k+1)
			ops = append(ops, Op{K: "create", Ty: "text"}, Op{K: "connect", Src: "Node-0", ID: id, Port: "In"}, Op{K: "producer", ID: id, S: name})
		}
		out = append(out, withCont(hist(ops...), Op{K: "create", Ty: "text"}, Op{K: "producer", ID: fmt.Sprintf("Node-%d", hi-lo+1), S: producerNames[lo]}))
	}
	return out
}

// specialValueHistories: every parameter kind holding the special values of its type, with names and descriptions
// that need escaping; metadata (notes, node positions, other subtrees) holding them as well
func specialValueHistories() []histDesc {
	out := []histDesc{}
	kinds := []struct {
		tag  string
		msgs []string
	}{
		{"f64", specialNumbers}, {"f32", specialNumbers},
		{"int", []string{"9223372036854775807", "-9223372036854775808", "9223372036854775808", "-0", "1e3", "2147483648", "9007199254740993"}},
		{"v2", []string{`{"x":5e-324,"y":-1.7976931348623157e308}`, `{"x":-0.0,"y":1e21}`, `{"x":1e309,"y":0}`}},
		{"v3", []string{`{"x":2.2250738585072014e-308,"y":0.000001,"z":9007199254740993}`, `{"x":-0,"y":-0.0,"z":0e0}`}},
		{"v3arr", []string{`[{"x":5e-324},{"y":-5e-324},{"z":1.7976931348623157e308}]`}},
		{"aabb", []string{`{"center":{"x":1e300,"y":-1e300,"z":5e-324},"extents":{"x":-1,"y":-0.0,"z":1e-320}}`}},
		{"color", []string{`"#00000000"`, `"#000000ff"`, `"#fffffffe"`, `"#0000"`, `"#ffff"`, `"#FfFf"`}},
	}
	for _, kd := range kinds {
		ops := []Op{}
		for k, m := range kd.msgs {
			id := fmt.Sprintf("Node-%d", k)
			ops = append(ops, Op{K: "create", Ty: kd.tag}, Op{K: "update", ID: id, Msg: b64([]byte(m))},
				Op{K: "name", ID: id, S: specialStrings[(k*3)%len(specialStrings)]}, Op{K: "desc", ID: id, S: specialStrings[(k*3+1)%len(specialStrings)]})
		}
		out = append(out, hist(ops...))
	}
	// strings: every special string as a value, a name, a description, an element of a []string, a metadata value and key
	ops := []Op{}
	for k, sp := range append(append([]string{}, specialStrings...), longString(hx.NewRng(3))) {
		id := fmt.Sprintf("Node-%d", k)
		body, _ := json.Marshal(sp)
		tag := "str"
		if k%3 == 2 {
			tag, body = "strs", []byte("["+string(body)+`,"",`+string(body)+"]")
		}
		ops = append(ops, Op{K: "create", Ty: tag}, Op{K: "update", ID: id, Msg: b64(body)})
		if k%2 == 0 {
			ops = append(ops, Op{K: "name", ID: id, S: sp})
		} else {
			ops = append(ops, Op{K: "desc", ID: id, S: sp})
		}
		if !strings.Contains(sp, ".") {
			ops = append(ops, Op{K: "setmeta", S: "notes." + sp, V: fmt.Sprintf(`{"text":%s,%s:[%s]}`, string(body), jsonKey(sp), genNumberAt(k))})
		}
	}
	out = append(out, hist(ops...))
	// file payloads: empty, one byte, every byte value, bytes that are JSON / base64 / a PNG signature
	all := make([]byte, 256)
	for i := range all {
		all[i] = byte(i)
	}
	ops = []Op{}
	for k, b := range [][]byte{{}, {0}, all, []byte(`{"$CurrentValue":0}`), []byte("QUJD"), []byte("\x89PNG\r\n\x1a\n")} {
		id := fmt.Sprintf("Node-%d", k)
		ops = append(ops, Op{K: "create", Ty: "file"}, Op{K: "update", ID: id, Msg: b64(b)}, Op{K: "name", ID: id, S: specialStrings[k]})
	}
	out = append(out, hist(ops[:3]...), hist(ops[3:6]...), hist(ops[6:9]...), hist(ops...))
	// metadata: deep nesting, empty containers, special numbers, keys in every order, the subtrees the editor uses
	out = append(out, hist(Op{K: "create", Ty: "sum"},
		Op{K: "setmeta", S: "notes", V: `{}`}, Op{K: "setmeta", S: "notes.a.b.c.d.e.f", V: `[[[[[[]]]]],{"":{"":{"":null}}}]`},
		Op{K: "setmeta", S: "nodes.Node-0.position", V: `{"x":-0.0,"y":1e-7}`}, Op{K: "setmeta", S: "nodes.Node-0.size", V: `[5e-324,1.7976931348623157e308,1e21,1e20,0.000001]`},
		Op{K: "setmeta", S: "variables.v1", V: `{"type":"float64","value":1.5,"description":"<a \"variable\">"}`},
		Op{K: "setmeta", S: "profiles.default", V: `{"Node-0":{"data":null}}`},
		Op{K: "setmeta", S: "notes.z", V: `{"b":1,"a":2,"B":3,"A":4,"10":5,"9":6,"é":7,"e":8}`},
		Op{K: "setmeta", S: "", V: `"the empty key"`}, Op{K: "setmeta", S: ".", V: `"two empty keys"`}, Op{K: "setmeta", S: "notes..x", V: `1`},
		Op{K: "delmeta", S: "notes.a.b.c.d.e"}, Op{K: "delmeta", S: "notes.a.b.c.d.e"}, Op{K: "delmeta", S: "nothing"},
		Op{K: "setmeta", S: "notes.a.b", V: `null`}, Op{K: "setmeta", S: "notes.a.b.c", V: `1`}))
	return out
}

func jsonKey(s string) string { b, _ := json.Marshal("k" + s); return string(b) }
func genNumberAt(k int) string {
	for ; ; k++ {
		s := specialNumbers[k%len(specialNumbers)]
		var v any
		if json.Unmarshal([]byte(s), &v) == nil {
			return s
		}
	}
}

func fixedHistories() []histDesc {
	out := []histDesc{hist()}
	out = append(out, savedBetweenHistories()...)
	out = append(out, producerNameHistories()...)
	out = append(out, specialValueHistories()...)
	out = append(out, widthBoundaryHistories()...)
	out = append(out, encodingHistories()...)
	for _, h := range warmCacheHistories() {
		h.Saver = "evals"
		out = append(out, h)
	}
	for k, h := range continuationHistories() {
		h.Saver = []string{"each", "evals", ""}[k%3]
		out = append(out, h)
	}
	// 11 and 12 connections on one array input, distinct values (DESIGN.md §5 entry 13)
	for _, n := range []int{11, 12, 25} {
		ops := []Op{{K: "create", Ty: "sum"}}
		for k := 0; k < n; k++ {
			id := fmt.Sprintf("Node-%d", k+1)
			ops = append(ops, Op{K: "create", Ty: "f64"}, Op{K: "update", ID: id, Msg: b64([]byte(fmt.Sprint(k + 1)))},
				Op{K: "connect", Src: id, ID: "Node-0", Port: fmt.Sprintf("Values.%d", k)})
		}
		ops = append(ops, Op{K: "create", Ty: "join"}, Op{K: "connect", Src: "Node-0", ID: fmt.Sprintf("Node-%d", n+1), Port: "Numbers.0"},
			Op{K: "create", Ty: "text"}, Op{K: "connect", Src: fmt.Sprintf("Node-%d", n+1), ID: fmt.Sprintf("Node-%d", n+2), Port: "In"},
			Op{K: "producer", ID: fmt.Sprintf("Node-%d", n+2), S: "sum.txt"})
		out = append(out, hist(ops...))
	}
	// a middle disconnect, then a reconnect
	out = append(out, hist(Op{K: "create", Ty: "join"}, Op{K: "create", Ty: "str"}, Op{K: "create", Ty: "str"}, Op{K: "create", Ty: "str"},
		Op{K: "update", ID: "Node-1", Msg: b64([]byte(`"a"`))}, Op{K: "update", ID: "Node-2", Msg: b64([]byte(`"b"`))}, Op{K: "update", ID: "Node-3", Msg: b64([]byte(`"c"`))},
		Op{K: "connect", Src: "Node-1", ID: "Node-0", Port: "Parts.0"}, Op{K: "connect", Src: "Node-2", ID: "Node-0", Port: "Parts.1"},
		Op{K: "connect", Src: "Node-3", ID: "Node-0", Port: "Parts.2"}, Op{K: "disconnect", ID: "Node-0", Port: "Parts.1"},
		Op{K: "connect", Src: "Node-2", ID: "Node-0", Port: "Parts.2"},
		Op{K: "create", Ty: "text"}, Op{K: "connect", Src: "Node-0", ID: "Node-4", Port: "In"}, Op{K: "producer", ID: "Node-4", S: "p.txt"}))
	// disconnect requests whose index carries a sign (strconv.Atoi reads "+1" as 1 and "-0" as 0)
	out = append(out, hist(Op{K: "create", Ty: "sum"}, Op{K: "create", Ty: "f64"}, Op{K: "create", Ty: "f64"}, Op{K: "create", Ty: "f64"},
		Op{K: "update", ID: "Node-1", Msg: b64([]byte("1"))}, Op{K: "update", ID: "Node-2", Msg: b64([]byte("2"))}, Op{K: "update", ID: "Node-3", Msg: b64([]byte("3"))},
		Op{K: "connect", Src: "Node-1", ID: "Node-0", Port: "Values.0"}, Op{K: "connect", Src: "Node-2", ID: "Node-0", Port: "Values.1"},
		Op{K: "connect", Src: "Node-3", ID: "Node-0", Port: "Values.2"}, Op{K: "connect", Src: "Node-1", ID: "Node-0", Port: "Values.3"},
		Op{K: "disconnect", ID: "Node-0", Port: "Values.+1"}, Op{K: "disconnect", ID: "Node-0", Port: "Values.-1"},
		Op{K: "disconnect", ID: "Node-0", Port: "Values.-0"}, Op{K: "disconnect", ID: "Node-0", Port: "Values.+-0"},
		Op{K: "disconnect", ID: "Node-0", Port: "Values.+07"}, Op{K: "disconnect", ID: "Node-0", Port: "Values.+01"}))
	// a Value[T] type whose registered record is not empty: name, description and value set back to the empty ones
	out = append(out, hist(Op{K: "create", Ty: "f32"}, Op{K: "create", Ty: "strs"}, Op{K: "name", ID: "Node-0", S: ""}, Op{K: "desc", ID: "Node-0", S: ""},
		Op{K: "update", ID: "Node-0", Msg: b64([]byte("0"))}, Op{K: "name", ID: "Node-1", S: ""}, Op{K: "update", ID: "Node-1", Msg: b64([]byte("[]"))}),
		hist(Op{K: "create", Ty: "f32"}, Op{K: "create", Ty: "strs"}, Op{K: "desc", ID: "Node-0", S: ""}, Op{K: "desc", ID: "Node-1", S: "now described"},
			Op{K: "update", ID: "Node-1", Msg: b64([]byte("null"))}))
	// delete then create: the id allocation rule (ids 0 1 2, delete 0, create -> Node-3; delete 3, create -> Node-3)
	out = append(out, hist(Op{K: "create", Ty: "f64"}, Op{K: "create", Ty: "int"}, Op{K: "create", Ty: "str"}, Op{K: "delete", ID: "Node-0"},
		Op{K: "create", Ty: "bool"}, Op{K: "delete", ID: "Node-3"}, Op{K: "create", Ty: "v2"}, Op{K: "delete", ID: "Node-1"}, Op{K: "create", Ty: "v3"},
		Op{K: "name", ID: "Node-2", S: "kept"}, Op{K: "desc", ID: "Node-3", S: "recreated"}))
	// two File parameters (DESIGN.md §5 entry 23) with descriptions (entry 22)
	out = append(out, hist(Op{K: "create", Ty: "file"}, Op{K: "create", Ty: "file"}, Op{K: "update", ID: "Node-0", Msg: b64([]byte("AAA"))},
		Op{K: "update", ID: "Node-1", Msg: b64([]byte("BB"))}, Op{K: "desc", ID: "Node-0", S: "first file"}, Op{K: "name", ID: "Node-1", S: "second"},
		Op{K: "create", Ty: "binary"}, Op{K: "connect", Src: "Node-0", ID: "Node-2", Port: "In"}, Op{K: "producer", ID: "Node-2", S: "a.bin"}))
	// one File parameter, last in the buffer: no over-read
	out = append(out, hist(Op{K: "create", Ty: "image"}, Op{K: "create", Ty: "file"}, Op{K: "update", ID: "Node-1", Msg: b64([]byte{0, 1, 2, 255})},
		Op{K: "desc", ID: "Node-1", S: "only file"}, Op{K: "create", Ty: "binary"}, Op{K: "connect", Src: "Node-1", ID: "Node-2", Port: "In"},
		Op{K: "producer", ID: "Node-2", S: "a.bin"}))
	// Image parameter with a description
	png1 := genPNG(hx.NewRng(7))
	out = append(out, hist(Op{K: "create", Ty: "image"}, Op{K: "update", ID: "Node-0", Msg: b64(png1)}, Op{K: "desc", ID: "Node-0", S: "an image"},
		Op{K: "name", ID: "Node-0", S: "texture"}, Op{K: "create", Ty: "imageart"}, Op{K: "connect", Src: "Node-0", ID: "Node-1", Port: "In"},
		Op{K: "producer", ID: "Node-1", S: "t.png"}))
	// producers: rename, re-point, delete the producing node; metadata set / nested / delete
	out = append(out, hist(Op{K: "create", Ty: "text"}, Op{K: "create", Ty: "text"}, Op{K: "producer", ID: "Node-0", S: "a.txt"},
		Op{K: "producer", ID: "Node-0", S: "b.txt"}, Op{K: "producer", ID: "Node-1", S: "b.txt"}, Op{K: "producer", ID: "Node-0", S: "c.txt"},
		Op{K: "setmeta", S: "nodes.Node-0.position", V: `{"x":10.5,"y":-3}`}, Op{K: "setmeta", S: "nodes.Node-1", V: `{"position":{"x":1,"y":2}}`},
		Op{K: "setmeta", S: "notes.n1", V: `{"text":"hi","zeta":[1,{"b":null,"a":true}]}`}, Op{K: "setmeta", S: "nodes.Node-1.position.x", V: `7`},
		Op{K: "setmeta", S: "nodes.Node-1.position.x.y", V: `1`}, Op{K: "delmeta", S: "nodes.Node-0.position"}, Op{K: "delmeta", S: "nope.x"},
		Op{K: "setmeta", S: "empty", V: `{}`}, Op{K: "delete", ID: "Node-1"}))
	return out
}
